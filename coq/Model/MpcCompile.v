(* C01 deep model: Gallina mirror of the MPC compiler's per-graph step, as a graph-to-graph
   function on the IR of Graph/IR.v.  Mirrors, function by function,
     mpc_compiler.rs:220  propagate_private_annotations
     resharing.rs:16-243  ResharingConfig (local_operation_handler, ensure_dependencies_are_reshared,
                          compute_graph_resharing, sanity_pass), get_nodes_to_reshare
     mpc_compiler.rs:355  compile_to_mpc_graph with its apply_op closure
     mpc_arithmetic.rs:586/591/513 add_mpc / subtract_mpc / general_multiply_mpc (one Custom node
                          each; the node type is the output type of CustomOperationBody::instantiate,
                          mpc_arithmetic.rs:18/86/225)
     resharing.rs:246     reshare;  mpc_compiler.rs:83/198/212 recursively_generate_node_shares /
                          get_node_shares / get_zero_shares;  mpc_compiler.rs:867 recursively_sum_shares
   Node types of the emitted graph are computed as Graph::add_node does, by type inference
   (Graph/Typing.v [infer], tied to the code by C09).

   Fragment: the operations of [mpc_mirrored_op] (everything compile_to_mpc_graph accepts except
   MixedMultiply, Truncate, A2B, B2A, Join, ApplyPermutation, Sort) over all types.  Operations the compiler itself rejects are answered with [Err] like the code;
   operations the compiler accepts but this file does not mirror make [mpc_mirrored] false (the tie
   feeds only graphs with [mpc_mirrored = true], and checks it).  Definitions only. *)
From CC Require Import Base.Prelude Base.Scalar Base.Ty Base.Shape Graph.Value Graph.IR Graph.Eval Graph.Typing.

(* ---------- sets of node ids (HashSet<Node> of one graph) ---------- *)
Definition mem (i : Z) (s : list Z) : bool := existsb (Z.eqb i) s.
Definition set_insert (i : Z) (s : list Z) : list Z := if mem i s then s else i :: s.
Definition set_remove (i : Z) (s : list Z) : list Z := filter (fun j => negb (j =? i)) s.
(* the ids of a set in increasing order (what the hook private_and_reshared returns) *)
Definition sorted_ids (n : Z) (s : list Z) : list Z := filter (fun i => mem i s) (zrange n).

(* state-passing map: the emitted graph is threaded through every helper *)
Fixpoint mapS {A B S : Type} (f : A -> S -> result (S * B)) (l : list A) (s : S) : result (S * list B) :=
  match l with
  | [] => Ok (s, [])
  | x :: xs => let* (s1, y) := f x s in let* (s2, ys) := mapS f xs s1 in Ok (s2, y :: ys)
  end.

(* ---------- what is mirrored ---------- *)
(* operations compile_to_mpc_graph accepts but this model does not mirror *)
Definition mpc_mirrored_op (o : op) : bool :=
  match o with
  | OMixedMultiply | OTruncate _ | OA2B | OB2A _ | OJoin _ _ | OJoinWithColumnMasks _ _
  | OApplyPermutation _ | OSort _ => false
  | _ => true
  end.
Definition mpc_mirrored (nodes : list node) : bool :=
  forallb (fun nd => mpc_mirrored_op (n_op nd)) nodes.

(* ---------- mpc_compiler.rs:59 is_one_node_private, :68 are_all_nodes_private ---------- *)
Definition is_one_node_private (deps : list Z) (priv : list Z) : bool := existsb (fun d => mem d priv) deps.
Definition are_all_nodes_private (deps : list Z) (priv : list Z) : bool := forallb (fun d => mem d priv) deps.

(* mpc_compiler.rs:220 propagate_private_annotations.  State: private set, use_prf_for_mul, the
   is_input_private entries not yet consumed.  use_prf_for_b2a / use_prf_for_truncate2k stay false
   in the fragment (B2A and Truncate are not mirrored). *)
Definition is_bilinear_all_private_op (o : op) : bool :=
  match o with OMultiply | ODot | OMatmul | OGemm _ _ => true | _ => false end.

Definition ppa_step (i : Z) (nd : node) (st : list Z * bool * list bool) : result (list Z * bool * list bool) :=
  let '(priv, mul, flags) := st in
  let deps := n_deps nd in
  match n_op nd with
  | OInput _ =>
      match flags with
      | [] => Panic                                           (* is_input_private[input_id] *)
      | b :: fl => Ok (if b then set_insert i priv else priv, mul, fl)
      end
  | OAdd | OSubtract | OMultiply | ODot | OMatmul | OGemm _ _ | OPermuteAxes _ | OArrayToVector
  | OTupleGet _ | ONamedTupleGet _ | OVectorToArray | OGetSlice _ | OReshape _ | OSum _ | OCumSum _
  | OGet _ | OCreateTuple | OCreateNamedTuple _ | OCreateVector _ | OStack _ | OConcatenate _ | OZip
  | ORepeat _ =>
      let priv' := if is_one_node_private deps priv then set_insert i priv else priv in
      let mul' := mul || (is_bilinear_all_private_op (n_op nd) && are_all_nodes_private deps priv') in
      Ok (priv', mul', flags)
  | OConstant _ _ | OZeros _ | OOnes _ => Ok st
  | OVectorGet =>                                              (* :326 *)
      let* d0 := znth deps 0 in
      let* d1 := znth deps 1 in
      if mem d1 priv then Err                                  (* VectorGet can't have a private index *)
      else Ok (if mem d0 priv then set_insert i priv else priv, mul, flags)
  | _ => Err                                                  (* rejected, or not mirrored *)
  end.

Fixpoint ppa_loop (nodes : list node) (i : Z) (st : list Z * bool * list bool) : result (list Z * bool * list bool) :=
  match nodes with
  | [] => Ok st
  | nd :: r => let* st' := ppa_step i nd st in ppa_loop r (i + 1) st'
  end.

Definition propagate_private_annotations (nodes : list node) (is_input_private : list bool) : result (list Z * bool) :=
  let* (pm, _) := ppa_loop nodes 0 ([], false, is_input_private) in Ok pm.

(* ---------- resharing.rs: the planner ---------- *)
(* graphs.rs:200 is_broadcasting_called, :213 is_mpc_compiled *)
Definition is_broadcasting_called (o : op) : bool :=
  match o with OAdd | OSubtract | OMultiply | OMatmul | OGemm _ _ | OMixedMultiply | OStack _ => true | _ => false end.
Definition is_mpc_compiled (o : op) : bool :=
  match o with
  | OInput _ | OZeros _ | OOnes _ | OAdd | OSubtract | OMultiply | OMixedMultiply | ODot | OMatmul
  | OGemm _ _ | OTruncate _ | OSum _ | OCumSum _ | OPermuteAxes _ | OGet _ | OGetSlice _ | OReshape _
  | OStack _ | OConcatenate _ | OConstant _ _ | OA2B | OB2A _ | OCreateTuple | OCreateNamedTuple _
  | OCreateVector _ | OTupleGet _ | ONamedTupleGet _ | OVectorGet | OZip | ORepeat _ | OArrayToVector
  | OVectorToArray | OJoin _ _ | OJoinWithColumnMasks _ _ | OApplyPermutation _ | OSort _ => true
  | _ => false
  end.

(* resharing.rs:9 ResharingConfig *)
Record rconfig := mkRC { nodes_to_reshare : list Z; unreshared_nodes : list Z }.

(* resharing.rs:67 ensure_dependencies_are_reshared *)
Definition ensure_dependencies_are_reshared (nd : node) (c : rconfig) : rconfig :=
  fold_left (fun c d =>
               if mem d (unreshared_nodes c)
               then mkRC (set_insert d (nodes_to_reshare c)) (set_remove d (unreshared_nodes c))
               else c) (n_deps nd) c.

(* resharing.rs:25 local_operation_handler; the u64 accumulation overflows (debug profile) to Panic *)
Definition local_operation_handler (nodes : list node) (i : Z) (nd : node) (c : rconfig) : result rconfig :=
  let deps := n_deps nd in
  if is_broadcasting_called (n_op nd) then
    let* unreshared_input_size :=
      fold_left (fun acc d =>
                   let* a := acc in
                   if mem d (unreshared_nodes c)
                   then let* dn := znth nodes d in
                        let* s := size_in_bits (n_ty dn) in
                        if u64_max <? a + s then Panic else Ok (a + s)
                   else Ok a) deps (Ok 0) in
    let* output_size := size_in_bits (n_ty nd) in
    if unreshared_input_size <? output_size then Ok (ensure_dependencies_are_reshared nd c)
    else if 0 <? unreshared_input_size then Ok (mkRC (nodes_to_reshare c) (set_insert i (unreshared_nodes c)))
    else Ok c
  else
    if existsb (fun d => mem d (unreshared_nodes c)) deps
    then Ok (mkRC (nodes_to_reshare c) (set_insert i (unreshared_nodes c)))
    else Ok c.

(* resharing.rs:89-173, one iteration of the loop of compute_graph_resharing *)
Definition cgr_step (nodes : list node) (priv : list Z) (i : Z) (nd : node) (c : rconfig) : result rconfig :=
  if negb (mem i priv) then Ok c else
  if negb (is_mpc_compiled (n_op nd)) then Err else
  match n_op nd with
  | OInput _ => Ok c
  | OAdd | OSubtract | OSum _ | OCumSum _ | OGet _ | OStack _ | OConcatenate _ | OReshape _
  | OPermuteAxes _ | OZip | ORepeat _ | OTupleGet _ | OCreateNamedTuple _ | ONamedTupleGet _
  | OVectorToArray | OVectorGet | OCreateTuple | OArrayToVector | OCreateVector _ =>
      local_operation_handler nodes i nd c
  | OMultiply | ODot | OMatmul | OGemm _ _ =>
      if forallb (fun d => mem d priv) (n_deps nd) then
        let c' := ensure_dependencies_are_reshared nd c in
        Ok (mkRC (nodes_to_reshare c') (set_insert i (unreshared_nodes c')))
      else local_operation_handler nodes i nd c
  | OGetSlice _ => Ok (ensure_dependencies_are_reshared nd c)
  | _ => Err
  end.

(* resharing.rs:186 sanity_pass, one iteration *)
Definition sanity_step (shared : list Z) (i : Z) (nd : node) (c : rconfig) : rconfig :=
  let deps := n_deps nd in
  if is_bilinear_all_private_op (n_op nd) && forallb (fun d => mem d shared) deps then c else
  let dep_unreshared (c : rconfig) := existsb (fun d => mem d (unreshared_nodes c)) deps in
  let c1 := if mem i (nodes_to_reshare c) && negb (dep_unreshared c)
            then mkRC (set_remove i (nodes_to_reshare c)) (unreshared_nodes c) else c in
  if mem i (unreshared_nodes c1) && negb (dep_unreshared c1)
  then mkRC (nodes_to_reshare c1) (set_remove i (unreshared_nodes c1)) else c1.

Fixpoint cgr_loop (all : list node) (priv : list Z) (nodes : list node) (i : Z) (c : rconfig) : result rconfig :=
  match nodes with
  | [] => Ok c
  | nd :: r => let* c' := cgr_step all priv i nd c in cgr_loop all priv r (i + 1) c'
  end.
Fixpoint sanity_loop (shared : list Z) (nodes : list node) (i : Z) (c : rconfig) : rconfig :=
  match nodes with
  | [] => c
  | nd :: r => sanity_loop shared r (i + 1) (sanity_step shared i nd c)
  end.

(* resharing.rs:79 compute_graph_resharing, :236 get_nodes_to_reshare; [output] is the id of the
   graph's output node *)
Definition compute_graph_resharing (nodes : list node) (output : Z) (priv : list Z) : result rconfig :=
  let* c := cgr_loop nodes priv nodes 0 (mkRC [] []) in
  let c1 := if mem output (unreshared_nodes c)
            then mkRC (set_insert output (nodes_to_reshare c)) (unreshared_nodes c) else c in
  Ok (sanity_loop priv nodes 0 c1).
Definition get_nodes_to_reshare (nodes : list node) (output : Z) (priv : list Z) : result (list Z) :=
  let* c := compute_graph_resharing nodes output priv in Ok (nodes_to_reshare c).

(* the observation of the hook verif_hooks::private_and_reshared: both sets, sorted *)
Definition private_and_reshared (nodes : list node) (output : Z) (is_input_private : list bool)
  : result (list Z * list Z) :=
  let* (priv, _) := propagate_private_annotations nodes is_input_private in
  let* r := get_nodes_to_reshare nodes output priv in
  Ok (sorted_ids (zlen nodes) priv, sorted_ids (zlen nodes) r).

(* ---------- emitting nodes into the output graph ---------- *)
(* the three gadgets emitted as Custom nodes *)
Inductive gadget := GAdd | GSub | GBil (prim : op).

Definition bool_name (b : bool) : string := if b then "true"%string else "false"%string.
(* CustomOperationBody::get_name, mpc_arithmetic.rs:76,156,290,304,318,339 *)
Definition gadget_name (g : gadget) : string :=
  match g with
  | GAdd => "AddMPC"
  | GSub => "SubtractMPC"
  | GBil OMultiply => "MultiplyMPC"
  | GBil ODot => "DotMPC"
  | GBil OMatmul => "MatmulMPC"
  | GBil (OGemm a b) => "GemmMPC-" ++ bool_name a ++ "-" ++ bool_name b
  | GBil _ => "?"
  end%string.

(* mpc_compiler.rs:40 check_private_tuple *)
Definition check_private_tuple (v : list ty) : result unit :=
  if negb (zlen v =? 3) then Err else
  match v with
  | t :: rest => if forallb (fun c => ty_eqb t c) rest then Ok tt else Err
  | [] => Err
  end.

Definition parties : list Z := [0; 1; 2].
Definition tuple_of_shares (rs : list ty) : result ty := infer OCreateTuple rs.
Definition tget (t : ty) (i : Z) : result ty := infer (OTupleGet i) [t].

(* output type of AddMPC / SubtractMPC / instantiate_bilinear_product::instantiate on the argument
   types: the type of the output node of the instantiated graph (type_inference.rs:1664) *)
Definition gadget_ty (g : gadget) (ts : list ty) : result ty :=
  match ts with
  | [t0; t1] =>
      match t0, t1 with
      | TTuple v0, TTuple v1 =>
          let* _ := check_private_tuple v0 in
          let* _ := check_private_tuple v1 in
          let* rs :=
            mapM (fun i =>
                    match g with
                    | GAdd => let* a := tget t0 i in let* b := tget t1 i in infer OAdd [a; b]
                    | GSub => let* a := tget t0 i in let* b := tget t1 i in infer OSubtract [a; b]
                    | GBil prim =>                        (* private_product, mpc_arithmetic.rs:197 *)
                        let ip1 := (i + 1) mod 3 in
                        let* x_i := tget t0 i in let* x_ip1 := tget t0 ip1 in
                        let* y_i := tget t1 i in let* y_ip1 := tget t1 ip1 in
                        let* z1 := infer OAdd [y_i; y_ip1] in
                        let* z2 := infer prim [x_i; z1] in
                        let* z3 := infer prim [x_ip1; y_i] in
                        infer OAdd [z2; z3]
                    end) parties in
          tuple_of_shares rs
      | TTuple v0, (TScalar _ | TArray _ _) =>
          let* _ := check_private_tuple v0 in
          let* rs :=
            mapM (fun i =>
                    let* a := tget t0 i in
                    match g with
                    | GAdd => infer OAdd [a; t1]
                    | GSub => infer OSubtract [a; t1]
                    | GBil prim => infer prim [a; t1]      (* mixed_product, swap_flag = false *)
                    end) parties in
          tuple_of_shares rs
      | (TScalar _ | TArray _ _), TTuple v1 =>
          let* _ := check_private_tuple v1 in
          let* rs :=
            mapM (fun i =>
                    let* b := tget t1 i in
                    match g with
                    | GAdd => infer OAdd [b; t0]           (* adder(i1, i0, false) *)
                    | GSub => infer OSubtract [t0; b]
                    | GBil prim => infer prim [t0; b]      (* mixed_product, swap_flag = true *)
                    end) parties in
          tuple_of_shares rs
      | (TScalar _ | TArray _ _), (TScalar _ | TArray _ _) =>
          match g with
          | GAdd => infer OAdd [t0; t1]
          | GSub => infer OSubtract [t0; t1]
          | GBil prim => infer prim [t0; t1]
          end
      | _, _ => Panic                                      (* "Inconsistency with type checker" *)
      end
  | _ => Err
  end.

Definition out_ty (out : list node) (d : Z) : result ty := let* n := znth out d in Ok (n_ty n).

(* graphs.rs:3389 Graph::add_node: the new node gets the next id, its type is inferred from the
   types of its dependencies; [an] are the annotations attached right after creation *)
Definition emit (o : op) (deps : list Z) (an : list annot) (out : list node) : result (list node * Z) :=
  let* ts := mapM (out_ty out) deps in
  let* t := infer o ts in
  Ok (out ++ [mkNode o deps [] an t], zlen out).

(* graphs.rs:3313 custom_op *)
Definition emit_gadget (g : gadget) (deps : list Z) (out : list node) : result (list node * Z) :=
  let* ts := mapM (out_ty out) deps in
  let* t := gadget_ty g ts in
  let* t' := register t in
  Ok (out ++ [mkNode (OCustom (gadget_name g)) deps [] [] t'], zlen out).

(* graphs.rs:1342 Node::add_annotation: appended to the annotations of that node *)
Definition add_annotation (id : Z) (a : annot) (out : list node) : result (list node) :=
  let* nd := znth out id in
  let n := Z.to_nat id in
  Ok (firstn n out ++ [mkNode (n_op nd) (n_deps nd) (n_gdeps nd) (n_annots nd ++ [a]) (n_ty nd)] ++ skipn (S n) out).

(* ---------- the bodies of the gadgets: CustomOperationBody::instantiate ---------- *)
(* mpc_arithmetic.rs:33 the adder closure of AddMPC::instantiate *)
Definition adder_body (l r : Z) (is_r_private : bool) (out : list node) : result (list node * Z) :=
  let* (out1, outputs) :=
    mapS (fun i out =>
            let* (o1, a0i) := emit (OTupleGet i) [l] [] out in
            if is_r_private then
              let* (o2, a1i) := emit (OTupleGet i) [r] [] o1 in emit OAdd [a0i; a1i] [] o2
            else if i =? 0 then emit OAdd [a0i; r] [] o1
            else let* tr := out_ty o1 r in
                 let* (o2, z) := emit (OZeros tr) [] [] o1 in emit OAdd [a0i; z] [] o2)
         parties out in
  emit OCreateTuple outputs [] out1.

(* mpc_arithmetic.rs:102-146 the four cases of SubtractMPC::instantiate *)
Definition subtract_body (t0 t1 : ty) (i0 i1 : Z) (out : list node) : result (list node * Z) :=
  match t0, t1 with
  | TTuple v0, TTuple v1 =>
      let* _ := check_private_tuple v0 in
      let* _ := check_private_tuple v1 in
      let* (out1, outputs) :=
        mapS (fun i out =>
                let* (o1, a0i) := emit (OTupleGet i) [i0] [] out in
                let* (o2, a1i) := emit (OTupleGet i) [i1] [] o1 in
                emit OSubtract [a0i; a1i] [] o2) parties out in
      emit OCreateTuple outputs [] out1
  | TTuple v0, (TScalar _ | TArray _ _) =>
      let* _ := check_private_tuple v0 in
      let* (o0, zero) := emit (OZeros t1) [] [] out in
      let* (out1, outputs) :=
        mapS (fun i out =>
                let* (o1, a0i) := emit (OTupleGet i) [i0] [] out in
                if i =? 0 then emit OSubtract [a0i; i1] [] o1 else emit OSubtract [a0i; zero] [] o1) parties o0 in
      emit OCreateTuple outputs [] out1
  | (TScalar _ | TArray _ _), TTuple v1 =>
      let* _ := check_private_tuple v1 in
      let* (o0, zero) := emit (OZeros t0) [] [] out in
      let* (out1, outputs) :=
        mapS (fun i out =>
                let* (o1, a1i) := emit (OTupleGet i) [i1] [] out in
                if i =? 0 then emit OSubtract [i0; a1i] [] o1 else emit OSubtract [zero; a1i] [] o1) parties o0 in
      emit OCreateTuple outputs [] out1
  | (TScalar _ | TArray _ _), (TScalar _ | TArray _ _) => emit OSubtract [i0; i1] [] out
  | _, _ => Panic
  end.

(* mpc_arithmetic.rs:173 mixed_product *)
Definition mixed_product_body (prim : op) (node0 node1 : Z) (swap_flag : bool) (out : list node) : result (list node * Z) :=
  let* (out1, outputs) :=
    mapS (fun i out =>
            if swap_flag then
              let* (o1, share) := emit (OTupleGet i) [node1] [] out in emit prim [node0; share] [] o1
            else
              let* (o1, share) := emit (OTupleGet i) [node0] [] out in emit prim [share; node1] [] o1)
         parties out in
  emit OCreateTuple outputs [] out1.

(* mpc_arithmetic.rs:197 private_product *)
Definition private_product_body (prim : op) (node0 node1 : Z) (out : list node) : result (list node * Z) :=
  let* (out1, shares) :=
    mapS (fun i out =>
            let* (o1, s0) := emit (OTupleGet i) [node0] [] out in
            let* (o2, s1) := emit (OTupleGet i) [node1] [] o1 in
            Ok (o2, (s0, s1))) parties out in
  let shares0 := map fst shares in
  let shares1 := map snd shares in
  let* (out2, z_shares) :=
    mapS (fun i out =>
            let ip1 := (i + 1) mod 3 in
            let* x_i := znth shares0 i in let* x_ip1 := znth shares0 ip1 in
            let* y_i := znth shares1 i in let* y_ip1 := znth shares1 ip1 in
            let* (o1, z1) := emit OAdd [y_i; y_ip1] [] out in
            let* (o2, z2) := emit prim [x_i; z1] [] o1 in
            let* (o3, z3) := emit prim [x_ip1; y_i] [] o2 in
            emit OAdd [z2; z3] [] o3) parties out1 in
  emit OCreateTuple z_shares [] out2.

(* AddMPC::instantiate :18, SubtractMPC::instantiate :86, instantiate_bilinear_product :225: the
   instantiated graph (its nodes and the id of its output node) on the argument types *)
Definition gadget_body (g : gadget) (ts : list ty) : result (list node * Z) :=
  match ts with
  | [t0; t1] =>
      let* (o1, i0) := emit (OInput t0) [] [] [] in
      let* (o2, i1) := emit (OInput t1) [] [] o1 in
      match g with
      | GSub => subtract_body t0 t1 i0 i1 o2
      | _ =>
          match t0, t1 with
          | TTuple v0, TTuple v1 =>
              let* _ := check_private_tuple v0 in
              let* _ := check_private_tuple v1 in
              match g with GBil prim => private_product_body prim i0 i1 o2 | _ => adder_body i0 i1 true o2 end
          | TTuple v0, (TScalar _ | TArray _ _) =>
              let* _ := check_private_tuple v0 in
              match g with GBil prim => mixed_product_body prim i0 i1 false o2 | _ => adder_body i0 i1 false o2 end
          | (TScalar _ | TArray _ _), TTuple v1 =>
              let* _ := check_private_tuple v1 in
              match g with GBil prim => mixed_product_body prim i0 i1 true o2 | _ => adder_body i1 i0 false o2 end
          | (TScalar _ | TArray _ _), (TScalar _ | TArray _ _) =>
              match g with GBil prim => emit prim [i0; i1] [] o2 | _ => emit OAdd [i0; i1] [] o2 end
          | _, _ => Panic
          end
      end
  | _ => Err
  end.

(* ---------- mpc_compiler.rs:416 the apply_op closure ---------- *)
(* the dependencies of share i: :437-452 *)
Fixpoint share_vec (priv : list Z) (i : Z) (olds news : list Z) (out : list node) : result (list node * list Z) :=
  match olds with
  | [] => Ok (out, [])
  | o :: olds' =>
      match news with
      | [] => Panic                                          (* node_dependencies[j] *)
      | nw :: news' =>
          let* (out1, s) :=
            if mem o priv then emit (OTupleGet i) [nw] [] out
            else if i =? 0 then Ok (out, nw)
            else let* t := out_ty out nw in emit (OZeros t) [] [] out in
          let* (out2, rest) := share_vec priv i olds' news' out1 in
          Ok (out2, s :: rest)
      end
  end.

(* the dependencies of share i, :430-455: VectorGet takes share i of the vector and the public index *)
Definition op_shares (priv : list Z) (o : op) (i : Z) (olds news : list Z) (out : list node)
  : result (list node * list Z) :=
  match o with
  | OVectorGet =>
      let* d0 := znth news 0 in
      let* (out1, s) := emit (OTupleGet i) [d0] [] out in
      let* d1 := znth news 1 in
      Ok (out1, [s; d1])
  | _ => share_vec priv i olds news out
  end.

Definition apply_op (priv : list Z) (node_to_be_private : Z) (o : op) (news olds : list Z) (out : list node)
  : result (list node * Z) :=
  if negb (mem node_to_be_private priv) then emit o news [] out else
  match o with
  | OInput t => emit (OInput (TTuple [t; t; t])) [] [] out
  | _ =>
      let* (out1, result_shares) :=
        mapS (fun i out => let* (out', share) := op_shares priv o i olds news out in emit o share [] out')
             parties out in
      emit OCreateTuple result_shares [] out1
  end.

(* ---------- mpc_compiler.rs:83 recursively_generate_node_shares with node_to_share = None ---------- *)
Fixpoint generate_zero_shares (t : ty) (prf_keys : list Z) (out : list node) {struct t} : result (list node * list Z) :=
  match t with
  | TScalar _ | TArray _ _ =>
      let* (out1, random_shares) := mapS (fun key out => emit (OPRF 0 t) [key] [] out) prf_keys out in
      mapS (fun i out =>
              let* a := znth random_shares i in
              let* b := znth random_shares ((i + 1) mod 3) in
              emit OSubtract [a; b] [] out) parties out1
  | TTuple ts =>
      let* (out1, subs) :=
        (fix go (ts : list ty) (out : list node) : result (list node * list (list Z)) :=
           match ts with
           | [] => Ok (out, [])
           | st :: r =>
               let* (out', s) := generate_zero_shares st prf_keys out in
               let* (out'', ss) := go r out' in
               Ok (out'', s :: ss)
           end) ts out in
      mapS (fun party out => let* el := mapM (fun s => znth s party) subs in emit OCreateTuple el [] out)
           parties out1
  | TVector n et =>                                          (* :142; node_to_share = None: no index constants *)
      let* (out1, subs) :=
        (fix rep (k : nat) (out : list node) : result (list node * list (list Z)) :=
           match k with
           | O => Ok (out, [])
           | S k' =>
               let* (out', s) := generate_zero_shares et prf_keys out in
               let* (out'', ss) := rep k' out' in
               Ok (out'', s :: ss)
           end) (Z.to_nat n) out in
      mapS (fun party out => let* el := mapM (fun s => znth s party) subs in emit (OCreateVector et) el [] out)
           parties out1
  | TNamed fs =>                                             (* :169 *)
      let* (out1, subs) :=
        (fix go (fs : list (string * ty)) (out : list node) : result (list node * list (list Z)) :=
           match fs with
           | [] => Ok (out, [])
           | f :: r =>
               let* (out', s) := generate_zero_shares (snd f) prf_keys out in
               let* (out'', ss) := go r out' in
               Ok (out'', s :: ss)
           end) fs out in
      mapS (fun party out =>
              let* el := mapM (fun s => znth s party) subs in
              emit (OCreateNamedTuple (map fst fs)) el [] out)
           parties out1
  end.

(* mpc_compiler.rs:198 get_node_shares / :212 get_zero_shares *)
Definition get_zero_shares (prf_keys : Z) (t : ty) (out : list node) : result (list node * list Z) :=
  let* (out1, keys) := mapS (fun i out => emit (OTupleGet i) [prf_keys] [] out) parties out in
  generate_zero_shares t keys out1.

(* mpc_compiler.rs:867 recursively_sum_shares; [t] is the type of shares[0] *)
Fixpoint sum_shares (t : ty) (shares : list Z) (out : list node) {struct t} : result (list node * Z) :=
  match t with
  | TScalar _ | TArray _ _ =>
      match shares with
      | [] => Panic                                          (* shares[0] *)
      | s0 :: rest =>
          fold_left (fun acc share => let* (out, res) := acc in emit OAdd [res; share] [] out) rest (Ok (out, s0))
      end
  | TTuple ts =>
      let* (out1, revealed) :=
        (fix go (ts : list ty) (i : Z) (out : list node) : result (list node * list Z) :=
           match ts with
           | [] => Ok (out, [])
           | st :: r =>
               let* (out1, sub_shares) := mapS (fun share out => emit (OTupleGet i) [share] [] out) shares out in
               let* (out2, rv) := sum_shares st sub_shares out1 in
               let* (out3, rest) := go r (i + 1) out2 in
               Ok (out3, rv :: rest)
           end) ts 0 out in
      emit OCreateTuple revealed [] out1
  | TVector n et =>                                          (* :890 *)
      let* (out1, revealed) :=
        (fix rep (k : nat) (i : Z) (out : list node) : result (list node * list Z) :=
           match k with
           | O => Ok (out, [])
           | S k' =>
               let* (out0, i_node) := emit (OConstant (TScalar U64) (VArr [i])) [] [] out in
               let* (out1, sub_shares) := mapS (fun share out => emit OVectorGet [share; i_node] [] out) shares out0 in
               let* (out2, rv) := sum_shares et sub_shares out1 in
               let* (out3, rest) := rep k' (i + 1) out2 in
               Ok (out3, rv :: rest)
           end) (Z.to_nat n) 0 out in
      emit (OCreateVector et) revealed [] out1
  | TNamed fs =>                                             (* :904 *)
      let* (out1, revealed) :=
        (fix go (fs : list (string * ty)) (out : list node) : result (list node * list Z) :=
           match fs with
           | [] => Ok (out, [])
           | f :: r =>
               let* (out1, sub_shares) := mapS (fun share out => emit (ONamedTupleGet (fst f)) [share] [] out) shares out in
               let* (out2, rv) := sum_shares (snd f) sub_shares out1 in
               let* (out3, rest) := go r out2 in
               Ok (out3, rv :: rest)
           end) fs out in
      emit (OCreateNamedTuple (map fst fs)) revealed [] out1
  end.

(* .unwrap() of a Result *)
Definition unwrap {A} (r : result A) : result A := match r with Err => Panic | x => x end.

(* resharing.rs:246 reshare *)
Definition reshare (input_shares prf_keys : Z) (out : list node) : result (list node * Z) :=
  let* (out1, input_shares_vec) :=
    mapS (fun i out => unwrap (emit (OTupleGet i) [input_shares] [] out)) parties out in
  let* in0 := znth input_shares_vec 0 in
  let* t := out_ty out1 in0 in
  let* (out2, zero_shares) := get_zero_shares prf_keys t out1 in
  let* (out3, output_shares_vec) :=
    mapS (fun i out =>
            let* a := znth input_shares_vec i in
            let* z := znth zero_shares i in
            let* (out', masked) := sum_shares t [a; z] out in
            emit ONOP [masked] [ASend i ((i + 3 - 1) mod 3)] out') parties out2 in
  emit OCreateTuple output_shares_vec [] out3.

(* ---------- mpc_compiler.rs:355 compile_to_mpc_graph ---------- *)
Definition is_tuple (t : ty) : bool := match t with TTuple _ => true | _ => false end.
Definition key_t : ty := TArray [128] Bit.
Definition keys_type : ty := TTuple [key_t; key_t; key_t].

(* one iteration of the loop :464-728; [omap] is out_mapping restricted to this graph *)
Definition compile_node (priv resh : list Z) (prf_keys_mul : option Z) (i : Z) (nd : node)
           (omap : list Z) (out : list node) : result (list node * Z) :=
  let deps := n_deps nd in
  let o := n_op nd in
  let* (out1, new_node) :=
    match o with
    | OInput _ => apply_op priv i o [] [] out
    | OAdd | OSubtract =>
        let* d0 := znth deps 0 in let* d1 := znth deps 1 in
        let* a := znth omap d0 in let* b := znth omap d1 in
        emit_gadget (match o with OAdd => GAdd | _ => GSub end) [a; b] out
    | OMultiply | ODot | OMatmul | OGemm _ _ =>
        let* d0 := znth deps 0 in let* d1 := znth deps 1 in
        let* a := znth omap d0 in let* b := znth omap d1 in
        (* mpc_arithmetic.rs:513 general_multiply_mpc with reshare_needed = false *)
        let* ta := out_ty out a in let* tb := out_ty out b in
        if is_tuple ta && is_tuple tb then
          match prf_keys_mul with
          | None => Err
          | Some _ => emit_gadget (GBil o) [a; b] out
          end
        else emit_gadget (GBil o) [a; b] out
    | OConstant _ _ | OZeros _ | OOnes _ => emit o [] [] out
    | OPermuteAxes _ | OArrayToVector | OVectorToArray | OTupleGet _ | ONamedTupleGet _ | OGetSlice _
    | OReshape _ | OSum _ | OCumSum _ | OGet _ | ORepeat _ =>
        let* d0 := znth deps 0 in
        let* a := znth omap d0 in
        apply_op priv d0 o [a] deps out
    | OVectorGet =>                                            (* :683 *)
        let* d0 := znth deps 0 in let* d1 := znth deps 1 in
        let* a := znth omap d0 in let* b := znth omap d1 in
        apply_op priv d0 o [a; b] [] out
    | OCreateTuple | OCreateNamedTuple _ | OCreateVector _ | OStack _ | OConcatenate _ | OZip =>
        let* news := mapM (fun d => znth omap d) deps in
        apply_op priv i o news deps out
    | _ => Err
    end in
  if mem i priv then
    let* (out2, new_node2) :=
      if mem i resh then
        match prf_keys_mul with
        | None => Err
        | Some k => reshare new_node k out1
        end
      else Ok (out1, new_node) in
    let* out3 := add_annotation new_node2 APrivate out2 in
    Ok (out3, new_node2)
  else Ok (out1, new_node).

Fixpoint compile_loop (priv resh : list Z) (keys : option Z) (nodes : list node) (i : Z)
         (omap : list Z) (out : list node) : result (list node * list Z) :=
  match nodes with
  | [] => Ok (out, omap)
  | nd :: r =>
      let* (out', nn) := compile_node priv resh keys i nd omap out in
      compile_loop priv resh keys r (i + 1) (omap ++ [nn]) out'
  end.

(* the compiled node list, the id of its output node, and the node map (source id -> compiled id) *)
Definition compile_graph_map (nodes : list node) (output : Z) (is_input_private : list bool)
  : result (list node * Z * list Z) :=
  let* (priv, use_prf_for_mul) := propagate_private_annotations nodes is_input_private in
  let* (out0, keys) :=
    if use_prf_for_mul
    then let* (o, k) := emit (OInput keys_type) [] [APRFMultiplication] [] in Ok (o, Some k)
    else Ok ([], None) in
  let* resh := get_nodes_to_reshare nodes output priv in
  let* (out, omap) := compile_loop priv resh keys nodes 0 [] out0 in
  let* oo := znth omap output in
  Ok (out, oo, omap).

Definition compile_graph (nodes : list node) (output : Z) (is_input_private : list bool)
  : result (list node * Z) :=
  let* (r, _) := compile_graph_map nodes output is_input_private in Ok r.

(* C01 deep model (placeholder): Gallina mirror of mpc_compiler.rs compile_to_mpc_graph. *)
From CC Require Import Base.Prelude Base.Scalar Base.Ty Base.Shape Graph.Value Graph.IR.

(* C12 model: serialization of a context and its reconstruction, on top of the API model of C11.
   Definitions only; proofs are in Proofs/SerdeProofs.v.

   [sctx] is SerializableContextBody (graphs.rs:3800-3812) with SerializableGraphBody (:1386-1391)
   and SerializableNodeBody; [ser] is make_serializable (graphs.rs:4436-4456, 3573-3592, 1316-1330);
   [deser] is recover_original_context / recover_original_graph (graphs.rs:3813-3929), which rebuild
   the context through the ordinary API, here through [step] of Model/Api.v; the versioned
   envelope (version.rs) is the pair (version, payload).
   Not modelled (tested only): JSON text, typetag dispatch of custom operations. *)
From CC Require Import Base.Prelude Model.Api.
Local Open Scope N_scope.

Record snode := mkSNode { sn_deps : list N; sn_gdeps : list N; sn_op : N }.
Record sgraph := mkSGraph { sg_fin : bool; sg_nodes : list snode; sg_out : option N }.
Record sctx := mkSCtx {
  sc_fin : bool;
  sc_graphs : list sgraph;
  sc_main : option N;
  sc_gnames : list (N * string);
  sc_nnames : list ((N * N) * string);
  sc_nannots : list ((N * N) * list N);
  sc_gannots : list (N * list N)
}.
Definition DATA_VERSION : N := 2.   (* version.rs:4 *)

(* ---- serialization ---- *)
Fixpoint seqN (start : N) (len : nat) : list N :=
  match len with O => [] | S k => start :: seqN (start + 1) k end.
Definition opt_entry {K V} (k : K) (o : option V) : list (K * V) :=
  match o with Some v => [(k, v)] | None => [] end.

(* graphs.rs:1316-1330 Node::make_serializable *)
Definition ser_node (nd : node) : snode :=
  mkSNode (map nh_nid (n_deps nd)) (map gh_id (n_gdeps nd)) (n_op nd).
(* graphs.rs:3573-3592 Graph::make_serializable *)
Definition ser_graph (gr : graph) : sgraph :=
  mkSGraph (g_fin gr) (map ser_node (g_nodes gr)) (g_out gr).

(* graphs.rs:4407-4414 serialize_hashmap: the entries sorted by key.  The keys of a well-formed
   context are existing graph ids / (graph id, node id) pairs, so the sorted entry list is the
   enumeration of the existing ids in increasing (lexicographic) order with their lookups. *)
Definition graph_ids (s : state) : list N := seqN 0 (length (graphs s)).
Definition node_ids (s : state) : list (N * N) :=
  flat_map (fun g => map (fun n => (g, n)) (seqN 0 (N.to_nat (ncount s g)))) (graph_ids s).
Definition ser_table1 {V} (s : state) (t : list (N * V)) : list (N * V) :=
  flat_map (fun g => opt_entry g (lookup N.eqb g t)) (graph_ids s).
Definition ser_table2 {V} (s : state) (t : list ((N * N) * V)) : list ((N * N) * V) :=
  flat_map (fun k => opt_entry k (lookup keq2 k t)) (node_ids s).

(* graphs.rs:4436-4456 Context::make_serializable *)
Definition ser (s : state) : sctx :=
  mkSCtx (ctx_fin s) (map ser_graph (graphs s)) (main s)
         (ser_table1 s (gnames s)) (ser_table2 s (nnames s))
         (ser_table2 s (nannots s)) (ser_table1 s (gannots s)).
(* graphs.rs:4515-4520 to_versioned_data *)
Definition ser_env (s : state) : N * sctx := (DATA_VERSION, ser s).

(* ---- deserialization ---- *)
Fixpoint foldM {A} (f : state -> A -> result state) (l : list A) (s : state) : result state :=
  match l with
  | [] => Ok s
  | x :: r => let* s' := f s x in foldM f r s'
  end.
(* an API call made with `?` : its error becomes the error of the whole reconstruction *)
Definition rstep (s : state) (c : call) : result state :=
  match step s c with
  | (s', OOk _) => Ok s'
  | (_, OErr _) => Err
  end.

Section Deser.
  (* The type checker and the size estimators, as a function of the context built so far and of the
     node being added (graph, operation, dependency ids, graph-dependency ids). *)
  Variable tc : state -> N -> N -> list N -> list N -> tcans.

  (* graphs.rs:3820-3841: dependencies are looked up by id among the nodes / graphs rebuilt so
     far, with a range check; then add_node *)
  Definition recover_node (g : N) (s : state) (n : snode) : result state :=
    if negb (forallb (fun d => d <? ncount s g) (sn_deps n)) then Err else
    if negb (forallb (fun d => d <? lenN (graphs s)) (sn_gdeps n)) then Err else
    rstep s (AddNode g (sn_op n) (map (NH self g) (sn_deps n)) (map (GH self) (sn_gdeps n)) None
                     (tc s g (sn_op n) (sn_deps n) (sn_gdeps n))).

  (* graphs.rs:3814-3857 recover_original_graph *)
  Definition recover_graph (s : state) (sg : sgraph) : result state :=
    let g := lenN (graphs s) in
    let* s0 := rstep s CreateGraph in
    let* s1 := foldM (recover_node g) (sg_nodes sg) s0 in
    let* s2 := match sg_out sg with
               | Some id => if id <? ncount s1 g then rstep s1 (SetOutput g (NH self g id)) else Err
               | None => Ok s1
               end in
    if sg_fin sg then rstep s2 (FinalizeGraph g) else Ok s2.

  (* indexing `current_graphs[id]` / `current_nodes[id]` after the range-check loops: a panic if
     the index were out of range *)
  Definition index_graph (s : state) (g : N) : result unit :=
    if g <? lenN (graphs s) then Ok tt else Panic.
  Definition index_node (s : state) (k : N * N) : result unit :=
    if fst k <? lenN (graphs s) then if snd k <? ncount s (fst k) then Ok tt else Panic else Panic.

  Definition in_range1 (s : state) {V} (t : list (N * V)) : bool :=
    forallb (fun p => fst p <? lenN (graphs s)) t.
  Definition in_range2 (s : state) {V} (t : list ((N * N) * V)) : bool :=
    forallb (fun p => if fst (fst p) <? lenN (graphs s) then snd (fst p) <? ncount s (fst (fst p))
                      else false) t.   (* graph id checked before the node list is indexed *)

  (* graphs.rs:3859-3929 recover_original_context *)
  Definition deser (x : sctx) : result state :=
    let* s1 := foldM recover_graph (sc_graphs x) init in
    let* s2 := match sc_main x with
               | Some id => if id <? lenN (graphs s1) then rstep s1 (SetMain (GH self id)) else Err
               | None => Ok s1
               end in
    (* :3872-3903 the four range-check loops *)
    if negb (in_range1 s2 (sc_gnames x)) then Err else
    if negb (in_range2 s2 (sc_nnames x)) then Err else
    if negb (in_range1 s2 (sc_gannots x)) then Err else
    if negb (in_range2 s2 (sc_nannots x)) then Err else
    (* :3904-3910 *)
    let* s3 := foldM (fun s p => let* _ := index_graph s (fst p) in
                                 rstep s (SetGraphName (GH self (fst p)) (snd p))) (sc_gnames x) s2 in
    (* :3911-3918 *)
    let* s4 := foldM (fun s p => let* _ := index_node s (fst p) in
                                 rstep s (SetNodeName (NH self (fst (fst p)) (snd (fst p))) (snd p)))
                     (sc_nnames x) s3 in
    (* :3919-3926 *)
    let* s5 := foldM (fun s p => let* _ := index_graph s (fst p) in
                                 foldM (fun s a => rstep s (AddGraphAnnot (GH self (fst p)) a)) (snd p) s)
                     (sc_gannots x) s4 in
    (* :3927-3936 *)
    let* s6 := foldM (fun s p => let* _ := index_node s (fst p) in
                                 foldM (fun s a => rstep s (AddNodeAnnot (NH self (fst (fst p)) (snd (fst p))) a))
                                       (snd p) s)
                     (sc_nannots x) s5 in
    if sc_fin x then rstep s6 FinalizeCtx else Ok s6.

  (* graphs.rs:4653-4672 Deserialize for Context: version check, then the payload *)
  Definition deser_env (e : N * sctx) : result state :=
    if negb (fst e =? DATA_VERSION) then Err else deser (snd e).
End Deser.

(* ---- deep equality, graphs.rs:4713-4813: flags, the four public tables (HashMap equality, i.e.
   equal lookups), the graphs node by node (operation, dependency ids, graph-dependency ids),
   outputs, main graph ---- *)
Definition table_eq {K V} (keq : K -> K -> bool) (t1 t2 : list (K * V)) : Prop :=
  forall k, lookup keq k t1 = lookup keq k t2.
Definition deep_equal (s1 s2 : state) : Prop :=
  ctx_fin s1 = ctx_fin s2 /\
  table_eq N.eqb (gnames s1) (gnames s2) /\ table_eq keq2 (nnames s1) (nnames s2) /\
  table_eq keq2 (nannots s1) (nannots s2) /\ table_eq N.eqb (gannots s1) (gannots s2) /\
  map ser_graph (graphs s1) = map ser_graph (graphs s2) /\
  main s1 = main s2.

(* ---- for the correspondence cases ---- *)
#[global] Instance Eqb_snode : Eqb snode := fun a b =>
  eqb (sn_deps a) (sn_deps b) && eqb (sn_gdeps a) (sn_gdeps b) && N.eqb (sn_op a) (sn_op b).
#[global] Instance Eqb_sgraph : Eqb sgraph := fun a b =>
  Bool.eqb (sg_fin a) (sg_fin b) && eqb (sg_nodes a) (sg_nodes b) && eqb (sg_out a) (sg_out b).
#[global] Instance Eqb_sctx : Eqb sctx := fun a b =>
  Bool.eqb (sc_fin a) (sc_fin b) && eqb (sc_graphs a) (sc_graphs b) && eqb (sc_main a) (sc_main b) &&
  eqb (sc_gnames a) (sc_gnames b) && eqb (sc_nnames a) (sc_nnames b) &&
  eqb (sc_nannots a) (sc_nannots b) && eqb (sc_gannots a) (sc_gannots b).

(* the harness hands over the type checker's answers of one reconstruction as a table indexed by
   (graph id, position of the node being added) *)
Definition tc_of (tbl : list ((N * N) * tcans)) (s : state) (g op : N) (deps gdeps : list N) : tcans :=
  match lookup keq2 (g, ncount s g) tbl with
  | Some a => a
  | None => mkAns None None None
  end.
(* what is compared with Rust after a reconstruction: the observation of the new context *)
Definition deser_obs (pool : list string) (tbl : list ((N * N) * tcans)) (e : N * sctx) :=
  rmap (observe pool) (deser_env (tc_of tbl) e).

(* C03 model: views as functions of inputs and of an idealised random tape (one independent
   uniform group element per cell: a PRF output under a key the observer does not hold, or another
   party's draw), and the general one-time-pad shape of a list of deliveries. *)
From CC Require Import Base.Prelude.

Section Deliveries.
  Variable G : Type.                      (* finite abelian group of values *)
  Variables (gadd : G -> G -> G) (gneg : G -> G) (gzero : G).
  Variable cell : Type.
  Variable cell_eqb : cell -> cell -> bool.
  Variable X : Type.                      (* the other parties' private inputs *)

  Definition tape := cell -> G.
  Definition upd (t : tape) (c : cell) (v : G) : tape := fun c' => if cell_eqb c' c then v else t c'.
  Definition gsub (a b : G) : G := gadd a (gneg b).
  Definition sgn (neg : bool) (a : G) : G := if neg then gneg a else a.

  (* a delivery to the observer: the message is  +-tape(mask) + rest(x, tape) *)
  Record delivery := mkD { d_mask : cell; d_neg : bool; d_rest : X -> tape -> G }.
  Definition msg (d : delivery) (x : X) (t : tape) : G := gadd (sgn (d_neg d) (t (d_mask d))) (d_rest d x t).

  (* f does not look at the cells in S *)
  Definition indep (f : tape -> G) (S : list cell) : Prop :=
    forall t t', (forall c, existsb (cell_eqb c) S = false -> t c = t' c) -> f t = f t'.

  (* the triangular one-time-pad condition: masks pairwise distinct, and the rest of delivery j
     looks at none of the masks of deliveries j, j+1, ... *)
  Fixpoint otp_ok (ds : list delivery) : Prop :=
    match ds with
    | [] => True
    | d :: r =>
        (forall x, indep (d_rest d x) (map d_mask (d :: r))) /\
        existsb (cell_eqb (d_mask d)) (map d_mask r) = false /\
        otp_ok r
    end.

  (* re-randomisation: adjust the mask cells one after the other so that, with inputs x' instead
     of x, the observer receives exactly the same messages *)
  Fixpoint rerand (ds : list delivery) (x x' : X) (t t' : tape) : tape :=
    match ds with
    | [] => t'
    | d :: r =>
        let m := msg d x t in
        let t'' := upd t' (d_mask d) (sgn (d_neg d) (gsub m (d_rest d x' t'))) in
        rerand r x x' t t''
    end.
  Definition pi (ds : list delivery) (x x' : X) (t : tape) : tape := rerand ds x x' t t.
End Deliveries.

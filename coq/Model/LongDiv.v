(* C17 model: ops/long_division.rs (LongDivision).  Definitions only; proofs are in
   Proofs/LongDivProofs.v.  One dividend bitstring (m bits) and one divisor bitstring (n bits),
   least significant bit first; the Rust operation is elementwise over the broadcast batch
   dimensions.  The comparison `Equal` with the zero string (comparisons.rs, property C16) is
   modelled by its specification: all bits are zero. *)
From CC Require Import Base.Prelude Model.Adder Model.Mux Model.Clip.

(* long_division.rs:339 invert_bits (custom op Not) *)
Definition invert_bits (x : bits) : bits := map negb x.

(* long_division.rs:320 add_one: BinaryAdd(x, [1] ++ zeros(bits - 1)).
   zeros of shape [0] is not a valid type, so a 1-bit string is rejected. *)
Definition add_one (x : bits) : result bits :=
  let nb := length x in
  if (nb <=? 1)%nat then Err else
  let binary_one := true :: repeat false (nb - 1) in
  let* (s, _) := binary_add false x binary_one in
  Ok s.

(* long_division.rs:345 negative: two's complement *)
Definition negative (x : bits) : result bits := add_one (invert_bits x).

(* long_division.rs:350 is_negative: slice [..., -1:] *)
Definition is_negative (x : bits) : result bool :=
  match x with [] => Err | _ => Ok (last x false) end.

(* long_division.rs:358 abs *)
Definition abs_bits (is_signed : bool) (x : bits) : result (bool * bits) :=
  if is_signed then
    let* num_is_negative := is_negative x in
    let* neg := negative x in
    Ok (num_is_negative, mux_bits num_is_negative neg x)
  else Ok (false, x).

(* long_division.rs:190 single_iteration_graph: state (remainder, -|divisor|), input the next
   dividend bit; returns the new remainder and the next quotient bit *)
Definition single_iteration (remainder minus_divisor : bits) (next_dividend_bit : bool)
  : result (bits * bool) :=
  (* drop the most significant bit of the remainder, put the new bit in front *)
  let remainder := next_dividend_bit :: removelast remainder in
  let* (remainder_minus_divisor, ov) := binary_add_transposed true remainder minus_divisor in
  match ov with
  | Some [next_quotient_bit] =>
      Ok (mux_bits next_quotient_bit remainder_minus_divisor remainder, next_quotient_bit)
  | _ => Err
  end.

(* g.iterate(g_iterate, state, dividend bits, most significant first): quotient bits are
   collected in the order they are produced *)
Fixpoint div_loop (remainder minus_divisor : bits) (dividend_msb_first : bits)
  : result (bits * bits) :=
  match dividend_msb_first with
  | [] => Ok (remainder, [])
  | b :: rest =>
      let* (r1, q) := single_iteration remainder minus_divisor b in
      let* (rf, qs) := div_loop r1 minus_divisor rest in
      Ok (rf, q :: qs)
  end.

(* long_division.rs:239 adjust_negative *)
Definition adjust_negative (quotient remainder abs_divisor : bits)
           (dividend_is_negative divisor_is_negative : bool) : result (bits * bits) :=
  let result_is_negative := xorb dividend_is_negative divisor_is_negative in
  let remainder_is_zero := forallb negb remainder in
  let inverted_quotient := invert_bits quotient in
  let* negative_quotient := add_one inverted_quotient in
  let quotient :=
    mux_bits result_is_negative
             (mux_bits remainder_is_zero negative_quotient inverted_quotient) quotient in
  let* neg_remainder := negative remainder in
  let* (divisor_minus_remainder, _) := binary_add false abs_divisor neg_remainder in
  let positive_remainder :=
    mux_bits remainder_is_zero remainder
             (mux_bits result_is_negative divisor_minus_remainder remainder) in
  let* neg_positive_remainder := negative positive_remainder in
  let remainder := mux_bits divisor_is_negative neg_positive_remainder positive_remainder in
  Ok (quotient, remainder).

(* long_division.rs:62 LongDivision::instantiate *)
Definition long_division (is_signed : bool) (dividend divisor : bits) : result (bits * bits) :=
  let* (dividend_is_negative, abs_dividend) := abs_bits is_signed dividend in
  let* (divisor_is_negative, abs_divisor) := abs_bits is_signed divisor in
  let* negative_abs_divisor := negative abs_divisor in
  let dividend_pulled_bits := rev abs_dividend in
  let* (remainder, quotient_rev) :=
     div_loop (repeat false (length divisor)) negative_abs_divisor dividend_pulled_bits in
  let quotient := rev quotient_rev in
  if is_signed then
    adjust_negative quotient remainder abs_divisor dividend_is_negative divisor_is_negative
  else Ok (quotient, remainder).

(* C01 T-tie: the ring reading of a graph of the elementwise fragment.  All arrays of such a
   program have one common shape, so every array value is one element of the commutative ring
   (Z_2^w)^n with pointwise operations; the evaluator below interprets the IR over an arbitrary
   commutative ring R.  PRF and Random nodes, program constants and inputs are atoms, so an
   equation between the ring readings of a compiled graph and of its source, proved by [ring],
   holds for all inputs, all randomness and all PRF functions. *)
From CC Require Import Base.Prelude Base.Scalar Base.Ty Base.Shape Graph.Value Graph.IR.

Section RingEval.
  Variable R : Type.
  Variables (r0 : R) (radd rmul rsub : R -> R -> R).
  Variable atom : Z -> R.          (* value of the PRF / Random node with this id *)
  Variable catom : value -> R.     (* value of a program constant *)
  Variable one : R.                (* the all-ones array *)

  Inductive rval := RLeaf (x : R) | RTup (l : list rval) | RKey.

  Definition rleaf (v : rval) : option R := match v with RLeaf x => Some x | _ => None end.

  Definition reval_node (i : Z) (o : op) (vs : list rval) : option rval :=
    match o, vs with
    | OZeros (TScalar _), [] | OZeros (TArray _ _), [] => Some (RLeaf r0)
    | OOnes (TScalar _), [] | OOnes (TArray _ _), [] => Some (RLeaf one)
    | OConstant (TScalar _) v, [] | OConstant (TArray _ _) v, [] => Some (RLeaf (catom v))
    | ORandom _, [] => Some RKey           (* only PRF keys are drawn in this fragment *)
    | OPRF _ _, [_] => Some (RLeaf (atom i))
    | OAdd, [RLeaf a; RLeaf b] => Some (RLeaf (radd a b))
    | OSubtract, [RLeaf a; RLeaf b] => Some (RLeaf (rsub a b))
    | OMultiply, [RLeaf a; RLeaf b] => Some (RLeaf (rmul a b))
    | ONOP, [v] => Some v
    | OCreateTuple, l => Some (RTup l)
    | OTupleGet j, [RTup l] => match znth l j with Ok v => Some v | _ => None end
    | _, _ => None
    end.

  Fixpoint reval (nodes : list node) (env : list rval) (ins : list rval) : option (list rval) :=
    match nodes with
    | [] => Some env
    | nd :: r =>
        let i := Z.of_nat (length env) in
        match n_op nd with
        | OInput _ =>
            match ins with
            | v :: ins' => reval r (env ++ [v]) ins'
            | [] => None
            end
        | o =>
            match mapM (fun d => znth env d) (n_deps nd) with
            | Ok vs => match reval_node i o vs with
                       | Some v => reval r (env ++ [v]) ins
                       | None => None end
            | _ => None
            end
        end
    end.

  (* the value of node [out]: a leaf, or the sum of a 3-tuple of shares *)
  Definition rout (env : option (list rval)) (out : Z) (shared : bool) : option R :=
    match env with
    | Some e =>
        match znth e out with
        | Ok (RLeaf x) => if shared then None else Some x
        | Ok (RTup [RLeaf a; RLeaf b; RLeaf c]) => if shared then Some (radd (radd a b) c) else None
        | _ => None
        end
    | None => None
    end.
End RingEval.

(* C20 model: the integer algorithms behind the approximate numeric operations, as the
   plaintext evaluator computes them.  Definitions only; proofs are in Proofs/Fixed*.v.
   An element of a w-bit scalar type (w = 64: INT64/UINT64, w = 128: INT128/UINT128) is its
   unsigned representative in [0, 2^w) ("word"); [sg] says whether the type is signed.
   Tables of the piecewise-linear operations are parameters (built in f32 by the Rust code,
   extracted by the harness on every run); only their integer post-processing is modelled. *)
From CC Require Import Base.Prelude.

(* ---------------------------------------------------------------- words *)
Definition wrap (w x : Z) : Z := x mod 2 ^ w.
(* two's-complement reading of a word *)
Definition sv (w x : Z) : Z := if x <? 2 ^ (w - 1) then x else x - 2 ^ w.
Definition wadd (w x y : Z) : Z := wrap w (x + y).
Definition wsub (w x y : Z) : Z := wrap w (x - y).
Definition wmul (w x y : Z) : Z := wrap w (x * y).

(* simple_evaluator.rs:962 Operation::Truncate (plaintext): signed types divide the signed
   reading with Rust's `/` (rounds toward zero = Z.quot) and wrap; unsigned types divide. *)
Definition trunc (w : Z) (sg : bool) (x scale : Z) : Z :=
  if sg then wrap w (Z.quot (sv w x) scale) else x / scale.

(* utils.rs:154 multiply_fixed_point *)
Definition multiply_fixed_point (w : Z) (sg : bool) (x y p : Z) : Z :=
  trunc w sg (wmul w x y) (2 ^ p).

(* [lo; lo+1; ...] of length n *)
Fixpoint zrange (lo : Z) (n : nat) : list Z :=
  match n with O => [] | S n' => lo :: zrange (lo + 1) n' end.

(* A2B: the w bits of a word, least significant first *)
Definition bits_of (w d : Z) : list Z :=
  map (fun i => (d / 2 ^ i) mod 2) (zrange 0 (Z.to_nat w)).
(* B2A: sum of b_i 2^i (reduced by the caller's type) *)
Fixpoint from_bits (l : list Z) : Z :=
  match l with [] => 0 | b :: r => b + 2 * from_bits r end.

Fixpoint zip_with {A} (f : A -> A -> A) (l1 l2 : list A) : list A :=
  match l1, l2 with
  | x :: r1, y :: r2 => f x y :: zip_with f r1 r2
  | _, _ => []
  end.
Definition bnot (b : Z) : Z := (b + 1) mod 2.
Definition bxor (a b : Z) : Z := (a + b) mod 2.
Definition band (a b : Z) : Z := a * b.

(* u64::next_power_of_two (0 and 1 give 1) *)
Definition next_pow2 (n : Z) : Z := 2 ^ Z.log2_up n.

(* utils.rs:197 cumulative_or on a w-bit bit array (shape[0] = w), literally: pad with
   zeros, negate, k rounds of AND with the array shifted by 2^i, negate.
   Element j of the result is the OR of data[j .. j+pow2). *)
Definition cumulative_or (w : Z) (data : list Z) (n : Z) : list Z :=
  let pow2 := next_pow2 n in
  let k := Z.log2 pow2 in
  let pad := if w <? n then n - w + pow2
             else let extra := w - n in if extra <? pow2 then pow2 - extra else 0 in
  let data := data ++ repeat 0 (Z.to_nat pad) in
  let neg := map bnot data in
  let suffix :=
    fold_left (fun s i =>
                 let sh := Z.to_nat (2 ^ i) in
                 zip_with band (firstn (length s - sh) s) (skipn sh s))
              (zrange 0 (Z.to_nat k)) neg in
  map bnot suffix.

(* utils.rs:242 inverse_initial_approximation: 2^(cap-1-h) for the highest set bit h < cap of d.
   For cap = 0 the graph cannot be built (empty get_slice: an error). *)
Definition inverse_initial_approximation (w d cap : Z) : result Z :=
  if cap <=? 0 then Err else
  let cum := cumulative_or w (bits_of w d) cap in
  let c := Z.to_nat cap in
  let hob := zip_with bxor (firstn c cum) (firstn c (skipn 1 cum)) in
  Ok (wrap w (from_bits (rev hob))).

(* utils.rs:286 inverse_sqrt_initial_approximation: 2^(cap-1-k) for the highest non-zero
   base-4 digit k < cap of d. *)
Fixpoint pair_xor (l : list Z) : list Z :=
  match l with a :: b :: r => bxor a b :: pair_xor r | _ => [] end.
Definition inverse_sqrt_initial_approximation (w d cap : Z) : result Z :=
  if cap <=? 0 then Err else
  let n := 2 * cap in
  let cum := cumulative_or w (bits_of w d) n in
  let c := Z.to_nat n in
  let hob := zip_with bxor (firstn c cum) (firstn c (skipn 1 cum)) in
  (* result[i] = hob[2cap-2i-1] + hob[2cap-2i-2] *)
  Ok (wrap w (from_bits (pair_xor (rev hob)))).

(* `c << n` on an integer literal that Rust infers as i32 (debug profile: a shift amount
   >= 32 panics, the value wraps silently), then constant_scalar into a w-bit type. *)
Definition const_i32_shl (w c n : Z) : result Z :=
  if (n <? 0) || (32 <=? n) then Panic else Ok (wrap w (sv 32 (wrap 32 (c * 2 ^ n)))).
(* `1u128 << n`, then constant_scalar into a w-bit type *)
Definition const_u128_shl (w n : Z) : result Z :=
  if (n <? 0) || (128 <=? n) then Panic else Ok (wrap w (wrap 128 (2 ^ n))).

Definition iter {A} (n : Z) (f : A -> A) (x : A) : A := Nat.iter (Z.to_nat n) f x.

(* newton_inversion.rs:58 NewtonInversion::instantiate, evaluated at one entry d
   (INT64/UINT64; [init] = the optional second argument) *)
Definition newton_step (sg : bool) (cap c d x : Z) : Z :=
  multiply_fixed_point 64 sg (wsub 64 c (wmul 64 x d)) x cap.
Definition newton_inversion (sg : bool) (iters cap : Z) (init : option Z) (d : Z) : result Z :=
  (* the initial-approximation graph is built whether or not it is used *)
  let* x0 := inverse_initial_approximation 64 d cap in
  let x0 := match init with Some a => a | None => x0 end in
  let* c := const_i32_shl 64 1 (cap + 1) in
  Ok (iter iters (newton_step sg cap c d) x0).

(* inverse_sqrt.rs:61 InverseSqrt::instantiate at one entry d *)
Definition isqrt_step (sg : bool) (cap c d x : Z) : Z :=
  let ax2 := wmul 64 (wmul 64 d x) x in
  let ax2_norm := trunc 64 sg ax2 (2 ^ (cap + 1)) in
  multiply_fixed_point 64 sg (wsub 64 c ax2_norm) x cap.
Definition inverse_sqrt (sg : bool) (iters cap : Z) (init : option Z) (d : Z) : result Z :=
  if (31 <? cap) || (cap <=? 1) then Err else
  let* x0 := inverse_sqrt_initial_approximation 64 d cap in
  let x0 := match init with Some a => a | None => x0 end in
  let* c := const_i32_shl 64 3 (cap - 1) in
  Ok (iter iters (isqrt_step sg cap c d) x0).

(* goldschmidt_division.rs:60 GoldschmidtDivision::instantiate at one entry pair; w = 64 or 128 *)
Definition goldschmidt_step (w : Z) (sg : bool) (cap c : Z) (ab : Z * Z) : Z * Z :=
  let '(a, b) := ab in
  let wi := wsub w c b in
  (multiply_fixed_point w sg a wi cap, multiply_fixed_point w sg b wi cap).
Definition goldschmidt_division (w : Z) (sg : bool) (iters cap : Z) (init : option Z)
           (dividend divisor : Z) : result Z :=
  let* w0 := inverse_initial_approximation w divisor cap in
  let w0 := match init with Some a => a | None => w0 end in
  let* c := const_u128_shl w (cap + 1) in
  if iters <=? 0 then Panic (* 0..iterations-1 underflows *) else
  Ok (fst (iter (iters - 1) (goldschmidt_step w sg cap c) (wmul w dividend w0, wmul w divisor w0))).

(* ---------------------------------------------------------------- piecewise-linear *)
(* approx_pointwise.rs:62-81: slopes and offsets from the sampled control points xs, ys
   (i64 arithmetic; `<<` and `*`,`-` written with explicit wrap/sv as they can wrap) *)
Definition i64 (x : Z) : Z := sv 64 (wrap 64 x).
Definition in_i64 (x : Z) : bool := (- 2 ^ 63 <=? x) && (x <? 2 ^ 63).
(* debug profile: `-`, `*`, `/` panic on overflow or zero divisor, `<<` wraps silently *)
Definition chk (x : Z) : result Z := if in_i64 x then Ok x else Panic.
Fixpoint pwl_coeffs (p : Z) (xs ys : list Z) : result (list (Z * Z)) :=
  match xs, ys with
  | x0 :: ((x1 :: _) as xs'), y0 :: ((y1 :: _) as ys') =>
      let* dy := chk (y1 - y0) in
      let* dx := chk (x1 - x0) in
      if dx =? 0 then Panic else
      let* c := chk (Z.quot (i64 (dy * 2 ^ p)) dx) in
      let* cx := chk (c * x0) in
      let* b := chk (i64 (y0 * 2 ^ p) - cx) in
      let* r := pwl_coeffs p xs' ys' in
      Ok ((c, b) :: r)
  | _, _ => Ok []
  end.
Definition set_first {A} (a : A) (l : list A) : list A :=
  match l with [] => [] | _ :: r => a :: r end.
Definition set_last {A} (a : A) (l : list A) : list A := rev (set_first a (rev l)).
Definition pwl_tables_of (p : Z) (flatten_left flatten_right : bool) (xs ys : list Z)
  : result (list Z * list Z) :=
  let* t := pwl_coeffs p xs ys in
  let t := if flatten_left then set_first (0, i64 (hd 0 ys * 2 ^ p)) t else t in
  let t := if flatten_right
           then set_last (0, i64 (hd 0 (skipn 1 (rev ys)) * 2 ^ p)) t else t in
  Ok (map fst t, map snd t).

(* approx_pointwise.rs:164 tree_retrieve: one level per index bit, least significant first;
   (odd - even) * bit + even on words *)
Fixpoint evens_odds (l : list Z) : list (Z * Z) :=
  match l with e :: o :: r => (e, o) :: evens_odds r | _ => [] end.
Fixpoint tree_retrieve (bits : list Z) (data : list Z) : result Z :=
  match bits with
  | [] => match data with v :: _ => Ok v | [] => Panic end
  | b :: bs =>
      tree_retrieve bs
        (map (fun eo => wadd 64 (wmul 64 (wsub 64 (snd eo) (fst eo)) b) (fst eo)) (evens_odds data))
  end.

(* approx_pointwise.rs:83-158 create_approximation on one INT64 entry x, for the tables
   (alphas, betas), the constant left_fp and the first Truncate's scale [divisor].
   any_bit_set is written as the OR it computes. *)
Definition pwl_eval (p lb : Z) (alphas betas : list Z) (left_fp divisor : Z) (x : Z) : result Z :=
  if divisor <=? 0 then Err else
  if negb (Z.of_nat (length alphas) =? 2 ^ lb + 2) || negb (Z.of_nat (length betas) =? 2 ^ lb + 2)
  then Err else
  let potential := zip_with (fun a b => wadd 64 (wmul 64 x (wrap 64 a)) (wrap 64 b)) alphas betas in
  let shifted := wsub 64 x (wrap 64 left_fp) in
  let scaled := trunc 64 true shifted divisor in
  let bits := bits_of 64 scaled in
  let msb := (scaled / 2 ^ 63) mod 2 in
  let high := firstn (Z.to_nat (63 - lb)) (skipn (Z.to_nat lb) bits) in
  let low := firstn (Z.to_nat lb) bits in
  let* main := tree_retrieve low (firstn (Z.to_nat (2 ^ lb)) (skipn 1 potential)) in
  let* leftv := match potential with v :: _ => Ok v | [] => Panic end in
  let* rightv := match rev potential with v :: _ => Ok v | [] => Panic end in
  let is_left := msb in
  let any_high := if forallb (Z.eqb 0) high then 0 else 1 in
  let is_right := band any_high (bnot msb) in
  let is_main := band (bnot is_left) (bnot is_right) in
  let r := wadd 64 (wadd 64 (wmul 64 main is_main) (wmul 64 leftv is_left)) (wmul 64 rightv is_right) in
  Ok (trunc 64 true r (2 ^ p)).

(* the segment the code selects, in integer terms (used by the theorems) *)
Definition pwl_segment (lb left_fp divisor x : Z) : Z :=
  let q := Z.quot (sv 64 (wsub 64 x (wrap 64 left_fp))) divisor in
  if q <? 0 then 0 else if 2 ^ lb <=? q then 2 ^ lb + 1 else q + 1.

(* ---------------------------------------------------------------- error tests (integer only) *)
(* |a - 2^cap/d| <= tol  <->  |a d - 2^cap| <= tol d *)
Definition recip_close (cap tol d a : Z) : bool := Z.abs (a * d - 2 ^ cap) <=? tol * d.
(* |a - 2^cap/sqrt d| <= tol  <->  (a <= tol or (a-tol)^2 d <= 2^(2cap)) and 2^(2cap) <= (a+tol)^2 d *)
Definition isqrt_close (cap tol d a : Z) : bool :=
  ((a <=? tol) || ((a - tol) * (a - tol) * d <=? 2 ^ (2 * cap)))
  && (2 ^ (2 * cap) <=? (a + tol) * (a + tol) * d).
(* |a - 2^cap n/d| <= (rn/rd) 2^cap n/d + tol *)
Definition div_close (cap rn rd tol n d a : Z) : bool :=
  rd * Z.abs (a * d - 2 ^ cap * n) <=? rn * 2 ^ cap * n + rd * tol * d.

Definition is_ok_and {A} (r : result A) (f : A -> bool) : bool :=
  match r with Ok a => f a | _ => false end.

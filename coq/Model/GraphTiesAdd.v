(* T-tie for C17: the real instantiated and inlined BinaryAdd graph, exported on every run, is
   evaluated by Graph/Eval.v inside Coq on ALL operand pairs of a small width and compared with
   the proved adder model. *)
From CC Require Import Base.Prelude Base.Scalar Base.Ty Base.Shape Graph.Value Graph.IR Graph.Eval
  Model.Adder.

Definition b2z (b : bool) : Z := if b then 1 else 0.
Definition bits_val (w : nat) (x : Z) : value := VArr (map b2z (bits_of w x)).

Definition run_graph2 (nodes : list node) (in0 in1 out : Z) (a b : value) : result value :=
  let* vals := eval_graph_nodes nodes (tape_of_list [(in0, a); (in1, b)]) in
  znth vals out.

Definition graph_add_exhaustive (nodes : list node) (in0 in1 out : Z) (w : nat) (ob : bool) : bool :=
  let dom := map Z.of_nat (seq 0 (2 ^ w)) in
  forallb (fun a => forallb (fun b =>
    match run_graph2 nodes in0 in1 out (bits_val w a) (bits_val w b),
          binary_add ob (bits_of w a) (bits_of w b) with
    | Ok (VArr xs), Ok (s, None) => list_eqb Z.eqb xs (map b2z s)
    | Ok (VTup [VArr xs; VArr cs]), Ok (s, Some c) =>
        list_eqb Z.eqb xs (map b2z s) && list_eqb Z.eqb cs (map b2z c)
    | Err, Err => true
    | _, _ => false
    end) dom) dom.

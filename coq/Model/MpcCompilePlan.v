(* C01 deep model: compile_to_mpc_graph with the resharing plan as a parameter.  [compile_graph_map]
   (Model/MpcCompile.v) is this function applied to the plan computed by get_nodes_to_reshare; the
   correctness theorem is proved for EVERY plan, so it does not depend on the planner.
   Definitions only. *)
From CC Require Import Base.Prelude Base.Scalar Base.Ty Base.Shape Graph.Value Graph.IR Graph.Eval Graph.Typing
  Model.MpcCompile.

Definition compile_graph_plan (resh : list Z) (nodes : list node) (output : Z) (is_input_private : list bool)
  : result (list node * Z * list Z) :=
  let* (priv, use_prf_for_mul) := propagate_private_annotations nodes is_input_private in
  let* (out0, keys) :=
    if use_prf_for_mul
    then let* (o, k) := emit (OInput keys_type) [] [APRFMultiplication] [] in Ok (o, Some k)
    else Ok ([], None) in
  let* (out, omap) := compile_loop priv resh keys nodes 0 [] out0 in
  let* oo := znth omap output in
  Ok (out, oo, omap).

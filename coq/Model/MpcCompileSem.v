(* C01 deep model, semantics: the ring reading of Model/RingEval.v extended, in this file, to the
   graphs emitted by [compile_graph] (Model/MpcCompile.v):
   - the custom gadgets AddMPC / SubtractMPC / <bilinear>MPC are read by a specification
     [gadget_sem], transcribed from CustomOperationBody::instantiate (mpc_arithmetic.rs:18, :86,
     :225 with mixed_product :173 and private_product :197); Proofs/MpcCompileGadgets.v proves that
     the gadget bodies (Model/MpcCompile.v [gadget_body], tied literally to instantiate) evaluate
     to it;
   - the operations apply_op lifts share-wise (Sum, CumSum, PermuteAxes, Get, GetSlice, Reshape) are
     abstract functions [lin o] on the ring, and Dot/Matmul/Gemm abstract functions [bil o]; the
     theorems assume additivity of these only.
   As in RingEval.v, PRF nodes are atoms indexed by their node id and constants are atoms, so a
   statement about this reading holds for all inputs, all PRF functions and all keys.
   Evaluation is a left fold over the node list (so that it commutes with appending emitted nodes).
   Definitions only. *)
From CC Require Import Base.Prelude Base.Scalar Base.Ty Base.Shape Graph.Value Graph.IR Graph.Eval Graph.Typing Model.RingEval Model.MpcCompile.

(* the gadget named by a Custom node *)
Definition gadget_of_name (s : string) : option gadget :=
  if String.eqb s "AddMPC" then Some GAdd else
  if String.eqb s "SubtractMPC" then Some GSub else
  if String.eqb s "MultiplyMPC" then Some (GBil OMultiply) else
  if String.eqb s "DotMPC" then Some (GBil ODot) else
  if String.eqb s "MatmulMPC" then Some (GBil OMatmul) else
  if String.eqb s "GemmMPC-false-false" then Some (GBil (OGemm false false)) else
  if String.eqb s "GemmMPC-false-true" then Some (GBil (OGemm false true)) else
  if String.eqb s "GemmMPC-true-false" then Some (GBil (OGemm true false)) else
  if String.eqb s "GemmMPC-true-true" then Some (GBil (OGemm true true)) else None.

(* the gadgets of the correctness theorem: AddMPC, SubtractMPC and the bilinear ones *)
Definition is_bil (o : op) : bool := match o with OMultiply | ODot | OMatmul | OGemm _ _ => true | _ => false end.
Definition elem_gadget (g : gadget) : bool :=
  match g with GAdd | GSub => true | GBil o => is_bil o end.

(* operations lifted share-wise by apply_op whose reading is an abstract additive map *)
Definition is_lin_op (o : op) : bool :=
  match o with
  | OSum _ | OCumSum _ | OPermuteAxes _ | OGet _ | OGetSlice _ => true
  | OReshape t => is_leaf t
  | _ => false
  end.

(* n-ary operations lifted share-wise by apply_op whose reading is an abstract additive map *)
Definition is_nlin_op (o : op) : bool := match o with OStack _ | OConcatenate _ => true | _ => false end.

(* the fragment of the correctness theorem: Add, Subtract, the bilinear operations Multiply, Dot,
   Matmul, Gemm, and the share-wise lifted unary and n-ary (Stack, Concatenate) operations, over
   arrays/scalars *)
Definition thm_op (o : op) : bool :=
  match o with
  | OInput t | OZeros t | OOnes t | OConstant t _ => is_leaf t
  | OAdd | OSubtract | OMultiply | ODot | OMatmul | OGemm _ _ | OStack _ | OConcatenate _ => true
  | _ => is_lin_op o
  end.
Definition thm_frag (nodes : list node) : bool := forallb (fun nd => thm_op (n_op nd)) nodes.

Section DeepEval.
  Variable R : Type.
  Variables (r0 : R) (radd rmul rsub : R -> R -> R).
  Variable atom : Z -> R.          (* value of the PRF node with this id *)
  Variable catom : value -> R.     (* value of a program constant *)
  Variable one : R.                (* the all-ones array *)
  Variable lin : op -> R -> R.     (* share-wise lifted unary operations *)
  Variable bil : op -> R -> R -> R. (* Dot / Matmul / Gemm *)
  Variable nlin : op -> list R -> R. (* Stack / Concatenate *)

  Notation rval := (rval R).

  Definition bprod (o : op) (a b : R) : R :=
    match o with OMultiply => rmul a b | _ => bil o a b end.

  (* what the gadget computes on public values *)
  Definition gadget_plain (g : gadget) (a b : R) : R :=
    match g with GAdd => radd a b | GSub => rsub a b | GBil o => bprod o a b end.

  (* specification of the gadgets, case by case as in instantiate *)
  Definition gadget_sem (g : gadget) (vs : list rval) : option rval :=
    match vs with
    | [RLeaf _ a; RLeaf _ b] => Some (RLeaf R (gadget_plain g a b))
    | [RTup _ [RLeaf _ a0; RLeaf _ a1; RLeaf _ a2]; RLeaf _ b] =>
        Some (RTup R match g with
                   | GAdd => [RLeaf R (radd a0 b); RLeaf R (radd a1 r0); RLeaf R (radd a2 r0)]
                   | GSub => [RLeaf R (rsub a0 b); RLeaf R (rsub a1 r0); RLeaf R (rsub a2 r0)]
                   | GBil o => [RLeaf R (bprod o a0 b); RLeaf R (bprod o a1 b); RLeaf R (bprod o a2 b)]
                   end)
    | [RLeaf _ a; RTup _ [RLeaf _ b0; RLeaf _ b1; RLeaf _ b2]] =>
        Some (RTup R match g with
                   | GAdd => [RLeaf R (radd b0 a); RLeaf R (radd b1 r0); RLeaf R (radd b2 r0)]
                   | GSub => [RLeaf R (rsub a b0); RLeaf R (rsub r0 b1); RLeaf R (rsub r0 b2)]
                   | GBil o => [RLeaf R (bprod o a b0); RLeaf R (bprod o a b1); RLeaf R (bprod o a b2)]
                   end)
    | [RTup _ [RLeaf _ a0; RLeaf _ a1; RLeaf _ a2];
       RTup _ [RLeaf _ b0; RLeaf _ b1; RLeaf _ b2]] =>
        Some (RTup R match g with
                   | GAdd => [RLeaf R (radd a0 b0); RLeaf R (radd a1 b1); RLeaf R (radd a2 b2)]
                   | GSub => [RLeaf R (rsub a0 b0); RLeaf R (rsub a1 b1); RLeaf R (rsub a2 b2)]
                   | GBil o =>       (* z_i = x_i * (y_i + y_(i+1)) + x_(i+1) * y_i *)
                       [RLeaf R (radd (bprod o a0 (radd b0 b1)) (bprod o a1 b0));
                        RLeaf R (radd (bprod o a1 (radd b1 b2)) (bprod o a2 b1));
                        RLeaf R (radd (bprod o a2 (radd b2 b0)) (bprod o a0 b2))]
                   end)
    | _ => None
    end.

  Definition leaf2 (f : R -> R -> R) (vs : list rval) : option rval :=
    match vs with
    | [RLeaf _ a; RLeaf _ b] => Some (RLeaf R (f a b))
    | _ => None
    end.

  Fixpoint leaves (vs : list rval) : option (list R) :=
    match vs with
    | [] => Some []
    | RLeaf _ x :: r => match leaves r with Some xs => Some (x :: xs) | None => None end
    | _ => None
    end.

  Definition deval_node (i : Z) (o : op) (vs : list rval) : option rval :=
    match o with
    | OZeros t => match vs with [] => if is_leaf t then Some (RLeaf R r0) else None | _ => None end
    | OOnes t => match vs with [] => if is_leaf t then Some (RLeaf R one) else None | _ => None end
    | OConstant t v => match vs with [] => if is_leaf t then Some (RLeaf R (catom v)) else None | _ => None end
    | OPRF _ _ => match vs with [_] => Some (RLeaf R (atom i)) | _ => None end
    | OAdd => leaf2 radd vs
    | OSubtract => leaf2 rsub vs
    | OMultiply => leaf2 rmul vs
    | ODot | OMatmul | OGemm _ _ => leaf2 (bil o) vs
    | ONOP => match vs with [v] => Some v | _ => None end
    | OCreateTuple => Some (RTup R vs)
    | OTupleGet j =>
        match vs with
        | [RTup _ l] => match znth l j with Ok v => Some v | _ => None end
        | _ => None
        end
    | OCustom name => match gadget_of_name name with Some g => gadget_sem g vs | None => None end
    | _ =>
        if is_lin_op o then
          match vs with [RLeaf _ a] => Some (RLeaf R (lin o a)) | _ => None end
        else if is_nlin_op o then
          match leaves vs with Some xs => Some (RLeaf R (nlin o xs)) | None => None end
        else None
    end.

  (* evaluation state: values of the nodes so far, inputs not yet consumed *)
  Definition dstate : Type := list rval * list rval.

  Definition dstep (st : option dstate) (nd : node) : option dstate :=
    match st with
    | None => None
    | Some (env, ins) =>
        match n_op nd with
        | OInput _ =>
            match ins with
            | v :: ins' => Some (env ++ [v], ins')
            | [] => None
            end
        | o =>
            match mapM (fun d => znth env d) (n_deps nd) with
            | Ok vs => match deval_node (zlen env) o vs with
                       | Some v => Some (env ++ [v], ins)
                       | None => None
                       end
            | _ => None
            end
        end
    end.

  Definition deval_from (nodes : list node) (st : option dstate) : option dstate := fold_left dstep nodes st.
  Definition deval (nodes : list node) (ins : list rval) : option (list rval) :=
    match deval_from nodes (Some ([], ins)) with Some (env, _) => Some env | None => None end.

  (* ---------- vocabulary of the correctness statement ---------- *)
  (* pointwise sum of two operand lists of an n-ary operation *)
  Fixpoint vadd (l l' : list R) : list R :=
    match l, l' with
    | x :: l, y :: l' => radd x y :: vadd l l'
    | _, _ => []
    end.

  Definition T3 (a b c : R) : rval := RTup R [RLeaf R a; RLeaf R b; RLeaf R c].

  (* source value [vs] vs. compiled value [vc] of a node: equal when the node is public, a triple of
     additive shares of it when the node is private *)
  Definition rel (p : bool) (vs vc : rval) : Prop :=
    if p then exists x a b c, vs = RLeaf R x /\ vc = T3 a b c /\ radd (radd a b) c = x else vc = vs.

  (* inputs of the compiled graph for an is_input_private vector: a public input is passed as it
     is, a private input as ANY three shares adding up to it *)
  Inductive inrel : list bool -> list rval -> list rval -> Prop :=
  | inrel_nil fl : inrel fl [] []
  | inrel_pub fl v s c : inrel fl s c -> inrel (false :: fl) (v :: s) (v :: c)
  | inrel_priv fl x a b c0 s c : radd (radd a b) c0 = x -> inrel fl s c ->
                                 inrel (true :: fl) (RLeaf R x :: s) (T3 a b c0 :: c).

  (* the value of a gadget argument has the shape of its type: three leaves for a share triple *)
  Definition shape_ok (t : ty) (v : rval) : Prop :=
    match t with
    | TTuple _ => exists a b c, v = T3 a b c
    | TScalar _ | TArray _ _ => exists x, v = RLeaf R x
    | _ => False
    end.

  (* the first input of the compiled graph when use_prf_for_mul: a triple of PRF keys (any values) *)
  Definition keys_input (use_mul : bool) (kv0 kv1 kv2 : rval) : list rval :=
    if use_mul then [RTup R [kv0; kv1; kv2]] else [].

  (* reconstruction of a value kept as three additive shares *)
  Definition reveal3 (v : rval) : option R :=
    match v with
    | RTup _ [RLeaf _ a; RLeaf _ b; RLeaf _ c] => Some (radd (radd a b) c)
    | _ => None
    end.
End DeepEval.


(* C18 model: plaintext Sort / ApplyPermutation / InversePermutation / Gather of
   simple_evaluator.rs:875-961,1391-1457, the integer-key mapping of ops/integer_key_sort.rs:59-96
   and the LSD radix schedule of mpc/mpc_radix_sort.rs:70-190.  Definitions only; proofs are in
   Proofs/SortProofs.v.

   Conventions.  Array entries are unbounded Z (what to_flattened_array_u64/u128 return); row
   positions / permutation images are nat (list positions).  Where the Rust code receives a
   permutation as an array of u64 *values* (ApplyPermutation, InversePermutation, Gather) the
   model function takes list Z, performs the code's range checks in Z and only then converts the
   (now small) values to positions.

   Trusted: Rust's slice::sort_by is a stable sort; it is represented by the insertion sort
   [stable_sort_by] and tied by the correspondence cases (duplicate keys are frequent there). *)
From Coq Require Import Permutation.
From CC Require Import Base.Prelude Base.Scalar.

(* ------------------------------------------------------------------ Vec<u64>::cmp *)
(* core::slice Ord: lexicographic, a proper prefix is smaller *)
Fixpoint lex_cmp (a b : list Z) : comparison :=
  match a, b with
  | [], [] => Eq
  | [], _ :: _ => Lt
  | _ :: _, [] => Gt
  | x :: a', y :: b' => match x ?= y with Eq => lex_cmp a' b' | c => c end
  end.

(* ------------------------------------------------------------------ slice::sort_by (trusted stable) *)
Section StableSort.
  Context {A : Type} (cmp : A -> A -> comparison).
  (* x comes from the left of everything already in l: it is put before the first element
     that is not strictly smaller, hence before its equals *)
  Fixpoint insert_by (x : A) (l : list A) : list A :=
    match l with
    | [] => [x]
    | y :: l' => match cmp x y with Gt => y :: insert_by x l' | _ => x :: l end
    end.
  Fixpoint stable_sort_by (l : list A) : list A :=
    match l with [] => [] | x :: l' => insert_by x (stable_sort_by l') end.
End StableSort.

(* slice.chunks(k) for k > 0: last chunk may be shorter *)
Fixpoint chunks {A} (fuel k : nat) (l : list A) : list (list A) :=
  match fuel with
  | O => []
  | S f => match l with [] => [] | _ => firstn k l :: chunks f k (skipn k l) end
  end.

Definition cmp_key {B} (a b : list Z * B) : comparison := lex_cmp (fst a) (fst b).

(* row level: enumerated.sort_by(|a, b| a.0.cmp(&b.0)); map(|x| x.1) *)
Definition sort_perm_rows (rows : list (list Z)) (n : nat) : list nat :=
  map snd (stable_sort_by cmp_key (combine rows (seq 0 n))).
Definition sorting_permutation (rows : list (list Z)) : list nat :=
  sort_perm_rows rows (length rows).

(* simple_evaluator.rs:1391 get_sorting_permutation.  array.len() / n panics for n = 0,
   chunks(0) panics; zip stops at the shorter side. *)
Definition get_sorting_permutation (array : list Z) (n : Z) : result (list nat) :=
  if n =? 0 then Panic else
  let chunk_size := Z.to_nat (Z.of_nat (length array) / n) in
  if (chunk_size =? 0)%nat then Panic else
  Ok (sort_perm_rows (chunks (length array) chunk_size array) (Z.to_nat n)).

(* ------------------------------------------------------------------ execute_inverse_permutation *)
Fixpoint upd {A} (l : list A) (i : nat) (x : A) : list A :=
  match l, i with
  | [], _ => []
  | _ :: t, O => x :: t
  | h :: t, S i' => h :: upd t i' x
  end.

(* simple_evaluator.rs:1407: result = vec![0; len]; for i: if values[i] >= len -> Err;
   result[values[i]] = i.  (No check for repeated images here: the callers do that.) *)
Definition execute_inverse_permutation (values : list nat) : result (list nat) :=
  fold_left
    (fun acc iv =>
       let* r := acc in
       if (length values <=? snd iv)%nat then Err else Ok (upd r (snd iv) (fst iv)))
    (combine (seq 0 (length values)) values)
    (Ok (repeat 0%nat (length values))).

(* the same on u64 values: the range check is done on the values themselves, the first
   offending value aborts the loop (the partial result is dropped), so Err iff some value >= len *)
Definition execute_inverse_permutation_u64 (values : list Z) : result (list Z) :=
  if existsb (fun v => Z.of_nat (length values) <=? v) values then Err
  else rmap (map Z.of_nat) (execute_inverse_permutation (map Z.to_nat values)).

(* ------------------------------------------------------------------ evaluate_gather *)
Definition prodZ (l : list Z) : Z := fold_right Z.mul 1 l.

(* &v[from .. from+len] : panics when out of range *)
Definition slice {A} (l : list A) (from len : nat) : result (list A) :=
  if (from + len <=? length l)%nat then Ok (firstn len (skipn from l)) else Panic.

(* simple_evaluator.rs:1421 evaluate_gather on the flattened entries of an array of shape
   [shape]; [indices] are the u64 index values, flattened. *)
Definition evaluate_gather (entries : list Z) (shape : list Z) (indices : list Z) (axis : nat)
  : result (list Z) :=
  if (length shape <? axis)%nat then Panic (* input_shape[..axis] *) else
  let num_arrays := prodZ (firstn axis shape) in
  let row_size := prodZ (skipn (S axis) shape) in
  let* blocks :=
    mapM (fun array_i =>
            let* rows :=
              mapM (fun index_entry =>
                      match nth_error shape axis with
                      | None => Panic (* input_shape[axis] *)
                      | Some dim =>
                        if dim <=? index_entry then Err else
                        let flat := (array_i * dim + index_entry) * row_size in
                        slice entries (Z.to_nat flat) (Z.to_nat row_size)
                      end) indices in
            Ok (concat rows))
         (map Z.of_nat (seq 0 (Z.to_nat num_arrays))) in
  Ok (concat blocks).

(* ------------------------------------------------------------------ the three operations *)
Fixpoint dedupZ (l : list Z) : list Z :=
  match l with
  | [] => []
  | x :: l' => if existsb (Z.eqb x) l' then dedupZ l' else x :: dedupZ l'
  end.

(* simple_evaluator.rs:898 Operation::ApplyPermutation(inverse).  [shape] is the (non-empty)
   shape of the array; the HashSet of values < n must have n elements. *)
Definition apply_permutation_op (inverse : bool) (entries shape perm : list Z) : result (list Z) :=
  match shape with
  | [] => Panic
  | n :: _ =>
    if negb (Z.of_nat (length (dedupZ (filter (fun x => x <? n) perm))) =? n) then Err else
    let* permutation := if inverse then execute_inverse_permutation_u64 perm else Ok perm in
    evaluate_gather entries shape permutation 0
  end.

(* simple_evaluator.rs:875 Operation::InversePermutation: sort_unstable + dedup must not
   shorten the array *)
Definition inverse_permutation_op (values : list Z) : result (list Z) :=
  if negb (length (dedupZ values) =? length values)%nat then Err
  else execute_inverse_permutation_u64 values.

(* a column: name, shape, flattened entries *)
Definition column : Type := string * list Z * list Z.
Definition col_name (c : column) := fst (fst c).
Definition col_shape (c : column) := snd (fst c).
Definition col_entries (c : column) := snd c.

(* simple_evaluator.rs:928 Operation::Sort(key): first column with that name is the key,
   n = its shape[0]; every column is gathered along axis 0 with the one sorting permutation. *)
Definition sort_op (key : string) (cols : list column) : result (list (list Z)) :=
  match find (fun c => String.eqb (col_name c) key) cols with
  | None => Err
  | Some kc =>
    match col_shape kc with
    | [] => Panic
    | n :: _ =>
      let* p := get_sorting_permutation (col_entries kc) n in
      mapM (fun c => evaluate_gather (col_entries c) (col_shape c) (map Z.of_nat p) 0) cols
    end
  end.

(* ------------------------------------------------------------------ integer keys *)
(* A2B is the identity on bytes (simple_evaluator.rs:801): little-endian bytes, bits packed
   LSB-first, so element x of width w is reread as bits (x / 2^j) mod 2, j = 0..w-1 *)
Fixpoint bits_lsb (w : nat) (x : Z) : list Z :=
  match w with O => [] | S w' => x mod 2 :: bits_lsb w' (x / 2) end.
(* B2A: the inverse reading *)
Fixpoint from_bits_lsb (bs : list Z) : Z :=
  match bs with [] => 0 | b :: r => b + 2 * from_bits_lsb r end.

(* comparisons.rs:331 flip_msb: add (xor) the constant [0,...,0,1] along the last axis;
   msb_mask[n-1] panics for n = 0, not reachable (w >= 8) *)
Definition flip_msb (bits : list Z) : list Z :=
  map (fun bm => (fst bm + snd bm) mod 2)
      (combine bits (repeat 0 (length bits - 1) ++ [1])).

Definition wnat (st : scalar) : nat := Z.to_nat (width st).

(* integer_key_sort.rs:59 integer_to_bits, one element (x is any representative mod 2^w);
   BIT: unsqueeze(-1) *)
Definition integer_to_bits (st : scalar) (x : Z) : list Z :=
  match st with
  | Bit => [x mod 2]
  | _ =>
    let bits := bits_lsb (wnat st) (norm st x) in
    let bits := if signed st then flip_msb bits else bits in
    rev bits
  end.

(* integer_key_sort.rs:79 integer_from_bits, one row; result is the element mod 2^w *)
Definition integer_from_bits (st : scalar) (row : list Z) : result Z :=
  match st with
  | Bit => match row with [] => Panic | b :: _ => Ok b end
  | _ =>
    let bits := rev row in
    let bits := if signed st then flip_msb bits else bits in
    Ok (from_bits_lsb bits)
  end.

(* what to_flattened_array_u128 shows for an element of type st: sign-extended to 128 bits *)
Definition read_u128 (st : scalar) (x : Z) : Z := sval st x mod 2 ^ 128.

(* a column with its scalar type *)
Definition tcolumn : Type := string * scalar * list Z * list Z.
Definition tc_name (c : tcolumn) := fst (fst (fst c)).
Definition tc_st (c : tcolumn) := snd (fst (fst c)).
Definition tc_shape (c : tcolumn) := snd (fst c).
Definition tc_entries (c : tcolumn) := snd c.

Definition key_width (st : scalar) : nat := match st with Bit => 1%nat | _ => wnat st end.

(* integer_key_sort.rs:17 SortByIntegerKey::instantiate evaluated: key column -> bits
   [.., w], Sort, bits -> integers.  Sort's typing rule wants a 2-dimensional key, so the
   integer key column must be 1-dimensional (else instantiation fails: Err); a missing key
   column is also a typing error of the inner Sort. *)
Definition sort_by_integer_key_op (key : string) (cols : list tcolumn) : result (list (list Z)) :=
  match find (fun c => String.eqb (tc_name c) key) cols with
  | None => Err
  | Some kc =>
    if negb (length (tc_shape kc) =? 1)%nat then Err else
    let to_bits (c : tcolumn) : column :=
      if String.eqb (tc_name c) key
      then (tc_name c, tc_shape c ++ [Z.of_nat (key_width (tc_st c))],
            flat_map (integer_to_bits (tc_st c)) (tc_entries c))
      else (tc_name c, tc_shape c, tc_entries c) in
    let* sorted := sort_op key (map to_bits cols) in
    mapM (fun cs : tcolumn * list Z =>
            let (c, s) := cs in
            if String.eqb (tc_name c) key
            then let* ints := mapM (integer_from_bits (tc_st c))
                                   (chunks (length s) (key_width (tc_st c)) s) in
                 Ok (map (read_u128 (tc_st c)) ints)
            else Ok s)
         (combine cols sorted)
  end.

(* ------------------------------------------------------------------ permutation algebra *)
(* A permutation of n rows is the list of its images.  ApplyPermutation(x, p, inverse=false)
   is out[i] = x[p[i]] (gather along axis 0); with inverse=true, out[p[i]] = x[i].  These are
   the row-level forms used for the radix schedule; [gather_rows_ok] in the proofs shows that
   on in-range indices they are exactly evaluate_gather (no failure is hidden by the default). *)
Definition apply_perm {A} (d : A) (p : list nat) (x : list A) : list A :=
  map (fun i => nth i x d) p.
(* the loop of execute_inverse_permutation without its range check *)
Definition inv_perm (p : list nat) : list nat :=
  fold_left (fun r iv => upd r (snd iv) (fst iv))
            (combine (seq 0 (length p)) p) (repeat 0%nat (length p)).
Definition compose_perm (p q : list nat) : list nat := apply_perm 0%nat p q. (* i |-> q[p[i]] *)
Definition is_perm (n : nat) (p : list nat) : Prop := Permutation p (seq 0 n).

(* ------------------------------------------------------------------ mpc_radix_sort.rs *)
(* value of a chunk row, first bit most significant (const_bits is built for k = l-1 .. 0) *)
Definition chunk_val (bits : list Z) : Z := fold_left (fun acc b => 2 * acc + b) bits 0.
Definition count_if {A} (f : A -> bool) (l : list A) : nat := length (filter f l).

(* mpc_radix_sort.rs:310 gen_multi_bit_sort_graph (Algorithm 11), what the circuit computes:
   p[i] = sum_v s[i][v] * f[i][v] - 1 with f one-hot of x_i and
   s[i][v] = #{j : x_j < v} + #{j <= i : x_j = v}: the rank of row i, i.e. the inverse of the
   sorting permutation (the doc comment's "inversed sorting permutation"). *)
Definition gen_multi_bit_sort (k : list (list Z)) : list nat :=
  let xs := map chunk_val k in
  map (fun i =>
         let x := nth i xs 0 in
         (count_if (fun y => Z.ltb y x) xs + count_if (fun y => Z.eqb y x) (firstn (S i) xs) - 1)%nat)
      (seq 0 (length xs)).

Definition lastn {A} (k : nat) (l : list A) : list A := skipn (length l - k) l.

Section Radix.
  (* Algorithm 11 as a function from the rows of a chunk to their ranks *)
  Variable ms : list (list Z) -> list nat.
  (* the protocol's random permutations: one per loop iteration, one for the final application *)
  Variable pi_of : nat -> list nat.
  Variable pi_fin : list nat.

  (* mpc_radix_sort.rs:134-148, one loop iteration on chunk rows [chunk] (indexed like the input) *)
  Definition radix_step (pi sigma : list nat) (chunk : list (list Z)) : list nat :=
    let k := apply_perm [] pi chunk in                    (* shuffle(input_chunk, pi) *)
    let sigma1 := apply_perm 0%nat pi sigma in            (* shuffle_and_reveal(sigma, pi) *)
    let k := apply_perm [] (inv_perm sigma1) k in         (* apply_permutation_plaintext(k, sigma, true) *)
    let ro := ms k in                                     (* Algorithm 11 *)
    let sigma2 := apply_perm 0%nat sigma1 ro in           (* apply_permutation_plaintext(ro, sigma, false) *)
    apply_perm 0%nat (inv_perm pi) sigma2.                (* unshuffle(sigma, pi) *)

  (* the chunk schedule, mpc_radix_sort.rs:82-133: step0_size = b % 2, or 2 if that is 0; the
     first pass takes the last step0_size bits; then (b - step0_size)/2 two-bit chunks of the
     remaining prefix, visited from the last (least significant) to the first *)
  Definition step0_size (b : nat) : nat := if (b mod 2 =? 0)%nat then 2%nat else (b mod 2)%nat.
  Definition chunk_of (bit_ind : nat) (row : list Z) : list Z := firstn 2 (skipn (2 * bit_ind) row).

  Definition radix_sigma (b : nat) (keys : list (list Z)) : result (list nat) :=
    let s0 := step0_size b in
    if (b <? s0)%nat then Panic (* b - step0_size underflows *) else
    let sigma0 := ms (map (lastn s0) keys) in
    let count := ((b - s0) / 2)%nat in
    let input := map (firstn (b - s0)) keys in            (* cut off the last step0_size bits *)
    Ok (fold_left (fun sigma bit_ind => radix_step (pi_of bit_ind) sigma (map (chunk_of bit_ind) input))
                  (rev (seq 0 count)) sigma0).

  (* mpc_radix_sort.rs:163 apply_sorting_permutation (Algorithm 13) on one column of rows *)
  Definition apply_sorting_permutation {A} (d : A) (sigma : list nat) (col : list A) : list A :=
    let sigma1 := apply_perm 0%nat pi_fin sigma in        (* shuffle_and_reveal *)
    apply_perm d (inv_perm sigma1) (apply_perm d pi_fin col).

  Definition radix_sort_column {A} (d : A) (b : nat) (keys : list (list Z)) (col : list A)
    : result (list A) :=
    let* sigma := radix_sigma b keys in Ok (apply_sorting_permutation d sigma col).
End Radix.

(* ------------------------------------------------------------------ Eqb instances: none needed
   (results are result (list Z), result (list (list Z)), list nat) *)

(* C03: placeholder for the static mask analysis (see Proofs/PrivacyProofs.v for the theorems
   available so far). *)
From CC Require Import Base.Prelude.

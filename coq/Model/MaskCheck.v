(* C03: the static mask analysis [maskcheck] on compiled (inlined, elementwise-fragment) graphs.

   Reading of a compiled graph (the ring reading of Model/RingEval.v made total): every array of
   the program is one element of a commutative ring R; the output of the PRF node with id i is
   the cell [t i] of an idealised random tape t : Z -> R (independent uniform values; distinctness
   of (key, iv) pairs is C04's statement); PRF keys are the constant [RKey].

   For an observer party p the analysis computes, per node, which tape cells the node can depend
   on (supp), in which cells its value is affine with slope +-1 (lin), and whether the node is
   determined by p's view (vd: p's and public inputs, constants, PRF values under keys p holds,
   everything delivered to p, everything computed from those).  Every node delivered to p
   (annotation Send s p, s <> p) must be of one of the forms
     K   computable from p's view anyway,
     Key a PRF key,
     E'  a copy of the revealed output (p is an output party),
     E   the one missing summand of the revealed output, all other summands being in p's view,
     M   masked by a fresh tape cell under a key p does not hold (one-time pad, triangular).
   Tuples (programs create_tuple(e1, .., ek) with elementwise e_i): a node that is statically a
   tuple (CreateTuple, or a NOP copy of one: kind KdTup) carries one such info per component; a
   delivery of a tuple is the delivery of each of its components (every component must be of one
   of the forms above, masks are recorded per (node, component)), TupleGet j of a tuple-valued
   node reads the info of component j, and a tuple-valued revealed output is a CreateTuple of
   Add-trees, one per component (pattern E is looked for in the component's own tree).  Component
   infos are one level deep: a component that is itself a tuple is opaque (kind KdUnk).
   Soundness (Proofs/MaskCheckProofs.v): acceptance implies a bijection of the tape space under
   which p's whole view coincides for any two admissible input vectors. *)
From CC Require Import Base.Prelude Base.Scalar Base.Ty Base.Shape Graph.Value Graph.IR
  Model.RingEval Model.Knows.

Definition zget {A} (l : list A) (i : Z) (d : A) : A := match znth l i with Ok v => v | _ => d end.
Definition zmem (x : Z) (l : list Z) : bool := existsb (Z.eqb x) l.
Definition zunion (a b : list Z) : list Z := a ++ filter (fun x => negb (zmem x a)) b.
Definition isSome {A} (o : option A) : bool := match o with Some _ => true | None => false end.

(* ------------------------------------------------------------------ node-by-node builders *)
(* one value per node, in node order; [sem i nd look ins]: value of node i from the values of
   earlier nodes (look) and the not yet consumed inputs; an Input node consumes one input
   (same threading as RingEval.reval) *)
Section Build.
  Context {A I : Type}.
  Variable dflt : A.
  Variable sem : Z -> node -> (Z -> A) -> list I -> A.
  Fixpoint build (nodes : list node) (acc : list A) (ins : list I) : list A :=
    match nodes with
    | [] => acc
    | nd :: r => build r (acc ++ [sem (Z.of_nat (length acc)) nd (fun d => zget acc d dflt) ins])
                       (if is_input (n_op nd) then tl ins else ins)
    end.
End Build.

(* ------------------------------------------------------------------ total ring evaluation *)
Section MVal.
  Variable R : Type.
  Variables (r0 : R) (radd rmul rsub : R -> R -> R).
  Variable catom : value -> R.     (* value of a program constant *)
  Variable one : R.                (* the all-ones array *)
  Notation rval := (rval R).

  Definition leaf (v : rval) : R := match v with RLeaf _ x => x | _ => r0 end.
  (* component j of a tuple value (what TupleGet j computes) *)
  Definition cval (j : Z) (v : rval) : rval := match v with RTup _ l => zget l j (RKey R) | _ => RKey R end.

  (* RingEval.reval_node made total: an ill-shaped application yields the default RKey, and the
     arithmetic operations read a non-leaf operand as r0 *)
  Definition mnode (t : Z -> R) (i : Z) (o : op) (vs : list rval) : rval :=
    match o with
    | OZeros (TScalar _) | OZeros (TArray _ _) => RLeaf R r0
    | OOnes (TScalar _) | OOnes (TArray _ _) => RLeaf R one
    | OConstant (TScalar _) v | OConstant (TArray _ _) v => RLeaf R (catom v)
    | ORandom _ => RKey R
    | OPRF _ _ => RLeaf R (t i)
    | OAdd => match vs with [a; b] => RLeaf R (radd (leaf a) (leaf b)) | _ => RKey R end
    | OSubtract => match vs with [a; b] => RLeaf R (rsub (leaf a) (leaf b)) | _ => RKey R end
    | OMultiply => match vs with [a; b] => RLeaf R (rmul (leaf a) (leaf b)) | _ => RKey R end
    | ONOP => match vs with [v] => v | _ => RKey R end
    | OCreateTuple => RTup R vs
    | OTupleGet j => match vs with [RTup _ l] => zget l j (RKey R) | _ => RKey R end
    | _ => RKey R
    end.

  Definition msem (t : Z -> R) (i : Z) (nd : node) (look : Z -> rval) (ins : list rval) : rval :=
    match n_op nd with
    | OInput _ => hd (RKey R) ins
    | o => mnode t i o (map look (n_deps nd))
    end.

  (* values of all nodes, in node order, for tape t and inputs ins *)
  Definition mval (t : Z -> R) (ins : list rval) (nodes : list node) : list rval :=
    build (RKey R) (msem t) nodes [] ins.
  Definition nval (t : Z -> R) (ins : list rval) (nodes : list node) (i : Z) : rval :=
    zget (mval t ins nodes) i (RKey R).
  (* value at a location (node, component): the node's whole value if j < 0 *)
  Definition lval (t : Z -> R) (ins : list rval) (nodes : list node) (i j : Z) : rval :=
    if j <? 0 then nval t ins nodes i else cval j (nval t ins nodes i).
End MVal.

(* ------------------------------------------------------------------ static information *)
Inductive kind := KdLeaf | KdKey | KdUnk | KdTup.
Definition kind_eqb (a b : kind) : bool :=
  match a, b with KdLeaf, KdLeaf | KdKey, KdKey | KdUnk, KdUnk | KdTup, KdTup => true | _, _ => false end.

Record ninfo := mkNI {
  ni_supp : list Z;              (* tape cells the value may depend on *)
  ni_lin : list (Z * bool);      (* cells with slope +1 (false) / -1 (true) *)
  ni_vd : bool;                  (* determined by the observer's view *)
  ni_pre : bool;                 (* determined by the view even without being delivered *)
  ni_kind : kind                 (* always a leaf / always a key / unknown / a tuple with the
                                    recorded components *)
}.
Definition ni_default : ninfo := mkNI [] [] false false KdUnk.
(* per node: the info of the whole value and, for a static tuple, of each component *)
Definition xinfo := (ninfo * list ninfo)%type.
Definition xi_default : xinfo := (ni_default, []).

Definition is_deliv (p : party) (nd : node) : bool :=
  existsb (fun a => match a with ASend s r => (r =? p) && negb (s =? p) | _ => false end) (n_annots nd).

Definition dsupp (ds : list ninfo) : list Z := fold_right (fun a u => zunion (ni_supp a) u) [] ds.
Definition lin_keep (excl : list Z) (l : list (Z * bool)) : list (Z * bool) :=
  filter (fun e => negb (zmem (fst e) excl)) l.
Definition lin_flip (l : list (Z * bool)) : list (Z * bool) := map (fun e => (fst e, negb (snd e))) l.

(* components are one level deep: a component that is itself a tuple is opaque *)
Definition unk_kind (k : kind) : kind := match k with KdTup => KdUnk | _ => k end.
(* a value seen as a component of a new node: determined without that node's delivery iff it is
   in the view already *)
Definition as_comp (a : ninfo) : ninfo :=
  mkNI (ni_supp a) (ni_lin a) (ni_vd a) (ni_vd a) (unk_kind (ni_kind a)).
Definition set_deliv (dv : bool) (a : ninfo) : ninfo :=
  mkNI (ni_supp a) (ni_lin a) (dv || ni_pre a) (ni_pre a) (ni_kind a).
(* the component a TupleGet j reads, if its argument has recorded components *)
Definition tget_comp (xs : list xinfo) (j : Z) : option ninfo :=
  match xs with
  | [(_, cs)] => match znth cs j with Ok cj => Some cj | _ => None end
  | _ => None
  end.

Definition tget_of (o : op) (xs : list xinfo) : option ninfo :=
  match o with OTupleGet j => tget_comp xs j | _ => None end.
Definition supp_of (i : Z) (o : op) (ds : list ninfo) : list Z :=
  match o with OPRF _ _ => [i] | _ => dsupp ds end.
Definition lin_of (i : Z) (o : op) (ds : list ninfo) : list (Z * bool) :=
  match o with
  | OPRF _ _ => [(i, false)]
  | OAdd => match ds with
            | [a; b] => lin_keep (ni_supp b) (ni_lin a) ++ lin_keep (ni_supp a) (ni_lin b)
            | _ => [] end
  | OSubtract => match ds with
                 | [a; b] => lin_keep (ni_supp b) (ni_lin a) ++ lin_flip (lin_keep (ni_supp a) (ni_lin b))
                 | _ => [] end
  | ONOP => match ds with [a] => ni_lin a | _ => [] end
  | _ => []
  end.
Definition kind_of (o : op) (ds : list ninfo) : kind :=
  match o with
  | ORandom _ => KdKey
  | OPRF _ _ => KdLeaf
  | OZeros (TScalar _) | OZeros (TArray _ _) | OOnes (TScalar _) | OOnes (TArray _ _)
  | OConstant (TScalar _) _ | OConstant (TArray _ _) _ => KdLeaf
  | OAdd | OSubtract | OMultiply => match ds with [_; _] => KdLeaf | _ => KdKey end
  | ONOP => match ds with [a] => ni_kind a | _ => KdKey end
  | OCreateTuple => KdTup
  | _ => KdUnk
  end.
Definition pre_of (c : config) (p : party) (i : Z) (o : op) (ds : list ninfo) (sts : list status) : bool :=
  match o with
  | OInput _ => match sts with
                | StParty q :: _ => q =? p
                | StPublic :: _ => true
                | _ => false end
  | OZeros _ | OOnes _ | OConstant _ _ => true
  | ORandom _ => cert_of c i =? p
  | _ => forallb ni_vd ds
  end.
(* recorded components: of a CreateTuple its arguments, of a NOP those of its argument *)
Definition comps_of (o : op) (xs : list xinfo) : list ninfo :=
  match o with
  | OCreateTuple => map as_comp (map fst xs)
  | ONOP => match xs with [(_, cs)] => map as_comp cs | _ => [] end
  | _ => []
  end.

Definition isem (c : config) (p : party) (i : Z) (nd : node) (look : Z -> xinfo) (sts : list status) : xinfo :=
  let xs := map look (n_deps nd) in
  let ds := map fst xs in
  let o := n_op nd in
  let dv := is_deliv p nd in
  match tget_of o xs with
  | Some cj =>   (* TupleGet j of a node with recorded components: the info of component j *)
      (mkNI (ni_supp cj) (ni_lin cj) (dv || ni_vd cj) (ni_vd cj) (unk_kind (ni_kind cj)), [])
  | None =>
      let pre := pre_of c p i o ds sts in
      (mkNI (supp_of i o ds) (lin_of i o ds) (dv || pre) pre (kind_of o ds),
       map (set_deliv dv) (comps_of o xs))
  end.

Definition infos (c : config) (p : party) (nodes : list node) : list xinfo :=
  build xi_default (isem c p) nodes [] (cfg_inputs c).
Definition topi (I : list xinfo) (i : Z) : ninfo := fst (zget I i xi_default).
Definition compsi (I : list xinfo) (i : Z) : list ninfo := snd (zget I i xi_default).
(* info at a location (node, component); the whole node if j < 0 *)
Definition linfo (I : list xinfo) (i j : Z) : ninfo :=
  if j <? 0 then topi I i else zget (compsi I i) j ni_default.
Definition info_at (c : config) (p : party) (nodes : list node) (i : Z) : ninfo :=
  topi (infos c p nodes) i.
Definition comps_at (c : config) (p : party) (nodes : list node) (i : Z) : list ninfo :=
  compsi (infos c p nodes) i.
(* node i is part of the observer's view *)
Definition mc_vd (c : config) (p : party) (nodes : list node) (i : Z) : bool :=
  ni_vd (info_at c p nodes i).
(* component j of the (tuple-valued) node i is part of the observer's view *)
Definition mc_cvd (c : config) (p : party) (nodes : list node) (i j : Z) : bool :=
  (0 <=? j) && ni_vd (linfo (infos c p nodes) i j).

(* ------------------------------------------------------------------ reveal patterns *)
(* the output node and, transitively, the dependency of every NOP on the chain *)
Fixpoint outchain (nodes : list node) (fuel : nat) (i : Z) : list Z :=
  match fuel with
  | O => [i]
  | S f =>
      i :: match znth nodes i with
           | Ok nd => match n_op nd, n_deps nd with
                      | ONOP, [d] => if (0 <=? d) && (d <? i) then outchain nodes f d else []
                      | _, _ => []
                      end
           | _ => []
           end
  end.

(* [etree I nodes fuel n jn i = Some b]: the value of node i is a sum whose summands are the
   location (n, jn) (node n itself if jn < 0, else TupleGet jn of node n; exactly once if b, not at
   all otherwise), view-determined nodes with id < n and TupleGet's of view-determined components
   of nodes with id < n *)
Fixpoint etree (I : list xinfo) (nodes : list node) (fuel : nat) (n jn i : Z) : option bool :=
  match fuel with
  | O => None
  | S f =>
      if (jn <? 0) && (i =? n) then Some true
      else if (i <? n) && ni_vd (topi I i) then Some false
      else match znth nodes i with
           | Ok nd =>
               match n_op nd, n_deps nd with
               | OAdd, [a; b] =>
                   if (0 <=? a) && (a <? i) && (0 <=? b) && (b <? i) then
                     match etree I nodes f n jn a, etree I nodes f n jn b with
                     | Some x, Some y => if x && y then None else Some (x || y)
                     | _, _ => None
                     end
                   else None
               | OTupleGet j, [d] =>
                   if (0 <=? d) && (d <? i) && (0 <=? j) then
                     if (d =? n) && (j =? jn) then Some true
                     else if (d <? n) && ni_vd (linfo I d j) then Some false
                     else None
                   else None
               | _, _ => None
               end
           | _ => None
           end
  end.

(* pattern E for the location (n, j): the base of the output chain is an Add-tree over (n, -1), or
   a CreateTuple whose component j is an Add-tree over (n, j) *)
Definition epat (I : list xinfo) (nodes : list node) (chain : list Z) (n j : Z) : bool :=
  let b := last chain 0 in
  if j <? 0 then
    match etree I nodes (length nodes) n j b with Some true => true | _ => false end
  else
    match znth nodes b with
    | Ok nd =>
        match n_op nd with
        | OCreateTuple =>
            match znth (n_deps nd) j with
            | Ok cn => (0 <=? cn) && (cn <? b) &&
                       match etree I nodes (length nodes) n j cn with Some true => true | _ => false end
            | _ => false
            end
        | _ => false
        end
    | _ => false
    end.

(* ------------------------------------------------------------------ deliveries and masks *)
Fixpoint deliveries_go (p : party) (nodes : list node) (i : Z) : list Z :=
  match nodes with
  | [] => []
  | nd :: r => (if is_deliv p nd then [i] else []) ++ deliveries_go p r (i + 1)
  end.
Definition deliveries (p : party) (nodes : list node) : list Z := deliveries_go p nodes 0.

Definition loc := (Z * Z)%type.                (* (node, component); component -1 = whole value *)
(* what a delivery of node n delivers: its recorded components and, unless it is a static tuple
   (then the components are everything), the whole value *)
Definition deliv_locs (I : list xinfo) (n : Z) : list loc :=
  (if kind_eqb (ni_kind (topi I n)) KdTup then [] else [(n, -1)])
  ++ map (fun j => (n, j)) (zrange (Z.of_nat (length (compsi I n)))).

Definition mask := (Z * bool * Z * Z)%type.    (* (cell, negated, delivered node, component) *)
Definition m_cell (m : mask) : Z := fst (fst (fst m)).
Definition m_neg (m : mask) : bool := snd (fst (fst m)).
Definition m_node (m : mask) : Z := snd (fst m).
Definition m_comp (m : mask) : Z := snd m.
Definition mask_cells (M : list mask) : list Z := map m_cell M.

(* classes K, Key, E', E: acceptance without a mask *)
Definition deliv_free (I : list xinfo) (nodes : list node) (outp : bool) (chain : list Z) (l : loc) : bool :=
  let inf := linfo I (fst l) (snd l) in
  ni_pre inf
  || kind_eqb (ni_kind inf) KdKey
  || (outp && zmem (fst l) chain)
  || (outp && kind_eqb (ni_kind inf) KdLeaf && epat I nodes chain (fst l) (snd l)).

Definition deliv_okb (I : list xinfo) (nodes : list node) (outp : bool) (chain : list Z) (M : list mask) (l : loc) : bool :=
  deliv_free I nodes outp chain l || existsb (fun m => (m_node m =? fst l) && (m_comp m =? snd l)) M.

(* the triangular one-time-pad condition on the recorded masks, in order: the mask is a +-1
   slope cell of its delivered location, under a key the observer does not hold, distinct from
   all later masks, and no later mask occurs in the support of this location *)
Fixpoint masks_okb (I : list xinfo) (M : list mask) : bool :=
  match M with
  | [] => true
  | (cell, s, n, j) :: r =>
      existsb (fun e => (fst e =? cell) && Bool.eqb (snd e) s) (ni_lin (linfo I n j))
      && negb (ni_vd (topi I cell))
      && negb (zmem cell (mask_cells r))
      && forallb (fun c => negb (zmem c (ni_supp (linfo I n j)))) (mask_cells r)
      && masks_okb I r
  end.

(* greedy choice of the masks (class M): first slope cell that is not own, not yet used and not
   in the support of an earlier masked delivery *)
Definition find_step (I : list xinfo) (nodes : list node) (outp : bool) (chain : list Z)
           (st : list mask * list Z) (l : loc) : list mask * list Z :=
  let (M, ms) := st in
  if deliv_free I nodes outp chain l then st
  else
    let inf := linfo I (fst l) (snd l) in
    match find (fun e => negb (ni_vd (topi I (fst e))) && negb (zmem (fst e) (mask_cells M))
                         && negb (zmem (fst e) ms)) (ni_lin inf) with
    | Some (cell, s) => (M ++ [(cell, s, fst l, snd l)], zunion ms (ni_supp inf))
    | None => st
    end.

Definition is_shared (s : status) : bool := match s with StShared => true | _ => false end.
Definition inputs_okb (c : config) (nodes : list node) : bool :=
  negb (existsb is_shared (cfg_inputs c))
  && (length (filter (fun nd => is_input (n_op nd)) nodes) =? length (cfg_inputs c))%nat.

(* the reading is meaningful only on the elementwise fragment of RingEval.v, and the idealisation
   of the PRF as one independent cell per PRF node needs pairwise distinct counters (C04) *)
Definition frag_op (o : op) : bool :=
  match o with
  | OInput _ | OZeros _ | OOnes _ | OConstant _ _ | ORandom _ | OPRF _ _ | OAdd | OSubtract | OMultiply
  | ONOP | OCreateTuple | OTupleGet _ => true
  | _ => false
  end.
Definition prf_ivs (nodes : list node) : list Z :=
  flat_map (fun nd => match n_op nd with OPRF iv _ => [iv] | _ => [] end) nodes.
Fixpoint znodup (l : list Z) : bool :=
  match l with [] => true | x :: r => negb (zmem x r) && znodup r end.
Definition graph_okb (nodes : list node) : bool :=
  forallb (fun nd => frag_op (n_op nd)) nodes && znodup (prf_ivs nodes).
Definition wf_okb (c : config) (nodes : list node) : bool := inputs_okb c nodes && graph_okb nodes.

Definition all_locs (I : list xinfo) (p : party) (nodes : list node) : list loc :=
  flat_map (deliv_locs I) (deliveries p nodes).

Definition maskcheck (c : config) (p : party) (nodes : list node) (out : Z) : option (list mask) :=
  let I := infos c p nodes in
  let outp := zmem p (cfg_outputs c) in
  let chain := outchain nodes (length nodes) out in
  let dl := all_locs I p nodes in
  let M := fst (fold_left (find_step I nodes outp chain) dl ([], [])) in
  if wf_okb c nodes && masks_okb I M && forallb (deliv_okb I nodes outp chain M) dl
  then Some M else None.

(* tie with C02: every node the knowledge analysis of Model/Knows.v (proved sound there) says the
   observer validly holds is counted in the observer's view here *)
Definition viewcover (c : config) (p : party) (nodes : list node) : bool :=
  let I := infos c p nodes in
  match know_all c nodes with
  | Ok ks => forallb (fun ik => negb (pmem p (kmeet (snd ik))) || ni_vd (topi I (fst ik)))
                     (combine (zrange (Z.of_nat (length ks))) ks)
  | _ => false
  end.

(* diagnostic: the delivered locations that are not accepted, and their nodes *)
Definition mc_rejected_locs (c : config) (p : party) (nodes : list node) (out : Z) : list loc :=
  let I := infos c p nodes in
  let outp := zmem p (cfg_outputs c) in
  let chain := outchain nodes (length nodes) out in
  let dl := all_locs I p nodes in
  let M := fst (fold_left (find_step I nodes outp chain) dl ([], [])) in
  filter (fun l => negb (deliv_okb I nodes outp chain M l)) dl.
Definition mc_rejected (c : config) (p : party) (nodes : list node) (out : Z) : list Z :=
  map fst (mc_rejected_locs c p nodes out).

(* C17 model: ops/clip.rs (Clip2K).  Definitions only; proofs are in Proofs/ClipProofs.v.
   One bitstring (least significant bit first, read as a two's complement integer); the Rust
   operation is elementwise over the batch dimensions. *)
From CC Require Import Base.Prelude Model.Adder Model.Mux.

(* custom_ops.rs:336 Or = Not (Not a * Not b) on bits *)
Definition or_bit (a b : bool) : bool := negb (andb (negb a) (negb b)).

(* Mux with one flag broadcast over the bit dimension *)
Definition mux_bits (f : bool) (c1 c0 : bits) : bits := map2 (mux_b f) c1 c0.

(* clip.rs:51 Clip2K::instantiate *)
Definition clip2k (k : nat) (x : bits) : result bits :=
  let num_bits := length x in
  (* clip.rs:61 `self.k >= num_bits - 1` *)
  if (num_bits - 1 <=? k)%nat then Err else
  (* clip.rs:84 input_bits.get(num_bits - 1) *)
  match nth_error x (num_bits - 1) with
  | None => Panic
  | Some is_negative =>
      (* clip.rs:87-96 OR of the bits k.. by Iterate over the vector of the top bits *)
      let top_bits := skipn k x in
      let is_large_or_negative := fold_left or_bit top_bits false in
      (* clip.rs:100-110 zeros(k) ++ [Mux(is_negative, 0, 1)] ++ zeros(num_bits - k - 1) *)
      let clipped_value :=
        repeat false k ++ [mux_b is_negative false true] ++ repeat false (num_bits - k - 1) in
      (* clip.rs:111-114 *)
      Ok (mux_bits is_large_or_negative clipped_value x)
  end.

(* C07 model, part 2: the Iterate strategies of the inliner at the level of the body's function
   f : S -> I -> S * O  (state, input element) |-> (new state, output element).
   Definitions only; proofs are in Proofs/IterateProofs.v.

   What "at the level of f" means: every inlined copy of the body graph computes f of the two
   nodes bound to its inputs (assign_input_nodes / recursively_inline_graph / unassign_nodes,
   inline_ops.rs:222-367); this file models WHICH copies each strategy creates and how their
   inputs and outputs are wired, not the node-level copying itself.  `inputs_node.vector_get(i)`
   is [arr_get xs i], `tuple_get(0)` / `tuple_get(1)` are [fst] / [snd].

   NOT modelled: the bit-matrix encoding of the small-state strategy
   (exponential_inliner.rs:88-150, 246-471: mask constants, one-hot encoding, mapping matrices,
   MatMul / the 1-bit combiner, extract_state_from_mapping).  Here a mapping IS the transition
   function S -> S it encodes and combining two mappings IS function composition; that the
   matrices represent these functions (under the batching contract of
   exponential_inliner.rs:17-29) is covered only by the harness's semantic oracle. *)
From CC Require Import Base.Prelude Model.Prefix.
Local Open Scope nat_scope.

Section Iterate.
  Context {S I O : Type} (f : S -> I -> S * O).

  (* evaluators.rs:36-54, reference semantics of Operation::Iterate:
     for input in inputs { r = graph(state, input); state = r[0]; outputs.push(r[1]) } *)
  Definition ref_step (acc : S * list O) (x : I) : S * list O :=
    let r := f (fst acc) x in (fst r, snd acc ++ [snd r]).
  Definition iterate_ref (s0 : S) (xs : list I) : S * list O :=
    fold_left ref_step xs (s0, []).

  (* simple_iterate_inliner.rs:21-29  for i in 0..inputs_len { x = inputs[i]; r = body(state, x);
     state = r.0; outputs.push(r.1) } *)
  Definition simple_step (xs : list I) (acc : S * list O) (i : nat) : result (S * list O) :=
    let* x := arr_get xs i in
    let r := f (fst acc) x in
    Ok (fst r, snd acc ++ [snd r]).
  Definition iterate_simple (s0 : S) (xs : list I) : result (S * list O) :=
    foldM (simple_step xs) (seq 0 (length xs)) (s0, []).

  (* empty_state_iterate_inliner.rs:20-31: every copy gets the INITIAL state; the state returned
     is the initial state *)
  Definition empty_step (s0 : S) (xs : list I) (outs : list O) (i : nat) : result (list O) :=
    let* x := arr_get xs i in
    Ok (outs ++ [snd (f s0 x)]).
  Definition iterate_empty_state (s0 : S) (xs : list I) : result (S * list O) :=
    let* outs := foldM (empty_step s0 xs) (seq 0 (length xs)) [] in
    Ok (s0, outs).

  (* exponential_inliner.rs:34 inline_iterate_small_state, mappings as functions (see header).
     MappingCombiner::combine(arg1, arg2) = arg1.matmul(arg2): row vector x M1 x M2, i.e. first
     arg1 then arg2. *)
  Definition compose (g h : S -> S) : S -> S := fun s => h (g s).
  (* create_mappings :426-452: one mapping per input, table of body(mask, input_i).0 over all masks *)
  Definition mapping_step (xs : list I) (acc : list (S -> S)) (i : nat) : result (list (S -> S)) :=
    let* x := arr_get xs i in
    Ok (acc ++ [fun s => fst (f s x)]).
  (* :185-204 *)
  Definition small_out_step (s0 : S) (xs : list I) (ps : list (S -> S)) (acc : list O) (i : nat)
    : result (list O) :=
    let* st := (if i =? 0 then Ok s0
                else let* m := arr_get ps (i - 1) in Ok (m s0)) in   (* extract_state_from_mapping *)
    let* x := arr_get xs i in
    Ok (acc ++ [snd (f st x)]).
  Definition iterate_small_state (empty_output : bool) (unit_out : O) (lvl : depth_level)
             (s0 : S) (xs : list I) : result (S * list O) :=
    let n := length xs in
    if n =? 0 then Ok (s0, []) else                                   (* :61 *)
    let* maps := foldM (mapping_step xs) (seq 0 n) [] in
    if empty_output then                                              (* :154-177 *)
      let* m := log_depth_sum compose maps in
      Ok (m s0, repeat unit_out n)
    else                                                              (* :178-213 *)
      let* ps := pick_prefix_sum_algorithm compose n lvl maps in
      let* outs := foldM (small_out_step s0 xs ps) (seq 0 n) [] in
      let* m := arr_get ps (length ps - 1) in
      Ok (m s0, outs).
End Iterate.

Section Associative.
  (* associative_iterate_inliner.rs:10: state and input elements have the same type (:44) *)
  Context {S O : Type} (f : S -> S -> S * O).

  (* StateCombiner::combine :90-96: a copy of the body, output 0 *)
  Definition state_comb (a b : S) : S := fst (f a b).

  (* :38-43 inputs = [initial_state, xs[0], ..., xs[n-1]] *)
  Definition inputs_step (xs : list S) (acc : list S) (i : nat) : result (list S) :=
    let* x := arr_get xs i in Ok (acc ++ [x]).
  (* :68-79 outputs[i] = body(prefix_sums[i], inputs[i+1]).1 *)
  Definition assoc_out_step (ins ps : list S) (acc : list O) (i : nat) : result (list O) :=
    let* p := arr_get ps i in
    let* x := arr_get ins (i + 1) in
    Ok (acc ++ [snd (f p x)]).
  (* [empty_output]: the body's output element type is the empty tuple, whose only value is
     [unit_out] (:34-37, :54-63) *)
  Definition iterate_associative (empty_output : bool) (unit_out : O) (lvl : depth_level)
             (s0 : S) (xs : list S) : result (S * list O) :=
    let n := length xs in
    if n =? 0 then Ok (s0, []) else                                   (* :30 *)
    let* ins := foldM (inputs_step xs) (seq 0 n) [s0] in
    if empty_output then
      let* r := log_depth_sum state_comb ins in
      Ok (r, repeat unit_out n)
    else
      let* ps := pick_prefix_sum_algorithm state_comb n lvl ins in
      let* outs := foldM (assoc_out_step ins ps) (seq 0 n) [] in
      let* fin := arr_get ps (length ps - 1) in                       (* :80 *)
      Ok (fin, outs).
End Associative.

(* ------------------------------------------------------------------ concrete bodies
   The bodies of the harness's generated graphs (harness/src/c07.rs build_body), over Z with the
   explicit u64 / bit wrap-around, for the value-level correspondence of this file. *)
Local Open Scope Z_scope.
Definition w64 (x : Z) : Z := x mod 2 ^ 64.
(* Kind::General: s' = s*s + x, out = s'*x + s (u64) *)
Definition body_sq (s x : Z) : Z * Z :=
  let ns := w64 (w64 (s * s) + x) in (ns, w64 (w64 (ns * x) + s)).
(* Kind::AssocMat: 2x2 matrices over u64, row major; s' = s x (MatMul), out = s' + x *)
Definition mat2 := (Z * Z * Z * Z)%type.
Definition mat2_mul (a b : mat2) : mat2 :=
  let '(a0, a1, a2, a3) := a in
  let '(b0, b1, b2, b3) := b in
  (w64 (a0 * b0 + a1 * b2), w64 (a0 * b1 + a1 * b3),
   w64 (a2 * b0 + a3 * b2), w64 (a2 * b1 + a3 * b3)).
Definition mat2_add (a b : mat2) : mat2 :=
  let '(a0, a1, a2, a3) := a in
  let '(b0, b1, b2, b3) := b in
  (w64 (a0 + b0), w64 (a1 + b1), w64 (a2 + b2), w64 (a3 + b3)).
Definition body_mat (s x : mat2) : mat2 * mat2 :=
  let ns := mat2_mul s x in (ns, mat2_add ns x).
Definition body_mat_void (s x : mat2) : mat2 * unit := (mat2_mul s x, tt).
(* Kind::OneBitScalar: s' = s*x0 + x1, out = s'*x1 + s + x0 (bits) *)
Definition body_bit (s : Z) (x : Z * Z) : Z * Z :=
  let ns := (s * fst x + snd x) mod 2 in (ns, (ns * snd x + s + fst x) mod 2).
Definition body_bit_void (s : Z) (x : Z * Z) : Z * unit := ((s * fst x + snd x) mod 2, tt).

(* ------------------------------------------------------------------ encodings of mappings
   exponential_inliner.rs:227-262, single-bit case, modelled exactly: a mapping is the tuple
   (image of 0, image of 1); bits are booleans, Add = xorb, Multiply = andb, x + 1 = negb x. *)
Definition encode1 (g : bool -> bool) : bool * bool := (g false, g true).
(* MappingCombiner1Bit::combine :230-243 *)
Definition combine1 (m1 m2 : bool * bool) : bool * bool :=
  let distinct := xorb (fst m2) (snd m2) in
  (xorb (andb (fst m1) distinct) (fst m2), xorb (andb (snd m1) distinct) (fst m2)).
(* extract_state_from_mapping, single_bit branch :254-262 *)
Definition extract1 (m : bool * bool) (s : bool) : bool :=
  xorb (andb (fst m) (negb s)) (andb (snd m) s).

(* K-bit case (:76-83): states are the masks 0..m-1 (m = 2^K), a mapping is the m x m one-hot
   matrix M[i][j] = (g i == j) over bits and the combiner is MatMul over bits.  Definitions only,
   for the statement C07_small_state_matrix_encoding_full; the graph-level construction of these
   matrices for batched states (reshape / permute_axes / get_slice) is not modelled. *)
Definition onehot_matrix (g : nat -> nat) : nat -> nat -> bool := fun i j => Nat.eqb j (g i).
Definition bit_matmul (m : nat) (A B : nat -> nat -> bool) : nat -> nat -> bool :=
  fun i j => fold_left xorb (map (fun k => A i k && B k j) (seq 0 m)) false.

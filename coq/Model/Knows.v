(* C02 model: three-party execution of an inlined graph (values cross parties only at
   Send-annotated nodes) and the static "who validly knows what" analysis kcheck.
   The op semantics [sem] is a Section variable: the soundness theorem holds for every
   deterministic op semantics whose structural ops route values. *)
From CC Require Import Base.Prelude Base.Scalar Base.Ty Base.Shape Graph.Value Graph.IR.

(* ------------------------------------------------------------------ party sets and knowledge *)
Definition party := Z.                        (* 0, 1, 2 *)
Record pset := mkPS { ps0 : bool; ps1 : bool; ps2 : bool }.
Definition pmem (p : party) (s : pset) : bool :=
  if p =? 0 then ps0 s else if p =? 1 then ps1 s else if p =? 2 then ps2 s else false.
Definition pall : pset := mkPS true true true.
Definition pnone : pset := mkPS false false false.
Definition psingle (p : party) : pset := mkPS (p =? 0) (p =? 1) (p =? 2).
Definition pinter (a b : pset) : pset := mkPS (ps0 a && ps0 b) (ps1 a && ps1 b) (ps2 a && ps2 b).
Definition padd (p : party) (s : pset) : pset :=
  mkPS (ps0 s || (p =? 0)) (ps1 s || (p =? 1)) (ps2 s || (p =? 2)).
Definition premove (p : party) (s : pset) : pset :=
  mkPS (ps0 s && negb (p =? 0)) (ps1 s && negb (p =? 1)) (ps2 s && negb (p =? 2)).
Definition pset_eqb (a b : pset) : bool :=
  Bool.eqb (ps0 a) (ps0 b) && Bool.eqb (ps1 a) (ps1 b) && Bool.eqb (ps2 a) (ps2 b).

(* knowledge of a node value: a leaf speaks about the whole sub-value below it *)
Inductive know :=
| KLeaf (s : pset)
| KTup (ks : list know).

Fixpoint kmeet (k : know) : pset :=          (* parties that know every leaf *)
  match k with
  | KLeaf s => s
  | KTup [] => pnone          (* nobody is said to know an empty tuple: conservative *)
  | KTup ks => fold_right (fun k acc => pinter (kmeet k) acc) pall ks
  end.
Fixpoint kjoin_mem (p : party) (k : know) : bool :=   (* p occurs in some leaf *)
  match k with
  | KLeaf s => pmem p s
  | KTup ks => existsb (kjoin_mem p) ks
  end.
Fixpoint ksend (s r : party) (k : know) : know :=
  match k with
  | KLeaf v => KLeaf (if pmem s v then padd r v else premove r v)
  | KTup ks => KTup (map (ksend s r) ks)
  end.
Definition kget (k : know) (i : Z) : know :=
  match k with
  | KLeaf v => KLeaf v
  | KTup ks => match znth ks i with Ok k' => k' | _ => KLeaf pnone end
  end.

(* ------------------------------------------------------------------ per-party values *)
(* a party's local value: a value with poison holes (junk-derived errors, unknown garbage) *)
Inductive pval :=
| PArr (es : list Z)
| PTup (l : list pval)
| PPoison.

Fixpoint embed (v : value) : pval :=
  match v with VArr es => PArr es | VTup vs => PTup (map embed vs) end.
Fixpoint extract (v : pval) : option value :=
  match v with
  | PArr es => Some (VArr es)
  | PPoison => None
  | PTup l =>
      match (fix go (l : list pval) : option (list value) :=
               match l with
               | [] => Some []
               | x :: r => match extract x, go r with Some a, Some b => Some (a :: b) | _, _ => None end
               end) l with
      | Some vs => Some (VTup vs) | None => None end
  end.

Inductive status := StParty (p : party) | StPublic | StShared.

Record config := mkCfg {
  cfg_inputs : list status;        (* one per Input node, in node order *)
  cfg_outputs : list party;        (* parties the output is revealed to; [] = kept shared *)
  cfg_cert : list (Z * party)      (* for each Random-like node: the party whose draw is "the" value *)
}.
Definition cert_of (c : config) (i : Z) : party :=
  match find (fun p => fst p =? i) (cfg_cert c) with Some p => snd p | None => 0 end.

(* operations whose value every party draws for itself *)
Definition is_random_op (o : op) : bool :=
  match o with
  | ORandom _ | ORandomPermutation _ => true
  | _ => false
  end.
(* operations that compute from their dependencies AND from the evaluating party's own
   randomness (simple_evaluator.rs: CuckooToPermutation shuffles the free slots,
   DecomposeSwitchingMap draws random permutations) *)
Definition is_randdep_op (o : op) : bool :=
  match o with
  | OCuckooToPermutation | ODecomposeSwitchingMap _ => true
  | _ => false
  end.
(* operations that only route sub-values *)
Inductive route := RTuple | RGet (i : Z) | RNop | RNone.
Definition named_pos (t : ty) (name : string) : option Z :=
  match t with
  | TNamed fs =>
      (fix go (fs : list (string * ty)) (i : Z) :=
         match fs with [] => None
                  | f :: r => if String.eqb (fst f) name then Some i else go r (i + 1) end) fs 0
  | _ => None
  end.
Definition route_of (dts : list ty) (o : op) : route :=
  match o with
  | OCreateTuple | OCreateNamedTuple _ | OCreateVector _ => RTuple
  | ONOP => RNop
  | OTupleGet i => RGet i
  | ONamedTupleGet name =>
      match dts with
      | dt :: _ => match named_pos dt name with Some i => RGet i | None => RNone end
      | _ => RNone
      end
  | _ => RNone
  end.

Definition dep_types (nodes_before : list node) (ds : list Z) : list ty :=
  map (fun d => match znth nodes_before d with Ok n => n_ty n | _ => TTuple [] end) ds.

Definition sends_of (nd : node) : list (party * party) :=
  flat_map (fun a => match a with ASend s r => [(s, r)] | _ => [] end) (n_annots nd).

(* ------------------------------------------------------------------ the analysis *)
Definition input_know (st : status) : know :=
  match st with
  | StParty p => KLeaf (psingle p)
  | StPublic => KLeaf pall
  | StShared => KTup [KLeaf (mkPS true false true); KLeaf (mkPS true true false); KLeaf (mkPS false true true)]
      (* slot j is held by parties j and j-1 *)
  end.

Definition is_uninlined (o : op) : bool :=
  match o with OCall | OIterate | OCustom _ => true | _ => false end.

Definition know_step (c : config) (acc : result (list node * list know * list status)) (nd : node)
  : result (list node * list know * list status) :=
  let* (before, ks, ins) := acc in
  let i := Z.of_nat (length before) in
  let dep_k d := match znth ks d with Ok k => k | _ => KLeaf pnone end in
  let o := n_op nd in
  let* (k0, ins') :=
    if is_input o then match ins with st :: r => Ok (input_know st, r) | [] => Err end
    else if is_uninlined o then Err          (* only fully inlined graphs *)
    else if is_random_op o then Ok (KLeaf (psingle (cert_of c i)), ins)
    else Ok (match route_of (dep_types before (n_deps nd)) o, n_deps nd with
             | RTuple, ds => KTup (map dep_k ds)
             | RNop, d :: _ => dep_k d
             | RGet j, d :: _ => kget (dep_k d) j
             | _, ds => KLeaf (let v := fold_right (fun d acc => pinter (kmeet (dep_k d)) acc) pall ds in
                              if is_randdep_op o then pinter (psingle (cert_of c i)) v else v)
             end, ins) in
  let k := fold_left (fun k sr => ksend (fst sr) (snd sr) k) (sends_of nd) k0 in
  Ok (before ++ [nd], ks ++ [k], ins').

Definition know_all (c : config) (nodes : list node) : result (list know) :=
  let* (_, ks, _) := fold_left (know_step c) nodes (Ok ([], [], cfg_inputs c)) in Ok ks.

Definition subset_mem (ps : list party) (s : pset) : bool := forallb (fun p => pmem p s) ps.

(* acceptance: every listed output party validly knows the whole output; for an output kept
   shared, slot j is validly known by parties j and j-1 *)
Definition kcheck (c : config) (nodes : list node) (output : Z) : bool :=
  match know_all c nodes with
  | Ok ks =>
      match znth ks output with
      | Ok k =>
          match cfg_outputs c with
          | [] => forallb (fun j => let kj := kget k j in
                                    pmem j (kmeet kj) && pmem ((j + 2) mod 3) (kmeet kj)) [0; 1; 2]
          | ps => subset_mem ps (kmeet k)
          end
      | _ => false
      end
  | _ => false
  end.

(* first node at which some listed party loses validity on the way to the output: reported in
   replays to steer the search *)
Definition kreport (c : config) (nodes : list node) : result (list (Z * bool * bool * bool)) :=
  let* ks := know_all c nodes in
  Ok (map (fun p => (fst p, ps0 (kmeet (snd p)), ps1 (kmeet (snd p)), ps2 (kmeet (snd p))))
          (combine (zrange (Z.of_nat (length ks))) ks)).

(* ------------------------------------------------------------------ three-party semantics *)
Section Exec.
  (* [sem o dts t vs r]: r is the evaluating party's own draw at this node; only the
     is_randdep_op operations may depend on it *)
  Variable sem : op -> list ty -> ty -> list value -> value -> result value.

  (* global (single-evaluator) run; [rho] gives the value of every Random-like node, [gin] the
     inputs in order.  None = the protocol itself fails (error, abort). *)
  Definition gstep (rho : Z -> value) (acc : option (list node * list value * list value)) (nd : node)
    : option (list node * list value * list value) :=
    match acc with
    | None => None
    | Some (before, env, ins) =>
        let i := Z.of_nat (length before) in
        let o := n_op nd in
        let r :=
          if is_input o then match ins with v :: r => Some (v, r) | [] => None end
          else if is_random_op o then Some (rho i, ins)
          else match mapM (fun d => znth env d) (n_deps nd) with
               | Ok vs => match sem o (dep_types before (n_deps nd)) (n_ty nd) vs (rho i) with
                          | Ok v => Some (v, ins) | _ => None end
               | _ => None
               end in
        match r with
        | Some (v, ins') => Some (before ++ [nd], env ++ [v], ins')
        | None => None
        end
    end.
  Definition grun (rho : Z -> value) (gin : list value) (nodes : list node) : option (list value) :=
    match fold_left (gstep rho) nodes (Some ([], [], gin)) with
    | Some (_, env, _) => Some env | None => None end.

  (* one party's evaluation of one node from its own local values *)
  Definition lnode (before : list node) (nd : node) (deps : list pval) (r : value) : pval :=
    match route_of (dep_types before (n_deps nd)) (n_op nd), deps with
    | RTuple, ds => PTup ds
    | RNop, d :: _ => d
    | RGet j, d :: _ => match d with
                        | PTup l => match znth l j with Ok x => x | _ => PPoison end
                        | _ => PPoison end
    | _, ds =>
        match mapM (fun d => match extract d with Some v => Ok v | None => Err end) ds with
        | Ok vs => match sem (n_op nd) (dep_types before (n_deps nd)) (n_ty nd) vs r with
                   | Ok v => embed v | _ => PPoison end
        | _ => PPoison
        end
    end.

  Definition triple (A : Type) := (A * A * A)%type.
  Definition tget {A} (t : triple A) (p : party) : A :=
    let '(a, b, c) := t in if p =? 0 then a else if p =? 1 then b else c.
  Definition tset {A} (t : triple A) (p : party) (x : A) : triple A :=
    let '(a, b, c) := t in if p =? 0 then (x, b, c) else if p =? 1 then (a, x, c) else if p =? 2 then (a, b, x) else t.

  (* three parties in lockstep; [tapes p i] is party p's own draw at Random-like node i,
     [lin] the per-party inputs (real data or junk) in order *)
  Definition lstep (tapes : party -> Z -> value)
             (acc : option (list node * triple (list pval) * list (triple pval))) (nd : node)
    : option (list node * triple (list pval) * list (triple pval)) :=
    match acc with
    | None => None
    | Some (before, envs, ins) =>
        let i := Z.of_nat (length before) in
        let o := n_op nd in
        let one p :=
          if is_random_op o then embed (tapes p i) else
          lnode before nd (map (fun d => match znth (tget envs p) d with Ok x => x | _ => PPoison end) (n_deps nd)) (tapes p i) in
        let r :=
          if is_input o then match ins with v :: r => Some (v, r) | [] => None end
          else Some ((one 0, one 1, one 2), ins) in
        match r with
        | Some (vals, ins') =>
            let vals' := fold_left (fun v sr => tset v (snd sr) (tget v (fst sr))) (sends_of nd) vals in
            let '(e0, e1, e2) := envs in
            Some (before ++ [nd], (e0 ++ [tget vals' 0], e1 ++ [tget vals' 1], e2 ++ [tget vals' 2]), ins')
        | None => None
        end
    end.
  Definition lrun (tapes : party -> Z -> value) (lin : list (triple pval)) (nodes : list node)
    : option (triple (list pval)) :=
    match fold_left (lstep tapes) nodes (Some ([], ([], [], []), lin)) with
    | Some (_, envs, _) => Some envs | None => None end.
End Exec.

Fixpoint pval_eqb (a b : pval) {struct a} : bool :=
  match a, b with
  | PArr x, PArr y => list_eqb Z.eqb x y
  | PPoison, PPoison => true
  | PTup xs, PTup ys =>
      (fix go (l l' : list pval) : bool :=
         match l, l' with
         | [], [] => true
         | x :: xs, y :: ys => pval_eqb x y && go xs ys
         | _, _ => false end) xs ys
  | _, _ => false
  end.
#[global] Instance Eqb_pval : Eqb pval := pval_eqb.

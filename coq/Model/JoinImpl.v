(* C19 model: the plaintext join of evaluators/join.rs, mirrored function by function.
   Definitions only; proofs are in Proofs/JoinProofs.v.

   Representation choices (everything else follows the Rust control flow):
   * `ColumnsMap` keeps `header_index_map : HashMap<String, usize>` plus vectors indexed by that
     number; here the columns are an association list keyed by the header itself
     ([cm_cols]); `self.header_index_map[h]` on a missing header panics, so does [get_col].
   * `columns_data[c]` is a flat `Vec<u128>` sliced by `row_index * row_size ..`; here a column is
     already a list of rows (the slicing is done by the harness when it decodes the value), an
     out-of-range row index is [Panic] as the slice would be.
   * `has_column_masks()` is `!columns_masks.is_empty()`; a table has at least one column besides
     the null column (join_utils.rs:150), so this is the flag [cm_masked].
   * `KeyColumnsMap = HashMap<Vec<u128>, usize>`: the hash of the key vector is an implementation
     detail of lookup; here it is an association list with the newest binding first, so that
     `insert` of an existing key overrides the older binding exactly as HashMap::insert does.
   * `headers : HashMap<String,String>` is the list [keymap]; `into_iter().unzip()` yields the
     key headers of both tables in one common (arbitrary) order, here the list order. *)
From CC Require Import Base.Prelude Model.JoinTable.

(* join.rs:13 ColumnsMap *)
Record cmap := mkcm { cm_null : list Z; cm_masked : bool; cm_cols : list (string * column) }.

Definition idx {A} (l : list A) (i : nat) : result A :=
  match nth_error l i with Some x => Ok x | None => Panic end.

Fixpoint foldM {A S} (f : S -> A -> result S) (l : list A) (s : S) : result S :=
  match l with
  | [] => Ok s
  | x :: r => let* s' := f s x in foldM f r s'
  end.

(* self.columns_*[self.header_index_map[header]] *)
Definition get_col (cm : cmap) (h : string) : result column :=
  match lookup h (cm_cols cm) with Some c => Ok c | None => Panic end.
(* join.rs:27 get_row_size *)
Definition get_row_size (cm : cmap) (h : string) : result nat := rmap c_rs (get_col cm h).
(* join.rs:36 get_mask_entry *)
Definition get_mask_entry (cm : cmap) (h : string) (i : nat) : result Z :=
  let* c := get_col cm h in idx (c_mask c) i.
(* join.rs:39 get_num_rows *)
Definition get_num_rows (cm : cmap) : nat := length (cm_null cm).

Fixpoint any_mask_zero (cm : cmap) (i : nat) (hs : list string) : result bool :=
  match hs with
  | [] => Ok false
  | h :: r => let* m := get_mask_entry cm h i in
              if m =? 0 then Ok true else any_mask_zero cm i r
  end.
(* join.rs:43 row_has_empty_entries *)
Definition row_has_empty_entries (cm : cmap) (i : nat) (hs : list string) : result bool :=
  let* nb := idx (cm_null cm) i in
  if nb =? 0 then Ok true
  else if negb (cm_masked cm) then Ok false
  else any_mask_zero cm i hs.

(* join.rs:59 get_flattened_row *)
Fixpoint get_flattened_row (cm : cmap) (i : nat) (hs : list string) : result row :=
  match hs with
  | [] => Ok []
  | h :: r => let* c := get_col cm h in
              let* e := idx (c_rows c) i in
              let* rest := get_flattened_row cm i r in
              Ok (e ++ rest)
  end.
(* join.rs:69 get_entry *)
Definition get_entry (cm : cmap) (i : nat) (h : string) : result row := get_flattened_row cm i [h].

(* join.rs:74 extract_columns (decoding of the bytes is C13's subject; here the value is decoded) *)
Definition extract_columns (t : table) (masked : bool) : cmap :=
  mkcm (match lookup null_header t with Some c => concat (c_rows c) | None => [] end)
       masked
       (map (fun p => (fst p, mkcol (c_rs (snd p)) (if masked then c_mask (snd p) else []) (c_rows (snd p))))
            (filter (fun p => negb (is_null (fst p))) t)).

(* join.rs:120 init_result_columns; [res] = result_headers_types with row sizes *)
Definition init_result_columns (masked : bool) (res : list (string * nat)) : cmap :=
  mkcm [] masked
       (map (fun p => (fst p, mkcol (snd p) [] [])) (filter (fun p => negb (is_null (fst p))) res)).

(* join.rs:152 append_zero_row *)
Definition append_zero_row (cm : cmap) : cmap :=
  mkcm (cm_null cm ++ [0]) (cm_masked cm)
       (map (fun p => (fst p, mkcol (c_rs (snd p))
                                   (if cm_masked cm then c_mask (snd p) ++ [0] else c_mask (snd p))
                                   (c_rows (snd p) ++ [repeat 0 (c_rs (snd p))])))
            (cm_cols cm)).

Fixpoint update_col (h : string) (f : column -> column) (l : list (string * column))
  : option (list (string * column)) :=
  match l with
  | [] => None
  | (k, c) :: r => if String.eqb h k then Some ((k, f c) :: r)
                   else option_map (cons (k, c)) (update_col h f r)
  end.
(* columns_masks[col].push(m) (when the result has masks) ; columns_data[col].extend(e) *)
Definition push_entry (cm : cmap) (h : string) (m : option Z) (e : row) : result cmap :=
  let f c := mkcol (c_rs c) (match m with Some m => c_mask c ++ [m] | None => c_mask c end)
                   (c_rows c ++ [e]) in
  match update_col h f (cm_cols cm) with
  | Some cols => Ok (mkcm (cm_null cm) (cm_masked cm) cols)
  | None => Panic
  end.

(* join.rs:164 append_zero_entry *)
Definition append_zero_entry (cm : cmap) (h : string) : result cmap :=
  let* rs := get_row_size cm h in
  push_entry cm h (if cm_masked cm then Some 0 else None) (repeat 0 rs).

(* join.rs:174 copy_entry_from_column *)
Definition copy_entry_from_column (cm : cmap) (target source : string) (src : cmap) (i : nat)
  : result cmap :=
  if is_null target && is_null source then
    let* b := idx (cm_null src) i in
    Ok (mkcm (cm_null cm ++ [b]) (cm_masked cm) (cm_cols cm))
  else
    let* _ := get_col cm target in
    if cm_masked src then
      let* m := get_mask_entry src source i in
      if m =? 1 then
        if negb (cm_masked cm) then Panic (* columns_masks[target_index] of an empty vector *) else
        let* e := get_entry src i source in
        push_entry cm target (Some m) e
      else append_zero_entry cm target
    else
      let* e := get_entry src i source in
      push_entry cm target None e.

(* join.rs:201 to_value: the columns in the order of the result type *)
Definition to_value (cm : cmap) (res : list (string * nat)) : result table :=
  mapM (fun p =>
          if is_null (fst p) then Ok (fst p, mkcol 1 [] (map (fun b => [b]) (cm_null cm)))
          else let* c := get_col cm (fst p) in
               Ok (fst p, mkcol (snd p) (c_mask c) (c_rows c)))
       res.

(* join.rs:227 KeyColumnsMap *)
Definition keyhash := list (row * nat).
Fixpoint hm_get (k : row) (m : keyhash) : option nat :=
  match m with
  | [] => None
  | (k', i) :: r => if eqb k k' then Some i else hm_get k r
  end.
(* join.rs:230 get_hashmap_from_key_columns *)
Definition get_hashmap_from_key_columns (cm : cmap) (khs : list string) : result keyhash :=
  foldM (fun m i =>
           let* e := row_has_empty_entries cm i khs in
           if e then Ok m else
           let* k := get_flattened_row cm i khs in
           Ok ((k, i) :: m))
        (seq 0 (get_num_rows cm)) [].

(* join.rs:280 JoinInput *)
Record jinput := mkji {
  ji_set0 : cmap; ji_set1 : cmap;
  ji_headers0 : list string;          (* headers_types0, names *)
  ji_kh0 : list string;               (* key_headers0 *)
  ji_nonkey1 : list string;           (* nonkey_headers1 *)
  ji_keymap : keymap;                 (* key_headers_map *)
  ji_hm1 : keyhash;                   (* key_data_hashmap1 *)
  ji_res : list (string * nat);       (* result_headers_types *)
  ji_same : list string               (* same_headers *)
}.

Definition copy_all (src : cmap) (i : nat) (hs : list string) (rc : cmap) : result cmap :=
  foldM (fun rc h => copy_entry_from_column rc h h src i) hs rc.
Definition zero_all (hs : list string) (rc : cmap) : result cmap :=
  foldM (fun rc h => append_zero_entry rc h) hs rc.

(* join.rs:246 get_inner_join_columns *)
Definition get_inner_join_columns (ji : jinput) : result cmap :=
  foldM (fun rc i =>
           let* e := row_has_empty_entries (ji_set0 ji) i (ji_kh0 ji) in
           if e then Ok (append_zero_row rc) else
           let* k := get_flattened_row (ji_set0 ji) i (ji_kh0 ji) in
           match hm_get k (ji_hm1 ji) with
           | Some j =>
               let* rc := copy_all (ji_set0 ji) i (ji_headers0 ji) rc in
               copy_all (ji_set1 ji) j (ji_nonkey1 ji) rc
           | None => Ok (append_zero_row rc)
           end)
        (seq 0 (get_num_rows (ji_set0 ji)))
        (init_result_columns (cm_masked (ji_set0 ji)) (ji_res ji)).

(* join.rs:314 get_left_join_columns *)
Definition get_left_join_columns (ji : jinput) : result cmap :=
  foldM (fun rc i =>
           let* nb := idx (cm_null (ji_set0 ji)) i in
           if nb =? 0 then Ok (append_zero_row rc) else
           let* rc := copy_all (ji_set0 ji) i (ji_headers0 ji) rc in
           let* e := row_has_empty_entries (ji_set0 ji) i (ji_kh0 ji) in
           if e then zero_all (ji_nonkey1 ji) rc else
           let* k := get_flattened_row (ji_set0 ji) i (ji_kh0 ji) in
           match hm_get k (ji_hm1 ji) with
           | Some j => copy_all (ji_set1 ji) j (ji_nonkey1 ji) rc
           | None => zero_all (ji_nonkey1 ji) rc
           end)
        (seq 0 (get_num_rows (ji_set0 ji)))
        (init_result_columns (cm_masked (ji_set0 ji)) (ji_res ji)).

(* join.rs:363 get_union_columns *)
Definition get_union_columns (ji : jinput) : result cmap :=
  let unique1 := filter (fun h => negb (mem h (ji_same ji))) (ji_nonkey1 ji) in
  let* rc :=
    foldM (fun rc i =>
             let* nb := idx (cm_null (ji_set0 ji)) i in
             if nb =? 0 then Ok (append_zero_row rc) else
             let* e := row_has_empty_entries (ji_set0 ji) i (ji_kh0 ji) in
             if e then
               let* rc := copy_all (ji_set0 ji) i (ji_headers0 ji) rc in
               zero_all unique1 rc
             else
             let* k := get_flattened_row (ji_set0 ji) i (ji_kh0 ji) in
             match hm_get k (ji_hm1 ji) with
             | Some _ => Ok (append_zero_row rc)
             | None =>
                 let* rc := copy_all (ji_set0 ji) i (ji_headers0 ji) rc in
                 zero_all unique1 rc
             end)
          (seq 0 (get_num_rows (ji_set0 ji)))
          (init_result_columns (cm_masked (ji_set0 ji)) (ji_res ji)) in
  foldM (fun rc j =>
           let* nb := idx (cm_null (ji_set1 ji)) j in
           if nb =? 0 then Ok (append_zero_row rc) else
           foldM (fun rc h =>
                    if is_null h then Ok (mkcm (cm_null rc ++ [1]) (cm_masked rc) (cm_cols rc))
                    else if mem h (ji_kh0 ji) then
                      match lookup h (ji_keymap ji) with
                      | Some h1 => copy_entry_from_column rc h h1 (ji_set1 ji) j
                      | None => Panic
                      end
                    else if mem h (ji_nonkey1 ji) then copy_entry_from_column rc h h (ji_set1 ji) j
                    else append_zero_entry rc h)
                 (names (ji_res ji)) rc)
        (seq 0 (get_num_rows (ji_set1 ji))) rc.

(* join.rs:435 get_number_of_rows: the row count of the first column's type.  (Before the fix
   ff0361d in /repo the column type was parsed with has_column_mask = true whatever the variant,
   which made the plain full join fail unless the second table's first column was the null column;
   found by this property's tie.)  On a decoded table, `ColumnType::new` cannot fail. *)
Definition get_number_of_rows (t : table) (masked : bool) : result nat :=
  match t with
  | [] => Err
  | (h, c) :: _ => Ok (length (c_rows c))
  end.

(* join.rs:501 evaluate_join, the three directly computed types *)
Definition evaluate_join3 (jt : jtype) (t0 t1 : table) (masked : bool) (keys : keymap)
           (res : list (string * nat)) : result table :=
  let set1 := extract_columns t1 masked in
  let kh0 := map fst keys in
  let kh1 := map snd keys in
  let* hm1 := get_hashmap_from_key_columns set1 kh1 in
  let set0 := extract_columns t0 masked in
  let nonkey1 := filter (fun h => negb (is_null h) && negb (mem h kh1)) (names t1) in
  let same := filter (fun h => mem h nonkey1) (names t0) in
  let ji := mkji set0 set1 (names t0) kh0 nonkey1 keys hm1 res same in
  let* rc := match jt with
             | JInner => get_inner_join_columns ji
             | JLeft => get_left_join_columns ji
             | JUnion => get_union_columns ji
             | JFull => Err (* "Shouldn't be here" *)
             end in
  to_value rc res.

(* join.rs:444 evaluate_full_join *)
Definition evaluate_full_join (t0 t1 : table) (masked : bool) (keys : keymap)
           (res : list (string * nat)) : result table :=
  let* _ := get_number_of_rows t1 masked in
  let left_join_t :=
    types_of t1 ++
    filter (fun p => negb (is_null (fst p)) && negb (mem (fst p) (map fst keys))) (types_of t0) in
  let* lj := evaluate_join3 JLeft t1 t0 masked (swap_keys keys) left_join_t in
  evaluate_join3 JUnion t0 lj masked keys res.

Definition evaluate_join (jt : jtype) (t0 t1 : table) (masked : bool) (keys : keymap)
           (res : list (string * nat)) : result table :=
  match jt with
  | JFull => evaluate_full_join t0 t1 masked keys res
  | _ => evaluate_join3 jt t0 t1 masked keys res
  end.

(* The Join / JoinWithColumnMasks node: the evaluator passes the node's inferred type as res_t *)
Definition join_impl (jt : jtype) (masked : bool) (a b : table) (keys : keymap) : result table :=
  evaluate_join jt a b masked keys (result_headers a b keys).

(* C05 model: the arithmetic of the two secure truncation protocols of mpc/mpc_truncate.rs, of the
   compiler's choice between them (mpc/mpc_compiler.rs:581-619) and of plaintext Truncate
   (evaluators/simple_evaluator.rs:962-1003).  Definitions only; proofs are in Proofs/TruncProofs.v.

   One array element at a time (all operations involved are element-wise).  An element of a scalar
   type of width w is its representative in [0, 2^w); Add/Subtract/Multiply of the evaluator are the
   ring operations modulo 2^w (for 128-bit types: wrapping u128 arithmetic).  [sg] = the scalar type
   is signed.  PRF outputs are inputs of the model ("masks"): nothing is assumed about them. *)
From CC Require Import Base.Prelude Base.Scalar.

(* two's-complement reading at width w (Base.Scalar.sval for a width instead of a scalar type) *)
Definition sv (w : Z) (sg : bool) (x : Z) : Z :=
  let y := x mod 2 ^ w in
  if sg && (2 ^ (w - 1) <=? y) then y - 2 ^ w else y.

(* simple_evaluator.rs Add / Subtract / Multiply on integer types *)
Definition addw (w a b : Z) : Z := (a + b) mod 2 ^ w.
Definition subw (w a b : Z) : Z := (a - b) mod 2 ^ w.
Definition mulw (w a b : Z) : Z := (a * b) mod 2 ^ w.

(* x.a2b().multiply(mask.a2b()).b2a(_): bitwise AND of two w-bit patterns; A2B followed by B2A of
   the other signedness leaves the pattern unchanged (mpc_truncate.rs:312-316, :329, :374-378, :387) *)
Definition andw (w a m : Z) : Z := Z.land (a mod 2 ^ w) m.

(* simple_evaluator.rs:962-1003 Truncate(scale), one entry.
   :976-992 signed: the entry is read as two's complement, divided as i128 (Rust `/`: round toward
   zero), a negative result has the modulus added back; :994 unsigned: u128 division.
   type_inference.rs:806-819 guarantees 0 < scale, and scale <= i128::MAX for signed types. *)
Definition truncate (w : Z) (sg : bool) (scale x : Z) : Z :=
  if sg then Z.quot (sv w true x) scale mod 2 ^ w
  else (x mod 2 ^ w) / scale.

(* recursively_sum_shares, mpc_compiler.rs:871-875 (reveal_output :921-961 sums shares 0,1,2 in order) *)
Definition reveal (w : Z) (y : Z * Z * Z) : Z :=
  let '(y0, y1, y2) := y in addw w (addw w y0 y1) y2.

(* ------------------------------------------------------------------------------------------------
   TruncateMPC2K { k }, mpc_truncate.rs:186-449, private input (three arguments), k > 0.
   x = (x0,x1,x2) input shares; masks = the six PRF values in the order of the g.prf calls:
   r (:306, key k_2), r0, r_msb0, r_truncated0 (:338 via share_for_two at :345-347, key k_02),
   y0 (:352, key k_02), y2 (:353, key k_12).
   The output shares do not depend on r0, r_msb0, r_truncated0 (they cancel in y1); the messages do,
   which is why the tie also compares the messages. *)
Definition trunc2k_full (w : Z) (sg : bool) (k : Z) (x : Z * Z * Z) (masks : Z * Z * Z * Z * Z * Z)
  : list Z * (Z * Z * Z) :=
  let '(s0, s1, s2) := x in
  let '(r, r0, rm0, rt0, y0, y2) := masks in
  (* :288-301 step 0: signed inputs are shifted by modulus/4 *)
  let x0 := if sg then addw w s0 (2 ^ (w - 2)) else s0 in
  let x1 := s1 in                                                   (* :302 *)
  let x2 := s2 in                                                   (* :303 *)
  (* :310-317 step 2: r_msb = ((r AND 2^(w-1)) as unsigned) / 2^(w-1) *)
  let r_msb := truncate w false (2 ^ (w - 1)) (andw w r (2 ^ (w - 1))) in
  (* :320-330 step 3: r_truncated = (r AND (2^(w-1) - 2^k)) truncated by 2^k in the type st *)
  let r_truncated := truncate w sg (2 ^ k) (andw w r (2 ^ (w - 1) - 2 ^ k)) in
  (* :336-347 step 4: share_for_two: val1 = val - PRF *)
  let r1 := subw w r r0 in
  let r_msb1 := subw w r_msb rm0 in
  let r_truncated1 := subw w r_truncated rt0 in
  (* :357-358 step 6 *)
  let z0 := addw w x0 x1 in
  let z1 := x2 in
  (* :361-362 step 7 *)
  let c_share0 := addw w z0 r0 in
  let c_share1 := addw w z1 r1 in
  (* :366-370 step 8: c revealed to parties 0 and 1 *)
  let c := addw w c_share0 c_share1 in
  (* :373-378 c read as unsigned, truncated by 2^k *)
  let c_truncated := truncate w false (2 ^ k) c in
  (* :379-388 ... mod 2^(w-1-k), as an AND with 2^(w-1-k) - 1 *)
  let c_truncated_mod := andw w c_truncated (2 ^ (w - 1 - k) - 1) in
  (* :391-396 step 9: c_msb = (c as unsigned) / 2^(w-1) *)
  let c_msb := truncate w false (2 ^ (w - 1)) c in
  (* :403-407 step 10: b0 = r_msb0 - r_msb0*c_msb*2 + c_msb,  b1 = r_msb1 - r_msb1*c_msb*2 *)
  let b0 := addw w (subw w rm0 (mulw w (mulw w rm0 c_msb) 2)) c_msb in
  let b1 := subw w r_msb1 (mulw w (mulw w r_msb1 c_msb) 2) in
  (* :412-419 step 11: y' = b * 2^(w-1-k) - r_truncated + c_truncated_mod, share-wise *)
  let power2 := 2 ^ (w - 1 - k) in
  let y_prime0 := addw w (subw w (mulw w b0 power2) rt0) c_truncated_mod in
  let y_prime1 := subw w (mulw w b1 power2) r_truncated1 in
  (* :422-428 steps 12-13 *)
  let y_tilde0 := subw w y_prime0 y0 in
  let y_tilde1 := subw w y_prime1 y2 in
  (* :432-442 step 14 and 14!: signed: subtract modulus / 2^(k+2) *)
  let sum01 := addw w y_tilde0 y_tilde1 in
  let y1 := if sg then subw w sum01 (2 ^ (w - 2 - k)) else sum01 in
  (* the seven values sent between parties, in node order (the NOP nodes annotated Send at :342 x3,
     :367, :369, :424, :428), and :445 step 15: the output sharing *)
  ([r1; r_msb1; r_truncated1; c_share0; c_share1; y_tilde0; y_tilde1], (y0, y1, y2)).

(* the protocol's output shares / the messages it sends *)
Definition trunc2k (w : Z) (sg : bool) (k : Z) (x : Z * Z * Z) (masks : Z * Z * Z * Z * Z * Z)
  : Z * Z * Z := snd (trunc2k_full w sg k x masks).
Definition trunc2k_msgs (w : Z) (sg : bool) (k : Z) (x : Z * Z * Z) (masks : Z * Z * Z * Z * Z * Z)
  : list Z := fst (trunc2k_full w sg k x masks).

(* The k for which `instantiate` runs to completion (debug profile: `st_size - 2 - self.k` at :437 and
   `st_size - 1 - self.k` at :384/:412 are u64 subtractions that panic on underflow). *)
Definition trunc2k_admissible (w : Z) (sg : bool) (k : Z) : Prop :=
  1 <= k <= (if sg then w - 2 else w - 1).

(* documented input range of TruncateMPC2K (:137-138): [-modulus/4, modulus/4) signed, [0, modulus/2) unsigned *)
Definition in_range2k (w : Z) (sg : bool) (x : Z) : Prop :=
  if sg then - (2 ^ w / 4) <= x < 2 ^ w / 4 else 0 <= x < 2 ^ w / 2.
(* the mask r among the six, and the documented rounding bit w of :140 as a function of x and r *)
Definition mask_r (m : Z * Z * Z * Z * Z * Z) : Z := let '(r, _, _, _, _, _) := m in r.
Definition carry2k (k x r : Z) : Z := if 2 ^ k <=? x mod 2 ^ k + r mod 2 ^ k then 1 else 0.

(* ------------------------------------------------------------------------------------------------
   TruncateMPC { scale }, mpc_truncate.rs:28-128, private input (two arguments), scale <> 1, signed
   types only (:84-88).  r = PRF(k_12) (:104-105). *)
Definition truncmpc (w scale : Z) (x : Z * Z * Z) (r : Z) : Z * Z * Z :=
  let '(x0, x1, x2) := x in
  let res0 := truncate w true scale x0 in                               (* :109 *)
  let res1 := subw w (truncate w true scale (addw w x1 x2)) r in        (* :112-116 *)
  (res0, res1, r).                                                      (* :122-124 *)

(* ------------------------------------------------------------------------------------------------
   Public (unshared) input: both custom operations are called with one argument and instantiate to
   the plaintext operation.  mpc_compiler.rs:585-590 chooses TruncateMPC2K { k = trailing_zeros }
   when the scale is a power of two and TruncateMPC otherwise. *)
Definition is_power_of_two (s : Z) : bool := (0 <? s) && (s =? 2 ^ Z.log2 s).

Definition trunc_public (w : Z) (sg : bool) (scale x : Z) : result Z :=
  if is_power_of_two scale then
    (* mpc_truncate.rs:193-205: k = 0 returns the input, else input.truncate(1 << k) *)
    let k := Z.log2 scale in
    Ok (if k =? 0 then x mod 2 ^ w else truncate w sg (2 ^ k) x)
  else if negb sg then Err              (* :37-41 "Only signed types are supported by TruncateMPC" *)
  else Ok (truncate w sg scale x).      (* :44-49 (scale <> 1 here) *)

(* element-wise forms used by the correspondence cases *)
Definition trunc2k_list (w : Z) (sg : bool) (k : Z)
  (l : list ((Z * Z * Z) * (Z * Z * Z * Z * Z * Z))) : list (Z * Z * Z) :=
  map (fun p => trunc2k w sg k (fst p) (snd p)) l.
Definition trunc2k_msgs_list (w : Z) (sg : bool) (k : Z)
  (l : list ((Z * Z * Z) * (Z * Z * Z * Z * Z * Z))) : list (list Z) :=
  map (fun p => trunc2k_msgs w sg k (fst p) (snd p)) l.
Definition truncmpc_list (w scale : Z) (l : list ((Z * Z * Z) * Z)) : list (Z * Z * Z) :=
  map (fun p => truncmpc w scale (fst p) (snd p)) l.

(* Shared prelude: imports, arithmetic settings, result type, boolean equality class. *)
From Coq Require Export String.
From Coq Require Export List ZArith NArith Lia Bool Arith.
From Coq Require Export ZifyBool ZifyNat ZifyN.
Export ListNotations.
Open Scope Z_scope.
Open Scope list_scope.
Ltac Zify.zify_post_hook ::= Z.div_mod_to_equations.
Global Arguments N.add : simpl never.
Global Arguments N.sub : simpl never.
Global Arguments N.mul : simpl never.
Global Arguments N.eqb : simpl never.
Global Arguments N.ltb : simpl never.
Global Arguments N.leb : simpl never.
Global Arguments Z.add : simpl never.
Global Arguments Z.sub : simpl never.
Global Arguments Z.mul : simpl never.
Global Arguments Z.pow : simpl never.
Global Arguments Z.modulo : simpl never.
Global Arguments Z.div : simpl never.
Global Arguments Z.eqb : simpl never.
Global Arguments Z.ltb : simpl never.
Global Arguments Z.leb : simpl never.

(* Outcome of a mirrored Rust function.  [Err] is a returned error, [Panic] every panic!,
   unwrap, out-of-range index or debug-profile overflow the Rust function can reach,
   [OutOfFuel] the exhaustion of explicit fuel in the three genuinely unbounded loops. *)
Inductive result (A : Type) : Type :=
| Ok (a : A) | Err | Panic | OutOfFuel.
Arguments Ok {A} a.
Arguments Err {A}.
Arguments Panic {A}.
Arguments OutOfFuel {A}.

Definition bind {A B} (r : result A) (f : A -> result B) : result B :=
  match r with Ok a => f a | Err => Err | Panic => Panic | OutOfFuel => OutOfFuel end.
Notation "'let*' x ':=' r 'in' k" := (bind r (fun x => k))
  (at level 200, x pattern, r at level 100, k at level 200, right associativity).
Definition rmap {A B} (f : A -> B) (r : result A) : result B :=
  match r with Ok a => Ok (f a) | Err => Err | Panic => Panic | OutOfFuel => OutOfFuel end.

Section MapM.
  Context {A B : Type} (f : A -> result B).
  Fixpoint mapM (l : list A) : result (list B) :=
    match l with
    | [] => Ok []
    | x :: xs => let* y := f x in let* ys := mapM xs in Ok (y :: ys)
    end.
End MapM.

(* Boolean equality used by the correspondence ties (cases.v files). *)
Class Eqb (A : Type) := eqb : A -> A -> bool.
#[global] Instance Eqb_N : Eqb N := N.eqb.
#[global] Instance Eqb_Z : Eqb Z := Z.eqb.
#[global] Instance Eqb_nat : Eqb nat := Nat.eqb.
#[global] Instance Eqb_bool : Eqb bool := Bool.eqb.
#[global] Instance Eqb_unit : Eqb unit := fun _ _ => true.
#[global] Instance Eqb_string : Eqb string := String.eqb.
#[global] Instance Eqb_positive : Eqb positive := Pos.eqb.
Fixpoint list_eqb {A} (e : A -> A -> bool) (l1 l2 : list A) : bool :=
  match l1, l2 with
  | [], [] => true
  | x :: xs, y :: ys => e x y && list_eqb e xs ys
  | _, _ => false
  end.
#[global] Instance Eqb_list {A} `{Eqb A} : Eqb (list A) := list_eqb eqb.
#[global] Instance Eqb_prod {A B} `{Eqb A} `{Eqb B} : Eqb (A * B) :=
  fun p q => eqb (fst p) (fst q) && eqb (snd p) (snd q).
#[global] Instance Eqb_option {A} `{Eqb A} : Eqb (option A) :=
  fun p q => match p, q with Some a, Some b => eqb a b | None, None => true | _, _ => false end.
#[global] Instance Eqb_result {A} `{Eqb A} : Eqb (result A) :=
  fun p q => match p, q with
             | Ok a, Ok b => eqb a b | Err, Err => true | Panic, Panic => true
             | OutOfFuel, OutOfFuel => true | _, _ => false end.

(* failing case indices of a case list; what every cases.v prints *)
Definition failing (cases : list (N * bool)) : list N :=
  map fst (filter (fun p => negb (snd p)) cases).

Lemma list_eqb_refl {A} (e : A -> A -> bool) :
  (forall x, e x x = true) -> forall l, list_eqb e l l = true.
Proof. intros He l; induction l as [|x xs IH]; simpl; [reflexivity|]. now rewrite He, IH. Qed.

Lemma list_eqb_eq {A} (e : A -> A -> bool) :
  (forall x y, e x y = true -> x = y) -> forall l1 l2, list_eqb e l1 l2 = true -> l1 = l2.
Proof.
  intros He l1; induction l1 as [|x xs IH]; intros [|y ys]; simpl; try discriminate; auto.
  intros H. apply andb_true_iff in H as [H1 H2]. f_equal; auto.
Qed.

(* The 11 scalar types of data_types.rs:49-190. *)
From CC Require Import Base.Prelude.

Inductive scalar := Bit | U8 | I8 | U16 | I16 | U32 | I32 | U64 | I64 | U128 | I128.

Definition scalar_eqb (a b : scalar) : bool :=
  match a, b with
  | Bit, Bit | U8, U8 | I8, I8 | U16, U16 | I16, I16 | U32, U32 | I32, I32
  | U64, U64 | I64, I64 | U128, U128 | I128, I128 => true
  | _, _ => false
  end.
#[global] Instance Eqb_scalar : Eqb scalar := scalar_eqb.

Lemma scalar_eqb_eq a b : scalar_eqb a b = true <-> a = b.
Proof. destruct a, b; simpl; split; intros H; try reflexivity; try discriminate. Qed.

(* data_types.rs:156 size_in_bits *)
Definition width (s : scalar) : Z :=
  match s with
  | Bit => 1 | U8 | I8 => 8 | U16 | I16 => 16 | U32 | I32 => 32
  | U64 | I64 => 64 | U128 | I128 => 128
  end.

(* data_types.rs:100 is_signed *)
Definition signed (s : scalar) : bool :=
  match s with I8 | I16 | I32 | I64 | I128 => true | _ => false end.

(* data_types.rs:135 get_modulus; Rust has None for 128-bit types and uses wrapping u128
   arithmetic, which is arithmetic modulo 2^128. *)
Definition modulus (s : scalar) : Z := 2 ^ width s.

(* data_types.rs:1168 scalar_size_in_bytes *)
Definition byte_len (s : scalar) : Z := (width s + 7) / 8.

Definition norm (s : scalar) (x : Z) : Z := x mod modulus s.

(* two's-complement reading of a normalised element *)
Definition sval (s : scalar) (x : Z) : Z :=
  let y := norm s x in
  if signed s && (2 ^ (width s - 1) <=? y) then y - modulus s else y.

Definition all_scalars : list scalar :=
  [Bit; U8; I8; U16; I16; U32; I32; U64; I64; U128; I128].

Lemma width_pos s : 0 < width s.
Proof. destruct s; simpl; lia. Qed.
Lemma modulus_pos s : 0 < modulus s.
Proof. unfold modulus. apply Z.pow_pos_nonneg; [lia|]. pose proof (width_pos s); lia. Qed.
Lemma norm_range s x : 0 <= norm s x < modulus s.
Proof. unfold norm. apply Z.mod_pos_bound, modulus_pos. Qed.
Lemma norm_idem s x : norm s (norm s x) = norm s x.
Proof. unfold norm. apply Z.mod_mod. pose proof (modulus_pos s); lia. Qed.

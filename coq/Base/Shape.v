(* Index arithmetic of broadcast.rs:83-103 and slice normalisation of slices.rs. *)
From CC Require Import Base.Prelude Base.Scalar Base.Ty.

(* list access that makes an out-of-range index a Panic, as a Rust slice index does *)
Fixpoint nth_res {A} (l : list A) (i : nat) : result A :=
  match l, i with
  | x :: _, O => Ok x
  | _ :: r, S i' => nth_res r i'
  | [], _ => Panic
  end.
Definition znth {A} (l : list A) (i : Z) : result A :=
  if i <? 0 then Panic else nth_res l (Z.to_nat i).

(* broadcast.rs:83 index_to_number: num = num*d + index[i] % d (the % implements broadcasting) *)
Fixpoint index_to_number_aux (acc : Z) (index shape : list Z) : result Z :=
  match shape with
  | [] => Ok acc
  | d :: shape' =>
      match index with
      | [] => Panic                                   (* index[i] out of range *)
      | x :: index' => if d =? 0 then Panic else index_to_number_aux (acc * d + x mod d) index' shape'
      end
  end.
Definition index_to_number (index shape : list Z) : result Z := index_to_number_aux 0 index shape.

(* broadcast.rs:92 number_to_index *)
Fixpoint number_to_index_aux (num_left radix : Z) (shape : list Z) : result (list Z) :=
  match shape with
  | [] => Ok []
  | d :: shape' =>
      if d =? 0 then Panic else
      let radix' := radix / d in
      if radix' =? 0 then Panic else
      let* rest := number_to_index_aux (num_left mod radix') radix' shape' in
      Ok (num_left / radix' :: rest)
  end.
Definition number_to_index (num : Z) (shape : list Z) : result (list Z) :=
  number_to_index_aux num (prod_list shape) shape.

Definition zrange (n : Z) : list Z := map Z.of_nat (seq 0 (Z.to_nat n)).

(* simple_evaluator.rs:27 broadcast_to_shape *)
Definition broadcast_to_shape (arr : list Z) (shape shape_res : list Z) : result (list Z) :=
  if (length shape_res <? length shape)%nat then Panic else
  let offset := (length shape_res - length shape)%nat in
  mapM (fun i =>
          let* iv := number_to_index i shape_res in
          let* ix := index_to_number (skipn offset iv) shape in
          znth arr ix)
       (zrange (prod_list shape_res)).

(* broadcast.rs:5 broadcast_shapes *)
Definition broadcast_shapes (s1 s2 : list Z) : result (list Z) :=
  let l := Nat.max (length s1) (length s2) in
  let p1 := repeat 1 (l - length s1) ++ s1 in
  let p2 := repeat 1 (l - length s2) ++ s2 in
  mapM (fun p => let '(a, b) := p in
                 if (1 <? a) && (1 <? b) && negb (a =? b) then Err else Ok (Z.max a b))
       (combine p1 p2).

(* ------------------------------------------------------------------ slices (slices.rs) *)
Inductive slice_elem :=
| SSingle (i : Z)
| SSub (b e s : option Z)
| SEllipsis.
Definition slice_elem_eqb (a b : slice_elem) : bool :=
  match a, b with
  | SSingle i, SSingle j => i =? j
  | SSub b1 e1 s1, SSub b2 e2 s2 => eqb b1 b2 && eqb e1 e2 && eqb s1 s2
  | SEllipsis, SEllipsis => true
  | _, _ => false
  end.
#[global] Instance Eqb_slice_elem : Eqb slice_elem := slice_elem_eqb.
Definition is_ellipsis (x : slice_elem) := match x with SEllipsis => true | _ => false end.

(* slices.rs:83 get_clean_slice *)
Definition get_clean_slice (shape : list Z) (slice : list slice_elem) : result (list slice_elem) :=
  let num_ellipsis := length (filter is_ellipsis slice) in
  if (1 <? num_ellipsis)%nat then Err else
  let padding := Z.of_nat (length shape) - Z.of_nat (length slice) + 1 in
  let* clean :=
    fold_left (fun acc x =>
                 let* a := acc in
                 if is_ellipsis x then
                   (if padding <? 0 then Err else Ok (a ++ repeat (SSub None None None) (Z.to_nat padding)))
                 else Ok (a ++ [x]))
              slice (Ok []) in
  if (length shape <? length clean)%nat then Err else Ok clean.

(* slices.rs:113 normalize_subarray *)
Definition normalize_subarray (dimension : Z) (b e s : option Z) : result (Z * Z * Z) :=
  let step := match s with Some x => x | None => 1 end in
  if step =? 0 then Err else
  let begin0 := match b with Some x => x | None => if 0 <? step then 0 else dimension - 1 end in
  let begin := if begin0 <? 0 then begin0 + dimension else begin0 in
  let end_ := match e with
              | Some x => if 0 <=? x then x else x + dimension
              | None => if 0 <? step then dimension else -1
              end in
  Ok (begin, end_, step).

(* slices.rs:133 get_slice_shape_1d; the counting loop runs at most [dimension]+1 times *)
Fixpoint count_loop (fuel : nat) (current end_ step dimension counter : Z) : result Z :=
  match fuel with
  | O => OutOfFuel
  | S f =>
      if ((0 <? step) && (end_ <=? current)) || ((step <? 0) && (current <=? end_)) then Ok counter
      else if (current <? 0) || (dimension <=? current) then Err
      else count_loop f (current + step) end_ step dimension (counter + 1)
  end.
Definition get_slice_shape_1d (dimension : Z) (x : slice_elem) : result (option Z) :=
  match x with
  | SSingle ind =>
      let ind' := if ind <? 0 then ind + dimension else ind in
      if (ind' <? 0) || (dimension <=? ind') then Err else Ok None
  | SSub b e s =>
      let* (begin, end_, step) := normalize_subarray dimension b e s in
      let* counter := count_loop (S (S (Z.to_nat dimension))) begin end_ step dimension 0 in
      if counter =? 0 then Err else Ok (Some counter)
  | SEllipsis => Panic
  end.

(* slices.rs:8 get_slice_shape *)
Definition get_slice_shape (shape : list Z) (slice : list slice_elem) : result (list Z) :=
  let* clean := get_clean_slice shape slice in
  (fix go (shape : list Z) (clean : list slice_elem) : result (list Z) :=
     match shape with
     | [] => Ok []
     | d :: shape' =>
         match clean with
         | c :: clean' =>
             let* o := get_slice_shape_1d d c in
             let* rest := go shape' clean' in
             Ok (match o with Some s => s :: rest | None => rest end)
         | [] => let* rest := go shape' [] in Ok (d :: rest)
         end
     end) shape clean.

(* slices.rs:73 slice_1d_index *)
Definition slice_1d_index (dimension : Z) (b e s : option Z) (index : Z) : result Z :=
  let* (begin, _, step) := normalize_subarray dimension b e s in
  let r := begin + step * index in
  if r <? 0 then Err else Ok r.

(* slices.rs:24 slice_index *)
Definition slice_index (shape : list Z) (slice : list slice_elem) (index : list Z) : result (list Z) :=
  let* clean := get_clean_slice shape slice in
  let* (res, j) :=
    (fix go (shape : list Z) (clean : list slice_elem) (j : nat) : result (list Z * nat) :=
       match shape with
       | [] => Ok ([], j)
       | d :: shape' =>
           match clean with
           | SSingle ind :: clean' =>
               let real := if 0 <=? ind then ind else ind + d in
               if real <? 0 then Panic else
               let* (rest, j') := go shape' clean' j in Ok (real :: rest, j')
           | SSub b e s :: clean' =>
               match nth_error index j with
               | None => Err
               | Some ix =>
                   let* r := slice_1d_index d b e s ix in
                   let* (rest, j') := go shape' clean' (S j) in Ok (r :: rest, j')
               end
           | SEllipsis :: _ => Panic
           | [] =>
               match nth_error index j with
               | None => Err
               | Some ix => let* (rest, j') := go shape' [] (S j) in Ok (ix :: rest, j')
               end
           end
       end) shape clean O in
  if (j =? 0)%nat && (length index =? 1)%nat && (match index with [x] => x =? 0 | _ => false end)
  then Ok res
  else if negb (j =? length index)%nat then Err else Ok res.

(* Type trees (data_types.rs:384 Type) and byte-level values (data_values.rs:18-30). *)
From CC Require Import Base.Prelude Base.Scalar.

Inductive ty :=
| TScalar (s : scalar)
| TArray (shape : list Z) (s : scalar)
| TVector (n : Z) (t : ty)
| TTuple (ts : list ty)
| TNamed (fs : list (string * ty)).

(* Rust's Value: either a byte vector or a vector of values. Bytes are 0..255. *)
Inductive bvalue :=
| BBytes (b : list Z)
| BVec (vs : list bvalue).

Section ty_ind'.
  Variable P : ty -> Prop.
  Hypothesis Hs : forall s, P (TScalar s).
  Hypothesis Ha : forall sh s, P (TArray sh s).
  Hypothesis Hv : forall n t, P t -> P (TVector n t).
  Hypothesis Ht : forall ts, Forall P ts -> P (TTuple ts).
  Hypothesis Hn : forall fs, Forall (fun p => P (snd p)) fs -> P (TNamed fs).
  Fixpoint ty_ind' (t : ty) : P t :=
    match t with
    | TScalar s => Hs s
    | TArray sh s => Ha sh s
    | TVector n t => Hv n t (ty_ind' t)
    | TTuple ts => Ht ts ((fix go (l : list ty) : Forall P l :=
                             match l with [] => Forall_nil _
                                     | x :: xs => Forall_cons _ (ty_ind' x) (go xs) end) ts)
    | TNamed fs => Hn fs ((fix go (l : list (string * ty)) : Forall (fun p => P (snd p)) l :=
                             match l with [] => Forall_nil _
                                     | x :: xs => Forall_cons _ (ty_ind' (snd x)) (go xs) end) fs)
    end.
End ty_ind'.

Section bvalue_ind'.
  Variable P : bvalue -> Prop.
  Hypothesis Hb : forall b, P (BBytes b).
  Hypothesis Hv : forall vs, Forall P vs -> P (BVec vs).
  Fixpoint bvalue_ind' (v : bvalue) : P v :=
    match v with
    | BBytes b => Hb b
    | BVec vs => Hv vs ((fix go (l : list bvalue) : Forall P l :=
                           match l with [] => Forall_nil _
                                   | x :: xs => Forall_cons _ (bvalue_ind' x) (go xs) end) vs)
    end.
End bvalue_ind'.

Fixpoint ty_eqb (a b : ty) {struct a} : bool :=
  match a, b with
  | TScalar s, TScalar s' => scalar_eqb s s'
  | TArray sh s, TArray sh' s' => list_eqb Z.eqb sh sh' && scalar_eqb s s'
  | TVector n t, TVector n' t' => Z.eqb n n' && ty_eqb t t'
  | TTuple ts, TTuple ts' =>
      (fix go (l l' : list ty) : bool :=
         match l, l' with
         | [], [] => true
         | x :: xs, y :: ys => ty_eqb x y && go xs ys
         | _, _ => false end) ts ts'
  | TNamed fs, TNamed fs' =>
      (fix go (l l' : list (string * ty)) : bool :=
         match l, l' with
         | [], [] => true
         | x :: xs, y :: ys => String.eqb (fst x) (fst y) && ty_eqb (snd x) (snd y) && go xs ys
         | _, _ => false end) fs fs'
  | _, _ => false
  end.
#[global] Instance Eqb_ty : Eqb ty := ty_eqb.

Fixpoint bvalue_eqb (a b : bvalue) {struct a} : bool :=
  match a, b with
  | BBytes x, BBytes y => list_eqb Z.eqb x y
  | BVec xs, BVec ys =>
      (fix go (l l' : list bvalue) : bool :=
         match l, l' with
         | [], [] => true
         | x :: xs, y :: ys => bvalue_eqb x y && go xs ys
         | _, _ => false end) xs ys
  | _, _ => false
  end.
#[global] Instance Eqb_bvalue : Eqb bvalue := bvalue_eqb.

Definition prod_list (l : list Z) : Z := fold_right Z.mul 1 l.

(* data_types.rs:514 is_valid_shape: non-empty, no zero dimension, product representable
   (u64::MAX divided successively by every dimension stays non-zero). *)
Definition u64_max : Z := 2 ^ 64 - 1.
Definition is_valid_shape (s : list Z) : bool :=
  negb (match s with [] => true | _ => false end)
  && forallb (fun x => negb (x =? 0)) s
  && negb (fold_left Z.div s u64_max =? 0).

Definition nodup_strings (l : list string) : bool :=
  (fix go (l : list string) :=
     match l with
     | [] => true
     | x :: xs => negb (existsb (String.eqb x) xs) && go xs
     end) l.

(* data_types.rs:553 is_valid *)
Fixpoint ty_valid (t : ty) : bool :=
  match t with
  | TScalar _ => true
  | TArray sh _ => is_valid_shape sh
  | TVector _ t => ty_valid t
  | TTuple ts => forallb ty_valid ts
  | TNamed fs => nodup_strings (map fst fs) && forallb (fun p => ty_valid (snd p)) fs
  end.

(* data_types.rs:1196 get_size_in_bits, with the checked_mul / checked_add overflow errors *)
Definition chk64 (x : Z) : result Z := if x <=? u64_max then Ok x else Err.
Fixpoint size_in_bits_raw (t : ty) : result Z :=
  match t with
  | TScalar s => Ok (width s)
  | TArray sh s =>
      let* pr := fold_left (fun acc x => let* a := acc in chk64 (a * x)) sh (Ok 1) in
      chk64 (width s * pr)
  | TVector n t => let* e := size_in_bits_raw t in chk64 (n * e)
  | TTuple ts =>
      fold_left (fun acc t => let* a := acc in let* e := size_in_bits_raw t in chk64 (a + e))
                ts (Ok 0)
  | TNamed fs =>
      fold_left (fun acc p => let* a := acc in let* e := size_in_bits_raw (snd p) in chk64 (a + e))
                fs (Ok 0)
  end.
Definition size_in_bits (t : ty) : result Z :=
  if ty_valid t then size_in_bits_raw t else Err.

(* data_types.rs:1346 get_types_vector (without the length limit, which is usize::MAX-1
   outside fuzzing builds) *)
Definition types_vector (t : ty) : result (list ty) :=
  match t with
  | TVector n t => Ok (repeat t (Z.to_nat n))
  | TTuple ts => Ok ts
  | TNamed fs => Ok (map snd fs)
  | _ => Err
  end.

(* C15 — PRF and PRNG are deterministic, in-domain and unbiased.
   Property theorems only: each is closed by [exact] of a lemma proved in Proofs/PrfProofs.v.
   AES-128 is the variable [aes] every theorem quantifies over (it was a Section variable of the
   model): nothing is assumed about it.  What is *not* a theorem here: that different keys or
   counters give computationally unrelated values (AES is a PRP: trusted); the provable core of
   it is C15_blocks_disjoint. *)
From Coq Require Import Permutation.
From CC Require Import Base.Prelude Base.Scalar Base.Ty Model.Bytes Proofs.BytesProofs
  Model.Prf Proofs.PrfProofs.

(* ------------------------------------------------------------------ bytes_schedule_indep *)
(* Whatever the initial buffer size, any sequence of byte requests on a fresh session is served
   by consecutive segments of the block stream of (key, iv): neither the buffer size, its growth
   (64 -> 128 -> 256 -> 512), nor the way earlier requests were cut changes a byte. *)
Theorem C15_bytes_schedule_indep : forall aes key iv initial reqs,
  (0 < initial)%nat ->
  serve aes key (session_new iv initial) reqs = Ok (serve_spec (stream_byte aes key iv) 0 reqs).
Proof. exact bytes_schedule_indep. Qed.
(* ... and from any reachable buffer state (any buffered amount, any positive next size that is a
   multiple of 16): the next n bytes are the next n bytes of the stream. *)
Theorem C15_bytes_from_any_state : forall aes key iv s p n,
  Inv aes key iv s p ->
  exists s', sess_bytes aes key s n = Ok (seg (stream_byte aes key iv) p n, s') /\
             Inv aes key iv s' (p + n).
Proof. exact sess_bytes_stream. Qed.
Theorem C15_requests_concatenate : forall f reqs p,
  concat (serve_spec f p reqs) = seg f p (fold_right Nat.add 0%nat reqs).
Proof. exact serve_spec_concat. Qed.

(* ------------------------------------------------------------------ prf_pure *)
(* Prf::output_value / output_permutation, with their buffers, equal the buffer-free functions of
   (key, iv, type) / (key, iv, n) that read the stream directly. *)
Theorem C15_prf_value_is_stream_function : forall aes key iv t,
  prf_output_value aes (mkPrf key) iv t = spec_value aes key iv t.
Proof. exact prf_value_spec. Qed.
Theorem C15_prf_permutation_is_stream_function : forall aes fuel key iv n,
  prf_output_permutation aes fuel (mkPrf key) iv n = spec_permutation aes fuel key iv n.
Proof. exact prf_perm_spec. Qed.
(* For every history of PRF / PermutationFromPRF calls, interleaved in any order over any number
   of evaluator instances (each with its own per-key cache, all fresh at the start), every call
   returns the pure function of its own (key, iv, type) — nothing depends on the instance, on the
   order, on repetitions or on what the cache holds.  Two parties holding the same key therefore
   derive the same mask. *)
Theorem C15_prf_pure : forall aes fuel (h : list (nat * prf_call)),
  run_history aes fuel h [] = map (fun ic => spec_call aes fuel (snd ic)) h.
Proof. exact prf_pure_fresh. Qed.
(* the same from any caches built by earlier calls *)
Theorem C15_prf_pure_from_any_caches : forall aes fuel h m,
  insts_ok m -> run_history aes fuel h m = map (fun ic => spec_call aes fuel (snd ic)) h.
Proof. exact prf_pure. Qed.

(* ------------------------------------------------------------------ blocks_disjoint *)
(* Below 2^64 blocks per call, calls with different counters never encrypt the same block. *)
Theorem C15_blocks_disjoint : forall iv iv' j j',
  0 <= iv < 2 ^ 64 -> 0 <= iv' < 2 ^ 64 -> 0 <= j < 2 ^ 64 -> 0 <= j' < 2 ^ 64 ->
  iv <> iv' -> ctr iv j <> ctr iv' j'.
Proof. exact blocks_disjoint. Qed.

(* ------------------------------------------------------------------ value_in_domain *)
(* Every value the PRF returns, for every type tree, has exactly the byte layout of its type
   (ceil(bits/8) bytes per leaf, right arity at every vector / tuple), consists of bytes, and the
   bits of each leaf's last byte above the type's size are zero; check_type accepts it. *)
Theorem C15_value_in_domain : forall aes p iv t v,
  ty_u64 t -> prf_output_value aes p iv t = Ok v ->
  valid_enc v t /\ check_type_raw v t = true.
Proof. exact value_in_domain. Qed.
(* the same for any byte source (PRNG::get_random_value shares the code) ... *)
Theorem C15_value_in_domain_any_source :
  forall (St : Type) (bytes : St -> nat -> result (list Z * St)),
  (forall s n bs s', bytes s n = Ok (bs, s') -> length bs = n /\ Forall byte bs) ->
  forall t, ty_u64 t -> forall s v s', gen_value bytes t s = Ok (v, s') -> valid_enc v t.
Proof. exact @gen_value_domain. Qed.
(* ... in particular for every value a seeded generator / Operation::Random produces *)
Theorem C15_prng_value_in_domain : forall aes fuel seed ops k t v,
  nth_error ops k = Some (OpValue t) -> ty_u64 t ->
  nth_error (prng_observe aes fuel seed ops) k = Some (Ok (OutValue v)) ->
  valid_enc v t.
Proof. exact prng_value_in_domain. Qed.

(* ------------------------------------------------------------------ perm_is_perm *)
(* Whatever the stream, a returned permutation is the u64 encoding of a permutation of 0..n-1 *)
Theorem C15_perm_is_perm : forall aes fuel p iv n v,
  prf_output_permutation aes fuel p iv n = Ok v ->
  exists l, Permutation (iota (Z.to_nat n)) l /\ v = BBytes (flat_map (le_bytes 8) l).
Proof. exact perm_is_perm. Qed.
(* and for every accepted length the only other outcome is the exhaustion of the explicit fuel of
   the rejection loop: no panic (all swaps in range), no error *)
Theorem C15_perm_total : forall aes fuel key iv n,
  0 <= n <= 2 ^ 30 ->
  prf_output_permutation aes fuel (mkPrf key) iv n = OutOfFuel \/
  exists l, Permutation (iota (Z.to_nat n)) l /\
            prf_output_permutation aes fuel (mkPrf key) iv n = Ok (BBytes (flat_map (le_bytes 8) l)).
Proof. exact perm_total. Qed.
(* Operation::RandomPermutation (shuffle_array over get_random_in_range), any byte source *)
Theorem C15_shuffle_is_perm :
  forall (St : Type) (bytes : St -> nat -> result (list Z * St)) fuel a s a' s',
  shuffle_array bytes fuel a s = Ok (a', s') -> Permutation a a'.
Proof. exact @shuffle_is_perm. Qed.

(* ------------------------------------------------------------------ rejection_unbiased *)
(* generate_u32_in_range: the accepted draws 0..B are q > 0 full periods of the modulus (B+1 = q*m,
   all of them representable in the bytes drawn), and the preimages of each residue r among them
   are exactly the q distinct numbers k*m + r, 0 <= k < q: every residue has the same number of
   preimages.  The returned value is x mod m for an accepted draw x, hence in range. *)
Theorem C15_rejection_unbiased_u32 : forall m,
  0 < m ->
  let N := 2 ^ (u32_need_bytes m * 8) in
  let B := u32_bound m in
  exists q, 0 < q /\ B + 1 = q * m /\ 0 <= B < N /\
    (forall r x, 0 <= r < m ->
       (0 <= x <= B /\ x mod m = r) <-> (exists k, 0 <= k < q /\ x = k * m + r)).
Proof. exact u32_rejection_unbiased. Qed.
(* PRNG::get_random_in_range (64-bit draws) *)
Theorem C15_rejection_unbiased_u64 : forall m,
  0 < m < 2 ^ 64 ->
  let B := in_range_bound m in
  exists q, 0 < q /\ B + 1 = q * m /\ 0 <= B < 2 ^ 64 /\
    (forall r x, 0 <= r < m ->
       (0 <= x <= B /\ x mod m = r) <-> (exists k, 0 <= k < q /\ x = k * m + r)).
Proof. exact u64_rejection_unbiased. Qed.
(* the same as a count: among the accepted draws 0..B every residue has the same, non-zero,
   number of preimages ([preimages m r B] = number of x in 0..B with x mod m = r) *)
Theorem C15_preimages_count : forall m q r,
  0 < m -> 0 <= q -> 0 <= r < m -> preimages m r (q * m - 1) = Z.to_nat q.
Proof. exact preimages_count. Qed.
Theorem C15_rejection_equal_preimages_u32 : forall m r r',
  0 < m -> 0 <= r < m -> 0 <= r' < m ->
  preimages m r (u32_bound m) = preimages m r' (u32_bound m) /\ (0 < preimages m r (u32_bound m))%nat.
Proof. exact u32_preimages_equal. Qed.
Theorem C15_rejection_equal_preimages_u64 : forall m r r',
  0 < m < 2 ^ 64 -> 0 <= r < m -> 0 <= r' < m ->
  preimages m r (in_range_bound m) = preimages m r' (in_range_bound m) /\
  (0 < preimages m r (in_range_bound m))%nat.
Proof. exact u64_preimages_equal. Qed.
Theorem C15_class_members_distinct : forall m r k k', 0 < m -> k * m + r = k' * m + r -> k = k'.
Proof. exact class_members_distinct. Qed.
Theorem C15_u32_draw_accepted : forall (St : Type) (number : St -> nat -> result (Z * St)) fuel need bound m s v s',
  u32_loop number fuel need bound m s = Ok (v, s') -> exists x, x <= bound /\ v = x mod m.
Proof. exact @u32_loop_accepts. Qed.
Theorem C15_u32_draw_in_range : forall (St : Type) (number : St -> nat -> result (Z * St)) fuel m s v s',
  0 < m -> u32_in_range number fuel m s = Ok (v, s') -> 0 <= v < m.
Proof. exact @u32_in_range_lt. Qed.
Theorem C15_u64_draw_in_range : forall (St : Type) (bytes : St -> nat -> result (list Z * St)) fuel m s v s',
  0 < m -> get_random_in_range bytes fuel (Some m) s = Ok (v, s') -> 0 <= v < m.
Proof. exact @get_random_in_range_lt. Qed.

(* ------------------------------------------------------------------ prng_replay *)
(* Everything a generator created from a seed returns, for any sequence of operations, is the
   buffer-free reading of the stream of (seed, 0): a function of the seed and the operations only,
   so a second generator created from the same seed replays it exactly. *)
Theorem C15_prng_replay : forall aes fuel seed ops,
  prng_observe aes fuel seed ops = spec_prng aes fuel seed ops.
Proof. exact prng_replay. Qed.

(* ------------------------------------------------------------------ non-vacuity *)
Definition ex_aes (k : list Z) (c : Z) : Z := (c * 2654435761 + from_le_bytes k * 97 + 12345) ^ 3.
Definition ex_key : list Z := [1; 2; 3; 4; 5; 6; 7; 8; 9; 10; 11; 12; 13; 14; 15; 16].

(* a session in a reachable state exists (the hypothesis of C15_bytes_from_any_state) *)
Example C15_example_inv : Inv ex_aes ex_key 7 (session_new 7 INITIAL_BUFFER_SIZE) 0.
Proof. apply Inv_new. unfold INITIAL_BUFFER_SIZE. lia. Qed.
(* requests crossing the first two refills (64, then 128 bytes) *)
Example C15_example_schedule :
  serve ex_aes ex_key (session_new 7 64) [3; 70; 150]%nat
  = Ok (serve_spec (stream_byte ex_aes ex_key 7) 0 [3; 70; 150]%nat) /\
  serve ex_aes ex_key (session_new 7 1) [3; 70; 150]%nat
  = serve ex_aes ex_key (session_new 7 512) [3; 70; 150]%nat.
Proof. split; vm_compute; reflexivity. Qed.
(* a history over two instances with repeated and interleaved calls, a key longer than 16 bytes *)
Example C15_example_history :
  let k := BBytes ex_key in
  let k' := BBytes (ex_key ++ [99]) in
  let t := TTuple [TArray [13] Bit; TScalar U64] in
  run_history ex_aes 64
    [(0, CallPRF k 5 t); (1, CallPRF k' 5 t); (0, CallPerm k 5 6); (1, CallPRF k 5 t);
     (0, CallPRF k 5 t); (1, CallPerm k' 5 6)]%nat []
  = [spec_call ex_aes 64 (CallPRF k 5 t); spec_call ex_aes 64 (CallPRF k 5 t);
     spec_call ex_aes 64 (CallPerm k 5 6); spec_call ex_aes 64 (CallPRF k 5 t);
     spec_call ex_aes 64 (CallPRF k 5 t); spec_call ex_aes 64 (CallPerm k 5 6)]
  /\ exists v, spec_call ex_aes 64 (CallPRF k 5 t) = Ok v.
Proof. split; [vm_compute; reflexivity | eexists; vm_compute; reflexivity]. Qed.
(* a ragged bit array: 13 bits -> 2 bytes, last byte below 2^5 *)
Example C15_example_domain :
  exists b0 b1, prf_output_value ex_aes (mkPrf ex_key) 5 (TArray [13] Bit) = Ok (BBytes [b0; b1]) /\ b1 < 32
  /\ ty_u64 (TArray [13] Bit).
Proof. do 2 eexists. split; [vm_compute; reflexivity|]. split; [lia|]. cbn. repeat constructor; lia. Qed.
Example C15_example_perm :
  exists l, prf_output_permutation ex_aes 64 (mkPrf ex_key) 5 6 = Ok (BBytes (flat_map (le_bytes 8) l))
            /\ Permutation (iota 6) l.
Proof.
  destruct (perm_total ex_aes 64 ex_key 5 6 ltac:(lia)) as [E|(l & HP & E)].
  - vm_compute in E. discriminate.
  - exists l. split; [exact E | exact HP].
Qed.
(* modulus 3 in generate_u32_in_range: 2 bytes, 65535 accepted draws = 21845 periods *)
Example C15_example_rejection : u32_need_bytes 3 = 2 /\ u32_bound 3 + 1 = 21845 * 3.
Proof. split; reflexivity. Qed.
Example C15_example_preimages : preimages 3 0 8 = 3%nat /\ preimages 3 2 8 = 3%nat /\ preimages 3 2 7 = 2%nat.
Proof. repeat split; reflexivity. Qed.
Example C15_example_rejection_u64 : in_range_bound (2 ^ 63 + 1) + 1 = 2 ^ 63 + 1.
Proof. reflexivity. Qed.
Example C15_example_blocks : ctr 1 0 <> ctr 0 (2 ^ 64 - 1) /\ ctr 1 0 = ctr 0 (2 ^ 64).
Proof. split; [apply blocks_disjoint; lia | reflexivity]. Qed.
Example C15_example_replay :
  let ops := [OpBytes 5; OpInRange (Some 10); OpValue (TArray [9] Bit); OpShuffle 4; OpBytes 600] in
  prng_observe ex_aes 64 ex_key ops = spec_prng ex_aes 64 ex_key ops /\
  length (prng_observe ex_aes 64 ex_key ops) = 5%nat.
Proof. split; vm_compute; reflexivity. Qed.

Print Assumptions C15_bytes_schedule_indep.
Print Assumptions C15_bytes_from_any_state.
Print Assumptions C15_requests_concatenate.
Print Assumptions C15_prf_value_is_stream_function.
Print Assumptions C15_prf_permutation_is_stream_function.
Print Assumptions C15_prf_pure.
Print Assumptions C15_prf_pure_from_any_caches.
Print Assumptions C15_blocks_disjoint.
Print Assumptions C15_value_in_domain.
Print Assumptions C15_value_in_domain_any_source.
Print Assumptions C15_prng_value_in_domain.
Print Assumptions C15_perm_is_perm.
Print Assumptions C15_perm_total.
Print Assumptions C15_shuffle_is_perm.
Print Assumptions C15_rejection_unbiased_u32.
Print Assumptions C15_rejection_unbiased_u64.
Print Assumptions C15_preimages_count.
Print Assumptions C15_rejection_equal_preimages_u32.
Print Assumptions C15_rejection_equal_preimages_u64.
Print Assumptions C15_class_members_distinct.
Print Assumptions C15_u32_draw_accepted.
Print Assumptions C15_u32_draw_in_range.
Print Assumptions C15_u64_draw_in_range.
Print Assumptions C15_prng_replay.

(* C11 — the graph-building API keeps contexts well-formed; failed calls have no effect.
   Property theorems only: each is closed by [exact] of a lemma proved in Proofs/ApiProofs.v.
   [state], [call], [step] are the Gallina mirror of graphs.rs (Model/Api.v); the type checker's
   answer and the size estimates are part of each AddNode call, so every theorem holds for all
   possible answers. *)
From CC Require Import Base.Prelude Model.Api Proofs.ApiProofs.
Local Open Scope N_scope.

(* The invariant: Inv s = WF s /\ Typed s (Proofs/ApiProofs.v), where WF = WFG (ids dense and in
   creation order, dependencies precede their user in the same graph and context, called graphs
   finalized, older, same context, outputs exist) /\ WFM (main graph finalized; a finalized
   context is completely finalized) /\ WFT (name tables mutually inverse, all tables mention
   existing objects only), Typed = every stored node has a cached type. *)
Theorem C11_inv_init : Inv init.
Proof. exact inv_init. Qed.

Theorem C11_inv_step : forall s c, Inv s -> Inv (step' s c).
Proof. exact inv_step. Qed.

(* over ALL finite call sequences, with arbitrary type-checker and size answers inside the calls *)
Theorem C11_inv_reachable : forall cs : list call, Inv (fold_left step' cs init).
Proof. exact inv_reachable. Qed.

(* the invariant in plain terms *)
Theorem C11_inv_meaning : forall s, Inv s ->
  (forall g gr, nthN (graphs s) g = Some gr -> g_id gr = g) /\
  (forall g gr j nd, nthN (graphs s) g = Some gr -> nthN (g_nodes gr) j = Some nd ->
     n_id nd = j /\
     (forall d, In d (n_deps nd) -> exists k, d = NH self g k /\ k < j) /\
     (forall d, In d (n_gdeps nd) -> exists h, d = GH self h /\ h < g /\ graph_finalized s h = true) /\
     lookup keq2 (g, j) (types s) <> None) /\
  (forall g n nm, lookup keq2 (g, n) (nnames s) = Some nm ->
     lookup keqs (g, nm) (nnames_inv s) = Some n /\ node_exists s g n = true) /\
  (forall g n1 n2 nm, lookup keq2 (g, n1) (nnames s) = Some nm ->
     lookup keq2 (g, n2) (nnames s) = Some nm -> n1 = n2) /\
  (forall g nm, lookup N.eqb g (gnames s) = Some nm ->
     lookup String.eqb nm (gnames_inv s) = Some g /\ graph_exists s g = true) /\
  (forall g1 g2 nm, lookup N.eqb g1 (gnames s) = Some nm ->
     lookup N.eqb g2 (gnames s) = Some nm -> g1 = g2).
Proof. exact inv_meaning. Qed.

(* A call that returns an error leaves the whole state (not only its observation) unchanged.
   add_node is modelled push-then-rollback as in the code, so this is a theorem about
   remove_last_node / unregister_node. *)
Theorem C11_fail_atomic : forall s c e,
  Inv s -> snd (step s c) = OErr e -> fst (step s c) = s.
Proof. exact fail_atomic. Qed.

(* A finalized graph rejects add_node and set_output_node; finalizing it again changes nothing.
   (Names and annotations live in the context and stay settable until the context is finalized;
   deserialization relies on that.) *)
Theorem C11_finalized_rejects : forall s g,
  Inv s -> graph_finalized s g = true ->
  (forall op deps gdeps sup ans, add_node s g op deps gdeps sup ans = (s, OErr E_graph_finalized)) /\
  (forall n, exists e, set_output s g n = (s, OErr e)) /\
  fst (finalize_graph s g) = s.
Proof. exact finalized_graph_rejects. Qed.

(* A finalized context: no call changes it and every mutator returns an error. *)
Theorem C11_finalized_ctx_rejects : forall s,
  Inv s -> ctx_fin s = true ->
  (forall c, fst (step s c) = s) /\
  (forall c, is_mutator c = true -> exists e, snd (step s c) = OErr e).
Proof. exact finalized_ctx_rejects. Qed.

(* Non-vacuity: a history that builds two graphs with a Call, names, annotations, a rejected
   node (type error, rolled back), and finalizes the context; then a rejected mutation. *)
Definition ex_calls : list call :=
  [CreateGraph;
   AddNode 0 1 [] [] None (mkAns (Some 7) (Some 33) (Some (Some 33)));
   AddNode 0 2 [NH 0 0 0; NH 0 0 0] [] None (mkAns (Some 7) (Some 33) None);
   AddNode 0 3 [NH 0 0 1; NH 0 0 0] [] None (mkAns None None None);
   SetNodeName (NH 0 0 0) "x"; SetOutput 0 (NH 0 0 1); FinalizeGraph 0;
   CreateGraph;
   AddNode 1 1 [] [] None (mkAns (Some 7) (Some 33) (Some (Some 33)));
   AddNode 1 4 [NH 0 1 0] [GH 0 0] None (mkAns (Some 7) (Some 33) None);
   AddNodeAnnot (NH 0 1 1) 2; SetGraphName (GH 0 1) "main";
   SetOutput 1 (NH 0 1 1); FinalizeGraph 1; SetMain (GH 0 1); FinalizeCtx].
Example C11_example_history :
  map (fun g => lenN (g_nodes g)) (graphs (run ex_calls)) = [2; 2] /\
  ctx_fin (run ex_calls) = true /\
  snd (step (run (firstn 3 ex_calls)) (nth 3 ex_calls CreateGraph)) = OErr E_type /\
  snd (step (run ex_calls) CreateGraph) = OErr E_ctx_finalized /\
  lookup keqs (0, "x"%string) (nnames_inv (run ex_calls)) = Some 0.
Proof. vm_compute. repeat split. Qed.
Example C11_example_inv : Inv (run ex_calls) /\ graph_finalized (run ex_calls) 0 = true.
Proof. split; [apply inv_reachable|reflexivity]. Qed.

Print Assumptions C11_inv_init.
Print Assumptions C11_inv_step.
Print Assumptions C11_inv_reachable.
Print Assumptions C11_inv_meaning.
Print Assumptions C11_fail_atomic.
Print Assumptions C11_finalized_rejects.
Print Assumptions C11_finalized_ctx_rejects.

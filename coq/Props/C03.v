(* C03 — a party's view reveals nothing beyond its own inputs and outputs.

   With the pseudo-random masks idealised as independent uniform values (the property's own
   wording), equality of two view distributions is stated as the existence of a bijection of the
   tape space under which the views coincide.  Proved here, for every commutative ring of values
   (arrays of one shape over Z_2^w, every width and shape):
   - the general one-time-pad theorem for any list of deliveries in triangular form (each message
     is +-(a fresh mask cell) + a rest that looks at none of the remaining masks);
   - its instances on the protocol's gadgets: input sharing, resharing (hence product followed
     by resharing), reveal (simulatable from the output), oblivious transfer (receiver).
   - the composition over whole compiled programs of the elementwise fragment (add, subtract,
     multiply, constants; every array type and width) and of tuples create_tuple(e1, .., ek) of
     elementwise values (tuple-valued shares sent as one message, the output revealed component by
     component): C03_maskcheck_sound, the soundness theorem of the static analysis [maskcheck]
     (Model/MaskCheck.v), which is run inside Coq on every exported compiler output
     (T:maskcheck cases).
   For compiled programs OUTSIDE that fragment (truncation, conversions, OT-based protocols,
   permutations, ...) the composition is NOT a theorem (C03_full): it is covered by the gadget
   theorems and by exact enumeration of all mask values for small bit-typed compiled graphs in
   the harness.  Not claimed: pseudo-randomness of AES. *)
From Coq Require Import Ring.
From CC Require Import Base.Prelude Base.Scalar Base.Ty Base.Shape Graph.Value Graph.IR
  Model.RingEval Model.Knows Model.Privacy Proofs.PrivacyProofs Model.MaskCheck Proofs.MaskCheckProofs.

Theorem C03_onetimepad :
  forall (G : Type) (gadd : G -> G -> G) (gneg : G -> G) (gzero gone : G) (gmul gsubr : G -> G -> G),
  ring_theory gzero gone gadd gmul gsubr gneg eq ->
  forall (cell : Type) (cell_eqb : cell -> cell -> bool),
  (forall a b, cell_eqb a b = true <-> a = b) ->
  forall (X : Type) (ds : list (delivery G cell X)) (x x' : X),
  otp_ok G cell cell_eqb X ds ->
  (forall t, Forall (fun d => msg G gadd gneg cell X d x' (pi G gadd gneg cell cell_eqb X ds x x' t)
                              = msg G gadd gneg cell X d x t) ds) /\
  (forall t c, pi G gadd gneg cell cell_eqb X ds x' x (pi G gadd gneg cell cell_eqb X ds x x' t) c = t c) /\
  (forall t c, pi G gadd gneg cell cell_eqb X ds x x' (pi G gadd gneg cell cell_eqb X ds x' x t) c = t c) /\
  (forall t c, existsb (cell_eqb c) (map (d_mask G cell X) ds) = false ->
               pi G gadd gneg cell cell_eqb X ds x x' t c = t c).
Proof. intros. eapply otp_bijection; eauto. Qed.

Theorem C03_share_hides :
  forall (G : Type) (gadd : G -> G -> G) (gneg : G -> G) (gzero gone : G) (gmul gsubr : G -> G -> G),
  ring_theory gzero gone gadd gmul gsubr gneg eq ->
  forall o p x x', (p < 3)%nat ->
  let d := share_delivery G gadd gzero o p in
  (forall t, in_share G gadd gneg gzero o (nxt p) x' (pi G gadd gneg nat Nat.eqb G [d] x x' t)
             = in_share G gadd gneg gzero o (nxt p) x t) /\
  (forall t c, pi G gadd gneg nat Nat.eqb G [d] x' x (pi G gadd gneg nat Nat.eqb G [d] x x' t) c = t c) /\
  (forall t c, pi G gadd gneg nat Nat.eqb G [d] x x' (pi G gadd gneg nat Nat.eqb G [d] x' x t) c = t c) /\
  (forall t, pi G gadd gneg nat Nat.eqb G [d] x x' t p = t p /\
             pi G gadd gneg nat Nat.eqb G [d] x x' t (nxt p) = t (nxt p)).
Proof. intros. eapply share_hides; eauto. Qed.

Theorem C03_reshare_hides :
  forall (G : Type) (gadd : G -> G -> G) (gneg : G -> G) (gzero gone : G) (gmul gsubr : G -> G -> G),
  ring_theory gzero gone gadd gmul gsubr gneg eq ->
  forall (X : Type) (z : nat -> X -> tape G nat -> G),
  (forall i x, indep G nat Nat.eqb (z i x) [0; 1; 2]%nat) ->
  forall p x x', (p < 3)%nat ->
  let d := reshare_delivery G gadd X z p in
  (forall t, reshare_msg G gadd gneg X z (nxt p) x' (pi G gadd gneg nat Nat.eqb X [d] x x' t)
             = reshare_msg G gadd gneg X z (nxt p) x t) /\
  (forall t c, pi G gadd gneg nat Nat.eqb X [d] x' x (pi G gadd gneg nat Nat.eqb X [d] x x' t) c = t c) /\
  (forall t c, pi G gadd gneg nat Nat.eqb X [d] x x' (pi G gadd gneg nat Nat.eqb X [d] x' x t) c = t c) /\
  (forall t c, c <> nxt (nxt p) -> pi G gadd gneg nat Nat.eqb X [d] x x' t c = t c).
Proof. intros. eapply reshare_hides; eauto. Qed.

Theorem C03_reveal_simulatable :
  forall (G : Type) (gadd : G -> G -> G) (gneg : G -> G) (gzero gone : G) (gmul gsubr : G -> G -> G),
  ring_theory gzero gone gadd gmul gsubr gneg eq ->
  forall s0 s1 s2 out, gadd (gadd s0 s1) s2 = out ->
  s2 = gsub G gadd gneg (gsub G gadd gneg out s0) s1 /\
  s0 = gsub G gadd gneg (gsub G gadd gneg out s1) s2 /\
  s1 = gsub G gadd gneg (gsub G gadd gneg out s2) s0.
Proof. intros. eapply reveal_simulatable; eauto. Qed.

Theorem C03_ot_receiver_hides :
  forall (G : Type) (gadd : G -> G -> G) (gneg : G -> G) (gzero gone : G) (gmul gsubr : G -> G -> G),
  ring_theory gzero gone gadd gmul gsubr gneg eq ->
  forall b i0 i1 i0' i1',
  (b = true -> i1 = i1') -> (b = false -> i0 = i0') ->
  (forall t, ot_view G gadd b i0' i1' (ot_pi G gadd gneg b i0 i1 i0' i1' t) = ot_view G gadd b i0 i1 t) /\
  (forall t c, ot_pi G gadd gneg b i0' i1' i0 i1 (ot_pi G gadd gneg b i0 i1 i0' i1' t) c = t c).
Proof. intros. eapply ot_receiver_hides; eauto. Qed.

Definition C03_full : Prop :=
  (* for every compiled program and observer: a bijection of the whole tape space under which the
     observer's complete view coincides for any two input vectors with the same observer inputs
     and output *)
  forall (view : nat -> list Z -> (nat -> Z) -> list Z) p x x',
    exists pi : (nat -> Z) -> (nat -> Z), forall t, view p x' (pi t) = view p x t.

(* Non-vacuity over Z: the input-sharing delivery satisfies the one-time-pad condition and the
   re-randomised tape really reproduces the message for a different secret *)
Example C03_example :
  let d := share_delivery Z Z.add 0 1%nat 0%nat in
  let t := fun c => Z.of_nat c * 10 + 3 in
  msg Z Z.add Z.opp nat Z d 5 (pi Z Z.add Z.opp nat Nat.eqb Z [d] 42 5 t) = msg Z Z.add Z.opp nat Z d 42 t.
Proof. vm_compute. reflexivity. Qed.

Print Assumptions C03_onetimepad.
Print Assumptions C03_share_hides.
Print Assumptions C03_reshare_hides.
Print Assumptions C03_reveal_simulatable.
Print Assumptions C03_ot_receiver_hides.

(* ------------------------------------------------------------------ whole compiled programs *)
(* Ring reading of a compiled graph of the elementwise fragment: [nval t x nodes i] is the value of
   node i for input values x and idealised tape t (the PRF node with id j outputs the cell t j;
   keys are the constant RKey); it is RingEval.reval (the reading C01's T:ring obligations are
   proved about) wherever that succeeds: *)
Theorem C03_mval_reval :
  forall (R : Type) (r0 r1 : R) (radd rmul rsub : R -> R -> R) (ropp : R -> R),
  ring_theory r0 r1 radd rmul rsub ropp eq ->
  forall (catom : value -> R) (one : R) (t : Z -> R) (nodes : list node) (ins env : list (rval R)),
  reval R r0 radd rmul rsub t catom one nodes [] ins = Some env ->
  mval R r0 radd rmul rsub catom one t ins nodes = env.
Proof. intros. eapply mval_reval; eauto. Qed.

(* If maskcheck accepts the compiled graph for observer p then, for any two input vectors that
   agree on p's own and on the public inputs and (if p is an output party) give the same
   tape-independent output value, there is a bijection pi of the tape space (inverse pi') that
   changes only the recorded mask cells and under which EVERY node of p's view (mc_vd: p's and
   public inputs, PRF values under keys p holds, everything delivered to p, everything computed
   from those) has the same value: p's view is identically distributed for x and x'.  A value may
   be a tuple (rval: RTup); for a node that is statically a tuple the same holds for every
   component in the view (mc_cvd), whether or not the whole tuple is. *)
Theorem C03_maskcheck_sound :
  forall (R : Type) (r0 r1 : R) (radd rmul rsub : R -> R -> R) (ropp : R -> R),
  ring_theory r0 r1 radd rmul rsub ropp eq ->
  forall (catom : value -> R) (one : R) (c : config) (p : party) (nodes : list node) (out : Z)
         (M : list mask),
  maskcheck c p nodes out = Some M ->
  forall x x' : list (rval R),
  (forall (j : nat) (st : status), nth_error (cfg_inputs c) j = Some st ->
     st = StParty p \/ st = StPublic -> nth j x (RKey R) = nth j x' (RKey R)) ->
  (zmem p (cfg_outputs c) = true ->
   forall t t' : Z -> R,
     nval R r0 radd rmul rsub catom one t x nodes out = nval R r0 radd rmul rsub catom one t' x' nodes out) ->
  exists pi pi' : (Z -> R) -> Z -> R,
    (forall t cl, pi' (pi t) cl = t cl) /\
    (forall t cl, pi (pi' t) cl = t cl) /\
    (forall t cl, zmem cl (mask_cells M) = false -> pi t cl = t cl) /\
    (forall t i, mc_vd c p nodes i = true ->
       nval R r0 radd rmul rsub catom one (pi t) x' nodes i = nval R r0 radd rmul rsub catom one t x nodes i) /\
    (forall t i j, mc_cvd c p nodes i j = true ->
       cval R j (nval R r0 radd rmul rsub catom one (pi t) x' nodes i)
       = cval R j (nval R r0 radd rmul rsub catom one t x nodes i)).
Proof. intros. eapply maskcheck_sound; eauto. Qed.

(* Non-vacuity.  A compiled-style graph: three PRF keys (node 2i drawn by party i, copy 2i+1 sent
   to party i-1), the input of party 0 shared as (x + r0 - r1, r1 - r2, r2 - r0), share i sent by
   party i to party i-1, and the sum revealed to party 2 (party 1 sends the missing share). *)
Definition ex_ty : ty := TArray [2] U32.
Definition ex_nodes : list node :=
  [ mkNode (ORandom (TArray [4] U32)) [] [] [] (TArray [4] U32);
    mkNode ONOP [0] [] [ASend 0 2] (TArray [4] U32);
    mkNode (ORandom (TArray [4] U32)) [] [] [] (TArray [4] U32);
    mkNode ONOP [2] [] [ASend 1 0] (TArray [4] U32);
    mkNode (ORandom (TArray [4] U32)) [] [] [] (TArray [4] U32);
    mkNode ONOP [4] [] [ASend 2 1] (TArray [4] U32);
    mkNode (OInput ex_ty) [] [] [] ex_ty;
    mkNode (OPRF 1 ex_ty) [1] [] [] ex_ty;
    mkNode (OPRF 2 ex_ty) [3] [] [] ex_ty;
    mkNode (OPRF 3 ex_ty) [5] [] [] ex_ty;
    mkNode OSubtract [7; 8] [] [] ex_ty;
    mkNode OSubtract [8; 9] [] [] ex_ty;
    mkNode OSubtract [9; 7] [] [] ex_ty;
    mkNode OAdd [10; 6] [] [] ex_ty;
    mkNode ONOP [13] [] [ASend 0 2] ex_ty;
    mkNode ONOP [11] [] [ASend 1 0] ex_ty;
    mkNode ONOP [12] [] [ASend 2 1] ex_ty;
    mkNode ONOP [15] [] [ASend 1 2] ex_ty;
    mkNode OAdd [14; 17] [] [] ex_ty;
    mkNode OAdd [18; 16] [] [] ex_ty ].
Definition ex_cfg : config := mkCfg [StParty 0] [2] [(0, 0); (2, 1); (4, 2)].

(* observer 1 (no output): the share it receives is masked by the PRF value under key k0;
   observer 2 (output party): the input share is masked by the PRF value under k1, the missing
   output share is the reveal pattern; observer 0 (the input owner): masked by k2's value *)
Example C03_maskcheck_example :
  maskcheck ex_cfg 1 ex_nodes 19 = Some [(7, true, 16, -1)] /\
  maskcheck ex_cfg 2 ex_nodes 19 = Some [(8, true, 14, -1)] /\
  maskcheck ex_cfg 0 ex_nodes 19 = Some [(9, true, 15, -1)] /\
  (* the views are not empty: deliveries, own PRF values and the output are in the view *)
  map (mc_vd ex_cfg 2 ex_nodes) [1; 7; 8; 9; 14; 17; 19] = [true; true; false; true; true; true; true] /\
  viewcover ex_cfg 0 ex_nodes && viewcover ex_cfg 1 ex_nodes && viewcover ex_cfg 2 ex_nodes = true.
Proof. vm_compute. repeat split. Qed.

(* the same graph where party 2 forwards share 0 (= x + r0 - r1, which it holds) to party 1:
   party 1 knows r1 and has already used r0 as the pad of share 2, so nothing masks it *)
Definition ex_leaky : list node :=
  firstn 16 ex_nodes ++ [mkNode ONOP [12] [] [ASend 2 1] ex_ty;
                        mkNode ONOP [15] [] [ASend 1 2] ex_ty;
                        mkNode OAdd [14; 17] [] [] ex_ty;
                        mkNode OAdd [18; 16] [] [] ex_ty;
                        mkNode ONOP [14] [] [ASend 2 1] ex_ty].
(* ... and the graph where the input is sent to party 1 without any mask *)
Definition ex_unmasked : list node :=
  firstn 16 ex_nodes ++ [mkNode ONOP [6] [] [ASend 2 1] ex_ty] ++ skipn 17 ex_nodes.
Example C03_maskcheck_rejects :
  maskcheck ex_cfg 1 ex_leaky 19 = None /\ mc_rejected ex_cfg 1 ex_leaky 19 = [20] /\
  maskcheck ex_cfg 1 ex_unmasked 19 = None /\ mc_rejected ex_cfg 1 ex_unmasked 19 = [16] /\
  (* the other observers are unaffected *)
  isSome (maskcheck ex_cfg 0 ex_leaky 19) && isSome (maskcheck ex_cfg 2 ex_leaky 19) = true.
Proof. vm_compute. repeat split. Qed.

(* the theorem's bijection on the sharing part of the example (output kept shared), over the ring
   Z, for observer 2 and the secrets 5 / 42 of party 0: every node of the observer's view has the
   same value with (42, pi t) as with (5, t); pi moves the mask cell 8 *)
Definition ex_share : list node := firstn 17 ex_nodes.
Definition ex_cfg0 : config := mkCfg [StParty 0] [] [(0, 0); (2, 1); (4, 2)].
Example C03_maskcheck_instance :
  let V := nval Z 0 Z.add Z.mul Z.sub (fun _ => 7) 1 in
  let ds := dlist Z 0 Z.add Z.mul Z.sub Z.opp (fun _ => 7) 1 ex_share [(8, true, 14, -1)] in
  let pi := pi Z Z.add Z.opp Z Z.eqb (list (rval Z)) ds [RLeaf Z 5] [RLeaf Z 42] in
  let t := fun cl => cl * 10 + 3 in
  maskcheck ex_cfg0 2 ex_share 16 = Some [(8, true, 14, -1)] /\
  forallb (fun i => negb (mc_vd ex_cfg0 2 ex_share i) ||
                    match V (pi t) [RLeaf Z 42] ex_share i, V t [RLeaf Z 5] ex_share i with
                    | RLeaf _ a, RLeaf _ b => a =? b | RKey _, RKey _ => true | _, _ => false end)
          [0; 1; 2; 3; 4; 5; 6; 7; 8; 9; 10; 11; 12; 13; 14; 15; 16] = true /\
  map (mc_vd ex_cfg0 2 ex_share) [1; 5; 6; 7; 8; 9; 12; 14; 15; 16]
    = [true; true; false; true; false; true; true; true; false; true] /\
  V (pi t) [RLeaf Z 42] ex_share 14 = RLeaf Z (-5) /\ V t [RLeaf Z 5] ex_share 14 = RLeaf Z (-5) /\
  (t 8, pi t 8) = (83, 120).
Proof. vm_compute. repeat split. Qed.

(* ------------------------------------------------------------------ tuple-valued programs *)
(* The compiler's output (exported by the harness, not written by hand) for
     create_tuple(a * b, c),  a, b, c owned by parties 0, 1, 2, revealed to party 2.
   Nodes 0-38: keys and input sharing; 39-50: the three 3-out-of-3 product shares 42, 46, 50;
   51-62: two zero sharings; 63-74: party i's reshared share of the tuple, (product share + zero
   share, share of c + zero share), built by CreateTuple and sent AS ONE tuple-valued message
   (nodes 66, 70, 74); 75: party 1 sends its tuple share to party 2 (reveal); 76-86: the output,
   a CreateTuple of one Add-tree per component over TupleGet's of the three share tuples. *)
Definition tup_ty : ty := TArray [1; 2; 2] U32.
Definition tup_key : ty := TArray [128] Bit.
Definition tup_tt : ty := TTuple [tup_ty; tup_ty].
Definition ex_tup_nodes : list node :=
  [
    (mkNode (ORandom tup_key) [] [] [] tup_key);
    (mkNode ONOP [0] [] [(ASend 0 2)] tup_key);
    (mkNode (ORandom tup_key) [] [] [] tup_key);
    (mkNode ONOP [2] [] [(ASend 1 0)] tup_key);
    (mkNode (ORandom tup_key) [] [] [] tup_key);
    (mkNode ONOP [4] [] [(ASend 2 1)] tup_key);
    (mkNode (OInput tup_ty) [] [] [] tup_ty);
    (mkNode (OPRF 1 tup_ty) [1] [] [] tup_ty);
    (mkNode (OPRF 2 tup_ty) [3] [] [] tup_ty);
    (mkNode (OPRF 3 tup_ty) [5] [] [] tup_ty);
    (mkNode OSubtract [7; 8] [] [] tup_ty);
    (mkNode OSubtract [8; 9] [] [] tup_ty);
    (mkNode OSubtract [9; 7] [] [] tup_ty);
    (mkNode OAdd [10; 6] [] [] tup_ty);
    (mkNode ONOP [13] [] [(ASend 0 2)] tup_ty);
    (mkNode ONOP [11] [] [(ASend 1 0)] tup_ty);
    (mkNode ONOP [12] [] [(ASend 2 1)] tup_ty);
    (mkNode (OInput tup_ty) [] [] [] tup_ty);
    (mkNode (OPRF 4 tup_ty) [1] [] [] tup_ty);
    (mkNode (OPRF 5 tup_ty) [3] [] [] tup_ty);
    (mkNode (OPRF 6 tup_ty) [5] [] [] tup_ty);
    (mkNode OSubtract [18; 19] [] [] tup_ty);
    (mkNode OSubtract [19; 20] [] [] tup_ty);
    (mkNode OSubtract [20; 18] [] [] tup_ty);
    (mkNode OAdd [22; 17] [] [] tup_ty);
    (mkNode ONOP [21] [] [(ASend 0 2)] tup_ty);
    (mkNode ONOP [24] [] [(ASend 1 0)] tup_ty);
    (mkNode ONOP [23] [] [(ASend 2 1)] tup_ty);
    (mkNode (OInput tup_ty) [] [] [] tup_ty);
    (mkNode (OPRF 7 tup_ty) [1] [] [] tup_ty);
    (mkNode (OPRF 8 tup_ty) [3] [] [] tup_ty);
    (mkNode (OPRF 9 tup_ty) [5] [] [] tup_ty);
    (mkNode OSubtract [29; 30] [] [] tup_ty);
    (mkNode OSubtract [30; 31] [] [] tup_ty);
    (mkNode OSubtract [31; 29] [] [] tup_ty);
    (mkNode OAdd [34; 28] [] [] tup_ty);
    (mkNode ONOP [32] [] [(ASend 0 2)] tup_ty);
    (mkNode ONOP [33] [] [(ASend 1 0)] tup_ty);
    (mkNode ONOP [35] [] [(ASend 2 1)] tup_ty);
    (mkNode OAdd [25; 26] [] [] tup_ty);
    (mkNode OMultiply [14; 39] [] [] tup_ty);
    (mkNode OMultiply [15; 25] [] [] tup_ty);
    (mkNode OAdd [40; 41] [] [] tup_ty);
    (mkNode OAdd [26; 27] [] [] tup_ty);
    (mkNode OMultiply [15; 43] [] [] tup_ty);
    (mkNode OMultiply [16; 26] [] [] tup_ty);
    (mkNode OAdd [44; 45] [] [] tup_ty);
    (mkNode OAdd [27; 25] [] [] tup_ty);
    (mkNode OMultiply [16; 47] [] [] tup_ty);
    (mkNode OMultiply [14; 27] [] [] tup_ty);
    (mkNode OAdd [48; 49] [] [] tup_ty);
    (mkNode (OPRF 10 tup_ty) [1] [] [] tup_ty);
    (mkNode (OPRF 11 tup_ty) [3] [] [] tup_ty);
    (mkNode (OPRF 12 tup_ty) [5] [] [] tup_ty);
    (mkNode OSubtract [51; 52] [] [] tup_ty);
    (mkNode OSubtract [52; 53] [] [] tup_ty);
    (mkNode OSubtract [53; 51] [] [] tup_ty);
    (mkNode (OPRF 13 tup_ty) [1] [] [] tup_ty);
    (mkNode (OPRF 14 tup_ty) [3] [] [] tup_ty);
    (mkNode (OPRF 15 tup_ty) [5] [] [] tup_ty);
    (mkNode OSubtract [57; 58] [] [] tup_ty);
    (mkNode OSubtract [58; 59] [] [] tup_ty);
    (mkNode OSubtract [59; 57] [] [] tup_ty);
    (mkNode OAdd [42; 54] [] [] tup_ty);
    (mkNode OAdd [36; 60] [] [] tup_ty);
    (mkNode OCreateTuple [63; 64] [] [] tup_tt);
    (mkNode ONOP [65] [] [(ASend 0 2)] tup_tt);
    (mkNode OAdd [46; 55] [] [] tup_ty);
    (mkNode OAdd [37; 61] [] [] tup_ty);
    (mkNode OCreateTuple [67; 68] [] [] tup_tt);
    (mkNode ONOP [69] [] [(ASend 1 0)] tup_tt);
    (mkNode OAdd [50; 56] [] [] tup_ty);
    (mkNode OAdd [38; 62] [] [] tup_ty);
    (mkNode OCreateTuple [71; 72] [] [] tup_tt);
    (mkNode ONOP [73] [] [(ASend 2 1)] tup_tt);
    (mkNode ONOP [70] [] [(ASend 1 2)] tup_tt);
    (mkNode (OTupleGet 0) [66] [] [] tup_ty);
    (mkNode (OTupleGet 0) [75] [] [] tup_ty);
    (mkNode (OTupleGet 0) [74] [] [] tup_ty);
    (mkNode OAdd [76; 77] [] [] tup_ty);
    (mkNode OAdd [79; 78] [] [] tup_ty);
    (mkNode (OTupleGet 1) [66] [] [] tup_ty);
    (mkNode (OTupleGet 1) [75] [] [] tup_ty);
    (mkNode (OTupleGet 1) [74] [] [] tup_ty);
    (mkNode OAdd [81; 82] [] [] tup_ty);
    (mkNode OAdd [84; 83] [] [] tup_ty);
    (mkNode OCreateTuple [80; 85] [] [] tup_tt) ].
Definition ex_tup_cfg : config := mkCfg [StParty 0; StParty 1; StParty 2] [2] [(0, 0); (2, 1); (4, 2)].

(* accepted for every observer: each component of a delivered tuple has its own mask (recorded as
   (cell, negated, node, component)); for observer 2 the components of the revealed share 75 are
   the missing summands of the output's components (pattern E, no mask) *)
Example C03_maskcheck_tuple_example :
  maskcheck ex_tup_cfg 2 ex_tup_nodes 86
    = Some [(8, true, 14, -1); (19, true, 25, -1); (30, true, 36, -1); (52, true, 66, 0); (58, true, 66, 1)] /\
  maskcheck ex_tup_cfg 0 ex_tup_nodes 86
    = Some [(9, true, 15, -1); (20, true, 26, -1); (31, true, 37, -1); (53, true, 70, 0); (59, true, 70, 1)] /\
  maskcheck ex_tup_cfg 1 ex_tup_nodes 86
    = Some [(7, true, 16, -1); (18, true, 27, -1); (29, true, 38, -1); (51, true, 74, 0); (57, true, 74, 1)] /\
  (* observer 2's view: its own product share 50 but not 42, 46; the delivered tuples 66, 75 and
     their components; the output and its components; not the tuple 70 sent to party 0 *)
  map (mc_vd ex_tup_cfg 2 ex_tup_nodes) [42; 46; 50; 66; 70; 75; 77; 80; 86]
    = [false; false; true; true; false; true; true; true; true] /\
  map (fun ij => mc_cvd ex_tup_cfg 2 ex_tup_nodes (fst ij) (snd ij)) [(66, 0); (66, 1); (70, 0); (75, 0); (75, 1); (86, 0); (86, 1)]
    = [true; true; false; true; true; true; true] /\
  viewcover ex_tup_cfg 0 ex_tup_nodes && viewcover ex_tup_cfg 1 ex_tup_nodes && viewcover ex_tup_cfg 2 ex_tup_nodes = true.
Proof. vm_compute. repeat split. Qed.

(* "the planner forgot to reshare": the first component of the three share tuples is the bare
   product share (42, 46, 50) instead of product share + zero share (63, 67, 71); every party then
   receives a bare 3-out-of-3 product share inside a tuple.  Rejected for all three observers, and
   the refused location is exactly component 0 of the tuple the observer receives.  [ex_tup_one]:
   only party 1 forgets; the receiver, party 0, is refused. *)
Definition upd_deps (l : list node) (i : Z) (ds : list Z) : list node :=
  map (fun kn => if fst kn =? i then mkNode (n_op (snd kn)) ds (n_gdeps (snd kn)) (n_annots (snd kn)) (n_ty (snd kn))
                 else snd kn)
      (combine (zrange (Z.of_nat (length l))) l).
Definition ex_tup_noreshare : list node :=
  upd_deps (upd_deps (upd_deps ex_tup_nodes 65 [42; 64]) 69 [46; 68]) 73 [50; 72].
Definition ex_tup_one : list node := upd_deps ex_tup_nodes 69 [46; 68].
Example C03_maskcheck_tuple_rejects :
  map (fun p => maskcheck ex_tup_cfg p ex_tup_noreshare 86) [0; 1; 2] = [None; None; None] /\
  map (fun p => mc_rejected_locs ex_tup_cfg p ex_tup_noreshare 86) [0; 1; 2] = [[(70, 0)]; [(74, 0)]; [(66, 0)]] /\
  map (fun p => isSome (maskcheck ex_tup_cfg p ex_tup_one 86)) [0; 1; 2] = [false; true; true] /\
  mc_rejected_locs ex_tup_cfg 0 ex_tup_one 86 = [(70, 0)].
Proof. vm_compute. repeat split. Qed.

(* the theorem's bijection on the tuple example, over the ring Z, for observer 2 and two input
   vectors with the same c (party 2's own input) and the same product a * b (its output): every node
   of the observer's view, tuples included, has the same value with ((2, 6, 5), pi t) as with
   ((3, 4, 5), t) *)
Fixpoint rval_eqb (a b : rval Z) : bool :=
  match a, b with
  | RLeaf _ x, RLeaf _ y => x =? y
  | RKey _, RKey _ => true
  | RTup _ l, RTup _ l' =>
      (fix go (l l' : list (rval Z)) : bool :=
         match l, l' with
         | [], [] => true
         | u :: r, u' :: r' => rval_eqb u u' && go r r'
         | _, _ => false
         end) l l'
  | _, _ => false
  end.
Example C03_maskcheck_tuple_instance :
  let V := nval Z 0 Z.add Z.mul Z.sub (fun _ => 7) 1 in
  let M := [(8, true, 14, -1); (19, true, 25, -1); (30, true, 36, -1); (52, true, 66, 0); (58, true, 66, 1)] in
  let x := [RLeaf Z 3; RLeaf Z 4; RLeaf Z 5] in
  let x' := [RLeaf Z 2; RLeaf Z 6; RLeaf Z 5] in
  let ds := dlist Z 0 Z.add Z.mul Z.sub Z.opp (fun _ => 7) 1 ex_tup_nodes M in
  let pi := pi Z Z.add Z.opp Z Z.eqb (list (rval Z)) ds x x' in
  let t := fun cl => cl * cl * 3 + 11 in
  maskcheck ex_tup_cfg 2 ex_tup_nodes 86 = Some M /\
  V t x ex_tup_nodes 86 = RTup Z [RLeaf Z 12; RLeaf Z 5] /\ V (pi t) x' ex_tup_nodes 86 = RTup Z [RLeaf Z 12; RLeaf Z 5] /\
  forallb (fun i => negb (mc_vd ex_tup_cfg 2 ex_tup_nodes i) || rval_eqb (V (pi t) x' ex_tup_nodes i) (V t x ex_tup_nodes i))
          (zrange 87) = true /\
  (* the view contains tuples, and pi really moves the masks of the tuple's components *)
  (exists a b, V t x ex_tup_nodes 66 = RTup Z [RLeaf Z a; RLeaf Z b]) /\
  negb (pi t 52 =? t 52) && negb (pi t 8 =? t 8) = true.
Proof. vm_compute. repeat split. do 2 eexists. reflexivity. Qed.

Print Assumptions C03_mval_reval.
Print Assumptions C03_maskcheck_sound.

(* C03 — a party's view reveals nothing beyond its own inputs and outputs.

   With the pseudo-random masks idealised as independent uniform values (the property's own
   wording), equality of two view distributions is stated as the existence of a bijection of the
   tape space under which the views coincide.  Proved here, for every commutative ring of values
   (arrays of one shape over Z_2^w, every width and shape):
   - the general one-time-pad theorem for any list of deliveries in triangular form (each message
     is +-(a fresh mask cell) + a rest that looks at none of the remaining masks);
   - its instances on the protocol's gadgets: input sharing, resharing (hence product followed
     by resharing), reveal (simulatable from the output), oblivious transfer (receiver).
   The composition over whole compiled programs is NOT yet a theorem (C03_full): it is covered
   by exact enumeration of all mask values for small bit-typed compiled graphs in the harness.
   Not claimed: pseudo-randomness of AES. *)
From Coq Require Import Ring.
From CC Require Import Base.Prelude Model.Privacy Proofs.PrivacyProofs.

Theorem C03_onetimepad :
  forall (G : Type) (gadd : G -> G -> G) (gneg : G -> G) (gzero gone : G) (gmul gsubr : G -> G -> G),
  ring_theory gzero gone gadd gmul gsubr gneg eq ->
  forall (cell : Type) (cell_eqb : cell -> cell -> bool),
  (forall a b, cell_eqb a b = true <-> a = b) ->
  forall (X : Type) (ds : list (delivery G cell X)) (x x' : X),
  otp_ok G cell cell_eqb X ds ->
  (forall t, Forall (fun d => msg G gadd gneg cell X d x' (pi G gadd gneg cell cell_eqb X ds x x' t)
                              = msg G gadd gneg cell X d x t) ds) /\
  (forall t c, pi G gadd gneg cell cell_eqb X ds x' x (pi G gadd gneg cell cell_eqb X ds x x' t) c = t c) /\
  (forall t c, pi G gadd gneg cell cell_eqb X ds x x' (pi G gadd gneg cell cell_eqb X ds x' x t) c = t c) /\
  (forall t c, existsb (cell_eqb c) (map (d_mask G cell X) ds) = false ->
               pi G gadd gneg cell cell_eqb X ds x x' t c = t c).
Proof. intros. eapply otp_bijection; eauto. Qed.

Theorem C03_share_hides :
  forall (G : Type) (gadd : G -> G -> G) (gneg : G -> G) (gzero gone : G) (gmul gsubr : G -> G -> G),
  ring_theory gzero gone gadd gmul gsubr gneg eq ->
  forall o p x x', (p < 3)%nat ->
  let d := share_delivery G gadd gzero o p in
  (forall t, in_share G gadd gneg gzero o (nxt p) x' (pi G gadd gneg nat Nat.eqb G [d] x x' t)
             = in_share G gadd gneg gzero o (nxt p) x t) /\
  (forall t c, pi G gadd gneg nat Nat.eqb G [d] x' x (pi G gadd gneg nat Nat.eqb G [d] x x' t) c = t c) /\
  (forall t c, pi G gadd gneg nat Nat.eqb G [d] x x' (pi G gadd gneg nat Nat.eqb G [d] x' x t) c = t c) /\
  (forall t, pi G gadd gneg nat Nat.eqb G [d] x x' t p = t p /\
             pi G gadd gneg nat Nat.eqb G [d] x x' t (nxt p) = t (nxt p)).
Proof. intros. eapply share_hides; eauto. Qed.

Theorem C03_reshare_hides :
  forall (G : Type) (gadd : G -> G -> G) (gneg : G -> G) (gzero gone : G) (gmul gsubr : G -> G -> G),
  ring_theory gzero gone gadd gmul gsubr gneg eq ->
  forall (X : Type) (z : nat -> X -> tape G nat -> G),
  (forall i x, indep G nat Nat.eqb (z i x) [0; 1; 2]%nat) ->
  forall p x x', (p < 3)%nat ->
  let d := reshare_delivery G gadd X z p in
  (forall t, reshare_msg G gadd gneg X z (nxt p) x' (pi G gadd gneg nat Nat.eqb X [d] x x' t)
             = reshare_msg G gadd gneg X z (nxt p) x t) /\
  (forall t c, pi G gadd gneg nat Nat.eqb X [d] x' x (pi G gadd gneg nat Nat.eqb X [d] x x' t) c = t c) /\
  (forall t c, pi G gadd gneg nat Nat.eqb X [d] x x' (pi G gadd gneg nat Nat.eqb X [d] x' x t) c = t c) /\
  (forall t c, c <> nxt (nxt p) -> pi G gadd gneg nat Nat.eqb X [d] x x' t c = t c).
Proof. intros. eapply reshare_hides; eauto. Qed.

Theorem C03_reveal_simulatable :
  forall (G : Type) (gadd : G -> G -> G) (gneg : G -> G) (gzero gone : G) (gmul gsubr : G -> G -> G),
  ring_theory gzero gone gadd gmul gsubr gneg eq ->
  forall s0 s1 s2 out, gadd (gadd s0 s1) s2 = out ->
  s2 = gsub G gadd gneg (gsub G gadd gneg out s0) s1 /\
  s0 = gsub G gadd gneg (gsub G gadd gneg out s1) s2 /\
  s1 = gsub G gadd gneg (gsub G gadd gneg out s2) s0.
Proof. intros. eapply reveal_simulatable; eauto. Qed.

Theorem C03_ot_receiver_hides :
  forall (G : Type) (gadd : G -> G -> G) (gneg : G -> G) (gzero gone : G) (gmul gsubr : G -> G -> G),
  ring_theory gzero gone gadd gmul gsubr gneg eq ->
  forall b i0 i1 i0' i1',
  (b = true -> i1 = i1') -> (b = false -> i0 = i0') ->
  (forall t, ot_view G gadd b i0' i1' (ot_pi G gadd gneg b i0 i1 i0' i1' t) = ot_view G gadd b i0 i1 t) /\
  (forall t c, ot_pi G gadd gneg b i0' i1' i0 i1 (ot_pi G gadd gneg b i0 i1 i0' i1' t) c = t c).
Proof. intros. eapply ot_receiver_hides; eauto. Qed.

Definition C03_full : Prop :=
  (* for every compiled program and observer: a bijection of the whole tape space under which the
     observer's complete view coincides for any two input vectors with the same observer inputs
     and output *)
  forall (view : nat -> list Z -> (nat -> Z) -> list Z) p x x',
    exists pi : (nat -> Z) -> (nat -> Z), forall t, view p x' (pi t) = view p x t.

(* Non-vacuity over Z: the input-sharing delivery satisfies the one-time-pad condition and the
   re-randomised tape really reproduces the message for a different secret *)
Example C03_example :
  let d := share_delivery Z Z.add 0 1%nat 0%nat in
  let t := fun c => Z.of_nat c * 10 + 3 in
  msg Z Z.add Z.opp nat Z d 5 (pi Z Z.add Z.opp nat Nat.eqb Z [d] 42 5 t) = msg Z Z.add Z.opp nat Z d 42 t.
Proof. vm_compute. reflexivity. Qed.

Print Assumptions C03_onetimepad.
Print Assumptions C03_share_hides.
Print Assumptions C03_reshare_hides.
Print Assumptions C03_reveal_simulatable.
Print Assumptions C03_ot_receiver_hides.

(* C09 — type inference is sound for evaluation (placeholder; theorems follow) *)
From CC Require Import Base.Prelude Base.Scalar Base.Ty Base.Shape Graph.Value Graph.IR Graph.Eval Graph.Typing.

Theorem C09_infer_nop : forall t, ty_valid t = true -> infer ONOP [t] = Ok t.
Proof. intros t H. unfold infer, infer_op, register. cbn. now rewrite H. Qed.
Print Assumptions C09_infer_nop.

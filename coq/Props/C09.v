(* C09 — type inference is sound for evaluation; well-typed programs never crash.

   infer (Graph/Typing.v) mirrors TypeInferenceWorker::process_node and is tied to
   Graph::add_node on every run (accepted and rejected attempts); eval_node (Graph/Eval.v) mirrors
   SimpleEvaluator::evaluate_node (tied by C10).  The theorems relate the two models:
   a value computed for a node the type checker accepted has the inferred type, and the
   computation ends in a value or a runtime error, never in a panic.

   Proved per operation (preserves o), one lemma each, for every operation eval_node computes
   (C09_full); the operations whose value is supplied from outside (Input, Random, PRF, Call,
   Iterate, Join, Sort, ... see Eval.from_tape) have no evaluation model here and enter the graph
   theorem through the hypothesis that the supplied values have the declared types - hence the
   graph theorem keeps the name _partial.  Hypotheses: dependency values have the dependency
   types, which are node types (valid, u64 dimensions); u64 parameters of the operation are
   non-negative. *)
From CC Require Import Base.Prelude Base.Scalar Base.Ty Base.Shape Graph.Value Graph.IR Graph.Eval
  Graph.Typing Proofs.EvalProofs Proofs.TypingBase Proofs.TypingTuple Proofs.TypingArith
  Proofs.TypingBits Proofs.TypingReduce Proofs.TypingStruct Proofs.TypingStack Proofs.TypingPermute
  Proofs.TypingZip Proofs.TypingPermOps Proofs.TypingSegment Proofs.TypingReshape Proofs.TypingConcat
  Proofs.TypingSlice Proofs.TypingDot Proofs.TypingMatmul Proofs.TypingGemm Proofs.TypingProofs.

(* The full statement: for every operation the evaluator computes itself (everything except the
   values supplied from outside: Input, Random, PRF, ... see Eval.from_tape). *)
Definition C09_full : Prop :=
  forall o ts t vs,
    from_tape o = false -> op_u64 o = true ->
    infer o ts = Ok t ->
    Forall2 (fun v t => has_type v t = true /\ ty_ok t = true) vs ts ->
    match eval_node o ts t vs with
    | Ok v => has_type v t = true
    | Err => True
    | Panic | OutOfFuel => False
    end.

(* --- one theorem per group of operations ------------------------------------------------ *)
Definition C09_statement (o : op) : Prop :=
  forall ts t vs,
    op_u64 o = true ->
    infer o ts = Ok t ->
    Forall2 (fun v t => has_type v t = true /\ ty_ok t = true) vs ts ->
    match eval_node o ts t vs with
    | Ok v => has_type v t = true
    | Err => True
    | Panic | OutOfFuel => False
    end.

Theorem C09_preservation_constants :
  (forall t, C09_statement (OZeros t)) /\ (forall t, C09_statement (OOnes t)) /\
  (forall t v, C09_statement (OConstant t v)) /\ C09_statement ONOP.
Proof.
  repeat split; intros; first [apply preserves_zeros | apply preserves_ones
                              | apply preserves_constant | apply preserves_nop].
Qed.

Theorem C09_preservation_tuples :
  C09_statement OCreateTuple /\ (forall names, C09_statement (OCreateNamedTuple names)) /\
  (forall t, C09_statement (OCreateVector t)) /\ (forall i, C09_statement (OTupleGet i)) /\
  (forall name, C09_statement (ONamedTupleGet name)) /\ C09_statement OVectorGet /\
  (forall n, C09_statement (ORepeat n)).
Proof.
  repeat split; intros; first [apply preserves_create_tuple | apply preserves_create_named_tuple
    | apply preserves_create_vector | apply preserves_tuple_get | apply preserves_named_tuple_get
    | apply preserves_vector_get | apply preserves_repeat].
Qed.

(* broadcasting never reads outside its operand and produces prod(result shape) elements *)
Theorem C09_broadcast_to_shape_total : forall (P : Z -> Prop) arr shape shape_res,
  valid_shape shape -> valid_shape shape_res -> (length shape <= length shape_res)%nat ->
  Z.of_nat (length arr) = prod_list shape -> Forall P arr ->
  exists r, broadcast_to_shape arr shape shape_res = Ok r /\
            Z.of_nat (length r) = prod_list shape_res /\ Forall P r.
Proof. exact broadcast_to_shape_ok. Qed.

Theorem C09_preservation_elementwise :
  C09_statement OAdd /\ C09_statement OSubtract /\ C09_statement OMultiply /\
  C09_statement OMixedMultiply /\ (forall d, C09_statement (OTruncate d)).
Proof.
  repeat split; intros; first [apply preserves_add | apply preserves_subtract
    | apply preserves_multiply | apply preserves_mixed_multiply | apply preserves_truncate].
Qed.

Theorem C09_preservation_bits : C09_statement OA2B /\ (forall st, C09_statement (OB2A st)).
Proof. split; intros; first [apply preserves_a2b | apply preserves_b2a]. Qed.

Theorem C09_preservation_reductions :
  (forall axes, C09_statement (OSum axes)) /\ (forall axis, C09_statement (OCumSum axis)) /\
  C09_statement OSegmentCumSum.
Proof.
  repeat split; intros; first [apply preserves_sum | apply preserves_cum_sum | apply preserves_segment_cum_sum].
Qed.

Theorem C09_preservation_structural :
  (forall idx, C09_statement (OGet idx)) /\ (forall perm, C09_statement (OPermuteAxes perm)) /\
  (forall outer, C09_statement (OStack outer)) /\ C09_statement OArrayToVector /\
  C09_statement OVectorToArray /\ C09_statement OZip /\
  (forall msg, C09_statement (OPrint msg)) /\ (forall msg, C09_statement (OAssert msg)).
Proof.
  repeat split; intros; first [apply preserves_get | apply preserves_permute_axes | apply preserves_stack
    | apply preserves_array_to_vector | apply preserves_vector_to_array | apply preserves_zip
    | apply preserves_print | apply preserves_assert].
Qed.

Theorem C09_preservation_index_ops :
  (forall axis, C09_statement (OGather axis)) /\ C09_statement OInversePermutation /\
  (forall inv, C09_statement (OApplyPermutation inv)).
Proof.
  repeat split; intros; first [apply preserves_gather | apply preserves_inverse_permutation
    | apply preserves_apply_permutation].
Qed.

Theorem C09_preservation_slicing_reshaping :
  (forall sl, C09_statement (OGetSlice sl)) /\ (forall t, C09_statement (OReshape t)) /\
  (forall axis, C09_statement (OConcatenate axis)).
Proof.
  repeat split; intros; first [apply preserves_get_slice | apply preserves_reshape | apply preserves_concatenate].
Qed.

Theorem C09_preservation_linear_algebra :
  C09_statement ODot /\ C09_statement OMatmul /\ (forall ta tb, C09_statement (OGemm ta tb)).
Proof. repeat split; intros; first [apply preserves_dot | apply preserves_matmul | apply preserves_gemm]. Qed.

(* --- combined ---------------------------------------------------------------------------- *)
Theorem C09_preservation_partial : forall o, proved_op o = true -> C09_statement o.
Proof. exact preservation_partial. Qed.

(* the per-node statement for every operation the evaluator model computes *)
Theorem C09_preservation : C09_full.
Proof.
  intros o ts t vs Ht Hu Hi HF. apply (preservation_partial o (computed_ops_proved o Ht) ts t vs Hu Hi HF).
Qed.

(* Fully inlined graphs over ALL operations: if every computed node's type is the type inferred
   from its dependencies' types, node types are valid u64 types and the values supplied from
   outside (inputs - "every input matching the declared input types" - and the results of the
   operations not modelled by eval_node) have the declared node types, then every node value has
   its node type and evaluation returns values or a runtime error, never a panic.
   _partial: the typing of the supplied values is a hypothesis; Call/Iterate are not inlined here. *)
Theorem C09_eval_graph_typed_partial : forall tape nodes,
  graph_typed (fun o => negb (from_tape o)) tape nodes ->
  match eval_graph_nodes nodes tape with
  | Ok vals => Forall2 (fun v t => has_type v t = true) vals (map n_ty nodes)
  | Err => True
  | Panic | OutOfFuel => False
  end.
Proof.
  intros. apply (eval_graph_typed (fun o => negb (from_tape o))); [|assumption].
  intros o Ho. apply preservation_partial, computed_ops_proved. now apply negb_true_iff.
Qed.

(* --- non-vacuity ------------------------------------------------------------------------- *)
(* a broadcasting Add: [2;1;3] + [3] on I8, accepted with type [2;1;3] and evaluated to a value *)
Example C09_example_add :
  infer OAdd [TArray [2; 1; 3] I8; TArray [3] I8] = Ok (TArray [2; 1; 3] I8) /\
  eval_node OAdd [TArray [2; 1; 3] I8; TArray [3] I8] (TArray [2; 1; 3] I8)
            [VArr [250; 1; 2; 3; 4; 5]; VArr [10; 20; 30]] = Ok (VArr [4; 21; 32; 13; 24; 35]) /\
  has_type (VArr [4; 21; 32; 13; 24; 35]) (TArray [2; 1; 3] I8) = true.
Proof. repeat split; vm_compute; reflexivity. Qed.

(* Sum over axis 1 of a [2;3] array, PermuteAxes, Gather with an out-of-range index (runtime error) *)
Example C09_example_sum :
  infer (OSum [1]) [TArray [2; 3] U8] = Ok (TArray [2] U8) /\
  eval_node (OSum [1]) [TArray [2; 3] U8] (TArray [2] U8) [VArr [1; 2; 3; 100; 100; 100]] = Ok (VArr [6; 44]).
Proof. split; vm_compute; reflexivity. Qed.
Example C09_example_permute :
  infer (OPermuteAxes [1; 0]) [TArray [2; 3] Bit] = Ok (TArray [3; 2] Bit) /\
  eval_node (OPermuteAxes [1; 0]) [TArray [2; 3] Bit] (TArray [3; 2] Bit) [VArr [1; 0; 0; 1; 1; 0]]
  = Ok (VArr [1; 1; 0; 1; 0; 0]).
Proof. split; vm_compute; reflexivity. Qed.
Example C09_example_gather_runtime_error :
  infer (OGather 0) [TArray [3] I16; TArray [2] U64] = Ok (TArray [2] I16) /\
  eval_node (OGather 0) [TArray [3] I16; TArray [2] U64] (TArray [2] I16) [VArr [7; 8; 9]; VArr [2; 3]] = Err /\
  eval_node (OGather 0) [TArray [3] I16; TArray [2] U64] (TArray [2] I16) [VArr [7; 8; 9]; VArr [2; 0]] = Ok (VArr [9; 7]).
Proof. repeat split; vm_compute; reflexivity. Qed.

(* Matmul with a rank-1 operand and a broadcast batch dimension; Gemm with batch dimension 1 *)
Example C09_example_matmul :
  infer OMatmul [TArray [2; 1; 2] U8; TArray [2] U8] = Ok (TArray [2; 1] U8) /\
  eval_node OMatmul [TArray [2; 1; 2] U8; TArray [2] U8] (TArray [2; 1] U8)
            [VArr [1; 2; 3; 4]; VArr [10; 100]] = Ok (VArr [210; 174]).
Proof. split; vm_compute; reflexivity. Qed.
Example C09_example_gemm :
  infer (OGemm false true) [TArray [1; 2; 2] I8; TArray [2; 1; 2] I8] = Ok (TArray [2; 2; 1] I8) /\
  match eval_node (OGemm false true) [TArray [1; 2; 2] I8; TArray [2; 1; 2] I8] (TArray [2; 2; 1] I8)
                  [VArr [1; 2; 3; 4]; VArr [1; 1; 255; 0]] with
  | Ok v => has_type v (TArray [2; 2; 1] I8) = true | _ => False end.
Proof. split; vm_compute; reflexivity. Qed.
(* a negative-step slice *)
Example C09_example_get_slice :
  infer (OGetSlice [SSub None None (Some (-2))]) [TArray [5] U16] = Ok (TArray [3] U16) /\
  eval_node (OGetSlice [SSub None None (Some (-2))]) [TArray [5] U16] (TArray [3] U16) [VArr [0; 1; 2; 3; 4]]
  = Ok (VArr [4; 2; 0]).
Proof. split; vm_compute; reflexivity. Qed.

(* rejection at node-addition time *)
Example C09_example_reject :
  infer OAdd [TArray [2; 3] I8; TArray [2] I8] = Err /\
  infer OAdd [TArray [2; 3] I8; TArray [2; 3] U8] = Err /\
  infer (OTupleGet 2) [TTuple [TScalar Bit; TScalar U8]] = Err /\
  infer (OTruncate 0) [TScalar U8] = Err.
Proof. repeat split; vm_compute; reflexivity. Qed.

(* a typed graph: x : [2]u8 (input), c = Constant, s = x + c, t = (s, c), g = t.0 *)
Definition C09_example_nodes : list node :=
  [ mkNode (OInput (TArray [2] U8)) [] [] [] (TArray [2] U8);
    mkNode (OConstant (TScalar U8) (VArr [255])) [] [] [] (TScalar U8);
    mkNode OAdd [0; 1] [] [] (TArray [2] U8);
    mkNode OCreateTuple [2; 1] [] [] (TTuple [TArray [2] U8; TScalar U8]);
    mkNode (OTupleGet 0) [3] [] [] (TArray [2] U8) ].
Definition C09_example_tape := tape_of_list [(0, VArr [1; 7])].
Example C09_example_graph_typed :
  graph_typed (fun o => negb (from_tape o)) C09_example_tape C09_example_nodes.
Proof.
  unfold graph_typed, C09_example_nodes. cbn [graph_typed_from from_tape n_op n_ty n_deps].
  repeat split; try reflexivity.
  - intros v H. vm_compute in H. inversion H. reflexivity.
  - eexists. split; vm_compute; reflexivity.
  - eexists. split; vm_compute; reflexivity.
  - eexists. split; vm_compute; reflexivity.
  - eexists. split; vm_compute; reflexivity.
Qed.
Example C09_example_graph_eval :
  eval_graph_nodes C09_example_nodes C09_example_tape =
  Ok [VArr [1; 7]; VArr [255]; VArr [0; 6]; VTup [VArr [0; 6]; VArr [255]]; VArr [0; 6]].
Proof. vm_compute. reflexivity. Qed.

Print Assumptions C09_preservation_constants.
Print Assumptions C09_preservation_tuples.
Print Assumptions C09_broadcast_to_shape_total.
Print Assumptions C09_preservation_elementwise.
Print Assumptions C09_preservation_bits.
Print Assumptions C09_preservation_reductions.
Print Assumptions C09_preservation_structural.
Print Assumptions C09_preservation_index_ops.
Print Assumptions C09_preservation_slicing_reshaping.
Print Assumptions C09_preservation_linear_algebra.
Print Assumptions C09_preservation_partial.
Print Assumptions C09_preservation.
Print Assumptions C09_eval_graph_typed_partial.

(* C01 — compiled protocol computes the same function as the source graph.

   Proved here (unbounded): for EVERY program of the additive/bilinear fragment (Input, Constant,
   Add, Subtract, any bilinear operation, any share-wise lifted additive unary operation), every
   owner assignment, EVERY resharing plan and every value of the PRF masks, the compiled value of
   every node is either public and equal to the source value or a triple of shares adding up to it
   (shallow model of compile_to_mpc_graph and its gadgets over an abstract commutative ring).
   Per run (T:ring): for generated programs of the elementwise fragment the REAL output of
   compile_context and the source graph are read over an arbitrary commutative ring and their
   equality is proved by [ring] inside Coq: for all inputs and all PRF/Random values.
   Not a theorem (C01_full): the operations outside the fragment (A2B/B2A, private-bit
   MixedMultiply, Truncate (C05), Sort (C18), Join (C19)); these are covered by the end-to-end
   differential oracle of the harness.  Further down: the deep (graph-emitting) model of
   compile_to_mpc_graph with its literal tie and correctness theorems (names C01_deep_...), and the bridge
   from the ring reading to the evaluator model Graph/Eval.v (names C01_ring_reading_...). *)
From Coq Require Import Ring.
From CC Require Import Base.Prelude Model.MpcShallow Proofs.MpcShallowProofs Proofs.MpcShallowInst.

Theorem C01_compile_correct_partial :
  forall (V : Type) (v0 v1 : V) (vadd vmul vsub : V -> V -> V) (vopp : V -> V),
  ring_theory v0 v1 vadd vmul vsub vopp eq ->
  forall (bil : nat -> V -> V -> V) (lin : nat -> V -> V),
  (forall k a a' b, bil k (vadd a a') b = vadd (bil k a b) (bil k a' b)) ->
  (forall k a b b', bil k a (vadd b b') = vadd (bil k a b) (bil k a b')) ->
  (forall k a b, lin k (vadd a b) = vadd (lin k a) (lin k b)) ->
  forall nodes env cenv ins cins masks plan,
  Forall2 (fun c v => csum V vadd c = v) cenv env ->
  Forall2 (fun ci v => cinput_value V vadd ci = v) cins ins ->
  Forall2 (fun c v => csum V vadd c = v)
          (ceval V v0 vadd vsub bil lin nodes cenv cins masks plan)
          (seval V v0 vadd vsub bil lin nodes env ins).
Proof. exact ceval_sound. Qed.

(* the gadget facts the theorem rests on, for any PRF values *)
Theorem C01_zero_shares_sum_zero :
  forall (V : Type) (v0 v1 : V) (vadd vmul vsub : V -> V -> V) (vopp : V -> V),
  ring_theory v0 v1 vadd vmul vsub vopp eq ->
  forall m, let '(a0, a1, a2) := zero_shares V vsub m in vadd (vadd a0 a1) a2 = v0.
Proof. exact zero_shares_sum. Qed.

Theorem C01_private_product_sum :
  forall (V : Type) (v0 v1 : V) (vadd vmul vsub : V -> V -> V) (vopp : V -> V),
  ring_theory v0 v1 vadd vmul vsub vopp eq ->
  forall (bil : nat -> V -> V -> V),
  (forall k a a' b, bil k (vadd a a') b = vadd (bil k a b) (bil k a' b)) ->
  (forall k a b b', bil k a (vadd b b') = vadd (bil k a b) (bil k a b')) ->
  forall k a0 a1 a2 b0 b1 b2,
    vadd (vadd (vadd (bil k a0 (vadd b0 b1)) (bil k a1 b0))
               (vadd (bil k a1 (vadd b1 b2)) (bil k a2 b1)))
         (vadd (bil k a2 (vadd b2 b0)) (bil k a0 b2))
    = bil k (vadd (vadd a0 a1) a2) (vadd (vadd b0 b1) b2).
Proof. exact private_product_sum. Qed.

(* the hypotheses are satisfiable: the ring of integers *)
Theorem C01_compile_correct_Z : forall nodes env cenv ins cins masks plan,
  Forall2 (fun c v => csum Z Z.add c = v) cenv env ->
  Forall2 (fun ci v => cinput_value Z Z.add ci = v) cins ins ->
  Forall2 (fun c v => csum Z Z.add c = v)
          (ceval Z 0 Z.add Z.sub zbil zlin nodes cenv cins masks plan)
          (seval Z 0 Z.add Z.sub zbil zlin nodes env ins).
Proof. exact ceval_sound_Z. Qed.

Definition C01_full : Prop :=
  (* all MPC-compilable operations, deep compiler, all inline modes, both optimizer rounds *)
  forall (compile_and_eval source_eval : list Z -> Z) inputs, compile_and_eval inputs = source_eval inputs.

Print Assumptions C01_compile_correct_partial.
Print Assumptions C01_zero_shares_sum_zero.
Print Assumptions C01_private_product_sum.
Print Assumptions C01_compile_correct_Z.

(* ====================================================================================== *)
(* C01 deep: the graph-to-graph model of the compiler's per-graph step (Model/MpcCompile.v: *)
(* propagate_private_annotations, the resharing planner, compile_to_mpc_graph with apply_op, *)
(* the gadget nodes, reshare / get_zero_shares / recursively_sum_shares), tied LITERALLY to    *)
(* the code on every run (T:compile-literal, planner, T:compile-rejected).                     *)
(*                                                                                              *)
(* Semantics (Model/MpcCompileSem.v): the ring reading with PRF nodes and constants as atoms;   *)
(* the Custom nodes AddMPC / SubtractMPC / <bilinear>MPC are read by a specification           *)
(* [gadget_sem], and C01_deep_gadget_bodies proves that the gadget BODIES ([gadget_body], the    *)
(* mirror of instantiate, tied literally by T:gadget-literal) compute exactly this.  What is    *)
(* not modelled: the instantiation pass and the inliner that splice the bodies into the graph  *)
(* (C08 / C07), covered end to end by the T:ring obligations on compile_context's output.      *)
(* Share-wise lifted unary operations and Dot/Matmul/Gemm are abstract additive / bi-additive  *)
(* maps of the ring.                                                                            *)
(* ====================================================================================== *)
From CC Require Import Base.Scalar Base.Ty Base.Shape Graph.Value Graph.IR Graph.Eval Graph.Typing
  Model.RingEval Model.MpcCompile Model.MpcCompilePlan Model.MpcCompileSem
  Proofs.MpcCompileBase Proofs.MpcCompileStatic Proofs.MpcCompileProofs Proofs.MpcCompileGadgets.

(* Structure, for EVERY program of the mirrored fragment (all of mpc_mirrored), every privacy
   vector: dependencies of the compiled graph point backwards, the node map is total on the
   source nodes, lands inside the compiled graph and is strictly increasing, and every private
   source node is mapped to a node annotated Private. *)
Theorem C01_deep_structure : forall nodes output flags out oo omap,
  compile_graph_map nodes output flags = Ok (out, oo, omap) ->
  exists priv use_mul,
    propagate_private_annotations nodes flags = Ok (priv, use_mul) /\
    (forall k nd, znth out k = Ok nd -> Forall (fun d => 0 <= d < k) (n_deps nd)) /\
    zlen omap = zlen nodes /\
    (forall j k, znth omap j = Ok k -> 0 <= k < zlen out) /\
    (forall j j' a b, znth omap j = Ok a -> znth omap j' = Ok b -> j < j' -> a < b) /\
    (forall j k, znth omap j = Ok k -> mem j priv = true ->
                 exists cn, znth out k = Ok cn /\ In APrivate (n_annots cn)) /\
    znth omap output = Ok oo.
Proof. exact compile_graph_structure. Qed.

(* Correctness on the additive/bilinear fragment ([thm_frag]: Input, Constant, Zeros, Ones, Add,
   Subtract, the bilinear operations Multiply, Dot, Matmul, Gemm (abstract bi-additive maps [bil]
   except Multiply, the ring product), the share-wise lifted unary operations Sum, CumSum,
   PermuteAxes, Get, GetSlice, Reshape (abstract additive maps [lin]) and the n-ary ones Stack,
   Concatenate (abstract maps [nlin], additive on operand lists; here apply_op promotes public
   operands to (x, 0, 0) with emitted Zeros nodes), over arrays/scalars): for every such program, every is_input_private vector, EVERY resharing plan the
   compiler accepts (the proof never looks at the planner), every commutative ring, all inputs, all
   presentations of the private inputs as three shares, all PRF values ([atom]) and all keys:
   if the source graph evaluates, the compiled graph evaluates, and for every source node j the
   compiled node omap[j] holds the same value when j is public, and three shares adding up to it
   when j is private ([rel]). *)
Theorem C01_deep_compile_correct_partial :
  forall (R : Type) (r0 r1 : R) (radd rmul rsub : R -> R -> R) (ropp : R -> R),
  ring_theory r0 r1 radd rmul rsub ropp eq ->
  forall (atom : Z -> R) (catom : value -> R) (one : R) (lin : op -> R -> R) (bil : op -> R -> R -> R) (nlin : op -> list R -> R),
  (forall o a b, lin o (radd a b) = radd (lin o a) (lin o b)) ->
  (forall o a a' b, bil o (radd a a') b = radd (bil o a b) (bil o a' b)) ->
  (forall o a b b', bil o a (radd b b') = radd (bil o a b) (bil o a b')) ->
  (forall o l l', length l = length l' -> nlin o (vadd R radd l l') = radd (nlin o l) (nlin o l')) ->
  forall nodes output flags out oo omap priv use_mul,
  compile_graph_map nodes output flags = Ok (out, oo, omap) ->
  propagate_private_annotations nodes flags = Ok (priv, use_mul) ->
  thm_frag nodes = true ->
  forall ins_s ins_c env_s kv0 kv1 kv2,
  deval R r0 radd rmul rsub atom catom one lin bil nlin nodes ins_s = Some env_s ->
  inrel R radd flags ins_s ins_c ->
  exists env_c,
    deval R r0 radd rmul rsub atom catom one lin bil nlin out (keys_input R use_mul kv0 kv1 kv2 ++ ins_c) = Some env_c /\
    forall j vs, znth env_s j = Ok vs ->
      exists k vc, znth omap j = Ok k /\ znth env_c k = Ok vc /\ rel R radd (mem j priv) vs vc.
Proof. exact compile_graph_correct. Qed.

(* the same for EVERY resharing plan [resh] (any list of node ids the compiler does not reject): the
   compiled function does not depend on the planner; [compile_graph_map] is [compile_graph_plan] at
   the plan computed by get_nodes_to_reshare *)
Theorem C01_deep_compile_correct_any_plan_partial :
  forall (R : Type) (r0 r1 : R) (radd rmul rsub : R -> R -> R) (ropp : R -> R),
  ring_theory r0 r1 radd rmul rsub ropp eq ->
  forall (atom : Z -> R) (catom : value -> R) (one : R) (lin : op -> R -> R) (bil : op -> R -> R -> R) (nlin : op -> list R -> R),
  (forall o a b, lin o (radd a b) = radd (lin o a) (lin o b)) ->
  (forall o a a' b, bil o (radd a a') b = radd (bil o a b) (bil o a' b)) ->
  (forall o a b b', bil o a (radd b b') = radd (bil o a b) (bil o a b')) ->
  (forall o l l', length l = length l' -> nlin o (vadd R radd l l') = radd (nlin o l) (nlin o l')) ->
  forall resh nodes output flags out oo omap priv use_mul,
  compile_graph_plan resh nodes output flags = Ok (out, oo, omap) ->
  propagate_private_annotations nodes flags = Ok (priv, use_mul) ->
  thm_frag nodes = true ->
  forall ins_s ins_c env_s kv0 kv1 kv2,
  deval R r0 radd rmul rsub atom catom one lin bil nlin nodes ins_s = Some env_s ->
  inrel R radd flags ins_s ins_c ->
  exists env_c,
    deval R r0 radd rmul rsub atom catom one lin bil nlin out (keys_input R use_mul kv0 kv1 kv2 ++ ins_c) = Some env_c /\
    forall j vs, znth env_s j = Ok vs ->
      exists k vc, znth omap j = Ok k /\ znth env_c k = Ok vc /\ rel R radd (mem j priv) vs vc.
Proof. exact compile_graph_plan_correct. Qed.

(* the statement about the output node: equal if public, three shares adding up to it if private *)
Theorem C01_deep_output_correct_partial :
  forall (R : Type) (r0 r1 : R) (radd rmul rsub : R -> R -> R) (ropp : R -> R),
  ring_theory r0 r1 radd rmul rsub ropp eq ->
  forall (atom : Z -> R) (catom : value -> R) (one : R) (lin : op -> R -> R) (bil : op -> R -> R -> R) (nlin : op -> list R -> R),
  (forall o a b, lin o (radd a b) = radd (lin o a) (lin o b)) ->
  (forall o a a' b, bil o (radd a a') b = radd (bil o a b) (bil o a' b)) ->
  (forall o a b b', bil o a (radd b b') = radd (bil o a b) (bil o a b')) ->
  (forall o l l', length l = length l' -> nlin o (vadd R radd l l') = radd (nlin o l) (nlin o l')) ->
  forall nodes output flags out oo priv use_mul,
  compile_graph nodes output flags = Ok (out, oo) ->
  propagate_private_annotations nodes flags = Ok (priv, use_mul) ->
  thm_frag nodes = true ->
  forall ins_s ins_c env_s v kv0 kv1 kv2,
  deval R r0 radd rmul rsub atom catom one lin bil nlin nodes ins_s = Some env_s ->
  znth env_s output = Ok (RLeaf R v) ->
  inrel R radd flags ins_s ins_c ->
  exists env_c vc,
    deval R r0 radd rmul rsub atom catom one lin bil nlin out (keys_input R use_mul kv0 kv1 kv2 ++ ins_c) = Some env_c /\
    znth env_c oo = Ok vc /\
    (if mem output priv then reveal3 R radd vc = Some v else vc = RLeaf R v).
Proof.
  intros R r0 r1 radd rmul rsub ropp Rth atom catom one lin bil nlin Hlin Hbl Hbr Hnl nodes output flags out oo priv um H Hp Hf
         ins_s ins_c env_s v kv0 kv1 kv2 Hs Hv Hin.
  unfold compile_graph in H. destruct (compile_graph_map nodes output flags) as [[[o1 oo1] omap]| | |] eqn:Hm; try discriminate.
  cbn in H. inversion H; subst o1 oo1.
  destruct (compile_graph_structure _ _ _ _ _ _ Hm) as (p' & u' & Hp' & _ & _ & _ & _ & _ & Hoo).
  destruct (compile_graph_correct R r0 r1 radd rmul rsub ropp Rth atom catom one lin bil nlin Hlin Hbl Hbr Hnl _ _ _ _ _ _ _ _ Hm Hp Hf
              _ _ _ kv0 kv1 kv2 Hs Hin) as (env_c & Hev & Hall).
  destruct (Hall _ _ Hv) as (k & vc & Hk & Hvc & Hrel). rewrite Hoo in Hk. inversion Hk; subst k.
  exists env_c, vc. split; [exact Hev|]. split; [exact Hvc|].
  destruct (mem output priv).
  - destruct Hrel as (x & a & b & c & Hx & -> & Hsum). inversion Hx; subst. reflexivity.
  - exact Hrel.
Qed.

(* The gadget specifications are what the gadget bodies compute: for AddMPC, SubtractMPC,
   MultiplyMPC, DotMPC, MatmulMPC, GemmMPC and every pair of argument types, the graph built by
   [gadget_body] (mirror of CustomOperationBody::instantiate, tied literally by T:gadget-literal),
   evaluated by the same ring reading on argument values of the right shape, returns
   [gadget_sem] of these values.  So the Custom-node reading used by
   C01_deep_compile_correct_partial is not an assumption about the gadgets. *)
Theorem C01_deep_gadget_bodies :
  forall (R : Type) (r0 : R) (radd rmul rsub : R -> R -> R) (atom : Z -> R) (catom : value -> R) (one : R)
         (lin : op -> R -> R) (bil : op -> R -> R -> R) (nlin : op -> list R -> R) g t0 t1 body oid va vb,
  elem_gadget g = true ->
  gadget_body g [t0; t1] = Ok (body, oid) ->
  shape_ok R t0 va -> shape_ok R t1 vb ->
  exists env v,
    deval R r0 radd rmul rsub atom catom one lin bil nlin body [va; vb] = Some env /\
    znth env oid = Ok v /\
    gadget_sem R r0 radd rmul rsub bil g [va; vb] = Some v.
Proof. exact gadget_body_sem. Qed.

(* the full statement (not proved): every operation the compiler accepts, values of every type
   (tuples, vectors, named tuples), the gadget specifications replaced by the evaluation of
   their instantiated graphs, and Graph/Eval.v instead of the ring reading *)
Definition C01_deep_full : Prop :=
  forall nodes output flags out oo,
    compile_graph nodes output flags = Ok (out, oo) ->
    forall (eval_source eval_compiled : list value -> option value) (reconstruct : value -> value) inputs,
      eval_compiled inputs = option_map reconstruct (eval_source inputs).

(* ---- non-vacuity: (x * y + z).sum() with x, y private and z public ---- *)
Definition ex_t : ty := TArray [2] U32.
Definition ex_src : list node :=
  [ mkNode (OInput ex_t) [] [] [] ex_t; mkNode (OInput ex_t) [] [] [] ex_t; mkNode (OInput ex_t) [] [] [] ex_t;
    mkNode OMultiply [0; 1] [] [] ex_t; mkNode OAdd [3; 2] [] [] ex_t; mkNode (OSum [0]) [4] [] [] (TScalar U32) ].
Definition ex_flags : list bool := [true; true; false].

(* the model compiles it: 1 key input + 3 inputs + MultiplyMPC + AddMPC + 3x(TupleGet, Sum) + CreateTuple
   + the 19 nodes of reshare = 32 nodes; the product is not reshared, the output is *)
Example C01_deep_example_compiles :
  thm_frag ex_src = true /\ mpc_mirrored ex_src = true /\
  private_and_reshared ex_src 5 ex_flags = Ok ([0; 1; 3; 4; 5], [5]) /\
  match compile_graph ex_src 5 ex_flags with
  | Ok (out, oo) => zlen out = 32 /\ oo = 31 /\
                    map n_op (firstn 6 out) = [OInput keys_type; OInput (TTuple [ex_t; ex_t; ex_t]); OInput (TTuple [ex_t; ex_t; ex_t]);
                                               OInput ex_t; OCustom "MultiplyMPC"; OCustom "AddMPC"]
  | _ => False
  end.
Proof. vm_compute. repeat split; reflexivity. Qed.

(* and both graphs evaluate over the ring of integers: x = 1+2+3, y = 10+20+30, z = 5, with
   arbitrary PRF values 7*i; the three output shares add up to x*y+z = 365 *)
Definition ex_atom (i : Z) : Z := 7 * i.
Definition ex_lin (o : op) (x : Z) : Z := x.
Example C01_deep_example_evaluates :
  match compile_graph ex_src 5 ex_flags with
  | Ok (out, oo) =>
      match deval Z 0 Z.add Z.mul Z.sub ex_atom (fun _ => 0) 1 ex_lin (fun _ _ _ => 0) (fun _ _ => 0) out
                  [RTup Z [RKey Z; RKey Z; RKey Z]; T3 Z 1 2 3; T3 Z 10 20 30; RLeaf Z 5] with
      | Some env => match znth env oo with Ok vc => reveal3 Z Z.add vc | _ => None end
      | None => None
      end
  | _ => None
  end = Some 365
  /\ deval Z 0 Z.add Z.mul Z.sub ex_atom (fun _ => 0) 1 ex_lin (fun _ _ _ => 0) (fun _ _ => 0) ex_src
           [RLeaf Z 6; RLeaf Z 60; RLeaf Z 5]
     = Some [RLeaf Z 6; RLeaf Z 60; RLeaf Z 5; RLeaf Z 360; RLeaf Z 365; RLeaf Z 365].
Proof. vm_compute. split; reflexivity. Qed.

(* the hypotheses of the correctness theorem are satisfiable by this instance *)
Example C01_deep_example_applies :
  exists env_c vc out oo,
    compile_graph ex_src 5 ex_flags = Ok (out, oo) /\
    deval Z 0 Z.add Z.mul Z.sub ex_atom (fun _ => 0) 1 ex_lin (fun _ _ _ => 0) (fun _ _ => 0) out
          (keys_input Z true (RKey Z) (RKey Z) (RKey Z) ++ [T3 Z 1 2 3; T3 Z 10 20 30; RLeaf Z 5]) = Some env_c /\
    znth env_c oo = Ok vc /\ reveal3 Z Z.add vc = Some 365.
Proof.
  destruct (compile_graph ex_src 5 ex_flags) as [[out oo]| | |] eqn:Hc; try (vm_compute in Hc; discriminate).
  destruct (C01_deep_output_correct_partial Z 0 1 Z.add Z.mul Z.sub Z.opp InitialRing.Zth ex_atom (fun _ => 0) 1 ex_lin (fun _ _ _ => 0) (fun _ _ => 0)
              (fun _ _ _ => eq_refl) (fun _ _ _ _ => eq_refl) (fun _ _ _ _ => eq_refl) (fun _ _ _ _ => eq_refl) ex_src 5 ex_flags out oo [5; 4; 3; 1; 0] true Hc)
    with (ins_s := [RLeaf Z 6; RLeaf Z 60; RLeaf Z 5]) (ins_c := [T3 Z 1 2 3; T3 Z 10 20 30; RLeaf Z 5])
         (env_s := [RLeaf Z 6; RLeaf Z 60; RLeaf Z 5; RLeaf Z 360; RLeaf Z 365; RLeaf Z 365]) (v := 365)
         (kv0 := RKey Z) (kv1 := RKey Z) (kv2 := RKey Z)
    as (env_c & vc & Hev & Hvc & Hrv).
  - vm_compute. reflexivity.
  - reflexivity.
  - vm_compute. reflexivity.
  - reflexivity.
  - change (RLeaf Z 6) with (RLeaf Z (1 + 2 + 3)). change (RLeaf Z 60) with (RLeaf Z (10 + 20 + 30)).
    apply inrel_priv; [reflexivity|]. apply inrel_priv; [reflexivity|]. apply inrel_pub. apply inrel_nil.
  - exists env_c, vc, out, oo. change (mem 5 [5; 4; 3; 1; 0]) with true in Hrv. auto.
Qed.

Print Assumptions C01_deep_structure.
Print Assumptions C01_deep_compile_correct_partial.
Print Assumptions C01_deep_output_correct_partial.
Print Assumptions C01_deep_compile_correct_any_plan_partial.
Print Assumptions C01_deep_gadget_bodies.

(* ====================================================================================== *)
(* C01 bridge: the ring reading is the evaluator model.                                       *)
(*                                                                                              *)
(* [reval] (Model/RingEval.v) is the little interpreter in which the per-run T:ring            *)
(* obligations, the deep-model theorems above and the maskcheck theorem of C03 read a graph.   *)
(* Its instance [reval_Z w n] at arrays of n elements modulo 2^w (Model/RingEvalInst.v) was    *)
(* tied to the code only by the `ring-reading` correspondence cases.  The theorems below link  *)
(* it to Graph/Eval.v: on EVERY node list of the elementwise fragment ([wf_ring_graph T],      *)
(* Model/RingEvalWf.v, a boolean the harness evaluates on every exported compiled graph:       *)
(* T:wf-ring-graph) and EVERY tape whose Input / Random / PRF entries have the recorded shape  *)
(* ([wf_ring_tape T], also a boolean), the evaluator model succeeds, the reading is defined,   *)
(* and every node value of the reading matches the evaluator's ([rv_matches]: equal element    *)
(* lists for arrays, component-wise for tuples, PRF keys opaque).                              *)
(*                                                                                              *)
(* The fragment ([node_ok]): one common leaf type T (array or scalar, all dimensions positive) *)
(* with w = width of its scalar type (1 for bits: xor/and are + and * modulo 2), n = number of *)
(* elements.  Zeros / Ones / Constant of type T (constants with n elements); Add / Subtract /  *)
(* Multiply of two earlier nodes of type T; NOP; CreateTuple; TupleGet (index in range of a    *)
(* tuple-typed earlier node); Random of any non-tuple type other than T (the keys); PRF of     *)
(* type T on an earlier node; Input of any type.  Recorded types must be consistent            *)
(* (CreateTuple: the tuple of the dependency types, TupleGet: the component, NOP: the same)    *)
(* and dependencies must point backwards.  Elements need NOT be normalised: both sides reduce  *)
(* modulo 2^w after every operation and copy everything else.                                  *)
(* ====================================================================================== *)
From CC Require Import Model.RingEvalInst Model.RingEvalWf.
From CC Require Proofs.RingEvalBridge.

(* both sides are defined, and agree node for node (the reading's inputs are the tape's Input entries) *)
Theorem C01_ring_reading_total :
  forall (T : ty) (tape : Z -> option value) (nodes : list node),
  wf_ring_graph T nodes = true -> wf_ring_tape T nodes tape = true ->
  exists vals env,
    eval_graph_nodes nodes tape = Ok vals /\
    reval_Z (ring_w T) (ring_n T) tape nodes [] (map in_of_value (tape_inputs nodes tape)) = Some env /\
    Forall2 (fun rv v => rv_matches rv v = true) env vals.
Proof. exact RingEvalBridge.ring_reading_total. Qed.

(* in the form computed by the `ring-reading` tie: no node of the reading differs from the evaluator's value *)
Theorem C01_ring_reading_agrees_with_eval :
  forall (T : ty) (tape : Z -> option value) (nodes : list node) (vals : list value),
  wf_ring_graph T nodes = true -> wf_ring_tape T nodes tape = true ->
  eval_graph_nodes nodes tape = Ok vals ->
  reading_mismatch (ring_w T) (ring_n T) tape nodes (tape_inputs nodes tape) vals = -1.
Proof. exact RingEvalBridge.ring_reading_agrees. Qed.

(* the same with the width, the element count and the input list given separately, as the
   `ring-reading` cases print them *)
Theorem C01_ring_reading_agrees_with_eval_wn :
  forall (w : Z) (n : nat) (T : ty) (tape : Z -> option value) (nodes : list node) (ins vals : list value),
  w = width (st_of T) -> Z.of_nat n = prod_list (dims T) -> ins = tape_inputs nodes tape ->
  wf_ring_graph T nodes = true -> wf_ring_tape T nodes tape = true ->
  eval_graph_nodes nodes tape = Ok vals ->
  reading_mismatch w n tape nodes ins vals = -1.
Proof.
  intros w n T tape nodes ins vals -> Hn -> Hg Ht He.
  replace n with (ring_n T) by (unfold ring_n; lia).
  now apply RingEvalBridge.ring_reading_agrees.
Qed.

(* conversely: whenever the side conditions hold the evaluator model cannot fail (no Err, no Panic) *)
Theorem C01_ring_fragment_evaluates :
  forall (T : ty) (tape : Z -> option value) (nodes : list node),
  wf_ring_graph T nodes = true -> wf_ring_tape T nodes tape = true ->
  exists vals, eval_graph_nodes nodes tape = Ok vals.
Proof.
  intros T tape nodes Hg Ht. destruct (RingEvalBridge.ring_reading_total T tape nodes Hg Ht) as (vals & _ & E & _).
  eauto.
Qed.

(* ---- non-vacuity 1: an exported compiled graph (ring-reading case of a quick run, seed 1: source
   (x - c) * y over u64[3] with x owned by party 1 and y public, revealed to party 2; 24 nodes:
   three PRF keys and their sends, the input sharing of x by a zero sharing from three PRF outputs,
   the share-wise products with the public operand, the reveal), with the tape (keys, inputs, PRF
   outputs) and the node values the REAL evaluator produced ---- *)
Definition bx_T : ty := TArray [3] U64.
Definition bx_nodes : list node :=
  [ mkNode (ORandom (TArray [128] Bit)) [] [] [] (TArray [128] Bit);
    mkNode ONOP [0] [] [(ASend 0 2)] (TArray [128] Bit);
    mkNode (ORandom (TArray [128] Bit)) [] [] [] (TArray [128] Bit);
    mkNode ONOP [2] [] [(ASend 1 0)] (TArray [128] Bit);
    mkNode (ORandom (TArray [128] Bit)) [] [] [] (TArray [128] Bit);
    mkNode ONOP [4] [] [(ASend 2 1)] (TArray [128] Bit);
    mkNode (OInput (TArray [3] U64)) [] [] [] (TArray [3] U64);
    mkNode (OPRF 1 (TArray [3] U64)) [1] [] [] (TArray [3] U64);
    mkNode (OPRF 2 (TArray [3] U64)) [3] [] [] (TArray [3] U64);
    mkNode (OPRF 3 (TArray [3] U64)) [5] [] [] (TArray [3] U64);
    mkNode OSubtract [7; 8] [] [] (TArray [3] U64);
    mkNode OSubtract [8; 9] [] [] (TArray [3] U64);
    mkNode OSubtract [9; 7] [] [] (TArray [3] U64);
    mkNode OAdd [11; 6] [] [] (TArray [3] U64);
    mkNode ONOP [10] [] [(ASend 0 2)] (TArray [3] U64);
    mkNode ONOP [13] [] [(ASend 1 0)] (TArray [3] U64);
    mkNode ONOP [12] [] [(ASend 2 1)] (TArray [3] U64);
    mkNode (OInput (TArray [3] U64)) [] [] [] (TArray [3] U64);
    mkNode OMultiply [17; 14] [] [] (TArray [3] U64);
    mkNode OMultiply [17; 15] [] [] (TArray [3] U64);
    mkNode OMultiply [17; 16] [] [] (TArray [3] U64);
    mkNode ONOP [19] [] [(ASend 1 2)] (TArray [3] U64);
    mkNode OAdd [18; 21] [] [] (TArray [3] U64);
    mkNode OAdd [22; 20] [] [] (TArray [3] U64) ].
Definition bx_tape : Z -> option value :=
    tape_of_list [(0, (VArr [0; 0; 1; 1; 1; 0; 0; 1; 1; 1; 0; 0; 0; 1; 1; 0; 1; 0; 1; 0; 1; 1; 1; 0; 0; 0; 1;
    0; 0; 1; 1; 0; 1; 1; 1; 0; 1; 0; 1; 0; 1; 0; 0; 0; 0; 1; 1; 1; 0; 0; 1; 1; 0; 1; 0; 0; 0; 1; 0; 1; 0; 1; 0;
    1; 1; 1; 0; 0; 1; 0; 0; 1; 0; 0; 1; 1; 1; 1; 0; 1; 0; 1; 0; 0; 1; 1; 1; 1; 0; 1; 1; 1; 0; 1; 0; 0; 0; 0; 0;
    0; 1; 0; 1; 0; 0; 1; 1; 0; 0; 0; 0; 1; 0; 1; 1; 1; 0; 0; 0; 1; 0; 1; 0; 1; 0; 1; 1; 0])); (2, (VArr [0; 1;
    0; 1; 1; 1; 1; 1; 1; 1; 0; 1; 1; 1; 0; 0; 0; 1; 1; 0; 1; 1; 1; 0; 1; 0; 0; 1; 1; 0; 0; 1; 0; 1; 0; 1; 1; 1;
    0; 0; 1; 1; 1; 0; 1; 0; 0; 1; 0; 0; 1; 0; 0; 0; 0; 1; 1; 0; 1; 0; 0; 0; 0; 0; 0; 1; 0; 0; 1; 0; 1; 1; 1; 0;
    0; 0; 0; 1; 0; 0; 0; 1; 0; 0; 1; 0; 1; 1; 1; 0; 0; 1; 0; 0; 1; 0; 0; 1; 0; 1; 1; 1; 0; 1; 1; 1; 1; 1; 1; 1;
    0; 1; 0; 1; 1; 0; 1; 0; 0; 0; 0; 1; 0; 1; 0; 0; 0; 1])); (4, (VArr [0; 1; 1; 1; 1; 1; 0; 0; 0; 0; 1; 0; 0;
    0; 0; 1; 1; 1; 0; 1; 0; 1; 1; 1; 1; 1; 0; 0; 1; 1; 0; 1; 1; 1; 0; 0; 0; 0; 1; 0; 1; 1; 0; 1; 0; 1; 0; 1; 1;
    0; 0; 0; 1; 0; 1; 1; 1; 0; 1; 1; 0; 1; 0; 1; 0; 1; 0; 0; 0; 1; 1; 0; 0; 1; 1; 0; 1; 0; 1; 1; 1; 1; 1; 0; 0;
    1; 0; 1; 1; 1; 0; 1; 0; 0; 1; 0; 1; 1; 0; 1; 0; 1; 1; 1; 1; 1; 0; 1; 1; 1; 0; 1; 1; 1; 1; 0; 1; 1; 1; 0; 0;
    0; 1; 0; 0; 0; 0; 0])); (6, (VArr [3428867244332439221; 1; 18446744073709551615])); (7, (VArr
    [4535101808109251321; 7164641082508230782; 6233012399756779005])); (8, (VArr [17818495607694349361;
    13780539050412078618; 17118402848845066413])); (9, (VArr [14408031351685031158; 12035667409487603255;
    10480464471466987386])); (17, (VArr [9223372036854775808; 1; 18446744072585488029]))].
Definition bx_vals : list value :=
    [(VArr [0; 0; 1; 1; 1; 0; 0; 1; 1; 1; 0; 0; 0; 1; 1; 0; 1; 0; 1; 0; 1; 1; 1; 0; 0; 0; 1; 0; 0; 1; 1; 0; 1;
    1; 1; 0; 1; 0; 1; 0; 1; 0; 0; 0; 0; 1; 1; 1; 0; 0; 1; 1; 0; 1; 0; 0; 0; 1; 0; 1; 0; 1; 0; 1; 1; 1; 0; 0; 1;
    0; 0; 1; 0; 0; 1; 1; 1; 1; 0; 1; 0; 1; 0; 0; 1; 1; 1; 1; 0; 1; 1; 1; 0; 1; 0; 0; 0; 0; 0; 0; 1; 0; 1; 0; 0;
    1; 1; 0; 0; 0; 0; 1; 0; 1; 1; 1; 0; 0; 0; 1; 0; 1; 0; 1; 0; 1; 1; 0]); (VArr [0; 0; 1; 1; 1; 0; 0; 1; 1; 1;
    0; 0; 0; 1; 1; 0; 1; 0; 1; 0; 1; 1; 1; 0; 0; 0; 1; 0; 0; 1; 1; 0; 1; 1; 1; 0; 1; 0; 1; 0; 1; 0; 0; 0; 0; 1;
    1; 1; 0; 0; 1; 1; 0; 1; 0; 0; 0; 1; 0; 1; 0; 1; 0; 1; 1; 1; 0; 0; 1; 0; 0; 1; 0; 0; 1; 1; 1; 1; 0; 1; 0; 1;
    0; 0; 1; 1; 1; 1; 0; 1; 1; 1; 0; 1; 0; 0; 0; 0; 0; 0; 1; 0; 1; 0; 0; 1; 1; 0; 0; 0; 0; 1; 0; 1; 1; 1; 0; 0;
    0; 1; 0; 1; 0; 1; 0; 1; 1; 0]); (VArr [0; 1; 0; 1; 1; 1; 1; 1; 1; 1; 0; 1; 1; 1; 0; 0; 0; 1; 1; 0; 1; 1; 1;
    0; 1; 0; 0; 1; 1; 0; 0; 1; 0; 1; 0; 1; 1; 1; 0; 0; 1; 1; 1; 0; 1; 0; 0; 1; 0; 0; 1; 0; 0; 0; 0; 1; 1; 0; 1;
    0; 0; 0; 0; 0; 0; 1; 0; 0; 1; 0; 1; 1; 1; 0; 0; 0; 0; 1; 0; 0; 0; 1; 0; 0; 1; 0; 1; 1; 1; 0; 0; 1; 0; 0; 1;
    0; 0; 1; 0; 1; 1; 1; 0; 1; 1; 1; 1; 1; 1; 1; 0; 1; 0; 1; 1; 0; 1; 0; 0; 0; 0; 1; 0; 1; 0; 0; 0; 1]); (VArr
    [0; 1; 0; 1; 1; 1; 1; 1; 1; 1; 0; 1; 1; 1; 0; 0; 0; 1; 1; 0; 1; 1; 1; 0; 1; 0; 0; 1; 1; 0; 0; 1; 0; 1; 0;
    1; 1; 1; 0; 0; 1; 1; 1; 0; 1; 0; 0; 1; 0; 0; 1; 0; 0; 0; 0; 1; 1; 0; 1; 0; 0; 0; 0; 0; 0; 1; 0; 0; 1; 0; 1;
    1; 1; 0; 0; 0; 0; 1; 0; 0; 0; 1; 0; 0; 1; 0; 1; 1; 1; 0; 0; 1; 0; 0; 1; 0; 0; 1; 0; 1; 1; 1; 0; 1; 1; 1; 1;
    1; 1; 1; 0; 1; 0; 1; 1; 0; 1; 0; 0; 0; 0; 1; 0; 1; 0; 0; 0; 1]); (VArr [0; 1; 1; 1; 1; 1; 0; 0; 0; 0; 1; 0;
    0; 0; 0; 1; 1; 1; 0; 1; 0; 1; 1; 1; 1; 1; 0; 0; 1; 1; 0; 1; 1; 1; 0; 0; 0; 0; 1; 0; 1; 1; 0; 1; 0; 1; 0; 1;
    1; 0; 0; 0; 1; 0; 1; 1; 1; 0; 1; 1; 0; 1; 0; 1; 0; 1; 0; 0; 0; 1; 1; 0; 0; 1; 1; 0; 1; 0; 1; 1; 1; 1; 1; 0;
    0; 1; 0; 1; 1; 1; 0; 1; 0; 0; 1; 0; 1; 1; 0; 1; 0; 1; 1; 1; 1; 1; 0; 1; 1; 1; 0; 1; 1; 1; 1; 0; 1; 1; 1; 0;
    0; 0; 1; 0; 0; 0; 0; 0]); (VArr [0; 1; 1; 1; 1; 1; 0; 0; 0; 0; 1; 0; 0; 0; 0; 1; 1; 1; 0; 1; 0; 1; 1; 1; 1;
    1; 0; 0; 1; 1; 0; 1; 1; 1; 0; 0; 0; 0; 1; 0; 1; 1; 0; 1; 0; 1; 0; 1; 1; 0; 0; 0; 1; 0; 1; 1; 1; 0; 1; 1; 0;
    1; 0; 1; 0; 1; 0; 0; 0; 1; 1; 0; 0; 1; 1; 0; 1; 0; 1; 1; 1; 1; 1; 0; 0; 1; 0; 1; 1; 1; 0; 1; 0; 0; 1; 0; 1;
    1; 0; 1; 0; 1; 1; 1; 1; 1; 0; 1; 1; 1; 0; 1; 1; 1; 1; 0; 1; 1; 1; 0; 0; 0; 1; 0; 0; 0; 0; 0]); (VArr
    [3428867244332439221; 1; 18446744073709551615]); (VArr [4535101808109251321; 7164641082508230782;
    6233012399756779005]); (VArr [17818495607694349361; 13780539050412078618; 17118402848845066413]); (VArr
    [14408031351685031158; 12035667409487603255; 10480464471466987386]); (VArr [5163350274124453576;
    11830846105805703780; 7561353624621264208]); (VArr [3410464256009318203; 1744871640924475363;
    6637938377378079027]); (VArr [9872929543575779837; 4871026326979372473; 4247452071710208381]); (VArr
    [6839331500341757424; 1744871640924475364; 6637938377378079026]); (VArr [5163350274124453576;
    11830846105805703780; 7561353624621264208]); (VArr [6839331500341757424; 1744871640924475364;
    6637938377378079026]); (VArr [9872929543575779837; 4871026326979372473; 4247452071710208381]); (VArr
    [9223372036854775808; 1; 18446744072585488029]); (VArr [0; 11830846105805703780; 16068225552301500944]);
    (VArr [0; 1744871640924475364; 8521314897937123242]); (VArr [9223372036854775808; 4871026326979372473;
    12303947698304542633]); (VArr [0; 1744871640924475364; 8521314897937123242]); (VArr [0;
    13575717746730179144; 6142796376529072570]); (VArr [9223372036854775808; 1; 1124063587])].

(* sanity: the evaluator model reproduces the real node values, the side conditions hold, the
   reading is defined and has no mismatch (all computed) *)
Example C01_bridge_example_computes :
  eval_graph_nodes bx_nodes bx_tape = Ok bx_vals /\
  wf_ring_graph bx_T bx_nodes = true /\ wf_ring_tape bx_T bx_nodes bx_tape = true /\
  ring_w bx_T = 64 /\ ring_n bx_T = 3%nat /\
  length (tape_inputs bx_nodes bx_tape) = 2%nat /\
  reading_mismatch 64 3 bx_tape bx_nodes (tape_inputs bx_nodes bx_tape) bx_vals = -1.
Proof. vm_compute. repeat split; reflexivity. Qed.

(* the theorem applies to it (hypotheses satisfiable), and its conclusion is the computed fact *)
Example C01_bridge_example_applies :
  reading_mismatch 64 3 bx_tape bx_nodes (tape_inputs bx_nodes bx_tape) bx_vals = -1.
Proof.
  apply (C01_ring_reading_agrees_with_eval_wn 64 3 bx_T); try reflexivity; vm_compute; reflexivity.
Qed.

(* ---- non-vacuity 2 (hand-made, bits, w = 1, with tuples): a shared input x = (x0, x1, x2) of
   type bit[2,2] is taken apart, revealed (x0 + x1 + x2), multiplied by a constant, masked with a PRF
   output under a fresh key, and put in a tuple with Zeros and Ones ---- *)
Definition by_T : ty := TArray [2; 2] Bit.
Definition by_key : ty := TArray [128] Bit.
Definition by_nodes : list node :=
  [ mkNode (OInput (TTuple [by_T; by_T; by_T])) [] [] [] (TTuple [by_T; by_T; by_T]);
    mkNode (OTupleGet 0) [0] [] [] by_T;
    mkNode (OTupleGet 1) [0] [] [] by_T;
    mkNode (OTupleGet 2) [0] [] [] by_T;
    mkNode (OConstant by_T (VArr [1; 1; 0; 1])) [] [] [] by_T;
    mkNode (ORandom by_key) [] [] [] by_key;
    mkNode (OPRF 0 by_T) [5] [] [] by_T;
    mkNode OAdd [1; 2] [] [] by_T;
    mkNode OAdd [7; 3] [] [] by_T;
    mkNode OMultiply [8; 4] [] [] by_T;
    mkNode OSubtract [9; 6] [] [] by_T;
    mkNode (OZeros by_T) [] [] [] by_T;
    mkNode (OOnes by_T) [] [] [] by_T;
    mkNode OCreateTuple [10; 11; 12; 5] [] [] (TTuple [by_T; by_T; by_T; by_key]);
    mkNode ONOP [13] [] [ASend 0 1] (TTuple [by_T; by_T; by_T; by_key]);
    mkNode (OTupleGet 0) [14] [] [] by_T ].
Definition by_tape : Z -> option value :=
  tape_of_list [ (0, VTup [VArr [1; 0; 1; 0]; VArr [1; 1; 0; 0]; VArr [0; 1; 1; 1]]);
                 (5, VArr [1; 0; 1]);   (* keys are opaque: any value *)
                 (6, VArr [0; 1; 1; 0]) ].

Example C01_bridge_example2_computes :
  wf_ring_graph by_T by_nodes = true /\ wf_ring_tape by_T by_nodes by_tape = true /\
  ring_w by_T = 1 /\ ring_n by_T = 4%nat /\
  (* node 8 = x0 + x1 + x2 (the reveal), node 15 = reveal * constant - PRF output, all modulo 2 *)
  match eval_graph_nodes by_nodes by_tape with
  | Ok vals => nth 8 vals (VArr []) = VArr [0; 0; 0; 1] /\ nth 15 vals (VArr []) = VArr [0; 1; 1; 1] /\
               reading_mismatch 1 4 by_tape by_nodes (tape_inputs by_nodes by_tape) vals = -1
  | _ => False
  end.
Proof. vm_compute. repeat split; reflexivity. Qed.

Example C01_bridge_example2_applies :
  exists vals env,
    eval_graph_nodes by_nodes by_tape = Ok vals /\
    reval_Z 1 4 by_tape by_nodes [] (map in_of_value (tape_inputs by_nodes by_tape)) = Some env /\
    Forall2 (fun rv v => rv_matches rv v = true) env vals.
Proof. apply (C01_ring_reading_total by_T); vm_compute; reflexivity. Qed.

(* the side conditions are not vacuous either way: a Multiply whose operand has another shape is
   rejected (there the evaluator broadcasts and the reading would not), and so is a tape entry of
   the wrong length *)
Example C01_bridge_wf_rejects :
  wf_ring_graph by_T [ mkNode (OInput by_T) [] [] [] by_T; mkNode (OInput (TArray [2] Bit)) [] [] [] (TArray [2] Bit);
                       mkNode OMultiply [0; 1] [] [] by_T ] = false /\
  wf_ring_tape by_T [ mkNode (OInput by_T) [] [] [] by_T ] (tape_of_list [(0, VArr [1; 0; 1])]) = false /\
  wf_ring_graph by_T [ mkNode (OInput by_T) [] [] [] by_T; mkNode OAdd [0; 2] [] [] by_T ] = false.
Proof. vm_compute. repeat split; reflexivity. Qed.

Print Assumptions C01_ring_reading_total.
Print Assumptions C01_ring_reading_agrees_with_eval.
Print Assumptions C01_ring_reading_agrees_with_eval_wn.
Print Assumptions C01_ring_fragment_evaluates.

(* the tape side condition follows from the usual typing of tape values ([has_type]: the recorded
   number of normalised elements), so the bridge holds for every well-typed tape *)
From CC Require Proofs.RingEvalBridgeTyped.
Theorem C01_ring_reading_agrees_with_eval_typed :
  forall (T : ty) (tape : Z -> option value) (nodes : list node) (vals : list value),
  wf_ring_graph T nodes = true -> RingEvalBridgeTyped.tape_typed nodes tape = true ->
  eval_graph_nodes nodes tape = Ok vals ->
  reading_mismatch (ring_w T) (ring_n T) tape nodes (tape_inputs nodes tape) vals = -1.
Proof. exact RingEvalBridgeTyped.ring_reading_agrees_typed. Qed.

(* the tape of the real evaluation above is well typed *)
Example C01_bridge_example_typed : RingEvalBridgeTyped.tape_typed bx_nodes bx_tape = true.
Proof. vm_compute. reflexivity. Qed.

Print Assumptions C01_ring_reading_agrees_with_eval_typed.

(* ====================================================================================== *)
(* C01 deep, context level: the wrapper compile_to_mpc / compile_to_mpc_context around the    *)
(* per-graph step (Model/MpcCompileCtx.v: share_all_inputs, share_input, share_node,           *)
(* generate_prf_key_triple, the Call node, reveal_output), tied LITERALLY to the code on every  *)
(* run (T:context-literal / T:context-rejected: both graphs of the context the hook             *)
(* verif_compile_to_mpc returns, for programs x input status vectors x all ordered output      *)
(* lists).  Semantics (Model/MpcCompileCtxSem.v): the ring reading, with Random keys opaque,   *)
(* the PRF nodes of the main graph as atoms [matom], and the Call node read as the evaluation  *)
(* of the computation graph on the argument values.                                            *)
(* ====================================================================================== *)
From CC Require Import Model.MpcCompileCtx Model.MpcCompileCtxSem Proofs.MpcCompileCtxBase Proofs.MpcCompileCtxStatic Proofs.MpcCompileCtxProofs.

(* Input sharing: share_node on an array/scalar node holding x (owner Party i or Public), with any
   three PRF keys, ends in a tuple of three shares adding up to x, for all PRF values. *)
Theorem C01_deep_share_node_sums :
  forall (R : Type) (r0 r1 : R) (radd rmul rsub : R -> R -> R) (ropp : R -> R),
  ring_theory r0 r1 radd rmul rsub ropp eq ->
  forall (atom matom : Z -> R) (catom : value -> R) (one : R) (lin : op -> R -> R) (bil : op -> R -> R -> R) (nlin : op -> list R -> R)
         (cg : list node) (coo : Z) nid k st out out' id ins0 env ins x kv0 kv1 kv2 t,
  share_node nid k st out = Ok (out', id) ->
  ceval_from R r0 radd rmul rsub atom matom catom one lin bil nlin cg coo out (Some ([], ins0)) = Some (env, ins) ->
  out_ty out nid = Ok t -> is_leaf t = true ->
  znth env nid = Ok (RLeaf R x) -> znth env k = Ok (RTup R [kv0; kv1; kv2]) ->
  exists env' a b c,
    ceval_from R r0 radd rmul rsub atom matom catom one lin bil nlin cg coo out' (Some ([], ins0)) = Some (env', ins) /\
    znth env' id = Ok (T3 R a b c) /\ radd (radd a b) c = x.
Proof.
  intros R r0 r1 radd rmul rsub ropp Rth atom matom catom one lin bil nlin cg coo nid k st out out' id ins0 env ins x kv0 kv1 kv2 t H E HT Lt Hx Hk.
  destruct (share_node_sem R r0 r1 radd rmul rsub ropp Rth atom matom catom one lin bil nlin cg coo _ _ _ _ _ _ _ _ _ _ _ _ _ _ H E HT Lt Hx Hk)
    as (env' & a & b & c & Ev & _ & F & Hs & _). eauto 8.
Qed.

(* Reveal: on a share triple (a, b, c) held by the node [call] (of a share type), reveal_output for
   the non-empty party list p0 :: rest ends in a node holding a + b + c; from the first emitted node
   on there is no Call node and every node annotated Send(p0, q) holds a + b + c; and every other
   listed party q receives such a node (the forwarding wraps around: q = (p0 + i) mod 3). *)
Theorem C01_deep_reveal_adds_shares :
  forall (R : Type) (r0 r1 : R) (radd rmul rsub : R -> R -> R) (ropp : R -> R),
  ring_theory r0 r1 radd rmul rsub ropp eq ->
  forall (atom matom : Z -> R) (catom : value -> R) (one : R) (lin : op -> R -> R) (bil : op -> R -> R -> R) (nlin : op -> list R -> R)
         (cg : list node) (coo : Z) ins0 p0 call rest out out' id env ins a b c T,
  reveal_output call (map IOParty (p0 :: rest)) out = Ok (out', id) ->
  ceval_from R r0 radd rmul rsub atom matom catom one lin bil nlin cg coo out (Some ([], ins0)) = Some (env, ins) ->
  znth env call = Ok (T3 R a b c) -> out_ty out call = Ok T ->
  (exists t1 t2 t3, T = TTuple [t1; t2; t3] /\ is_leaf t1 = true) -> 0 <= p0 < 3 ->
  exists env',
    ceval_from R r0 radd rmul rsub atom matom catom one lin bil nlin cg coo out' (Some ([], ins0)) = Some (env', ins) /\
    znth env' id = Ok (RLeaf R (radd (radd a b) c)) /\
    (forall k nd, znth out' k = Ok nd -> zlen out <= k ->
       n_op nd <> OCall /\ forall q, In (ASend p0 q) (n_annots nd) -> znth env' k = Ok (RLeaf R (radd (radd a b) c))) /\
    (forall q, In q rest -> q <> p0 -> 0 <= q < 3 ->
       exists k nd, znth out' k = Ok nd /\ zlen out <= k /\ In (ASend p0 q) (n_annots nd)).
Proof.
  intros R r0 r1 radd rmul rsub ropp Rth atom matom catom one lin bil nlin cg coo ins0 p0 call rest out out' id env ins a b c T H E Hc HT HS Hp.
  destruct (reveal_sem R r0 radd rmul rsub atom matom catom one lin bil nlin cg coo ins0 (zlen out) p0 (radd (radd a b) c)
              _ _ _ _ _ _ _ _ _ _ _ H E Hc HT HS eq_refl eq_refl Hp) as (env' & Ev & _ & _ & F & SI & Ex).
  exists env'. auto.
Qed.

(* is_output_private of compile_to_mpc_context (the Private annotation of the computation graph's
   output node) is the privacy analysis of the source output, for EVERY program of the mirrored
   fragment: the emitting helpers only append nodes without that annotation, and compile_node adds
   it exactly on the compiled node of a private source node. *)
Theorem C01_deep_output_annotation :
  forall nodes output flags cg coo priv use_mul,
  compile_graph nodes output flags = Ok (cg, coo) ->
  propagate_private_annotations nodes flags = Ok (priv, use_mul) ->
  output_annotated_private cg coo = mem output priv.
Proof. exact MpcCompileCtxStatic.output_annotation_is_privacy. Qed.

(* The context-level theorem.  For every program of the theorem fragment [thm_frag] whose output
   node holds an array/scalar value v, every input status vector (an input is owned by Party i,
   Public, or arrives Shared: then the main graph receives ANY triple of values and its meaning is
   their sum, [ctx_inrel]), every ordered list [outs] of output parties (ids are u64: non-negative),
   every commutative ring, all inputs, all PRF values of the computation graph ([atom]) and of the
   main graph ([matom]), Random keys opaque: if compile_to_mpc emits the computation graph (cg, coo)
   and the main graph (mg, moo) and the source graph evaluates, then the main graph evaluates and
   (ii) for the empty list its output is a share triple adding up to v (a private result is returned
        as it is, a public one is shared by party 0 with share_node);
   (i)  for the list p0 :: rest its output node holds v, and there is a Call node c annotated MpcCall,
        the last Call of the main graph, such that every later node annotated Send(p0, q) -- every
        message the revealing party p0 sends after the call -- holds v, and, when the result is private,
        every other listed party q receives such a message.  (For a public result the Call node itself
        is the output: every party evaluates it.)
   [output_annotated_private cg coo] is is_output_private of compile_to_mpc_context: the output node of
   the computation graph carries the Private annotation; C01_deep_output_annotation proves that this
   is the privacy analysis of the source output.
   Partial: [thm_frag] programs only (as C01_deep_compile_correct_partial). *)
Theorem C01_deep_context_correct_partial :
  forall (R : Type) (r0 r1 : R) (radd rmul rsub : R -> R -> R) (ropp : R -> R),
  ring_theory r0 r1 radd rmul rsub ropp eq ->
  forall (atom matom : Z -> R) (catom : value -> R) (one : R) (lin : op -> R -> R) (bil : op -> R -> R -> R) (nlin : op -> list R -> R),
  (forall o a b, lin o (radd a b) = radd (lin o a) (lin o b)) ->
  (forall o a a' b, bil o (radd a a') b = radd (bil o a b) (bil o a' b)) ->
  (forall o a b b', bil o a (radd b b') = radd (bil o a b) (bil o a b')) ->
  (forall o l l', length l = length l' -> nlin o (vadd R radd l l') = radd (nlin o l) (nlin o l')) ->
  forall nodes output sts outs cg coo mg moo,
  compile_to_mpc nodes output sts (map IOParty outs) = Ok ((cg, coo), (mg, moo)) ->
  thm_frag nodes = true ->
  Forall (fun p => 0 <= p) outs ->
  forall ins_s ins_m env_s v,
  deval R r0 radd rmul rsub atom catom one lin bil nlin nodes ins_s = Some env_s ->
  znth env_s output = Ok (RLeaf R v) ->
  ctx_inrel R radd sts ins_s ins_m ->
  exists env_m,
    ceval R r0 radd rmul rsub atom matom catom one lin bil nlin cg coo mg ins_m = Some env_m /\
    match outs with
    | [] => exists vc, znth env_m moo = Ok vc /\ reveal3 R radd vc = Some v
    | p0 :: rest =>
        znth env_m moo = Ok (RLeaf R v) /\
        exists c cn, znth mg c = Ok cn /\ n_op cn = OCall /\ In AMpcCall (n_annots cn) /\
          (forall k nd, znth mg k = Ok nd -> c < k ->
             n_op nd <> OCall /\ forall q, In (ASend p0 q) (n_annots nd) -> znth env_m k = Ok (RLeaf R v)) /\
          (output_annotated_private cg coo = true ->
           forall q, In q rest -> q <> p0 ->
             exists k nd, znth mg k = Ok nd /\ c < k /\ In (ASend p0 q) (n_annots nd))
    end.
Proof. exact compile_context_correct. Qed.

(* the full statement (not proved): all compilable operations and value types, Graph/Eval.v instead of
   the ring reading, the per-party views of a run instead of the single global evaluation *)
Definition C01_deep_context_full : Prop :=
  forall nodes output sts outs cg coo mg moo,
    compile_to_mpc nodes output sts outs = Ok ((cg, coo), (mg, moo)) ->
    forall (eval_source eval_main : list value -> option value) (reconstruct : value -> value) (share_inputs : list value -> list value) inputs,
      option_map reconstruct (eval_main (share_inputs inputs)) = eval_source inputs.

(* ---- non-vacuity: a*b + a, a owned by party 0, b by party 1, revealed to parties [1; 0] ---- *)
Definition cx_src : list node :=
  [ mkNode (OInput ex_t) [] [] [] ex_t; mkNode (OInput ex_t) [] [] [] ex_t;
    mkNode OMultiply [0; 1] [] [] ex_t; mkNode OAdd [2; 0] [] [] ex_t ].
Definition cx_sts : list iostatus := [IOParty 0; IOParty 1].
Definition cx_outs : list Z := [1; 0].

(* the model compiles it: a computation graph of 24 nodes (key input, two shared inputs, MultiplyMPC,
   AddMPC, resharing of the output) and a main graph of 46 nodes (7 key nodes, 2 x (input + 14 sharing
   nodes), the Call, 3 TupleGet, the missing share sent by party 0 to party 1, 2 Add, the value
   forwarded by party 1 to party 0 = (1 + 2) mod 3, the final NOP) *)
Example C01_deep_context_example_compiles :
  match compile_to_mpc cx_src 3 cx_sts (map IOParty cx_outs) with
  | Ok ((cg, coo), (mg, moo)) =>
      thm_frag cx_src = true /\ zlen cg = 24 /\ zlen mg = 46 /\ moo = 45 /\ call_index mg = 37 /\
      output_annotated_private cg coo = true /\
      map n_annots (skipn 38 mg) = [[]; []; []; [ASend 0 1]; []; []; [ASend 1 0]; []]
  | _ => False
  end.
Proof. vm_compute. repeat split; reflexivity. Qed.

(* both graphs evaluate over the ring of integers: a = 3, b = 5, PRF values 7*i in the computation
   graph and 11*i + 2 in the main graph; the output node of the main graph, the value party 1 computes
   (node 43) and the message party 1 forwards to party 0 (node 44) hold a*b + a = 18 *)
Definition cx_matom (i : Z) : Z := 11 * i + 2.
Example C01_deep_context_example_evaluates :
  match compile_to_mpc cx_src 3 cx_sts (map IOParty cx_outs) with
  | Ok ((cg, coo), (mg, moo)) =>
      match ceval Z 0 Z.add Z.mul Z.sub ex_atom cx_matom (fun _ => 0) 1 ex_lin (fun _ _ _ => 0) (fun _ _ => 0) cg coo mg
                  [RLeaf Z 3; RLeaf Z 5] with
      | Some env => Some (znth env moo, znth env 43, znth env 44)
      | None => None
      end
  | _ => None
  end = Some (Ok (RLeaf Z 18), Ok (RLeaf Z 18), Ok (RLeaf Z 18)).
Proof. vm_compute. reflexivity. Qed.

(* the hypotheses of the context theorem are satisfiable by this instance, and its conclusion gives
   the value 18 at the output, at every later message of party 1, and a message for party 0 *)
Example C01_deep_context_example_applies :
  exists cg coo mg moo env_m c,
    compile_to_mpc cx_src 3 cx_sts (map IOParty cx_outs) = Ok ((cg, coo), (mg, moo)) /\
    ceval Z 0 Z.add Z.mul Z.sub ex_atom cx_matom (fun _ => 0) 1 ex_lin (fun _ _ _ => 0) (fun _ _ => 0) cg coo mg
          [RLeaf Z 3; RLeaf Z 5] = Some env_m /\
    znth env_m moo = Ok (RLeaf Z 18) /\
    (forall k nd q, znth mg k = Ok nd -> c < k -> In (ASend 1 q) (n_annots nd) -> znth env_m k = Ok (RLeaf Z 18)) /\
    (exists k nd, znth mg k = Ok nd /\ c < k /\ In (ASend 1 0) (n_annots nd)).
Proof.
  destruct (compile_to_mpc cx_src 3 cx_sts (map IOParty cx_outs)) as [[[cg coo] [mg moo]]| | |] eqn:Hc; try (vm_compute in Hc; discriminate).
  assert (Hann : output_annotated_private cg coo = true).
  { vm_compute in Hc. inversion Hc; subst. vm_compute. reflexivity. }
  destruct (C01_deep_context_correct_partial Z 0 1 Z.add Z.mul Z.sub Z.opp InitialRing.Zth ex_atom cx_matom (fun _ => 0) 1 ex_lin (fun _ _ _ => 0) (fun _ _ => 0)
              (fun _ _ _ => eq_refl) (fun _ _ _ _ => eq_refl) (fun _ _ _ _ => eq_refl) (fun _ _ _ _ => eq_refl)
              cx_src 3 cx_sts cx_outs cg coo mg moo Hc)
    with (ins_s := [RLeaf Z 3; RLeaf Z 5]) (ins_m := [RLeaf Z 3; RLeaf Z 5])
         (env_s := [RLeaf Z 3; RLeaf Z 5; RLeaf Z 15; RLeaf Z 18]) (v := 18)
    as (env_m & Hev & Hout & c & cn & _ & _ & _ & Hsend & Hrecv).
  - reflexivity.
  - repeat constructor; lia.
  - vm_compute. reflexivity.
  - reflexivity.
  - repeat constructor.
  - exists cg, coo, mg, moo, env_m, c. split; [reflexivity|]. split; [exact Hev|]. split; [exact Hout|]. split.
    + intros k nd q Hk Hlt Hq. exact (proj2 (Hsend k nd Hk Hlt) q Hq).
    + apply (Hrecv Hann 0); [now left | lia].
Qed.

Print Assumptions C01_deep_share_node_sums.
Print Assumptions C01_deep_reveal_adds_shares.
Print Assumptions C01_deep_output_annotation.
Print Assumptions C01_deep_context_correct_partial.

(* C01 — compiled protocol computes the same function as the source graph.

   Proved here (unbounded): for EVERY program of the additive/bilinear fragment (Input, Constant,
   Add, Subtract, any bilinear operation, any share-wise lifted additive unary operation), every
   owner assignment, EVERY resharing plan and every value of the PRF masks, the compiled value of
   every node is either public and equal to the source value or a triple of shares adding up to it
   (shallow model of compile_to_mpc_graph and its gadgets over an abstract commutative ring).
   Per run (T:ring): for generated programs of the elementwise fragment the REAL output of
   compile_context and the source graph are read over an arbitrary commutative ring and their
   equality is proved by [ring] inside Coq: for all inputs and all PRF/Random values.
   Not a theorem (C01_full): the operations outside the fragment (A2B/B2A, private-bit
   MixedMultiply, Truncate (C05), Sort (C18), Join (C19)), n-ary share-wise operations, the
   bridge from the ring reading to Graph/Eval.v, and that the deep compiler emits what the shallow
   model computes; these are covered by the end-to-end differential oracle of the harness. *)
From Coq Require Import Ring.
From CC Require Import Base.Prelude Model.MpcShallow Proofs.MpcShallowProofs Proofs.MpcShallowInst.

Theorem C01_compile_correct_partial :
  forall (V : Type) (v0 v1 : V) (vadd vmul vsub : V -> V -> V) (vopp : V -> V),
  ring_theory v0 v1 vadd vmul vsub vopp eq ->
  forall (bil : nat -> V -> V -> V) (lin : nat -> V -> V),
  (forall k a a' b, bil k (vadd a a') b = vadd (bil k a b) (bil k a' b)) ->
  (forall k a b b', bil k a (vadd b b') = vadd (bil k a b) (bil k a b')) ->
  (forall k a b, lin k (vadd a b) = vadd (lin k a) (lin k b)) ->
  forall nodes env cenv ins cins masks plan,
  Forall2 (fun c v => csum V vadd c = v) cenv env ->
  Forall2 (fun ci v => cinput_value V vadd ci = v) cins ins ->
  Forall2 (fun c v => csum V vadd c = v)
          (ceval V v0 vadd vsub bil lin nodes cenv cins masks plan)
          (seval V v0 vadd vsub bil lin nodes env ins).
Proof. exact ceval_sound. Qed.

(* the gadget facts the theorem rests on, for any PRF values *)
Theorem C01_zero_shares_sum_zero :
  forall (V : Type) (v0 v1 : V) (vadd vmul vsub : V -> V -> V) (vopp : V -> V),
  ring_theory v0 v1 vadd vmul vsub vopp eq ->
  forall m, let '(a0, a1, a2) := zero_shares V vsub m in vadd (vadd a0 a1) a2 = v0.
Proof. exact zero_shares_sum. Qed.

Theorem C01_private_product_sum :
  forall (V : Type) (v0 v1 : V) (vadd vmul vsub : V -> V -> V) (vopp : V -> V),
  ring_theory v0 v1 vadd vmul vsub vopp eq ->
  forall (bil : nat -> V -> V -> V),
  (forall k a a' b, bil k (vadd a a') b = vadd (bil k a b) (bil k a' b)) ->
  (forall k a b b', bil k a (vadd b b') = vadd (bil k a b) (bil k a b')) ->
  forall k a0 a1 a2 b0 b1 b2,
    vadd (vadd (vadd (bil k a0 (vadd b0 b1)) (bil k a1 b0))
               (vadd (bil k a1 (vadd b1 b2)) (bil k a2 b1)))
         (vadd (bil k a2 (vadd b2 b0)) (bil k a0 b2))
    = bil k (vadd (vadd a0 a1) a2) (vadd (vadd b0 b1) b2).
Proof. exact private_product_sum. Qed.

(* the hypotheses are satisfiable: the ring of integers *)
Theorem C01_compile_correct_Z : forall nodes env cenv ins cins masks plan,
  Forall2 (fun c v => csum Z Z.add c = v) cenv env ->
  Forall2 (fun ci v => cinput_value Z Z.add ci = v) cins ins ->
  Forall2 (fun c v => csum Z Z.add c = v)
          (ceval Z 0 Z.add Z.sub zbil zlin nodes cenv cins masks plan)
          (seval Z 0 Z.add Z.sub zbil zlin nodes env ins).
Proof. exact ceval_sound_Z. Qed.

Definition C01_full : Prop :=
  (* all MPC-compilable operations, deep compiler, all inline modes, both optimizer rounds *)
  forall (compile_and_eval source_eval : list Z -> Z) inputs, compile_and_eval inputs = source_eval inputs.

Print Assumptions C01_compile_correct_partial.
Print Assumptions C01_zero_shares_sum_zero.
Print Assumptions C01_private_product_sum.
Print Assumptions C01_compile_correct_Z.

(* ====================================================================================== *)
(* C01 deep: the graph-to-graph model of the compiler's per-graph step (Model/MpcCompile.v: *)
(* propagate_private_annotations, the resharing planner, compile_to_mpc_graph with apply_op, *)
(* the gadget nodes, reshare / get_zero_shares / recursively_sum_shares), tied LITERALLY to    *)
(* the code on every run (T:compile-literal, planner, T:compile-rejected).                     *)
(*                                                                                              *)
(* Semantics (Model/MpcCompileSem.v): the ring reading with PRF nodes and constants as atoms;   *)
(* the Custom nodes AddMPC / SubtractMPC / <bilinear>MPC are read by a specification           *)
(* [gadget_sem], and C01_deep_gadget_bodies proves that the gadget BODIES ([gadget_body], the    *)
(* mirror of instantiate, tied literally by T:gadget-literal) compute exactly this.  What is    *)
(* not modelled: the instantiation pass and the inliner that splice the bodies into the graph  *)
(* (C08 / C07), covered end to end by the T:ring obligations on compile_context's output.      *)
(* Share-wise lifted unary operations and Dot/Matmul/Gemm are abstract additive / bi-additive  *)
(* maps of the ring.                                                                            *)
(* ====================================================================================== *)
From CC Require Import Base.Scalar Base.Ty Base.Shape Graph.Value Graph.IR Graph.Eval Graph.Typing
  Model.RingEval Model.MpcCompile Model.MpcCompilePlan Model.MpcCompileSem
  Proofs.MpcCompileBase Proofs.MpcCompileStatic Proofs.MpcCompileProofs Proofs.MpcCompileGadgets.

(* Structure, for EVERY program of the mirrored fragment (all of mpc_mirrored), every privacy
   vector: dependencies of the compiled graph point backwards, the node map is total on the
   source nodes, lands inside the compiled graph and is strictly increasing, and every private
   source node is mapped to a node annotated Private. *)
Theorem C01_deep_structure : forall nodes output flags out oo omap,
  compile_graph_map nodes output flags = Ok (out, oo, omap) ->
  exists priv use_mul,
    propagate_private_annotations nodes flags = Ok (priv, use_mul) /\
    (forall k nd, znth out k = Ok nd -> Forall (fun d => 0 <= d < k) (n_deps nd)) /\
    zlen omap = zlen nodes /\
    (forall j k, znth omap j = Ok k -> 0 <= k < zlen out) /\
    (forall j j' a b, znth omap j = Ok a -> znth omap j' = Ok b -> j < j' -> a < b) /\
    (forall j k, znth omap j = Ok k -> mem j priv = true ->
                 exists cn, znth out k = Ok cn /\ In APrivate (n_annots cn)) /\
    znth omap output = Ok oo.
Proof. exact compile_graph_structure. Qed.

(* Correctness on the additive/bilinear fragment ([thm_frag]: Input, Constant, Zeros, Ones, Add,
   Subtract, the bilinear operations Multiply, Dot, Matmul, Gemm (abstract bi-additive maps [bil]
   except Multiply, the ring product), the share-wise lifted unary operations Sum, CumSum,
   PermuteAxes, Get, GetSlice, Reshape (abstract additive maps [lin]) and the n-ary ones Stack,
   Concatenate (abstract maps [nlin], additive on operand lists; here apply_op promotes public
   operands to (x, 0, 0) with emitted Zeros nodes), over arrays/scalars): for every such program, every is_input_private vector, EVERY resharing plan the
   compiler accepts (the proof never looks at the planner), every commutative ring, all inputs, all
   presentations of the private inputs as three shares, all PRF values ([atom]) and all keys:
   if the source graph evaluates, the compiled graph evaluates, and for every source node j the
   compiled node omap[j] holds the same value when j is public, and three shares adding up to it
   when j is private ([rel]). *)
Theorem C01_deep_compile_correct_partial :
  forall (R : Type) (r0 r1 : R) (radd rmul rsub : R -> R -> R) (ropp : R -> R),
  ring_theory r0 r1 radd rmul rsub ropp eq ->
  forall (atom : Z -> R) (catom : value -> R) (one : R) (lin : op -> R -> R) (bil : op -> R -> R -> R) (nlin : op -> list R -> R),
  (forall o a b, lin o (radd a b) = radd (lin o a) (lin o b)) ->
  (forall o a a' b, bil o (radd a a') b = radd (bil o a b) (bil o a' b)) ->
  (forall o a b b', bil o a (radd b b') = radd (bil o a b) (bil o a b')) ->
  (forall o l l', length l = length l' -> nlin o (vadd R radd l l') = radd (nlin o l) (nlin o l')) ->
  forall nodes output flags out oo omap priv use_mul,
  compile_graph_map nodes output flags = Ok (out, oo, omap) ->
  propagate_private_annotations nodes flags = Ok (priv, use_mul) ->
  thm_frag nodes = true ->
  forall ins_s ins_c env_s kv0 kv1 kv2,
  deval R r0 radd rmul rsub atom catom one lin bil nlin nodes ins_s = Some env_s ->
  inrel R radd flags ins_s ins_c ->
  exists env_c,
    deval R r0 radd rmul rsub atom catom one lin bil nlin out (keys_input R use_mul kv0 kv1 kv2 ++ ins_c) = Some env_c /\
    forall j vs, znth env_s j = Ok vs ->
      exists k vc, znth omap j = Ok k /\ znth env_c k = Ok vc /\ rel R radd (mem j priv) vs vc.
Proof. exact compile_graph_correct. Qed.

(* the same for EVERY resharing plan [resh] (any list of node ids the compiler does not reject): the
   compiled function does not depend on the planner; [compile_graph_map] is [compile_graph_plan] at
   the plan computed by get_nodes_to_reshare *)
Theorem C01_deep_compile_correct_any_plan_partial :
  forall (R : Type) (r0 r1 : R) (radd rmul rsub : R -> R -> R) (ropp : R -> R),
  ring_theory r0 r1 radd rmul rsub ropp eq ->
  forall (atom : Z -> R) (catom : value -> R) (one : R) (lin : op -> R -> R) (bil : op -> R -> R -> R) (nlin : op -> list R -> R),
  (forall o a b, lin o (radd a b) = radd (lin o a) (lin o b)) ->
  (forall o a a' b, bil o (radd a a') b = radd (bil o a b) (bil o a' b)) ->
  (forall o a b b', bil o a (radd b b') = radd (bil o a b) (bil o a b')) ->
  (forall o l l', length l = length l' -> nlin o (vadd R radd l l') = radd (nlin o l) (nlin o l')) ->
  forall resh nodes output flags out oo omap priv use_mul,
  compile_graph_plan resh nodes output flags = Ok (out, oo, omap) ->
  propagate_private_annotations nodes flags = Ok (priv, use_mul) ->
  thm_frag nodes = true ->
  forall ins_s ins_c env_s kv0 kv1 kv2,
  deval R r0 radd rmul rsub atom catom one lin bil nlin nodes ins_s = Some env_s ->
  inrel R radd flags ins_s ins_c ->
  exists env_c,
    deval R r0 radd rmul rsub atom catom one lin bil nlin out (keys_input R use_mul kv0 kv1 kv2 ++ ins_c) = Some env_c /\
    forall j vs, znth env_s j = Ok vs ->
      exists k vc, znth omap j = Ok k /\ znth env_c k = Ok vc /\ rel R radd (mem j priv) vs vc.
Proof. exact compile_graph_plan_correct. Qed.

(* the statement about the output node: equal if public, three shares adding up to it if private *)
Theorem C01_deep_output_correct_partial :
  forall (R : Type) (r0 r1 : R) (radd rmul rsub : R -> R -> R) (ropp : R -> R),
  ring_theory r0 r1 radd rmul rsub ropp eq ->
  forall (atom : Z -> R) (catom : value -> R) (one : R) (lin : op -> R -> R) (bil : op -> R -> R -> R) (nlin : op -> list R -> R),
  (forall o a b, lin o (radd a b) = radd (lin o a) (lin o b)) ->
  (forall o a a' b, bil o (radd a a') b = radd (bil o a b) (bil o a' b)) ->
  (forall o a b b', bil o a (radd b b') = radd (bil o a b) (bil o a b')) ->
  (forall o l l', length l = length l' -> nlin o (vadd R radd l l') = radd (nlin o l) (nlin o l')) ->
  forall nodes output flags out oo priv use_mul,
  compile_graph nodes output flags = Ok (out, oo) ->
  propagate_private_annotations nodes flags = Ok (priv, use_mul) ->
  thm_frag nodes = true ->
  forall ins_s ins_c env_s v kv0 kv1 kv2,
  deval R r0 radd rmul rsub atom catom one lin bil nlin nodes ins_s = Some env_s ->
  znth env_s output = Ok (RLeaf R v) ->
  inrel R radd flags ins_s ins_c ->
  exists env_c vc,
    deval R r0 radd rmul rsub atom catom one lin bil nlin out (keys_input R use_mul kv0 kv1 kv2 ++ ins_c) = Some env_c /\
    znth env_c oo = Ok vc /\
    (if mem output priv then reveal3 R radd vc = Some v else vc = RLeaf R v).
Proof.
  intros R r0 r1 radd rmul rsub ropp Rth atom catom one lin bil nlin Hlin Hbl Hbr Hnl nodes output flags out oo priv um H Hp Hf
         ins_s ins_c env_s v kv0 kv1 kv2 Hs Hv Hin.
  unfold compile_graph in H. destruct (compile_graph_map nodes output flags) as [[[o1 oo1] omap]| | |] eqn:Hm; try discriminate.
  cbn in H. inversion H; subst o1 oo1.
  destruct (compile_graph_structure _ _ _ _ _ _ Hm) as (p' & u' & Hp' & _ & _ & _ & _ & _ & Hoo).
  destruct (compile_graph_correct R r0 r1 radd rmul rsub ropp Rth atom catom one lin bil nlin Hlin Hbl Hbr Hnl _ _ _ _ _ _ _ _ Hm Hp Hf
              _ _ _ kv0 kv1 kv2 Hs Hin) as (env_c & Hev & Hall).
  destruct (Hall _ _ Hv) as (k & vc & Hk & Hvc & Hrel). rewrite Hoo in Hk. inversion Hk; subst k.
  exists env_c, vc. split; [exact Hev|]. split; [exact Hvc|].
  destruct (mem output priv).
  - destruct Hrel as (x & a & b & c & Hx & -> & Hsum). inversion Hx; subst. reflexivity.
  - exact Hrel.
Qed.

(* The gadget specifications are what the gadget bodies compute: for AddMPC, SubtractMPC,
   MultiplyMPC, DotMPC, MatmulMPC, GemmMPC and every pair of argument types, the graph built by
   [gadget_body] (mirror of CustomOperationBody::instantiate, tied literally by T:gadget-literal),
   evaluated by the same ring reading on argument values of the right shape, returns
   [gadget_sem] of these values.  So the Custom-node reading used by
   C01_deep_compile_correct_partial is not an assumption about the gadgets. *)
Theorem C01_deep_gadget_bodies :
  forall (R : Type) (r0 : R) (radd rmul rsub : R -> R -> R) (atom : Z -> R) (catom : value -> R) (one : R)
         (lin : op -> R -> R) (bil : op -> R -> R -> R) (nlin : op -> list R -> R) g t0 t1 body oid va vb,
  elem_gadget g = true ->
  gadget_body g [t0; t1] = Ok (body, oid) ->
  shape_ok R t0 va -> shape_ok R t1 vb ->
  exists env v,
    deval R r0 radd rmul rsub atom catom one lin bil nlin body [va; vb] = Some env /\
    znth env oid = Ok v /\
    gadget_sem R r0 radd rmul rsub bil g [va; vb] = Some v.
Proof. exact gadget_body_sem. Qed.

(* the full statement (not proved): every operation the compiler accepts, values of every type
   (tuples, vectors, named tuples), the gadget specifications replaced by the evaluation of
   their instantiated graphs, and Graph/Eval.v instead of the ring reading *)
Definition C01_deep_full : Prop :=
  forall nodes output flags out oo,
    compile_graph nodes output flags = Ok (out, oo) ->
    forall (eval_source eval_compiled : list value -> option value) (reconstruct : value -> value) inputs,
      eval_compiled inputs = option_map reconstruct (eval_source inputs).

(* ---- non-vacuity: (x * y + z).sum() with x, y private and z public ---- *)
Definition ex_t : ty := TArray [2] U32.
Definition ex_src : list node :=
  [ mkNode (OInput ex_t) [] [] [] ex_t; mkNode (OInput ex_t) [] [] [] ex_t; mkNode (OInput ex_t) [] [] [] ex_t;
    mkNode OMultiply [0; 1] [] [] ex_t; mkNode OAdd [3; 2] [] [] ex_t; mkNode (OSum [0]) [4] [] [] (TScalar U32) ].
Definition ex_flags : list bool := [true; true; false].

(* the model compiles it: 1 key input + 3 inputs + MultiplyMPC + AddMPC + 3x(TupleGet, Sum) + CreateTuple
   + the 19 nodes of reshare = 32 nodes; the product is not reshared, the output is *)
Example C01_deep_example_compiles :
  thm_frag ex_src = true /\ mpc_mirrored ex_src = true /\
  private_and_reshared ex_src 5 ex_flags = Ok ([0; 1; 3; 4; 5], [5]) /\
  match compile_graph ex_src 5 ex_flags with
  | Ok (out, oo) => zlen out = 32 /\ oo = 31 /\
                    map n_op (firstn 6 out) = [OInput keys_type; OInput (TTuple [ex_t; ex_t; ex_t]); OInput (TTuple [ex_t; ex_t; ex_t]);
                                               OInput ex_t; OCustom "MultiplyMPC"; OCustom "AddMPC"]
  | _ => False
  end.
Proof. vm_compute. repeat split; reflexivity. Qed.

(* and both graphs evaluate over the ring of integers: x = 1+2+3, y = 10+20+30, z = 5, with
   arbitrary PRF values 7*i; the three output shares add up to x*y+z = 365 *)
Definition ex_atom (i : Z) : Z := 7 * i.
Definition ex_lin (o : op) (x : Z) : Z := x.
Example C01_deep_example_evaluates :
  match compile_graph ex_src 5 ex_flags with
  | Ok (out, oo) =>
      match deval Z 0 Z.add Z.mul Z.sub ex_atom (fun _ => 0) 1 ex_lin (fun _ _ _ => 0) (fun _ _ => 0) out
                  [RTup Z [RKey Z; RKey Z; RKey Z]; T3 Z 1 2 3; T3 Z 10 20 30; RLeaf Z 5] with
      | Some env => match znth env oo with Ok vc => reveal3 Z Z.add vc | _ => None end
      | None => None
      end
  | _ => None
  end = Some 365
  /\ deval Z 0 Z.add Z.mul Z.sub ex_atom (fun _ => 0) 1 ex_lin (fun _ _ _ => 0) (fun _ _ => 0) ex_src
           [RLeaf Z 6; RLeaf Z 60; RLeaf Z 5]
     = Some [RLeaf Z 6; RLeaf Z 60; RLeaf Z 5; RLeaf Z 360; RLeaf Z 365; RLeaf Z 365].
Proof. vm_compute. split; reflexivity. Qed.

(* the hypotheses of the correctness theorem are satisfiable by this instance *)
Example C01_deep_example_applies :
  exists env_c vc out oo,
    compile_graph ex_src 5 ex_flags = Ok (out, oo) /\
    deval Z 0 Z.add Z.mul Z.sub ex_atom (fun _ => 0) 1 ex_lin (fun _ _ _ => 0) (fun _ _ => 0) out
          (keys_input Z true (RKey Z) (RKey Z) (RKey Z) ++ [T3 Z 1 2 3; T3 Z 10 20 30; RLeaf Z 5]) = Some env_c /\
    znth env_c oo = Ok vc /\ reveal3 Z Z.add vc = Some 365.
Proof.
  destruct (compile_graph ex_src 5 ex_flags) as [[out oo]| | |] eqn:Hc; try (vm_compute in Hc; discriminate).
  destruct (C01_deep_output_correct_partial Z 0 1 Z.add Z.mul Z.sub Z.opp InitialRing.Zth ex_atom (fun _ => 0) 1 ex_lin (fun _ _ _ => 0) (fun _ _ => 0)
              (fun _ _ _ => eq_refl) (fun _ _ _ _ => eq_refl) (fun _ _ _ _ => eq_refl) (fun _ _ _ _ => eq_refl) ex_src 5 ex_flags out oo [5; 4; 3; 1; 0] true Hc)
    with (ins_s := [RLeaf Z 6; RLeaf Z 60; RLeaf Z 5]) (ins_c := [T3 Z 1 2 3; T3 Z 10 20 30; RLeaf Z 5])
         (env_s := [RLeaf Z 6; RLeaf Z 60; RLeaf Z 5; RLeaf Z 360; RLeaf Z 365; RLeaf Z 365]) (v := 365)
         (kv0 := RKey Z) (kv1 := RKey Z) (kv2 := RKey Z)
    as (env_c & vc & Hev & Hvc & Hrv).
  - vm_compute. reflexivity.
  - reflexivity.
  - vm_compute. reflexivity.
  - reflexivity.
  - change (RLeaf Z 6) with (RLeaf Z (1 + 2 + 3)). change (RLeaf Z 60) with (RLeaf Z (10 + 20 + 30)).
    apply inrel_priv; [reflexivity|]. apply inrel_priv; [reflexivity|]. apply inrel_pub. apply inrel_nil.
  - exists env_c, vc, out, oo. change (mem 5 [5; 4; 3; 1; 0]) with true in Hrv. auto.
Qed.

Print Assumptions C01_deep_structure.
Print Assumptions C01_deep_compile_correct_partial.
Print Assumptions C01_deep_output_correct_partial.
Print Assumptions C01_deep_compile_correct_any_plan_partial.
Print Assumptions C01_deep_gadget_bodies.

(* C01 — compiled protocol computes the same function as the source graph.

   Proved here (unbounded): for EVERY program of the additive/bilinear fragment (Input, Constant,
   Add, Subtract, any bilinear operation, any share-wise lifted additive unary operation), every
   owner assignment, EVERY resharing plan and every value of the PRF masks, the compiled value of
   every node is either public and equal to the source value or a triple of shares adding up to it
   (shallow model of compile_to_mpc_graph and its gadgets over an abstract commutative ring).
   Per run (T:ring): for generated programs of the elementwise fragment the REAL output of
   compile_context and the source graph are read over an arbitrary commutative ring and their
   equality is proved by [ring] inside Coq: for all inputs and all PRF/Random values.
   Not a theorem (C01_full): the operations outside the fragment (A2B/B2A, private-bit
   MixedMultiply, Truncate (C05), Sort (C18), Join (C19)), n-ary share-wise operations, the
   bridge from the ring reading to Graph/Eval.v, and that the deep compiler emits what the shallow
   model computes; these are covered by the end-to-end differential oracle of the harness. *)
From Coq Require Import Ring.
From CC Require Import Base.Prelude Model.MpcShallow Proofs.MpcShallowProofs Proofs.MpcShallowInst.

Theorem C01_compile_correct_partial :
  forall (V : Type) (v0 v1 : V) (vadd vmul vsub : V -> V -> V) (vopp : V -> V),
  ring_theory v0 v1 vadd vmul vsub vopp eq ->
  forall (bil : nat -> V -> V -> V) (lin : nat -> V -> V),
  (forall k a a' b, bil k (vadd a a') b = vadd (bil k a b) (bil k a' b)) ->
  (forall k a b b', bil k a (vadd b b') = vadd (bil k a b) (bil k a b')) ->
  (forall k a b, lin k (vadd a b) = vadd (lin k a) (lin k b)) ->
  forall nodes env cenv ins cins masks plan,
  Forall2 (fun c v => csum V vadd c = v) cenv env ->
  Forall2 (fun ci v => cinput_value V vadd ci = v) cins ins ->
  Forall2 (fun c v => csum V vadd c = v)
          (ceval V v0 vadd vsub bil lin nodes cenv cins masks plan)
          (seval V v0 vadd vsub bil lin nodes env ins).
Proof. exact ceval_sound. Qed.

(* the gadget facts the theorem rests on, for any PRF values *)
Theorem C01_zero_shares_sum_zero :
  forall (V : Type) (v0 v1 : V) (vadd vmul vsub : V -> V -> V) (vopp : V -> V),
  ring_theory v0 v1 vadd vmul vsub vopp eq ->
  forall m, let '(a0, a1, a2) := zero_shares V vsub m in vadd (vadd a0 a1) a2 = v0.
Proof. exact zero_shares_sum. Qed.

Theorem C01_private_product_sum :
  forall (V : Type) (v0 v1 : V) (vadd vmul vsub : V -> V -> V) (vopp : V -> V),
  ring_theory v0 v1 vadd vmul vsub vopp eq ->
  forall (bil : nat -> V -> V -> V),
  (forall k a a' b, bil k (vadd a a') b = vadd (bil k a b) (bil k a' b)) ->
  (forall k a b b', bil k a (vadd b b') = vadd (bil k a b) (bil k a b')) ->
  forall k a0 a1 a2 b0 b1 b2,
    vadd (vadd (vadd (bil k a0 (vadd b0 b1)) (bil k a1 b0))
               (vadd (bil k a1 (vadd b1 b2)) (bil k a2 b1)))
         (vadd (bil k a2 (vadd b2 b0)) (bil k a0 b2))
    = bil k (vadd (vadd a0 a1) a2) (vadd (vadd b0 b1) b2).
Proof. exact private_product_sum. Qed.

(* the hypotheses are satisfiable: the ring of integers *)
Theorem C01_compile_correct_Z : forall nodes env cenv ins cins masks plan,
  Forall2 (fun c v => csum Z Z.add c = v) cenv env ->
  Forall2 (fun ci v => cinput_value Z Z.add ci = v) cins ins ->
  Forall2 (fun c v => csum Z Z.add c = v)
          (ceval Z 0 Z.add Z.sub zbil zlin nodes cenv cins masks plan)
          (seval Z 0 Z.add Z.sub zbil zlin nodes env ins).
Proof. exact ceval_sound_Z. Qed.

Definition C01_full : Prop :=
  (* all MPC-compilable operations, deep compiler, all inline modes, both optimizer rounds *)
  forall (compile_and_eval source_eval : list Z -> Z) inputs, compile_and_eval inputs = source_eval inputs.

Print Assumptions C01_compile_correct_partial.
Print Assumptions C01_zero_shares_sum_zero.
Print Assumptions C01_private_product_sum.
Print Assumptions C01_compile_correct_Z.

(* C16 — comparison operations equal integer comparison.
   Property theorems only: each is closed by [exact] of a lemma proved in Proofs/CmpProofs.v and
   its assumptions are printed.  Every statement is for all widths (list lengths) at once:
   unsigned mode needs at least one bit, signed mode at least two (the code rejects one-bit
   signed operands, C16_signed_width1_rejected).  Bit strings are LSB-first [list bool];
   [unsigned]/[signed] are the binary and two's-complement readings, [reading sg] selects one. *)
From CC Require Import Base.Prelude Model.Cmp Proofs.CmpProofs.

(* ---- the readings are the standard encodings (so the statements below say what they seem to) *)
Theorem C16_unsigned_range : forall a, 0 <= unsigned a < 2 ^ Z.of_nat (length a).
Proof. exact unsigned_range. Qed.
Theorem C16_signed_range : forall a, a <> [] ->
  - 2 ^ (Z.of_nat (length a) - 1) <= signed a < 2 ^ (Z.of_nat (length a) - 1).
Proof. exact signed_range. Qed.
Theorem C16_signed_unsigned_mod : forall a, signed a mod 2 ^ Z.of_nat (length a) = unsigned a.
Proof. exact signed_unsigned_mod. Qed.
Theorem C16_unsigned_inj : forall a b, length a = length b -> unsigned a = unsigned b -> a = b.
Proof. exact unsigned_inj. Qed.

(* ---- key lemma: the shrink loop terminates within its fuel and preserves the priority join of
        everything still to be combined (remainders found so far, then the array being shrunk) *)
Theorem C16_summary_shrink : forall fuel l rs, (length l < fuel)%nat ->
  exists rs', build_loop fuel l rs = Ok rs' /\ jf rs' = jf (rs ++ l).
Proof. exact build_loop_spec. Qed.
Theorem C16_join_assoc : forall x y z, join1 (join1 x y) z = join1 x (join1 y z).
Proof. exact join1_assoc. Qed.
Theorem C16_join_priority : forall x y,
  ord (join1 x y) = match ord y with Eq => ord x | o => o end.
Proof. exact ord_join1. Qed.
(* the comparison graph yields the three-way comparison of the unsigned readings *)
Theorem C16_build_spec : forall a b, length a = length b -> a <> [] ->
  exists r, build_comparison_graph a b = Ok r /\ ord r = (unsigned a ?= unsigned b).
Proof. exact build_comparison_graph_spec. Qed.

(* ---- the six comparison operations *)
Theorem C16_eq_spec : forall a b, length a = length b -> (1 <= length a)%nat ->
  equal a b = Ok (unsigned a =? unsigned b).
Proof. exact eq_spec. Qed.
Theorem C16_ne_spec : forall a b, length a = length b -> (1 <= length a)%nat ->
  not_equal a b = Ok (negb (unsigned a =? unsigned b)).
Proof. exact ne_spec. Qed.
(* Equal/NotEqual have no signed mode and need none *)
Theorem C16_eq_reading_independent : forall a b, length a = length b ->
  (unsigned a =? unsigned b) = (signed a =? signed b).
Proof. exact eqb_readings. Qed.
Theorem C16_lt_spec : forall (sg : bool) a b,
  length a = length b -> ((if sg then 2 else 1) <= length a)%nat ->
  less_than sg a b = Ok (reading sg a <? reading sg b).
Proof. exact lt_spec. Qed.
Theorem C16_gt_spec : forall (sg : bool) a b,
  length a = length b -> ((if sg then 2 else 1) <= length a)%nat ->
  greater_than sg a b = Ok (reading sg a >? reading sg b).
Proof. exact gt_spec. Qed.
Theorem C16_le_spec : forall (sg : bool) a b,
  length a = length b -> ((if sg then 2 else 1) <= length a)%nat ->
  less_than_equal_to sg a b = Ok (reading sg a <=? reading sg b).
Proof. exact le_spec. Qed.
Theorem C16_ge_spec : forall (sg : bool) a b,
  length a = length b -> ((if sg then 2 else 1) <= length a)%nat ->
  greater_than_equal_to sg a b = Ok (reading sg a >=? reading sg b).
Proof. exact ge_spec. Qed.
Theorem C16_signed_width1_rejected : forall op a b,
  length a = 1%nat -> length b = 1%nat -> cmp_custom_op op true a b = Err.
Proof. exact cmp_custom_op_signed_width1. Qed.

(* ---- minimum / maximum: one of the operands, the one whose reading is the min / max *)
Theorem C16_min_spec : forall (sg : bool) a b,
  length a = length b -> ((if sg then 2 else 1) <= length a)%nat ->
  exists r, min_op sg a b = Ok r /\ length r = length a /\ (r = a \/ r = b) /\
            reading sg r = Z.min (reading sg a) (reading sg b).
Proof. exact min_spec. Qed.
Theorem C16_max_spec : forall (sg : bool) a b,
  length a = length b -> ((if sg then 2 else 1) <= length a)%nat ->
  exists r, max_op sg a b = Ok r /\ length r = length a /\ (r = a \/ r = b) /\
            reading sg r = Z.max (reading sg a) (reading sg b).
Proof. exact max_spec. Qed.

(* ---- signed mode: flipping the most significant bit shifts the signed reading by 2^(n-1) *)
Theorem C16_flip_msb_shift : forall a, a <> [] ->
  exists a', flip_msb a = Ok a' /\ length a' = length a /\
             unsigned a' = signed a + 2 ^ (Z.of_nat (length a) - 1).
Proof. exact flip_msb_shift. Qed.

(* ---- the operand format of the correspondence cases decodes as intended *)
Theorem C16_bits_of_spec : forall n x,
  length (bits_of n x) = n /\ unsigned (bits_of n x) = x mod 2 ^ Z.of_nat n.
Proof. exact bits_of_spec. Qed.

(* ---- non-vacuity: concrete instances (the doc example 15 vs 20 on 5 bits; a signed pair that
        orders differently in the two modes; odd widths taking the remainder path) *)
Example C16_example_doc_5bit :
  let a := bits_of 5 15 in let b := bits_of 5 20 in
  length a = length b /\ (1 <= length a)%nat /\
  less_than false a b = Ok true /\ greater_than false a b = Ok false /\
  build_comparison_graph a b = Ok {| a_equal_b := false; c_a := false |}.
Proof. vm_compute. repeat split; lia. Qed.
Example C16_example_signed_3bit :
  let a := bits_of 3 5 (* -3 *) in let b := bits_of 3 3 in
  signed a = -3 /\ signed b = 3 /\ (2 <= length a)%nat /\
  less_than true a b = Ok true /\ less_than false a b = Ok false /\
  min_op true a b = Ok a /\ min_op false a b = Ok b /\ max_op true a b = Ok b.
Proof. vm_compute. repeat split; lia. Qed.
Example C16_example_width7_remainders :
  build_loop 8 (zip_ab (bits_of 7 100) (bits_of 7 99)) [] =
  Ok [from_a_b1 false true;
      join1 (from_a_b1 false true) (from_a_b1 true false);
      join1 (join1 (from_a_b1 false false) (from_a_b1 false false))
            (join1 (from_a_b1 true true) (from_a_b1 true true))].
Proof. reflexivity. Qed.

Print Assumptions C16_unsigned_range.
Print Assumptions C16_signed_range.
Print Assumptions C16_signed_unsigned_mod.
Print Assumptions C16_unsigned_inj.
Print Assumptions C16_summary_shrink.
Print Assumptions C16_join_assoc.
Print Assumptions C16_join_priority.
Print Assumptions C16_build_spec.
Print Assumptions C16_eq_spec.
Print Assumptions C16_ne_spec.
Print Assumptions C16_eq_reading_independent.
Print Assumptions C16_lt_spec.
Print Assumptions C16_gt_spec.
Print Assumptions C16_le_spec.
Print Assumptions C16_ge_spec.
Print Assumptions C16_signed_width1_rejected.
Print Assumptions C16_min_spec.
Print Assumptions C16_max_spec.
Print Assumptions C16_flip_msb_shift.
Print Assumptions C16_bits_of_spec.

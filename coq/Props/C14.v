(* C14 — secret sharing reconstructs, with the documented per-party layout.
   Property theorems only: each is closed by [exact] of a lemma proved in Proofs/ShareProofs.v.
   Values are in decoded form (Model/Share.v header): [wt t v] says that v has the layout of
   type t and that every leaf entry is in the range of the byte decoder, [shape_ok t v] only
   the layout, [ty_ok t] that the type's bit size is defined (check_type does not fail).
   The randomness r0 r1 (and the garbage g0 g1 g2) are universally quantified inputs:
   the theorems hold for every outcome of the PRNG. *)
From CC Require Import Base.Prelude Base.Scalar Base.Ty Model.Share Proofs.ShareProofs.

(* Splitting any typed value into three shares and recombining them returns the value:
   every type tree, every value, every randomness. *)
Theorem C14_reveal_share : forall t v r0 r1,
  ty_ok t -> wt t v = true -> shape_ok t r0 = true -> shape_ok t r1 = true ->
  exists sh, secret_share (t, v) r0 r1 = Ok sh /\ fst sh = triple t /\
             secret_share_reveal sh = Ok (t, v).
Proof. exact reveal_share. Qed.

(* The same for ReplicatedShares, whose tuple form is exactly the TypedValue form. *)
Theorem C14_rs_reveal_share : forall t v r0 r1,
  ty_ok t -> wt t v = true -> shape_ok t r0 = true -> shape_ok t r1 = true ->
  exists rs, rs_secret_share_for_local_evaluation (t, v) r0 r1 = Ok rs /\
             rs_reveal rs = Ok (t, v) /\
             (ty_ok (triple t) ->
              exists tup, rs_to_tuple rs = Ok tup /\ secret_share (t, v) r0 r1 = Ok tup /\
                          rs_from_tuple tup = Ok rs).
Proof. exact rs_reveal_share. Qed.

(* Per-party form: party i's tuple holds share i in slot i, share i+1 in slot i+1, and in slot
   i+2 the garbage input g_{i+2}, which is an argument separate from (v, r0, r1). *)
Theorem C14_layout : forall tv r0 r1 g0 g1 g2 s,
  shard_to_shares (fst tv) (snd tv) r0 r1 = Ok s ->
  length s = 3%nat /\
  exists ps, get_local_shares_for_each_party tv r0 r1 g0 g1 g2 = Ok ps /\ length ps = 3%nat /\
    forall i p, nth_error ps i = Some p ->
                fst p = triple (fst tv) /\ party_holds i p s [g0; g1; g2].
Proof. exact layout. Qed.

(* ReplicatedShares::secret_share_for_parties hands out the same three slot lists. *)
Theorem C14_rs_layout : forall tv r0 r1 g0 g1 g2 ps,
  get_local_shares_for_each_party tv r0 r1 g0 g1 g2 = Ok ps ->
  rs_secret_share_for_parties tv r0 r1 g0 g1 g2
  = Ok (map (fun p => (fst tv, match snd p with VNode l => l | VLeaf _ => [] end)) ps).
Proof. exact rs_layout. Qed.

(* Any two distinct parties, pooling only slots that hold genuine shares, reconstruct v —
   whatever the garbage is. *)
Theorem C14_any_two_reconstruct : forall t v r0 r1 g0 g1 g2,
  ty_ok t -> wt t v = true -> shape_ok t r0 = true -> shape_ok t r1 = true ->
  exists ps, get_local_shares_for_each_party (t, v) r0 r1 g0 g1 g2 = Ok ps /\
    length ps = 3%nat /\
    forall i j pi pj, i <> j -> nth_error ps i = Some pi -> nth_error ps j = Some pj ->
      exists c, combine_two i pi pj = Ok c /\ secret_share_reveal c = Ok (t, v).
Proof. exact any_two_reconstruct. Qed.

(* For every secret v and every party i, (r0, r1) |-> (s_i, s_{i+1}) is a bijection of
   D x D onto itself, D = { x | wt t x }, with the explicit inverse [unview i t v].
   D is finite, so when (r0, r1) is uniform on D x D the two shares party i holds are uniform
   on D x D, whatever v is. *)
Theorem C14_two_shares_uniform : forall i t v,
  (i < 3)%nat -> shape_ok t v = true ->
  (forall r0 r1, wt t r0 = true -> wt t r1 = true ->
     exists a b, view i t v r0 r1 = Ok (a, b) /\ wt t a = true /\ wt t b = true /\
                 unview i t v a b = Ok (r0, r1)) /\
  (forall a b, wt t a = true -> wt t b = true ->
     exists r0 r1, unview i t v a b = Ok (r0, r1) /\ wt t r0 = true /\ wt t r1 = true /\
                   view i t v r0 r1 = Ok (a, b)).
Proof. exact two_shares_uniform. Qed.

(* mpc::utils::share_vector: the three share leaves sum to the data, in the same layout. *)
Theorem C14_share_vector : forall st data r0 r1 g0 g1 g2,
  data <> [] -> (st = Bit -> length data = 1%nat) ->
  length r0 = length data -> length r1 = length data ->
  exists s0 s1 s2,
    share_vector st data r0 r1 g0 g1 g2
    = Ok [VNode [VLeaf s0; VLeaf s1; VLeaf g2]; VNode [VLeaf g0; VLeaf s1; VLeaf s2];
          VNode [VLeaf s0; VLeaf g1; VLeaf s2]] /\
    (let* a := leaf_add st s0 s1 in leaf_add st a s2) = Ok (recode_list st data).
Proof. exact share_vector_reveal. Qed.

(* ciphercore_split_parties: a secret-shared input is split by get_local_shares_for_each_party,
   a public input goes to all three, an input owned by party p goes to p and zeros to the others. *)
Theorem C14_split_input : forall tv zero r0 r1 g0 g1 g2,
  split_input IOShared tv zero r0 r1 g0 g1 g2
  = get_local_shares_for_each_party tv r0 r1 g0 g1 g2 /\
  split_input IOPublic tv zero r0 r1 g0 g1 g2 = Ok [tv; tv; tv] /\
  forall p z, typed_new (fst tv) zero = Ok z ->
    exists l, split_input (IOParty p) tv zero r0 r1 g0 g1 g2 = Ok l /\ length l = 3%nat /\
      forall j, 0 <= j < 3 ->
        nth_error l (Z.to_nat j) = Some (if j =? p then tv else z).
Proof. exact split_input_spec. Qed.

(* Non-vacuity: a nested type with a ragged Bit array, signed and 128-bit leaves; the
   hypotheses hold and the whole pipeline computes. *)
Definition ex_t : ty :=
  TTuple [TArray [3] Bit; TNamed [("a"%string, TScalar I8); ("b"%string, TVector 2 (TArray [2] U128))]].
Definition ex_v : value :=
  VNode [VLeaf [1; 0; 1; 0; 0; 0; 0; 0];
         VNode [VLeaf [2 ^ 128 - 128]; VNode [VLeaf [2 ^ 128 - 1; 5]; VLeaf [0; 2 ^ 100]]]].
Definition ex_r0 : value :=
  VNode [VLeaf [1; 1; 0; 0; 0; 0; 0; 0];
         VNode [VLeaf [127]; VNode [VLeaf [7; 2 ^ 127]; VLeaf [2 ^ 128 - 1; 3]]]].
Definition ex_r1 : value :=
  VNode [VLeaf [0; 1; 1; 0; 0; 0; 0; 0];
         VNode [VLeaf [2 ^ 128 - 1]; VNode [VLeaf [2 ^ 64; 9]; VLeaf [1; 2 ^ 128 - 2]]]].
Example C14_example_hyps :
  ty_ok ex_t /\ ty_ok (triple ex_t) /\ wt ex_t ex_v = true /\ wt ex_t ex_r0 = true /\
  wt ex_t ex_r1 = true.
Proof. repeat split; try (eexists; vm_compute; reflexivity); vm_compute; reflexivity. Qed.
Example C14_example_share :
  secret_share (ex_t, ex_v) ex_r0 ex_r1
  = Ok (triple ex_t,
        VNode [ex_r0; ex_r1;
               VNode [VLeaf [0; 0; 0; 0; 0; 0; 0; 0];
                      VNode [VLeaf [2]; VNode [VLeaf [2 ^ 128 - 2 ^ 64 - 8; 2 ^ 127 - 4];
                                               VLeaf [0; 2 ^ 100 - 1]]]]]) /\
  bind (secret_share (ex_t, ex_v) ex_r0 ex_r1) secret_share_reveal = Ok (ex_t, ex_v).
Proof. split; vm_compute; reflexivity. Qed.
Example C14_example_view :
  view 1 ex_t ex_v ex_r0 ex_r1 <> view 1 ex_t ex_v ex_r1 ex_r0 /\
  bind (view 2 ex_t ex_v ex_r0 ex_r1) (fun p => unview 2 ex_t ex_v (fst p) (snd p))
  = Ok (ex_r0, ex_r1).
Proof. split; [vm_compute; discriminate | vm_compute; reflexivity]. Qed.
(* The failure arms are reachable: a length mismatch is an error, a kind mismatch and a
   missing tuple element are panics. *)
Example C14_example_failures :
  generalized_add (VLeaf [1; 2]) (VLeaf [1]) (TArray [2] U8) = Err /\
  generalized_add (VLeaf [1]) (VNode []) (TScalar U8) = Panic /\
  generalized_subtract (VNode [VLeaf [1]]) (VNode []) (TTuple [TScalar U8]) = Panic /\
  secret_share_reveal (triple (TScalar U8), VNode [VLeaf [1]; VLeaf [2]]) = Panic /\
  rs_from_tuple (TTuple [], VNode []) = Panic.
Proof. repeat split. Qed.

Print Assumptions C14_reveal_share.
Print Assumptions C14_rs_reveal_share.
Print Assumptions C14_layout.
Print Assumptions C14_rs_layout.
Print Assumptions C14_any_two_reconstruct.
Print Assumptions C14_two_shares_uniform.
Print Assumptions C14_share_vector.
Print Assumptions C14_split_input.

From CC Require Import Base.Prelude Model.Trunc.

(* C05 — secure truncation stays within its documented error.
   Property theorems only: each is closed by [exact] of a lemma proved in Proofs/TruncProofs.v.
   Model: Model/Trunc.v (arithmetic of mpc_truncate.rs over Z mod 2^w, one array element).
   All statements are for EVERY width w for which the hypotheses can hold (no enumeration of widths),
   every sharing of the input and EVERY value of the PRF masks. *)
From CC Require Import Base.Prelude Base.Scalar Model.Trunc Proofs.TruncProofs.

(* Division by 2^k (TruncateMPC2K).  For every width w, every k the code admits (1 <= k <= w-2 for
   signed types, 1 <= k <= w-1 for unsigned ones; so w >= 3 resp. w >= 2), every x in the documented
   range ([-2^w/4, 2^w/4) signed, [0, 2^w/2) unsigned, boundaries included), every sharing
   x0+x1+x2 = x (mod 2^w) and every value of the six masks: the revealed result, read in the type,
   minus floor(x / 2^k) is 0 or 1. *)
Theorem C05_trunc2k_bound : forall w sg k x0 x1 x2 m x,
  trunc2k_admissible w sg k -> in_range2k w sg x ->
  (x0 + x1 + x2) mod 2 ^ w = x mod 2 ^ w ->
  let d := sv w sg (reveal w (trunc2k w sg k (x0, x1, x2) m)) - x / 2 ^ k in
  d = 0 \/ d = 1.
Proof. exact trunc2k_bound. Qed.

(* The value itself: floor(x/2^k) plus the carry of the low k bits of x and of the mask r. *)
Theorem C05_trunc2k_value : forall w sg k x0 x1 x2 m x,
  trunc2k_admissible w sg k -> in_range2k w sg x ->
  (x0 + x1 + x2) mod 2 ^ w = x mod 2 ^ w ->
  sv w sg (reveal w (trunc2k w sg k (x0, x1, x2) m))
  = x / 2 ^ k + (if 2 ^ k <=? x mod 2 ^ k + mask_r m mod 2 ^ k then 1 else 0).
Proof. exact trunc2k_value. Qed.

(* Exactly when the result is the floor and when it is the floor plus one (the documented bias:
   for uniform r the +1 has probability (x mod 2^k)/2^k). *)
Theorem C05_trunc2k_exact_iff : forall w sg k x0 x1 x2 m x,
  trunc2k_admissible w sg k -> in_range2k w sg x ->
  (x0 + x1 + x2) mod 2 ^ w = x mod 2 ^ w ->
  let y := sv w sg (reveal w (trunc2k w sg k (x0, x1, x2) m)) in
  (y = x / 2 ^ k <-> x mod 2 ^ k + mask_r m mod 2 ^ k < 2 ^ k) /\
  (y = x / 2 ^ k + 1 <-> 2 ^ k <= x mod 2 ^ k + mask_r m mod 2 ^ k).
Proof. exact trunc2k_exact_iff. Qed.

(* General divisor (TruncateMPC, signed types).  For every width, every scale > 1, all shares and
   every mask r: unless the documented wrap-around happened (the signed readings of the two addends
   truncated separately, x0 and x1+x2, do not add up to the signed reading of x), the revealed result
   is within one unit of the plaintext quotient (round toward zero). *)
Theorem C05_truncmpc_bound : forall w scale x0 x1 x2 r x,
  1 <= w -> 1 < scale ->
  sv w true x0 + sv w true (x1 + x2) = sv w true x ->
  Z.abs (sv w true (reveal w (truncmpc w scale (x0, x1, x2) r)) - Z.quot (sv w true x) scale) <= 1.
Proof. exact truncmpc_value_bound. Qed.

(* The wrap-around event, characterised by the first share alone ... *)
Theorem C05_truncmpc_wrap_iff : forall w x0 x1 x2 x,
  1 <= w -> (x0 + x1 + x2) mod 2 ^ w = x mod 2 ^ w ->
  let a := sv w true x0 in let X := sv w true x in
  a + sv w true (x1 + x2) <> X <->
  (0 <= X /\ a <= X - 2 ^ (w - 1)) \/ (X < 0 /\ X + 2 ^ (w - 1) < a).
Proof. exact truncmpc_wrap_iff. Qed.

(* ... so at most |x|+1 of the 2^w values of the first share produce it: probability at most
   (|x|+1)/2^w <= 2^(l-w) for |x| < 2^l when that share is uniform (mpc_truncate.rs:21-25). *)
Theorem C05_truncmpc_wrap_count : forall w x (l : list Z),
  1 <= w -> NoDup l ->
  (forall x0, In x0 l -> 0 <= x0 < 2 ^ w /\
     sv w true x0 + sv w true (x - x0) <> sv w true x) ->
  Z.of_nat (length l) <= Z.abs (sv w true x) + 1.
Proof. exact truncmpc_wrap_count. Qed.

(* Public (unshared) input: whenever the compiled operation exists its result is the exact plaintext
   quotient (round toward zero on the signed reading, floor on unsigned values) ... *)
Theorem C05_trunc_public_exact : forall w sg scale x y,
  1 <= w -> 0 < scale ->
  trunc_public w sg scale x = Ok y ->
  sv w sg y = if sg then Z.quot (sv w true x) scale else (x mod 2 ^ w) / scale.
Proof. exact trunc_public_exact. Qed.

(* ... and the compiler rejects exactly one public case: unsigned type, divisor not a power of two. *)
Theorem C05_trunc_public_err_iff : forall w sg scale x,
  trunc_public w sg scale x = Err <-> is_power_of_two scale = false /\ sg = false.
Proof. exact trunc_public_err_iff. Qed.

(* The plaintext evaluator's Truncate is that exact quotient. *)
Theorem C05_truncate_plain_exact : forall w sg scale x,
  1 <= w -> 0 < scale ->
  sv w sg (truncate w sg scale x) = if sg then Z.quot (sv w true x) scale else (x mod 2 ^ w) / scale.
Proof. exact truncate_exact. Qed.

(* The reading [sv] at the width and signedness of a scalar type is Base.Scalar.sval. *)
Theorem C05_sv_is_sval : forall st x, sv (width st) (signed st) x = sval st x.
Proof. exact sv_sval. Qed.

(* Non-vacuity: instances recorded from runs of /repo's compiled graphs (harness cases).
   i8, k = 3, x = -17 shared as (200, 50, 245): floor(-17/8) = -3; with r = 0x95 the low bits carry
   (7 + 5 >= 8), the result is -2 = floor + 1; with r = 0 it is exact. *)
Example C05_example_i8_plus_one :
  trunc2k_admissible 8 true 3 /\ in_range2k 8 true (-17) /\
  (200 + 50 + 245) mod 2 ^ 8 = (-17) mod 2 ^ 8 /\
  sv 8 true (reveal 8 (trunc2k 8 true 3 (200, 50, 245) (149, 11, 22, 33, 44, 55))) = -2 /\
  sv 8 true (reveal 8 (trunc2k 8 true 3 (200, 50, 245) (0, 11, 22, 33, 44, 55))) = -3 /\
  (-17) / 2 ^ 3 = -3.
Proof. unfold trunc2k_admissible, in_range2k. repeat split; try reflexivity; try (vm_compute; congruence). Qed.
(* u16, k = 15 = w-1 (the largest admissible k for unsigned types), x = 32766 = 2^15 - 2 *)
Example C05_example_u16_top_k :
  trunc2k_admissible 16 false 15 /\ in_range2k 16 false 32766 /\
  trunc2k 16 false 15 (15017, 7935, 9814) (11290, 40568, 3626, 43222, 1782, 21302) = (1782, 42453, 21302) /\
  reveal 16 (1782, 42453, 21302) = 1.
Proof. unfold trunc2k_admissible, in_range2k. repeat split; try reflexivity; try (vm_compute; congruence). Qed.
(* i16, scale 1000, x = -12345 (quot = -12): a no-wrap sharing gives -12; a wrapping one (first share
   30000 > x + 2^15) gives 53, which is why the event is excluded in C05_truncmpc_bound *)
Example C05_example_truncmpc :
  sv 16 true 100 + sv 16 true (53091 + 0) = sv 16 true (-12345) /\
  sv 16 true (reveal 16 (truncmpc 16 1000 (100, 53091, 0) 777)) = -12 /\
  sv 16 true 30000 + sv 16 true (23191 + 0) <> sv 16 true (-12345) /\
  sv 16 true (reveal 16 (truncmpc 16 1000 (30000, 23191, 0) 777)) = 53.
Proof. repeat split; try reflexivity; try (vm_compute; congruence). Qed.
Example C05_example_public :
  trunc_public 8 true 8 (256 - 17) = Ok (256 - 2) /\ trunc_public 8 false 3 200 = Err /\
  trunc_public 8 true 3 (256 - 17) = Ok (256 - 5) /\ trunc_public 8 false 1 200 = Ok 200.
Proof. repeat split; reflexivity. Qed.

Print Assumptions C05_trunc2k_bound.
Print Assumptions C05_trunc2k_value.
Print Assumptions C05_trunc2k_exact_iff.
Print Assumptions C05_truncmpc_bound.
Print Assumptions C05_truncmpc_wrap_iff.
Print Assumptions C05_truncmpc_wrap_count.
Print Assumptions C05_trunc_public_exact.
Print Assumptions C05_trunc_public_err_iff.
Print Assumptions C05_truncate_plain_exact.
Print Assumptions C05_sv_is_sval.

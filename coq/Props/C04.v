(* C04 — every pseudo-random mask is fresh: no PRF input reused, no randomness merged. *)
From CC Require Import Base.Prelude Base.Scalar Base.Ty Base.Shape Graph.Value Graph.IR Graph.Eval
  Model.Uniquify Model.Opt Proofs.UniquifyProofs Proofs.OptFresh Proofs.OptProofs.

(* Renumbering (uniquify_prf_id): for every node list and start value the PRF counters of the
   result, read in order, are exactly start+1 .. start+n, hence pairwise distinct, and nothing
   else changes (strip erases the counter). *)
Theorem C04_uniquify_ids : forall start nodes,
  prf_ivs (fst (uniquify_nodes start nodes)) = zseq (start + 1) (count_prf nodes)
  /\ snd (uniquify_nodes start nodes) = start + Z.of_nat (count_prf nodes)
  /\ map strip (fst (uniquify_nodes start nodes)) = map strip nodes.
Proof. exact uniquify_nodes_ids. Qed.
Theorem C04_uniquify_nodup : forall start nodes, NoDup (prf_ivs (fst (uniquify_nodes start nodes))).
Proof. exact uniquify_nodes_nodup. Qed.
(* one counter across all graphs of a context: all counters together are 1..n *)
Theorem C04_uniquify_context : forall gs,
  flat_map prf_ivs (uniquify_graphs gs) = zseq 1 (count_prf (concat gs))
  /\ map (map strip) (uniquify_graphs gs) = map (map strip) gs.
Proof. exact uniquify_graphs_ids. Qed.

Example C04_example :
  prf_ivs (fst (uniquify_nodes 0
    [mkNode (ORandom (TArray [128] Bit)) [] [] [] (TArray [128] Bit);
     mkNode (OPRF 0 (TScalar U8)) [0] [] [] (TScalar U8);
     mkNode (OPRF 0 (TScalar U8)) [0] [] [] (TScalar U8);
     mkNode (OPermutationFromPRF 0 3) [0] [] [] (TArray [3] U64)])) = [1; 2; 3].
Proof. reflexivity. Qed.

(* The optimizer passes (models of Model/Opt.v, tied literally to optimize_context) keep fresh
   nodes (Random, RandomPermutation, CuckooToPermutation, DecomposeSwitchingMap, PRF,
   PermutationFromPRF) fresh, for EVERY node list and output: the decision procedure
   fresh_check, which the harness evaluates on exported optimizer output, accepts the result of
   each pass and of the pipeline.  It says: a mapped fresh node keeps its operation (in
   particular it never becomes a Constant), no two fresh nodes share an image, and the new
   graph contains no fresh node that is not such an image. *)
Theorem C04_const_fresh : forall nodes o p,
  opt_const nodes o = Ok p -> fresh_check nodes (po_nodes p) (po_map p) = true.
Proof. exact const_fresh_check. Qed.
Theorem C04_meta_fresh : forall nodes o p,
  opt_meta nodes o = Ok p -> fresh_check nodes (po_nodes p) (po_map p) = true.
Proof. exact meta_fresh_check. Qed.
Theorem C04_dup_fresh : forall nodes o p,
  opt_dup nodes o = Ok p -> fresh_check nodes (po_nodes p) (po_map p) = true.
Proof. exact dup_fresh_check. Qed.
Theorem C04_dangling_fresh : forall nodes o p,
  opt_dangling nodes o = Ok p -> fresh_check nodes (po_nodes p) (po_map p) = true.
Proof. exact dangling_fresh_check. Qed.
Theorem C04_optimize_fresh : forall nodes o p,
  optimize_graph nodes o = Ok p -> fresh_check nodes (po_nodes p) (po_map p) = true.
Proof. exact optimize_fresh_check. Qed.

(* the same, spelled out on node positions *)
Theorem C04_optimize_fresh_spec : forall nodes o p, optimize_graph nodes o = Ok p ->
  (forall i nd j, nth_error nodes i = Some nd -> is_fresh_op (n_op nd) = true ->
                  nth_error (po_map p) i = Some (Some j) ->
                  exists nd', 0 <= j /\ nth_error (po_nodes p) (Z.to_nat j) = Some nd' /\ n_op nd' = n_op nd) /\
  (forall i i' nd nd' j, nth_error nodes i = Some nd -> is_fresh_op (n_op nd) = true ->
                         nth_error nodes i' = Some nd' -> is_fresh_op (n_op nd') = true ->
                         nth_error (po_map p) i = Some (Some j) -> nth_error (po_map p) i' = Some (Some j) -> i = i') /\
  (forall j nd', nth_error (po_nodes p) j = Some nd' -> is_fresh_op (n_op nd') = true ->
                 exists i nd, nth_error nodes i = Some nd /\ is_fresh_op (n_op nd) = true /\
                              nth_error (po_map p) i = Some (Some (Z.of_nat j))).
Proof. exact optimize_fresh_unfolded. Qed.

(* the specification implies the decision procedure, and composes along join_maps *)
Theorem C04_fresh_spec_sound : forall old new m, fresh_spec old new m -> fresh_check old new m = true.
Proof. exact fresh_spec_check. Qed.
Theorem C04_fresh_spec_compose : forall a b c m1 m2,
  fresh_spec a b m1 -> fresh_spec b c m2 -> fresh_spec a c (join_maps m1 m2).
Proof. exact fresh_spec_compose. Qed.

(* distinct PRF counters stay distinct through the optimizer *)
Theorem C04_optimize_keeps_counters_distinct : forall nodes o p,
  optimize_graph nodes o = Ok p -> NoDup (prf_ivs nodes) -> NoDup (prf_ivs (po_nodes p)).
Proof. exact optimize_keeps_counters_distinct. Qed.

(* pipeline: renumber, then optimize: counters of the optimized graph are pairwise distinct *)
Theorem C04_pipeline : forall start nodes o p,
  optimize_graph (fst (uniquify_nodes start nodes)) o = Ok p -> NoDup (prf_ivs (po_nodes p)).
Proof. exact uniquify_optimize_nodup. Qed.

(* non-vacuity: a graph with two Random nodes (one dangling), two PRFs on the same key with
   different counters, a foldable constant expression and a duplicated sub-expression *)
Definition t8 := TScalar U8.
Definition ex_fresh : list node :=
  [mkNode (OInput t8) [] [] [] t8; mkNode (ORandom t8) [] [] [] t8; mkNode (ORandom t8) [] [] [] t8;
   mkNode (OPRF 1 t8) [1] [] [] t8; mkNode (OPRF 2 t8) [1] [] [] t8;
   mkNode (OConstant t8 (VArr [2])) [] [] [] t8; mkNode (OConstant t8 (VArr [3])) [] [] [] t8;
   mkNode OAdd [5;6] [] [] t8;
   mkNode OAdd [0;3] [] [] t8; mkNode OAdd [0;3] [] [] t8; mkNode OAdd [8;9] [] [] t8;
   mkNode OAdd [10;4] [] [] t8; mkNode OAdd [11;7] [] [] t8].
Example C04_example_optimize :
  match optimize_graph ex_fresh (Some 12) with
  | Ok p => (length (po_nodes p) =? 9)%nat && fresh_check ex_fresh (po_nodes p) (po_map p)
            && eqb (prf_ivs (po_nodes p)) [1; 2]
  | _ => false
  end = true.
Proof. vm_compute. reflexivity. Qed.

Print Assumptions C04_uniquify_ids.
Print Assumptions C04_uniquify_nodup.
Print Assumptions C04_uniquify_context.
Print Assumptions C04_const_fresh.
Print Assumptions C04_meta_fresh.
Print Assumptions C04_dup_fresh.
Print Assumptions C04_dangling_fresh.
Print Assumptions C04_optimize_fresh.
Print Assumptions C04_optimize_fresh_spec.
Print Assumptions C04_fresh_spec_sound.
Print Assumptions C04_fresh_spec_compose.
Print Assumptions C04_optimize_keeps_counters_distinct.
Print Assumptions C04_pipeline.

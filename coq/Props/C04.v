(* C04 — every pseudo-random mask is fresh: no PRF input reused, no randomness merged. *)
From CC Require Import Base.Prelude Base.Scalar Base.Ty Base.Shape Graph.Value Graph.IR
  Model.Uniquify Proofs.UniquifyProofs.

(* Renumbering (uniquify_prf_id): for every node list and start value the PRF counters of the
   result, read in order, are exactly start+1 .. start+n, hence pairwise distinct, and nothing
   else changes (strip erases the counter). *)
Theorem C04_uniquify_ids : forall start nodes,
  prf_ivs (fst (uniquify_nodes start nodes)) = zseq (start + 1) (count_prf nodes)
  /\ snd (uniquify_nodes start nodes) = start + Z.of_nat (count_prf nodes)
  /\ map strip (fst (uniquify_nodes start nodes)) = map strip nodes.
Proof. exact uniquify_nodes_ids. Qed.
Theorem C04_uniquify_nodup : forall start nodes, NoDup (prf_ivs (fst (uniquify_nodes start nodes))).
Proof. exact uniquify_nodes_nodup. Qed.
(* one counter across all graphs of a context: all counters together are 1..n *)
Theorem C04_uniquify_context : forall gs,
  flat_map prf_ivs (uniquify_graphs gs) = zseq 1 (count_prf (concat gs))
  /\ map (map strip) (uniquify_graphs gs) = map (map strip) gs.
Proof. exact uniquify_graphs_ids. Qed.

Example C04_example :
  prf_ivs (fst (uniquify_nodes 0
    [mkNode (ORandom (TArray [128] Bit)) [] [] [] (TArray [128] Bit);
     mkNode (OPRF 0 (TScalar U8)) [0] [] [] (TScalar U8);
     mkNode (OPRF 0 (TScalar U8)) [0] [] [] (TScalar U8);
     mkNode (OPermutationFromPRF 0 3) [0] [] [] (TArray [3] U64)])) = [1; 2; 3].
Proof. reflexivity. Qed.

Print Assumptions C04_uniquify_ids.
Print Assumptions C04_uniquify_nodup.
Print Assumptions C04_uniquify_context.

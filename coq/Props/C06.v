(* C06 — graph optimisation preserves meaning and interface.
   Statements about the pass models of Model/Opt.v (tied literally to optimize_context on every
   run), for EVERY node list.  Vocabulary (Proofs/OptSem.v, OptSim.v):
     valuation sem ft nodes tape vals : vals assigns to every position i the tape entry (ft op) or
                                        sem op (types of deps) ty (values of deps)
     sim nodes out vals vals' m       : for every i with m[i] = Some j: vals'[j] = vals[i] and the
                                        nodes i, j have the same type
     tape_compat ft nodes m tape tape': tape' j = tape i for every tape node i with m[i] = Some j
     transport m tape                 : tape' j = tape i for the first i with m[i] = Some j
     input_sigs nodes                 : (operation, annotations, type) of the Input nodes, in order
     keeps nodes out m                : every mapped node keeps operation, annotations and type
   The first-round full statements C06_meta_sem_full / C06_optimize_sem_full are kept visible; they
   are proved, with the typing hypotheses they really need, as C06_meta_sem / C06_optimize_sem in
   section H at the end of this file. *)
From CC Require Import Base.Prelude Base.Scalar Base.Ty Base.Shape Graph.Value Graph.IR Graph.Eval Model.Opt
  Proofs.OptBase Proofs.OptSem Proofs.OptSim Proofs.OptFresh Proofs.OptDangling Proofs.OptDup
  Proofs.OptConst Proofs.OptMeta Proofs.EvalProofs Proofs.OptMetaSem Proofs.OptPipe Proofs.OptProofs
  Proofs.OptMetaEval Proofs.OptMetaFull Proofs.OptPipeFull.

(* the chained mapping only relates nodes that every pass still maps *)
Theorem C06_join_maps_length : forall m1 m2, length (join_maps m1 m2) = length m1.
Proof. intros. unfold join_maps. apply map_length. Qed.

(* ---------------------------------------------------------------- A: what evaluation means *)
(* eval_graph_nodes returns vals exactly when vals has one entry per node and entry i is the
   tape entry i (tape operations) or eval_node on the types and values of the dependencies, all
   of which precede i *)
Theorem C06_eval_characterised : forall nodes tape vals,
  eval_graph_nodes nodes tape = Ok vals <->
  (length vals = length nodes /\
   forall i nd v, nth_error nodes i = Some nd -> nth_error vals i = Some v ->
     if from_tape (n_op nd) then tape (Z.of_nat i) = Some v
     else exists vs dts,
         mapM (dep_get vals i) (n_deps nd) = Ok vs /\
         mapM (dep_get (map n_ty nodes) i) (n_deps nd) = Ok dts /\
         eval_node (n_op nd) dts (n_ty nd) vs = Ok v).
Proof. exact eval_graph_nodes_valuation. Qed.

(* the same for any node semantics: the generic forward evaluator and the valuation predicate *)
Theorem C06_geval_characterised : forall sem ft nodes tape vals,
  geval sem ft nodes tape = Ok vals <-> valuation sem ft nodes tape vals.
Proof. exact geval_valuation. Qed.
Theorem C06_eval_is_geval : forall nodes tape,
  eval_graph_nodes nodes tape = geval eval_node from_tape nodes tape.
Proof. exact eval_graph_nodes_geval. Qed.
Theorem C06_valuation_deterministic : forall sem ft nodes tape vals1 vals2,
  valuation sem ft nodes tape vals1 -> valuation sem ft nodes tape vals2 -> vals1 = vals2.
Proof. exact valuation_fun. Qed.

(* ---------------------------------------------------------------- B: dangling nodes *)
Theorem C06_dangling_sem : forall nodes outp p tape vals,
  opt_dangling nodes (Some outp) = Ok p ->
  eval_graph_nodes nodes tape = Ok vals ->
  exists vals', eval_graph_nodes (po_nodes p) (transport (po_map p) tape) = Ok vals' /\
                sim nodes (po_nodes p) vals vals' (po_map p) /\
                (0 <= outp < Z.of_nat (length nodes) ->
                 exists j, po_output p = Some j /\ nth_error (po_map p) (Z.to_nat outp) = Some (Some j)).
Proof. exact dangling_sem_transport. Qed.

(* parametric in the node semantics and in the set of tape operations *)
Theorem C06_dangling_sem_generic : forall sem ft nodes outp p tape vals,
  opt_dangling nodes (Some outp) = Ok p ->
  valuation sem ft nodes tape vals ->
  forall tape', tape_compat ft nodes (po_map p) tape tape' ->
    exists vals', valuation sem ft (po_nodes p) tape' vals' /\ sim nodes (po_nodes p) vals vals' (po_map p).
Proof. exact dangling_sem. Qed.

(* map length, images in range, no two nodes share an image, kept nodes keep operation,
   annotations and type, and the Input nodes are unchanged (unused ones included) *)
Theorem C06_dangling_inputs_annots : forall nodes outp p,
  opt_dangling nodes (Some outp) = Ok p ->
  length (po_map p) = length nodes /\
  bounded (po_map p) (length (po_nodes p)) /\ inj_map (po_map p) /\
  keeps nodes (po_nodes p) (po_map p) /\
  input_sigs (po_nodes p) = input_sigs nodes /\
  (0 <= outp < Z.of_nat (length nodes) -> nth_error (po_map p) (Z.to_nat outp) = Some (po_output p)).
Proof. exact dangling_struct. Qed.

(* ---------------------------------------------------------------- C: duplicates *)
(* typed_nodes infer nodes: dependencies precede the node and n_ty = infer op (types of deps) *)
Theorem C06_dup_sem : forall infer nodes o p,
  typed_nodes infer nodes -> opt_dup nodes o = Ok p ->
  forall tape vals, eval_graph_nodes nodes tape = Ok vals ->
  forall tape', tape_compat from_tape nodes (po_map p) tape tape' ->
  exists vals', eval_graph_nodes (po_nodes p) tape' = Ok vals' /\
                sim nodes (po_nodes p) vals vals' (po_map p).
Proof. exact dup_sem_ok. Qed.

(* with the transported tape, when no tape operation has a de-duplication key (Input, Random,
   PRF nodes never have one; the opaque deterministic operations CuckooHash/Shard/Join/Sort do,
   and merging two of them is only meaningful under a tape that is a function of their inputs,
   which C06_dup_sem expresses through tape_compat) *)
Theorem C06_dup_sem_transport : forall infer nodes o p tape vals,
  typed_nodes infer nodes ->
  (forall nd deps, In nd nodes -> from_tape (n_op nd) = true -> node_key nd deps = Ok None) ->
  opt_dup nodes o = Ok p ->
  eval_graph_nodes nodes tape = Ok vals ->
  exists vals', eval_graph_nodes (po_nodes p) (transport (po_map p) tape) = Ok vals' /\
                sim nodes (po_nodes p) vals vals' (po_map p) /\
                (forall x, o = Some x -> 0 <= x < Z.of_nat (length nodes) ->
                           nth_error (po_map p) (Z.to_nat x) = Some (po_output p)).
Proof. exact dup_sem_transport. Qed.

Theorem C06_dup_sem_generic : forall sem ft infer nodes o p tape vals,
  typed_nodes infer nodes ->
  opt_dup nodes o = Ok p ->
  valuation sem ft nodes tape vals ->
  forall tape', tape_compat ft nodes (po_map p) tape tape' ->
    exists vals', valuation sem ft (po_nodes p) tape' vals' /\ sim nodes (po_nodes p) vals vals' (po_map p).
Proof. exact dup_sem_thm. Qed.

Theorem C06_dup_inputs : forall nodes o p, opt_dup nodes o = Ok p ->
  length (po_map p) = length nodes /\ input_sigs (po_nodes p) = input_sigs nodes /\
  fresh_spec nodes (po_nodes p) (po_map p).
Proof. exact dup_basic_thm. Qed.

Theorem C06_dup_annots : forall ft infer nodes o p,
  typed_nodes infer nodes ->
  opt_dup nodes o = Ok p ->
  length (po_map p) = length nodes /\
  bounded (po_map p) (length (po_nodes p)) /\
  keeps nodes (po_nodes p) (po_map p) /\
  input_sigs (po_nodes p) = input_sigs nodes /\
  fresh_spec nodes (po_nodes p) (po_map p) /\
  (forall x, o = Some x -> 0 <= x < Z.of_nat (length nodes) ->
             nth_error (po_map p) (Z.to_nat x) = Some (po_output p)) /\
  ((forall nd deps, In nd nodes -> ft (n_op nd) = true -> node_key nd deps = Ok None) ->
   ft_first ft nodes (po_map p)).
Proof. exact dup_struct_thm. Qed.

(* ---------------------------------------------------------------- D: constants *)
(* const_typed nodes: a Constant node has the type of its literal *)
Theorem C06_const_sem : forall nodes o p tape vals,
  const_typed nodes ->
  opt_const nodes o = Ok p ->
  eval_graph_nodes nodes tape = Ok vals ->
  exists vals', eval_graph_nodes (po_nodes p) (transport (po_map p) tape) = Ok vals' /\
                sim nodes (po_nodes p) vals vals' (po_map p) /\
                (forall x, o = Some x -> 0 <= x < Z.of_nat (length nodes) ->
                           nth_error (po_map p) (Z.to_nat x) = Some (po_output p)).
Proof. exact const_sem_transport. Qed.

Theorem C06_const_inputs : forall nodes o p, opt_const nodes o = Ok p ->
  length (po_map p) = length nodes /\ input_sigs (po_nodes p) = input_sigs nodes /\
  fresh_spec nodes (po_nodes p) (po_map p).
Proof. exact const_basic_thm. Qed.

(* every node keeps its type; an annotated node keeps operation and annotations (is never
   folded); any other node keeps its operation or becomes a Constant of its own type *)
Theorem C06_const_annots : forall nodes o p, const_typed nodes -> opt_const nodes o = Ok p ->
  forall i j nd, nth_error nodes i = Some nd -> nth_error (po_map p) i = Some (Some j) ->
    exists nd', nth_error (po_nodes p) (Z.to_nat j) = Some nd' /\ n_ty nd' = n_ty nd /\
                (n_annots nd <> [] -> n_op nd' = n_op nd /\ n_annots nd' = n_annots nd) /\
                (n_op nd' = n_op nd \/ exists v, n_op nd' = OConstant (n_ty nd) v).
Proof. exact const_annots. Qed.

(* ---------------------------------------------------------------- E: meta operations *)
(* proved: interface (operation and type of the Input nodes, in order), freshness, output;
   annotations of a resolved getter are appended to the node it resolves to, so an Input node
   can gain annotations: the statement is about (operation, type) *)
Theorem C06_meta_inputs : forall nodes o p,
  opt_meta nodes o = Ok p ->
  length (po_map p) = length nodes /\
  input_tys (po_nodes p) = input_tys nodes /\
  fresh_spec nodes (po_nodes p) (po_map p) /\
  (forall x, o = Some x -> 0 <= x < Z.of_nat (length nodes) ->
             nth_error (po_map p) (Z.to_nat x) = Some (po_output p)).
Proof. exact meta_struct_thm. Qed.

(* Value preservation for graphs WITHOUT ArrayToVector and Zip: TupleGet of CreateTuple,
   NamedTupleGet of CreateNamedTuple and VectorGet (constant U64 index) of CreateVector are
   replaced by the element; a VectorGet on an unknown vector is re-emitted on the mapped operands;
   A2B (B2A st x) is replaced by x, and B2A st (A2B x) by x when st is the scalar type of x.
   meta_hyps nodes: Constant nodes have the type of their literal, every node has fewer than 2^64
   dependencies (true of any Rust Vec), ArrayToVector and Zip do not occur, and constructors,
   getters, A2B and B2A carry the type the graph builder gives them (meta_typed).  If the graph
   contains A2B or B2A, the values of the run must be well typed (vals_typed; the round trips are
   the identity only on normalised elements resp. on bits). *)
Theorem C06_meta_sem_partial : forall nodes o p tape vals,
  meta_hyps nodes ->
  (bits_ops nodes -> vals_typed nodes vals) ->
  opt_meta nodes o = Ok p ->
  eval_graph_nodes nodes tape = Ok vals ->
  exists vals', eval_graph_nodes (po_nodes p) (transport (po_map p) tape) = Ok vals' /\
                sim nodes (po_nodes p) vals vals' (po_map p) /\
                (forall x, o = Some x -> 0 <= x < Z.of_nat (length nodes) ->
                           nth_error (po_map p) (Z.to_nat x) = Some (po_output p)).
Proof. exact meta_sem_transport. Qed.

(* The same without the restriction `simple_meta` (VectorGet of Zip and of ArrayToVector, which
   create Get / GetSlice / CreateTuple nodes).  As written here the statement lacks two hypotheses
   it needs (few_deps, and the builder's types of Zip / ArrayToVector nodes, zip_a2v_typed: with an
   ill-typed Zip node the CreateTuple created for VectorGet (Zip ..) i has another type than the
   VectorGet it replaces); with them it is PROVED below as C06_meta_sem (section H). *)
Definition C06_meta_sem_full : Prop := forall nodes o p tape vals,
  const_typed nodes -> meta_typed nodes -> vals_typed nodes vals ->
  opt_meta nodes o = Ok p ->
  eval_graph_nodes nodes tape = Ok vals ->
  exists vals', eval_graph_nodes (po_nodes p) (transport (po_map p) tape) = Ok vals' /\
                sim nodes (po_nodes p) vals vals' (po_map p).

(* ---------------------------------------------------------------- F: the pipeline *)
Theorem C06_optimize_inputs : forall nodes o p,
  optimize_graph nodes o = Ok p -> input_tys (po_nodes p) = input_tys nodes.
Proof. exact optimize_inputs. Qed.

(* values are preserved along the joined map for every stage-wise compatible chain of tapes,
   GIVEN value preservation of the meta stage and typedness of the graph entering de-duplication *)
Theorem C06_optimize_sem_partial : forall infer nodes o p,
  optimize_graph nodes o = Ok p ->
  const_typed nodes ->
  exists p1 p2 p3 p4,
    opt_const nodes o = Ok p1 /\ opt_meta (po_nodes p1) (po_output p1) = Ok p2 /\
    opt_dup (po_nodes p2) (po_output p2) = Ok p3 /\ opt_dangling (po_nodes p3) (po_output p3) = Ok p4 /\
    (pass_sem_ok (po_nodes p1) p2 -> typed_nodes infer (po_nodes p2) ->
     forall t0 t1 t2 t3 t4 vals,
       eval_graph_nodes nodes t0 = Ok vals ->
       tape_compat from_tape nodes (po_map p1) t0 t1 ->
       tape_compat from_tape (po_nodes p1) (po_map p2) t1 t2 ->
       tape_compat from_tape (po_nodes p2) (po_map p3) t2 t3 ->
       tape_compat from_tape (po_nodes p3) (po_map p4) t3 t4 ->
       exists vals', eval_graph_nodes (po_nodes p) t4 = Ok vals' /\
                     sim nodes (po_nodes p) vals vals' (po_map p)).
Proof. exact optimize_sem_chain. Qed.

(* the same with the tapes transported stage by stage; the hypotheses on the two intermediate
   graphs (meta_hyps for the graph entering the meta pass; typedness and absence of keyed tape
   operations for the graph entering de-duplication) are NOT derived from the input graph here *)
Theorem C06_optimize_sem_transport_partial : forall infer nodes o p tape vals,
  optimize_graph nodes o = Ok p ->
  const_typed nodes ->
  eval_graph_nodes nodes tape = Ok vals ->
  exists p1 p2 p3 p4,
    opt_const nodes o = Ok p1 /\ opt_meta (po_nodes p1) (po_output p1) = Ok p2 /\
    opt_dup (po_nodes p2) (po_output p2) = Ok p3 /\ opt_dangling (po_nodes p3) (po_output p3) = Ok p4 /\
    (meta_hyps (po_nodes p1) -> ~ bits_ops (po_nodes p1) -> typed_nodes infer (po_nodes p2) ->
     (forall nd deps, In nd (po_nodes p2) -> from_tape (n_op nd) = true -> node_key nd deps = Ok None) ->
     exists vals', eval_graph_nodes (po_nodes p)
                     (transport (po_map p4) (transport (po_map p3) (transport (po_map p2) (transport (po_map p1) tape))))
                   = Ok vals' /\
                   sim nodes (po_nodes p) vals vals' (po_map p)).
Proof. exact optimize_sem_transport. Qed.

(* The pipeline with hypotheses on the INPUT graph and run only, for graphs without ArrayToVector
   and Zip (simple_ops) and without tape operations that have a de-duplication key (nokey: no
   CuckooHash / Shard / Join / Sort / ...): the graph is typed by an inference function infer
   that gives a Constant the type of its literal (typed_nodes, infer_const), Constant nodes carry
   the literal's type, constructors, getters, A2B and B2A carry the builder's types (meta_typed),
   nodes have fewer than 2^64 dependencies, and the values of the run are well typed
   (vals_typed; type soundness of evaluation is C09).  Then the optimized graph evaluates under
   the tape transported stage by stage, every node in the domain of the joined map keeps its
   value and type, and the new output is the image of the old output and has its value. *)
Theorem C06_optimize_sem_partial_simple : forall infer nodes o p tape vals,
  infer_const infer -> typed_nodes infer nodes ->
  const_typed nodes -> few_deps nodes -> simple_ops nodes -> meta_typed nodes -> nokey nodes ->
  optimize_graph nodes o = Ok p ->
  eval_graph_nodes nodes tape = Ok vals ->
  vals_typed nodes vals ->
  exists p1 p2 p3 p4,
    opt_const nodes o = Ok p1 /\ opt_meta (po_nodes p1) (po_output p1) = Ok p2 /\
    opt_dup (po_nodes p2) (po_output p2) = Ok p3 /\ opt_dangling (po_nodes p3) (po_output p3) = Ok p4 /\
    exists vals', eval_graph_nodes (po_nodes p)
                    (transport (po_map p4) (transport (po_map p3) (transport (po_map p2) (transport (po_map p1) tape))))
                  = Ok vals' /\
                  sim nodes (po_nodes p) vals vals' (po_map p) /\
                  exists x j v, o = Some x /\ po_output p = Some j /\ 0 <= x /\ 0 <= j /\
                                nth_error (po_map p) (Z.to_nat x) = Some (Some j) /\
                                nth_error vals (Z.to_nat x) = Some v /\ nth_error vals' (Z.to_nat j) = Some v.
Proof. exact optimize_sem_simple_output. Qed.

(* annotations (Send, Private, ...): the image of every node in the domain of the pipeline's map
   carries all annotations of the node (annots_incl), for the same class of graphs.  In the meta
   pass the annotations of a resolved getter are appended to the element it resolves to. *)
Theorem C06_optimize_annots_partial : forall infer nodes o p tape vals,
  infer_const infer -> typed_nodes infer nodes ->
  const_typed nodes -> few_deps nodes -> simple_ops nodes -> meta_typed nodes ->
  optimize_graph nodes o = Ok p ->
  eval_graph_nodes nodes tape = Ok vals ->
  vals_typed nodes vals ->
  forall i j, nth_error (po_map p) i = Some (Some j) ->
    exists nd nd', nth_error nodes i = Some nd /\ 0 <= j /\ nth_error (po_nodes p) (Z.to_nat j) = Some nd' /\
                   incl (n_annots nd) (n_annots nd').
Proof. exact optimize_annots. Qed.
Theorem C06_meta_annots_partial : forall nodes o p tape vals,
  meta_hyps nodes -> (bits_ops nodes -> vals_typed nodes vals) ->
  opt_meta nodes o = Ok p -> eval_graph_nodes nodes tape = Ok vals ->
  forall i j, nth_error (po_map p) i = Some (Some j) ->
    exists nd nd', nth_error nodes i = Some nd /\ 0 <= j /\ nth_error (po_nodes p) (Z.to_nat j) = Some nd' /\
                   incl (n_annots nd) (n_annots nd').
Proof. exact meta_annots. Qed.
(* full statement: the same for every typed graph, not only those without ArrayToVector / Zip *)
Definition C06_optimize_annots_full : Prop := forall infer nodes o p,
  typed_nodes infer nodes -> const_typed nodes -> optimize_graph nodes o = Ok p ->
  annots_incl nodes (po_nodes p) (po_map p).

(* the constant pass preserves these hypotheses (so they need only be assumed of the input);
   well-typedness of the values is preserved too (const_preserves_vals_typed) *)
Theorem C06_const_preserves_hyps : forall infer nodes o p,
  const_typed nodes -> opt_const nodes o = Ok p ->
  const_typed (po_nodes p) /\
  (few_deps nodes -> few_deps (po_nodes p)) /\
  (simple_ops nodes -> simple_ops (po_nodes p)) /\
  (nokey nodes -> nokey (po_nodes p)) /\
  (infer_const infer -> typed_nodes infer nodes ->
   typed_nodes infer (po_nodes p) /\ (meta_typed nodes -> meta_typed (po_nodes p))).
Proof. exact const_preserves. Qed.

Definition C06_optimize_sem_full : Prop := forall infer nodes o p tape vals,
  typed_nodes infer nodes -> const_typed nodes ->
  optimize_graph nodes o = Ok p ->
  eval_graph_nodes nodes tape = Ok vals ->
  exists vals', eval_graph_nodes (po_nodes p) (transport (po_map p) tape) = Ok vals' /\
                sim nodes (po_nodes p) vals vals' (po_map p).

(* ---------------------------------------------------------------- non-vacuity *)
Definition t8 := TScalar U8.
Definition u64 := TScalar U64.
Definition inp t := mkNode (OInput t) [] [] [] t.

Example C06_ex_dangling :
  opt_dangling [inp t8; inp t8; mkNode OAdd [0;0] [] [] t8; mkNode OAdd [0;1] [] [APrivate] t8] (Some 3)
  = Ok (mkPassOut [inp t8; inp t8; mkNode OAdd [0;1] [] [APrivate] t8] [Some 0; Some 1; None; Some 2] (Some 2)).
Proof. vm_compute. reflexivity. Qed.

Example C06_ex_dup :
  opt_dup [inp t8; mkNode OAdd [0;0] [] [] t8; mkNode OAdd [0;0] [] [] t8; mkNode OMultiply [1;2] [] [] t8] (Some 3)
  = Ok (mkPassOut [inp t8; mkNode OAdd [0;0] [] [] t8; mkNode OMultiply [1;1] [] [] t8]
                  [Some 0; Some 1; Some 1; Some 2] (Some 2)).
Proof. vm_compute. reflexivity. Qed.

Definition c8 x := mkNode (OConstant t8 (VArr [x])) [] [] [] t8.
Example C06_ex_const :
  opt_const [c8 2; c8 255; mkNode OAdd [0;1] [] [] t8; inp t8; mkNode OAdd [2;3] [] [] t8;
             mkNode OSubtract [1;0] [] [ASend 0 1] t8; c8 1] (Some 4)
  = Ok (mkPassOut [c8 2; c8 255; c8 1; inp t8; mkNode OAdd [2;3] [] [] t8; mkNode OSubtract [1;0] [] [ASend 0 1] t8]
                  [Some 0; Some 1; Some 2; Some 3; Some 4; Some 5; Some 2] (Some 4)).
Proof. vm_compute. reflexivity. Qed.

Example C06_ex_meta :
  opt_meta [inp t8; inp u64; mkNode OCreateTuple [0;1] [] [] (TTuple [t8;u64]);
            mkNode (OTupleGet 1) [2] [] [APrivate] u64;
            mkNode (OConstant u64 (VArr [1])) [] [] [] u64;
            mkNode (OCreateVector t8) [0;0] [] [] (TVector 2 t8); mkNode OVectorGet [5;4] [] [] t8] (Some 6)
  = Ok (mkPassOut [inp t8; mkNode (OInput u64) [] [] [APrivate] u64;
                   mkNode OCreateTuple [0;1] [] [] (TTuple [t8;u64]); mkNode (OTupleGet 1) [2] [] [] u64;
                   mkNode (OConstant u64 (VArr [1])) [] [] [] u64;
                   mkNode (OCreateVector t8) [0;0] [] [] (TVector 2 t8); mkNode OVectorGet [5;4] [] [] t8]
                  [Some 0; Some 1; Some 2; Some 1; Some 4; Some 5; Some 0] (Some 0)).
Proof. vm_compute. reflexivity. Qed.

(* the conclusion of C06_meta_sem_partial on this instance: original and rewritten graph under
   the transported tape *)
Definition ex_meta_nodes : list node :=
  [inp t8; inp u64; mkNode OCreateTuple [0;1] [] [] (TTuple [t8;u64]);
   mkNode (OTupleGet 1) [2] [] [APrivate] u64;
   mkNode (OConstant u64 (VArr [1])) [] [] [] u64;
   mkNode (OCreateVector t8) [0;0] [] [] (TVector 2 t8); mkNode OVectorGet [5;4] [] [] t8].
Definition ex_meta_tape := tape_of_list [(0, VArr [7]); (1, VArr [9])].
Example C06_ex_meta_eval :
  match opt_meta ex_meta_nodes (Some 6) with
  | Ok p => (eqb (eval_graph_nodes ex_meta_nodes ex_meta_tape)
                 (Ok [VArr [7]; VArr [9]; VTup [VArr [7]; VArr [9]]; VArr [9]; VArr [1];
                      VTup [VArr [7]; VArr [7]]; VArr [7]]))
            && (eqb (eval_graph_nodes (po_nodes p) (transport (po_map p) ex_meta_tape))
                    (Ok [VArr [7]; VArr [9]; VTup [VArr [7]; VArr [9]]; VArr [9]; VArr [1];
                         VTup [VArr [7]; VArr [7]]; VArr [7]]))
            && eqb (po_map p) [Some 0; Some 1; Some 2; Some 1; Some 4; Some 5; Some 0]
  | _ => false
  end = true.
Proof. vm_compute. reflexivity. Qed.

(* A2B / B2A: B2A U8 (A2B x) is replaced by x (x : U8), B2A I8 (A2B x) is kept, A2B (B2A U8 y) is
   replaced by y; both graphs evaluate to the same values along the map *)
Definition ex_bits_nodes : list node :=
  [inp t8; mkNode OA2B [0] [] [] (TArray [8] Bit); mkNode (OB2A U8) [1] [] [] t8;
   mkNode (OB2A I8) [1] [] [] (TScalar I8); mkNode OA2B [2] [] [] (TArray [8] Bit); mkNode OAdd [2;2] [] [] t8].
Example C06_ex_meta_bits :
  match opt_meta ex_bits_nodes (Some 5) with
  | Ok p => eqb (po_map p) [Some 0; Some 1; Some 0; Some 3; Some 1; Some 5]
            && eqb (eval_graph_nodes ex_bits_nodes (tape_of_list [(0, VArr [200])]))
                   (Ok [VArr [200]; VArr [0;0;0;1;0;0;1;1]; VArr [200]; VArr [200]; VArr [0;0;0;1;0;0;1;1]; VArr [144]])
            && eqb (eval_graph_nodes (po_nodes p) (transport (po_map p) (tape_of_list [(0, VArr [200])])))
                   (Ok [VArr [200]; VArr [0;0;0;1;0;0;1;1]; VArr [200]; VArr [200]; VArr [0;0;0;1;0;0;1;1]; VArr [144]])
  | _ => false
  end = true.
Proof. vm_compute. reflexivity. Qed.

Definition ex_opt : list node :=
  [inp t8; mkNode (ORandom t8) [] [] [] t8; mkNode (ORandom t8) [] [] [] t8;
   mkNode (OPRF 1 t8) [1] [] [] t8; mkNode (OPRF 2 t8) [1] [] [] t8;
   c8 2; c8 3; mkNode OAdd [5;6] [] [] t8;
   mkNode OAdd [0;3] [] [] t8; mkNode OAdd [0;3] [] [] t8; mkNode OAdd [8;9] [] [] t8;
   mkNode OAdd [10;4] [] [] t8; mkNode OAdd [11;7] [] [] t8].
Example C06_ex_optimize :
  optimize_graph ex_opt (Some 12)
  = Ok (mkPassOut [inp t8; mkNode (ORandom t8) [] [] [] t8; mkNode (OPRF 1 t8) [1] [] [] t8;
                   mkNode (OPRF 2 t8) [1] [] [] t8; c8 5; mkNode OAdd [0;2] [] [] t8;
                   mkNode OAdd [5;5] [] [] t8; mkNode OAdd [6;3] [] [] t8; mkNode OAdd [7;4] [] [] t8]
                  [Some 0; Some 1; None; Some 2; Some 3; None; None; Some 4; Some 5; Some 5; Some 6; Some 7; Some 8]
                  (Some 8)).
Proof. vm_compute. reflexivity. Qed.
(* the hypotheses of the semantic theorems are satisfiable: the example graph evaluates *)
Example C06_ex_eval :
  eval_graph_nodes ex_opt (tape_of_list [(0, VArr [7]); (1, VArr [9]); (2, VArr [1]); (3, VArr [100]); (4, VArr [200])])
  = Ok [VArr [7]; VArr [9]; VArr [1]; VArr [100]; VArr [200]; VArr [2]; VArr [3]; VArr [5]; VArr [107];
        VArr [107]; VArr [214]; VArr [158]; VArr [163]].
Proof. vm_compute. reflexivity. Qed.

(* the hypotheses of C06_optimize_sem_partial_simple are satisfiable by a graph on which all
   four passes act: a tuple getter, a foldable constant expression, a duplicated sub-expression
   and, after these, dangling nodes *)
Definition ex_h : list node :=
  [inp t8; mkNode (ORandom t8) [] [] [] t8; mkNode OCreateTuple [0;1] [] [] (TTuple [t8;t8]);
   mkNode (OTupleGet 1) [2] [] [] t8; c8 2; c8 3; mkNode OAdd [4;5] [] [] t8;
   mkNode OAdd [3;6] [] [] t8; mkNode OAdd [3;6] [] [] t8; mkNode OAdd [7;8] [] [] t8].
Definition infer_ex (o : op) (dts : list ty) : ty :=
  match o with
  | OInput t | ORandom t | OConstant t _ => t
  | OCreateTuple => TTuple dts
  | _ => t8
  end.
Example C06_ex_hyps :
  infer_const infer_ex /\ typed_nodes infer_ex ex_h /\ const_typed ex_h /\ few_deps ex_h /\
  simple_ops ex_h /\ meta_typed ex_h /\ nokey ex_h.
Proof.
  split; [intros t v; reflexivity|]. split.
  { intros i nd E.
    do 10 (destruct i as [|i]; [injection E as <-; eexists; split; [cbv; reflexivity|reflexivity]|]).
    destruct i; discriminate. }
  split.
  { intros nd t v I. repeat (destruct I as [<-|I]; [cbn; intros H; try discriminate; now injection H as <- _|]). destruct I. }
  split.
  { intros nd I. repeat (destruct I as [<-|I]; [vm_compute; reflexivity|]). destruct I. }
  split.
  { intros nd I. repeat (destruct I as [<-|I]; [reflexivity|]). destruct I. }
  split.
  { intros i nd dts E D.
    do 10 (destruct i as [|i]; [injection E as <-; cbv in D; injection D as <-; cbn;
                                first [exact I | reflexivity | (eexists; split; reflexivity)]|]).
    destruct i; discriminate. }
  { intros nd I Ft. repeat (destruct I as [<-|I]; [try discriminate Ft; intros nd' deps E; unfold node_key; rewrite E; reflexivity|]). destruct I. }
Qed.

Example C06_ex_hyps_optimize :
  optimize_graph ex_h (Some 9)
  = Ok (mkPassOut [inp t8; mkNode (ORandom t8) [] [] [] t8; c8 5; mkNode OAdd [1;2] [] [] t8;
                   mkNode OAdd [3;3] [] [] t8]
                  [Some 0; Some 1; None; Some 1; None; None; Some 2; Some 3; Some 3; Some 4] (Some 4)).
Proof. vm_compute. reflexivity. Qed.

Print Assumptions C06_join_maps_length.
Print Assumptions C06_eval_characterised.
Print Assumptions C06_geval_characterised.
Print Assumptions C06_eval_is_geval.
Print Assumptions C06_valuation_deterministic.
Print Assumptions C06_dangling_sem.
Print Assumptions C06_dangling_sem_generic.
Print Assumptions C06_dangling_inputs_annots.
Print Assumptions C06_dup_sem.
Print Assumptions C06_dup_sem_transport.
Print Assumptions C06_dup_sem_generic.
Print Assumptions C06_dup_inputs.
Print Assumptions C06_dup_annots.
Print Assumptions C06_const_sem.
Print Assumptions C06_const_inputs.
Print Assumptions C06_const_annots.
Print Assumptions C06_meta_inputs.
Print Assumptions C06_meta_sem_partial.
Print Assumptions C06_optimize_inputs.
Print Assumptions C06_optimize_sem_partial.
Print Assumptions C06_optimize_sem_transport_partial.
Print Assumptions C06_optimize_sem_partial_simple.
Print Assumptions C06_const_preserves_hyps.
Print Assumptions C06_optimize_annots_partial.
Print Assumptions C06_meta_annots_partial.

(* ================================================================ H: every proxy *)
(* The two evaluator facts behind the rewrites of the meta pass that CREATE nodes. *)
(* VectorGet (ArrayToVector a) i, i.e. entry i of the vector of rows of a, is what Get a [i]
   (rank 1) resp. GetSlice a [i, ...] (rank > 1) evaluates to (row_op / elem_ty: the operation and
   the type meta_operation_optimizer.rs:283 gives the new node) *)
Theorem C06_a2v_row : forall d rest st t va ws idx w,
  valid_shape (d :: rest) ->
  eval_node OArrayToVector [TArray (d :: rest) st] t [va] = Ok (VTup ws) ->
  0 <= idx < d -> znth ws idx = Ok w ->
  eval_node (row_op rest idx) [TArray (d :: rest) st] (elem_ty rest st) [va] = Ok w.
Proof. exact a2v_row_sem. Qed.
(* VectorGet (Zip vs) i is the tuple of the i-th entries of the operands, each of which exists *)
Theorem C06_zip_row : forall dts t vs ws idx w,
  eval_node OZip dts t vs = Ok (VTup ws) -> znth ws idx = Ok w ->
  exists ls, mapM tup_of vs = Ok ls /\
             w = VTup (map (fun l => nth (Z.to_nat idx) l (VArr [])) ls) /\
             Forall (fun l => (Z.to_nat idx < length l)%nat) ls.
Proof. exact zip_row_sem. Qed.

(* Value preservation of the meta-operation pass for EVERY graph (ArrayToVector and Zip proxies
   included; a VectorGet whose index is not a constant, or whose constant index is out of range
   for a CreateVector, is left alone by the pass).  meta_hyps_full nodes:
     const_typed    - a Constant carries its literal's type (the index proxy PNumber is read off
                      the literal, the evaluator reads the node);
     few_deps       - fewer than 2^64 dependencies per node (the evaluator reads the index modulo
                      2^64, the pass uses the u64 itself);
     meta_typed     - constructors, getters, A2B, B2A carry the builder's types (the replaced getter
                      and the element replacing it must have the same type);
     zip_a2v_typed  - Zip nodes have type Vector n (Tuple ets) over operands Vector n et_k, and
                      ArrayToVector nodes have type Vector d (row type) over an array d :: rest
                      with positive dimensions and d < 2^64 (needed: the new CreateTuple / Get /
                      GetSlice node must get the type of the VectorGet it replaces; positive
                      dimensions for the index arithmetic of GetSlice; d < 2^64 because the
                      VectorGet being replaced reads its index modulo 2^64).
   Well-typed values are needed only if the graph contains A2B / B2A (as before). *)
Theorem C06_meta_sem : forall nodes o p tape vals,
  meta_hyps_full nodes ->
  (bits_ops nodes -> vals_typed nodes vals) ->
  opt_meta nodes o = Ok p ->
  eval_graph_nodes nodes tape = Ok vals ->
  exists vals', eval_graph_nodes (po_nodes p) (transport (po_map p) tape) = Ok vals' /\
                sim nodes (po_nodes p) vals vals' (po_map p) /\
                (forall x, o = Some x -> 0 <= x < Z.of_nat (length nodes) ->
                           nth_error (po_map p) (Z.to_nat x) = Some (po_output p)).
Proof. exact meta_sem_transport_full. Qed.

(* the hypothesis pass_sem_ok of C06_optimize_sem_partial, discharged: for every compatible tape *)
Theorem C06_meta_sem_compat : forall nodes o p tape vals,
  meta_hyps_full nodes ->
  (bits_ops nodes -> vals_typed nodes vals) ->
  opt_meta nodes o = Ok p ->
  eval_graph_nodes nodes tape = Ok vals ->
  forall tape', tape_compat from_tape nodes (po_map p) tape tape' ->
  exists vals', eval_graph_nodes (po_nodes p) tape' = Ok vals' /\
                sim nodes (po_nodes p) vals vals' (po_map p).
Proof. exact meta_sem_compat_full. Qed.
Theorem C06_meta_pass_sem_ok : forall nodes o p,
  meta_hyps_full nodes -> ~ bits_ops nodes -> opt_meta nodes o = Ok p -> pass_sem_ok nodes p.
Proof. exact meta_sem_ok_full. Qed.

Theorem C06_meta_annots : forall nodes o p tape vals,
  meta_hyps_full nodes -> (bits_ops nodes -> vals_typed nodes vals) ->
  opt_meta nodes o = Ok p -> eval_graph_nodes nodes tape = Ok vals ->
  forall i j, nth_error (po_map p) i = Some (Some j) ->
    exists nd nd', nth_error nodes i = Some nd /\ 0 <= j /\ nth_error (po_nodes p) (Z.to_nat j) = Some nd' /\
                   incl (n_annots nd) (n_annots nd').
Proof. exact meta_annots_full. Qed.

(* Zip / ArrayToVector typing, like every node-local typing predicate that holds of Constant
   nodes, survives constant folding (so it is assumed of the input graph only) *)
Theorem C06_const_preserves_local : forall (P : op -> list ty -> ty -> Prop) infer nodes o p,
  const_typed nodes -> opt_const nodes o = Ok p ->
  infer_const infer -> typed_nodes infer nodes ->
  (forall T v dts t, P (OConstant T v) dts t) ->
  local_typed P nodes -> local_typed P (po_nodes p).
Proof. exact const_preserves_local. Qed.

(* THE PIPELINE, hypotheses on the input graph and run only, no restriction on the operations
   except nokey (no tape operation with a de-duplication key; see C06_optimize_sem_chain for the
   statement without it): the graph is typed by an inference function infer that gives a Constant
   its literal's type (infer_const) and gives the three kinds of node the meta pass creates the
   builder's types (infer_meta: Get / GetSlice of a row, VectorGet, CreateTuple); Constants carry
   their literal's type; nodes have fewer than 2^64 dependencies; constructors, getters, A2B, B2A,
   Zip, ArrayToVector carry the builder's types; if the graph contains A2B / B2A the values of the
   run are well typed.  Then the optimized graph evaluates under the tape transported stage by
   stage, every node in the domain of the joined map keeps its value and type, and the new output
   is the image of the old output and has its value. *)
Theorem C06_optimize_sem : forall infer nodes o p tape vals,
  infer_const infer -> infer_meta infer -> typed_nodes infer nodes ->
  const_typed nodes -> few_deps nodes -> meta_typed nodes -> zip_a2v_typed nodes ->
  optimize_graph nodes o = Ok p ->
  eval_graph_nodes nodes tape = Ok vals ->
  (bits_ops nodes -> vals_typed nodes vals) ->
  nokey nodes ->
  exists p1 p2 p3 p4,
    opt_const nodes o = Ok p1 /\ opt_meta (po_nodes p1) (po_output p1) = Ok p2 /\
    opt_dup (po_nodes p2) (po_output p2) = Ok p3 /\ opt_dangling (po_nodes p3) (po_output p3) = Ok p4 /\
    exists vals', eval_graph_nodes (po_nodes p)
                    (transport (po_map p4) (transport (po_map p3) (transport (po_map p2) (transport (po_map p1) tape))))
                  = Ok vals' /\
                  sim nodes (po_nodes p) vals vals' (po_map p) /\
                  exists x j v, o = Some x /\ po_output p = Some j /\ 0 <= x /\ 0 <= j /\
                                nth_error (po_map p) (Z.to_nat x) = Some (Some j) /\
                                nth_error vals (Z.to_nat x) = Some v /\ nth_error vals' (Z.to_nat j) = Some v.
Proof. exact optimize_sem_all_output. Qed.

(* without nokey: for every chain of tapes compatible stage by stage after the constant stage
   (merging two CuckooHash / Shard / Join / Sort nodes is meaningful under such tapes only) *)
Theorem C06_optimize_sem_chain : forall infer nodes o p tape vals,
  infer_const infer -> infer_meta infer -> typed_nodes infer nodes ->
  const_typed nodes -> few_deps nodes -> meta_typed nodes -> zip_a2v_typed nodes ->
  optimize_graph nodes o = Ok p ->
  eval_graph_nodes nodes tape = Ok vals ->
  (bits_ops nodes -> vals_typed nodes vals) ->
  exists p1 p2 p3 p4,
    opt_const nodes o = Ok p1 /\ opt_meta (po_nodes p1) (po_output p1) = Ok p2 /\
    opt_dup (po_nodes p2) (po_output p2) = Ok p3 /\ opt_dangling (po_nodes p3) (po_output p3) = Ok p4 /\
    forall t2 t3 t4,
      tape_compat from_tape (po_nodes p1) (po_map p2) (transport (po_map p1) tape) t2 ->
      tape_compat from_tape (po_nodes p2) (po_map p3) t2 t3 ->
      tape_compat from_tape (po_nodes p3) (po_map p4) t3 t4 ->
      exists vals', eval_graph_nodes (po_nodes p) t4 = Ok vals' /\
                    sim nodes (po_nodes p) vals vals' (po_map p).
Proof. exact optimize_sem_all_chain. Qed.

(* annotations along the pipeline, same class of graphs: the image of every node in the domain
   of the pipeline's map carries all annotations of the node *)
Theorem C06_optimize_annots : forall infer nodes o p tape vals,
  infer_const infer -> infer_meta infer -> typed_nodes infer nodes ->
  const_typed nodes -> few_deps nodes -> meta_typed nodes -> zip_a2v_typed nodes ->
  optimize_graph nodes o = Ok p ->
  eval_graph_nodes nodes tape = Ok vals ->
  (bits_ops nodes -> vals_typed nodes vals) ->
  forall i j, nth_error (po_map p) i = Some (Some j) ->
    exists nd nd', nth_error nodes i = Some nd /\ 0 <= j /\ nth_error (po_nodes p) (Z.to_nat j) = Some nd' /\
                   incl (n_annots nd) (n_annots nd').
Proof. exact optimize_annots_all. Qed.

(* ---------------------------------------------------------------- non-vacuity, section H *)
(* a graph with ArrayToVector and Zip proxies: nested Zip over two ArrayToVector (rank 1 and
   rank 2) and a CreateVector, a VectorGet with a constant index through all of them (rewritten
   to CreateTuple of Get / GetSlice / the vector element, then resolved by the TupleGets), and a
   VectorGet with a non-constant index on a Zip (kept) *)
Definition arr2 := TArray [2] U8.
Definition pr := TTuple [t8; arr2].
Definition ex_zip : list node :=
  [inp (TArray [3] U8); inp (TArray [3;2] U8); inp t8; inp u64;
   mkNode OArrayToVector [0] [] [] (TVector 3 t8);
   mkNode OArrayToVector [1] [] [] (TVector 3 arr2);
   mkNode (OCreateVector t8) [2;2;2] [] [] (TVector 3 t8);
   mkNode OZip [4;5] [] [] (TVector 3 pr);
   mkNode OZip [7;6] [] [] (TVector 3 (TTuple [pr; t8]));
   mkNode (OConstant u64 (VArr [2])) [] [] [] u64;
   mkNode OVectorGet [8;9] [] [] (TTuple [pr; t8]);
   mkNode (OTupleGet 0) [10] [] [] pr;
   mkNode (OTupleGet 1) [11] [] [APrivate] arr2;
   mkNode (OTupleGet 0) [11] [] [] t8;
   mkNode (OTupleGet 1) [10] [] [] t8;
   mkNode OAdd [13;14] [] [] t8;
   mkNode OVectorGet [7;3] [] [] pr;
   mkNode OCreateTuple [12;15;16] [] [] (TTuple [arr2; t8; pr])].
Definition ex_zip_tape := tape_of_list [(0, VArr [10;20;30]); (1, VArr [1;2;3;4;5;6]); (2, VArr [7]); (3, VArr [1])].

(* the meta pass alone: the VectorGet through the nested Zip becomes nodes 10..14 (Get a [2],
   GetSlice b [2, ...], CreateTuple, VectorGet of the CreateVector is its element c, CreateTuple),
   the TupleGets resolve to them (the Private annotation moves to the GetSlice node) *)
Example C06_ex_zip_meta :
  match opt_meta ex_zip (Some 17) with
  | Ok p =>
      eqb (po_map p) [Some 0; Some 1; Some 2; Some 3; Some 4; Some 5; Some 6; Some 7; Some 8; Some 9;
                      Some 14; Some 13; Some 12; Some 11; Some 2; Some 19; Some 20; Some 21]
      && eqb (map n_op (firstn 5 (skipn 10 (po_nodes p))))
             [OVectorGet; OGet [2]; OGetSlice [SSingle 2; SEllipsis]; OCreateTuple; OCreateTuple]
      && match eval_graph_nodes ex_zip ex_zip_tape,
               eval_graph_nodes (po_nodes p) (transport (po_map p) ex_zip_tape) with
         | Ok vals, Ok vals' =>
             (* every mapped node has the same value in both graphs *)
             forallb (fun ij => match snd ij with
                                | Some j => eqb (znth vals (fst ij)) (znth vals' j)
                                | None => true end)
                     (combine (zrange 18) (po_map p))
             && eqb (znth vals 17) (Ok (VTup [VArr [5;6]; VArr [37]; VTup [VArr [20]; VArr [3;4]]]))
         | _, _ => false
         end
  | _ => false
  end = true.
Proof. vm_compute. reflexivity. Qed.

(* the whole pipeline on it, evaluated before and after under the tape transported stage by stage *)
Example C06_ex_zip_optimize :
  match opt_const ex_zip (Some 17) with
  | Ok p1 =>
    match opt_meta (po_nodes p1) (po_output p1) with
    | Ok p2 =>
      match opt_dup (po_nodes p2) (po_output p2) with
      | Ok p3 =>
        match opt_dangling (po_nodes p3) (po_output p3), optimize_graph ex_zip (Some 17) with
        | Ok p4, Ok p =>
            eqb (map n_op (po_nodes p))
                [OInput (TArray [3] U8); OInput (TArray [3;2] U8); OInput t8; OInput u64;
                 OArrayToVector; OArrayToVector; OZip; OGet [2]; OGetSlice [SSingle 2; SEllipsis];
                 OAdd; OVectorGet; OCreateTuple]
            && eqb (po_map p) [Some 0; Some 1; Some 2; Some 3; Some 4; Some 5; None; Some 6; None; None; None; None;
                               Some 8; Some 7; Some 2; Some 9; Some 10; Some 11]
            && eqb (po_output p) (Some 11)
            && match eval_graph_nodes ex_zip ex_zip_tape,
                     eval_graph_nodes (po_nodes p)
                       (transport (po_map p4) (transport (po_map p3) (transport (po_map p2)
                          (transport (po_map p1) ex_zip_tape)))) with
               | Ok vals, Ok vals' =>
                   forallb (fun ij => match snd ij with
                                      | Some j => eqb (znth vals (fst ij)) (znth vals' j)
                                      | None => true end)
                           (combine (zrange 18) (po_map p))
                   && eqb (znth vals' 11) (Ok (VTup [VArr [5;6]; VArr [37]; VTup [VArr [20]; VArr [3;4]]]))
               | _, _ => false
               end
        | _, _ => false
        end
      | _ => false
      end
    | _ => false
    end
  | _ => false
  end = true.
Proof. vm_compute. reflexivity. Qed.

(* when the rewrite does NOT apply: a constant index out of range for a CreateVector leaves the
   VectorGet node as it is (the Rust returned the node unchanged since fix ccbd39a) *)
Example C06_ex_vector_get_out_of_range :
  opt_meta [inp t8; mkNode (OCreateVector t8) [0;0] [] [] (TVector 2 t8);
            mkNode (OConstant u64 (VArr [5])) [] [] [] u64; mkNode OVectorGet [1;2] [] [] t8] (Some 3)
  = Ok (mkPassOut [inp t8; mkNode (OCreateVector t8) [0;0] [] [] (TVector 2 t8);
                   mkNode (OConstant u64 (VArr [5])) [] [] [] u64; mkNode OVectorGet [1;2] [] [] t8]
                  [Some 0; Some 1; Some 2; Some 3] (Some 3)).
Proof. vm_compute. reflexivity. Qed.

(* the hypotheses of C06_optimize_sem are satisfiable by this graph *)
Definition infer_zip (o : op) (dts : list ty) : ty :=
  match o with
  | OInput t | ORandom t | OConstant t _ => t
  | OCreateTuple => TTuple dts
  | OCreateVector t => TVector (Z.of_nat (length dts)) t
  | OArrayToVector => match dts with [TArray (d :: rest) st] => TVector d (elem_ty rest st) | _ => t8 end
  | OZip => match dts with
            | TVector n _ :: _ => TVector n (TTuple (map (fun t => match t with TVector _ e => e | _ => t end) dts))
            | _ => t8 end
  | OVectorGet => match dts with TVector _ e :: _ => e | _ => t8 end
  | OTupleGet i => match dts with [TTuple ts] => nth (Z.to_nat i) ts t8 | _ => t8 end
  | OGet _ | OGetSlice _ => match dts with [TArray (_ :: rest) st] => elem_ty rest st | _ => t8 end
  | OAdd => match dts with t :: _ => t | _ => t8 end
  | _ => t8
  end.
Example C06_ex_zip_hyps :
  infer_const infer_zip /\ infer_meta infer_zip /\ typed_nodes infer_zip ex_zip /\ const_typed ex_zip /\
  few_deps ex_zip /\ meta_typed ex_zip /\ zip_a2v_typed ex_zip /\ nokey ex_zip /\ ~ bits_ops ex_zip.
Proof.
  split; [intros t v; reflexivity|]. split.
  { split; [|split].
    - intros d rest st idx _. destruct rest; reflexivity.
    - reflexivity.
    - reflexivity. }
  split.
  { intros i nd E.
    do 18 (destruct i as [|i]; [injection E as <-; eexists; split; [cbv; reflexivity|reflexivity]|]).
    destruct i; discriminate. }
  split.
  { intros nd t v I. repeat (destruct I as [<-|I]; [cbn; intros H; try discriminate; now injection H as <- _|]). destruct I. }
  split.
  { intros nd I. repeat (destruct I as [<-|I]; [vm_compute; reflexivity|]). destruct I. }
  split.
  { intros i nd dts E D.
    do 18 (destruct i as [|i]; [injection E as <-; cbv in D; injection D as <-; cbn;
                                first [exact I | reflexivity | (split; [reflexivity|repeat constructor])
                                      | (eexists; split; reflexivity) | (do 2 eexists; reflexivity)]|]).
    destruct i; discriminate. }
  split.
  { intros i nd dts E D.
    do 18 (destruct i as [|i]; [injection E as <-; cbv in D; injection D as <-; cbn;
                                first [exact I
                                      | (exists 3, [t8; arr2]; split; reflexivity)
                                      | (exists 3, [pr; t8]; split; reflexivity)
                                      | (exists 3, [], U8; split; [reflexivity|split; [repeat constructor; lia|split; [lia|reflexivity]]])
                                      | (exists 3, [2], U8; split; [reflexivity|split; [repeat constructor; lia|split; [lia|reflexivity]]])]|]).
    destruct i; discriminate. }
  split.
  { intros nd I Ft. repeat (destruct I as [<-|I]; [try discriminate Ft; intros nd' deps E; unfold node_key; rewrite E; reflexivity|]). destruct I. }
  { intros (nd & I & Ho). repeat (destruct I as [<-|I]; [destruct Ho as [Ho|(st & Ho)]; discriminate|]). destruct I. }
Qed.

(* hence the conclusion of C06_optimize_sem holds of it (an instance of the theorem, not a computation) *)
Example C06_ex_zip_instance :
  forall p vals, optimize_graph ex_zip (Some 17) = Ok p -> eval_graph_nodes ex_zip ex_zip_tape = Ok vals ->
  exists vals' j v, sim ex_zip (po_nodes p) vals vals' (po_map p) /\ po_output p = Some j /\
                    nth_error vals 17 = Some v /\ nth_error vals' (Z.to_nat j) = Some v.
Proof.
  intros p vals H V.
  destruct C06_ex_zip_hyps as (Ic & Im & Tn & Ct & Fd & Mt & Zt & Nk & Nb).
  destruct (C06_optimize_sem infer_zip ex_zip (Some 17) p ex_zip_tape vals Ic Im Tn Ct Fd Mt Zt H V
              (fun B => False_ind _ (Nb B)) Nk)
    as (p1 & p2 & p3 & p4 & _ & _ & _ & _ & vals' & _ & S & x & j & v & Ex & Ej & _ & _ & _ & Vx & Vj).
  injection Ex as <-. exists vals', j, v. auto.
Qed.

(* why zip_a2v_typed was added: the first-round statement C06_meta_sem_full (const_typed, meta_typed,
   vals_typed only) is FALSE of the model.  A Zip node may carry a type that its values inhabit but
   that is not the builder's (VArr [1] inhabits both U8 and U16): the CreateTuple created for
   VectorGet (Zip [v; v]) 0 is typed from the operands, (U8, U8), the VectorGet it replaces from
   the Zip node, (U16, U8), and sim demands equal types.  (Not a finding about /repo: the graph
   builder cannot produce such a Zip node.) *)
Definition ex_bad_zip : list node :=
  [inp (TVector 2 t8);
   mkNode OZip [0;0] [] [] (TVector 2 (TTuple [TScalar U16; t8]));
   mkNode (OConstant u64 (VArr [0])) [] [] [] u64;
   mkNode OVectorGet [1;2] [] [] (TTuple [TScalar U16; t8])].
Definition ex_bad_tape := tape_of_list [(0, VTup [VArr [1]; VArr [2]])].
Definition ex_bad_vals : list value :=
  [VTup [VArr [1]; VArr [2]]; VTup [VTup [VArr [1]; VArr [1]]; VTup [VArr [2]; VArr [2]]]; VArr [0];
   VTup [VArr [1]; VArr [1]]].
Definition ex_bad_out : pass_out :=
  match opt_meta ex_bad_zip (Some 3) with Ok p => p | _ => mkPassOut [] [] None end.
Theorem C06_meta_sem_full_refuted : ~ C06_meta_sem_full.
Proof.
  intros Hfull.
  assert (Ct : const_typed ex_bad_zip).
  { intros nd t v I. repeat (destruct I as [<-|I]; [cbn; intros H; try discriminate; now injection H as <- _|]). destruct I. }
  assert (Mt : meta_typed ex_bad_zip).
  { intros i nd dts E D.
    do 4 (destruct i as [|i]; [injection E as <-; cbv in D; injection D as <-; cbn;
                               first [exact I | (do 2 eexists; reflexivity)]|]).
    destruct i; discriminate. }
  assert (Vt : vals_typed ex_bad_zip ex_bad_vals).
  { intros i nd v E1 E2.
    do 4 (destruct i as [|i]; [injection E1 as <-; injection E2 as <-; vm_compute; reflexivity|]).
    destruct i; discriminate. }
  assert (Ho : opt_meta ex_bad_zip (Some 3) = Ok ex_bad_out) by (vm_compute; reflexivity).
  assert (He : eval_graph_nodes ex_bad_zip ex_bad_tape = Ok ex_bad_vals) by (vm_compute; reflexivity).
  destruct (Hfull _ _ _ _ _ Ct Mt Vt Ho He) as (vals' & _ & S).
  assert (Em : nth_error (po_map ex_bad_out) 3 = Some (Some 6)) by (vm_compute; reflexivity).
  destruct (S _ _ Em) as (_ & _ & (nd & nd' & N1 & N2 & N3)).
  vm_compute in N1, N2. injection N1 as <-. injection N2 as <-. discriminate N3.
Qed.

Print Assumptions C06_a2v_row.
Print Assumptions C06_zip_row.
Print Assumptions C06_meta_sem.
Print Assumptions C06_meta_sem_compat.
Print Assumptions C06_meta_pass_sem_ok.
Print Assumptions C06_meta_annots.
Print Assumptions C06_const_preserves_local.
Print Assumptions C06_optimize_sem.
Print Assumptions C06_optimize_sem_chain.
Print Assumptions C06_optimize_annots.
Print Assumptions C06_meta_sem_full_refuted.

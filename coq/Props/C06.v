(* C06 — graph optimisation preserves meaning and interface.  (theorems: see Proofs/OptProofs.v) *)
From CC Require Import Base.Prelude Base.Scalar Base.Ty Base.Shape Graph.Value Graph.IR Graph.Eval Model.Opt.

(* the chained mapping only relates nodes that every pass still maps *)
Theorem C06_join_maps_length : forall m1 m2, length (join_maps m1 m2) = length m1.
Proof. intros. unfold join_maps. apply map_length. Qed.
Print Assumptions C06_join_maps_length.

From CC Require Import Base.Prelude Model.Fixed Model.PwlData.
Theorem C20_placeholder : True. Proof. exact I. Qed.
Print Assumptions C20_placeholder.

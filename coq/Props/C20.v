(* C20 — approximate numeric operations stay close to the real function.
   Property theorems only: each is closed by [exact] of a lemma proved in Proofs/, and its
   assumptions are printed.  Words are unsigned representatives mod 2^64; [sv 64] is the i64 reading.
   Tables ([*_alphas], [*_betas], ...) are the ones committed in Model/PwlData.v; the harness checks on
   every run that the Rust code still builds exactly these (case kind T:tables_eq). *)
From Coq Require Import Reals.
From CC Require Import Base.Prelude Model.Fixed Model.PwlData Model.Taylor.
From CC Require Import Proofs.FixedBits Proofs.FixedPwl Proofs.FixedNewton Proofs.FixedIsqrt8u Proofs.FixedIsqrt
  Proofs.FixedGold Proofs.PwlReal Proofs.PwlTotal Proofs.PwlAll.
From CC Require Import Proofs.PwlTables_exp_p10 Proofs.PwlTables_exp_p15 Proofs.PwlTables_sigmoid_p10
  Proofs.PwlTables_sigmoid_p15 Proofs.PwlTables_gelu_p10 Proofs.PwlTables_gelu_p15.
Open Scope Z_scope.

(* ------------------------------------------------------------------ (a) any tables *)
(* For ANY coefficient tables: the integer piecewise-linear evaluation (create_approximation +
   tree_retrieve) returns, for the segment i = pwl_segment it selects, exactly
   trunc((alpha_i * x + beta_i) / 2^p) (rounded toward zero), hence is less than one unit 2^-p
   away from the exact rational value of that segment — provided alpha_i * x + beta_i fits i64. *)
Theorem C20_pwl_int_close : forall p lb alphas betas L D x out,
  0 <= p -> 0 < lb < 62 -> word x ->
  - 2 ^ 63 <= sv 64 x - L < 2 ^ 63 ->
  pwl_eval p lb alphas betas L D x = Ok out ->
  0 < D /\
  exists a b,
    nth_error alphas (Z.to_nat (pwl_segment lb L D x)) = Some a /\
    nth_error betas (Z.to_nat (pwl_segment lb L D x)) = Some b /\
    (- 2 ^ 63 <= a * sv 64 x + b < 2 ^ 63 ->
       sv 64 out = Z.quot (a * sv 64 x + b) (2 ^ p) /\
       Z.abs (2 ^ p * sv 64 out - (a * sv 64 x + b)) < 2 ^ p).
Proof. exact pwl_int_close. Qed.

(* Which inputs select which segment: 0 = left of left - divisor, 2^lb + 1 = right of the range,
   i in 1..2^lb = [left + (i-1) divisor, left + i divisor); segment 1 is also used on
   (left - divisor, left) because the plaintext Truncate rounds toward zero. *)
Theorem C20_pwl_segment_spec : forall lb L D x,
  0 < lb < 62 -> word x -> 0 < D -> - 2 ^ 63 <= sv 64 x - L < 2 ^ 63 ->
  let X := sv 64 x in let i := pwl_segment lb L D x in
  (X <= L - D -> i = 0) /\
  (L - D < X < L + D -> i = 1) /\
  (L <= X < L + 2 ^ lb * D -> 1 <= i <= 2 ^ lb /\ L + (i - 1) * D <= X < L + i * D) /\
  (L + 2 ^ lb * D <= X -> i = 2 ^ lb + 1).
Proof. exact pwl_segment_spec. Qed.

(* ------------------------------------------------------------------ (b) the tables the code has now *)
(* Per segment, at EVERY real x of the stretch that selects it (interval arithmetic):
   |alpha_i x + beta_i - f x| <= rel * f x + abs, in real units (alpha/2^p, beta/2^(2p)). *)
Theorem C20_pwl_tables :
  (table_bound exp_fn (4/100) (1/1024) 10 6 exp_p10_left exp_p10_divisor exp_p10_alphas exp_p10_betas) /\
  (table_bound exp_fn (4/100) (1/32768) 15 6 exp_p15_left exp_p15_divisor exp_p15_alphas exp_p15_betas) /\
  (table_bound sigmoid_fn 0 (45/10000) 10 5 sigmoid_p10_left sigmoid_p10_divisor sigmoid_p10_alphas sigmoid_p10_betas) /\
  (table_bound sigmoid_fn 0 (45/10000) 15 5 sigmoid_p15_left sigmoid_p15_divisor sigmoid_p15_alphas sigmoid_p15_betas) /\
  (table_bound gelu_fn 0 (7/1000) 10 5 gelu_p10_left gelu_p10_divisor gelu_p10_alphas gelu_p10_betas) /\
  (table_bound gelu_fn 0 (7/1000) 15 5 gelu_p15_left gelu_p15_divisor gelu_p15_alphas gelu_p15_betas).
Proof. exact pwl_tables_all. Qed.

(* (a) + (b): the output WORD of the integer evaluation against the exact function, at every
   fixed-point input of (left - divisor, right):
     exp      [-16.5, 16)  : 4% relative + 2 units            (precision 10 and 15)
     sigmoid  [-8.5, 8)    : 0.0045 + 1 unit
     GeLU     [-4.25, 4)   : 0.007 + 1 unit   (tanh form, the function the code tabulates) *)
Open Scope R_scope.
Definition C20_exp_p10_close_stmt : Prop := forall x out, word x -> (-16896 < sv 64 x < 16384)%Z ->
  pwl_eval 10 6 exp_p10_alphas exp_p10_betas exp_p10_left exp_p10_divisor x = Ok out ->
  Rabs (IZR (sv 64 out) / 1024 - exp (IZR (sv 64 x) / 1024))
  <= 4/100 * exp (IZR (sv 64 x) / 1024) + 1/1024 + 1/1024.
Definition C20_exp_p15_close_stmt : Prop := forall x out, word x -> (-540672 < sv 64 x < 524288)%Z ->
  pwl_eval 15 6 exp_p15_alphas exp_p15_betas exp_p15_left exp_p15_divisor x = Ok out ->
  Rabs (IZR (sv 64 out) / 32768 - exp (IZR (sv 64 x) / 32768))
  <= 4/100 * exp (IZR (sv 64 x) / 32768) + 1/32768 + 1/32768.
Definition C20_sigmoid_p10_close_stmt : Prop := forall x out, word x -> (-8704 < sv 64 x < 8192)%Z ->
  pwl_eval 10 5 sigmoid_p10_alphas sigmoid_p10_betas sigmoid_p10_left sigmoid_p10_divisor x = Ok out ->
  Rabs (IZR (sv 64 out) / 1024 - 1 / (1 + exp (- (IZR (sv 64 x) / 1024))))
  <= 0 * (1 / (1 + exp (- (IZR (sv 64 x) / 1024)))) + 45/10000 + 1/1024.
Definition C20_sigmoid_p15_close_stmt : Prop := forall x out, word x -> (-278528 < sv 64 x < 262144)%Z ->
  pwl_eval 15 5 sigmoid_p15_alphas sigmoid_p15_betas sigmoid_p15_left sigmoid_p15_divisor x = Ok out ->
  Rabs (IZR (sv 64 out) / 32768 - 1 / (1 + exp (- (IZR (sv 64 x) / 32768))))
  <= 0 * (1 / (1 + exp (- (IZR (sv 64 x) / 32768)))) + 45/10000 + 1/32768.
Definition C20_gelu_p10_close_stmt : Prop := forall x out, word x -> (-4352 < sv 64 x < 4096)%Z ->
  pwl_eval 10 5 gelu_p10_alphas gelu_p10_betas gelu_p10_left gelu_p10_divisor x = Ok out ->
  Rabs (IZR (sv 64 out) / 1024 - gelu_fn (IZR (sv 64 x) / 1024))
  <= 0 * gelu_fn (IZR (sv 64 x) / 1024) + 7/1000 + 1/1024.
Definition C20_gelu_p15_close_stmt : Prop := forall x out, word x -> (-139264 < sv 64 x < 131072)%Z ->
  pwl_eval 15 5 gelu_p15_alphas gelu_p15_betas gelu_p15_left gelu_p15_divisor x = Ok out ->
  Rabs (IZR (sv 64 out) / 32768 - gelu_fn (IZR (sv 64 x) / 32768))
  <= 0 * gelu_fn (IZR (sv 64 x) / 32768) + 7/1000 + 1/32768.
Theorem C20_pwl_close :
  C20_exp_p10_close_stmt /\ C20_exp_p15_close_stmt /\ C20_sigmoid_p10_close_stmt /\ C20_sigmoid_p15_close_stmt /\ C20_gelu_p10_close_stmt /\ C20_gelu_p15_close_stmt.
Proof. exact pwl_close_all. Qed.
(* gelu_fn is 0.5 x (1 + tanh(sqrt(2/pi) (x + 0.044715 x^3))) with the standard library's tanh *)
Theorem C20_gelu_fn_def : forall x,
  gelu_fn x = 5/10 * x * (1 + tanh (sqrt (2 / PI) * (x + 44715/1000000 * (x * x * x)))).
Proof. exact gelu_fn_def. Qed.
Close Scope R_scope.

(* ------------------------------------------------------------------ (c) Newton-type operations *)
(* Decided at EVERY d of the domain by evaluating the integer model in Coq.
   Reciprocal: |a - 2^cap/d| <= 2 for every 0 < d < 2^cap, caps 1..12, the documented number of
   iterations 1 + ceil(log2 cap), INT64 and UINT64, bit-derived initial guess. *)
Theorem C20_newton_recip : forall sg cap d, 1 <= cap <= 12 -> 0 < d < 2 ^ cap ->
  exists a, newton_inversion sg (rule_iters cap) cap None d = Ok a /\ Z.abs (a * d - 2 ^ cap) <= 2 * d.
Proof. exact newton_recip_1_12. Qed.
(* the unit tests' parameters (iterations 5, cap 10) *)
Theorem C20_newton_recip_test_params : forall sg d, 0 < d < 2 ^ 10 ->
  exists a, newton_inversion sg 5 10 None d = Ok a /\ Z.abs (a * d - 2 ^ 10) <= 2 * d.
Proof. exact newton_recip_test. Qed.
(* with a caller-supplied initial approximation x0, for every pair with 2^9 <= d x0 <= 2^10 *)
Theorem C20_newton_recip_guess : forall sg d x0, 0 < d < 2 ^ 10 -> 2 ^ 9 <= d * x0 <= 2 ^ 10 ->
  exists a, newton_inversion sg 5 10 (Some x0) d = Ok a /\ Z.abs (a * d - 2 ^ 10) <= 2 * d.
Proof. exact newton_recip_guess. Qed.
(* FINDING: the documented admissible range 2^(cap-1) <= d x0 < 2^(cap+1) is too wide:
   d = 1, x0 = 2047 gives 1 instead of 1024 (the iteration is stuck after truncation). *)
Theorem C20_newton_guess_doc_refuted :
  exists d x0, 0 < d < 2 ^ 10 /\ 2 ^ 9 <= d * x0 < 2 ^ 11 /\
    newton_inversion true 5 10 (Some x0) d = Ok 1 /\ 2 ^ 10 / d = 1024.
Proof. exact newton_guess_doc_refuted. Qed.
(* FINDING: `1 << (cap + 1)` is an i32 literal: cap = 30 computes with -2^31, cap >= 31 panics (debug). *)
Theorem C20_newton_cap30_refuted :
  newton_inversion true 6 30 None 1 = Ok 312820697 /\ 2 ^ 30 / 1 = 1073741824 /\
  newton_inversion true 6 31 None 1 = Panic.
Proof. exact newton_cap30_refuted. Qed.

(* Inverse square root: |a - 2^cap/sqrt d| <= 2 (stated without square roots) for every d of the
   documented domain (0, 2^(2cap-1)), caps 2..8, 5 iterations as in the tests, both types. *)
Theorem C20_isqrt : forall sg cap d, 2 <= cap <= 8 -> 0 < d < 2 ^ (2 * cap - 1) ->
  exists a, inverse_sqrt sg 5 cap None d = Ok a /\
            (a <= 2 \/ (a - 2) * (a - 2) * d <= 2 ^ (2 * cap)) /\
            2 ^ (2 * cap) <= (a + 2) * (a + 2) * d.
Proof. exact isqrt_2_8. Qed.
(* cap = 10 (the tests' value): only d < 2^14 of the documented (0, 2^19) is swept in Coq;
   the rest is sampled by the harness. *)
Definition C20_isqrt_cap10_full : Prop := forall d, 0 < d < 2 ^ 19 ->
  exists a, inverse_sqrt true 5 10 None d = Ok a /\
            (a <= 2 \/ (a - 2) * (a - 2) * d <= 2 ^ 20) /\ 2 ^ 20 <= (a + 2) * (a + 2) * d.
Theorem C20_isqrt_cap10_partial : forall d, 0 < d < 2 ^ 14 ->
  exists a, inverse_sqrt true 5 10 None d = Ok a /\
            (a <= 2 \/ (a - 2) * (a - 2) * d <= 2 ^ 20) /\ 2 ^ 20 <= (a + 2) * (a + 2) * d.
Proof. exact isqrt_10_partial. Qed.
(* FINDING: the unit tests' tolerance 1 does not hold in real terms: d = 65536, result 2, exact 4. *)
Theorem C20_isqrt_tol1_refuted :
  inverse_sqrt true 5 10 None 65536 = Ok 2 /\ isqrt_close 10 1 65536 2 = false /\ 4 * 4 * 65536 = 2 ^ 20.
Proof. exact isqrt_tol1_refuted. Qed.
(* FINDING: cap = 31 passes the range check but `3 << 30` overflows the i32 literal. *)
Theorem C20_isqrt_cap31_refuted :
  inverse_sqrt true 6 31 None 1 = Ok 23940445 /\ 2 ^ 31 = 2147483648.
Proof. exact isqrt_cap31_refuted. Qed.

(* Goldschmidt division: |a - 2^cap n/d| <= 1% of 2^cap n/d + 3 units, for every pair of the
   documented domain (0, 2^(cap-1))^2, caps 5..8, documented iteration count, both types. *)
Theorem C20_goldschmidt : forall sg cap n d, 5 <= cap <= 8 -> 0 < n < 2 ^ (cap - 1) -> 0 < d < 2 ^ (cap - 1) ->
  exists a, goldschmidt_division 64 sg (rule_iters cap) cap None n d = Ok a /\
            100 * Z.abs (a * d - 2 ^ cap * n) <= 1 * 2 ^ cap * n + 100 * 3 * d.
Proof. exact gold_5_8. Qed.
(* cap = 10 (the tests' value): every divisor, ten dividends (the tests use dividends far above
   2^cap); the product domain is sampled by the harness. *)
Definition C20_goldschmidt_cap10_full : Prop := forall n d, 0 < n < 2 ^ 32 -> 0 < d < 2 ^ 10 ->
  exists a, goldschmidt_division 64 true 5 10 None n d = Ok a /\
            100 * Z.abs (a * d - 2 ^ 10 * n) <= 1 * 2 ^ 10 * n + 100 * 3 * d.
Theorem C20_goldschmidt_cap10_partial : forall n d, In n gold_dividends -> 0 < d < 2 ^ 10 ->
  exists a, goldschmidt_division 64 true 5 10 None n d = Ok a /\
            100 * Z.abs (a * d - 2 ^ 10 * n) <= 1 * 2 ^ 10 * n + 100 * 3 * d.
Proof. exact gold_10_partial. Qed.
(* FINDING: more iterations make it worse; the doc example's (iterations 10, cap 4) drifts by 60%. *)
Theorem C20_goldschmidt_doc_example_drift :
  goldschmidt_division 64 false 10 4 None 1000000 14 = Ok 1827188 /\ 2 ^ 4 * 1000000 / 14 = 1142857.
Proof. exact gold_doc_example_drift. Qed.

(* ------------------------------------------------------------------ non-vacuity *)
Example C20_example_values :
  newton_inversion true 5 10 None 700 = Ok 1 /\
  newton_inversion false 5 10 (Some 256) 3 = Ok 341 /\
  inverse_sqrt true 5 10 None 1000 = Ok 32 /\
  goldschmidt_division 64 true 5 10 None 123456 300 = Ok 421955 /\
  pwl_eval 10 6 exp_p10_alphas exp_p10_betas exp_p10_left exp_p10_divisor 1024 = Ok 2783 /\
  pwl_segment 6 exp_p10_left exp_p10_divisor 1024 = 35 /\
  pwl_eval 15 5 sigmoid_p15_alphas sigmoid_p15_betas sigmoid_p15_left sigmoid_p15_divisor 0 = Ok 16384 /\
  sv 64 18446744073709551454 = -162 /\
  pwl_eval 10 5 gelu_p10_alphas gelu_p10_betas gelu_p10_left gelu_p10_divisor (wrap 64 (-1024))
    = Ok 18446744073709551454 /\
  multiply_fixed_point 64 true (wrap 64 (-3000)) 2048 10 = wrap 64 (-6000).
Proof. vm_compute. repeat split; reflexivity. Qed.
(* TaylorExponent is modelled and tied only (no theorem): exp(1) at precision 10, and the cutoff that
   compares x / ln 2 (not x) with -10: exp(-7.6) 2^15 = 16 units is returned as 0 at precision 15 *)
Example C20_example_taylor :
  taylor_exponent 5 10 1477 709 1024 = Ok 2776 /\
  taylor_exponent 5 15 47274 22713 (wrap 64 (-249842)) = Ok 0.
Proof. vm_compute. split; reflexivity. Qed.
Example C20_example_domain : word 1024 /\ (-16896 < sv 64 1024 < 16384) /\ In 123456 gold_dividends.
Proof. vm_compute. repeat split; try discriminate; auto 10. Qed.

Print Assumptions C20_pwl_int_close.
Print Assumptions C20_pwl_segment_spec.
Print Assumptions C20_pwl_tables.
Print Assumptions C20_pwl_close.
Print Assumptions C20_newton_recip.
Print Assumptions C20_isqrt.
Print Assumptions C20_goldschmidt.

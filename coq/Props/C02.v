(* C02 — each party can run the protocol from its own data and the messages it receives.

   kcheck (Model/Knows.v) is a static "who validly knows what" analysis of an inlined graph.
   The theorem: if kcheck accepts, then for EVERY deterministic op semantics whose structural
   operations route values (every graph, every inputs, every junk, every three random tapes),
   every listed output party ends the three-party execution with the value of the global
   (single-evaluator) run; for an output kept shared, slot j is held by parties j and j-1
   exactly as in the global run.  On every check run kcheck is evaluated, inside Coq, on the
   real output of compile_context for generated programs and configurations: by this theorem
   that is a proof, for that compiled protocol, over all inputs, junk and tapes.
   Together with C01 (global run = source semantics) this is the property.
   Not a theorem yet (stated as C02_compile_accepted_full): that the compiler's output is always
   accepted — the quantifier over programs is closed per exported instance. *)
From CC Require Import Base.Prelude Base.Scalar Base.Ty Base.Shape Graph.Value Graph.IR Graph.Eval
  Model.Knows Proofs.KnowsProofs Proofs.KnowsInst.

Theorem C02_kcheck_sound :
  forall (sem : op -> list ty -> ty -> list value -> value -> result value),
  (forall o dts t vs r v, route_of dts o = RTuple -> sem o dts t vs r = Ok v -> v = VTup vs) ->
  (forall o dts t d rest r v, route_of dts o = RNop -> sem o dts t (d :: rest) r = Ok v -> v = d) ->
  (forall o dts t j d rest r v, route_of dts o = RGet j -> sem o dts t (d :: rest) r = Ok v ->
                              exists l, d = VTup l /\ znth l j = Ok v) ->
  (forall o dts t vs r r', is_randdep_op o = false -> sem o dts t vs r = sem o dts t vs r') ->
  forall (c : config) (tapes : party -> Z -> value) nodes output gin lin genv envs,
  kcheck c nodes output = true ->
  inputs_agree (cfg_inputs c) gin lin ->
  grun sem (rho c tapes) gin nodes = Some genv ->
  lrun sem tapes lin nodes = Some envs ->
  (cfg_outputs c <> [] ->
   forall p gv, In p (cfg_outputs c) -> is_party p -> znth genv output = Ok gv ->
                znth (tget envs p) output = Ok (embed gv)) /\
  (cfg_outputs c = [] ->
   forall j p gs lv, (j = 0 \/ j = 1 \/ j = 2) -> (p = j \/ p = (j + 2) mod 3) ->
                znth genv output = Ok (VTup gs) -> znth (tget envs p) output = Ok lv ->
                forall g, znth gs j = Ok g ->
                match lv with PTup ls => znth ls j = Ok (embed g) | _ => False end).
Proof. exact kcheck_sound. Qed.

(* the same for the evaluator model of Graph/Eval.v, with ANY oracle standing for the operations
   it does not mirror (PRF, Sort, Join, cuckoo hashing, ...) *)
Theorem C02_kcheck_sound_evaluator :
  forall oracle c tapes nodes output gin lin genv envs,
  kcheck c nodes output = true ->
  inputs_agree (cfg_inputs c) gin lin ->
  grun (sem_of oracle) (rho c tapes) gin nodes = Some genv ->
  lrun (sem_of oracle) tapes lin nodes = Some envs ->
  (cfg_outputs c <> [] ->
   forall p gv, In p (cfg_outputs c) -> is_party p -> znth genv output = Ok gv ->
                znth (tget envs p) output = Ok (embed gv)) /\
  (cfg_outputs c = [] ->
   forall j p gs lv, (j = 0 \/ j = 1 \/ j = 2) -> (p = j \/ p = (j + 2) mod 3) ->
                znth genv output = Ok (VTup gs) -> znth (tget envs p) output = Ok lv ->
                forall g, znth gs j = Ok g ->
                match lv with PTup ls => znth ls j = Ok (embed g) | _ => False end).
Proof. exact kcheck_sound_eval. Qed.

(* the Send rule: the receiver learns exactly what the sender validly knew *)
Theorem C02_send_transfers : forall s r k lv gv, agree s k lv gv -> agree r (ksend s r k) lv gv.
Proof. exact agree_ksend_recv. Qed.

(* what is not yet a theorem: every output of the compiler is accepted *)
Definition C02_compile_accepted_full : Prop :=
  forall (compile : list node -> config -> list node * Z) src c,
    let '(nodes, out) := compile src c in kcheck c nodes out = true.

(* Non-vacuity.  Party 0 owns x; x + x is computed by party 0, sent to party 1, output to party 1:
   accepted.  Without the Send marker: rejected.  Output to party 2 instead: rejected. *)
Definition ex_nodes (send : bool) : list node :=
  [mkNode (OInput (TScalar U8)) [] [] [] (TScalar U8);
   mkNode OAdd [0; 0] [] [] (TScalar U8);
   mkNode ONOP [1] [] (if send then [ASend 0 1] else []) (TScalar U8)].
Example C02_example_accept : kcheck (mkCfg [StParty 0] [1] []) (ex_nodes true) 2 = true.
Proof. reflexivity. Qed.
Example C02_example_missing_send : kcheck (mkCfg [StParty 0] [1] []) (ex_nodes false) 2 = false.
Proof. reflexivity. Qed.
Example C02_example_wrong_receiver : kcheck (mkCfg [StParty 0] [2] []) (ex_nodes true) 2 = false.
Proof. reflexivity. Qed.
(* a 2-out-of-3 shared input passed through is an acceptable shared output; a tuple of three
   values that only their makers know (3-out-of-3) is not *)
Example C02_example_shared_ok :
  kcheck (mkCfg [StShared] [] [])
    [mkNode (OInput (TTuple [TScalar U8; TScalar U8; TScalar U8])) [] [] [] (TTuple [TScalar U8; TScalar U8; TScalar U8])] 0 = true.
Proof. reflexivity. Qed.
Example C02_example_three_of_three_rejected :
  kcheck (mkCfg [] [] [(0, 0); (1, 1); (2, 2)])
    [mkNode (ORandom (TScalar U8)) [] [] [] (TScalar U8);
     mkNode (ORandom (TScalar U8)) [] [] [] (TScalar U8);
     mkNode (ORandom (TScalar U8)) [] [] [] (TScalar U8);
     mkNode OCreateTuple [0; 1; 2] [] [] (TTuple [TScalar U8; TScalar U8; TScalar U8])] 3 = false.
Proof. reflexivity. Qed.

Print Assumptions C02_kcheck_sound.
Print Assumptions C02_kcheck_sound_evaluator.
Print Assumptions C02_send_transfers.

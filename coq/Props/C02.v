(* C02 — placeholder until Proofs/KnowsProofs.v lands *)
From CC Require Import Base.Prelude Base.Scalar Base.Ty Base.Shape Graph.Value Graph.IR Model.Knows.
Theorem C02_ksend_leaf : forall s r v, ksend s r (KLeaf v) = KLeaf (if pmem s v then padd r v else premove r v).
Proof. reflexivity. Qed.
Print Assumptions C02_ksend_leaf.

(* C18 — sorting is a stable sort; permutation application and inversion agree.
   Property theorems only: each is closed by [exact] of a lemma proved in Proofs/, and its
   assumptions are printed.  Row level: a column of height n is a list of n rows, a permutation
   is the list of its images, [apply_perm d p x] is out[i] = x[p[i]] (ApplyPermutation /
   gather along axis 0), [sorting_permutation] is get_sorting_permutation on the key rows.
   [C18_sort_op_spec], [C18_get_sorting_permutation_rows], [C18_gather_rows] and
   [C18_execute_inverse_permutation_ok] connect this level to the evaluator-level model
   functions on flattened arrays that the correspondence cases run. *)
From Coq Require Import Permutation Sorted.
From CC Require Import Base.Prelude Base.Scalar Model.Sort.
From CC Require Import Proofs.SortProofs Proofs.PermProofs Proofs.IntKeyProofs
  Proofs.RadixProofs Proofs.SortOpProofs Proofs.ApplyOpProofs Proofs.SortMultiBit
  Proofs.SortMultiBitCircuit.

(* ---- plaintext Sort ---- *)
(* the output key rows are in non-decreasing lexicographic order *)
Theorem C18_sort_sorted : forall rows,
  StronglySorted lex_le (apply_perm [] (sorting_permutation rows) rows).
Proof. exact sort_sorted. Qed.

(* the sorting permutation is a permutation of 0..n-1, and every column of that height comes
   out as a permutation of its input rows *)
Theorem C18_sort_perm : forall rows,
  is_perm (length rows) (sorting_permutation rows) /\
  forall (A : Type) (d : A) (col : list A), length col = length rows ->
    Permutation (apply_perm d (sorting_permutation rows) col) col.
Proof. intros rows. split; [apply sorting_permutation_is_perm|]. intros A d col. apply sort_perm. Qed.

(* rows with equal keys keep their input order *)
Theorem C18_sort_stable : forall rows i j,
  let P := sorting_permutation rows in
  (i < j < length rows)%nat ->
  nth (nth i P 0%nat) rows [] = nth (nth j P 0%nat) rows [] ->
  (nth i P 0%nat < nth j P 0%nat)%nat.
Proof. exact sort_stable. Qed.

(* the Sort operation on a well-formed table (key column BIT [n, b], n, b > 0, every column
   n rows): every column is gathered with the same — stable sorting — permutation, and none
   of the evaluator's Err/Panic paths is taken *)
Theorem C18_sort_op_spec : forall key (tbl : list rcolumn) kname (keyrows : list (list Z)) b,
  find (fun c : rcolumn => String.eqb (fst (fst c)) key) tbl = Some (kname, [Z.of_nat b], keyrows) ->
  (0 < b)%nat -> (0 < length keyrows)%nat -> Forall (fun r => length r = b) keyrows ->
  Forall (rc_ok (length keyrows)) tbl ->
  sort_op key (map (col_of (length keyrows)) tbl)
  = Ok (map (fun c => concat (apply_perm [] (sorting_permutation keyrows) (rc_rows c))) tbl).
Proof. exact sort_op_spec. Qed.

Theorem C18_get_sorting_permutation_rows : forall (rows : list (list Z)) b,
  (0 < b)%nat -> (0 < length rows)%nat -> Forall (fun r => length r = b) rows ->
  get_sorting_permutation (concat rows) (Z.of_nat (length rows)) = Ok (sorting_permutation rows).
Proof. exact get_sorting_permutation_rows. Qed.

Theorem C18_gather_rows : forall (rows : list (list Z)) (sh : list Z) (p : list nat),
  Forall (fun r => Z.of_nat (length r) = prodZ sh) rows ->
  Forall (fun i => (i < length rows)%nat) p ->
  evaluate_gather (concat rows) (Z.of_nat (length rows) :: sh) (map Z.of_nat p) 0
  = Ok (concat (apply_perm [] p rows)).
Proof. exact gather_rows_ok. Qed.

(* ---- permutation application and inversion ---- *)
Theorem C18_apply_inverse_id : forall (A : Type) (d : A) n p x,
  is_perm n p -> length x = n ->
  apply_perm d (inv_perm p) (apply_perm d p x) = x /\
  apply_perm d p (apply_perm d (inv_perm p) x) = x.
Proof. exact @apply_inverse_id. Qed.

(* the same at the level of the operation on flattened arrays: on a valid permutation (given
   as u64 values) ApplyPermutation passes its validity check and gathers the rows by p or by
   its inverse; ApplyPermutation(false) followed by ApplyPermutation(true), and the other way
   round, return the array *)
Theorem C18_apply_permutation_op_spec : forall inverse (rows : list (list Z)) sh p,
  is_perm (length rows) p ->
  Forall (fun r => Z.of_nat (length r) = prodZ sh) rows ->
  apply_permutation_op inverse (concat rows) (Z.of_nat (length rows) :: sh) (map Z.of_nat p)
  = Ok (concat (apply_perm [] (if inverse then inv_perm p else p) rows)).
Proof. exact apply_permutation_op_spec. Qed.

Theorem C18_apply_inverse_id_op : forall (rows : list (list Z)) sh p,
  is_perm (length rows) p ->
  Forall (fun r => Z.of_nat (length r) = prodZ sh) rows ->
  let shape := Z.of_nat (length rows) :: sh in
  let perm := map Z.of_nat p in
  (let* y := apply_permutation_op false (concat rows) shape perm in
   apply_permutation_op true y shape perm) = Ok (concat rows) /\
  (let* y := apply_permutation_op true (concat rows) shape perm in
   apply_permutation_op false y shape perm) = Ok (concat rows).
Proof. exact apply_permutation_op_inverse_id. Qed.

(* the evaluator's inversion loop computes inv_perm on in-range input and errs otherwise *)
Theorem C18_execute_inverse_permutation_ok : forall p,
  (Forall (fun v => (v < length p)%nat) p -> execute_inverse_permutation p = Ok (inv_perm p)) /\
  (~ Forall (fun v => (v < length p)%nat) p -> execute_inverse_permutation p = Err).
Proof. intros p. split; [apply execute_inverse_permutation_ok|apply execute_inverse_permutation_err]. Qed.

Theorem C18_inverse_is_perm : forall n p,
  is_perm n p -> is_perm n (inv_perm p) /\ inv_perm (inv_perm p) = p.
Proof. intros n p H. split; [now apply inv_perm_is_perm|now apply (inv_perm_involutive n)]. Qed.

(* ---- integer keys ---- *)
(* numeric order (two's complement for signed types) = lexicographic order of the bit strings
   Sort runs on; an equation between comparisons, so <, = and > are all covered.  All 11 types. *)
Theorem C18_intkey_monotone : forall st x y,
  lex_cmp (integer_to_bits st x) (integer_to_bits st y) = (sval st x ?= sval st y).
Proof. exact intkey_monotone. Qed.

(* ---- compiled secure sort: the algorithm (not its MPC compilation) ---- *)
(* For EVERY key width b >= 1 (odd widths start with the 1-bit chunk), every table height and
   every family of protocol permutations, the chunk passes of mpc_radix_sort.rs compose to the
   rank vector (inverse sorting permutation) of the stable sort by the whole key.
   The _partial form is the general one: for every chunk-sorting function satisfying the
   specification [ms_spec] (it returns the ranks of a chunk).  The model's formula
   [gen_multi_bit_sort] is proved to return the ranks on all chunks of bits
   (C18_gen_multi_bit_sort_ranks), which gives the full statement
   C18_lsd_radix_is_stable_sort below. *)
Theorem C18_lsd_radix_is_stable_sort_partial : forall ms, ms_spec ms -> forall pi_of b keys,
  (1 <= b)%nat -> Forall (fun r => length r = b) keys ->
  (forall i, is_perm (length keys) (pi_of i)) ->
  radix_sigma ms pi_of b keys = Ok (inv_perm (sorting_permutation keys)).
Proof. exact lsd_radix_is_stable_sort. Qed.

Definition C18_lsd_radix_is_stable_sort_full : Prop := forall pi_of b keys,
  (1 <= b)%nat -> Forall (fun r => length r = b /\ Forall (fun x => x = 0 \/ x = 1) r) keys ->
  (forall i, is_perm (length keys) (pi_of i)) ->
  radix_sigma gen_multi_bit_sort pi_of b keys = Ok (inv_perm (sorting_permutation keys)).

(* Algorithm 11's counting formula returns the rank of every chunk row (the inverse stable
   sorting permutation of the chunk): EVERY chunk width l >= 0 and EVERY table height, chunk
   rows of l bits.  (Without the bit hypothesis the statement is false: the value of a row of
   arbitrary integers is not monotone in the lexicographic order, see the Example below.) *)
Theorem C18_gen_multi_bit_sort_ranks : forall l k,
  Forall (fun r => length r = l /\ Forall (fun x => x = 0 \/ x = 1) r) k ->
  gen_multi_bit_sort k = inv_perm (sorting_permutation k).
Proof. exact gen_multi_bit_sort_ranks. Qed.

(* the arithmetic of the graph gen_multi_bit_sort_graph builds (xor mask, one-hot columns as a
   product over the bit axis, cumulative sum over rows, exclusive cumulative sum over buckets
   of the last row, sum over buckets of s * f, minus one: [alg11_circuit] in
   Proofs/SortMultiBitCircuit.v, a node-by-node reading of mpc_radix_sort.rs:310-360 with [w]
   the wrap-around of the UINT32 operations) IS the counting formula of the model, for every
   chunk width, every height, and every wrap that is the identity on 0..n *)
Theorem C18_alg11_circuit_is_counting_formula : forall (w : Z -> Z) l k,
  (forall z, 0 <= z <= Z.of_nat (length k) -> w z = z) ->
  Forall (fun r => length r = l /\ Forall (fun x => x = 0 \/ x = 1) r) k ->
  alg11_circuit w l k = map Z.of_nat (gen_multi_bit_sort k).
Proof. exact alg11_circuit_counts_gen. Qed.

(* in particular in UINT32, for fewer than 2^32 rows, the circuit returns the ranks *)
Theorem C18_alg11_circuit_ranks_u32 : forall l k,
  Forall (fun r => length r = l /\ Forall (fun x => x = 0 \/ x = 1) r) k ->
  Z.of_nat (length k) < 2 ^ 32 ->
  alg11_circuit (fun z => z mod 2 ^ 32) l k = map Z.of_nat (inv_perm (sorting_permutation k)).
Proof. exact alg11_circuit_ranks. Qed.

(* hence the full statement: the schedule with the concrete formula plugged in *)
Theorem C18_lsd_radix_is_stable_sort : C18_lsd_radix_is_stable_sort_full.
Proof. exact lsd_radix_gen_multi_bit_sort. Qed.

(* the whole secure sort of a column = the plaintext Sort of that column *)
Theorem C18_radix_sort_is_plaintext_sort_partial :
  forall ms, ms_spec ms -> forall pi_of (A : Type) (d : A) pi_fin b keys (col : list A),
  (1 <= b)%nat -> Forall (fun r => length r = b) keys ->
  (forall i, is_perm (length keys) (pi_of i)) -> is_perm (length keys) pi_fin ->
  length col = length keys ->
  radix_sort_column ms pi_of pi_fin d b keys col
  = Ok (apply_perm d (sorting_permutation keys) col).
Proof. exact radix_sort_column_is_sort. Qed.

Definition C18_radix_sort_is_plaintext_sort_full : Prop :=
  forall pi_of (A : Type) (d : A) pi_fin b keys (col : list A),
  (1 <= b)%nat -> Forall (fun r => length r = b /\ Forall (fun x => x = 0 \/ x = 1) r) keys ->
  (forall i, is_perm (length keys) (pi_of i)) -> is_perm (length keys) pi_fin ->
  length col = length keys ->
  radix_sort_column gen_multi_bit_sort pi_of pi_fin d b keys col
  = Ok (apply_perm d (sorting_permutation keys) col).

Theorem C18_radix_sort_is_plaintext_sort : C18_radix_sort_is_plaintext_sort_full.
Proof. exact radix_sort_column_gen_multi_bit_sort. Qed.

(* one LSD pass composes with the previous ones because it is stable (any split of the key) *)
Theorem C18_radix_compose : forall (keys : list (list Z)) (fh fl : list Z -> list Z) (c : nat),
  (forall r, In r keys -> length (fh r) = c) ->
  let Plo := sorting_permutation (map fl keys) in
  apply_perm 0%nat (sorting_permutation (apply_perm [] Plo (map fh keys))) Plo
  = sorting_permutation (map (fun r => fh r ++ fl r) keys).
Proof. exact radix_compose. Qed.

(* For EVERY permutation pi the protocol may draw, shuffle – reveal – apply – unshuffle
   (Algorithms 4/14) computes ro ∘ sigma on the sigma-ordered chunk, and Algorithm 13 applies
   sigma^-1: the results do not depend on the random permutations.  Holds for any [ms]. *)
Theorem C18_shuffle_conjugation : forall ms n pi sigma chunk,
  is_perm n pi -> is_perm n sigma -> length chunk = n ->
  radix_step ms pi sigma chunk
  = apply_perm 0%nat sigma (ms (apply_perm [] (inv_perm sigma) chunk)).
Proof. exact radix_step_conjugation. Qed.

Theorem C18_shuffle_conjugation_final : forall (A : Type) (d : A) n pi sigma col,
  is_perm n pi -> is_perm n sigma -> length col = n ->
  apply_sorting_permutation pi d sigma col = apply_perm d (inv_perm sigma) col.
Proof. exact @apply_sorting_permutation_conjugation. Qed.

(* Algorithm 11's counting formula against its specification: all chunk tables of 1..5 rows
   of 1 bit and of 2 bits (exhaustive, by computation) *)
Fixpoint all_rows (l : nat) : list (list Z) :=
  match l with O => [[]] | S l' => flat_map (fun r => [0 :: r; 1 :: r]) (all_rows l') end.
Fixpoint all_tables (n l : nat) : list (list (list Z)) :=
  match n with
  | O => [[]]
  | S n' => flat_map (fun t => map (fun r => r :: t) (all_rows l)) (all_tables n' l)
  end.
Theorem C18_gen_multi_bit_sort_small :
  forallb (fun nl : nat * nat =>
             forallb (fun k => eqb (gen_multi_bit_sort k) (inv_perm (sorting_permutation k)))
                     (all_tables (fst nl) (snd nl)))
          [(1,1); (2,1); (3,1); (4,1); (5,1); (1,2); (2,2); (3,2); (4,2); (5,2)]%nat = true.
Proof. vm_compute. reflexivity. Qed.

(* ---- non-vacuity ---- *)
Example C18_example_sort :
  let rows := [[1;0]; [0;1]; [1;0]; [0;0]; [0;1]] in
  sorting_permutation rows = [3; 1; 4; 0; 2]%nat /\
  apply_perm [] (sorting_permutation rows) rows = [[0;0]; [0;1]; [0;1]; [1;0]; [1;0]] /\
  sort_op "k" [("v"%string, [5; 2], [10;11; 20;21; 30;31; 40;41; 50;51]);
               ("k"%string, [5; 2], concat rows)]
  = Ok [[40;41; 20;21; 50;51; 10;11; 30;31]; [0;0; 0;1; 0;1; 1;0; 1;0]].
Proof. vm_compute. repeat split; reflexivity. Qed.

Example C18_example_radix_odd_width :
  (* width 3: a 1-bit pass then one 2-bit pass, with non-trivial protocol permutations *)
  let keys := [[1;0;1]; [0;1;1]; [1;0;1]; [0;0;0]; [1;1;0]] in
  let ms := fun k => inv_perm (sorting_permutation k) in
  radix_sigma ms (fun _ => [2;0;4;1;3]%nat) 3 keys = Ok (inv_perm (sorting_permutation keys)) /\
  radix_sigma gen_multi_bit_sort (fun _ => [2;0;4;1;3]%nat) 3 keys = Ok [2; 1; 3; 0; 4]%nat /\
  is_perm 5 [2;0;4;1;3]%nat /\ ms_spec ms.
Proof.
  repeat split; try (vm_compute; reflexivity).
  - unfold is_perm. apply (NoDup_Permutation_bis); [repeat constructor; simpl; intuition lia|simpl; lia|].
    intros x Hx. simpl in *. intuition lia.
Qed.

(* the bit hypothesis of C18_gen_multi_bit_sort_ranks is needed (so ms_spec itself, which
   quantifies over all integer rows, does not hold of the formula): two rows of non-bits with
   the same value; and the full theorems are not vacuous: a 5-bit key (chunks 1 + 2 + 2) *)
Example C18_gen_multi_bit_sort_needs_bits :
  let k := [[1; 0]; [0; 2]] in
  gen_multi_bit_sort k = [0; 1]%nat /\ inv_perm (sorting_permutation k) = [1; 0]%nat.
Proof. vm_compute. split; reflexivity. Qed.

Example C18_example_radix_full :
  let keys := [[1;0;1;1;0]; [0;1;1;0;1]; [1;0;1;1;0]; [0;0;0;1;1]; [1;1;0;0;0]; [0;1;1;0;0]] in
  Forall (fun r => length r = 5%nat /\ Forall (fun x => x = 0 \/ x = 1) r) keys /\
  radix_sigma gen_multi_bit_sort (fun _ => [2;0;4;1;5;3]%nat) 5 keys = Ok [3; 2; 4; 0; 5; 1]%nat /\
  inv_perm (sorting_permutation keys) = [3; 2; 4; 0; 5; 1]%nat.
Proof.
  split; [|split; vm_compute; reflexivity].
  repeat (apply Forall_cons;
          [split; [reflexivity|repeat (apply Forall_cons; [lia|]); apply Forall_nil]|]).
  apply Forall_nil.
Qed.

Example C18_example_intkey :
  integer_to_bits I8 (-128) = [0;0;0;0;0;0;0;0] /\ integer_to_bits I8 (-1) = [0;1;1;1;1;1;1;1] /\
  integer_to_bits I8 0 = [1;0;0;0;0;0;0;0] /\ integer_to_bits I8 127 = [1;1;1;1;1;1;1;1] /\
  integer_to_bits U8 200 = [1;1;0;0;1;0;0;0] /\
  execute_inverse_permutation [2;0;1]%nat = Ok [1;2;0]%nat /\
  execute_inverse_permutation [2;0;3]%nat = Err.
Proof. vm_compute. repeat split; reflexivity. Qed.

Print Assumptions C18_sort_sorted.
Print Assumptions C18_sort_perm.
Print Assumptions C18_sort_stable.
Print Assumptions C18_sort_op_spec.
Print Assumptions C18_get_sorting_permutation_rows.
Print Assumptions C18_gather_rows.
Print Assumptions C18_apply_inverse_id.
Print Assumptions C18_apply_permutation_op_spec.
Print Assumptions C18_apply_inverse_id_op.
Print Assumptions C18_execute_inverse_permutation_ok.
Print Assumptions C18_inverse_is_perm.
Print Assumptions C18_intkey_monotone.
Print Assumptions C18_lsd_radix_is_stable_sort_partial.
Print Assumptions C18_radix_sort_is_plaintext_sort_partial.
Print Assumptions C18_gen_multi_bit_sort_ranks.
Print Assumptions C18_alg11_circuit_is_counting_formula.
Print Assumptions C18_alg11_circuit_ranks_u32.
Print Assumptions C18_lsd_radix_is_stable_sort.
Print Assumptions C18_radix_sort_is_plaintext_sort.
Print Assumptions C18_radix_compose.
Print Assumptions C18_shuffle_conjugation.
Print Assumptions C18_shuffle_conjugation_final.
Print Assumptions C18_gen_multi_bit_sort_small.

(* C18 — sorting is a stable sort; permutation application and inversion agree. *)
From Coq Require Import Permutation Sorted.
From CC Require Import Base.Prelude Base.Scalar Model.Sort Proofs.SortProofs.

Theorem C18_sort_sorted : forall rows,
  StronglySorted lex_le (apply_perm [] (sorting_permutation rows) rows).
Proof. exact sort_sorted. Qed.

Print Assumptions C18_sort_sorted.

(* C19 — joins implement the documented relational semantics.
   Property theorems only: each is closed by [exact] of a lemma proved in Proofs/Join*Proofs.v.
   [join_impl] (Model/JoinImpl.v) mirrors evaluators/join.rs; [join_spec] (Model/JoinSpec.v) is the
   relational specification written from the documentation of Graph::join /
   Graph::join_with_column_masks; [masked] selects the variant with per-column masks. *)
From CC Require Import Base.Prelude Model.JoinTable Model.JoinImpl Model.JoinSpec Proofs.JoinProofs
  Proofs.JoinUnionProofs Proofs.JoinFullProofs.

(* The full statement: for well-formed tables whose rows that take part in matching have unique
   keys, the mirrored algorithm returns exactly the specified table, for the four join types and
   both variants.  ([full_ok] excludes header sets on which /repo's full join fails, see
   C19_full_join_header_collision_refuted below; it is only needed for JFull.) *)
Definition C19_full : Prop :=
  forall masked jt a b keys,
    wf_join masked a b keys -> full_ok a keys ->
    unique_live_keys masked a (map fst keys) -> unique_live_keys masked b (map snd keys) ->
    join_impl jt masked a b keys = Ok (join_spec masked jt a b keys).
(* "In this form, full join is computed as union_join(a, left_join(b, a))" — stated on the
   specification (the mirrored algorithm computes the full join this way by definition). *)
Definition C19_full_is_union_of_left : Prop :=
  forall masked a b keys,
    wf_join masked a b keys -> full_ok a keys ->
    join_spec masked JFull a b keys
    = join_spec masked JUnion a (join_spec masked JLeft b a (swap_keys keys)) keys.

(* The full statement is proved: all four join types, plain and masked variants, any number of key
   columns, any table sizes. *)
Theorem C19_join_impl_spec : C19_full.
Proof. exact join_impl_spec_all. Qed.

(* The hypotheses each join type really needs.  Inner and left join search the second table: its
   live keys must be unique (with a duplicate the hash map keeps the last row, the specification
   the first). *)
Theorem C19_inner_left_impl_spec : forall masked jt a b keys,
  jt = JInner \/ jt = JLeft ->
  wf_join masked a b keys -> unique_live_keys masked b (map snd keys) ->
  join_impl jt masked a b keys = Ok (join_spec masked jt a b keys).
Proof.
  intros masked jt a b keys [-> | ->].
  - exact (inner_impl_spec masked a b keys).
  - exact (left_impl_spec masked a b keys).
Qed.
(* The union join needs no uniqueness: it only asks whether a key of the first table occurs in the
   second. *)
Theorem C19_union_impl_spec : forall masked a b keys,
  wf_join masked a b keys ->
  join_impl JUnion masked a b keys = Ok (join_spec masked JUnion a b keys).
Proof. exact union_impl_spec. Qed.
(* The full join = union_join(a, left_join(b, a)) searches the first table only. *)
Theorem C19_full_join_impl_spec : forall masked a b keys,
  wf_join masked a b keys -> full_ok a keys -> unique_live_keys masked a (map fst keys) ->
  join_impl JFull masked a b keys = Ok (join_spec masked JFull a b keys).
Proof. exact full_impl_spec. Qed.

(* The documented identity, on the specification; no uniqueness needed *)
Theorem C19_full_join_is_union_of_left : C19_full_is_union_of_left.
Proof. exact full_is_union_of_left_all. Qed.

(* Row counts per join type (type_inference.rs:340-343), for every column of the specified table *)
Theorem C19_row_counts : forall masked jt a b keys,
  Forall (fun hc => length (c_rows (snd hc)) = expected_rows jt a b) (join_spec masked jt a b keys).
Proof. exact spec_row_count. Qed.

(* Column order and row sizes are those of the result type *)
Theorem C19_column_order : forall masked jt a b keys,
  map (fun hc => (fst hc, c_rs (snd hc))) (join_spec masked jt a b keys)
  = map (fun hr => (fst hr, if is_null (fst hr) then 1%nat else snd hr)) (result_headers a b keys).
Proof. exact spec_columns. Qed.

(* Every non-zero row of the inner join is the row of the left join at the same position
   (same provenance, hence the same cells in every column) *)
Theorem C19_inner_rows_are_left_rows : forall masked a b keys i i' oj,
  nth_error (provs masked JInner a b keys) i = Some (PA i' oj) ->
  nth_error (provs masked JLeft a b keys) i = Some (PA i' oj).
Proof. exact inner_rows_are_left_rows. Qed.

(* The hypothesis [full_ok] of C19_full cannot be dropped: when a key header of the second table
   names a non-key column of the first (a = {null:[1], k0:[5], j0:[7]}, b = {null:[1], j0:[5],
   pb0:[9]}, k0 -> j0; accepted by type inference) the full join does not return the specified
   table.  /repo returns Err there (KNOWN_FINDINGS: plain-JFull-fails-key-header-of-second-names-
   column-of-first); the mirror, which has no byte-level decode check, returns a table whose j0
   column is [0;0] instead of [0;7].  Inner, left and union joins are not affected. *)
Theorem C19_full_join_header_collision_refuted :
  exists a b keys,
    wf_join false a b keys /\ ~ full_ok a keys /\
    unique_live_keys false a (map fst keys) /\ unique_live_keys false b (map snd keys) /\
    join_impl JFull false a b keys <> Ok (join_spec false JFull a b keys).
Proof. exact full_join_header_collision_refuted. Qed.

(* Non-vacuity: the tables of /repo's own test "Setup 0" (mpc_psi.rs:3235) *)
Definition ex_s1 (l : list Z) : list row := map (fun x => [x]) l.
Definition ex_A : table :=
  [(null_header, mkcol 1 [] (ex_s1 [1;1;1;1;1])); ("a"%string, mkcol 1 [] (ex_s1 [1;2;3;4;5]));
   ("b"%string, mkcol 1 [] (ex_s1 [10;20;30;40;50]))].
Definition ex_B : table :=
  [(null_header, mkcol 1 [] (ex_s1 [1;1;1;1;1;1])); ("c"%string, mkcol 1 [] (ex_s1 [30;21;40;41;51;61]));
   ("d"%string, mkcol 1 [] (ex_s1 [300;210;400;410;510;610]))].
Definition ex_K : keymap := [("b"%string, "c"%string)].
Example C19_example_values :
  join_impl JLeft false ex_A ex_B ex_K
  = Ok [(null_header, mkcol 1 [] (ex_s1 [1;1;1;1;1])); ("a"%string, mkcol 1 [] (ex_s1 [1;2;3;4;5]));
        ("b"%string, mkcol 1 [] (ex_s1 [10;20;30;40;50])); ("d"%string, mkcol 1 [] (ex_s1 [0;0;300;400;0]))]
  /\ map (fun jt => eqb (join_impl jt false ex_A ex_B ex_K) (Ok (join_spec false jt ex_A ex_B ex_K)))
         [JInner; JLeft; JUnion; JFull] = [true; true; true; true].
Proof. split; vm_compute; reflexivity. Qed.

(* Non-vacuity of the hypotheses of C19_full: they hold for these tables (so the theorem applies to
   them, for the four join types) *)
Ltac ex_rows t n :=
  let h := fresh "h" in let c := fresh "c" in let H := fresh "H" in
  intros h c; change (nrows t) with n; unfold t; cbn [lookup];
  repeat (destruct (String.eqb h _); [intros H; inversion H; reflexivity|]); discriminate.
Ltac ex_null :=
  eexists; split; [reflexivity|];
  repeat (constructor; [eexists; split; [reflexivity|now right]|]); constructor.
Tactic Notation "ex_unique" integer(n) :=
  let i := fresh "i" in let j := fresh "j" in let H := fresh "H" in
  intros i j Hi Hj _ _ H;
  do n (destruct i as [|i]; [do n (destruct j as [|j]; [first [reflexivity | vm_compute in H; discriminate]|]);
                              exfalso; vm_compute in Hj; lia|]);
  exfalso; vm_compute in Hi; lia.
Example C19_hypotheses_satisfiable :
  wf_join false ex_A ex_B ex_K /\ full_ok ex_A ex_K /\
  unique_live_keys false ex_A (map fst ex_K) /\ unique_live_keys false ex_B (map snd ex_K).
Proof.
  split; [|split; [|split]].
  - constructor.
    + constructor; [nodup3 | ex_null | ex_rows ex_A 5%nat | discriminate].
    + constructor; [nodup3 | ex_null | ex_rows ex_B 6%nat | discriminate].
    + constructor; [|constructor]. cbn. repeat split; auto.
    + cbn. intros h [<-|[<-|[<-|[]]]] Hn Hk.
      * discriminate.
      * exfalso. apply Hk. now left.
      * unfold null_header. intuition discriminate.
  - intros h [<-|[]] Ha. cbn in Ha. unfold null_header in Ha. exfalso. intuition discriminate.
  - ex_unique 5.
  - ex_unique 6.
Qed.

Print Assumptions C19_join_impl_spec.
Print Assumptions C19_inner_left_impl_spec.
Print Assumptions C19_union_impl_spec.
Print Assumptions C19_full_join_impl_spec.
Print Assumptions C19_full_join_is_union_of_left.
Print Assumptions C19_row_counts.
Print Assumptions C19_column_order.
Print Assumptions C19_inner_rows_are_left_rows.
Print Assumptions C19_full_join_header_collision_refuted.

(* C07 — inlining preserves Call/Iterate semantics in every mode.
   Property theorems only: each is closed by [exact] of a lemma proved in Proofs/, and its
   assumptions are printed.  The models are Model/Prefix.v (the generic combination strategies of
   inline/data_structures.rs, inline/inline_common.rs) and Model/Iterate.v (the four Iterate
   strategies at the level of the body's function f : S -> I -> S * O).

   Reading guide.  [fold1 op l] is [Some (l0 op l1 op ... )] combined left to right, [None] for
   the empty list.  Every theorem is for EVERY list length (0 and 1 included) and EVERY operation
   satisfying the stated contract; "= Ok ..." says in particular that no index is out of range
   (Panic) and no loop exceeds its fuel (OutOfFuel). *)
From CC Require Import Base.Prelude Model.Prefix Model.Iterate Proofs.PrefixProofs Proofs.IterateProofs
  Proofs.SymProofs.
Local Open Scope nat_scope.

(* ------------------------------------------------------------------ combination strategies *)

(* log_depth_sum (data_structures.rs:10): the total, combined left to right; Err exactly on the
   empty list. *)
Theorem C07_log_depth_sum_spec : forall (T : Type) (op : T -> T -> T),
  (forall a b c, op (op a b) c = op a (op b c)) ->
  forall items, log_depth_sum op items =
                match items with [] => Err | x :: r => Ok (fold_left op r x) end.
Proof. exact @log_depth_sum_total. Qed.

(* prefix_sums_binary_ascent (data_structures.rs:40): position i holds xs[0] op ... op xs[i]. *)
Theorem C07_binary_ascent_spec : forall (T : Type) (op : T -> T -> T),
  (forall a b c, op (op a b) c = op a (op b c)) ->
  forall xs, exists ys, prefix_sums_binary_ascent op xs = Ok ys /\
    length ys = length xs /\
    forall i, i < length xs -> nth_error ys i = fold1 op (firstn (S i) xs).
Proof. exact @binary_ascent_spec. Qed.

(* prefix_sums_sqrt_trick (data_structures.rs:65), block size max 1 (floor (sqrt n)). *)
Theorem C07_sqrt_trick_spec : forall (T : Type) (op : T -> T -> T),
  (forall a b c, op (op a b) c = op a (op b c)) ->
  forall xs, exists ys, prefix_sums_sqrt_trick op xs = Ok ys /\
    length ys = length xs /\
    forall i, i < length xs -> nth_error ys i = fold1 op (firstn (S i) xs).
Proof. exact @sqrt_trick_spec. Qed.

(* ... and its two passes are correct for ANY block size >= 1, so correctness does not depend on
   the floating-point square root of the Rust code being exact. *)
Theorem C07_sqrt_trick_any_block_size : forall (T : Type) (op : T -> T -> T),
  (forall a b c, op (op a b) c = op a (op b c)) ->
  forall bs xs, 1 <= bs -> exists ys, prefix_sums_blocks op bs xs = Ok ys /\
    length ys = length xs /\
    forall i, i < length xs -> nth_error ys i = fold1 op (firstn (S i) xs).
Proof. exact @blocks_spec. Qed.

(* the modelled block size is the floor square root (at least 1) *)
Theorem C07_isqrt_is_floor_sqrt : forall n,
  isqrt n * isqrt n <= n < (isqrt n + 1) * (isqrt n + 1).
Proof. exact isqrt_spec. Qed.

(* prefix_sums_segment_tree (data_structures.rs:96). *)
Theorem C07_segment_tree_spec : forall (T : Type) (op : T -> T -> T),
  (forall a b c, op (op a b) c = op a (op b c)) ->
  forall xs, exists ys, prefix_sums_segment_tree op xs = Ok ys /\
    length ys = length xs /\
    forall i, i < length xs -> nth_error ys i = fold1 op (firstn (S i) xs).
Proof. exact @segment_tree_spec. Qed.

(* pick_prefix_sum_algorithm (inline_common.rs:26): whatever is picked, for any caller length
   (also when it differs from the list's length, as in the associative inliner) and either level. *)
Theorem C07_pick_spec : forall (T : Type) (op : T -> T -> T),
  (forall a b c, op (op a b) c = op a (op b c)) ->
  forall inputs_len lvl xs, exists ys, pick_prefix_sum_algorithm op inputs_len lvl xs = Ok ys /\
    length ys = length xs /\
    forall i, i < length xs -> nth_error ys i = fold1 op (firstn (S i) xs).
Proof. exact @pick_spec. Qed.

(* ------------------------------------------------------------------ symbolic runs
   [sym_run which n] is the model of the hook inline::verif_hooks::run_strategy over the FREE term
   algebra (items = Leaf 0 .. Leaf (n-1), combiner = Comb); its result is what the harness compares
   with the trees rebuilt from /repo's recorded combination log, for every length it runs. *)

(* Evaluating the trees of a symbolic run under ANY operation and ANY valuation of the leaves
   gives the run of the same strategy on the evaluated leaves (no associativity needed): the
   symbolic tie therefore speaks for every concrete combiner. *)
Theorem C07_symbolic_run_evaluates : forall (T : Type) (op : T -> T -> T) (env : N -> T) which n,
  rmap (map (term_eval op env)) (sym_run which n) =
  let items := map (term_eval op env) (leaves n) in
  match which with
  | 0 => let* r := log_depth_sum op items in Ok [r]
  | 1 => prefix_sums_binary_ascent op items
  | 2 => prefix_sums_sqrt_trick op items
  | 3 => prefix_sums_segment_tree op items
  | 4 => pick_prefix_sum_algorithm op n LvlDefault items
  | _ => pick_prefix_sum_algorithm op n LvlExtreme items
  end.
Proof. exact @sym_run_eval. Qed.

(* For an associative operation, output i of every symbolic prefix-sum run denotes
   leaf 0 op leaf 1 op ... op leaf i. *)
Theorem C07_symbolic_run_sound : forall (T : Type) (op : T -> T -> T) (env : N -> T) which n ts,
  (forall a b c, op (op a b) c = op a (op b c)) ->
  1 <= which -> sym_run which n = Ok ts ->
  length ts = n /\
  forall i, i < n -> option_map (term_eval op env) (nth_error ts i)
                     = fold1 op (firstn (S i) (map (fun k => env (N.of_nat k)) (seq 0 n))).
Proof. exact @sym_run_sound. Qed.

(* ------------------------------------------------------------------ Iterate strategies
   [iterate_ref f s0 xs] is the evaluator's own semantics of Operation::Iterate
   (evaluators.rs:36-54): (final state, list of outputs). *)

(* simple_iterate_inliner.rs *)
Theorem C07_iterate_simple_spec : forall (St I O : Type) (f : St -> I -> St * O) s0 xs,
  iterate_simple f s0 xs = Ok (iterate_ref f s0 xs).
Proof. exact @iterate_simple_spec. Qed.

(* empty_state_iterate_inliner.rs: the state type has one inhabitant (the empty tuple) *)
Theorem C07_iterate_empty_state_spec : forall (St I O : Type) (f : St -> I -> St * O) s0 xs,
  (forall a b : St, a = b) ->
  iterate_empty_state f s0 xs = Ok (iterate_ref f s0 xs).
Proof. exact @iterate_empty_state_spec. Qed.

(* associative_iterate_inliner.rs, under the contract of GraphAnnotation::AssociativeOperation
   (the state component of the body is an associative operation on states); when the body's
   output type is the empty tuple its only value is [unit_out].  Final state and every output
   equal the sequential run, for each prefix algorithm (both levels, every length). *)
Theorem C07_iterate_associative_spec : forall (St O : Type) (f : St -> St -> St * O),
  (forall a b c, state_comb f (state_comb f a b) c = state_comb f a (state_comb f b c)) ->
  forall empty_output unit_out lvl s0 xs,
  (empty_output = true -> forall s x, snd (f s x) = unit_out) ->
  iterate_associative f empty_output unit_out lvl s0 xs = Ok (iterate_ref f s0 xs).
Proof. exact @iterate_associative_spec. Qed.

(* exponential_inliner.rs with mappings read as transition functions S -> S and their product as
   composition (associative by computation): for ANY body f the composed transition functions
   applied to the initial state give the sequential states, hence the same final state and
   outputs.  The K-bit bit-matrix encoding of the mappings is NOT modelled (see below). *)
Theorem C07_iterate_small_state_spec_partial : forall (St I O : Type) (f : St -> I -> St * O)
  empty_output unit_out lvl s0 xs,
  (empty_output = true -> forall s x, snd (f s x) = unit_out) ->
  iterate_small_state f empty_output unit_out lvl s0 xs = Ok (iterate_ref f s0 xs).
Proof. exact @iterate_small_state_spec. Qed.

(* Any representation of mappings that respects composition and application may replace the
   transition functions (so the prefix theorems transfer to it) ... *)
Theorem C07_small_state_encoding_sufficient : forall (St M : Type) (encode : (St -> St) -> M)
  (mul : M -> M -> M) (extract : M -> St -> St),
  (forall g h, mul (encode g) (encode h) = encode (compose g h)) ->
  (forall g s, extract (encode g) s = g s) ->
  forall (ms : list (St -> St)) m s, fold1 compose ms = Some m ->
    exists e, fold1 mul (map encode ms) = Some e /\ extract e s = m s.
Proof. exact @encoding_sufficient. Qed.

(* ... and the single-bit encoding (OneBitState: MappingCombiner1Bit and the single_bit branch of
   extract_state_from_mapping, exponential_inliner.rs:227-262), modelled exactly over bits,
   satisfies both laws. *)
Theorem C07_small_state_one_bit_encoding :
  (forall g h, combine1 (encode1 g) (encode1 h) = encode1 (compose g h)) /\
  (forall g s, extract1 (encode1 g) s = g s).
Proof. exact (conj combine1_encode1 extract1_encode1). Qed.

(* NOT proved (hence the _partial above): the K-bit encoding.  The algebraic core is that the
   bit-matrix product of one-hot transition matrices is the one-hot matrix of the composition;
   beyond it, the graph-level construction of these matrices for batched states (mask constants,
   one_hot_encode, reshape / permute_axes, the final decoding by a product with the mask array,
   under the batching contract of exponential_inliner.rs:17-29) is not modelled at all and is
   covered only by the harness's semantic oracle (state kinds OneBit.., SmallState..). *)
Definition C07_small_state_matrix_encoding_full : Prop :=
  forall m (g h : nat -> nat), (forall i, i < m -> g i < m) ->
    forall i j, i < m -> j < m ->
      bit_matmul m (onehot_matrix g) (onehot_matrix h) i j = onehot_matrix (fun s => h (g s)) i j.

(* ------------------------------------------------------------------ non-vacuity *)
(* a non-commutative associative operation: composition of affine maps x |-> a*x + b over Z *)
Local Open Scope Z_scope.
Definition affine_comp (p q : Z * Z) : Z * Z := (fst p * fst q, snd p * fst q + snd q).
Example C07_example_affine_assoc : forall a b c,
  affine_comp (affine_comp a b) c = affine_comp a (affine_comp b c).
Proof. intros [a1 a2] [b1 b2] [c1 c2]. unfold affine_comp. cbn [fst snd]. f_equal; ring. Qed.
Example C07_example_affine_noncomm : affine_comp (2, 1) (3, 5) <> affine_comp (3, 5) (2, 1).
Proof. vm_compute. discriminate. Qed.
Example C07_example_runs :
  let xs := [(2, 1); (3, 5); (1, 7); (5, 0); (2, 2); (7, 1); (1, 1)] in
  prefix_sums_binary_ascent affine_comp xs = prefix_sums_sqrt_trick affine_comp xs /\
  prefix_sums_segment_tree affine_comp xs = prefix_sums_sqrt_trick affine_comp xs /\
  prefix_sums_sqrt_trick affine_comp xs =
    Ok [(2, 1); (6, 8); (6, 15); (30, 75); (60, 152); (420, 1065); (420, 1066)] /\
  log_depth_sum affine_comp xs = Ok (420, 1066).
Proof. vm_compute. repeat split. Qed.
(* a body satisfying the associative contract, with a non-trivial output *)
Example C07_example_iterate :
  let f := fun s x : Z * Z => (affine_comp s x, fst s + snd x) in
  (forall a b c, state_comb f (state_comb f a b) c = state_comb f a (state_comb f b c)) /\
  iterate_associative f false 0 LvlDefault (1, 0) [(2, 1); (3, 5); (1, 7)]
  = Ok ((6, 15), [2; 7; 13]).
Proof. split; [intros; apply C07_example_affine_assoc|reflexivity]. Qed.
Example C07_example_symbolic :
  sym_run 3 5 = Ok [Leaf 0; Comb (Leaf 0) (Leaf 1); Comb (Comb (Leaf 0) (Leaf 1)) (Leaf 2);
                    Comb (Comb (Leaf 0) (Leaf 1)) (Comb (Leaf 2) (Leaf 3));
                    Comb (Comb (Comb (Leaf 0) (Leaf 1)) (Comb (Leaf 2) (Leaf 3))) (Leaf 4)]%N.
Proof. reflexivity. Qed.

Print Assumptions C07_log_depth_sum_spec.
Print Assumptions C07_binary_ascent_spec.
Print Assumptions C07_sqrt_trick_spec.
Print Assumptions C07_sqrt_trick_any_block_size.
Print Assumptions C07_isqrt_is_floor_sqrt.
Print Assumptions C07_segment_tree_spec.
Print Assumptions C07_pick_spec.
Print Assumptions C07_symbolic_run_evaluates.
Print Assumptions C07_symbolic_run_sound.
Print Assumptions C07_iterate_simple_spec.
Print Assumptions C07_iterate_empty_state_spec.
Print Assumptions C07_iterate_associative_spec.
Print Assumptions C07_iterate_small_state_spec_partial.
Print Assumptions C07_small_state_encoding_sufficient.
Print Assumptions C07_small_state_one_bit_encoding.

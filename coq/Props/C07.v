(* C07 — inlining preserves Call/Iterate semantics in every mode.
   Property theorems only: each is closed by [exact] of a lemma proved in Proofs/. *)
From CC Require Import Base.Prelude Model.Prefix Model.Iterate Proofs.PrefixProofs.
Local Open Scope nat_scope.

(* log_depth_sum (data_structures.rs:10): for every list and every associative op, the total
   combined left to right; Err exactly on the empty list; never Panic / OutOfFuel. *)
Theorem C07_log_depth_sum_spec : forall (T : Type) (op : T -> T -> T),
  (forall a b c, op (op a b) c = op a (op b c)) ->
  forall items, log_depth_sum op items =
                match items with [] => Err | x :: r => Ok (fold_left op r x) end.
Proof. exact @log_depth_sum_total. Qed.

(* prefix_sums_binary_ascent (data_structures.rs:40): for EVERY length (0 and 1 included) and every
   associative op the result is Ok, has the input's length, and position i holds
   xs[0] op xs[1] op ... op xs[i]. *)
Theorem C07_binary_ascent_spec : forall (T : Type) (op : T -> T -> T),
  (forall a b c, op (op a b) c = op a (op b c)) ->
  forall xs, exists ys, prefix_sums_binary_ascent op xs = Ok ys /\
    length ys = length xs /\
    forall i, i < length xs -> nth_error ys i = fold1 op (firstn (S i) xs).
Proof. exact @binary_ascent_spec. Qed.

Print Assumptions C07_log_depth_sum_spec.
Print Assumptions C07_binary_ascent_spec.

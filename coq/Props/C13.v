(* C13 — values encode integers faithfully, in bytes and in JSON.
   Property theorems only: each is closed by [exact] of a lemma proved in Proofs/, its
   statement is pinned with [Check], and its assumptions are printed. *)
From CC Require Import Base.Prelude Base.Scalar Base.Ty Model.Bytes Proofs.BytesProofs.
From CC Require Import Model.TvJson Proofs.TvJsonProofs.

(* Writing any list of Rust integers as a non-bit scalar type and reading it back with the
   128-bit reader returns, for every element, x mod 2^w sign-extended for signed types. *)
Theorem C13_enc_dec_u128 : forall st xs,
  st <> Bit -> Forall rust_int xs ->
  exists b, vec_to_bytes st xs = Ok b /\
            length b = (length xs * nbytes st)%nat /\
            Forall byte b /\
            vec_u128_from_bytes st b = Ok (map (ext128 st) xs).
Proof. exact enc_dec_u128. Qed.

(* The narrower typed readers are casts of the 128-bit reader: each returns the type's own
   integer value reduced to the reader's width, and the value itself when wide enough. *)
Theorem C13_reader_unsigned_mod : forall k st x,
  0 <= k <= 128 -> cast_u k (ext128 st x) = sval st x mod 2 ^ k.
Proof. exact cast_u_ext128. Qed.
Theorem C13_reader_signed_exact : forall k st x,
  signed st = true -> width st <= k <= 128 -> cast_i k (ext128 st x) = sval st x.
Proof. exact cast_i_exact. Qed.
Theorem C13_reader_unsigned_exact : forall k st x,
  signed st = false -> width st <= k <= 128 -> cast_u k (ext128 st x) = sval st x.
Proof. exact cast_u_exact. Qed.

(* Bit arrays of every length: packed eight to a byte, ceil(n/8) bytes, unpacking gives the
   bits back followed only by zero padding (no stray bits); non-bits are rejected. *)
Theorem C13_bits_pack_unpack : forall xs,
  Forall is_bit xs ->
  exists b pad, vec_to_bytes Bit xs = Ok b /\ Forall byte b /\
                Z.of_nat (length b) = (Z.of_nat (length xs) + 7) / 8 /\
                vec_u128_from_bytes Bit b = Ok (xs ++ repeat 0 pad).
Proof. exact bits_pack_unpack. Qed.
Theorem C13_bits_reject : forall xs, ~ Forall is_bit xs -> vec_to_bytes Bit xs = Err.
Proof. exact bits_reject. Qed.

(* A value is accepted for a type exactly when its layout matches the type. *)
Theorem C13_check_type_iff_layout : forall v t, check_type_raw v t = true <-> layout v t.
Proof. exact check_type_iff_layout. Qed.

(* Non-vacuity: concrete instances of the hypotheses and conclusions. *)
Example C13_example_i16_min :
  vec_to_bytes I16 [-32768; -1; 65537] = Ok [0; 128; 255; 255; 1; 0] /\
  vec_u128_from_bytes I16 [0; 128; 255; 255; 1; 0]
  = Ok [2 ^ 128 - 32768; 2 ^ 128 - 1; 1] /\ Forall rust_int [-32768; -1; 65537].
Proof. split; [reflexivity|split; [reflexivity|]]. repeat constructor; unfold rust_int; lia. Qed.
Example C13_example_bits9 :
  vec_to_bytes Bit [1;0;0;0;0;0;0;1;1] = Ok [129; 1].
Proof. reflexivity. Qed.

Print Assumptions C13_enc_dec_u128.
Print Assumptions C13_reader_unsigned_mod.
Print Assumptions C13_reader_signed_exact.
Print Assumptions C13_reader_unsigned_exact.
Print Assumptions C13_bits_pack_unpack.
Print Assumptions C13_bits_reject.
Print Assumptions C13_check_type_iff_layout.

(* ---------------------------------------------------------------------------------------------
   JSON half (Model/TvJson.v mirrors typed_value_serialization.rs over an abstract JSON tree;
   typed values are (type, bytes) as in Model/Bytes.v, so the byte theorems above apply to the
   very readers and writers used here).

   [wf t v]: v is a value TypedValue::new accepts for t at every level of the type tree, its
   bytes are bytes, array dimensions are non-negative, and t contains neither a zero-length vector
   whose element type is not the empty tuple nor a named tuple without fields.  For every such
   typed value, of every type tree, printing succeeds and the printed tree parses back to a typed
   value of the same type that TypedValue::is_equal accepts.  Elements are whatever the bytes hold:
   every value of every scalar type, negative and 128-bit ones included, and bit arrays with stray
   bits beyond their size (which is why the conclusion is is_equal and not equality of bytes). *)
Theorem C13_json_roundtrip : forall t v, wf t v ->
  exists j v', print_tv t v = Ok j /\ parse_tv j = Ok (t, v') /\ is_equal (t, v) (t, v') = Ok true.
Proof. exact json_roundtrip. Qed.

(* What the numbers in the JSON are: writing any Rust integers as a non-bit scalar type and
   reading them with the reader the serializer uses for that type (to_flattened_array_u8 for u8,
   _i8 for i8, ... _i128 for i128) gives each element's own value modulo 2^w, in two's complement
   for signed types - negative numbers print negative, u128 prints up to 2^128-1.  (C13_enc_dec_u128
   composed with the reader theorems.) *)
Theorem C13_json_prints_value : forall st xs, st <> Bit -> Forall rust_int xs ->
  exists b, vec_to_bytes st xs = Ok b /\
            rmap (map (reader st)) (vec_u128_from_bytes st b) = Ok (map (sval st) xs).
Proof. exact json_prints_value. Qed.

(* Parsing never panics (nor runs out of fuel: there is none), on any JSON tree whatever: every
   malformed document is an Err. *)
Theorem C13_json_parse_total : forall j, parse_tv j <> Panic /\ parse_tv j <> OutOfFuel.
Proof. exact json_parse_total. Qed.

(* The statement without the two exclusions of [wf] is false in /repo; the faithful model refutes
   it with these witnesses (both reproduced in Rust by the harness, classes
   json-empty-vector-type-lost and json-empty-named-tuple-rejected). *)
Definition C13_json_roundtrip_full : Prop := forall t v, check_type v t = Ok true ->
  exists j tv', print_tv t v = Ok j /\ parse_tv j = Ok tv' /\ is_equal (t, v) tv' = Ok true.
Theorem C13_json_roundtrip_refuted_empty_vector :
  exists t v j tv', check_type v t = Ok true /\ print_tv t v = Ok j /\ parse_tv j = Ok tv' /\
                    is_equal (t, v) tv' = Ok false.
Proof. exact json_roundtrip_refuted_empty_vector. Qed.
Theorem C13_json_roundtrip_refuted_empty_named :
  exists t v j, check_type v t = Ok true /\ print_tv t v = Ok j /\ parse_tv j = Err.
Proof. exact json_roundtrip_refuted_empty_named. Qed.

(* Non-vacuity: a nested value with an i16 minimum, a 3x3 bit array with stray bits, i128 -1 and
   minimum inside a vector inside a named tuple, and 2^64-1; it is well formed, and the model
   computes its round trip (the stray bits are dropped, everything else is identical). *)
Example C13_json_example_wf : wf example_ty example_value.
Proof. exact example_wf. Qed.
Example C13_json_example_roundtrip :
  exists j, print_tv example_ty example_value = Ok j /\
            parse_tv j = Ok (example_ty,
              BVec [BBytes [0; 128]; BBytes [255; 1];
                    BVec [BVec [BBytes (repeat 255 16); BBytes (repeat 0 15 ++ [128])];
                          BBytes (repeat 255 8 ++ repeat 0 8)]]).
Proof. exact example_roundtrip. Qed.

Print Assumptions C13_json_roundtrip.
Print Assumptions C13_json_parse_total.
Print Assumptions C13_json_prints_value.
Print Assumptions C13_json_roundtrip_refuted_empty_vector.
Print Assumptions C13_json_roundtrip_refuted_empty_named.

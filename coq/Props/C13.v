(* C13 — values encode integers faithfully, in bytes and in JSON.
   Property theorems only: each is closed by [exact] of a lemma proved in Proofs/, its
   statement is pinned with [Check], and its assumptions are printed. *)
From CC Require Import Base.Prelude Base.Scalar Base.Ty Model.Bytes Proofs.BytesProofs.

(* Writing any list of Rust integers as a non-bit scalar type and reading it back with the
   128-bit reader returns, for every element, x mod 2^w sign-extended for signed types. *)
Theorem C13_enc_dec_u128 : forall st xs,
  st <> Bit -> Forall rust_int xs ->
  exists b, vec_to_bytes st xs = Ok b /\
            length b = (length xs * nbytes st)%nat /\
            Forall byte b /\
            vec_u128_from_bytes st b = Ok (map (ext128 st) xs).
Proof. exact enc_dec_u128. Qed.

(* The narrower typed readers are casts of the 128-bit reader: each returns the type's own
   integer value reduced to the reader's width, and the value itself when wide enough. *)
Theorem C13_reader_unsigned_mod : forall k st x,
  0 <= k <= 128 -> cast_u k (ext128 st x) = sval st x mod 2 ^ k.
Proof. exact cast_u_ext128. Qed.
Theorem C13_reader_signed_exact : forall k st x,
  signed st = true -> width st <= k <= 128 -> cast_i k (ext128 st x) = sval st x.
Proof. exact cast_i_exact. Qed.
Theorem C13_reader_unsigned_exact : forall k st x,
  signed st = false -> width st <= k <= 128 -> cast_u k (ext128 st x) = sval st x.
Proof. exact cast_u_exact. Qed.

(* Bit arrays of every length: packed eight to a byte, ceil(n/8) bytes, unpacking gives the
   bits back followed only by zero padding (no stray bits); non-bits are rejected. *)
Theorem C13_bits_pack_unpack : forall xs,
  Forall is_bit xs ->
  exists b pad, vec_to_bytes Bit xs = Ok b /\ Forall byte b /\
                Z.of_nat (length b) = (Z.of_nat (length xs) + 7) / 8 /\
                vec_u128_from_bytes Bit b = Ok (xs ++ repeat 0 pad).
Proof. exact bits_pack_unpack. Qed.
Theorem C13_bits_reject : forall xs, ~ Forall is_bit xs -> vec_to_bytes Bit xs = Err.
Proof. exact bits_reject. Qed.

(* A value is accepted for a type exactly when its layout matches the type. *)
Theorem C13_check_type_iff_layout : forall v t, check_type_raw v t = true <-> layout v t.
Proof. exact check_type_iff_layout. Qed.

(* Non-vacuity: concrete instances of the hypotheses and conclusions. *)
Example C13_example_i16_min :
  vec_to_bytes I16 [-32768; -1; 65537] = Ok [0; 128; 255; 255; 1; 0] /\
  vec_u128_from_bytes I16 [0; 128; 255; 255; 1; 0]
  = Ok [2 ^ 128 - 32768; 2 ^ 128 - 1; 1] /\ Forall rust_int [-32768; -1; 65537].
Proof. split; [reflexivity|split; [reflexivity|]]. repeat constructor; unfold rust_int; lia. Qed.
Example C13_example_bits9 :
  vec_to_bytes Bit [1;0;0;0;0;0;0;1;1] = Ok [129; 1].
Proof. reflexivity. Qed.

Print Assumptions C13_enc_dec_u128.
Print Assumptions C13_reader_unsigned_mod.
Print Assumptions C13_reader_signed_exact.
Print Assumptions C13_reader_unsigned_exact.
Print Assumptions C13_bits_pack_unpack.
Print Assumptions C13_bits_reject.
Print Assumptions C13_check_type_iff_layout.

(* C17 — bit-level arithmetic helpers are exact.
   Property theorems only: each is closed by [exact] of a lemma proved in Proofs/. *)
From CC Require Import Base.Prelude Base.Scalar Model.Mux Proofs.MuxProofs.

(* Mux, bits and every integer scalar type (st ranges over all 11 scalar types): where the
   selector is 1 the result is the second operand, where it is 0 the third, as an element of
   the type (the mod 2^w arithmetic of the integer branch included). *)
Theorem C17_mux_spec : forall st f c1 c0,
  is_flag f -> mux st f c1 c0 = norm st (if f =? 1 then c1 else c0).
Proof. exact mux_spec. Qed.

Theorem C17_mux_spec_in_range : forall st f c1 c0,
  is_flag f -> 0 <= c1 < modulus st -> 0 <= c0 < modulus st ->
  mux st f c1 c0 = if f =? 1 then c1 else c0.
Proof. exact mux_spec_in_range. Qed.

(* elementwise on arrays (operands broadcast to the output shape); the operation is accepted
   exactly for a bit selector and choices of one scalar type *)
Theorem C17_mux_elementwise : forall st fs c1s c0s,
  Forall is_flag fs ->
  mux_op Bit st st fs c1s c0s =
  Ok (map (fun t => norm st (if fst t =? 1 then fst (snd t) else snd (snd t)))
          (combine fs (combine c1s c0s))).
Proof. exact mux_op_spec. Qed.

(* Non-vacuity; the second line is the witness of the repaired defect (34574f8). *)
Example C17_example_mux :
  mux U32 1 111 222 = 111 /\ mux U32 0 111 222 = 222 /\
  mux I8 1 255 3 = 255 /\ mux Bit 1 1 0 = 1 /\ mux Bit 0 1 0 = 0 /\
  mux_op Bit U8 U8 [1; 0; 1] [10; 20; 30] [7; 8; 9] = Ok [10; 8; 30] /\
  mux_op U8 U8 U8 [1] [1] [1] = Err /\ mux_op Bit U8 I8 [1] [1] [1] = Err.
Proof. repeat split; reflexivity. Qed.

Print Assumptions C17_mux_spec.
Print Assumptions C17_mux_spec_in_range.
Print Assumptions C17_mux_elementwise.

(* C17 — bit-level arithmetic helpers are exact.
   Property theorems only: each is closed by [exact] of a lemma proved in Proofs/.
   Bitstrings are lists of booleans, least significant bit first; [bval] is the unsigned and
   [sbval] the two's complement value.  All statements are unbounded in the width. *)
From CC Require Import Base.Prelude Base.Scalar
  Model.Adder Model.Mux Model.Clip Model.LongDiv
  Proofs.AdderProofs Proofs.MuxProofs Proofs.ClipProofs Proofs.LongDivProofs.

(* ------------------------------------------------------------------ Mux *)
(* bits and every integer scalar type (st ranges over all 11 scalar types): where the
   selector is 1 the result is the second operand, where it is 0 the third, as an element of
   the type (the mod 2^w arithmetic of the integer branch included). *)
Theorem C17_mux_spec : forall st f c1 c0,
  is_flag f -> mux st f c1 c0 = norm st (if f =? 1 then c1 else c0).
Proof. exact mux_spec. Qed.

Theorem C17_mux_spec_in_range : forall st f c1 c0,
  is_flag f -> 0 <= c1 < modulus st -> 0 <= c0 < modulus st ->
  mux st f c1 c0 = if f =? 1 then c1 else c0.
Proof. exact mux_spec_in_range. Qed.

(* elementwise on arrays (operands broadcast to the output shape) *)
Theorem C17_mux_elementwise : forall st fs c1s c0s,
  Forall is_flag fs ->
  mux_op Bit st st fs c1s c0s =
  Ok (map (fun t => norm st (if fst t =? 1 then fst (snd t) else snd (snd t)))
          (combine fs (combine c1s c0s))).
Proof. exact mux_op_spec. Qed.

(* ------------------------------------------------------------------ BinaryAdd *)
(* for every k, width n = 2^k, all operands: the operation succeeds, the result is the sum
   modulo 2^n, and with overflow_bit the second output is the true carry (a+b) / 2^n *)
Theorem C17_adder_sum : forall k a b ob,
  length a = (2 ^ k)%nat -> length b = (2 ^ k)%nat ->
  exists s ov, binary_add ob a b = Ok (s, ov) /\
    length s = (2 ^ k)%nat /\
    bval s = (bval a + bval b) mod 2 ^ Z.of_nat (2 ^ k) /\
    (if ob then exists c, ov = Some [c] /\ Z.b2z c = (bval a + bval b) / 2 ^ Z.of_nat (2 ^ k)
     else ov = None).
Proof. exact adder_sum_ex. Qed.

(* the mechanism: the segment tree returns exactly the ripple carries into every position
   (scan false ...), and the carry out of the last one *)
Theorem C17_adder_carries : forall k p g ob,
  length p = (2 ^ k)%nat -> length g = (2 ^ k)%nat ->
  calculate_carry_bits p g ob =
  Ok (firstn (2 ^ k) (scan false (combine p g)),
      if ob then Some [last (scan false (combine p g)) false] else None).
Proof. exact calculate_carry_bits_spec. Qed.

(* ------------------------------------------------------------------ Clip2K *)
(* every width, every k <= n - 2: 0 for negative inputs, 2^k for inputs >= 2^k, else the input *)
Theorem C17_clip_spec : forall k x,
  (k + 2 <= length x)%nat ->
  exists r, clip2k k x = Ok r /\ length r = length x /\
            bval r = clamp2k k (sbval x) /\ sbval r = clamp2k k (sbval x).
Proof. exact clip_spec. Qed.

(* ------------------------------------------------------------------ LongDivision *)
(* every power-of-two width n = 2^k >= 2, every non-zero divisor.  Z's / and mod are floored
   division: the remainder takes the divisor's sign. *)
Theorem C17_longdiv_spec_unsigned : forall k a d,
  (1 <= k)%nat -> length a = (2 ^ k)%nat -> length d = (2 ^ k)%nat -> bval d <> 0 ->
  exists q r, long_division false a d = Ok (q, r) /\
              length q = (2 ^ k)%nat /\ length r = (2 ^ k)%nat /\
              bval q = bval a / bval d /\ bval r = bval a mod bval d /\
              bval q * bval d + bval r = bval a /\ 0 <= bval r < bval d.
Proof. exact longdiv_unsigned_same_width. Qed.

Theorem C17_longdiv_spec_signed : forall k a d,
  (1 <= k)%nat -> length a = (2 ^ k)%nat -> length d = (2 ^ k)%nat -> sbval d <> 0 ->
  exists q r, long_division true a d = Ok (q, r) /\
              length q = (2 ^ k)%nat /\ length r = (2 ^ k)%nat /\
              bval q = (sbval a / sbval d) mod 2 ^ Z.of_nat (2 ^ k) /\
              sbval r = sbval a mod sbval d /\
              (bval q * sbval d + sbval r) mod 2 ^ Z.of_nat (2 ^ k)
                = sbval a mod 2 ^ Z.of_nat (2 ^ k) /\
              (0 <= sbval r < sbval d \/ sbval d < sbval r <= 0).
Proof. exact longdiv_signed_same_width. Qed.

(* dividend and divisor of different widths (the code accepts them): signed, any two
   power-of-two widths; unsigned, provided the dividend is below 2^n or the divisor is at most
   2^(n-1) (otherwise the shifted remainder does not fit into n bits, see the report) *)
Theorem C17_longdiv_mixed_signed : forall j k a d,
  (1 <= j)%nat -> (1 <= k)%nat -> length a = (2 ^ j)%nat -> length d = (2 ^ k)%nat ->
  sbval d <> 0 ->
  exists q r, long_division true a d = Ok (q, r) /\
              length q = (2 ^ j)%nat /\ length r = (2 ^ k)%nat /\
              bval q = (sbval a / sbval d) mod 2 ^ Z.of_nat (2 ^ j) /\
              sbval r = sbval a mod sbval d.
Proof. exact long_division_signed. Qed.

Theorem C17_longdiv_mixed_unsigned : forall k a d,
  (1 <= k)%nat -> length d = (2 ^ k)%nat -> bval d <> 0 ->
  (bval a < 2 ^ Z.of_nat (2 ^ k) \/ 2 * bval d <= 2 ^ Z.of_nat (2 ^ k)) ->
  exists q r, long_division false a d = Ok (q, r) /\
              length q = length a /\ length r = (2 ^ k)%nat /\
              bval q = bval a / bval d /\ bval r = bval a mod bval d.
Proof. exact long_division_unsigned. Qed.

(* the extra hypothesis of the unsigned mixed-width theorem is necessary: for an 8-bit dividend
   and a 4-bit divisor, 85 / 11 evaluates to (0, 5) instead of (7, 8) — the model mirrors the
   code here (tied by the div_mixed_widths cases), so this is a statement about /repo, outside
   the one-width statement of C17 *)
Theorem C17_longdiv_mixed_unsigned_refuted :
  exists a d q r, length a = 8%nat /\ length d = 4%nat /\ bval d <> 0 /\
    long_division false a d = Ok (q, r) /\ bval q <> bval a / bval d.
Proof. exact longdiv_mixed_unsigned_counterexample. Qed.

(* ------------------------------------------------------------------ non-vacuity *)
(* the second conjunct is the witness of the repaired Mux defect (34574f8) *)
Example C17_example_mux :
  mux U32 1 111 222 = 111 /\ mux U32 0 111 222 = 222 /\
  mux I8 1 255 3 = 255 /\ mux Bit 1 1 0 = 1 /\ mux Bit 0 1 0 = 0 /\
  mux_op Bit U8 U8 [1; 0; 1] [10; 20; 30] [7; 8; 9] = Ok [10; 8; 30] /\
  mux_op U8 U8 U8 [1] [1] [1] = Err /\ mux_op Bit U8 I8 [1] [1] [1] = Err.
Proof. repeat split; reflexivity. Qed.

Example C17_example_adder :
  (* 255 + 1 on 8 bits: all carries propagate *)
  binary_add true (bits_of 8 255) (bits_of 8 1) = Ok (bits_of 8 0, Some [true]) /\
  binary_add false (bits_of 8 200) (bits_of 8 100) = Ok (bits_of 8 44, None) /\
  binary_add false (bits_of 3 1) (bits_of 3 1) = Err /\
  length (bits_of 8 255) = (2 ^ 3)%nat.
Proof. repeat split; reflexivity. Qed.

Example C17_example_clip :
  rmap bval (clip2k 3 (bits_of 8 (-100))) = Ok 0 /\ rmap bval (clip2k 3 (bits_of 8 100)) = Ok 8 /\
  rmap bval (clip2k 3 (bits_of 8 5)) = Ok 5 /\ clip2k 7 (bits_of 8 5) = Err /\
  sbval (bits_of 8 (-100)) = -100.
Proof. repeat split; reflexivity. Qed.

Example C17_example_longdiv :
  (* -7 / 2 = -4 rem 1 ; 7 / -2 = -4 rem -1 ; min / -1 wraps to min rem 0 ; 0 / -1 *)
  long_division true (bits_of 8 (-7)) (bits_of 8 2) = Ok (bits_of 8 (-4), bits_of 8 1) /\
  long_division true (bits_of 8 7) (bits_of 8 (-2)) = Ok (bits_of 8 (-4), bits_of 8 (-1)) /\
  long_division true (bits_of 8 (-128)) (bits_of 8 (-1)) = Ok (bits_of 8 (-128), bits_of 8 0) /\
  long_division true (bits_of 8 0) (bits_of 8 (-1)) = Ok (bits_of 8 0, bits_of 8 0) /\
  long_division false (bits_of 8 255) (bits_of 8 200) = Ok (bits_of 8 1, bits_of 8 55) /\
  sbval (bits_of 8 (-2)) = -2 /\ length (bits_of 8 7) = (2 ^ 3)%nat.
Proof. repeat split; reflexivity. Qed.

Print Assumptions C17_mux_spec.
Print Assumptions C17_mux_spec_in_range.
Print Assumptions C17_mux_elementwise.
Print Assumptions C17_adder_sum.
Print Assumptions C17_adder_carries.
Print Assumptions C17_clip_spec.
Print Assumptions C17_longdiv_spec_unsigned.
Print Assumptions C17_longdiv_spec_signed.
Print Assumptions C17_longdiv_mixed_signed.
Print Assumptions C17_longdiv_mixed_unsigned.
Print Assumptions C17_longdiv_mixed_unsigned_refuted.

(* C08 — custom-operation instantiation is total and meaning-preserving.
   Property theorems only: each is closed by [exact] of a lemma proved in
   Proofs/InstantiateProofs.v.  The catalogue ([inst] = the instantiate methods, [name] =
   get_name, [opid_eqb] = PartialEq on operations) is universally quantified. *)
From CC Require Import Base.Prelude Base.Scalar Base.Ty Model.Instantiate Proofs.InstantiateProofs.

Section Statements.
  Context {opid prim : Type}.
  Variable opid_eqb : opid -> opid -> bool.
  Variable inst : opid -> list ty -> result (ctx opid prim).
  Variable name : opid -> string.
  Let key := @key opid.

  (* printing of (operation name, argument types) is injective on a list of keys *)
  Definition names_injective_on (l : list key) : Prop :=
    forall k1 k2, In k1 l -> In k2 l -> key_name name k1 = key_name name k2 -> k1 = k2.

  (* the source context is well formed as far as the pass can see: its main graph exists *)
  Definition main_ok (c : ctx opid prim) : Prop :=
    (N.to_nat (c_main c) < length (c_graphs c))%nat.

  (* Full statement of totality.  [discover fuel c = Ok order] says that the search for
     needed instantiations terminates within the fuel, that every instantiate call it makes
     succeeds and that there is no circular dependency; [sig_ok] that the graph built for a
     key takes exactly the argument types of the key (what Graph::call checks). *)
  Definition C08_total_statement : Prop :=
    (forall a b, opid_eqb a b = true <-> a = b) ->
    forall fuel c order,
      main_ok c ->
      discover opid_eqb inst fuel c = Ok order ->
      (forall k, In k order -> sig_ok inst k) ->
      names_injective_on order ->
      exists r, pass opid_eqb inst name fuel c = Ok (r, order) /\
                names (rc_graphs r) = map (key_name name) order /\
                NoDup (names (rc_graphs r)).
End Statements.

(* Totality: needed instantiations found, every one of them has the signature of its key and
   names are injective on them  ==>  the pass succeeds and the graph names are pairwise
   distinct. *)
Theorem C08_inst_pass_total : forall (opid prim : Type) opid_eqb inst name,
  @C08_total_statement opid prim opid_eqb inst name.
Proof. intros opid prim opid_eqb inst name Hspec. exact (@inst_pass_total opid prim opid_eqb Hspec inst name). Qed.

(* Whenever the pass succeeds, the named graphs of the result are exactly the instantiations,
   in gluing order, under pairwise distinct names. *)
Theorem C08_names_distinct : forall (opid prim : Type) opid_eqb inst name fuel
    (c : ctx opid prim) r order,
  pass opid_eqb inst name fuel c = Ok (r, order) ->
  names (rc_graphs r) = map (key_name name) order /\ NoDup (names (rc_graphs r)).
Proof. exact @pass_names_nodup. Qed.

(* Conversely, the injectivity hypothesis is what the code needs: two different needed
   instantiations that print the same make the pass fail. *)
Theorem C08_names_collide_refutes : forall (opid prim : Type) opid_eqb inst name fuel
    (c : ctx opid prim) order k1 k2,
  discover opid_eqb inst fuel c = Ok order ->
  In k1 order -> In k2 order -> k1 <> k2 -> key_name name k1 = key_name name k2 ->
  forall r, pass opid_eqb inst name fuel c <> Ok r.
Proof. exact @names_collide_refutes. Qed.

(* Meaning: for every meaning [csem] of custom nodes that agrees, on each instantiation the
   pass glued, with the graph the library builds for it (nested custom nodes read through
   [csem] again), evaluating the result equals evaluating the source.  Primitive operations
   are arbitrary, as long as they use their graph dependencies through their meaning. *)
Theorem C08_inst_pass_sem : forall (opid prim : Type) opid_eqb
    (opid_eqb_spec : forall a b, opid_eqb a b = true <-> a = b)
    inst name value eval_prim
    (eval_prim_ext : @prim_extensional prim value eval_prim)
    csem any fuel (c : ctx opid prim) r order,
  pass opid_eqb inst name fuel c = Ok (r, order) ->
  (forall k, In k order -> consistent inst value eval_prim csem k) ->
  forall ins, eval_rctx value eval_prim any r ins = eval_ctx value eval_prim csem c ins.
Proof. exact @inst_pass_sem. Qed.

(* ---------------------------------------------------------------- non-vacuity *)
(* A toy catalogue: 0 = Not (x -> 1 - x, one primitive), 1 = Or (three nested Not and a
   product, as custom_ops.rs:336), 2 = another operation that reports the name "Not". *)
Definition ex_b : ty := TArray [4] Bit.
Definition ex_inst (o : N) (tys : list ty) : result tctx :=
  match o, tys with
  | 0%N, [t] => Ok (C [G [nI t; nP 1 [0%N] [] t] 1] 0)
  | 1%N, [t1; t2] =>
      Ok (C [G [nI t1; nI t2; nX 0 [0%N] t1; nX 0 [1%N] t2; nP 2 [2%N; 3%N] [] t1; nX 0 [4%N] t1] 5] 0)
  | 2%N, [t] => Ok (C [G [nI t; nP 7 [0%N] [] t] 1] 0)
  | _, _ => Err
  end.
Definition ex_name (o : N) : string :=
  match o with 1%N => "Or" | _ => "Not" end.
Definition ex_src : tctx :=
  C [G [nI ex_b; nI ex_b; nX 1 [0%N; 1%N] ex_b; nX 0 [2%N] ex_b; nX 1 [3%N; 0%N] ex_b] 4] 0.
Definition ex_order : list tkey := [(0%N, [ex_b]); (1%N, [ex_b; ex_b])].

Example C08_example_pass :
  exists r, pass N.eqb ex_inst ex_name 10 ex_src = Ok (r, ex_order) /\
            names (rc_graphs r) = ["__Not::<bit[4]>"%string; "__Or::<bit[4], bit[4]>"%string] /\
            length (rc_graphs r) = 3%nat.
Proof. eexists. vm_compute. repeat split. Qed.

(* the hypotheses of C08_inst_pass_total hold on it *)
Example C08_example_total_hyps :
  main_ok ex_src /\ discover N.eqb ex_inst 10 ex_src = Ok ex_order /\
  (forall k, In k ex_order -> sig_ok ex_inst k) /\ names_injective_on ex_name ex_order.
Proof.
  split; [unfold main_ok; simpl; lia|]. split; [reflexivity|]. split.
  - intros k [<-|[<-|[]]]; eexists _, _; repeat split; reflexivity.
  - intros k1 k2 [<-|[<-|[]]] [<-|[<-|[]]]; try reflexivity; vm_compute; discriminate.
Qed.

(* two operations reporting one name on one argument type: the model fails like the code *)
Example C08_example_collision :
  pass N.eqb ex_inst ex_name 10 (C [G [nI ex_b; nX 0 [0%N] ex_b; nX 2 [1%N] ex_b] 2] 0) = Err /\
  key_name ex_name (0%N, [ex_b]) = key_name ex_name (2%N, [ex_b]).
Proof. split; reflexivity. Qed.

(* semantics: values are integers, primitive 1 is x -> 1 - x, primitive 2 the product; the
   meaning of custom nodes is obtained by unfolding instantiations twice *)
Definition ex_prim (p : N) (fs : list (gsem Z)) (vs : list Z) : result Z :=
  match p, vs with
  | 1%N, [x] => Ok (1 - x)
  | 2%N, [x; y] => Ok (x * y)
  | _, _ => Err
  end.
Fixpoint ex_csem (n : nat) (k : tkey) : gsem Z :=
  match n with
  | O => fun _ => Err
  | S n' => fun vs => match ex_inst (fst k) (snd k) with
                      | Ok body => eval_ctx Z ex_prim (ex_csem n') body vs
                      | _ => Err
                      end
  end.
Example C08_example_sem :
  (forall k, In k ex_order -> consistent ex_inst Z ex_prim (ex_csem 2) k) /\
  prim_extensional Z ex_prim /\
  eval_ctx Z ex_prim (ex_csem 2) ex_src [1; 0] = Ok 1 /\
  eval_ctx Z ex_prim (ex_csem 2) ex_src [0; 1] = Ok 0.
Proof.
  split; [|split; [|split; reflexivity]].
  - intros k [<-|[<-|[]]] body Hb vs; inversion Hb; subst; reflexivity.
  - intros p fs gs vs _. reflexivity.
Qed.

(* The printer of argument types is NOT injective on all types (both pairs confirmed on the
   real Display implementation by the harness on every run): the empty tuple and the empty
   named tuple, and field names containing the quote the printer does not escape.  No library
   operation takes such arguments, so this stays outside C08's quantifier; it is why the
   totality theorem takes injectivity on the occurring keys as a hypothesis and the tie
   decides that hypothesis on every case. *)
Example C08_type_printing_not_injective :
  (TTuple [] <> TNamed [] /\ ty_str (TTuple []) = ty_str (TNamed [])) /\
  (TNamed [("a\"": i32, \""b"%string, TScalar I32)]
     <> TNamed [("a"%string, TScalar I32); ("b"%string, TScalar I32)] /\
   ty_str (TNamed [("a\"": i32, \""b"%string, TScalar I32)])
     = ty_str (TNamed [("a"%string, TScalar I32); ("b"%string, TScalar I32)])).
Proof. repeat split; try discriminate; reflexivity. Qed.

Print Assumptions C08_inst_pass_total.
Print Assumptions C08_names_distinct.
Print Assumptions C08_names_collide_refutes.
Print Assumptions C08_inst_pass_sem.

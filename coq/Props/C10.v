(* C10 — primitive operations follow their documented NumPy-style modular semantics.
   eval_node (Graph/Eval.v) is the implementation model, tied to SimpleEvaluator node by node on
   every run; the theorems below relate it to independent statements of the documented
   semantics.  Covered so far: arithmetic kernels for every scalar type, the row-major index
   arithmetic every array operation is built on, A2B/B2A, plaintext Truncate.  The remaining
   per-operation specifications (broadcast, matmul, slicing, ...) are listed in C10_full_todo
   and are covered by the correspondence only. *)
From CC Require Import Base.Prelude Base.Scalar Base.Ty Base.Shape Graph.Value Graph.IR Graph.Eval
  Proofs.EvalProofs.

(* Kernels (bytes.rs:7-174): wrapping u128 arithmetic followed by `% modulus` is arithmetic
   modulo 2^w for every scalar type, 128-bit types included. *)
Theorem C10_add_kernel_mod : forall st a b, k_add st a b = (a + b) mod modulus st.
Proof. exact k_add_mod. Qed.
Theorem C10_sub_kernel_mod : forall st a b, k_sub st a b = (a - b) mod modulus st.
Proof. exact k_sub_mod. Qed.
Theorem C10_mul_kernel_mod : forall st a b, k_mul st a b = (a * b) mod modulus st.
Proof. exact k_mul_mod. Qed.

(* broadcast.rs:83-103: for every valid shape (any rank) index_to_number is the row-major
   position and number_to_index is its inverse. *)
Theorem C10_index_to_number_row_major : forall idx sh,
  in_shape idx sh -> index_to_number idx sh = Ok (flat_pos idx sh).
Proof. exact index_to_number_flat_pos. Qed.
Theorem C10_number_to_index_inverse : forall sh n,
  valid_shape sh -> 0 <= n < prod_list sh ->
  exists idx, number_to_index n sh = Ok idx /\ in_shape idx sh /\ flat_pos idx sh = n.
Proof. exact number_to_index_inverse. Qed.

(* A2B gives the binary expansion LSB first, and B2A inverts it, for every scalar type. *)
Theorem C10_b2a_a2b_elem : forall st x,
  0 <= x < modulus st -> from_bits_lsb (bits_lsb (Z.to_nat (width st)) x) = x.
Proof. exact b2a_a2b_elem. Qed.
Theorem C10_a2b_bits : forall w x, Forall (fun b => b = 0 \/ b = 1) (bits_lsb w x) /\ length (bits_lsb w x) = w.
Proof. intros; split; [apply bits_lsb_are_bits | apply bits_lsb_length]. Qed.

(* Plaintext Truncate: division of the type's integer value, rounding toward zero for signed
   types, re-encoded modulo 2^w; for every scalar type, scale and element. *)
Theorem C10_truncate_elem_spec : forall st scale x,
  0 < scale -> 0 <= x < modulus st ->
  eval_truncate_elem st scale x =
    (if signed st then Z.quot (sval st x) scale else x / scale) mod modulus st.
Proof. exact truncate_elem_spec. Qed.

Example C10_example_truncate : eval_truncate_elem I8 2 255 = 0 /\ eval_truncate_elem I8 2 253 = 255
  /\ eval_truncate_elem U8 2 253 = 126.
Proof. repeat split; reflexivity. Qed.
Example C10_example_index : number_to_index 7 [2; 3; 2] = Ok [1; 0; 1].
Proof. reflexivity. Qed.

Print Assumptions C10_add_kernel_mod.
Print Assumptions C10_sub_kernel_mod.
Print Assumptions C10_mul_kernel_mod.
Print Assumptions C10_index_to_number_row_major.
Print Assumptions C10_number_to_index_inverse.
Print Assumptions C10_b2a_a2b_elem.
Print Assumptions C10_a2b_bits.
Print Assumptions C10_truncate_elem_spec.

(* C10 — primitive operations follow their documented NumPy-style modular semantics.
   eval_node (Graph/Eval.v) is the implementation model, tied to SimpleEvaluator node by node on
   every run; the theorems below relate it to independent statements of the documented
   semantics.  Covered so far: arithmetic kernels for every scalar type, the row-major index
   arithmetic every array operation is built on, A2B/B2A, plaintext Truncate, and (second part of
   this file) one theorem per operation against the independent specifications of Graph/Spec.v,
   for every scalar type, every admissible shape combination of any rank and every element value.
   Operations not listed in the second part are covered by the correspondence only. *)
From CC Require Import Base.Prelude Base.Scalar Base.Ty Base.Shape Graph.Value Graph.IR Graph.Eval
  Proofs.EvalProofs Graph.Spec Proofs.EvalSpecBase Proofs.EvalSpecProofs Proofs.EvalSpecIndex Proofs.EvalSpecMatmul.

(* Kernels (bytes.rs:7-174): wrapping u128 arithmetic followed by `% modulus` is arithmetic
   modulo 2^w for every scalar type, 128-bit types included. *)
Theorem C10_add_kernel_mod : forall st a b, k_add st a b = (a + b) mod modulus st.
Proof. exact k_add_mod. Qed.
Theorem C10_sub_kernel_mod : forall st a b, k_sub st a b = (a - b) mod modulus st.
Proof. exact k_sub_mod. Qed.
Theorem C10_mul_kernel_mod : forall st a b, k_mul st a b = (a * b) mod modulus st.
Proof. exact k_mul_mod. Qed.

(* broadcast.rs:83-103: for every valid shape (any rank) index_to_number is the row-major
   position and number_to_index is its inverse. *)
Theorem C10_index_to_number_row_major : forall idx sh,
  in_shape idx sh -> index_to_number idx sh = Ok (flat_pos idx sh).
Proof. exact index_to_number_flat_pos. Qed.
Theorem C10_number_to_index_inverse : forall sh n,
  valid_shape sh -> 0 <= n < prod_list sh ->
  exists idx, number_to_index n sh = Ok idx /\ in_shape idx sh /\ flat_pos idx sh = n.
Proof. exact number_to_index_inverse. Qed.

(* A2B gives the binary expansion LSB first, and B2A inverts it, for every scalar type. *)
Theorem C10_b2a_a2b_elem : forall st x,
  0 <= x < modulus st -> from_bits_lsb (bits_lsb (Z.to_nat (width st)) x) = x.
Proof. exact b2a_a2b_elem. Qed.
Theorem C10_a2b_bits : forall w x, Forall (fun b => b = 0 \/ b = 1) (bits_lsb w x) /\ length (bits_lsb w x) = w.
Proof. intros; split; [apply bits_lsb_are_bits | apply bits_lsb_length]. Qed.

(* Plaintext Truncate: division of the type's integer value, rounding toward zero for signed
   types, re-encoded modulo 2^w; for every scalar type, scale and element. *)
Theorem C10_truncate_elem_spec : forall st scale x,
  0 < scale -> 0 <= x < modulus st ->
  eval_truncate_elem st scale x =
    (if signed st then Z.quot (sval st x) scale else x / scale) mod modulus st.
Proof. exact truncate_elem_spec. Qed.

Example C10_example_truncate : eval_truncate_elem I8 2 255 = 0 /\ eval_truncate_elem I8 2 253 = 255
  /\ eval_truncate_elem U8 2 253 = 126.
Proof. repeat split; reflexivity. Qed.
Example C10_example_index : number_to_index 7 [2; 3; 2] = Ok [1; 0; 1].
Proof. reflexivity. Qed.

Print Assumptions C10_add_kernel_mod.
Print Assumptions C10_sub_kernel_mod.
Print Assumptions C10_mul_kernel_mod.
Print Assumptions C10_index_to_number_row_major.
Print Assumptions C10_number_to_index_inverse.
Print Assumptions C10_b2a_a2b_elem.
Print Assumptions C10_a2b_bits.
Print Assumptions C10_truncate_elem_spec.

(* ====================================================================================== *)
(* Per-operation specifications (Graph/Spec.v: multi-index access [get a sh idx], integer sums
   reduced modulo 2^w).  No rank bound, every scalar type, every element value. *)

(* Broadcasting (simple_evaluator.rs:27, broadcast.rs:83): for s broadcastable to rs (NumPy rule,
   aligned at the trailing dimensions) the result has prod rs elements and reads the operand at
   the index whose coordinates on size-1 dimensions are 0. *)
Theorem C10_broadcast_spec : forall arr s rs,
  bcast_to s rs -> length arr = Z.to_nat (prod_list s) ->
  exists r, broadcast_to_shape arr s rs = Ok r /\ length r = Z.to_nat (prod_list rs) /\
    forall idx, in_shape idx rs -> get r rs idx = get arr s (bcast_index s rs idx).
Proof. exact broadcast_spec. Qed.

(* Add / Subtract / Multiply: at every result index, the integer operation on the broadcast
   operands reduced modulo 2^w (w = width of the operands' scalar type, 1..128). *)
Theorem C10_add_spec : forall t0 t1 tr a b, arith_hyps t0 t1 tr a b ->
  exists r, eval_node OAdd [t0; t1] tr [VArr a; VArr b] = Ok (VArr r) /\
    elementwise_spec (fun x y => (x + y) mod modulus (st_of t0)) a (dims t0) b (dims t1) r (dims tr).
Proof. intros. apply (arith_node_spec k_add Z.add); auto using k_add_mod. Qed.
Theorem C10_subtract_spec : forall t0 t1 tr a b, arith_hyps t0 t1 tr a b ->
  exists r, eval_node OSubtract [t0; t1] tr [VArr a; VArr b] = Ok (VArr r) /\
    elementwise_spec (fun x y => (x - y) mod modulus (st_of t0)) a (dims t0) b (dims t1) r (dims tr).
Proof. intros. apply (arith_node_spec k_sub Z.sub); auto using k_sub_mod. Qed.
Theorem C10_multiply_spec : forall t0 t1 tr a b, arith_hyps t0 t1 tr a b ->
  exists r, eval_node OMultiply [t0; t1] tr [VArr a; VArr b] = Ok (VArr r) /\
    elementwise_spec (fun x y => (x * y) mod modulus (st_of t0)) a (dims t0) b (dims t1) r (dims tr).
Proof. intros. apply (arith_node_spec k_mul Z.mul); auto using k_mul_mod. Qed.
(* MixedMultiply (integer array times bit array): the product in the first operand's type *)
Theorem C10_mixed_multiply_spec : forall t0 t1 tr a b,
  is_leaf t0 = true -> is_leaf t1 = true ->
  bcast_to (dims t0) (dims tr) -> bcast_to (dims t1) (dims tr) ->
  length a = Z.to_nat (prod_list (dims t0)) -> length b = Z.to_nat (prod_list (dims t1)) ->
  exists r, eval_node OMixedMultiply [t0; t1] tr [VArr a; VArr b] = Ok (VArr r) /\
    elementwise_spec (fun x y => (x * y) mod modulus (st_of t0)) a (dims t0) b (dims t1) r (dims tr).
Proof.
  intros t0 t1 tr a b L0 L1 B0 B1 La Lb.
  destruct (mixed_spec t0 t1 tr a b L0 L1 B0 B1 La Lb) as (r & E & S).
  exists r. split; [exact E|]. eapply elementwise_spec_ext; [|exact S]. intros; apply k_mul_mod.
Qed.

(* Sum over all axes (scalar result): the integer sum of all elements modulo 2^w. *)
Theorem C10_sum_scalar_spec : forall sh st0 st axes values,
  eval_node (OSum axes) [TArray sh st0] (TScalar st) [VArr values]
  = Ok (VArr [list_sum_z values mod modulus st]).
Proof. intros. apply sum_scalar_spec. Qed.
(* Sum along axes (numpy.sum(a, axis=axes)): the result index ridx collects all input indices
   that agree with it off the summed axes. *)
Theorem C10_sum_axes_spec : forall sh st0 st axes values,
  valid_shape sh -> axes <> [] -> length values = Z.to_nat (prod_list sh) ->
  let rsh := drop_axes 0 axes sh in
  exists r, eval_node (OSum axes) [TArray sh st0] (TArray rsh st) [VArr values] = Ok (VArr r) /\
    length r = Z.to_nat (prod_list rsh) /\
    forall ridx, in_shape ridx rsh -> get r rsh ridx = sum_axes_at values sh axes ridx mod modulus st.
Proof. exact sum_axes_spec. Qed.
(* CumSum (numpy.cumsum(a, axis)): prefix sums along the axis, modulo 2^w. *)
Theorem C10_cumsum_spec : forall sh st axis values t,
  valid_shape sh -> 0 <= axis < Z.of_nat (length sh) -> length values = Z.to_nat (prod_list sh) ->
  Forall (fun e => 0 <= e < modulus st) values ->
  exists r, eval_node (OCumSum axis) [TArray sh st] t [VArr values] = Ok (VArr r) /\
    length r = length values /\
    forall idx, in_shape idx sh ->
      get r sh idx = cumsum_at values sh (Z.to_nat axis) idx mod modulus st.
Proof. intros sh st axis values t. exact (cumsum_spec sh st axis values). Qed.

(* Get (a[sub_index]): the sub-array at the leading multi-index. *)
Theorem C10_get_spec : forall shape st t sub es,
  valid_shape shape -> in_shape sub (firstn (length sub) shape) ->
  length es = Z.to_nat (prod_list shape) ->
  let rsh := skipn (length sub) shape in
  exists r, eval_node (OGet sub) [TArray shape st] t [VArr es] = Ok (VArr r) /\
    length r = Z.to_nat (prod_list rsh) /\
    forall idx, in_shape idx rsh -> get r rsh idx = get es shape (sub ++ idx).
Proof. exact get_spec. Qed.
(* GetSlice (Python basic indexing with single indices, b:e:s ranges and Ellipsis): for every slice
   accepted by the shape computation (slices.rs get_slice_shape), result[ridx] = a[slice_src ridx]:
   a single index fixes the coordinate, b:e:s contributes begin + step * i, remaining axes whole.
   [clean] is the slice with its Ellipsis expanded (C10_get_slice_ellipsis). *)
Theorem C10_get_slice_spec : forall dshape st t sl clean rsh0 es,
  valid_shape dshape ->
  get_clean_slice dshape sl = Ok clean -> shape_go dshape clean = Ok rsh0 ->
  dims t = (match rsh0 with [] => [1] | _ => rsh0 end) ->
  length es = Z.to_nat (prod_list dshape) ->
  exists r, eval_node (OGetSlice sl) [TArray dshape st] t [VArr es] = Ok (VArr r) /\
    length r = Z.to_nat (prod_list (dims t)) /\
    forall ridx, in_shape ridx (dims t) ->
      in_shape (slice_src dshape clean ridx) dshape /\
      get r (dims t) ridx = get es dshape (slice_src dshape clean ridx).
Proof. exact get_slice_spec. Qed.
Theorem C10_get_slice_ellipsis : forall shape slice clean,
  get_clean_slice shape slice = Ok clean ->
  clean = expand_ellipsis (Z.to_nat (Z.of_nat (length shape) - Z.of_nat (length slice) + 1)) slice
  /\ get_slice_shape shape slice = shape_go shape clean.
Proof.
  intros shape slice clean H. split; [now apply get_clean_slice_expand|].
  rewrite get_slice_shape_unfold, H. reflexivity.
Qed.
(* PermuteAxes (numpy.transpose(a, perm)): result[i_perm(0), i_perm(1), ...] = a[i_0, i_1, ...]. *)
Theorem C10_permute_axes_spec : forall cur st st' perm es,
  valid_shape cur -> is_perm_of_rank perm (length cur) ->
  length es = Z.to_nat (prod_list cur) ->
  let out := permute_index perm cur in
  exists r, eval_node (OPermuteAxes perm) [TArray cur st] (TArray out st') [VArr es] = Ok (VArr r) /\
    length r = length es /\
    forall idx, in_shape idx cur -> get r out (permute_index perm idx) = get es cur idx.
Proof.
  intros cur st st' perm es Hv Hp Hl out.
  destruct (permute_axes_spec cur perm es Hv Hp Hl) as (r & E & L & S).
  exists r. split; [|split; [exact L|exact S]].
  cbn [eval_node nth nth_res bind arr_of is_arr negb shape_of]. unfold out in *. rewrite E. reflexivity.
Qed.

(* ---- non-vacuity: concrete instances (size-1 broadcast dimensions, values >= 2^64) *)
Ltac c10_bc :=
  split; [cbn; lia | split; [repeat constructor; lia |
    cbn; repeat (first [apply bcast_nil | apply bcast_cons; [first [left; reflexivity | right; reflexivity]|]])]].

Ltac c10_ah :=
  unfold arith_hyps; split; [reflexivity|]; split; [reflexivity|]; split; [reflexivity|];
  split; [c10_bc|]; split; [c10_bc|]; split; reflexivity.

Example C10_example_broadcast :
  bcast_to [2; 1] [2; 2; 3] /\
  broadcast_to_shape [2 ^ 100; 7] [2; 1] [2; 2; 3]
  = Ok [2 ^ 100; 2 ^ 100; 2 ^ 100; 7; 7; 7; 2 ^ 100; 2 ^ 100; 2 ^ 100; 7; 7; 7].
Proof. split; [c10_bc|reflexivity]. Qed.
Example C10_example_add :
  arith_hyps (TArray [2; 1] U128) (TArray [3] U128) (TArray [2; 3] U128) [2 ^ 128 - 1; 2 ^ 100] [1; 2 ^ 64 + 7; 5] /\
  eval_node OAdd [TArray [2; 1] U128; TArray [3] U128] (TArray [2; 3] U128)
            [VArr [2 ^ 128 - 1; 2 ^ 100]; VArr [1; 2 ^ 64 + 7; 5]]
  = Ok (VArr [0; 2 ^ 64 + 6; 4; 2 ^ 100 + 1; 2 ^ 100 + 2 ^ 64 + 7; 2 ^ 100 + 5]).
Proof. split; [c10_ah|reflexivity]. Qed.
Example C10_example_subtract :
  arith_hyps (TArray [2; 1] I128) (TScalar I128) (TArray [2; 1] I128) [0; 2 ^ 100] [2 ^ 64 + 7] /\
  eval_node OSubtract [TArray [2; 1] I128; TScalar I128] (TArray [2; 1] I128)
            [VArr [0; 2 ^ 100]; VArr [2 ^ 64 + 7]]
  = Ok (VArr [2 ^ 128 - 2 ^ 64 - 7; 2 ^ 100 - 2 ^ 64 - 7]).
Proof. split; [c10_ah|reflexivity]. Qed.
Example C10_example_multiply :
  arith_hyps (TArray [2; 1] U128) (TArray [3] U128) (TArray [2; 3] U128) [2 ^ 127; 2 ^ 100] [2; 2 ^ 64 + 7; 5] /\
  eval_node OMultiply [TArray [2; 1] U128; TArray [3] U128] (TArray [2; 3] U128)
            [VArr [2 ^ 127; 2 ^ 100]; VArr [2; 2 ^ 64 + 7; 5]]
  = Ok (VArr [0; 2 ^ 127; 2 ^ 127; 2 ^ 101; 7 * 2 ^ 100; 5 * 2 ^ 100]).
Proof. split; [c10_ah|reflexivity]. Qed.
Example C10_example_mixed_multiply :
  bcast_to [2; 1] [2; 3] /\ bcast_to [3] [2; 3] /\
  eval_node OMixedMultiply [TArray [2; 1] U128; TArray [3] Bit] (TArray [2; 3] U128)
            [VArr [2 ^ 127; 2 ^ 100]; VArr [1; 0; 1]]
  = Ok (VArr [2 ^ 127; 0; 2 ^ 127; 2 ^ 100; 0; 2 ^ 100]).
Proof. split; [c10_bc|split; [c10_bc|reflexivity]]. Qed.
Example C10_example_sum :
  eval_node (OSum [0; 1]) [TArray [2; 2] U128] (TScalar U128) [VArr [2 ^ 127; 2 ^ 100; 2 ^ 127; 5]]
  = Ok (VArr [2 ^ 100 + 5]) /\
  drop_axes 0 [0; 2] [2; 1; 2] = [1] /\
  eval_node (OSum [0; 2]) [TArray [2; 1; 2] U128] (TArray [1] U128) [VArr [2 ^ 127; 2 ^ 100; 2 ^ 127; 5]]
  = Ok (VArr [2 ^ 100 + 5]) /\
  sum_axes_at [2 ^ 127; 2 ^ 100; 2 ^ 127; 5] [2; 1; 2] [0; 2] [0] = 2 ^ 128 + 2 ^ 100 + 5.
Proof. repeat split; reflexivity. Qed.
Example C10_example_cumsum :
  eval_node (OCumSum 1) [TArray [2; 1; 2] U128] (TArray [2; 1; 2] U128) [VArr [2 ^ 127; 2 ^ 100; 2 ^ 127; 2 ^ 127 + 5]]
  = Ok (VArr [2 ^ 127; 2 ^ 100; 2 ^ 127; 2 ^ 127 + 5]) /\
  eval_node (OCumSum 2) [TArray [2; 1; 2] U128] (TArray [2; 1; 2] U128) [VArr [2 ^ 127; 2 ^ 100; 2 ^ 127; 2 ^ 127 + 5]]
  = Ok (VArr [2 ^ 127; 2 ^ 127 + 2 ^ 100; 2 ^ 127; 5]).
Proof. split; reflexivity. Qed.
Example C10_example_get :
  in_shape [1] (firstn 1 [2; 1; 2]) /\
  eval_node (OGet [1]) [TArray [2; 1; 2] U128] (TArray [1; 2] U128) [VArr [2 ^ 127; 2 ^ 100; 2 ^ 65; 5]]
  = Ok (VArr [2 ^ 65; 5]).
Proof. split; [repeat constructor; lia|reflexivity]. Qed.
Example C10_example_get_slice :
  let sl := [SSingle (-1); SEllipsis; SSub (Some (-1)) None (Some (-2))] in
  get_clean_slice [3; 1; 4] sl = Ok [SSingle (-1); SSub None None None; SSub (Some (-1)) None (Some (-2))] /\
  get_slice_shape [3; 1; 4] sl = Ok [1; 2] /\
  eval_node (OGetSlice sl) [TArray [3; 1; 4] U128] (TArray [1; 2] U128)
            [VArr [0; 1; 2; 3; 4; 5; 6; 7; 2 ^ 100; 9; 10; 2 ^ 127]]
  = Ok (VArr [2 ^ 127; 9]).
Proof. repeat split; reflexivity. Qed.
Example C10_example_permute_axes :
  is_perm_of_rank [2; 0; 1] 3 /\
  eval_node (OPermuteAxes [2; 0; 1]) [TArray [2; 1; 3] U128] (TArray [3; 2; 1] U128)
            [VArr [2 ^ 127; 2 ^ 100; 2 ^ 65; 5; 6; 7]]
  = Ok (VArr [2 ^ 127; 5; 2 ^ 100; 6; 2 ^ 65; 7]).
Proof.
  split; [|reflexivity]. split; [reflexivity|]. split.
  - intros j Hj. cbn in Hj. lia.
  - intros k Hk. assert (k = 0 \/ k = 1 \/ k = 2) as [ -> | [ -> | -> ] ] by lia; cbn; auto.
Qed.

Print Assumptions C10_broadcast_spec.
Print Assumptions C10_add_spec.
Print Assumptions C10_subtract_spec.
Print Assumptions C10_multiply_spec.
Print Assumptions C10_mixed_multiply_spec.
Print Assumptions C10_sum_scalar_spec.
Print Assumptions C10_sum_axes_spec.
Print Assumptions C10_cumsum_spec.
Print Assumptions C10_get_spec.
Print Assumptions C10_get_slice_spec.
Print Assumptions C10_get_slice_ellipsis.
Print Assumptions C10_permute_axes_spec.

(* ====================================================================================== *)
(* Matmul (numpy.matmul) for operands of rank >= 2: stacks of n x k and k x m matrices whose
   batch dimensions b0, b1 broadcast to br (any number of batch dimensions):
   c[batch, i, j] = sum_l a[bcast batch, i, l] * b[bcast batch, l, j]  mod 2^w. *)
Theorem C10_matmul_spec : forall st st1 st2 b0 b1 br n k m e0 e1,
  bcast_to b0 br -> bcast_to b1 br -> 0 < n -> 0 < k -> 0 < m ->
  let s0 := b0 ++ [n; k] in let s1 := b1 ++ [k; m] in let rs := br ++ [n; m] in
  length e0 = Z.to_nat (prod_list s0) -> length e1 = Z.to_nat (prod_list s1) ->
  exists r, eval_node OMatmul [TArray s0 st; TArray s1 st1] (TArray rs st2) [VArr e0; VArr e1] = Ok (VArr r) /\
    length r = Z.to_nat (prod_list rs) /\
    forall bi i j, in_shape bi br -> 0 <= i < n -> 0 <= j < m ->
      get r rs (bi ++ [i; j]) =
      dot_sum k (fun l => get e0 s0 (bcast_index b0 br bi ++ [i; l]))
                (fun l => get e1 s1 (bcast_index b1 br bi ++ [l; j])) mod modulus st.
Proof. exact matmul_spec. Qed.
(* the rank-2 x rank-2 instance, spelled out *)
Theorem C10_matmul_rank2_spec : forall st st1 st2 n k m e0 e1,
  0 < n -> 0 < k -> 0 < m ->
  length e0 = Z.to_nat (prod_list [n; k]) -> length e1 = Z.to_nat (prod_list [k; m]) ->
  exists r, eval_node OMatmul [TArray [n; k] st; TArray [k; m] st1] (TArray [n; m] st2) [VArr e0; VArr e1]
            = Ok (VArr r) /\
    length r = Z.to_nat (prod_list [n; m]) /\
    forall i j, 0 <= i < n -> 0 <= j < m ->
      get r [n; m] [i; j] =
      dot_sum k (fun l => get e0 [n; k] [i; l]) (fun l => get e1 [k; m] [l; j]) mod modulus st.
Proof.
  intros st st1 st2 n k m e0 e1 Hn Hk Hm L0 L1.
  assert (B : bcast_to [] []) by (split; [cbn; lia|split; [constructor|cbn; constructor]]).
  destruct (matmul_spec st st1 st2 [] [] [] n k m e0 e1 B B Hn Hk Hm L0 L1) as (r & E & L & S).
  exists r. split; [exact E|]. split; [exact L|].
  intros i j Hi Hj. exact (S [] i j in_shape_nil Hi Hj).
Qed.
(* rank-1 x rank-1 (Matmul and Dot): the inner product modulo 2^w *)
Theorem C10_matmul_inner_spec : forall st st1 tr n e0 e1,
  length e0 = Z.to_nat n -> length e1 = Z.to_nat n ->
  eval_node OMatmul [TArray [n] st; TArray [n] st1] tr [VArr e0; VArr e1]
  = Ok (VArr [dot_sum n (fun l => get e0 [n] [l]) (fun l => get e1 [n] [l]) mod modulus st]).
Proof. exact matmul_inner_spec. Qed.
Theorem C10_dot_inner_spec : forall st st1 tr n e0 e1,
  length e0 = Z.to_nat n -> length e1 = Z.to_nat n ->
  eval_node ODot [TArray [n] st; TArray [n] st1] tr [VArr e0; VArr e1]
  = Ok (VArr [dot_sum n (fun l => get e0 [n] [l]) (fun l => get e1 [n] [l]) mod modulus st]).
Proof. exact dot_inner_spec. Qed.
(* Dot with a scalar factor is Multiply (documented rule) *)
Theorem C10_dot_scalar_is_multiply : forall t0 t1 tr a b,
  is_arr t0 && is_arr t1 = false ->
  eval_node ODot [t0; t1] tr [a; b] = eval_node OMultiply [t0; t1] tr [a; b].
Proof. intros t0 t1 tr a b H. cbn [eval_node nth nth_res bind]. unfold eval_dot. now rewrite H. Qed.

(* Constructors and getters: getter-of-constructor laws; Repeat; Reshape of an array keeps the
   flattened elements. *)
Theorem C10_tuple_get_create : forall dts t ti vs i,
  0 <= i < Z.of_nat (length vs) ->
  (let* tup := eval_node OCreateTuple dts t vs in eval_node (OTupleGet i) [t] ti [tup])
  = Ok (nth (Z.to_nat i) vs (VArr [])).
Proof. intros. cbn [eval_node bind nth nth_res tup_of]. now apply znth_ok. Qed.
Theorem C10_vector_create_repeat : forall dts t vs v n et,
  eval_node (OCreateVector et) dts t vs = Ok (VTup vs) /\
  eval_node (ORepeat n) dts t [v] = Ok (VTup (repeat v (Z.to_nat n))).
Proof. intros; split; reflexivity. Qed.
Theorem C10_reshape_array_identity : forall sh' st' t0 t es,
  eval_node (OReshape (TArray sh' st')) [t0] t [VArr es] = Ok (VArr es).
Proof. reflexivity. Qed.

(* Dot of an N-d by an M-d array (N >= 1, M >= 2; includes 2-d x 2-d):
   `dot(A, B)[ia.., ic.., j] = sum_l A[ia.., l] * B[ic.., l, j]` modulo 2^w. *)
Theorem C10_dot_general_spec : forall st st1 st2 a0 c k m e0 e1,
  valid_shape a0 -> valid_shape c -> 0 < k -> 0 < m ->
  let s0 := a0 ++ [k] in let s1 := c ++ [k; m] in let rs := a0 ++ c ++ [m] in
  length e0 = Z.to_nat (prod_list s0) -> length e1 = Z.to_nat (prod_list s1) ->
  exists r, eval_node ODot [TArray s0 st; TArray s1 st1] (TArray rs st2) [VArr e0; VArr e1] = Ok (VArr r) /\
    length r = Z.to_nat (prod_list rs) /\
    forall ia ic j, in_shape ia a0 -> in_shape ic c -> 0 <= j < m ->
      get r rs (ia ++ ic ++ [j]) =
      dot_sum k (fun l => get e0 s0 (ia ++ [l])) (fun l => get e1 s1 (ic ++ [l; j])) mod modulus st.
Proof. exact dot_general_spec. Qed.
(* Stated, not proved (covered by the correspondence only). *)
Definition C10_dot_nd_by_1d_full : Prop := forall st st1 st2 a0 k e0 e1,
  valid_shape a0 -> a0 <> [] -> 0 < k ->
  length e0 = Z.to_nat (prod_list (a0 ++ [k])) -> length e1 = Z.to_nat k ->
  exists r, eval_node ODot [TArray (a0 ++ [k]) st; TArray [k] st1] (TArray a0 st2) [VArr e0; VArr e1] = Ok (VArr r) /\
    length r = Z.to_nat (prod_list a0) /\
    forall ia, in_shape ia a0 ->
      get r a0 ia = dot_sum k (fun l => get e0 (a0 ++ [k]) (ia ++ [l])) (fun l => get e1 [k] [l]) mod modulus st.
Example C10_example_dot_general :
  eval_node ODot [TArray [2; 2] U128; TArray [1; 2; 2] U128] (TArray [2; 1; 2] U128)
            [VArr [2 ^ 127; 2 ^ 100; 3; 2 ^ 64]; VArr [2; 1; 2 ^ 27; 5]]
  = Ok (VArr [2 ^ 127; 2 ^ 127 + 5 * 2 ^ 100; 2 ^ 91 + 6; 5 * 2 ^ 64 + 3]).
Proof. reflexivity. Qed.

Example C10_example_matmul :
  bcast_to [2] [2] /\ bcast_to [1] [2] /\
  eval_node OMatmul [TArray [2; 1; 2] U128; TArray [1; 2; 2] U128] (TArray [2; 1; 2] U128)
            [VArr [2 ^ 127; 2 ^ 100; 3; 2 ^ 64]; VArr [2; 1; 2 ^ 27; 5]]
  = Ok (VArr [2 ^ 127; 2 ^ 127 + 5 * 2 ^ 100; 2 ^ 91 + 6; 5 * 2 ^ 64 + 3]).
Proof. split; [c10_bc|split; [c10_bc|reflexivity]]. Qed.
Example C10_example_inner :
  eval_node OMatmul [TArray [2] U128; TArray [2] U128] (TScalar U128) [VArr [2 ^ 127; 2 ^ 100]; VArr [2; 2 ^ 27]]
  = Ok (VArr [2 ^ 127]) /\
  eval_node ODot [TArray [2] I128; TArray [2] I128] (TScalar I128) [VArr [2 ^ 127; 2 ^ 100]; VArr [3; 2 ^ 27]]
  = Ok (VArr [0]).
Proof. split; reflexivity. Qed.
Example C10_example_tuple :
  (let* tup := eval_node OCreateTuple [] (TTuple []) [VArr [2 ^ 100]; VArr [1; 2]] in
   eval_node (OTupleGet 1) [TTuple []] (TArray [2] U8) [tup]) = Ok (VArr [1; 2]).
Proof. reflexivity. Qed.

Print Assumptions C10_matmul_spec.
Print Assumptions C10_matmul_rank2_spec.
Print Assumptions C10_matmul_inner_spec.
Print Assumptions C10_dot_inner_spec.
Print Assumptions C10_dot_general_spec.
Print Assumptions C10_dot_scalar_is_multiply.
Print Assumptions C10_tuple_get_create.
Print Assumptions C10_vector_create_repeat.
Print Assumptions C10_reshape_array_identity.

(* ====================================================================================== *)
(* Gemm (ONNX Gemm with alpha = 1, beta = 0, C = 0; graphs.rs:1809): op(A) op(B) where op
   transposes the last two dimensions when the flag is set; stacks of matrices whose batch
   dimensions b0, b1 broadcast to br (any number of batch dimensions, all four flag combinations):
   c[batch, i, j] = sum_l op(A)[bcast batch, i, l] * op(B)[bcast batch, l, j]  mod 2^w,
   op(A)[.., i, l] = A[.., l, i] if transpose_a else A[.., i, l]  ([tr_pair], Graph/Spec.v). *)
From CC Require Import Proofs.EvalSpecGemm.

Theorem C10_gemm_spec : forall st st0 st1 ta tb b0 b1 br n k m e0 e1,
  bcast_to b0 br -> bcast_to b1 br -> 0 < n -> 0 < k -> 0 < m ->
  let s0 := b0 ++ tr_pair ta n k in let s1 := b1 ++ tr_pair tb k m in let rs := br ++ [n; m] in
  length e0 = Z.to_nat (prod_list s0) -> length e1 = Z.to_nat (prod_list s1) ->
  exists r, eval_node (OGemm ta tb) [TArray s0 st0; TArray s1 st1] (TArray rs st) [VArr e0; VArr e1] = Ok (VArr r) /\
    length r = Z.to_nat (prod_list rs) /\
    forall bi i j, in_shape bi br -> 0 <= i < n -> 0 <= j < m ->
      get r rs (bi ++ [i; j]) =
      dot_sum k (fun l => get e0 s0 (bcast_index b0 br bi ++ tr_pair ta i l))
                (fun l => get e1 s1 (bcast_index b1 br bi ++ tr_pair tb l j)) mod modulus st.
Proof. exact gemm_spec. Qed.
(* the evaluator's transposition of an operand swaps the last two coordinates *)
Theorem C10_transpose_spec : forall F x y es,
  valid_shape (F ++ [x; y]) -> length es = Z.to_nat (prod_list (F ++ [x; y])) ->
  exists r, eval_transpose (F ++ [x; y]) es = Ok r /\ length r = length es /\
    forall f i j, in_shape f F -> 0 <= i < x -> 0 <= j < y ->
      get r (F ++ [y; x]) (f ++ [j; i]) = get es (F ++ [x; y]) (f ++ [i; j]).
Proof. exact transpose_spec. Qed.
(* Gemm without flags on the second operand's transposition is Matmul's formula: with
   ta = false, tb = false the right-hand sides of C10_gemm_spec and C10_matmul_spec coincide. *)
Example C10_example_gemm :
  bcast_to [2] [2] /\ bcast_to [1] [2] /\
  (* op(A) = A^T: batch 0 (2^127, 2^100), batch 1 (3, 2^64); op(B) = B^T = [[2, 2^27], [1, 5]] *)
  eval_node (OGemm true true) [TArray [2; 2; 1] U128; TArray [1; 2; 2] U128] (TArray [2; 1; 2] U128)
            [VArr [2 ^ 127; 2 ^ 100; 3; 2 ^ 64]; VArr [2; 1; 2 ^ 27; 5]]
  = Ok (VArr [2 ^ 100; 5 * 2 ^ 100; 2 ^ 64 + 6; 3 * 2 ^ 27 + 5 * 2 ^ 64]) /\
  (* [[200, 3]] x [[2, 1], [0, 5], [7, 100]]^T = [403, 15, 1700] mod 256 *)
  eval_node (OGemm false true) [TArray [1; 2] U8; TArray [3; 2] U8] (TArray [1; 3] U8)
            [VArr [200; 3]; VArr [2; 1; 0; 5; 7; 100]]
  = Ok (VArr [147; 15; 164]).
Proof. split; [c10_bc|split; [c10_bc|split; vm_compute; reflexivity]]. Qed.

Print Assumptions C10_gemm_spec.
Print Assumptions C10_transpose_spec.

(* ====================================================================================== *)
(* Stack (graphs.rs:2589): prod(outer) items, each a scalar or an array broadcastable (NumPy
   rule) to the common inner shape, arranged row-major along the new leading dimensions [outer]:
   result[oi ++ ii] = item_{row-major number of oi}[broadcast ii].
   [stack_inner inner] is [inner], or [1] when only scalars are stacked (inner = [], the result
   type is then TArray outer and result[oi] is the oi-th scalar: C10_stack_scalars). *)
From CC Require Import Proofs.EvalSpecStack.

Theorem C10_stack_spec : forall outer inner st ess dts,
  valid_shape outer -> valid_shape inner ->
  let inner' := stack_inner inner in
  Z.of_nat (length ess) = prod_list outer ->
  Forall2 (fun es dty => is_leaf dty = true /\ bcast_to (dims dty) inner' /\
                         length es = Z.to_nat (prod_list (dims dty))) ess dts ->
  exists r, eval_node (OStack outer) dts (TArray (outer ++ inner) st) (map VArr ess) = Ok (VArr r) /\
    length r = Z.to_nat (prod_list (outer ++ inner)) /\
    forall oi ii, in_shape oi outer -> in_shape ii inner' ->
      let q := Z.to_nat (flat_pos oi outer) in
      let sq := dims (nth q dts (TTuple [])) in
      get r (outer ++ inner') (oi ++ ii) = get (nth q ess []) sq (bcast_index sq inner' ii).
Proof. exact stack_spec. Qed.
(* stacking scalars: the oi-th element of the result is the oi-th scalar *)
Theorem C10_stack_scalars : forall outer st sts (xs : list Z),
  valid_shape outer -> Z.of_nat (length xs) = prod_list outer -> length sts = length xs ->
  exists r, eval_node (OStack outer) (map TScalar sts) (TArray outer st) (map (fun x => VArr [x]) xs) = Ok (VArr r) /\
    length r = Z.to_nat (prod_list outer) /\
    forall oi, in_shape oi outer -> get r outer oi = nth (Z.to_nat (flat_pos oi outer)) xs 0.
Proof.
  intros outer st sts xs Hvo Hn Hl.
  assert (HF : Forall2 (stack_item_ok (stack_inner [])) (map (fun x => [x]) xs) (map TScalar sts)).
  { clear Hn. revert sts Hl. induction xs as [|x xs IH]; intros [|s sts] Hl; cbn in Hl; try lia; cbn [map]; constructor.
    - split; [reflexivity|]. split; [c10_bc|reflexivity].
    - apply IH. lia. }
  destruct (stack_spec outer [] st (map (fun x => [x]) xs) (map TScalar sts) Hvo ltac:(constructor)
              ltac:(now rewrite map_length) HF) as (r & E & L & S).
  rewrite map_map, app_nil_r in E. rewrite app_nil_r in L.
  exists r. split; [exact E|]. split; [exact L|].
  intros oi Hoi. pose proof (flat_pos_range _ _ Hoi) as R.
  specialize (S oi [0] Hoi ltac:(repeat constructor; lia)). cbv zeta in S. cbn [stack_inner] in S.
  destruct (get_trailing_one r outer oi) as [G|G]; [|exfalso; apply G; now apply in_shape_length].
  rewrite <- G, S.
  rewrite nth_indep with (d' := TScalar Bit) by (rewrite map_length; lia).
  rewrite map_nth. cbn [dims].
  rewrite nth_indep with (d' := [0]) by (rewrite map_length; lia).
  rewrite (map_nth (fun x => [x])). reflexivity.
Qed.

(* Concatenate (numpy.concatenate, graphs.rs:2624): operands of shapes pre ++ [n_q] ++ post are
   joined along the axis |pre|; coordinate x on that axis falls into operand q at local coordinate
   y, (q, y) = concat_locate ns x (the operand sizes are subtracted from x in turn). *)
Theorem C10_concatenate_spec : forall pre post ns ess st st',
  valid_shape pre -> valid_shape post ->
  Forall2 (fun es n => 0 < n /\ length es = Z.to_nat (prod_list (pre ++ n :: post))) ess ns ->
  let N := list_sum_z ns in let rs := pre ++ N :: post in
  exists r, eval_node (OConcatenate (Z.of_nat (length pre)))
                      (map (fun n => TArray (pre ++ n :: post) st) ns) (TArray rs st') (map VArr ess)
            = Ok (VArr r) /\
    length r = Z.to_nat (prod_list rs) /\
    forall ip x ipost, in_shape ip pre -> 0 <= x < N -> in_shape ipost post ->
      let q := fst (concat_locate ns x) in let y := snd (concat_locate ns x) in
      (q < length ns)%nat /\ 0 <= y < nth q ns 0 /\
      get r rs (ip ++ x :: ipost) = get (nth q ess []) (pre ++ nth q ns 0 :: post) (ip ++ y :: ipost).
Proof. exact concatenate_spec. Qed.

Example C10_example_stack :
  (* the documented example: stack([[1,2],[3,4]], [[5],[6]]; [2]) = [[[1,2],[3,4]], [[5,5],[6,6]]] *)
  Forall2 (stack_item_ok (stack_inner [2; 2])) [[1; 2; 3; 2 ^ 100]; [5; 2 ^ 127]]
          [TArray [2; 2] U128; TArray [2; 1] U128] /\
  eval_node (OStack [2]) [TArray [2; 2] U128; TArray [2; 1] U128] (TArray [2; 2; 2] U128)
            [VArr [1; 2; 3; 2 ^ 100]; VArr [5; 2 ^ 127]]
  = Ok (VArr [1; 2; 3; 2 ^ 100; 5; 5; 2 ^ 127; 2 ^ 127]) /\
  eval_node (OStack [2]) [TScalar U8; TScalar U8] (TArray [2] U8) [VArr [7]; VArr [9]] = Ok (VArr [7; 9]) /\
  eval_node (OStack [2; 1]) [TScalar U8; TArray [3] U8] (TArray [2; 1; 3] U8) [VArr [7]; VArr [1; 2; 3]]
  = Ok (VArr [7; 7; 7; 1; 2; 3]).
Proof.
  split; [|repeat split; vm_compute; reflexivity].
  constructor; [split; [reflexivity|split; [c10_bc|reflexivity]]|].
  constructor; [split; [reflexivity|split; [c10_bc|reflexivity]]|constructor].
Qed.
Example C10_example_concatenate :
  (* concatenate([[1],[2^100]], [[3,4],[5,2^127]], axis=1) = [[1,3,4],[2^100,5,2^127]] *)
  Forall2 (concat_item_ok [2] []) [[1; 2 ^ 100]; [3; 4; 5; 2 ^ 127]] [1; 2] /\
  eval_node (OConcatenate 1) [TArray [2; 1] U128; TArray [2; 2] U128] (TArray [2; 3] U128)
            [VArr [1; 2 ^ 100]; VArr [3; 4; 5; 2 ^ 127]]
  = Ok (VArr [1; 3; 4; 2 ^ 100; 5; 2 ^ 127]) /\
  (concat_locate [1; 2] 0, concat_locate [1; 2] 1, concat_locate [1; 2] 2) = ((O, 0), (1%nat, 0), (1%nat, 1)).
Proof.
  split; [|split; vm_compute; reflexivity].
  constructor; [split; [lia|reflexivity]|]. constructor; [split; [lia|reflexivity]|constructor].
Qed.

Print Assumptions C10_stack_spec.
Print Assumptions C10_stack_scalars.
Print Assumptions C10_concatenate_spec.

(* ====================================================================================== *)
(* Gather (numpy.take(input, indices, axis), graphs.rs:3125): the dimension [axis] of the input
   (shape pre ++ [d] ++ post, axis = |pre|) is replaced by the shape of the index array:
   result[ip ++ ii ++ ipost] = input[ip ++ [indices[ii]] ++ ipost].
   Indices are read as unsigned 64-bit values ([as_u64], the identity on the index types the
   type checker admits: C10_gather_index_value); an index >= d is an error, not a wrap-around.
   The documented uniqueness of the indices is not needed (and not checked by the evaluator). *)
From CC Require Import Proofs.EvalSpecGather.

Theorem C10_gather_spec : forall pre d post ish st ist t es idx,
  valid_shape pre -> 0 < d -> valid_shape post -> valid_shape ish ->
  length es = Z.to_nat (prod_list (pre ++ d :: post)) ->
  length idx = Z.to_nat (prod_list ish) ->
  Forall (fun x => as_u64 ist x < d) idx ->
  let sh := pre ++ d :: post in let rs := pre ++ ish ++ post in
  exists r, eval_node (OGather (Z.of_nat (length pre))) [TArray sh st; TArray ish ist] t [VArr es; VArr idx]
            = Ok (VArr r) /\
    length r = Z.to_nat (prod_list rs) /\
    forall ip ii ipost, in_shape ip pre -> in_shape ii ish -> in_shape ipost post ->
      get r rs (ip ++ ii ++ ipost) = get es sh (ip ++ as_u64 ist (get idx ish ii) :: ipost).
Proof. exact gather_spec. Qed.
Theorem C10_gather_index_value : forall st x,
  width st <> 128 -> signed st = false -> 0 <= x < modulus st -> as_u64 st x = x.
Proof. exact as_u64_index. Qed.

Example C10_example_gather :
  (* take([[1,2,3],[4,5,2^100]], [2,0], axis=1) = [[3,1],[2^100,4]] *)
  Forall (fun x => as_u64 U64 x < 3) [2; 0] /\
  eval_node (OGather 1) [TArray [2; 3] U128; TArray [2] U64] (TArray [2; 2] U128)
            [VArr [1; 2; 3; 4; 5; 2 ^ 100]; VArr [2; 0]]
  = Ok (VArr [3; 1; 2 ^ 100; 4]) /\
  (* take([[1,2],[3,4],[5,6]], [[2,0]], axis=0) = [[[5,6],[1,2]]] *)
  eval_node (OGather 0) [TArray [3; 2] U8; TArray [1; 2] U32] (TArray [1; 2; 2] U8)
            [VArr [1; 2; 3; 4; 5; 6]; VArr [2; 0]]
  = Ok (VArr [5; 6; 1; 2]).
Proof. split; [repeat constructor|split; vm_compute; reflexivity]. Qed.

Print Assumptions C10_gather_spec.
Print Assumptions C10_gather_index_value.

(* ====================================================================================== *)
(* Reshape, for values of any type (graphs.rs:2308): a value that in flattened form contains as
   many arrays and scalars as the new type is rebuilt with the tree structure of the new type and
   exactly the same leaves in the same order; each leaf keeps its flattened (row-major) elements,
   which is numpy.reshape's C order: an element keeps its row-major number
   (C10_reshape_array_order). *)
From CC Require Import Proofs.EvalSpecStruct.

Theorem C10_reshape_spec : forall new_t t0 t a,
  length (flatten_value a) = leaf_count new_t ->
  exists v, eval_node (OReshape new_t) [t0] t [a] = Ok v /\
            flatten_value v = flatten_value a /\ shaped v new_t.
Proof. exact reshape_spec. Qed.
Theorem C10_reshape_array_order : forall old_sh new_sh st' t0 t es,
  eval_node (OReshape (TArray new_sh st')) [t0] t [VArr es] = Ok (VArr es) /\
  forall idx idx', flat_pos idx new_sh = flat_pos idx' old_sh -> get es new_sh idx = get es old_sh idx'.
Proof. intros. split; [reflexivity|]. intros idx idx' H. unfold get. now rewrite H. Qed.

(* Zip (graphs.rs:2913): vectors of the same length n give the vector of the n tuples of their
   i-th entries. *)
Theorem C10_zip_spec : forall dts t (ls : list (list value)) n,
  ls <> [] -> Forall (fun l => length l = n) ls ->
  eval_node OZip dts t (map VTup ls)
  = Ok (VTup (map (fun i => VTup (map (fun l => nth i l (VArr [])) ls)) (seq 0 n))).
Proof. exact zip_spec. Qed.

(* Repeat: a vector of n copies *)
Theorem C10_repeat_spec : forall n dts t v,
  exists l, eval_node (ORepeat n) dts t [v] = Ok (VTup l) /\ length l = Z.to_nat n /\
            forall i, (i < Z.to_nat n)%nat -> nth i l (VArr []) = v.
Proof. exact repeat_spec. Qed.

(* ArrayToVector (graphs.rs:3062): an array of shape d :: rest becomes the vector of its d
   sub-arrays a[x] of shape rest (scalars when rest = []); VectorToArray (graphs.rs:3095) is the
   converse (numpy.stack of equal-shape arrays); each is the inverse of the other. *)
Theorem C10_array_to_vector_spec : forall d rest st t es,
  0 < d -> valid_shape rest -> length es = Z.to_nat (prod_list (d :: rest)) ->
  exists cs, eval_node OArrayToVector [TArray (d :: rest) st] t [VArr es] = Ok (VTup (map VArr cs)) /\
    length cs = Z.to_nat d /\ concat cs = es /\
    forall x, 0 <= x < d ->
      length (nth (Z.to_nat x) cs []) = Z.to_nat (prod_list rest) /\
      forall idx, in_shape idx rest ->
        get (nth (Z.to_nat x) cs []) rest idx = get es (d :: rest) (x :: idx).
Proof. exact array_to_vector_spec. Qed.
Theorem C10_vector_to_array_spec : forall t0 t rest cs,
  valid_shape rest -> Forall (fun c => length c = Z.to_nat (prod_list rest)) cs ->
  eval_node OVectorToArray [t0] t [VTup (map VArr cs)] = Ok (VArr (concat cs)) /\
  length (concat cs) = Z.to_nat (prod_list (Z.of_nat (length cs) :: rest)) /\
  forall x idx, 0 <= x < Z.of_nat (length cs) -> in_shape idx rest ->
    get (concat cs) (Z.of_nat (length cs) :: rest) (x :: idx) = get (nth (Z.to_nat x) cs []) rest idx.
Proof. exact vector_to_array_spec. Qed.
Theorem C10_array_vector_round_trip : forall d rest st t1 t2 es,
  0 < d -> valid_shape rest -> length es = Z.to_nat (prod_list (d :: rest)) ->
  (let* v := eval_node OArrayToVector [TArray (d :: rest) st] t1 [VArr es] in
   eval_node OVectorToArray [t1] t2 [v]) = Ok (VArr es).
Proof. exact array_vector_round_trip. Qed.
Theorem C10_vector_array_round_trip : forall t0 t1 t2 st rest cs,
  valid_shape rest -> cs <> [] -> Forall (fun c => length c = Z.to_nat (prod_list rest)) cs ->
  (let* a := eval_node OVectorToArray [t0] t1 [VTup (map VArr cs)] in
   eval_node OArrayToVector [TArray (Z.of_nat (length cs) :: rest) st] t2 [a]) = Ok (VTup (map VArr cs)).
Proof. exact vector_array_round_trip. Qed.

Example C10_example_reshape :
  (* a tuple ([2,2], ([4], [1,4])) reshaped to a vector of three [2,2] arrays *)
  let a := VTup [VArr [1; 2; 3; 4]; VTup [VArr [5; 6; 7; 8]; VArr [9; 10; 11; 2 ^ 100]]] in
  length (flatten_value a) = leaf_count (TVector 3 (TArray [2; 2] U128)) /\
  eval_node (OReshape (TVector 3 (TArray [2; 2] U128))) [TTuple []] (TTuple []) [a]
  = Ok (VTup [VArr [1; 2; 3; 4]; VArr [5; 6; 7; 8]; VArr [9; 10; 11; 2 ^ 100]]).
Proof. split; vm_compute; reflexivity. Qed.
Example C10_example_zip :
  eval_node OZip [] (TTuple []) [VTup [VArr [1]; VArr [2]]; VTup [VArr [3; 4]; VArr [5; 6]]]
  = Ok (VTup [VTup [VArr [1]; VArr [3; 4]]; VTup [VArr [2]; VArr [5; 6]]]).
Proof. reflexivity. Qed.
Example C10_example_array_vector :
  eval_node OArrayToVector [TArray [2; 3] U128] (TTuple []) [VArr [1; 2; 3; 4; 5; 2 ^ 100]]
  = Ok (VTup [VArr [1; 2; 3]; VArr [4; 5; 2 ^ 100]]) /\
  eval_node OVectorToArray [TTuple []] (TTuple []) [VTup [VArr [1; 2; 3]; VArr [4; 5; 2 ^ 100]]]
  = Ok (VArr [1; 2; 3; 4; 5; 2 ^ 100]).
Proof. split; vm_compute; reflexivity. Qed.

Print Assumptions C10_reshape_spec.
Print Assumptions C10_reshape_array_order.
Print Assumptions C10_zip_spec.
Print Assumptions C10_repeat_spec.
Print Assumptions C10_array_to_vector_spec.
Print Assumptions C10_vector_to_array_spec.
Print Assumptions C10_array_vector_round_trip.
Print Assumptions C10_vector_array_round_trip.

(* ====================================================================================== *)
(* A2B / B2A on whole arrays (graphs.rs:2683, 2710): the bit dimension is the last one, little
   endian.  A2B: result[idx ++ [j]] = bit j of a[idx];  B2A: result[idx] = sum_j b[idx ++ [j]] 2^j;
   B2A inverts A2B.  (Element level: C10_b2a_a2b_elem, C10_a2b_bits above.) *)
From CC Require Import Proofs.EvalSpecBits.

Theorem C10_a2b_array_spec : forall t0 t sh es,
  valid_shape sh -> length es = Z.to_nat (prod_list sh) ->
  let W := width (st_of t0) in
  exists r, eval_node OA2B [t0] t [VArr es] = Ok (VArr r) /\
    length r = Z.to_nat (prod_list (sh ++ [W])) /\
    forall idx j, in_shape idx sh -> 0 <= j < W ->
      get r (sh ++ [W]) (idx ++ [j]) = bit_of (get es sh idx) j.
Proof. exact a2b_array_spec. Qed.
Theorem C10_b2a_array_spec : forall st t0 t sh es,
  valid_shape sh ->
  let W := width st in
  length es = Z.to_nat (prod_list (sh ++ [W])) ->
  exists r, eval_node (OB2A st) [t0] t [VArr es] = Ok (VArr r) /\
    length r = Z.to_nat (prod_list sh) /\
    forall idx, in_shape idx sh ->
      get r sh idx = bits_value (fun j => get es (sh ++ [W]) (idx ++ [j])) W.
Proof. exact b2a_array_spec. Qed.
Theorem C10_a2b_b2a_round_trip : forall st sh t1 t2 es,
  Forall (fun e => 0 <= e < modulus st) es ->
  (let* b := eval_node OA2B [TArray sh st] t1 [VArr es] in eval_node (OB2A st) [t1] t2 [b]) = Ok (VArr es).
Proof. exact a2b_b2a_round_trip. Qed.

Example C10_example_a2b_b2a :
  (* 5 = 0b00000101, 130 = 0b10000010 *)
  eval_node OA2B [TArray [2] U8] (TArray [2; 8] Bit) [VArr [5; 130]]
  = Ok (VArr [1; 0; 1; 0; 0; 0; 0; 0;  0; 1; 0; 0; 0; 0; 0; 1]) /\
  eval_node (OB2A U8) [TArray [2; 8] Bit] (TArray [2] U8) [VArr [1; 0; 1; 0; 0; 0; 0; 0;  0; 1; 0; 0; 0; 0; 0; 1]]
  = Ok (VArr [5; 130]) /\
  bit_of 130 7 = 1 /\ bits_value (fun j => nth (Z.to_nat j) [0; 1; 0; 0; 0; 0; 0; 1] 0) 8 = 130.
Proof. repeat split; vm_compute; reflexivity. Qed.

Print Assumptions C10_a2b_array_spec.
Print Assumptions C10_b2a_array_spec.
Print Assumptions C10_a2b_b2a_round_trip.

(* ====================================================================================== *)
(* InversePermutation, ApplyPermutation, SegmentCumSum at the level of eval_node.
   Property C18 (Props/C18.v: C18_apply_inverse_id, C18_apply_permutation_op_spec,
   C18_execute_inverse_permutation_ok, C18_inverse_is_perm) proves the algebra of permutation
   application and inversion on its own row-level model (Model/Sort.v); the statements below are
   the element-wise documented readings for the evaluator model of this file, any rank.
   [is_perm_list n p]: p lists n distinct values of [0, n). *)
From CC Require Import Proofs.EvalSpecPerm.

(* graphs.rs:2217: "output[i] = j if input[j] = i" -- and the result is again a permutation, with
   input[output[i]] = i *)
Theorem C10_inverse_permutation_spec : forall n st t es,
  let p := map (as_u64 st) es in
  is_perm_list n p ->
  exists r, eval_node OInversePermutation [TArray [n] st] t [VArr es] = Ok (VArr r) /\
    is_perm_list n r /\
    (forall j, 0 <= j < n -> nth (Z.to_nat (nth (Z.to_nat j) p 0)) r 0 = j) /\
    (forall i, 0 <= i < n -> nth (Z.to_nat (nth (Z.to_nat i) r 0)) p 0 = i).
Proof. exact inverse_permutation_spec. Qed.
(* ApplyPermutation along the first dimension: result[x] = a[p[x]]; with the inverse flag
   result[p[x]] = a[x] *)
Theorem C10_apply_permutation_spec : forall (inv : bool) n rest st ist t0 es p0,
  0 < n -> valid_shape rest -> length es = Z.to_nat (prod_list (n :: rest)) ->
  let p := map (as_u64 ist) p0 in
  is_perm_list n p ->
  exists r, eval_node (OApplyPermutation inv) [t0; TArray [n] ist] (TArray (n :: rest) st) [VArr es; VArr p0]
            = Ok (VArr r) /\
    length r = Z.to_nat (prod_list (n :: rest)) /\
    forall x idx, 0 <= x < n -> in_shape idx rest ->
      let px := nth (Z.to_nat x) p 0 in
      if inv then get r (n :: rest) (px :: idx) = get es (n :: rest) (x :: idx)
      else get r (n :: rest) (x :: idx) = get es (n :: rest) (px :: idx).
Proof. exact apply_permutation_spec. Qed.
(* SegmentCumSum (graphs.rs:2428): output[0] = v, output[i] = A[i-1] + B[i-1] * output[i-1],
   element-wise on rows, modulo 2^w *)
Theorem C10_segment_cumsum_spec : forall n rest st tb tf t A B v,
  0 < n -> valid_shape rest -> prod_list (dims tf) = prod_list rest ->
  let P := prod_list rest in let m := modulus st in
  length A = Z.to_nat (n * P) -> length B = Z.to_nat n -> length v = Z.to_nat P ->
  Forall (fun b => b = 0 \/ b = 1) B ->
  Forall (fun e => 0 <= e < m) A -> Forall (fun e => 0 <= e < m) v ->
  exists r, eval_node OSegmentCumSum [TArray (n :: rest) st; tb; tf] t [VArr A; VArr B; VArr v] = Ok (VArr r) /\
    length r = Z.to_nat ((n + 1) * P) /\
    forall i idx, 0 <= i <= n -> in_shape idx rest ->
      get r ((n + 1) :: rest) (i :: idx) =
      seg_cumsum_at (fun k => get A (n :: rest) (k :: idx)) (fun k => nth (Z.to_nat k) B 0)
                    (get v rest idx) (Z.to_nat i) mod m.
Proof. exact segment_cumsum_spec. Qed.

Example C10_example_permutations :
  is_perm_list 3 (map (as_u64 U64) [2; 0; 1]) /\
  eval_node OInversePermutation [TArray [3] U64] (TArray [3] U64) [VArr [2; 0; 1]] = Ok (VArr [1; 2; 0]) /\
  (* rows (10,11), (20,21), (30,2^100); result[x] = a[p[x]] *)
  eval_node (OApplyPermutation false) [TArray [3; 2] U128; TArray [3] U64] (TArray [3; 2] U128)
            [VArr [10; 11; 20; 21; 30; 2 ^ 100]; VArr [2; 0; 1]]
  = Ok (VArr [30; 2 ^ 100; 10; 11; 20; 21]) /\
  (* result[p[x]] = a[x] *)
  eval_node (OApplyPermutation true) [TArray [3; 2] U128; TArray [3] U64] (TArray [3; 2] U128)
            [VArr [10; 11; 20; 21; 30; 2 ^ 100]; VArr [2; 0; 1]]
  = Ok (VArr [20; 21; 30; 2 ^ 100; 10; 11]).
Proof.
  split; [|repeat split; vm_compute; reflexivity].
  split; [reflexivity|]. split; [repeat constructor; vm_compute; congruence|].
  vm_compute. repeat constructor; cbn [In]; lia.
Qed.
Example C10_example_segment_cumsum :
  (* 250, 10 + 250 = 4 (mod 256), 2 (segment restarts), 3 + 2, 4 + 5 *)
  eval_node OSegmentCumSum [TArray [4] U8; TArray [4] Bit; TScalar U8] (TArray [5] U8)
            [VArr [10; 2; 3; 4]; VArr [1; 0; 1; 1]; VArr [250]] = Ok (VArr [250; 4; 2; 5; 9]) /\
  eval_node OSegmentCumSum [TArray [2; 2] U8; TArray [2] Bit; TArray [2] U8] (TArray [3; 2] U8)
            [VArr [10; 2; 3; 4]; VArr [1; 1]; VArr [250; 1]] = Ok (VArr [250; 1; 4; 3; 7; 7]).
Proof. split; vm_compute; reflexivity. Qed.

Print Assumptions C10_inverse_permutation_spec.
Print Assumptions C10_apply_permutation_spec.
Print Assumptions C10_segment_cumsum_spec.

(* ====================================================================================== *)
(* Matmul with one rank-1 operand (numpy.matmul's promotion rule: the vector is treated as a
   1 x k, resp. k x 1, matrix and the added dimension is removed from the result) and Dot of an
   N-d array by a 1-d array (C10_dot_nd_by_1d_full above, now proved). *)
From CC Require Import Proofs.EvalSpecMatmul1d.

Theorem C10_matmul_vec_mat_spec : forall st st1 st2 b1 k m e0 e1,
  valid_shape b1 -> 0 < k -> 0 < m ->
  let s1 := b1 ++ [k; m] in let rs := b1 ++ [m] in
  length e0 = Z.to_nat k -> length e1 = Z.to_nat (prod_list s1) ->
  exists r, eval_node OMatmul [TArray [k] st; TArray s1 st1] (TArray rs st2) [VArr e0; VArr e1] = Ok (VArr r) /\
    length r = Z.to_nat (prod_list rs) /\
    forall bi j, in_shape bi b1 -> 0 <= j < m ->
      get r rs (bi ++ [j]) =
      dot_sum k (fun l => get e0 [k] [l]) (fun l => get e1 s1 (bi ++ [l; j])) mod modulus st.
Proof. exact matmul_vec_mat_spec. Qed.
Theorem C10_matmul_mat_vec_spec : forall st st1 st2 b0 n k e0 e1,
  valid_shape b0 -> 0 < n -> 0 < k ->
  let s0 := b0 ++ [n; k] in let rs := b0 ++ [n] in
  length e0 = Z.to_nat (prod_list s0) -> length e1 = Z.to_nat k ->
  exists r, eval_node OMatmul [TArray s0 st; TArray [k] st1] (TArray rs st2) [VArr e0; VArr e1] = Ok (VArr r) /\
    length r = Z.to_nat (prod_list rs) /\
    forall bi i, in_shape bi b0 -> 0 <= i < n ->
      get r rs (bi ++ [i]) =
      dot_sum k (fun l => get e0 s0 (bi ++ [i; l])) (fun l => get e1 [k] [l]) mod modulus st.
Proof. exact matmul_mat_vec_spec. Qed.
Theorem C10_dot_nd_by_1d_spec : C10_dot_nd_by_1d_full.
Proof. exact dot_nd_by_1d_spec. Qed.

Example C10_example_matmul_1d :
  (* (3, 2^100) x [[[1,2],[3,4]], [[5,6],[7,2^27]]] *)
  eval_node OMatmul [TArray [2] U128; TArray [2; 2; 2] U128] (TArray [2; 2] U128)
            [VArr [3; 2 ^ 100]; VArr [1; 2; 3; 4; 5; 6; 7; 2 ^ 27]]
  = Ok (VArr [3 + 3 * 2 ^ 100; 6 + 4 * 2 ^ 100; 15 + 7 * 2 ^ 100; 18 + 2 ^ 127]) /\
  (* [[1,2],[3,4]] x (5, 2^126) *)
  eval_node OMatmul [TArray [2; 2] U128; TArray [2] U128] (TArray [2] U128)
            [VArr [1; 2; 3; 4]; VArr [5; 2 ^ 126]]
  = Ok (VArr [5 + 2 ^ 127; 15]) /\
  eval_node ODot [TArray [2; 2] U128; TArray [2] U128] (TArray [2] U128)
            [VArr [1; 2; 3; 4]; VArr [5; 2 ^ 126]]
  = Ok (VArr [5 + 2 ^ 127; 15]).
Proof. repeat split; vm_compute; reflexivity. Qed.

Print Assumptions C10_matmul_vec_mat_spec.
Print Assumptions C10_matmul_mat_vec_spec.
Print Assumptions C10_dot_nd_by_1d_spec.

(* ====================================================================================== *)
(* VectorGet (index read as an unsigned 64-bit value, out of range = error) and NamedTupleGet
   (the component of the first field with the given name). *)
From CC Require Import Proofs.EvalSpecGetters.

Theorem C10_vector_get_spec : forall size et ist t l x,
  let i := as_u64 ist x in
  i < size -> i < Z.of_nat (length l) ->
  eval_node OVectorGet [TVector size et; TScalar ist] t [VTup l; VArr [x]]
  = Ok (nth (Z.to_nat i) l (VArr [])).
Proof. exact vector_get_spec. Qed.
Theorem C10_named_tuple_get_spec : forall fs name t l,
  length l = length fs ->
  (exists f, In f fs /\ fst f = name) ->
  exists i, eval_node (ONamedTupleGet name) [TNamed fs] t [VTup l] = Ok (nth i l (VArr [])) /\
    (i < length fs)%nat /\ fst (nth i fs (String.EmptyString, TTuple [])) = name /\
    forall j, (j < i)%nat -> fst (nth j fs (String.EmptyString, TTuple [])) <> name.
Proof. exact named_tuple_get_spec. Qed.

Example C10_example_getters :
  eval_node OVectorGet [TVector 2 (TScalar U8); TScalar U32] (TScalar U8) [VTup [VArr [7]; VArr [9]]; VArr [1]]
  = Ok (VArr [9]) /\
  eval_node (ONamedTupleGet "b") [TNamed [("a"%string, TScalar U8); ("b"%string, TArray [2] U8)]] (TArray [2] U8)
            [VTup [VArr [7]; VArr [1; 2]]]
  = Ok (VArr [1; 2]).
Proof. split; vm_compute; reflexivity. Qed.

Print Assumptions C10_vector_get_spec.
Print Assumptions C10_named_tuple_get_spec.

(* C12 — contexts survive serialization; malformed input is an error, not a crash.
   Property theorems only: each is closed by [exact] of a lemma proved in Proofs/SerdeProofs.v.
   [ser] / [deser] mirror make_serializable / recover_original_context of graphs.rs; [deser]
   replays through [step] of the C11 model; the type checker is the Section variable [tc]
   (any function).  JSON text and typetag dispatch are not modelled. *)
From CC Require Import Base.Prelude Model.Api Model.Serde Proofs.ApiProofs Proofs.SerdeProofs.
Local Open Scope N_scope.

(* Deserializing an ARBITRARY payload (any version, ids out of range in any table, dangling
   dependencies, wrong main/output ids, inconsistent flags) with ANY type checker returns an error
   or a context satisfying the C11 invariant; it never panics. *)
Theorem C12_deser_safe : forall tc (e : N * sctx),
  match deser_env tc e with
  | Ok s => Inv s
  | Err => True
  | Panic => False
  | OutOfFuel => False
  end.
Proof. exact deser_env_safe. Qed.

(* Serialization is canonical: deeply equal contexts (tables compared by lookup, whatever their
   internal order) give the same payload; in particular the same context twice. *)
Theorem C12_ser_deterministic : forall s1 s2, deep_equal s1 s2 -> ser_env s1 = ser_env s2.
Proof. exact ser_deterministic. Qed.
Theorem C12_ser_deterministic_same : forall s, deep_equal s s /\ ser_env s = ser_env s.
Proof. intros s. split; [apply deep_equal_refl|reflexivity]. Qed.

(* the type checker accepts a node (and the size limits are met) *)
Definition accepting (s : state) (a : tcans) : Prop :=
  (exists t, a_ty a = Some t) /\
  (exists sz, a_sz a = Some sz /\ sz <= MAX_INDIVIDUAL_NODE_SIZE) /\
  (a_in a = None \/ exists n, a_in a = Some (Some n) /\ total s + n <= MAX_TOTAL_SIZE_NODES).
(* full round-trip statement *)
Definition C12_ser_deser_full : Prop :=
  forall tc s, Inv s ->
    (forall t g op deps gdeps, accepting t (tc t g op deps gdeps)) ->
    exists s', deser_env tc (ser_env s) = Ok s' /\ deep_equal s s'.

(* Non-vacuity: the C11 example history serializes, and its payload deserializes (with a type
   checker that accepts) to a context with the same payload; a corrupted payload is rejected. *)
Definition ex_tc (s : state) (g op : N) (deps gdeps : list N) : tcans := mkAns (Some 7) (Some 33) None.
Definition ex_state : state :=
  run [CreateGraph;
       AddNode 0 1 [] [] None (mkAns (Some 7) (Some 33) (Some (Some 33)));
       AddNode 0 2 [NH 0 0 0; NH 0 0 0] [] None (mkAns (Some 7) (Some 33) None);
       SetNodeName (NH 0 0 0) "x"; AddNodeAnnot (NH 0 0 1) 2; SetOutput 0 (NH 0 0 1); FinalizeGraph 0;
       SetGraphName (GH 0 0) "main"; SetMain (GH 0 0); FinalizeCtx].
Example C12_example_roundtrip :
  rmap ser (deser_env ex_tc (ser_env ex_state)) = Ok (ser ex_state) /\
  sc_nnames (ser ex_state) = [((0, 0), "x"%string)] /\
  deser_env ex_tc (3, ser ex_state) = Err /\
  deser_env ex_tc (2, mkSCtx false [] None [] [] [((0, 7), [2])] []) = Err.
Proof. vm_compute. repeat split. Qed.

Print Assumptions C12_deser_safe.
Print Assumptions C12_ser_deterministic.
Print Assumptions C12_ser_deterministic_same.

(* C12 — contexts survive serialization; malformed input is an error, not a crash.
   Property theorems only: each is closed by [exact] of a lemma proved in Proofs/SerdeProofs.v.
   [ser] / [deser] mirror make_serializable / recover_original_context of graphs.rs; [deser]
   replays through [step] of the C11 model; the type checker is the Section variable [tc]
   (any function).  JSON text and typetag dispatch are not modelled. *)
From CC Require Import Base.Prelude Model.Api Model.Serde Proofs.ApiProofs Proofs.SerdeProofs.
Local Open Scope N_scope.

(* Deserializing an ARBITRARY payload (any version, ids out of range in any table, dangling
   dependencies, wrong main/output ids, inconsistent flags) with ANY type checker returns an error
   or a context satisfying the C11 invariant; it never panics. *)
Theorem C12_deser_safe : forall tc (e : N * sctx),
  match deser_env tc e with
  | Ok s => Inv s
  | Err => True
  | Panic => False
  | OutOfFuel => False
  end.
Proof. exact deser_env_safe. Qed.

(* Serialization is canonical: deeply equal contexts (tables compared by lookup, whatever their
   internal order) give the same payload; in particular the same context twice. *)
Theorem C12_ser_deterministic : forall s1 s2, deep_equal s1 s2 -> ser_env s1 = ser_env s2.
Proof. exact ser_deterministic. Qed.
Theorem C12_ser_deterministic_same : forall s, deep_equal s s /\ ser_env s = ser_env s.
Proof. intros s. split; [apply deep_equal_refl|reflexivity]. Qed.

(* Round trip.  [accepting t a] (Proofs/SerdeProofs.v): the answer [a] of the type checker in
   context [t] is a type, a size estimate within MAX_INDIVIDUAL_NODE_SIZE and, for Input/Constant,
   a size that keeps the total within MAX_TOTAL_SIZE_NODES.  If the type checker accepts the nodes
   of a well-formed context again (in whatever context they are replayed), serialization followed
   by deserialization succeeds and gives a deeply equal context. *)
Theorem C12_ser_deser : forall tc s,
  Inv s -> ann_nonempty s ->
  (forall t g gr j nd,
     nthN (graphs s) g = Some gr -> nth_error (g_nodes gr) j = Some nd ->
     accepting t (tc t g (n_op nd) (map nh_nid (n_deps nd)) (map gh_id (n_gdeps nd)))) ->
  exists s', deser_env tc (ser_env s) = Ok s' /\ deep_equal s s'.
Proof. intros tc s HI HA H. exact (ser_deser tc s H HI HA). Qed.

(* [ann_nonempty] (no empty annotation list is stored: an entry with an empty list and a missing
   entry are different HashMaps but the same payload) holds in every reachable context, so for
   every context built by any call sequence: *)
Theorem C12_ser_deser_reachable : forall tc (cs : list call),
  (forall t g op deps gdeps, accepting t (tc t g op deps gdeps)) ->
  exists s', deser_env tc (ser_env (fold_left step' cs init)) = Ok s' /\
             deep_equal (fold_left step' cs init) s'.
Proof. exact ser_deser_reachable. Qed.

(* Non-vacuity: the C11 example history serializes, and its payload deserializes (with a type
   checker that accepts) to a context with the same payload; a corrupted payload is rejected. *)
Definition ex_tc (s : state) (g op : N) (deps gdeps : list N) : tcans := mkAns (Some 7) (Some 33) None.
Definition ex_state : state :=
  run [CreateGraph;
       AddNode 0 1 [] [] None (mkAns (Some 7) (Some 33) (Some (Some 33)));
       AddNode 0 2 [NH 0 0 0; NH 0 0 0] [] None (mkAns (Some 7) (Some 33) None);
       SetNodeName (NH 0 0 0) "x"; AddNodeAnnot (NH 0 0 1) 2; SetOutput 0 (NH 0 0 1); FinalizeGraph 0;
       SetGraphName (GH 0 0) "main"; SetMain (GH 0 0); FinalizeCtx].
Example C12_example_accepting : forall t g op deps gdeps, accepting t (ex_tc t g op deps gdeps).
Proof.
  intros. unfold accepting, ex_tc; cbn. split; [eauto|]. split; [|auto].
  exists 33. split; [reflexivity|]. unfold MAX_INDIVIDUAL_NODE_SIZE. lia.
Qed.
Example C12_example_roundtrip :
  rmap ser (deser_env ex_tc (ser_env ex_state)) = Ok (ser ex_state) /\
  sc_nnames (ser ex_state) = [((0, 0), "x"%string)] /\
  deser_env ex_tc (3, ser ex_state) = Err /\
  deser_env ex_tc (2, mkSCtx false [] None [] [] [((0, 7), [2])] []) = Err.
Proof. vm_compute. repeat split. Qed.

Print Assumptions C12_deser_safe.
Print Assumptions C12_ser_deterministic.
Print Assumptions C12_ser_deterministic_same.
Print Assumptions C12_ser_deser.
Print Assumptions C12_ser_deser_reachable.

(* C01 deep model, context level, proofs, part 1: the evaluation invariant [cevals] of the main-graph
   reading (Model/MpcCompileCtxSem.v), what one emitted node does to it, and the semantics of
   input sharing: share_node / share_input on an array or scalar produce three shares adding up
   to the shared value, for every value of the three PRF nodes. *)
From Coq Require Import Ring.
From CC Require Import Base.Prelude Base.Scalar Base.Ty Base.Shape Graph.Value Graph.IR Graph.Eval Graph.Typing
  Model.RingEval Model.MpcCompile Model.MpcCompileSem Model.MpcCompileCtx Model.MpcCompileCtxSem
  Proofs.MpcCompileBase Proofs.MpcCompileStatic Proofs.MpcCompileTyping Proofs.MpcCompileReshare.

Section CtxBase.
  Variable R : Type.
  Variables (r0 r1 : R) (radd rmul rsub : R -> R -> R) (ropp : R -> R).
  Hypothesis Rth : ring_theory r0 r1 radd rmul rsub ropp eq.
  Add Ring Rcb : Rth.
  Variable atom : Z -> R.
  Variable matom : Z -> R.
  Variable catom : value -> R.
  Variable one : R.
  Variable lin : op -> R -> R.
  Variable bil : op -> R -> R -> R.
  Variable nlin : op -> list R -> R.
  Variable cg : list node.
  Variable coo : Z.

  Notation rv := (rval R).
  Notation L := (RLeaf R).
  Notation T3 := (T3 R).
  Notation cnode := (ceval_node R r0 radd rmul rsub atom matom catom one lin bil nlin cg coo).
  Notation cfrom := (ceval_from R r0 radd rmul rsub atom matom catom one lin bil nlin cg coo).
  Notation cstp := (cstep R r0 radd rmul rsub atom matom catom one lin bil nlin cg coo).
  Notation mono := (mono R).

  (* the main graph [out], run on the inputs [ins0], has the node values [env] and leaves [ins] *)
  Definition cevals (ins0 : list rv) (out : list node) (env : list rv) (ins : list rv) : Prop :=
    cfrom out (Some ([], ins0)) = Some (env, ins).

  Lemma cfrom_app a b st : cfrom (a ++ b) st = cfrom b (cfrom a st).
  Proof. unfold ceval_from. apply fold_left_app. Qed.

  Lemma cstep_same st a b : n_op a = n_op b -> n_deps a = n_deps b -> cstp st a = cstp st b.
  Proof. intros Ho Hd. unfold cstep. now rewrite Ho, Hd. Qed.

  Lemma cfrom_update l1 l2 x y st :
    n_op x = n_op y -> n_deps x = n_deps y -> cfrom (l1 ++ [x] ++ l2) st = cfrom (l1 ++ [y] ++ l2) st.
  Proof.
    intros Ho Hd. rewrite !cfrom_app. f_equal.
    change (cfrom [x] (cfrom l1 st)) with (cstp (cfrom l1 st) x).
    change (cfrom [y] (cfrom l1 st)) with (cstp (cfrom l1 st) y). now apply cstep_same.
  Qed.

  Lemma cfrom_cons nd out st : cfrom (nd :: out) st = cfrom out (cstp st nd).
  Proof. reflexivity. Qed.
  Lemma cfrom_none out : cfrom out None = None.
  Proof. induction out as [|nd out IH]; [reflexivity|]. rewrite cfrom_cons. exact IH. Qed.

  Lemma cstep_inv e0 i0 nd e1 i1 : cstp (Some (e0, i0)) nd = Some (e1, i1) -> exists v, e1 = e0 ++ [v].
  Proof.
    unfold cstep.
    destruct (n_op nd);
      try (destruct i0; intros H; inversion H; eauto; fail);
      (destruct (mapM _ _); try discriminate;
       match goal with |- context [match ?x with Some _ => _ | None => _ end] => destruct x end;
       intros H; inversion H; eauto).
  Qed.

  Lemma cfrom_length out st env ins env0 ins0' :
    st = Some (env0, ins0') -> cfrom out st = Some (env, ins) -> zlen env = zlen env0 + zlen out.
  Proof.
    revert st env0 ins0'. induction out as [|nd out IH]; intros st env0 ins0' -> H.
    - inversion H; subst. rewrite zlen_nil. lia.
    - rewrite cfrom_cons in H.
      destruct (cstp (Some (env0, ins0')) nd) as [[e1 i1]|] eqn:S.
      + pose proof (IH _ _ _ eq_refl H) as Le.
        destruct (cstep_inv _ _ _ _ _ S) as (v & ->). rewrite zlen_app, zlen_one in Le.
        change (nd :: out) with ([nd] ++ out). rewrite zlen_app, zlen_one. lia.
      + rewrite cfrom_none in H. discriminate.
  Qed.

  Lemma cevals_length ins0 out env ins : cevals ins0 out env ins -> zlen env = zlen out.
  Proof. intros H. apply (cfrom_length _ _ _ _ [] ins0 eq_refl) in H. rewrite zlen_nil in H. lia. Qed.

  Lemma cevals_nil ins0 : cevals ins0 [] [] ins0.
  Proof. reflexivity. Qed.

  Lemma add_annotation_cevals id a out out' ins0 env ins :
    add_annotation id a out = Ok out' -> cevals ins0 out env ins -> cevals ins0 out' env ins.
  Proof.
    intros H E. destruct (add_annotation_spec _ _ _ _ H) as (l1 & nd & l2 & -> & Le & ->).
    unfold cevals in *. rewrite <- E. symmetry. now apply cfrom_update.
  Qed.

  Lemma cevals_snoc ins0 out env ins nd vs v :
    cevals ins0 out env ins -> is_input (n_op nd) = false ->
    mapM (fun d => znth env d) (n_deps nd) = Ok vs -> cnode (zlen env) (n_op nd) vs = Some v ->
    cevals ins0 (out ++ [nd]) (env ++ [v]) ins.
  Proof.
    intros E Hi Hm Hv. unfold cevals in *. rewrite cfrom_app, E.
    change (cfrom [nd] (Some (env, ins))) with (cstp (Some (env, ins)) nd). unfold cstep.
    destruct (n_op nd) eqn:Ho; try discriminate; cbv beta iota; rewrite Hm, Hv; reflexivity.
  Qed.
  Lemma cevals_snoc_input ins0 out env v ins nd t :
    cevals ins0 out env (v :: ins) -> n_op nd = OInput t -> cevals ins0 (out ++ [nd]) (env ++ [v]) ins.
  Proof.
    intros E Hi. unfold cevals in *. rewrite cfrom_app, E.
    change (cfrom [nd] (Some (env, v :: ins))) with (cstp (Some (env, v :: ins)) nd). unfold cstep.
    now rewrite Hi.
  Qed.

  Lemma emit_cevals o deps an out out' id ins0 env ins vs v :
    emit o deps an out = Ok (out', id) -> cevals ins0 out env ins -> is_input o = false ->
    mapM (fun d => znth env d) deps = Ok vs -> cnode (zlen env) o vs = Some v ->
    cevals ins0 out' (env ++ [v]) ins /\ znth (env ++ [v]) id = Ok v.
  Proof.
    intros H E Hi Hm Hv. destruct (emit_spec _ _ _ _ _ _ H) as (ts & t & _ & _ & -> & ->).
    split; [eapply cevals_snoc; eauto|].
    rewrite <- (cevals_length _ _ _ _ E). apply znth_last.
  Qed.

  Lemma emit_input_cevals t an out out' id ins0 env v ins :
    emit (OInput t) [] an out = Ok (out', id) -> cevals ins0 out env (v :: ins) ->
    cevals ins0 out' (env ++ [v]) ins /\ znth (env ++ [v]) id = Ok v.
  Proof.
    intros H E. destruct (emit_spec _ _ _ _ _ _ H) as (ts & t' & _ & _ & -> & ->).
    split; [eapply cevals_snoc_input; eauto; reflexivity|].
    rewrite <- (cevals_length _ _ _ _ E). apply znth_last.
  Qed.

  (* ---------- single nodes ---------- *)
  Lemma c_tget i d out out' id ins0 env ins l v :
    emit (OTupleGet i) [d] [] out = Ok (out', id) -> cevals ins0 out env ins ->
    znth env d = Ok (RTup R l) -> znth l i = Ok v ->
    cevals ins0 out' (env ++ [v]) ins /\ znth (env ++ [v]) id = Ok v.
  Proof.
    intros H E Hd Hi. eapply emit_cevals; eauto.
    - cbn [mapM]. rewrite Hd. reflexivity.
    - cbn [ceval_node deval_node]. rewrite Hi. reflexivity.
  Qed.

  Lemma c_prf iv t k out out' id ins0 env ins kv :
    emit (OPRF iv t) [k] [] out = Ok (out', id) -> cevals ins0 out env ins -> znth env k = Ok kv ->
    cevals ins0 out' (env ++ [L (matom (zlen env))]) ins /\ znth (env ++ [L (matom (zlen env))]) id = Ok (L (matom (zlen env))).
  Proof.
    intros H E Hk. eapply emit_cevals; eauto.
    - cbn [mapM]. rewrite Hk. reflexivity.
    - reflexivity.
  Qed.

  Lemma c_add d1 d2 an out out' id ins0 env ins a b :
    emit OAdd [d1; d2] an out = Ok (out', id) -> cevals ins0 out env ins ->
    znth env d1 = Ok (L a) -> znth env d2 = Ok (L b) ->
    cevals ins0 out' (env ++ [L (radd a b)]) ins /\ znth (env ++ [L (radd a b)]) id = Ok (L (radd a b)).
  Proof.
    intros H E H1 H2. eapply emit_cevals; eauto.
    - cbn [mapM]. rewrite H1, H2. reflexivity.
    - reflexivity.
  Qed.
  Lemma c_sub d1 d2 an out out' id ins0 env ins a b :
    emit OSubtract [d1; d2] an out = Ok (out', id) -> cevals ins0 out env ins ->
    znth env d1 = Ok (L a) -> znth env d2 = Ok (L b) ->
    cevals ins0 out' (env ++ [L (rsub a b)]) ins /\ znth (env ++ [L (rsub a b)]) id = Ok (L (rsub a b)).
  Proof.
    intros H E H1 H2. eapply emit_cevals; eauto.
    - cbn [mapM]. rewrite H1, H2. reflexivity.
    - reflexivity.
  Qed.

  Lemma c_nop d an out out' id ins0 env ins v :
    emit ONOP [d] an out = Ok (out', id) -> cevals ins0 out env ins -> znth env d = Ok v ->
    cevals ins0 out' (env ++ [v]) ins /\ znth (env ++ [v]) id = Ok v.
  Proof.
    intros H E Hd. eapply emit_cevals; eauto.
    - cbn [mapM]. rewrite Hd. reflexivity.
    - reflexivity.
  Qed.

  Lemma c_ctuple deps vs out out' id ins0 env ins :
    emit OCreateTuple deps [] out = Ok (out', id) -> cevals ins0 out env ins ->
    mapM (fun d => znth env d) deps = Ok vs ->
    cevals ins0 out' (env ++ [RTup R vs]) ins /\ znth (env ++ [RTup R vs]) id = Ok (RTup R vs).
  Proof. intros H E Hd. eapply emit_cevals; eauto. Qed.

  Lemma c_random t an out out' id ins0 env ins :
    emit (ORandom t) [] an out = Ok (out', id) -> cevals ins0 out env ins ->
    cevals ins0 out' (env ++ [RKey R]) ins /\ znth (env ++ [RKey R]) id = Ok (RKey R).
  Proof. intros H E. eapply (emit_cevals _ _ _ _ _ _ _ _ _ [] (RKey R)); eauto. Qed.

  Lemma mono_app env l : mono env (env ++ l).
  Proof. intros d x H. now apply znth_app_l. Qed.

  (* ---------- three TupleGet nodes on one tuple ---------- *)
  Lemma c_tget3 d out out' ids ins0 env ins x0 x1 x2 :
    mapS (fun i o => emit (OTupleGet i) [d] [] o) parties out = Ok (out', ids) -> cevals ins0 out env ins ->
    znth env d = Ok (RTup R [x0; x1; x2]) ->
    exists i0 i1 i2, ids = [i0; i1; i2] /\ cevals ins0 out' (env ++ [x0; x1; x2]) ins /\
      znth (env ++ [x0; x1; x2]) i0 = Ok x0 /\ znth (env ++ [x0; x1; x2]) i1 = Ok x1 /\
      znth (env ++ [x0; x1; x2]) i2 = Ok x2 /\ ext out out' /\
      (forall T, out_ty out d = Ok T ->
         exists t0 t1 t2, infer (OTupleGet 0) [T] = Ok t0 /\ infer (OTupleGet 1) [T] = Ok t1 /\ infer (OTupleGet 2) [T] = Ok t2 /\
                          out_ty out' i0 = Ok t0 /\ out_ty out' i1 = Ok t1 /\ out_ty out' i2 = Ok t2).
  Proof.
    intros H E Hd. unfold parties in H. cbn [mapS] in H.
    apply bind_ok in H as ([o1 i0] & E0 & H). apply bind_ok in H as ([o2' l1] & H & Hr). inversion Hr; subst; clear Hr.
    apply bind_ok in H as ([o2 i1] & E1 & H). apply bind_ok in H as ([o3' l2] & H & Hr). inversion Hr; subst; clear Hr.
    apply bind_ok in H as ([o3 i2] & E2 & H). inversion H; subst; clear H.
    destruct (c_tget _ _ _ _ _ _ _ _ _ x0 E0 E Hd eq_refl) as [Ev0 F0].
    destruct (c_tget _ _ _ _ _ _ _ _ _ x1 E1 Ev0 (znth_app_l _ _ _ _ Hd) eq_refl) as [Ev1 F1].
    destruct (c_tget _ _ _ _ _ _ _ _ _ x2 E2 Ev1 (znth_app_l _ _ _ _ (znth_app_l _ _ _ _ Hd)) eq_refl) as [Ev2 F2].
    destruct (emit_ty _ _ _ _ _ _ E0) as (ts0 & t0 & Hm0 & Hi0 & Ht0 & X0).
    destruct (emit_ty _ _ _ _ _ _ E1) as (ts1 & t1 & Hm1 & Hi1 & Ht1 & X1).
    destruct (emit_ty _ _ _ _ _ _ E2) as (ts2 & t2 & Hm2 & Hi2 & Ht2 & X2).
    replace (env ++ [x0; x1; x2]) with (((env ++ [x0]) ++ [x1]) ++ [x2]) by (rewrite <- !app_assoc; reflexivity).
    exists i0, i1, i2.
    split; [reflexivity|]. split; [exact Ev2|].
    split; [auto using znth_app_l|]. split; [auto using znth_app_l|]. split; [exact F2|].
    split; [exact (ext_trans _ _ _ X0 (ext_trans _ _ _ X1 X2))|].
    intros T HT. exists t0, t1, t2.
    cbn [mapM] in Hm0, Hm1, Hm2. rewrite HT in Hm0. cbn [bind] in Hm0. inversion Hm0; subst ts0.
    rewrite (ext_out_ty _ _ _ _ X0 HT) in Hm1. cbn [bind] in Hm1. inversion Hm1; subst ts1.
    rewrite (ext_out_ty _ _ _ _ (ext_trans _ _ _ X0 X1) HT) in Hm2. cbn [bind] in Hm2. inversion Hm2; subst ts2.
    repeat split; auto.
    - exact (ext_out_ty _ _ _ _ (ext_trans _ _ _ X1 X2) Ht0).
    - exact (ext_out_ty _ _ _ _ X2 Ht1).
  Qed.

  (* ---------- zero shares on an array/scalar type, in the main graph ---------- *)
  Lemma c_zero_shares t k0 k1 k2 out out' zs ins0 env ins kv0 kv1 kv2 :
    is_leaf t = true ->
    generate_zero_shares t [k0; k1; k2] out = Ok (out', zs) -> cevals ins0 out env ins ->
    znth env k0 = Ok kv0 -> znth env k1 = Ok kv1 -> znth env k2 = Ok kv2 ->
    exists env' z0 z1 z2 p0 p1 p2, zs = [z0; z1; z2] /\ cevals ins0 out' env' ins /\ mono env env' /\
      znth env' z0 = Ok (L (rsub p0 p1)) /\ znth env' z1 = Ok (L (rsub p1 p2)) /\ znth env' z2 = Ok (L (rsub p2 p0)) /\
      ext out out'.
  Proof.
    intros Lt H E K0 K1 K2. rewrite (zero_shares_leaf _ _ _ Lt) in H. unfold parties in H. cbn [mapS] in H.
    apply bind_ok in H as ([o3 rs] & Hp & H).
    apply bind_ok in Hp as ([o1 q0] & E0 & Hp). apply bind_ok in Hp as ([o2' l1] & Hp & Hr). inversion Hr; subst; clear Hr.
    apply bind_ok in Hp as ([o2 q1] & E1 & Hp). apply bind_ok in Hp as ([o3' l2] & Hp & Hr). inversion Hr; subst; clear Hr.
    apply bind_ok in Hp as ([o3'' q2] & E2 & Hp). inversion Hp; subst; clear Hp.
    change (znth [q0; q1; q2] 0) with (Ok (A:=Z) q0) in H. change (znth [q0; q1; q2] ((0 + 1) mod 3)) with (Ok (A:=Z) q1) in H.
    change (znth [q0; q1; q2] 1) with (Ok (A:=Z) q1) in H. change (znth [q0; q1; q2] ((1 + 1) mod 3)) with (Ok (A:=Z) q2) in H.
    change (znth [q0; q1; q2] 2) with (Ok (A:=Z) q2) in H. change (znth [q0; q1; q2] ((2 + 1) mod 3)) with (Ok (A:=Z) q0) in H.
    cbn [bind] in H.
    apply bind_ok in H as ([o4 z0] & S0 & H). apply bind_ok in H as ([o5' l1] & H & Hr). inversion Hr; subst; clear Hr.
    apply bind_ok in H as ([o5 z1] & S1 & H). apply bind_ok in H as ([o6' l2] & H & Hr). inversion Hr; subst; clear Hr.
    apply bind_ok in H as ([o6 z2] & S2 & H). inversion H; subst; clear H.
    destruct (c_prf _ _ _ _ _ _ _ _ _ _ E0 E K0) as [Ev0 F0]. set (p0 := matom (zlen env)) in *.
    pose proof (mono_snoc R env (L p0)) as M0. set (e1 := env ++ [L p0]) in *.
    destruct (c_prf _ _ _ _ _ _ _ _ _ _ E1 Ev0 (M0 _ _ K1)) as [Ev1 F1]. set (p1 := matom (zlen e1)) in *.
    pose proof (mono_snoc R e1 (L p1)) as M1. set (e2 := e1 ++ [L p1]) in *.
    destruct (c_prf _ _ _ _ _ _ _ _ _ _ E2 Ev1 (M1 _ _ (M0 _ _ K2))) as [Ev2 F2]. set (p2 := matom (zlen e2)) in *.
    pose proof (mono_snoc R e2 (L p2)) as M2. set (e3 := e2 ++ [L p2]) in *.
    assert (G0 : znth e3 q0 = Ok (L p0)) by auto. assert (G1 : znth e3 q1 = Ok (L p1)) by auto.
    destruct (c_sub _ _ _ _ _ _ _ _ _ _ _ S0 Ev2 G0 G1) as [Ev3 F3].
    pose proof (mono_snoc R e3 (L (rsub p0 p1))) as M3. set (e4 := e3 ++ [L (rsub p0 p1)]) in *.
    destruct (c_sub _ _ _ _ _ _ _ _ _ _ _ S1 Ev3 (M3 _ _ G1) (M3 _ _ F2)) as [Ev4 F4].
    pose proof (mono_snoc R e4 (L (rsub p1 p2))) as M4. set (e5 := e4 ++ [L (rsub p1 p2)]) in *.
    destruct (c_sub _ _ _ _ _ _ _ _ _ _ _ S2 Ev4 (M4 _ _ (M3 _ _ F2)) (M4 _ _ (M3 _ _ G0))) as [Ev5 F5].
    pose proof (mono_snoc R e5 (L (rsub p2 p0))) as M5. set (e6 := e5 ++ [L (rsub p2 p0)]) in *.
    exists e6, z0, z1, z2, p0, p1, p2.
    split; [reflexivity|]. split; [exact Ev5|].
    split; [intros d x Hd; apply M5, M4, M3, M2, M1, M0, Hd|].
    split; [exact (M5 _ _ (M4 _ _ F3))|]. split; [exact (M5 _ _ F4)|]. split; [exact F5|].
    pose proof (proj1 (proj1 (emit_grows _ _ _ _ _ _ E0))) as Y0. pose proof (proj1 (proj1 (emit_grows _ _ _ _ _ _ E1))) as Y1.
    pose proof (proj1 (proj1 (emit_grows _ _ _ _ _ _ E2))) as Y2. pose proof (proj1 (proj1 (emit_grows _ _ _ _ _ _ S0))) as Y3.
    pose proof (proj1 (proj1 (emit_grows _ _ _ _ _ _ S1))) as Y4. pose proof (proj1 (proj1 (emit_grows _ _ _ _ _ _ S2))) as Y5.
    exact (ext_trans _ _ _ Y0 (ext_trans _ _ _ Y1 (ext_trans _ _ _ Y2 (ext_trans _ _ _ Y3 (ext_trans _ _ _ Y4 Y5))))).
  Qed.

  (* recursively_generate_node_shares on an array/scalar: the zero shares, then the node is added to
     the share of its owner (party 0 for a public node) *)
  Lemma node_shares_leaf t keys nid st out :
    is_leaf t = true ->
    generate_node_shares t keys nid st out =
    (let* (out2, node_shares) := generate_zero_shares t keys out in
     match st with
     | IOParty id =>
         let* s := znth node_shares id in
         let* (out3, s') := emit OAdd [s; nid] [] out2 in
         let* ns := replace_nth_res node_shares id s' in
         Ok (out3, ns)
     | IOPublic =>
         let* s := znth node_shares 0 in
         let* (out3, s') := emit OAdd [s; nid] [] out2 in
         let* ns := replace_nth_res node_shares 0 s' in
         Ok (out3, ns)
     | IOShared => Err
     end).
  Proof.
    intros Lt. rewrite (zero_shares_leaf _ _ _ Lt).
    destruct t; try discriminate; cbn [generate_node_shares];
      (destruct (mapS _ keys out) as [[o1 rs]| | |]; cbn [bind]; [|reflexivity..]);
      (destruct (mapS _ parties o1) as [[o2 ns]| | |]; cbn [bind]; reflexivity).
  Qed.

  Definition owner_index (st : iostatus) : option Z :=
    match st with IOParty id => Some id | IOPublic => Some 0 | IOShared => None end.

  (* ---------- share_node on an array/scalar ---------- *)
  Lemma share_node_sem nid k st out out' id ins0 env ins x kv0 kv1 kv2 t :
    share_node nid k st out = Ok (out', id) -> cevals ins0 out env ins ->
    out_ty out nid = Ok t -> is_leaf t = true ->
    znth env nid = Ok (L x) -> znth env k = Ok (RTup R [kv0; kv1; kv2]) ->
    exists env' a b c, cevals ins0 out' env' ins /\ mono env env' /\
      znth env' id = Ok (T3 a b c) /\ radd (radd a b) c = x /\ ext out out' /\ zlen out < zlen out' /\ id = zlen out' - 1.
  Proof.
    intros H E HT Lt Hx Hk. unfold share_node in H. rewrite HT in H. cbn [bind] in H.
    apply bind_ok in H as ([out1 nsh] & HA & H). unfold get_node_shares in HA.
    apply bind_ok in HA as ([o1 keys] & HK & HA).
    destruct (c_tget3 _ _ _ _ _ _ _ _ _ _ HK E Hk) as (k0 & k1 & k2 & -> & Ev1 & Fk0 & Fk1 & Fk2 & X1 & _).
    set (e1 := env ++ [kv0; kv1; kv2]) in *.
    assert (M1 : mono env e1) by apply mono_app.
    rewrite (node_shares_leaf _ _ _ _ _ Lt) in HA.
    apply bind_ok in HA as ([o2 zs] & HZ & HA).
    destruct (c_zero_shares _ _ _ _ _ _ _ _ _ _ _ _ _ Lt HZ Ev1 Fk0 Fk1 Fk2)
      as (e2 & z0 & z1 & z2 & p0 & p1 & p2 & -> & Ev2 & M2 & Fz0 & Fz1 & Fz2 & X2).
    (* the owner's share *)
    assert (Own : exists j s o3 s', (j = 0 \/ j = 1 \/ j = 2) /\ znth [z0; z1; z2] j = Ok s /\
                    emit OAdd [s; nid] [] o2 = Ok (o3, s') /\ replace_nth_res [z0; z1; z2] j s' = Ok nsh /\ out1 = o3).
    { destruct st as [|pid|]; [| |discriminate].
      - apply bind_ok in HA as (s & Hs & HA). apply bind_ok in HA as ([o3 s'] & Ha & HA).
        apply bind_ok in HA as (ns & Hr & HA). inversion HA; subst. exists 0, s, out1, s'. auto 10.
      - apply bind_ok in HA as (s & Hs & HA). apply bind_ok in HA as ([o3 s'] & Ha & HA).
        apply bind_ok in HA as (ns & Hr & HA). inversion HA; subst. exists pid, s, out1, s'.
        split; [|auto]. apply znth_range in Hs. unfold zlen in Hs. cbn in Hs. lia. }
    destruct Own as (j & s & o3 & s' & Hj & Hs & Ha & Hr & ->).
    pose proof (proj1 (proj1 (emit_grows _ _ _ _ _ _ Ha))) as X3.
    assert (Hnid : znth e2 nid = Ok (L x)) by auto.
    assert (Sh : exists e3 n0 n1 n2 a b c, nsh = [n0; n1; n2] /\ cevals ins0 o3 e3 ins /\ mono e2 e3 /\
                   znth e3 n0 = Ok (L a) /\ znth e3 n1 = Ok (L b) /\ znth e3 n2 = Ok (L c) /\ radd (radd a b) c = x).
    { destruct Hj as [-> | [-> | ->]].
      - change (znth [z0; z1; z2] 0) with (Ok (A:=Z) z0) in Hs. inversion Hs; subst s.
        destruct (c_add _ _ _ _ _ _ _ _ _ _ _ Ha Ev2 Fz0 Hnid) as [Ev3 F3].
        change (replace_nth_res [z0; z1; z2] 0 s') with (Ok (A:=list Z) [s'; z1; z2]) in Hr. inversion Hr; subst nsh.
        do 7 eexists. split; [reflexivity|]. split; [exact Ev3|]. split; [apply mono_snoc|].
        split; [exact F3|]. split; [apply znth_app_l; exact Fz1|]. split; [apply znth_app_l; exact Fz2|]. ring.
      - change (znth [z0; z1; z2] 1) with (Ok (A:=Z) z1) in Hs. inversion Hs; subst s.
        destruct (c_add _ _ _ _ _ _ _ _ _ _ _ Ha Ev2 Fz1 Hnid) as [Ev3 F3].
        change (replace_nth_res [z0; z1; z2] 1 s') with (Ok (A:=list Z) [z0; s'; z2]) in Hr. inversion Hr; subst nsh.
        do 7 eexists. split; [reflexivity|]. split; [exact Ev3|]. split; [apply mono_snoc|].
        split; [apply znth_app_l; exact Fz0|]. split; [exact F3|]. split; [apply znth_app_l; exact Fz2|]. ring.
      - change (znth [z0; z1; z2] 2) with (Ok (A:=Z) z2) in Hs. inversion Hs; subst s.
        destruct (c_add _ _ _ _ _ _ _ _ _ _ _ Ha Ev2 Fz2 Hnid) as [Ev3 F3].
        change (replace_nth_res [z0; z1; z2] 2 s') with (Ok (A:=list Z) [z0; z1; s']) in Hr. inversion Hr; subst nsh.
        do 7 eexists. split; [reflexivity|]. split; [exact Ev3|]. split; [apply mono_snoc|].
        split; [apply znth_app_l; exact Fz0|]. split; [apply znth_app_l; exact Fz1|]. split; [exact F3|]. ring. }
    destruct Sh as (e3 & n0 & n1 & n2 & a & b & c & -> & Ev3 & M3 & Fa & Fb & Fc & Hsum).
    (* networking *)
    apply bind_ok in H as ([o4 outs] & HN & H).
    change (firstn (length [n0; n1; n2]) parties) with [0; 1; 2] in HN. cbn [mapS] in HN.
    change (znth [n0; n1; n2] 0) with (Ok (A:=Z) n0) in HN. change (znth [n0; n1; n2] 1) with (Ok (A:=Z) n1) in HN.
    change (znth [n0; n1; n2] 2) with (Ok (A:=Z) n2) in HN. cbn [bind] in HN.
    apply bind_ok in HN as ([o5 m0] & N0 & HN). apply bind_ok in HN as ([o6' l1] & HN & Hr'). inversion Hr'; subst; clear Hr'.
    apply bind_ok in HN as ([o6 m1] & N1 & HN). apply bind_ok in HN as ([o7' l2] & HN & Hr'). inversion Hr'; subst; clear Hr'.
    apply bind_ok in HN as ([o7 m2] & N2 & HN). inversion HN; subst; clear HN.
    destruct (c_nop _ _ _ _ _ _ _ _ _ N0 Ev3 Fa) as [Ev4 F4].
    destruct (c_nop _ _ _ _ _ _ _ _ _ N1 Ev4 (znth_app_l _ _ _ _ Fb)) as [Ev5 F5].
    destruct (c_nop _ _ _ _ _ _ _ _ _ N2 Ev5 (znth_app_l _ _ _ _ (znth_app_l _ _ _ _ Fc))) as [Ev6 F6].
    assert (Hm : mapM (fun d => znth (((e3 ++ [L a]) ++ [L b]) ++ [L c]) d) [m0; m1; m2] = Ok [L a; L b; L c]).
    { cbn [mapM]. rewrite (znth_app_l _ _ _ _ (znth_app_l _ _ _ _ F4)), (znth_app_l _ _ _ _ F5), F6. reflexivity. }
    destruct (c_ctuple _ _ _ _ _ _ _ _ H Ev6 Hm) as [Ev7 F7].
    destruct (emit_grows _ _ _ _ _ _ N0) as ([Y0 _] & _ & _). destruct (emit_grows _ _ _ _ _ _ N1) as ([Y1 _] & _ & _).
    destruct (emit_grows _ _ _ _ _ _ N2) as ([Y2 _] & _ & _). destruct (emit_grows _ _ _ _ _ _ H) as ([Y3 _] & Hid & Hlen).
    pose proof (ext_trans _ _ _ X1 (ext_trans _ _ _ X2 (ext_trans _ _ _ X3 (ext_trans _ _ _ Y0 (ext_trans _ _ _ Y1 Y2))))) as XA.
    pose proof (ext_trans _ _ _ XA Y3) as X.
    exists ((((e3 ++ [L a]) ++ [L b]) ++ [L c]) ++ [RTup R [L a; L b; L c]]), a, b, c.
    split; [exact Ev7|]. split.
    { intros d v Hd. apply znth_app_l, znth_app_l, znth_app_l, znth_app_l. auto. }
    split; [exact F7|]. split; [first [exact Hsum | reflexivity]|]. split; [exact X|].
    destruct XA as [LX _]. split; lia.
  Qed.
End CtxBase.

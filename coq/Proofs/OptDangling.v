(* C06 / dangling-node removal (Model.Opt.opt_dangling): semantics, inputs, annotations. *)
From CC Require Import Base.Prelude Base.Scalar Base.Ty Base.Shape Graph.Value Graph.IR Graph.Eval
  Model.Opt Model.Uniquify Proofs.OptBase Proofs.OptSem Proofs.OptSim Proofs.OptFresh.

Definition bounded (m : list (option Z)) (n : nat) : Prop :=
  forall k j, nth_error m k = Some (Some j) -> 0 <= j < Z.of_nat n.
Definition inj_map (m : list (option Z)) : Prop :=
  forall k k' j, nth_error m k = Some (Some j) -> nth_error m k' = Some (Some j) -> k = k'.
(* the node list [out] keeps operation, annotations and type of every mapped node of [pre] *)
Definition keeps (pre out : list node) (m : list (option Z)) : Prop :=
  forall k j, nth_error m k = Some (Some j) ->
              exists nd nd', nth_error pre k = Some nd /\ nth_error out (Z.to_nat j) = Some nd' /\
                             n_op nd' = n_op nd /\ n_annots nd' = n_annots nd /\ n_ty nd' = n_ty nd.

Lemma bounded_nil n : bounded [] n.
Proof. intros [|k] j H; discriminate. Qed.
Lemma bounded_mono m n n' : bounded m n -> (n <= n')%nat -> bounded m n'.
Proof. intros H L k j E. apply H in E. lia. Qed.
Lemma bounded_snoc m n x : bounded m n -> (forall j, x = Some j -> 0 <= j < Z.of_nat n) -> bounded (m ++ [x]) n.
Proof. intros H Hx k j E. apply nth_error_snoc_inv in E as [(L & E)|(-> & E)]; eauto. Qed.

Lemma inj_map_ft_first ft nodes m : inj_map m -> ft_first ft nodes m.
Proof. intros H i nd j _ _ E i' L E'. specialize (H _ _ _ E E'). lia. Qed.

Lemma inj_map_snoc_none m : inj_map m -> inj_map (m ++ [None]).
Proof.
  intros H k k' j E E'.
  apply nth_error_snoc_inv in E as [(L & E)|(-> & E)]; [|discriminate].
  apply nth_error_snoc_inv in E' as [(L' & E')|(-> & E')]; [|discriminate]. eauto.
Qed.
Lemma inj_map_snoc_fresh m n : inj_map m -> bounded m n -> inj_map (m ++ [Some (Z.of_nat n)]).
Proof.
  intros H B k k' j E E'.
  apply nth_error_snoc_inv in E as [(L & E)|(-> & E)];
    apply nth_error_snoc_inv in E' as [(L' & E')|(-> & E')]; eauto.
  - injection E' as ->. apply B in E. lia.
  - injection E as ->. apply B in E'. lia.
Qed.

Lemma keeps_nil out : keeps [] out [].
Proof. intros [|k] j H; discriminate. Qed.
Lemma keeps_app pre a out o2 m : keeps pre out m -> keeps (pre ++ a) (out ++ o2) m.
Proof.
  intros H k j E. apply H in E as (nd & nd' & E1 & E2 & E3). exists nd, nd'. repeat split; try tauto.
  - now apply nth_error_app1'.
  - now apply nth_error_app1'.
Qed.
Lemma keeps_snoc pre a out m x : length m = length pre -> keeps (pre ++ [a]) out m ->
  (forall j, x = Some j -> exists nd', nth_error out (Z.to_nat j) = Some nd' /\
                                       n_op nd' = n_op a /\ n_annots nd' = n_annots a /\ n_ty nd' = n_ty a) ->
  keeps (pre ++ [a]) out (m ++ [x]).
Proof.
  intros L H Hx k j E. apply nth_error_snoc_inv in E as [(Lk & E)|(-> & E)]; auto.
  destruct (Hx j (eq_sym E)) as (nd' & E1 & E2). exists a, nd'. rewrite L, nth_error_snoc. tauto.
Qed.

Ltac splits := repeat match goal with |- _ /\ _ => split end.

(* ------------------------------------------------------------------ the pass as a named step *)
Definition dstate := (list node * list (option Z) * option Z * Z)%type.
Definition dangling_step (useful : list bool) (outp : Z) (acc : result dstate) (nd : node) : result dstate :=
  let* (out, m, o, i) := acc in
  if negb (is_input (n_op nd)) && negb (nth (Z.to_nat i) useful false)
  then Ok (out, m ++ [None], o, i + 1) else
  let* deps := mapM (map_get m) (n_deps nd) in
  if negb (match n_gdeps nd with [] => true | _ => false end) then Err else
  let '(out', j) := emit out (mkNode (n_op nd) deps [] (n_annots nd) (n_ty nd)) in
  Ok (out', m ++ [Some j], (if i =? outp then Some j else o), i + 1).

Lemma opt_dangling_unfold nodes outp :
  opt_dangling nodes (Some outp) =
  let* (out, m, o, _) := fold_left (dangling_step (useful_set nodes outp) outp) nodes (Ok ([], [], None, 0)) in
  Ok (mkPassOut out m o).
Proof. reflexivity. Qed.

Lemma dangling_step_strict u outp r a s' : dangling_step u outp r a = Ok s' -> exists s, r = Ok s.
Proof. destruct r; cbn; intros; try discriminate; eauto. Qed.

Lemma dangling_step_inv u outp out m o i nd out' m' o' i' :
  dangling_step u outp (Ok (out, m, o, i)) nd = Ok (out', m', o', i') ->
  i' = i + 1 /\
  ((is_input (n_op nd) = false /\ nth (Z.to_nat i) u false = false /\ out' = out /\ m' = m ++ [None] /\ o' = o)
   \/ (exists deps, mapM (map_get m) (n_deps nd) = Ok deps /\
                    (is_input (n_op nd) = true \/ nth (Z.to_nat i) u false = true) /\
                    out' = out ++ [mkNode (n_op nd) deps [] (n_annots nd) (n_ty nd)] /\
                    m' = m ++ [Some (Z.of_nat (length out))] /\
                    o' = if i =? outp then Some (Z.of_nat (length out)) else o)).
Proof.
  unfold dangling_step. cbn [bind].
  destruct (negb (is_input (n_op nd)) && negb (nth (Z.to_nat i) u false)) eqn:C.
  - intros H; injection H as <- <- <- <-. split; auto. left.
    apply andb_true_iff in C as (C1 & C2). apply negb_true_iff in C1, C2. tauto.
  - intros H. apply bind_ok in H as (deps & E & H).
    destruct (negb match n_gdeps nd with [] => true | _ :: _ => false end); [discriminate|].
    cbn in H. injection H as <- <- <- <-. split; auto. right. exists deps. repeat split; auto.
    apply andb_false_iff in C as [C|C]; apply negb_false_iff in C; auto.
Qed.

Section Dangling.
  Variable sem : op -> list ty -> ty -> list value -> result value.
  Variable ft : op -> bool.
  Variables (nodes : list node) (outp : Z) (u : list bool).

  Definition dang_struct (pre : list node) (s : dstate) : Prop :=
    let '(out, m, o, i) := s in
    i = Z.of_nat (length pre) /\ length m = length pre /\
    bounded m (length out) /\ inj_map m /\ keeps pre out m /\
    input_sigs out = input_sigs pre /\
    o = (if (0 <=? outp) && (outp <? Z.of_nat (length pre))
         then match nth_error m (Z.to_nat outp) with Some x => x | None => None end else None) /\
    (forall k, (k < length pre)%nat -> nth k u false = true -> exists j, nth_error m k = Some (Some j)).

  Lemma dang_struct_inv sN :
    fold_left (dangling_step u outp) nodes (Ok ([], [], None, 0)) = Ok sN -> dang_struct nodes sN.
  Proof.
    apply (fold_res_inv (dangling_step u outp) dang_struct).
    - apply dangling_step_strict.
    - cbn. splits; auto using bounded_nil, keeps_nil.
      + intros [|k] k' j H; discriminate.
      + destruct ((0 <=? outp) && (outp <? 0)) eqn:E; auto; lia.
      + intros k L; cbn in L; lia.
    - intros pre a post [[[out m] o] i] [[[out' m'] o'] i'] El (I1 & I2 & I3 & I4 & I5 & I6 & I7 & I8) St.
      apply dangling_step_inv in St as (-> & [(C & Cu & -> & -> & ->)|(deps & Ed & Cu & -> & -> & ->)]); cbn [dang_struct].
      + rewrite !app_length; cbn [length]. splits.
        * lia.
        * lia.
        * apply bounded_snoc; auto. discriminate.
        * now apply inj_map_snoc_none.
        * apply keeps_snoc; auto; [|discriminate]. rewrite <- (app_nil_r out). now apply keeps_app.
        * rewrite input_sigs_app, I6. unfold input_sigs at 3. cbn [filter]. rewrite C. cbn. now rewrite app_nil_r.
        * rewrite I7. destruct (0 <=? outp) eqn:O0; cbn [andb]; auto.
          destruct (outp <? Z.of_nat (length pre)) eqn:O1.
          -- replace (outp <? Z.of_nat (length pre + 1)) with true by lia.
             rewrite nth_error_app1 by lia. reflexivity.
          -- destruct (outp <? Z.of_nat (length pre + 1)) eqn:O2; auto.
             assert (Z.to_nat outp = length m) as -> by lia. now rewrite nth_error_snoc.
        * intros k L Hk. assert (k < length pre \/ k = length pre)%nat as [L'| ->] by lia.
          -- destruct (I8 k L' Hk) as (j & Ej). exists j. now apply nth_error_app1'.
          -- subst i. rewrite Nat2Z.id in Cu. congruence.
      + rewrite !app_length; cbn [length]. splits.
        * lia.
        * lia.
        * apply bounded_snoc; [eapply bounded_mono; eauto; lia|]. intros j E; injection E as <-. lia.
        * now apply inj_map_snoc_fresh.
        * apply keeps_snoc; auto; [now apply keeps_app|]. intros j E; injection E as <-.
          rewrite Nat2Z.id, nth_error_snoc. eexists; split; eauto.
        * rewrite !input_sigs_app, I6. f_equal. unfold input_sigs. cbn [filter n_op].
          destruct (is_input (n_op a)); reflexivity.
        * rewrite I7; clear I7. subst i. destruct (0 <=? outp) eqn:O0; cbn [andb].
          -- destruct (outp <? Z.of_nat (length pre)) eqn:O1.
             ++ replace (Z.of_nat (length pre) =? outp) with false by lia.
                replace (outp <? Z.of_nat (length pre + 1)) with true by lia.
                rewrite nth_error_app1 by lia. reflexivity.
             ++ destruct (Z.of_nat (length pre) =? outp) eqn:O2.
                ** replace (outp <? Z.of_nat (length pre + 1)) with true by lia.
                   assert (Z.to_nat outp = length m) as -> by lia. now rewrite nth_error_snoc.
                ** replace (outp <? Z.of_nat (length pre + 1)) with false by lia. reflexivity.
          -- replace (Z.of_nat (length pre) =? outp) with false by lia. reflexivity.
        * intros k L Hk. assert (k < length pre \/ k = length pre)%nat as [L'| ->] by lia.
          -- destruct (I8 k L' Hk) as (j & Ej). exists j. now apply nth_error_app1'.
          -- rewrite <- I2, nth_error_snoc. eauto.
  Qed.

  Definition dang_fresh (pre : list node) (s : dstate) : Prop :=
    let '(out, m, o, i) := s in length m = length pre /\ fresh_spec pre out m.

  Lemma dang_fresh_inv sN :
    fold_left (dangling_step u outp) nodes (Ok ([], [], None, 0)) = Ok sN -> dang_fresh nodes sN.
  Proof.
    apply (fold_res_inv (dangling_step u outp) dang_fresh).
    - apply dangling_step_strict.
    - cbn. split; auto. apply fresh_spec_nil.
    - intros pre a post [[[out m] o] i] [[[out' m'] o'] i'] El (I1 & I2) St.
      apply dangling_step_inv in St as (-> & [(C & _ & -> & -> & ->)|(deps & Ed & _ & -> & -> & ->)]); cbn [dang_fresh];
        rewrite !app_length; cbn [length]; (split; [lia|]).
      + rewrite <- (app_nil_r out). apply fresh_spec_step_other; auto.
      + apply fresh_spec_step_copy; auto.
  Qed.

  Variables (tape : Z -> option value) (vals : list value).
  Hypothesis Hval : valuation sem ft nodes tape vals.

  Definition dang_sem (pre : list node) (s : dstate) : Prop :=
    let '(out, m, o, i) := s in
    length m = length pre /\
    forall tape', tape_compat ft nodes m tape tape' ->
                  exists vals', valuation sem ft out tape' vals' /\ sim nodes out vals vals' m.

  Lemma dang_sem_inv sN :
    fold_left (dangling_step u outp) nodes (Ok ([], [], None, 0)) = Ok sN -> dang_sem nodes sN.
  Proof.
    apply (fold_res_inv (dangling_step u outp) dang_sem).
    - apply dangling_step_strict.
    - cbn. split; auto. intros tape' _. exists []. split; [apply valuation_nil|apply sim_nil].
    - intros pre a post [[[out m] o] i] [[[out' m'] o'] i'] El (I1 & I2) St.
      apply dangling_step_inv in St as (-> & [(C & _ & -> & -> & ->)|(deps & Ed & _ & -> & -> & ->)]); cbn [dang_sem].
      + rewrite !app_length; cbn [length]. split; [lia|]. intros tape' Tc.
        destruct (I2 tape' (tape_compat_prefix _ _ _ _ _ _ Tc)) as (vals' & V & S).
        exists vals'. split; auto. apply sim_snoc; auto. discriminate.
      + rewrite !app_length; cbn [length]. split; [lia|]. intros tape' Tc.
        destruct (I2 tape' (tape_compat_prefix _ _ _ _ _ _ Tc)) as (vals' & V & S).
        assert (Ea : nth_error nodes (length pre) = Some a).
        { rewrite El, nth_error_app2, Nat.sub_diag by lia. reflexivity. }
        destruct Hval as (Lv & Hv).
        destruct (nth_error vals (length pre)) as [v|] eqn:Ev.
        2:{ apply nth_error_None in Ev. apply nth_error_Some_lt in Ea. lia. }
        specialize (Hv _ _ _ Ea Ev).
        exists (vals' ++ [v]). split.
        * apply valuation_snoc; auto. destruct V as (Lv' & _).
          eapply copy_node_sem; eauto.
          intros F. rewrite (Tc (length pre) a (Z.of_nat (length out)) Ea F); auto.
          rewrite <- I1. apply nth_error_snoc.
        * apply sim_snoc; [now apply sim_app|]. intros j E; injection E as <-.
          rewrite I1. destruct V as (Lv' & _). split; [lia|]. split.
          -- exists v. split; auto. rewrite Nat2Z.id, <- Lv'. apply nth_error_snoc.
          -- exists a. eexists. split; auto. rewrite Nat2Z.id. split; [apply nth_error_snoc|reflexivity].
  Qed.
End Dangling.

(* ------------------------------------------------------------------ theorems *)
Section DanglingThms.
  Variable sem : op -> list ty -> ty -> list value -> result value.
  Variable ft : op -> bool.

  Theorem dangling_sem nodes outp p tape vals :
    opt_dangling nodes (Some outp) = Ok p ->
    valuation sem ft nodes tape vals ->
    forall tape', tape_compat ft nodes (po_map p) tape tape' ->
      exists vals', valuation sem ft (po_nodes p) tape' vals' /\ sim nodes (po_nodes p) vals vals' (po_map p).
  Proof.
    rewrite opt_dangling_unfold. intros H V. apply bind_ok in H as ([[[out m] o] i] & E & H). injection H as <-.
    cbn [po_nodes po_map]. apply (dang_sem_inv sem ft nodes outp _ tape vals V) in E. apply E.
  Qed.

  Theorem dangling_struct nodes outp p :
    opt_dangling nodes (Some outp) = Ok p ->
    length (po_map p) = length nodes /\
    bounded (po_map p) (length (po_nodes p)) /\ inj_map (po_map p) /\
    keeps nodes (po_nodes p) (po_map p) /\
    input_sigs (po_nodes p) = input_sigs nodes /\
    (0 <= outp < Z.of_nat (length nodes) -> nth_error (po_map p) (Z.to_nat outp) = Some (po_output p)).
  Proof.
    rewrite opt_dangling_unfold. intros H. apply bind_ok in H as ([[[out m] o] i] & E & H). injection H as <-.
    cbn [po_nodes po_map po_output]. apply dang_struct_inv in E as (I1 & I2 & I3 & I4 & I5 & I6 & I7 & _).
    splits; auto. intros R. rewrite I7.
    replace ((0 <=? outp) && (outp <? Z.of_nat (length nodes))) with true by lia.
    destruct (nth_error m (Z.to_nat outp)) eqn:X; auto. apply nth_error_None in X. lia.
  Qed.

  Theorem dangling_fresh nodes outp p :
    opt_dangling nodes (Some outp) = Ok p -> fresh_spec nodes (po_nodes p) (po_map p).
  Proof.
    rewrite opt_dangling_unfold. intros H. apply bind_ok in H as ([[[out m] o] i] & E & H). injection H as <-.
    apply dang_fresh_inv in E. apply E.
  Qed.

  Theorem dangling_transport nodes outp p tape :
    opt_dangling nodes (Some outp) = Ok p -> tape_compat ft nodes (po_map p) tape (transport (po_map p) tape).
  Proof.
    intros H. apply dangling_struct in H as (_ & _ & I & _). apply transport_compat. now apply inj_map_ft_first.
  Qed.
End DanglingThms.

(* ------------------------------------------------------------------ the output node is useful *)
Lemma upd_nat_keeps_true (l : list bool) : forall i l' k,
  upd_nat l i true = Ok l' -> nth k l false = true -> nth k l' false = true.
Proof.
  induction l as [|x l IH]; intros [|i] l' k H E; cbn in H; try discriminate.
  - injection H as <-. destruct k; auto.
  - apply bind_ok in H as (r & Er & H). injection H as <-. destruct k; cbn in *; auto. eapply IH; eauto.
Qed.

Lemma mark_deps_keeps_true deps : forall (u : list bool) k,
  nth k u false = true ->
  nth k (fold_left (fun u d => match upd u d true with Ok u' => u' | _ => u end) deps u) false = true.
Proof.
  induction deps as [|d deps IH]; intros u k E; cbn [fold_left]; auto.
  apply IH. destruct (upd u d true) as [u'| | |] eqn:U; auto.
  unfold upd in U. destruct (d <? 0); [discriminate|]. eapply upd_nat_keeps_true; eauto.
Qed.

Lemma useful_set_output nodes outp :
  0 <= outp < Z.of_nat (length nodes) -> nth (Z.to_nat outp) (useful_set nodes outp) false = true.
Proof.
  intros R. unfold useful_set.
  set (init := map (fun i => Z.of_nat i =? outp) (seq 0 (length nodes))).
  assert (E0 : nth (Z.to_nat outp) init false = true).
  { unfold init. apply nth_error_nth. rewrite nth_error_map.
    rewrite (nth_error_nth' _ O) by (rewrite seq_length; lia). rewrite seq_nth by lia. cbn. f_equal. lia. }
  generalize (rev (combine (seq 0 (length nodes)) nodes)). intros l. revert E0. generalize init.
  induction l as [|[i nd] l IH]; intros u E; cbn [fold_left]; auto.
  apply IH. destruct (nth i u false); auto. now apply mark_deps_keeps_true.
Qed.

Theorem dangling_output_kept nodes outp p :
  opt_dangling nodes (Some outp) = Ok p -> 0 <= outp < Z.of_nat (length nodes) ->
  exists j, po_output p = Some j /\ nth_error (po_map p) (Z.to_nat outp) = Some (Some j).
Proof.
  rewrite opt_dangling_unfold. intros H R. apply bind_ok in H as ([[[out m] o] i] & E & H). injection H as <-.
  cbn [po_map po_output]. apply dang_struct_inv in E as (I1 & I2 & I3 & I4 & I5 & I6 & I7 & I8).
  destruct (I8 (Z.to_nat outp)) as (j & Ej); [lia|now apply useful_set_output|].
  exists j. split; auto. rewrite I7, Ej.
  replace ((0 <=? outp) && (outp <? Z.of_nat (length nodes))) with true by lia. reflexivity.
Qed.

(* Proofs about Model/Prefix.v (C07): every strategy computes, for every list length and every
   associative operation, the left-to-right prefix sums (resp. the total), and never panics or
   runs out of fuel. *)
From CC Require Import Base.Prelude Model.Prefix.
Local Open Scope nat_scope.

(* ------------------------------------------------------------------ arrays and loops *)
Lemma arr_get_ok {A} (l : list A) i d : i < length l -> arr_get l i = Ok (nth i l d).
Proof. intros H. unfold arr_get. rewrite (nth_error_nth' l d H). reflexivity. Qed.

Lemma set_nth_length {A} (l : list A) i x : length (set_nth l i x) = length l.
Proof. revert i; induction l as [|y l IH]; intros [|i]; cbn [set_nth length]; auto. Qed.

Lemma set_nth_nth {A} (l : list A) i x j d :
  i < length l -> nth j (set_nth l i x) d = if j =? i then x else nth j l d.
Proof.
  revert i j; induction l as [|y l IH]; intros i j H; cbn [length] in H; [lia|].
  destruct i as [|i], j as [|j]; cbn [set_nth nth Nat.eqb]; auto.
  apply IH. lia.
Qed.

Lemma arr_set_ok {A} (l : list A) i x : i < length l -> arr_set l i x = Ok (set_nth l i x).
Proof. intros H. unfold arr_set. apply Nat.ltb_lt in H. now rewrite H. Qed.

Lemma foldM_app {A B} (f : A -> B -> result A) l1 l2 a :
  foldM f (l1 ++ l2) a = (let* a' := foldM f l1 a in foldM f l2 a').
Proof.
  revert a; induction l1 as [|b l1 IH]; intros a; cbn [foldM app bind]; auto.
  destruct (f a b); cbn [bind]; auto.
Qed.

(* loop invariant rule: [Inv k a] after k steps *)
Lemma foldM_inv {A B} (f : A -> B -> result A) (Inv : nat -> A -> Prop) (l : list B) a0 :
  Inv 0 a0 ->
  (forall k a b, nth_error l k = Some b -> Inv k a -> exists a', f a b = Ok a' /\ Inv (S k) a') ->
  exists a', foldM f l a0 = Ok a' /\ Inv (length l) a'.
Proof.
  revert Inv a0. induction l as [|b l IH]; intros Inv a0 H0 Hstep.
  - exists a0. split; auto.
  - destruct (Hstep 0 a0 b eq_refl H0) as (a1 & E1 & I1).
    destruct (IH (fun k a => Inv (S k) a) a1 I1) as (a' & E & I).
    { intros k a b' Hk Ik. apply (Hstep (S k) a b' Hk Ik). }
    exists a'. cbn [foldM]. rewrite E1. cbn [bind]. split; auto.
Qed.

Lemma nth_error_seq a m k b : nth_error (seq a m) k = Some b -> b = a + k /\ k < m.
Proof.
  intros H. assert (L : k < length (seq a m)) by (apply nth_error_Some; congruence).
  rewrite seq_length in L. split; auto.
  rewrite (nth_error_nth' _ 0) in H by (rewrite seq_length; auto).
  rewrite seq_nth in H by auto. congruence.
Qed.

Lemma nth_error_rev_seq a m k b : nth_error (rev (seq a m)) k = Some b -> b = a + (m - 1 - k) /\ k < m.
Proof.
  intros H. assert (L : k < length (rev (seq a m))) by (apply nth_error_Some; congruence).
  rewrite rev_length, seq_length in L. split; auto.
  rewrite (nth_error_nth' _ 0) in H by (rewrite rev_length, seq_length; auto).
  rewrite rev_nth in H by (rewrite seq_length; auto).
  rewrite seq_length, seq_nth in H by lia. injection H as <-. lia.
Qed.

Lemma firstn_snoc {A} (l : list A) j d0 : j < length l -> firstn (S j) l = firstn j l ++ [nth j l d0].
Proof.
  revert j; induction l as [|x l IH]; intros j H; cbn [length] in H; [lia|].
  destruct j; [reflexivity|]. cbn [firstn nth app]. f_equal. apply IH. lia.
Qed.

Lemma firstn_nonnil {A} (l : list A) j : 1 <= j -> l <> [] -> firstn j l <> [].
Proof. destruct l, j; try lia; try congruence; intros; discriminate. Qed.

(* ------------------------------------------------------------------ isqrt *)
Lemma isqrt_spec n : isqrt n * isqrt n <= n < (isqrt n + 1) * (isqrt n + 1).
Proof.
  unfold isqrt. pose proof (N.sqrt_spec (N.of_nat n) (N.le_0_l _)) as H.
  cbv zeta in H. set (s := N.sqrt (N.of_nat n)) in *. lia.
Qed.

Lemma sqrt_block_size_pos n : 1 <= sqrt_block_size n.
Proof. unfold sqrt_block_size. lia. Qed.

Lemma sqrt_block_size_spec n : 1 <= n ->
  sqrt_block_size n * sqrt_block_size n <= n < (sqrt_block_size n + 1) * (sqrt_block_size n + 1).
Proof.
  intros Hn. unfold sqrt_block_size. pose proof (isqrt_spec n) as H.
  destruct (isqrt n) as [|s] eqn:E.
  - cbn in *. lia.
  - replace (Nat.max 1 (S s)) with (S s) by lia. exact H.
Qed.

(* ------------------------------------------------------------------ sums *)
Section Sums.
  Context {T : Type} (op : T -> T -> T).
  Hypothesis op_assoc : forall a b c, op (op a b) c = op a (op b c).
  Context (d : T).

  (* the specification: left-to-right combination of a non-empty list *)
  Definition fold1 (l : list T) : option T :=
    match l with [] => None | x :: r => Some (fold_left op r x) end.
  Definition sum1 (l : list T) : T :=
    match l with [] => d | x :: r => fold_left op r x end.

  Lemma fold1_sum1 l : l <> [] -> fold1 l = Some (sum1 l).
  Proof. destruct l; [intros H; now elim H|reflexivity]. Qed.

  Lemma fold_left_assoc l a b : fold_left op l (op a b) = op a (fold_left op l b).
  Proof.
    revert b; induction l as [|x l IH]; intros b; cbn [fold_left]; auto.
    rewrite op_assoc. apply IH.
  Qed.

  Lemma sum1_app l1 l2 : l1 <> [] -> l2 <> [] -> sum1 (l1 ++ l2) = op (sum1 l1) (sum1 l2).
  Proof.
    destruct l1 as [|x r]; [congruence|]. destruct l2 as [|y s]; [congruence|]. intros _ _.
    cbn [sum1 app]. rewrite fold_left_app. cbn [fold_left]. apply fold_left_assoc.
  Qed.

  Lemma sum1_single x : sum1 [x] = x.
  Proof. reflexivity. Qed.

  (* ---------------------------------------------------------------- halving round *)
  Lemma list_ind2 (P : list T -> Prop) :
    P [] -> (forall x, P [x]) -> (forall x y r, P r -> P (x :: y :: r)) -> forall l, P l.
  Proof.
    intros H0 H1 H2 l. enough (P l /\ forall x, P (x :: l)) by tauto.
    induction l as [|y l [IHa IHb]]; split; auto.
  Qed.

  Lemma pair_up_fold l a : fold_left op (pair_up op l) a = fold_left op l a.
  Proof.
    revert a. induction l as [|x|x y r IH] using list_ind2; intros a; cbn [pair_up fold_left]; auto.
    rewrite IH, op_assoc. reflexivity.
  Qed.

  Lemma pair_up_sum1 l : sum1 (pair_up op l) = sum1 l.
  Proof.
    destruct l as [|x [|y r]]; cbn [pair_up sum1 fold_left]; auto. apply pair_up_fold.
  Qed.

  Lemma pair_up_length l : length (pair_up op l) = (length l + 1) / 2.
  Proof.
    induction l as [|x|x y r IH] using list_ind2; cbn [pair_up length]; auto.
    rewrite IH. replace (S (S (length r)) + 1) with ((length r + 1) + 1 * 2) by lia.
    rewrite Nat.div_add by lia. lia.
  Qed.

  Lemma pair_up_nil l : pair_up op l = [] -> l = [].
  Proof. destruct l as [|x [|y r]]; cbn [pair_up]; congruence. Qed.

  Lemma pair_up_firstn l : forall k, firstn k (pair_up op l) = pair_up op (firstn (2 * k) l).
  Proof.
    induction l as [|x|x y r IH] using list_ind2; intros [|k];
      try replace (2 * S k) with (S (S (2 * k))) by lia; try reflexivity.
    - cbn [pair_up firstn]. now rewrite !firstn_nil.
    - cbn [pair_up firstn]. now rewrite IH.
  Qed.

  (* ---------------------------------------------------------------- log_depth_sum *)
  Lemma lds_loop_spec fuel : forall l, l <> [] -> length l <= S fuel ->
    lds_loop op fuel l = Ok (sum1 l).
  Proof.
    induction fuel as [|fuel IH]; intros l Hne Hlen.
    - destruct l as [|x [|y r]]; cbn [length] in *; try congruence; try lia. reflexivity.
    - destruct l as [|x [|y r]] eqn:El; try congruence; [destruct fuel; reflexivity|].
      rewrite <- El in *.
      assert (L2 : 2 <= length l) by (subst l; cbn [length]; lia).
      replace (lds_loop op (S fuel) l) with (lds_loop op fuel (pair_up op l)).
      2:{ cbn [lds_loop]. destruct (length l <=? 1) eqn:E; [apply Nat.leb_le in E; lia|reflexivity]. }
      rewrite IH.
      + now rewrite pair_up_sum1.
      + intros E. apply pair_up_nil in E. congruence.
      + rewrite pair_up_length. lia.
  Qed.

  Theorem log_depth_sum_spec items :
    log_depth_sum op items = match fold1 items with Some s => Ok s | None => Err end.
  Proof.
    destruct items as [|x r] eqn:E; [reflexivity|]. rewrite <- E.
    assert (Hne : items <> []) by (subst; discriminate).
    replace (log_depth_sum op items) with (lds_loop op (length items) items) by (subst; reflexivity).
    rewrite lds_loop_spec by (auto; lia). now rewrite (fold1_sum1 _ Hne).
  Qed.

  (* ---------------------------------------------------------------- segments of the input *)
  Section Segments.
    Context (xs : list T).
    Let n := length xs.
    (* sum of xs[a..b) *)
    Definition seg (a b : nat) : T := sum1 (firstn (b - a) (skipn a xs)).

    Lemma seg_single i : i < n -> seg i (i + 1) = nth i xs d.
    Proof.
      intros H. unfold seg. replace (i + 1 - i) with 1 by lia.
      rewrite <- (firstn_skipn i xs) at 2. rewrite app_nth2; rewrite firstn_length; [|lia].
      replace (i - Nat.min i (length xs)) with 0 by (fold n; lia).
      assert (L : length (skipn i xs) = n - i) by apply skipn_length.
      destruct (skipn i xs) as [|y r]; [cbn [length] in L; lia|reflexivity].
    Qed.

    Lemma firstn_add {A} (l : list A) m k : firstn (m + k) l = firstn m l ++ firstn k (skipn m l).
    Proof.
      revert l; induction m as [|m IH]; intros l; [reflexivity|].
      destruct l as [|x l]; cbn [Nat.add firstn skipn app]; [now rewrite firstn_nil|].
      now rewrite IH.
    Qed.

    Lemma skipn_skipn {A} (l : list A) a b : skipn b (skipn a l) = skipn (a + b) l.
    Proof.
      revert l; induction a as [|a IH]; intros l; [reflexivity|].
      destruct l as [|x l]; cbn [Nat.add skipn]; [now rewrite skipn_nil|]. apply IH.
    Qed.

    Lemma seg_split a b c : a < b -> b < c -> c <= n -> op (seg a b) (seg b c) = seg a c.
    Proof.
      intros Hab Hbc Hc. unfold seg.
      replace (c - a) with ((b - a) + (c - b)) by lia.
      rewrite firstn_add, skipn_skipn. replace (a + (b - a)) with b by lia.
      rewrite sum1_app; auto.
      - intros E. apply (f_equal (@length T)) in E. rewrite firstn_length, skipn_length in E.
        cbn [length] in E. fold n in E. lia.
      - intros E. apply (f_equal (@length T)) in E. rewrite firstn_length, skipn_length in E.
        cbn [length] in E. fold n in E. lia.
    Qed.

    Lemma seg_prefix i : seg 0 (i + 1) = sum1 (firstn (S i) xs).
    Proof. unfold seg. cbn [skipn]. now rewrite Nat.sub_0_r, Nat.add_1_r. Qed.

    (* the specification of a prefix-sum result *)
    Definition is_prefix_sums (ys : list T) : Prop :=
      length ys = n /\ forall i, i < n -> nth i ys d = seg 0 (i + 1).

    (* -------------------------------------------------------------- binary ascent *)
    Lemma ascent_pass_spec depth c :
      1 <= depth -> length c = n ->
      exists c', ascent_pass op depth c = Ok c' /\ length c' = n /\
                 forall j, j < n -> nth j c' d =
                   if depth <=? j then op (nth (j - depth) c d) (nth j c d) else nth j c d.
    Proof.
      intros Hd Hc. unfold ascent_pass. rewrite Hc.
      set (new := fun j => if depth <=? j then op (nth (j - depth) c d) (nth j c d) else nth j c d).
      destruct (foldM_inv (ascent_step op depth)
                  (fun k c' => length c' = n /\
                     forall j, j < n -> nth j c' d = if n - k <=? j then new j else nth j c d)
                  (rev (seq depth (n - depth))) c) as (c' & E & L & I).
      - split; auto. intros j Hj. destruct (n - 0 <=? j) eqn:E; auto. apply Nat.leb_le in E. lia.
      - intros k a i Hi [La Ia]. apply nth_error_rev_seq in Hi as [-> Hk].
        set (i := depth + (n - depth - 1 - k)).
        assert (Hi : i < n) by (unfold i; lia). assert (Hid : depth <= i) by (unfold i; lia).
        unfold ascent_step.
        rewrite (arr_get_ok a (i - depth) d) by lia. rewrite (arr_get_ok a i d) by lia.
        cbn [bind]. rewrite arr_set_ok by lia. eexists. split; [reflexivity|].
        split; [now rewrite set_nth_length|].
        intros j Hj. rewrite set_nth_nth by lia.
        destruct (j =? i) eqn:Eji.
        + apply Nat.eqb_eq in Eji. subst j.
          replace (n - S k <=? i) with true by (symmetry; apply Nat.leb_le; unfold i; lia).
          rewrite (Ia (i - depth)), (Ia i) by lia.
          replace (n - k <=? i - depth) with false by (symmetry; apply Nat.leb_gt; unfold i; lia).
          replace (n - k <=? i) with false by (symmetry; apply Nat.leb_gt; unfold i; lia).
          unfold new. now replace (depth <=? i) with true by (symmetry; apply Nat.leb_le; lia).
        + apply Nat.eqb_neq in Eji. rewrite Ia by auto.
          destruct (n - k <=? j) eqn:E1, (n - S k <=? j) eqn:E2; auto;
            apply Nat.leb_le in E1 || apply Nat.leb_gt in E1;
            apply Nat.leb_le in E2 || apply Nat.leb_gt in E2; unfold i in *; lia.
      - exists c'. split; [exact E|]. split; [exact L|].
        intros j Hj. rewrite I by auto. rewrite rev_length, seq_length.
        unfold new. destruct (depth <=? j) eqn:E1.
        + apply Nat.leb_le in E1.
          now replace (n - (n - depth) <=? j) with true by (symmetry; apply Nat.leb_le; lia).
        + destruct (n - (n - depth) <=? j); reflexivity.
    Qed.

    (* data_structures.rs:49 "Invariant: combined_items[i] = sum(items[max(i - depth + 1, 0) : i + 1])" *)
    Definition ascent_inv (depth : nat) (c : list T) : Prop :=
      length c = n /\ forall j, j < n -> nth j c d = seg (j + 1 - Nat.min depth (j + 1)) (j + 1).

    Lemma ascent_loop_spec fuel : forall depth c,
      1 <= depth -> n - depth <= fuel -> ascent_inv depth c ->
      exists c', ascent_loop op fuel depth c = Ok c' /\ is_prefix_sums c'.
    Proof.
      induction fuel as [|fuel IH]; intros depth c Hd Hf [Lc Ic].
      - exists c. replace (ascent_loop op 0 depth c) with (Ok c).
        2:{ cbn [ascent_loop]. rewrite Lc. now replace (depth <? n) with false by (symmetry; apply Nat.ltb_ge; lia). }
        split; [reflexivity|]. split; auto. intros j Hj. rewrite Ic by auto. f_equal. lia.
      - cbn [ascent_loop]. rewrite Lc. destruct (depth <? n) eqn:E.
        + apply Nat.ltb_lt in E.
          destruct (ascent_pass_spec depth c Hd Lc) as (c1 & E1 & L1 & I1).
          rewrite E1. cbn [bind]. apply IH; [lia|lia|]. split; auto.
          intros j Hj. rewrite I1 by auto. destruct (depth <=? j) eqn:Edj.
          * apply Nat.leb_le in Edj. rewrite (Ic (j - depth)), (Ic j) by lia.
            replace (j + 1 - Nat.min depth (j + 1)) with (j - depth + 1) by lia.
            replace (j + 1 - Nat.min (depth * 2) (j + 1))
              with (j - depth + 1 - Nat.min depth (j - depth + 1)) by lia.
            apply seg_split; lia.
          * apply Nat.leb_gt in Edj. rewrite Ic by auto. f_equal. lia.
        + apply Nat.ltb_ge in E. exists c. split; [reflexivity|]. split; auto.
          intros j Hj. rewrite Ic by auto. f_equal. lia.
    Qed.

    Lemma ascent_inv_init : ascent_inv 1 xs.
    Proof.
      split; [reflexivity|]. intros j Hj. replace (j + 1 - Nat.min 1 (j + 1)) with j by lia.
      symmetry. now apply seg_single.
    Qed.

    Lemma binary_ascent_ok : xs <> [] ->
      exists ys, prefix_sums_binary_ascent op xs = Ok ys /\ is_prefix_sums ys.
    Proof.
      intros Hne.
      replace (prefix_sums_binary_ascent op xs) with (ascent_loop op (length xs) 1 xs)
        by (destruct xs; [congruence|reflexivity]).
      apply ascent_loop_spec; [lia|fold n; lia|apply ascent_inv_init].
    Qed.

    (* -------------------------------------------------------------- sqrt trick *)
    Lemma mod_pred k bs : 1 <= bs -> k mod bs <> 0 -> (k - 1) mod bs = k mod bs - 1.
    Proof.
      intros Hb Hk. symmetry. apply Nat.mod_unique with (q := k / bs).
      - pose proof (Nat.mod_upper_bound k bs). lia.
      - pose proof (Nat.div_mod_eq k bs) as E.
        set (q := k / bs) in *. set (r := k mod bs) in *. clearbody q r.
        set (m := bs * q) in *. clearbody m. lia.
    Qed.

    Lemma block_start_ge i bs : 1 <= bs -> bs <= i -> bs <= i - i mod bs.
    Proof.
      intros Hb Hi. pose proof (Nat.div_mod_eq i bs) as E.
      assert (Hq : 1 <= i / bs) by (apply Nat.div_le_lower_bound; lia).
      set (q := i / bs) in *. set (r := i mod bs) in *. clearbody q r.
      replace (i - r) with (bs * q) by lia. nia.
    Qed.

    (* data_structures.rs:74 "Invariant: combined_items[i] = sum(items[i - i % block_size : i + 1])" *)
    Lemma sqrt_pass1_spec bs : 1 <= bs ->
      exists c, foldM (sqrt_step1 op bs) (seq 0 n) xs = Ok c /\ length c = n /\
                forall j, j < n -> nth j c d = seg (j - j mod bs) (j + 1).
    Proof.
      intros Hb.
      destruct (foldM_inv (sqrt_step1 op bs)
                  (fun k c => length c = n /\
                     forall j, j < n -> nth j c d = if j <? k then seg (j - j mod bs) (j + 1) else nth j xs d)
                  (seq 0 n) xs) as (c & E & L & I).
      - split; auto.
      - intros k a i Hi [La Ia]. apply nth_error_seq in Hi as [-> Hk]. cbn [Nat.add].
        unfold sqrt_step1. destruct (k mod bs =? 0) eqn:Em; cbn [negb].
        + apply Nat.eqb_eq in Em. exists a. split; [reflexivity|]. split; auto.
          intros j Hj. rewrite Ia by auto.
          destruct (j <? k) eqn:E1, (j <? S k) eqn:E2; auto;
            apply Nat.ltb_lt in E1 || apply Nat.ltb_ge in E1;
            apply Nat.ltb_lt in E2 || apply Nat.ltb_ge in E2; try lia.
          assert (j = k) by lia. subst j. rewrite Em, Nat.sub_0_r. symmetry. now apply seg_single.
        + apply Nat.eqb_neq in Em. assert (1 <= k) by (destruct k; [rewrite Nat.mod_0_l in Em; lia|lia]).
          rewrite (arr_get_ok a (k - 1) d) by lia. rewrite (arr_get_ok a k d) by lia.
          cbn [bind]. rewrite arr_set_ok by lia. eexists. split; [reflexivity|].
          split; [now rewrite set_nth_length|].
          intros j Hj. rewrite set_nth_nth by lia. destruct (j =? k) eqn:Ejk.
          * apply Nat.eqb_eq in Ejk. subst j.
            replace (k <? S k) with true by (symmetry; apply Nat.ltb_lt; lia).
            rewrite (Ia (k - 1)), (Ia k) by lia.
            replace (k - 1 <? k) with true by (symmetry; apply Nat.ltb_lt; lia).
            replace (k <? k) with false by (symmetry; apply Nat.ltb_ge; lia).
            rewrite mod_pred by auto. rewrite <- (seg_single k) by auto.
            replace (k - 1 - (k mod bs - 1)) with (k - k mod bs) by lia.
            replace (k - 1 + 1) with k by lia.
            pose proof (Nat.mod_le k bs). apply seg_split; lia.
          * apply Nat.eqb_neq in Ejk. rewrite Ia by auto.
            destruct (j <? k) eqn:E1, (j <? S k) eqn:E2; auto;
              apply Nat.ltb_lt in E1 || apply Nat.ltb_ge in E1;
              apply Nat.ltb_lt in E2 || apply Nat.ltb_ge in E2; lia.
      - exists c. split; [exact E|]. split; [exact L|]. intros j Hj. rewrite I by auto.
        rewrite seq_length. now replace (j <? n) with true by (symmetry; apply Nat.ltb_lt; lia).
    Qed.

    Lemma sqrt_pass2_spec bs c : 1 <= bs -> length c = n ->
      (forall j, j < n -> nth j c d = seg (j - j mod bs) (j + 1)) ->
      exists c', foldM (sqrt_step2 op bs) (seq bs (n - bs)) c = Ok c' /\ is_prefix_sums c'.
    Proof.
      intros Hb Lc Ic.
      destruct (foldM_inv (sqrt_step2 op bs)
                  (fun k c' => length c' = n /\
                     forall j, j < n -> nth j c' d =
                       if j <? bs + k then seg 0 (j + 1) else seg (j - j mod bs) (j + 1))
                  (seq bs (n - bs)) c) as (c' & E & L & I).
      - split; auto. intros j Hj. rewrite Ic by auto. destruct (j <? bs + 0) eqn:E1; auto.
        apply Nat.ltb_lt in E1. rewrite Nat.mod_small by lia. now rewrite Nat.sub_diag.
      - intros k a i Hi [La Ia]. apply nth_error_seq in Hi as [-> Hk].
        set (i := bs + k). assert (Hi : i < n) by (unfold i; lia).
        pose proof (block_start_ge i bs Hb ltac:(unfold i; lia)) as Hs.
        pose proof (Nat.mod_le i bs ltac:(lia)) as Hm.
        unfold sqrt_step2.
        rewrite (arr_get_ok a (i - i mod bs - 1) d) by lia. rewrite (arr_get_ok a i d) by lia.
        cbn [bind]. rewrite arr_set_ok by lia. eexists. split; [reflexivity|].
        split; [now rewrite set_nth_length|].
        intros j Hj. rewrite set_nth_nth by lia. destruct (j =? i) eqn:Eji.
        + apply Nat.eqb_eq in Eji. subst j.
          replace (i <? bs + S k) with true by (symmetry; apply Nat.ltb_lt; unfold i; lia).
          rewrite (Ia (i - i mod bs - 1)), (Ia i) by lia.
          replace (i - i mod bs - 1 <? bs + k) with true by (symmetry; apply Nat.ltb_lt; unfold i in *; lia).
          replace (i <? bs + k) with false by (symmetry; apply Nat.ltb_ge; unfold i; lia).
          replace (i - i mod bs - 1 + 1) with (i - i mod bs) by lia.
          apply seg_split; lia.
        + apply Nat.eqb_neq in Eji. rewrite Ia by auto.
          destruct (j <? bs + k) eqn:E1, (j <? bs + S k) eqn:E2; auto;
            apply Nat.ltb_lt in E1 || apply Nat.ltb_ge in E1;
            apply Nat.ltb_lt in E2 || apply Nat.ltb_ge in E2; unfold i in *; lia.
      - exists c'. split; [exact E|]. split; [exact L|]. intros j Hj. rewrite I by auto.
        rewrite seq_length. destruct (j <? bs + (n - bs)) eqn:E1; auto.
        apply Nat.ltb_ge in E1. lia.
    Qed.

    (* any block size >= 1 gives prefix sums; the code's choice is max(1, floor(sqrt n)) *)
    Lemma prefix_sums_blocks_ok bs : 1 <= bs ->
      exists ys, prefix_sums_blocks op bs xs = Ok ys /\ is_prefix_sums ys.
    Proof.
      intros Hb. unfold prefix_sums_blocks. fold n.
      destruct (sqrt_pass1_spec bs Hb) as (c & E & L & I). rewrite E. cbn [bind].
      apply sqrt_pass2_spec; auto.
    Qed.

    Lemma sqrt_trick_ok : xs <> [] ->
      exists ys, prefix_sums_sqrt_trick op xs = Ok ys /\ is_prefix_sums ys.
    Proof.
      intros Hne.
      replace (prefix_sums_sqrt_trick op xs)
        with (prefix_sums_blocks op (sqrt_block_size (length xs)) xs)
        by (destruct xs; [now elim Hne|reflexivity]).
      apply prefix_sums_blocks_ok, sqrt_block_size_pos.
    Qed.
  End Segments.

  (* ---------------------------------------------------------------- segment tree *)
  Definition psums (l : list T) : list T :=
    map (fun i => sum1 (firstn (S i) l)) (seq 0 (length l)).

  Lemma psums_length l : length (psums l) = length l.
  Proof. unfold psums. now rewrite map_length, seq_length. Qed.

  Lemma psums_nth l i : i < length l -> nth i (psums l) d = sum1 (firstn (S i) l).
  Proof.
    intros H. unfold psums. set (f := fun i => sum1 (firstn (S i) l)).
    rewrite (nth_indep _ d (f 0)) by (now rewrite map_length, seq_length).
    rewrite map_nth, seq_nth by auto. reflexivity.
  Qed.

  Lemma psums_small l : length l <= 1 -> psums l = l.
  Proof. destruct l as [|x [|y r]]; cbn [length]; intros H; try lia; reflexivity. Qed.

  (* what layer i+1 holds for layer i: its own prefix sums are every second prefix sum below *)
  Lemma psums_pair_up_nth lo m : lo <> [] -> m < length (pair_up op lo) ->
    nth m (psums (pair_up op lo)) d = sum1 (firstn (2 * S m) lo).
  Proof.
    intros Hne Hm. rewrite psums_nth by auto. rewrite pair_up_firstn. apply pair_up_sum1.
  Qed.

  Lemma descend_pass_spec lo : lo <> [] ->
    descend_pass op (psums (pair_up op lo)) lo = Ok (psums lo).
  Proof.
    intros Hne. unfold descend_pass. set (m := length lo). set (up := psums (pair_up op lo)).
    assert (Lup : length up = (m + 1) / 2) by (unfold up; now rewrite psums_length, pair_up_length).
    assert (Hm : 1 <= m) by (unfold m; destruct lo; [congruence|cbn [length]; lia]).
    destruct (foldM_inv (descend_step op up)
                (fun k c => length c = m /\
                   forall j, j < m -> nth j c d =
                     if (1 <=? j) && (j <? 1 + k) then sum1 (firstn (S j) lo) else nth j lo d)
                (seq 1 (m - 1)) lo) as (c & E & L & I).
    - split; auto. intros j Hj. destruct (1 <=? j) eqn:E1, (j <? 1 + 0) eqn:E2; auto.
      apply Nat.leb_le in E1. apply Nat.ltb_lt in E2. lia.
    - intros k a j Hi [La Ia]. apply nth_error_seq in Hi as [-> Hk].
      set (j := 1 + k). assert (Hj : j < m) by (unfold j; lia).
      assert (Hkeep : forall j', j' < m -> j' <> j ->
                (if (1 <=? j') && (j' <? 1 + k) then sum1 (firstn (S j') lo) else nth j' lo d) =
                (if (1 <=? j') && (j' <? 1 + S k) then sum1 (firstn (S j') lo) else nth j' lo d)).
      { intros j' H1 H2. destruct (1 <=? j'); cbn [andb]; auto.
        destruct (j' <? 1 + k) eqn:E1, (j' <? 1 + S k) eqn:E2; auto;
          apply Nat.ltb_lt in E1 || apply Nat.ltb_ge in E1;
          apply Nat.ltb_lt in E2 || apply Nat.ltb_ge in E2; unfold j in *; lia. }
      assert (Hnew : (1 <=? j) && (j <? 1 + S k) = true).
      { apply andb_true_iff. split; [apply Nat.leb_le|apply Nat.ltb_lt]; unfold j; lia. }
      unfold descend_step. destruct (j mod 2 =? 1) eqn:Eodd.
      + apply Nat.eqb_eq in Eodd.
        assert (Hidx : j / 2 < length up) by (rewrite Lup; lia).
        rewrite (arr_get_ok up (j / 2) d) by auto. cbn [bind]. rewrite arr_set_ok by lia.
        eexists. split; [reflexivity|]. split; [now rewrite set_nth_length|].
        intros j' Hj'. rewrite set_nth_nth by lia. destruct (j' =? j) eqn:Ej.
        * apply Nat.eqb_eq in Ej. subst j'. rewrite Hnew.
          unfold up. rewrite psums_pair_up_nth; auto; [|now rewrite <- (psums_length (pair_up op lo))].
          f_equal. f_equal. lia.
        * apply Nat.eqb_neq in Ej. rewrite Ia by auto. now apply Hkeep.
      + apply Nat.eqb_neq in Eodd.
        assert (Hj2 : 2 <= j) by (unfold j in *; destruct k; [cbn in Eodd; lia|lia]).
        assert (Hidx : (j - 1) / 2 < length up) by (rewrite Lup; lia).
        rewrite (arr_get_ok up ((j - 1) / 2) d) by auto. rewrite (arr_get_ok a j d) by lia.
        cbn [bind]. rewrite arr_set_ok by lia.
        eexists. split; [reflexivity|]. split; [now rewrite set_nth_length|].
        intros j' Hj'. rewrite set_nth_nth by lia. destruct (j' =? j) eqn:Ej.
        * apply Nat.eqb_eq in Ej. subst j'. rewrite Hnew. rewrite (Ia j) by auto.
          replace ((1 <=? j) && (j <? 1 + k)) with false
            by (symmetry; apply andb_false_iff; right; apply Nat.ltb_ge; unfold j; lia).
          unfold up. rewrite psums_pair_up_nth; auto; [|now rewrite <- (psums_length (pair_up op lo))].
          replace (2 * S ((j - 1) / 2)) with j by lia.
          rewrite (firstn_snoc lo j d) by (fold m; lia).
          rewrite sum1_app; [reflexivity| |discriminate]. apply firstn_nonnil; auto; lia.
        * apply Nat.eqb_neq in Ej. rewrite Ia by auto. now apply Hkeep.
    - rewrite E. f_equal. apply (nth_ext _ _ d d).
      + now rewrite psums_length.
      + intros j Hj. rewrite L in Hj. rewrite I by auto. rewrite seq_length.
        rewrite psums_nth by (fold m; lia).
        destruct (1 <=? j) eqn:E1; cbn [andb].
        * apply Nat.leb_le in E1. now replace (j <? 1 + (m - 1)) with true by (symmetry; apply Nat.ltb_lt; lia).
        * apply Nat.leb_gt in E1. assert (j = 0) by lia. subst j.
          destruct lo; [congruence|reflexivity].
  Qed.

  Lemma seg_tree_core fuel : forall cur, cur <> [] -> length cur <= S fuel ->
    exists layers rest', build_layers op fuel cur = Ok layers /\
                         descend op layers = Ok (psums cur :: rest').
  Proof.
    induction fuel as [|fuel IH]; intros cur Hne Hlen.
    - exists [cur], []. replace (build_layers op 0 cur) with (Ok [cur]).
      2:{ cbn [build_layers]. now replace (length cur <=? 1) with true by (symmetry; apply Nat.leb_le; lia). }
      split; auto. cbn [descend]. now rewrite psums_small by lia.
    - cbn [build_layers]. destruct (length cur <=? 1) eqn:E.
      + apply Nat.leb_le in E. exists [cur], []. split; auto. cbn [descend]. now rewrite psums_small by lia.
      + apply Nat.leb_gt in E.
        destruct (IH (pair_up op cur)) as (layers1 & r1 & B1 & D1).
        { intros H. apply pair_up_nil in H. congruence. }
        { rewrite pair_up_length. lia. }
        rewrite B1. cbn [bind]. exists (cur :: layers1). eexists. split; [reflexivity|].
        destruct layers1 as [|l1 ls]; [cbn [descend] in D1; discriminate|].
        set (ll := l1 :: ls) in *. cbn [descend]. unfold ll at 1. fold ll. rewrite D1. cbn [bind].
        unfold arr_get at 1. cbn [nth_error bind]. rewrite descend_pass_spec by auto. cbn [bind].
        reflexivity.
  Qed.

  Lemma segment_tree_ok xs : xs <> [] ->
    exists ys, prefix_sums_segment_tree op xs = Ok ys /\ is_prefix_sums xs ys.
  Proof.
    intros Hne.
    replace (prefix_sums_segment_tree op xs)
      with (let* layers := build_layers op (length xs) xs in
            let* layers' := descend op layers in arr_get layers' 0)
      by (destruct xs; [now elim Hne|reflexivity]).
    destruct (seg_tree_core (length xs) xs Hne ltac:(lia)) as (layers & r & B & D).
    rewrite B. cbn [bind]. rewrite D. cbn [bind]. exists (psums xs). split; [reflexivity|].
    split; [apply psums_length|]. intros i Hi. rewrite psums_nth by auto. now rewrite seg_prefix.
  Qed.
End Sums.

(* ------------------------------------------------------------------ default-free statements *)
Definition prefix_spec {T} (op : T -> T -> T) (xs ys : list T) : Prop :=
  length ys = length xs /\
  forall i, i < length xs -> nth_error ys i = fold1 op (firstn (S i) xs).

Lemma is_prefix_sums_spec {T} (op : T -> T -> T) d xs ys :
  is_prefix_sums op d xs ys -> prefix_spec op xs ys.
Proof.
  intros [L I]. split; auto. intros i Hi.
  rewrite (nth_error_nth' ys d) by lia. rewrite I by auto. rewrite seg_prefix.
  symmetry. apply fold1_sum1. destruct xs; cbn [length] in Hi; [lia|discriminate].
Qed.

Lemma prefix_spec_nil {T} (op : T -> T -> T) : prefix_spec op [] [].
Proof. split; auto. cbn [length]. intros; lia. Qed.

Theorem binary_ascent_spec {T} (op : T -> T -> T) :
  (forall a b c, op (op a b) c = op a (op b c)) ->
  forall xs, exists ys, prefix_sums_binary_ascent op xs = Ok ys /\ prefix_spec op xs ys.
Proof.
  intros A xs. destruct xs as [|x r] eqn:E.
  - exists []. split; [reflexivity|apply prefix_spec_nil].
  - rewrite <- E. destruct (binary_ascent_ok op A x xs) as (ys & H1 & H2); [subst; discriminate|].
    exists ys. split; auto. eapply is_prefix_sums_spec; eauto.
Qed.

Theorem log_depth_sum_total {T} (op : T -> T -> T) :
  (forall a b c, op (op a b) c = op a (op b c)) ->
  forall items, log_depth_sum op items =
                match items with [] => Err | x :: r => Ok (fold_left op r x) end.
Proof.
  intros A items. destruct items as [|x r]; [reflexivity|].
  rewrite (log_depth_sum_spec op A x). reflexivity.
Qed.

Theorem sqrt_trick_spec {T} (op : T -> T -> T) :
  (forall a b c, op (op a b) c = op a (op b c)) ->
  forall xs, exists ys, prefix_sums_sqrt_trick op xs = Ok ys /\ prefix_spec op xs ys.
Proof.
  intros A xs. destruct xs as [|x r] eqn:E.
  - exists []. split; [reflexivity|apply prefix_spec_nil].
  - rewrite <- E. destruct (sqrt_trick_ok op A x xs) as (ys & H1 & H2); [subst; discriminate|].
    exists ys. split; auto. eapply is_prefix_sums_spec; eauto.
Qed.

(* the two passes are correct for any block size >= 1 (so the result does not depend on the
   floating-point square root being exact) *)
Theorem blocks_spec {T} (op : T -> T -> T) :
  (forall a b c, op (op a b) c = op a (op b c)) ->
  forall bs xs, 1 <= bs -> exists ys, prefix_sums_blocks op bs xs = Ok ys /\ prefix_spec op xs ys.
Proof.
  intros A bs xs Hb. destruct xs as [|x r] eqn:E.
  - exists []. split; [|apply prefix_spec_nil]. unfold prefix_sums_blocks. cbn [length seq foldM bind].
    replace (0 - bs) with 0 by lia. reflexivity.
  - rewrite <- E. destruct (prefix_sums_blocks_ok op A x xs bs Hb) as (ys & H1 & H2).
    exists ys. split; auto. eapply is_prefix_sums_spec; eauto.
Qed.

Theorem segment_tree_spec {T} (op : T -> T -> T) :
  (forall a b c, op (op a b) c = op a (op b c)) ->
  forall xs, exists ys, prefix_sums_segment_tree op xs = Ok ys /\ prefix_spec op xs ys.
Proof.
  intros A xs. destruct xs as [|x r] eqn:E.
  - exists []. split; [reflexivity|apply prefix_spec_nil].
  - rewrite <- E. destruct (segment_tree_ok op A x xs) as (ys & H1 & H2); [subst; discriminate|].
    exists ys. split; auto. eapply is_prefix_sums_spec; eauto.
Qed.

(* whichever algorithm is picked (any caller length, either level) *)
Theorem pick_spec {T} (op : T -> T -> T) :
  (forall a b c, op (op a b) c = op a (op b c)) ->
  forall inputs_len lvl xs,
    exists ys, pick_prefix_sum_algorithm op inputs_len lvl xs = Ok ys /\ prefix_spec op xs ys.
Proof.
  intros A n lvl xs. unfold pick_prefix_sum_algorithm. destruct lvl.
  - destruct (n <? 16); [apply sqrt_trick_spec|apply segment_tree_spec]; auto.
  - apply binary_ascent_spec; auto.
Qed.


(* C09: the per-operation preservation lemmas combined, and the lift to whole graphs. *)
From CC Require Import Base.Prelude Base.Scalar Base.Ty Base.Shape Graph.Value Graph.IR Graph.Eval
  Graph.Typing Proofs.EvalProofs Proofs.TypingBase Proofs.TypingTuple Proofs.TypingArith Proofs.TypingBits Proofs.TypingReduce Proofs.TypingStruct Proofs.TypingStack Proofs.TypingPermute Proofs.TypingZip Proofs.TypingPermOps Proofs.TypingSegment Proofs.TypingReshape Proofs.TypingConcat Proofs.TypingSlice Proofs.TypingDot Proofs.TypingMatmul Proofs.TypingGemm.

(* operations for which preservation is a theorem *)
Definition proved_op (o : op) : bool :=
  match o with
  | OZeros _ | OOnes _ | OConstant _ _ | ONOP
  | OCreateTuple | OCreateNamedTuple _ | OCreateVector _ | OTupleGet _ | ONamedTupleGet _
  | OVectorGet | ORepeat _
  | OAdd | OSubtract | OMultiply | OMixedMultiply | OTruncate _
  | OA2B | OB2A _ | OSum _ | OCumSum _
  | OGet _ | OArrayToVector | OVectorToArray | OPrint _ | OAssert _ | OStack _ | OPermuteAxes _
  | OZip | OGather _ | OInversePermutation | OApplyPermutation _ | OSegmentCumSum | OReshape _ | OConcatenate _ | OGetSlice _ | ODot | OMatmul | OGemm _ _
  (* value supplied from outside (eval_node answers Err): preservation holds vacuously *)
  | ORandom _ | OPRF _ _ | OPermutationFromPRF _ _ | ORandomPermutation _ | OCuckooToPermutation
  | ODecomposeSwitchingMap _ => true
  | _ => false
  end.

Theorem preservation_partial : forall o, proved_op o = true -> preserves o.
Proof.
  intros o H. destruct o; try discriminate H;
    first [ apply preserves_zeros | apply preserves_ones | apply preserves_constant | apply preserves_nop
          | apply preserves_create_tuple | apply preserves_create_named_tuple
          | apply preserves_create_vector | apply preserves_tuple_get | apply preserves_named_tuple_get
          | apply preserves_vector_get | apply preserves_repeat
          | apply preserves_add | apply preserves_subtract | apply preserves_multiply
          | apply preserves_mixed_multiply | apply preserves_truncate
          | apply preserves_a2b | apply preserves_b2a | apply preserves_sum | apply preserves_cum_sum
          | apply preserves_get | apply preserves_array_to_vector | apply preserves_vector_to_array
          | apply preserves_print | apply preserves_assert | apply preserves_stack | apply preserves_permute_axes
          | apply preserves_zip | apply preserves_gather | apply preserves_inverse_permutation
          | apply preserves_apply_permutation | apply preserves_segment_cum_sum | apply preserves_reshape | apply preserves_concatenate | apply preserves_get_slice | apply preserves_dot | apply preserves_matmul | apply preserves_gemm
          | apply preserves_random | apply preserves_prf | apply preserves_permutation_from_prf
          | apply preserves_random_permutation | apply preserves_cuckoo_to_permutation
          | apply preserves_decompose_switching_map ].
Qed.

(* every operation eval_node computes itself is in the proved set *)
Lemma computed_ops_proved : forall o, from_tape o = false -> proved_op o = true.
Proof. intros o H. destruct o; try reflexivity; discriminate H. Qed.

(* ------------------------------------------------------------------ graphs *)
(* the dependency-type lookup eval_graph_nodes performs *)
Definition lookup_ty (tys : list ty) (n : nat) (id : Z) : result ty :=
  if (id <? 0) || (Z.of_nat n <=? id) then Panic else nth_res tys (n - 1 - Z.to_nat id).

(* A graph as the builder leaves it, restricted to operations in [ok]: every node's type is the
   type inferred from the types of its (earlier) dependencies, node types are valid u64 types,
   and the values supplied from outside (inputs, random values) have the declared node types. *)
Fixpoint graph_typed_from (ok : op -> bool) (tape : Z -> option value)
         (tys : list ty) (n : nat) (nodes : list node) : Prop :=
  match nodes with
  | [] => True
  | nd :: rest =>
      ty_ok (n_ty nd) = true /\
      (if from_tape (n_op nd)
       then forall v, tape (Z.of_nat n) = Some v -> has_type v (n_ty nd) = true
       else ok (n_op nd) = true /\ op_u64 (n_op nd) = true /\
            exists dts, mapM (lookup_ty tys n) (n_deps nd) = Ok dts /\
                        infer (n_op nd) dts = Ok (n_ty nd)) /\
      graph_typed_from ok tape (n_ty nd :: tys) (S n) rest
  end.
Definition graph_typed ok tape nodes := graph_typed_from ok tape [] O nodes.

Definition step (tape : Z -> option value) :=
  (fun (acc : result (list value * nat * list ty)) (nd : node) =>
     let* (e, n, tys) := acc in
     let* v :=
       if from_tape (n_op nd) then
         match tape (Z.of_nat n) with Some v => Ok v | None => Err end
       else
         let* vs := mapM (env_get e n) (n_deps nd) in
         let* dts := mapM (fun id => if (id <? 0) || (Z.of_nat n <=? id) then Panic
                                     else nth_res tys (n - 1 - Z.to_nat id)) (n_deps nd) in
         eval_node (n_op nd) dts (n_ty nd) vs in
     Ok (v :: e, S n, n_ty nd :: tys)).

Lemma fold_step_err tape nodes : fold_left (step tape) nodes Err = Err.
Proof. induction nodes; cbn; auto. Qed.

Lemma deps_values e tys n : Forall2 wt e tys -> forall deps dts,
  mapM (lookup_ty tys n) deps = Ok dts ->
  exists vs, mapM (env_get e n) deps = Ok vs /\ Forall2 wt vs dts.
Proof.
  intros HF. induction deps as [|id deps IH]; intros dts E; cbn [mapM] in *.
  - inversion E. exists []. split; [reflexivity| constructor].
  - apply bind_ok in E as (dt & Edt & E). apply bind_ok in E as (dts' & Edts & E). inversion E; subst.
    destruct (IH _ Edts) as (vs & -> & Fvs).
    unfold lookup_ty in Edt. unfold env_get.
    destruct ((id <? 0) || (Z.of_nat n <=? id)); [discriminate|].
    destruct (Forall2_nth_res _ _ _ HF _ _ Edt) as (v & -> & Hv).
    cbn [bind]. eexists. split; [reflexivity|]. constructor; auto.
Qed.

Lemma eval_graph_fold ok tape :
  (forall o, ok o = true -> preserves o) ->
  forall nodes e n tys,
    Forall2 wt e tys -> graph_typed_from ok tape tys n nodes ->
    match fold_left (step tape) nodes (Ok (e, n, tys)) with
    | Ok (e', _, tys') => Forall2 wt e' tys' /\ tys' = rev (map n_ty nodes) ++ tys
    | Err => True
    | _ => False
    end.
Proof.
  intros Hok. induction nodes as [|nd rest IH]; intros e n tys HF HG.
  - cbn. auto.
  - cbn [graph_typed_from] in HG. destruct HG as (Kt & Hnd & Hrest).
    cbn [fold_left]. unfold step at 2. cbn [bind].
    destruct (from_tape (n_op nd)) eqn:FT.
    + destruct (tape (Z.of_nat n)) as [v|] eqn:Tp; cbn [bind].
      * specialize (IH (v :: e) (S n) (n_ty nd :: tys)).
        assert (HF' : Forall2 wt (v :: e) (n_ty nd :: tys)) by (constructor; [split; auto| auto]).
        specialize (IH HF' Hrest).
        destruct (fold_left (step tape) rest (Ok (v :: e, S n, n_ty nd :: tys))) as [[[e' n'] tys']| | |]; auto.
        destruct IH as [H1 H2]. split; auto. rewrite H2. cbn [map rev]. now rewrite <- app_assoc.
      * now rewrite fold_step_err.
    + destruct Hnd as (Ho & Hu & dts & Ed & Hi).
      destruct (deps_values e tys n HF _ _ Ed) as (vs & Evs & Fvs). rewrite Evs. cbn [bind].
      unfold lookup_ty in Ed. rewrite Ed. cbn [bind].
      pose proof (Hok _ Ho _ _ _ Hu Hi Fvs) as Hs.
      destruct (eval_node (n_op nd) dts (n_ty nd) vs) as [v| | |]; cbn [bind safe_typed] in *; try contradiction.
      * specialize (IH (v :: e) (S n) (n_ty nd :: tys)).
        assert (HF' : Forall2 wt (v :: e) (n_ty nd :: tys)) by (constructor; [split; auto| auto]).
        specialize (IH HF' Hrest).
        destruct (fold_left (step tape) rest (Ok (v :: e, S n, n_ty nd :: tys))) as [[[e' n'] tys']| | |]; auto.
        destruct IH as [H1 H2]. split; auto. rewrite H2. cbn [map rev]. now rewrite <- app_assoc.
      * now rewrite fold_step_err.
Qed.

Lemma Forall2_rev {A B} (R : A -> B -> Prop) l1 l2 : Forall2 R l1 l2 -> Forall2 R (rev l1) (rev l2).
Proof.
  induction 1 as [|a b l1 l2 Hab _ IH]; cbn; [constructor|].
  apply Forall2_app; auto.
Qed.

(* every node value of a typed graph has its node type; evaluation never panics *)
Theorem eval_graph_typed ok tape nodes :
  (forall o, ok o = true -> preserves o) ->
  graph_typed ok tape nodes ->
  match eval_graph_nodes nodes tape with
  | Ok vals => Forall2 (fun v t => has_type v t = true) vals (map n_ty nodes)
  | Err => True
  | Panic | OutOfFuel => False
  end.
Proof.
  intros Hok HG. unfold eval_graph_nodes.
  pose proof (eval_graph_fold ok tape Hok nodes [] O [] (Forall2_nil _) HG) as H.
  change (fold_left _ nodes (Ok ([], O, []))) with (fold_left (step tape) nodes (Ok ([], O, []))).
  destruct (fold_left (step tape) nodes (Ok ([], O, []))) as [[[e' n'] tys']| | |]; cbn [bind]; auto.
  destruct H as [H1 H2]. rewrite app_nil_r in H2. subst tys'.
  apply Forall2_rev in H1. rewrite rev_involutive in H1.
  clear - H1. induction H1 as [|v t l1 l2 [Hv _] _ IH]; constructor; auto.
Qed.

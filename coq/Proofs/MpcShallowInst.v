(* Instantiation of the C01 shallow theorem at the ring of integers (exact arithmetic): every
   hypothesis of the Section is satisfiable, and a concrete program is compiled and evaluated. *)
From Coq Require Import Ring ZArith.
From CC Require Import Base.Prelude Model.MpcShallow Proofs.MpcShallowProofs.

Definition zbil (k : nat) (a b : Z) : Z := a * b.
Definition zlin (k : nat) (a : Z) : Z := Z.of_nat (S k) * a.

Theorem ceval_sound_Z nodes env cenv ins cins masks plan :
  Forall2 (fun c v => csum Z Z.add c = v) cenv env ->
  Forall2 (fun ci v => cinput_value Z Z.add ci = v) cins ins ->
  Forall2 (fun c v => csum Z Z.add c = v)
          (ceval Z 0 Z.add Z.sub zbil zlin nodes cenv cins masks plan)
          (seval Z 0 Z.add Z.sub zbil zlin nodes env ins).
Proof.
  apply (ceval_sound Z 0 1 Z.add Z.mul Z.sub Z.opp Zth zbil zlin).
  - intros. unfold zbil. ring.
  - intros. unfold zbil. ring.
  - intros. unfold zlin. ring.
Qed.

(* (x * y + z) summed: x owned by party 0, y already shared, z public; product reshared *)
Definition ex_prog : list (snode Z) :=
  [mkS Z (SInput Z) []; mkS Z (SInput Z) []; mkS Z (SInput Z) [];
   mkS Z (SBil Z 0) [0; 1]%nat; mkS Z (SAdd Z) [3; 2]%nat; mkS Z (SLin Z 2) [4]%nat].
Example ex_compiled_value :
  map (csum Z Z.add)
      (ceval Z 0 Z.add Z.sub zbil zlin ex_prog [] [InParty Z 0 7; InShared Z 100 (-3) 5; InPublic Z 11]
             (fun i => (Z.of_nat i + 1000, 77, -12345)) (fun i => Nat.eqb i 3))
  = seval Z 0 Z.add Z.sub zbil zlin ex_prog [] [7; 102; 11].
Proof. vm_compute. reflexivity. Qed.

(* Proofs about Model/Sort.v (C18), part 4: the LSD radix schedule of mpc_radix_sort.rs composes
   to the stable sort by the full lexicographic key, for every width. *)
From Coq Require Import Permutation Sorted.
From CC Require Import Base.Prelude Base.Scalar Model.Sort Proofs.SortProofs Proofs.PermProofs.

Lemma StronglySorted_map_in {A B} (g : A -> B) (R : A -> A -> Prop) (R' : B -> B -> Prop) l :
  (forall x y, In x l -> In y l -> R x y -> R' (g x) (g y)) ->
  StronglySorted R l -> StronglySorted R' (map g l).
Proof.
  intros Hg Hs. induction Hs as [|a l Hs IH Ha]; simpl; constructor.
  - apply IH. intros x y Hx Hy. apply Hg; right; auto.
  - rewrite Forall_forall in *. intros y Hy. apply in_map_iff in Hy as (x & <- & Hx).
    apply Hg; [left; auto|right; auto|auto].
Qed.

Lemma key_idx_lt_asym a b : key_idx_lt a b -> key_idx_lt b a -> False.
Proof.
  unfold key_idx_lt, lexR, idx_lt. intros [H1|[H1 L1]] [H2|[H2 L2]];
    rewrite cmp_key_opp, H1 in H2; simpl in H2; try discriminate. lia.
Qed.

Lemma nth_map_lt {A B} (f : A -> B) l i d d' :
  (i < length l)%nat -> nth i (map f l) d' = f (nth i l d).
Proof.
  intros H. rewrite (nth_indep _ d' (f d)) by (now rewrite map_length). apply map_nth.
Qed.

Lemma combine_map_seq_gen {A} (d : A) (l : list A) s :
  combine l (seq s (length l)) = map (fun i => (nth (i - s) l d, i)) (seq s (length l)).
Proof.
  revert s; induction l as [|a l IH]; intros s; simpl; auto. f_equal.
  - now rewrite Nat.sub_diag.
  - rewrite IH. apply map_ext_in. intros i Hi. apply in_seq in Hi.
    replace (i - s)%nat with (S (i - S s)) by lia. reflexivity.
Qed.
Lemma combine_map_seq {A} (d : A) (l : list A) :
  combine l (seq 0 (length l)) = map (fun i => (nth i l d, i)) (seq 0 (length l)).
Proof.
  rewrite (combine_map_seq_gen d). apply map_ext. intros i. now rewrite Nat.sub_0_r.
Qed.

(* one LSD pass: stable-sorting by fl, then stable-sorting that order by fh, is stable-sorting
   by fh ++ fl — stability of the second pass is what makes the passes compose *)
Lemma radix_compose (keys : list (list Z)) (fh fl : list Z -> list Z) (c : nat) :
  (forall r, In r keys -> length (fh r) = c) ->
  let Plo := sorting_permutation (map fl keys) in
  apply_perm 0%nat (sorting_permutation (apply_perm [] Plo (map fh keys))) Plo
  = sorting_permutation (map (fun r => fh r ++ fl r) keys).
Proof.
  intros Hc Plo. set (n := length keys).
  assert (HPlo : is_perm n Plo).
  { unfold Plo, n. rewrite <- (map_length fl keys). apply sorting_permutation_is_perm. }
  pose proof (is_perm_length _ _ HPlo) as LPlo.
  set (H' := apply_perm [] Plo (map fh keys)).
  assert (LH' : length H' = n) by (unfold H'; now rewrite apply_perm_length).
  (* the entries of the second sorted enumeration, re-labelled with original positions and
     extended to the full key *)
  set (g := fun e : list Z * nat =>
              let i := nth (snd e) Plo 0%nat in (fst e ++ fl (nth i keys []), i)).
  assert (Hmain : map g (sorted_enum H') = sorted_enum (map (fun r => fh r ++ fl r) keys)).
  { apply (sorted_perm_unique key_idx_lt).
    - intros x y _ _ Hxy Hyx. exfalso. eapply key_idx_lt_asym; eauto.
    - (* sortedness *)
      apply (StronglySorted_map_in g key_idx_lt key_idx_lt); [|apply sorted_enum_sorted].
      intros [hx jx] [hy jy] Hx Hy Hxy.
      apply (Permutation_in _ (sorted_enum_perm H')) in Hx, Hy. rewrite LH' in Hx, Hy.
      pose proof (in_combine_seq_nth [] _ _ _ _ _ Hx) as [Ex _].
      pose proof (in_combine_seq_nth [] _ _ _ _ _ Hy) as [Ey _].
      apply in_combine_r, in_seq in Hx, Hy. rewrite Nat.sub_0_r in Ex, Ey.
      assert (Lx : (nth jx Plo 0 < n)%nat) by (apply (is_perm_lt n Plo jx HPlo); lia).
      assert (Ly : (nth jy Plo 0 < n)%nat) by (apply (is_perm_lt n Plo jy HPlo); lia).
      unfold H' in Ex, Ey. rewrite apply_perm_nth in Ex, Ey by lia.
      rewrite (nth_map_lt fh keys _ [] []) in Ex by (fold n; lia).
      rewrite (nth_map_lt fh keys _ [] []) in Ey by (fold n; lia).
      assert (Lhx : length hx = c) by (rewrite <- Ex; apply Hc, nth_In; fold n; lia).
      assert (Lhy : length hy = c) by (rewrite <- Ey; apply Hc, nth_In; fold n; lia).
      unfold key_idx_lt, lexR, cmp_key, idx_lt, g in *. cbn [fst snd] in *.
      rewrite lex_cmp_app by congruence.
      destruct Hxy as [Hlt|[Heq Hj]]; [left; now rewrite Hlt|]. rewrite Heq.
      (* equal high parts: the first pass decides *)
      pose proof (StronglySorted_nth _ ([], 0%nat) _ jx jy (sorted_enum_sorted (map fl keys))) as Hs.
      rewrite sorted_enum_length, map_length in Hs. fold n in Hs. specialize (Hs ltac:(lia)).
      destruct (sorted_enum_nth (map fl keys) jx) as (A1 & A2 & _); [rewrite map_length; fold n; lia|].
      destruct (sorted_enum_nth (map fl keys) jy) as (B1 & B2 & _); [rewrite map_length; fold n; lia|].
      fold Plo in A1, B1. rewrite A1 in A2. rewrite B1 in B2.
      rewrite (nth_map_lt fl keys _ [] []) in A2 by (fold n; lia).
      rewrite (nth_map_lt fl keys _ [] []) in B2 by (fold n; lia).
      unfold key_idx_lt, lexR, cmp_key, idx_lt in Hs. rewrite A2, B2, A1, B1 in Hs. exact Hs.
    - apply sorted_enum_sorted.
    - (* same elements *)
      rewrite (sorted_enum_perm (map (fun r => fh r ++ fl r) keys)).
      rewrite (Permutation_map g (sorted_enum_perm H')).
      rewrite (combine_map_seq [] H'), (combine_map_seq [] (map (fun r => fh r ++ fl r) keys)).
      rewrite LH', map_length, map_map. fold n.
      transitivity (map (fun i => (fh (nth i keys []) ++ fl (nth i keys []), i)) Plo).
      + rewrite <- (map_nth_seq 0%nat Plo) at 1. rewrite LPlo, map_map.
        apply Permutation_refl'. apply map_ext_in. intros j Hj. apply in_seq in Hj.
        unfold g. cbn [fst snd]. unfold H'. rewrite apply_perm_nth by lia.
        rewrite (nth_map_lt fh keys _ [] []); auto.
        fold n. apply (is_perm_lt n Plo j HPlo). lia.
      + rewrite (Permutation_map _ HPlo). apply Permutation_refl'. apply map_ext_in.
        intros i Hi. apply in_seq in Hi.
        rewrite (nth_map_lt (fun r => fh r ++ fl r) keys _ [] []) by (fold n; lia). reflexivity. }
  rewrite (sorting_permutation_eq (map _ keys)), <- Hmain, map_map.
  unfold apply_perm. rewrite sorting_permutation_eq, map_map. reflexivity.
Qed.

(* ------------------------------------------------------------------ the schedule *)
(* what Algorithm 11 (gen_multi_bit_sort_graph) has to deliver: the rank of every row, i.e. the
   inverse of the stable sorting permutation of the chunk *)
Definition ms_spec (ms : list (list Z) -> list nat) : Prop :=
  forall k, ms k = inv_perm (sorting_permutation k).

Lemma lastn_all {A} (l : list A) : lastn (length l) l = l.
Proof. unfold lastn. now rewrite Nat.sub_diag. Qed.

Lemma skipn_add {A} a b (l : list A) : skipn a (skipn b l) = skipn (b + a) l.
Proof.
  revert l; induction b as [|b IH]; intros l; simpl; auto.
  destruct l; [now rewrite skipn_nil|apply IH].
Qed.

Lemma chunk_row b c m (r : list Z) :
  length r = b -> (2 * c + 2 <= m)%nat -> (m <= b)%nat ->
  chunk_of c (firstn m r) ++ lastn (b - 2 * S c) r = lastn (b - 2 * c) r /\
  length (chunk_of c (firstn m r)) = 2%nat.
Proof.
  intros L H1 H2. unfold chunk_of, lastn. rewrite L.
  replace (b - (b - 2 * S c))%nat with (2 + 2 * c)%nat by lia.
  replace (b - (b - 2 * c))%nat with (2 * c)%nat by lia.
  rewrite skipn_firstn_comm, firstn_firstn.
  replace (Nat.min 2 (m - 2 * c)) with 2%nat by lia.
  replace (2 + 2 * c)%nat with (2 * c + 2)%nat by lia.
  rewrite <- skipn_add. split; [apply firstn_skipn|].
  rewrite firstn_length, skipn_length. lia.
Qed.

Section Schedule.
  Variable ms : list (list Z) -> list nat.
  Hypothesis Hms : ms_spec ms.
  Variable pi_of : nat -> list nat.

  (* one loop iteration, whatever permutation the protocol drew *)
  Lemma radix_step_sorted n pi keys (fh fl : list Z -> list Z) c :
    is_perm n pi -> length keys = n -> (forall r, In r keys -> length (fh r) = c) ->
    radix_step ms pi (inv_perm (sorting_permutation (map fl keys))) (map fh keys)
    = inv_perm (sorting_permutation (map (fun r => fh r ++ fl r) keys)).
  Proof.
    intros Hpi Ln Hc.
    assert (HP : is_perm n (sorting_permutation (map fl keys))).
    { rewrite <- Ln, <- (map_length fl keys). apply sorting_permutation_is_perm. }
    rewrite (radix_step_conjugation ms n) by (auto using inv_perm_is_perm; now rewrite map_length).
    rewrite (inv_perm_involutive n) by auto. rewrite Hms.
    set (P := sorting_permutation (map fl keys)) in *.
    set (Q := sorting_permutation (apply_perm [] P (map fh keys))).
    assert (HQ : is_perm n Q).
    { unfold Q. rewrite <- (is_perm_length n P HP), <- (apply_perm_length [] P (map fh keys)).
      apply sorting_permutation_is_perm. }
    rewrite <- (inv_perm_compose n Q P HQ HP). f_equal.
    unfold Q, P. apply (radix_compose keys fh fl c Hc).
  Qed.

  (* C18: for EVERY key width b >= 1 (odd ones start with a 1-bit chunk) the chunk passes of
     mpc_radix_sort.rs compose to the rank vector of the stable sort by the whole key *)
  Theorem lsd_radix_is_stable_sort b keys :
    (1 <= b)%nat -> Forall (fun r => length r = b) keys ->
    (forall i, is_perm (length keys) (pi_of i)) ->
    radix_sigma ms pi_of b keys = Ok (inv_perm (sorting_permutation keys)).
  Proof.
    intros Hb Hk Hpi. unfold radix_sigma.
    set (s0 := step0_size b).
    assert (Hs0 : (s0 <= b /\ b - s0 = 2 * ((b - s0) / 2))%nat).
    { unfold s0, step0_size. destruct (b mod 2 =? 0)%nat eqn:E.
      - apply Nat.eqb_eq in E. lia.
      - apply Nat.eqb_neq in E. lia. }
    destruct Hs0 as [Hs0 Hcount]. set (count := ((b - s0) / 2)%nat) in *.
    replace (b <? s0)%nat with false by (symmetry; apply Nat.ltb_ge; lia). f_equal.
    rewrite Hms. rewrite Forall_forall in Hk.
    assert (G : forall c, (2 * c <= b - s0)%nat ->
      fold_left (fun sigma bit_ind =>
                   radix_step ms (pi_of bit_ind) sigma
                              (map (chunk_of bit_ind) (map (firstn (b - s0)) keys)))
                (rev (seq 0 c))
                (inv_perm (sorting_permutation (map (lastn (b - 2 * c)) keys)))
      = inv_perm (sorting_permutation keys)).
    { induction c as [|c IH]; intros Hc.
      - simpl. rewrite Nat.sub_0_r. do 2 f_equal.
        rewrite <- (map_id keys) at 2. apply map_ext_in. intros r Hr.
        rewrite <- (Hk r Hr). apply lastn_all.
      - rewrite seq_S, rev_app_distr. cbn [rev app plus fold_left].
        rewrite map_map.
        rewrite (radix_step_sorted (length keys) (pi_of c) keys
                   (fun r => chunk_of c (firstn (b - s0) r)) (lastn (b - 2 * S c)) 2%nat); auto.
        + replace (map (fun r => chunk_of c (firstn (b - s0) r) ++ lastn (b - 2 * S c) r) keys)
            with (map (lastn (b - 2 * c)) keys); [apply IH; lia|].
          apply map_ext_in. intros r Hr. symmetry.
          apply (chunk_row b c (b - s0) r (Hk r Hr)); lia.
        + intros r Hr. apply (chunk_row b c (b - s0) r (Hk r Hr)); lia. }
    replace s0 with (b - 2 * count)%nat at 1 by lia.
    apply G. lia.
  Qed.

  (* and the sorted table: Algorithm 13 applied to any column gives the plaintext Sort's rows *)
  Theorem radix_sort_column_is_sort {A} (d : A) pi_fin b keys (col : list A) :
    (1 <= b)%nat -> Forall (fun r => length r = b) keys ->
    (forall i, is_perm (length keys) (pi_of i)) -> is_perm (length keys) pi_fin ->
    length col = length keys ->
    radix_sort_column ms pi_of pi_fin d b keys col
    = Ok (apply_perm d (sorting_permutation keys) col).
  Proof.
    intros Hb Hk Hpi Hfin Lc. unfold radix_sort_column.
    rewrite (lsd_radix_is_stable_sort b keys Hb Hk Hpi). cbn [bind]. f_equal.
    pose proof (sorting_permutation_is_perm keys) as HP.
    rewrite (apply_sorting_permutation_conjugation d (length keys))
      by (auto using inv_perm_is_perm).
    now rewrite (inv_perm_involutive (length keys)).
  Qed.
End Schedule.

(* the hypothesis ms_spec is satisfiable: by the specification itself *)
Lemma ms_spec_inhabited : ms_spec (fun k => inv_perm (sorting_permutation k)).
Proof. intros k. reflexivity. Qed.

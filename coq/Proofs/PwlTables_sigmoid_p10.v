(* Generated (harness/src/c20.rs, tier gen): interval proofs for the committed table sigmoid_p10. *)
From Coq Require Import Reals.
From Interval Require Import Tactic.
From CC Require Import Base.Prelude Model.PwlData Proofs.PwlReal.
Open Scope R_scope.

Lemma sigmoid_p10_seg1 : seg_bound sigmoid_fn (0) (45/10000) 1024 1048576 (-8704) (-7680) 0 0.
Proof. unfold seg_bound, sigmoid_fn. intros x Hx; apply Rabs_le; split; apply Rminus_le; interval with (i_bisect x, i_taylor x, i_prec 53). Qed.
Lemma sigmoid_p10_seg2 : seg_bound sigmoid_fn (0) (45/10000) 1024 1048576 (-7680) (-7168) 0 0.
Proof. unfold seg_bound, sigmoid_fn. intros x Hx; apply Rabs_le; split; apply Rminus_le; interval with (i_bisect x, i_taylor x, i_prec 53). Qed.
Lemma sigmoid_p10_seg3 : seg_bound sigmoid_fn (0) (45/10000) 1024 1048576 (-7168) (-6656) 2 14336.
Proof. unfold seg_bound, sigmoid_fn. intros x Hx; apply Rabs_le; split; apply Rminus_le; interval with (i_bisect x, i_taylor x, i_prec 53). Qed.
Lemma sigmoid_p10_seg4 : seg_bound sigmoid_fn (0) (45/10000) 1024 1048576 (-6656) (-6144) 2 14336.
Proof. unfold seg_bound, sigmoid_fn. intros x Hx; apply Rabs_le; split; apply Rminus_le; interval with (i_bisect x, i_taylor x, i_prec 53). Qed.
Lemma sigmoid_p10_seg5 : seg_bound sigmoid_fn (0) (45/10000) 1024 1048576 (-6144) (-5632) 4 26624.
Proof. unfold seg_bound, sigmoid_fn. intros x Hx; apply Rabs_le; split; apply Rminus_le; interval with (i_bisect x, i_taylor x, i_prec 53). Qed.
Lemma sigmoid_p10_seg6 : seg_bound sigmoid_fn (0) (45/10000) 1024 1048576 (-5632) (-5120) 4 26624.
Proof. unfold seg_bound, sigmoid_fn. intros x Hx; apply Rabs_le; split; apply Rminus_le; interval with (i_bisect x, i_taylor x, i_prec 53). Qed.
Lemma sigmoid_p10_seg7 : seg_bound sigmoid_fn (0) (45/10000) 1024 1048576 (-5120) (-4608) 10 57344.
Proof. unfold seg_bound, sigmoid_fn. intros x Hx; apply Rabs_le; split; apply Rminus_le; interval with (i_bisect x, i_taylor x, i_prec 53). Qed.
Lemma sigmoid_p10_seg8 : seg_bound sigmoid_fn (0) (45/10000) 1024 1048576 (-4608) (-4096) 14 75776.
Proof. unfold seg_bound, sigmoid_fn. intros x Hx; apply Rabs_le; split; apply Rminus_le; interval with (i_bisect x, i_taylor x, i_prec 53). Qed.
Lemma sigmoid_p10_seg9 : seg_bound sigmoid_fn (0) (45/10000) 1024 1048576 (-4096) (-3584) 24 116736.
Proof. unfold seg_bound, sigmoid_fn. intros x Hx; apply Rabs_le; split; apply Rminus_le; interval with (i_bisect x, i_taylor x, i_prec 53). Qed.
Lemma sigmoid_p10_seg10 : seg_bound sigmoid_fn (0) (45/10000) 1024 1048576 (-3584) (-3072) 36 159744.
Proof. unfold seg_bound, sigmoid_fn. intros x Hx; apply Rabs_le; split; apply Rminus_le; interval with (i_bisect x, i_taylor x, i_prec 53). Qed.
Lemma sigmoid_p10_seg11 : seg_bound sigmoid_fn (0) (45/10000) 1024 1048576 (-3072) (-2560) 58 227328.
Proof. unfold seg_bound, sigmoid_fn. intros x Hx; apply Rabs_le; split; apply Rminus_le; interval with (i_bisect x, i_taylor x, i_prec 53). Qed.
Lemma sigmoid_p10_seg12 : seg_bound sigmoid_fn (0) (45/10000) 1024 1048576 (-2560) (-2048) 90 309248.
Proof. unfold seg_bound, sigmoid_fn. intros x Hx; apply Rabs_le; split; apply Rminus_le; interval with (i_bisect x, i_taylor x, i_prec 53). Qed.
Lemma sigmoid_p10_seg13 : seg_bound sigmoid_fn (0) (45/10000) 1024 1048576 (-2048) (-1536) 128 387072.
Proof. unfold seg_bound, sigmoid_fn. intros x Hx; apply Rabs_le; split; apply Rminus_le; interval with (i_bisect x, i_taylor x, i_prec 53). Qed.
Lemma sigmoid_p10_seg14 : seg_bound sigmoid_fn (0) (45/10000) 1024 1048576 (-1536) (-1024) 178 463872.
Proof. unfold seg_bound, sigmoid_fn. intros x Hx; apply Rabs_le; split; apply Rminus_le; interval with (i_bisect x, i_taylor x, i_prec 53). Qed.
Lemma sigmoid_p10_seg15 : seg_bound sigmoid_fn (0) (45/10000) 1024 1048576 (-1024) (-512) 222 508928.
Proof. unfold seg_bound, sigmoid_fn. intros x Hx; apply Rabs_le; split; apply Rminus_le; interval with (i_bisect x, i_taylor x, i_prec 53). Qed.
Lemma sigmoid_p10_seg16 : seg_bound sigmoid_fn (0) (45/10000) 1024 1048576 (-512) 0 252 524288.
Proof. unfold seg_bound, sigmoid_fn. intros x Hx; apply Rabs_le; split; apply Rminus_le; interval with (i_bisect x, i_taylor x, i_prec 53). Qed.
Lemma sigmoid_p10_seg17 : seg_bound sigmoid_fn (0) (45/10000) 1024 1048576 0 512 250 524288.
Proof. unfold seg_bound, sigmoid_fn. intros x Hx; apply Rabs_le; split; apply Rminus_le; interval with (i_bisect x, i_taylor x, i_prec 53). Qed.
Lemma sigmoid_p10_seg18 : seg_bound sigmoid_fn (0) (45/10000) 1024 1048576 512 1024 222 538624.
Proof. unfold seg_bound, sigmoid_fn. intros x Hx; apply Rabs_le; split; apply Rminus_le; interval with (i_bisect x, i_taylor x, i_prec 53). Qed.
Lemma sigmoid_p10_seg19 : seg_bound sigmoid_fn (0) (45/10000) 1024 1048576 1024 1536 178 583680.
Proof. unfold seg_bound, sigmoid_fn. intros x Hx; apply Rabs_le; split; apply Rminus_le; interval with (i_bisect x, i_taylor x, i_prec 53). Qed.
Lemma sigmoid_p10_seg20 : seg_bound sigmoid_fn (0) (45/10000) 1024 1048576 1536 2048 128 660480.
Proof. unfold seg_bound, sigmoid_fn. intros x Hx; apply Rabs_le; split; apply Rminus_le; interval with (i_bisect x, i_taylor x, i_prec 53). Qed.
Lemma sigmoid_p10_seg21 : seg_bound sigmoid_fn (0) (45/10000) 1024 1048576 2048 2560 90 738304.
Proof. unfold seg_bound, sigmoid_fn. intros x Hx; apply Rabs_le; split; apply Rminus_le; interval with (i_bisect x, i_taylor x, i_prec 53). Qed.
Lemma sigmoid_p10_seg22 : seg_bound sigmoid_fn (0) (45/10000) 1024 1048576 2560 3072 58 820224.
Proof. unfold seg_bound, sigmoid_fn. intros x Hx; apply Rabs_le; split; apply Rminus_le; interval with (i_bisect x, i_taylor x, i_prec 53). Qed.
Lemma sigmoid_p10_seg23 : seg_bound sigmoid_fn (0) (45/10000) 1024 1048576 3072 3584 36 887808.
Proof. unfold seg_bound, sigmoid_fn. intros x Hx; apply Rabs_le; split; apply Rminus_le; interval with (i_bisect x, i_taylor x, i_prec 53). Qed.
Lemma sigmoid_p10_seg24 : seg_bound sigmoid_fn (0) (45/10000) 1024 1048576 3584 4096 24 930816.
Proof. unfold seg_bound, sigmoid_fn. intros x Hx; apply Rabs_le; split; apply Rminus_le; interval with (i_bisect x, i_taylor x, i_prec 53). Qed.
Lemma sigmoid_p10_seg25 : seg_bound sigmoid_fn (0) (45/10000) 1024 1048576 4096 4608 14 971776.
Proof. unfold seg_bound, sigmoid_fn. intros x Hx; apply Rabs_le; split; apply Rminus_le; interval with (i_bisect x, i_taylor x, i_prec 53). Qed.
Lemma sigmoid_p10_seg26 : seg_bound sigmoid_fn (0) (45/10000) 1024 1048576 4608 5120 10 990208.
Proof. unfold seg_bound, sigmoid_fn. intros x Hx; apply Rabs_le; split; apply Rminus_le; interval with (i_bisect x, i_taylor x, i_prec 53). Qed.
Lemma sigmoid_p10_seg27 : seg_bound sigmoid_fn (0) (45/10000) 1024 1048576 5120 5632 4 1020928.
Proof. unfold seg_bound, sigmoid_fn. intros x Hx; apply Rabs_le; split; apply Rminus_le; interval with (i_bisect x, i_taylor x, i_prec 53). Qed.
Lemma sigmoid_p10_seg28 : seg_bound sigmoid_fn (0) (45/10000) 1024 1048576 5632 6144 4 1020928.
Proof. unfold seg_bound, sigmoid_fn. intros x Hx; apply Rabs_le; split; apply Rminus_le; interval with (i_bisect x, i_taylor x, i_prec 53). Qed.
Lemma sigmoid_p10_seg29 : seg_bound sigmoid_fn (0) (45/10000) 1024 1048576 6144 6656 2 1033216.
Proof. unfold seg_bound, sigmoid_fn. intros x Hx; apply Rabs_le; split; apply Rminus_le; interval with (i_bisect x, i_taylor x, i_prec 53). Qed.
Lemma sigmoid_p10_seg30 : seg_bound sigmoid_fn (0) (45/10000) 1024 1048576 6656 7168 2 1033216.
Proof. unfold seg_bound, sigmoid_fn. intros x Hx; apply Rabs_le; split; apply Rminus_le; interval with (i_bisect x, i_taylor x, i_prec 53). Qed.
Lemma sigmoid_p10_seg31 : seg_bound sigmoid_fn (0) (45/10000) 1024 1048576 7168 7680 0 1047552.
Proof. unfold seg_bound, sigmoid_fn. intros x Hx; apply Rabs_le; split; apply Rminus_le; interval with (i_bisect x, i_taylor x, i_prec 53). Qed.
Lemma sigmoid_p10_seg32 : seg_bound sigmoid_fn (0) (45/10000) 1024 1048576 7680 8192 0 1047552.
Proof. unfold seg_bound, sigmoid_fn. intros x Hx; apply Rabs_le; split; apply Rminus_le; interval with (i_bisect x, i_taylor x, i_prec 53). Qed.

Lemma sigmoid_p10_table : table_bound sigmoid_fn (0) (45/10000) 10 sigmoid_p10_lb sigmoid_p10_left sigmoid_p10_divisor sigmoid_p10_alphas sigmoid_p10_betas.
Proof.
  unfold table_bound. intros i a b Hi Ha Hb.
  change (2 ^ sigmoid_p10_lb)%Z with 32%Z in Hi.
  assert (Hc : (i = 1 \/ i = 2 \/ i = 3 \/ i = 4 \/ i = 5 \/ i = 6 \/ i = 7 \/ i = 8 \/ i = 9 \/ i = 10 \/ i = 11 \/ i = 12 \/ i = 13 \/ i = 14 \/ i = 15 \/ i = 16 \/ i = 17 \/ i = 18 \/ i = 19 \/ i = 20 \/ i = 21 \/ i = 22 \/ i = 23 \/ i = 24 \/ i = 25 \/ i = 26 \/ i = 27 \/ i = 28 \/ i = 29 \/ i = 30 \/ i = 31 \/ i = 32)%Z) by lia.
  destruct Hc as [Hc|Hc]; [subst i; vm_compute in Ha, Hb; injection Ha as <-; injection Hb as <-; exact sigmoid_p10_seg1|].
  destruct Hc as [Hc|Hc]; [subst i; vm_compute in Ha, Hb; injection Ha as <-; injection Hb as <-; exact sigmoid_p10_seg2|].
  destruct Hc as [Hc|Hc]; [subst i; vm_compute in Ha, Hb; injection Ha as <-; injection Hb as <-; exact sigmoid_p10_seg3|].
  destruct Hc as [Hc|Hc]; [subst i; vm_compute in Ha, Hb; injection Ha as <-; injection Hb as <-; exact sigmoid_p10_seg4|].
  destruct Hc as [Hc|Hc]; [subst i; vm_compute in Ha, Hb; injection Ha as <-; injection Hb as <-; exact sigmoid_p10_seg5|].
  destruct Hc as [Hc|Hc]; [subst i; vm_compute in Ha, Hb; injection Ha as <-; injection Hb as <-; exact sigmoid_p10_seg6|].
  destruct Hc as [Hc|Hc]; [subst i; vm_compute in Ha, Hb; injection Ha as <-; injection Hb as <-; exact sigmoid_p10_seg7|].
  destruct Hc as [Hc|Hc]; [subst i; vm_compute in Ha, Hb; injection Ha as <-; injection Hb as <-; exact sigmoid_p10_seg8|].
  destruct Hc as [Hc|Hc]; [subst i; vm_compute in Ha, Hb; injection Ha as <-; injection Hb as <-; exact sigmoid_p10_seg9|].
  destruct Hc as [Hc|Hc]; [subst i; vm_compute in Ha, Hb; injection Ha as <-; injection Hb as <-; exact sigmoid_p10_seg10|].
  destruct Hc as [Hc|Hc]; [subst i; vm_compute in Ha, Hb; injection Ha as <-; injection Hb as <-; exact sigmoid_p10_seg11|].
  destruct Hc as [Hc|Hc]; [subst i; vm_compute in Ha, Hb; injection Ha as <-; injection Hb as <-; exact sigmoid_p10_seg12|].
  destruct Hc as [Hc|Hc]; [subst i; vm_compute in Ha, Hb; injection Ha as <-; injection Hb as <-; exact sigmoid_p10_seg13|].
  destruct Hc as [Hc|Hc]; [subst i; vm_compute in Ha, Hb; injection Ha as <-; injection Hb as <-; exact sigmoid_p10_seg14|].
  destruct Hc as [Hc|Hc]; [subst i; vm_compute in Ha, Hb; injection Ha as <-; injection Hb as <-; exact sigmoid_p10_seg15|].
  destruct Hc as [Hc|Hc]; [subst i; vm_compute in Ha, Hb; injection Ha as <-; injection Hb as <-; exact sigmoid_p10_seg16|].
  destruct Hc as [Hc|Hc]; [subst i; vm_compute in Ha, Hb; injection Ha as <-; injection Hb as <-; exact sigmoid_p10_seg17|].
  destruct Hc as [Hc|Hc]; [subst i; vm_compute in Ha, Hb; injection Ha as <-; injection Hb as <-; exact sigmoid_p10_seg18|].
  destruct Hc as [Hc|Hc]; [subst i; vm_compute in Ha, Hb; injection Ha as <-; injection Hb as <-; exact sigmoid_p10_seg19|].
  destruct Hc as [Hc|Hc]; [subst i; vm_compute in Ha, Hb; injection Ha as <-; injection Hb as <-; exact sigmoid_p10_seg20|].
  destruct Hc as [Hc|Hc]; [subst i; vm_compute in Ha, Hb; injection Ha as <-; injection Hb as <-; exact sigmoid_p10_seg21|].
  destruct Hc as [Hc|Hc]; [subst i; vm_compute in Ha, Hb; injection Ha as <-; injection Hb as <-; exact sigmoid_p10_seg22|].
  destruct Hc as [Hc|Hc]; [subst i; vm_compute in Ha, Hb; injection Ha as <-; injection Hb as <-; exact sigmoid_p10_seg23|].
  destruct Hc as [Hc|Hc]; [subst i; vm_compute in Ha, Hb; injection Ha as <-; injection Hb as <-; exact sigmoid_p10_seg24|].
  destruct Hc as [Hc|Hc]; [subst i; vm_compute in Ha, Hb; injection Ha as <-; injection Hb as <-; exact sigmoid_p10_seg25|].
  destruct Hc as [Hc|Hc]; [subst i; vm_compute in Ha, Hb; injection Ha as <-; injection Hb as <-; exact sigmoid_p10_seg26|].
  destruct Hc as [Hc|Hc]; [subst i; vm_compute in Ha, Hb; injection Ha as <-; injection Hb as <-; exact sigmoid_p10_seg27|].
  destruct Hc as [Hc|Hc]; [subst i; vm_compute in Ha, Hb; injection Ha as <-; injection Hb as <-; exact sigmoid_p10_seg28|].
  destruct Hc as [Hc|Hc]; [subst i; vm_compute in Ha, Hb; injection Ha as <-; injection Hb as <-; exact sigmoid_p10_seg29|].
  destruct Hc as [Hc|Hc]; [subst i; vm_compute in Ha, Hb; injection Ha as <-; injection Hb as <-; exact sigmoid_p10_seg30|].
  destruct Hc as [Hc|Hc]; [subst i; vm_compute in Ha, Hb; injection Ha as <-; injection Hb as <-; exact sigmoid_p10_seg31|].
  subst i; vm_compute in Ha, Hb; injection Ha as <-; injection Hb as <-; exact sigmoid_p10_seg32.
Qed.

(* Generated (harness/src/c20.rs, tier gen): interval proofs for the committed table sigmoid_p15. *)
From Coq Require Import Reals.
From Interval Require Import Tactic.
From CC Require Import Base.Prelude Model.PwlData Proofs.PwlReal.
Open Scope R_scope.

Lemma sigmoid_p15_seg1 : seg_bound sigmoid_fn (0) (45/10000) 32768 1073741824 (-278528) (-245760) 16 4521984.
Proof. unfold seg_bound, sigmoid_fn. intros x Hx; apply Rabs_le; split; apply Rminus_le; interval with (i_bisect x, i_taylor x, i_prec 53). Qed.
Lemma sigmoid_p15_seg2 : seg_bound sigmoid_fn (0) (45/10000) 32768 1073741824 (-245760) (-229376) 22 5996544.
Proof. unfold seg_bound, sigmoid_fn. intros x Hx; apply Rabs_le; split; apply Rminus_le; interval with (i_bisect x, i_taylor x, i_prec 53). Qed.
Lemma sigmoid_p15_seg3 : seg_bound sigmoid_fn (0) (45/10000) 32768 1073741824 (-229376) (-212992) 40 10125312.
Proof. unfold seg_bound, sigmoid_fn. intros x Hx; apply Rabs_le; split; apply Rminus_le; interval with (i_bisect x, i_taylor x, i_prec 53). Qed.
Lemma sigmoid_p15_seg4 : seg_bound sigmoid_fn (0) (45/10000) 32768 1073741824 (-212992) (-196608) 64 15237120.
Proof. unfold seg_bound, sigmoid_fn. intros x Hx; apply Rabs_le; split; apply Rminus_le; interval with (i_bisect x, i_taylor x, i_prec 53). Qed.
Lemma sigmoid_p15_seg5 : seg_bound sigmoid_fn (0) (45/10000) 32768 1073741824 (-196608) (-180224) 104 23101440.
Proof. unfold seg_bound, sigmoid_fn. intros x Hx; apply Rabs_le; split; apply Rminus_le; interval with (i_bisect x, i_taylor x, i_prec 53). Qed.
Lemma sigmoid_p15_seg6 : seg_bound sigmoid_fn (0) (45/10000) 32768 1073741824 (-180224) (-163840) 172 35356672.
Proof. unfold seg_bound, sigmoid_fn. intros x Hx; apply Rabs_le; split; apply Rminus_le; interval with (i_bisect x, i_taylor x, i_prec 53). Qed.
Lemma sigmoid_p15_seg7 : seg_bound sigmoid_fn (0) (45/10000) 32768 1073741824 (-163840) (-147456) 282 53379072.
Proof. unfold seg_bound, sigmoid_fn. intros x Hx; apply Rabs_le; split; apply Rminus_le; interval with (i_bisect x, i_taylor x, i_prec 53). Qed.
Lemma sigmoid_p15_seg8 : seg_bound sigmoid_fn (0) (45/10000) 32768 1073741824 (-147456) (-131072) 458 79331328.
Proof. unfold seg_bound, sigmoid_fn. intros x Hx; apply Rabs_le; split; apply Rminus_le; interval with (i_bisect x, i_taylor x, i_prec 53). Qed.
Lemma sigmoid_p15_seg9 : seg_bound sigmoid_fn (0) (45/10000) 32768 1073741824 (-131072) (-114688) 742 116555776.
Proof. unfold seg_bound, sigmoid_fn. intros x Hx; apply Rabs_le; split; apply Rminus_le; interval with (i_bisect x, i_taylor x, i_prec 53). Qed.
Lemma sigmoid_p15_seg10 : seg_bound sigmoid_fn (0) (45/10000) 32768 1073741824 (-114688) (-98304) 1188 167706624.
Proof. unfold seg_bound, sigmoid_fn. intros x Hx; apply Rabs_le; split; apply Rminus_le; interval with (i_bisect x, i_taylor x, i_prec 53). Qed.
Lemma sigmoid_p15_seg11 : seg_bound sigmoid_fn (0) (45/10000) 32768 1073741824 (-98304) (-81920) 1862 233963520.
Proof. unfold seg_bound, sigmoid_fn. intros x Hx; apply Rabs_le; split; apply Rminus_le; interval with (i_bisect x, i_taylor x, i_prec 53). Qed.
Lemma sigmoid_p15_seg12 : seg_bound sigmoid_fn (0) (45/10000) 32768 1073741824 (-81920) (-65536) 2842 314245120.
Proof. unfold seg_bound, sigmoid_fn. intros x Hx; apply Rabs_le; split; apply Rminus_le; interval with (i_bisect x, i_taylor x, i_prec 53). Qed.
Lemma sigmoid_p15_seg13 : seg_bound sigmoid_fn (0) (45/10000) 32768 1073741824 (-65536) (-49152) 4142 399441920.
Proof. unfold seg_bound, sigmoid_fn. intros x Hx; apply Rabs_le; split; apply Rminus_le; interval with (i_bisect x, i_taylor x, i_prec 53). Qed.
Lemma sigmoid_p15_seg14 : seg_bound sigmoid_fn (0) (45/10000) 32768 1073741824 (-49152) (-32768) 5670 474546176.
Proof. unfold seg_bound, sigmoid_fn. intros x Hx; apply Rabs_le; split; apply Rminus_le; interval with (i_bisect x, i_taylor x, i_prec 53). Qed.
Lemma sigmoid_p15_seg15 : seg_bound sigmoid_fn (0) (45/10000) 32768 1073741824 (-32768) (-16384) 7118 521994240.
Proof. unfold seg_bound, sigmoid_fn. intros x Hx; apply Rabs_le; split; apply Rminus_le; interval with (i_bisect x, i_taylor x, i_prec 53). Qed.
Lemma sigmoid_p15_seg16 : seg_bound sigmoid_fn (0) (45/10000) 32768 1073741824 (-16384) 0 8026 536870912.
Proof. unfold seg_bound, sigmoid_fn. intros x Hx; apply Rabs_le; split; apply Rminus_le; interval with (i_bisect x, i_taylor x, i_prec 53). Qed.
Lemma sigmoid_p15_seg17 : seg_bound sigmoid_fn (0) (45/10000) 32768 1073741824 0 16384 8024 536870912.
Proof. unfold seg_bound, sigmoid_fn. intros x Hx; apply Rabs_le; split; apply Rminus_le; interval with (i_bisect x, i_taylor x, i_prec 53). Qed.
Lemma sigmoid_p15_seg18 : seg_bound sigmoid_fn (0) (45/10000) 32768 1073741824 16384 32768 7118 551714816.
Proof. unfold seg_bound, sigmoid_fn. intros x Hx; apply Rabs_le; split; apply Rminus_le; interval with (i_bisect x, i_taylor x, i_prec 53). Qed.
Lemma sigmoid_p15_seg19 : seg_bound sigmoid_fn (0) (45/10000) 32768 1073741824 32768 49152 5670 599162880.
Proof. unfold seg_bound, sigmoid_fn. intros x Hx; apply Rabs_le; split; apply Rminus_le; interval with (i_bisect x, i_taylor x, i_prec 53). Qed.
Lemma sigmoid_p15_seg20 : seg_bound sigmoid_fn (0) (45/10000) 32768 1073741824 49152 65536 4142 674267136.
Proof. unfold seg_bound, sigmoid_fn. intros x Hx; apply Rabs_le; split; apply Rminus_le; interval with (i_bisect x, i_taylor x, i_prec 53). Qed.
Lemma sigmoid_p15_seg21 : seg_bound sigmoid_fn (0) (45/10000) 32768 1073741824 65536 81920 2842 759463936.
Proof. unfold seg_bound, sigmoid_fn. intros x Hx; apply Rabs_le; split; apply Rminus_le; interval with (i_bisect x, i_taylor x, i_prec 53). Qed.
Lemma sigmoid_p15_seg22 : seg_bound sigmoid_fn (0) (45/10000) 32768 1073741824 81920 98304 1862 839745536.
Proof. unfold seg_bound, sigmoid_fn. intros x Hx; apply Rabs_le; split; apply Rminus_le; interval with (i_bisect x, i_taylor x, i_prec 53). Qed.
Lemma sigmoid_p15_seg23 : seg_bound sigmoid_fn (0) (45/10000) 32768 1073741824 98304 114688 1188 906002432.
Proof. unfold seg_bound, sigmoid_fn. intros x Hx; apply Rabs_le; split; apply Rminus_le; interval with (i_bisect x, i_taylor x, i_prec 53). Qed.
Lemma sigmoid_p15_seg24 : seg_bound sigmoid_fn (0) (45/10000) 32768 1073741824 114688 131072 742 957153280.
Proof. unfold seg_bound, sigmoid_fn. intros x Hx; apply Rabs_le; split; apply Rminus_le; interval with (i_bisect x, i_taylor x, i_prec 53). Qed.
Lemma sigmoid_p15_seg25 : seg_bound sigmoid_fn (0) (45/10000) 32768 1073741824 131072 147456 458 994377728.
Proof. unfold seg_bound, sigmoid_fn. intros x Hx; apply Rabs_le; split; apply Rminus_le; interval with (i_bisect x, i_taylor x, i_prec 53). Qed.
Lemma sigmoid_p15_seg26 : seg_bound sigmoid_fn (0) (45/10000) 32768 1073741824 147456 163840 282 1020329984.
Proof. unfold seg_bound, sigmoid_fn. intros x Hx; apply Rabs_le; split; apply Rminus_le; interval with (i_bisect x, i_taylor x, i_prec 53). Qed.
Lemma sigmoid_p15_seg27 : seg_bound sigmoid_fn (0) (45/10000) 32768 1073741824 163840 180224 172 1038352384.
Proof. unfold seg_bound, sigmoid_fn. intros x Hx; apply Rabs_le; split; apply Rminus_le; interval with (i_bisect x, i_taylor x, i_prec 53). Qed.
Lemma sigmoid_p15_seg28 : seg_bound sigmoid_fn (0) (45/10000) 32768 1073741824 180224 196608 104 1050607616.
Proof. unfold seg_bound, sigmoid_fn. intros x Hx; apply Rabs_le; split; apply Rminus_le; interval with (i_bisect x, i_taylor x, i_prec 53). Qed.
Lemma sigmoid_p15_seg29 : seg_bound sigmoid_fn (0) (45/10000) 32768 1073741824 196608 212992 64 1058471936.
Proof. unfold seg_bound, sigmoid_fn. intros x Hx; apply Rabs_le; split; apply Rminus_le; interval with (i_bisect x, i_taylor x, i_prec 53). Qed.
Lemma sigmoid_p15_seg30 : seg_bound sigmoid_fn (0) (45/10000) 32768 1073741824 212992 229376 40 1063583744.
Proof. unfold seg_bound, sigmoid_fn. intros x Hx; apply Rabs_le; split; apply Rminus_le; interval with (i_bisect x, i_taylor x, i_prec 53). Qed.
Lemma sigmoid_p15_seg31 : seg_bound sigmoid_fn (0) (45/10000) 32768 1073741824 229376 245760 22 1067712512.
Proof. unfold seg_bound, sigmoid_fn. intros x Hx; apply Rabs_le; split; apply Rminus_le; interval with (i_bisect x, i_taylor x, i_prec 53). Qed.
Lemma sigmoid_p15_seg32 : seg_bound sigmoid_fn (0) (45/10000) 32768 1073741824 245760 262144 16 1069187072.
Proof. unfold seg_bound, sigmoid_fn. intros x Hx; apply Rabs_le; split; apply Rminus_le; interval with (i_bisect x, i_taylor x, i_prec 53). Qed.

Lemma sigmoid_p15_table : table_bound sigmoid_fn (0) (45/10000) 15 sigmoid_p15_lb sigmoid_p15_left sigmoid_p15_divisor sigmoid_p15_alphas sigmoid_p15_betas.
Proof.
  unfold table_bound. intros i a b Hi Ha Hb.
  change (2 ^ sigmoid_p15_lb)%Z with 32%Z in Hi.
  assert (Hc : (i = 1 \/ i = 2 \/ i = 3 \/ i = 4 \/ i = 5 \/ i = 6 \/ i = 7 \/ i = 8 \/ i = 9 \/ i = 10 \/ i = 11 \/ i = 12 \/ i = 13 \/ i = 14 \/ i = 15 \/ i = 16 \/ i = 17 \/ i = 18 \/ i = 19 \/ i = 20 \/ i = 21 \/ i = 22 \/ i = 23 \/ i = 24 \/ i = 25 \/ i = 26 \/ i = 27 \/ i = 28 \/ i = 29 \/ i = 30 \/ i = 31 \/ i = 32)%Z) by lia.
  destruct Hc as [Hc|Hc]; [subst i; vm_compute in Ha, Hb; injection Ha as <-; injection Hb as <-; exact sigmoid_p15_seg1|].
  destruct Hc as [Hc|Hc]; [subst i; vm_compute in Ha, Hb; injection Ha as <-; injection Hb as <-; exact sigmoid_p15_seg2|].
  destruct Hc as [Hc|Hc]; [subst i; vm_compute in Ha, Hb; injection Ha as <-; injection Hb as <-; exact sigmoid_p15_seg3|].
  destruct Hc as [Hc|Hc]; [subst i; vm_compute in Ha, Hb; injection Ha as <-; injection Hb as <-; exact sigmoid_p15_seg4|].
  destruct Hc as [Hc|Hc]; [subst i; vm_compute in Ha, Hb; injection Ha as <-; injection Hb as <-; exact sigmoid_p15_seg5|].
  destruct Hc as [Hc|Hc]; [subst i; vm_compute in Ha, Hb; injection Ha as <-; injection Hb as <-; exact sigmoid_p15_seg6|].
  destruct Hc as [Hc|Hc]; [subst i; vm_compute in Ha, Hb; injection Ha as <-; injection Hb as <-; exact sigmoid_p15_seg7|].
  destruct Hc as [Hc|Hc]; [subst i; vm_compute in Ha, Hb; injection Ha as <-; injection Hb as <-; exact sigmoid_p15_seg8|].
  destruct Hc as [Hc|Hc]; [subst i; vm_compute in Ha, Hb; injection Ha as <-; injection Hb as <-; exact sigmoid_p15_seg9|].
  destruct Hc as [Hc|Hc]; [subst i; vm_compute in Ha, Hb; injection Ha as <-; injection Hb as <-; exact sigmoid_p15_seg10|].
  destruct Hc as [Hc|Hc]; [subst i; vm_compute in Ha, Hb; injection Ha as <-; injection Hb as <-; exact sigmoid_p15_seg11|].
  destruct Hc as [Hc|Hc]; [subst i; vm_compute in Ha, Hb; injection Ha as <-; injection Hb as <-; exact sigmoid_p15_seg12|].
  destruct Hc as [Hc|Hc]; [subst i; vm_compute in Ha, Hb; injection Ha as <-; injection Hb as <-; exact sigmoid_p15_seg13|].
  destruct Hc as [Hc|Hc]; [subst i; vm_compute in Ha, Hb; injection Ha as <-; injection Hb as <-; exact sigmoid_p15_seg14|].
  destruct Hc as [Hc|Hc]; [subst i; vm_compute in Ha, Hb; injection Ha as <-; injection Hb as <-; exact sigmoid_p15_seg15|].
  destruct Hc as [Hc|Hc]; [subst i; vm_compute in Ha, Hb; injection Ha as <-; injection Hb as <-; exact sigmoid_p15_seg16|].
  destruct Hc as [Hc|Hc]; [subst i; vm_compute in Ha, Hb; injection Ha as <-; injection Hb as <-; exact sigmoid_p15_seg17|].
  destruct Hc as [Hc|Hc]; [subst i; vm_compute in Ha, Hb; injection Ha as <-; injection Hb as <-; exact sigmoid_p15_seg18|].
  destruct Hc as [Hc|Hc]; [subst i; vm_compute in Ha, Hb; injection Ha as <-; injection Hb as <-; exact sigmoid_p15_seg19|].
  destruct Hc as [Hc|Hc]; [subst i; vm_compute in Ha, Hb; injection Ha as <-; injection Hb as <-; exact sigmoid_p15_seg20|].
  destruct Hc as [Hc|Hc]; [subst i; vm_compute in Ha, Hb; injection Ha as <-; injection Hb as <-; exact sigmoid_p15_seg21|].
  destruct Hc as [Hc|Hc]; [subst i; vm_compute in Ha, Hb; injection Ha as <-; injection Hb as <-; exact sigmoid_p15_seg22|].
  destruct Hc as [Hc|Hc]; [subst i; vm_compute in Ha, Hb; injection Ha as <-; injection Hb as <-; exact sigmoid_p15_seg23|].
  destruct Hc as [Hc|Hc]; [subst i; vm_compute in Ha, Hb; injection Ha as <-; injection Hb as <-; exact sigmoid_p15_seg24|].
  destruct Hc as [Hc|Hc]; [subst i; vm_compute in Ha, Hb; injection Ha as <-; injection Hb as <-; exact sigmoid_p15_seg25|].
  destruct Hc as [Hc|Hc]; [subst i; vm_compute in Ha, Hb; injection Ha as <-; injection Hb as <-; exact sigmoid_p15_seg26|].
  destruct Hc as [Hc|Hc]; [subst i; vm_compute in Ha, Hb; injection Ha as <-; injection Hb as <-; exact sigmoid_p15_seg27|].
  destruct Hc as [Hc|Hc]; [subst i; vm_compute in Ha, Hb; injection Ha as <-; injection Hb as <-; exact sigmoid_p15_seg28|].
  destruct Hc as [Hc|Hc]; [subst i; vm_compute in Ha, Hb; injection Ha as <-; injection Hb as <-; exact sigmoid_p15_seg29|].
  destruct Hc as [Hc|Hc]; [subst i; vm_compute in Ha, Hb; injection Ha as <-; injection Hb as <-; exact sigmoid_p15_seg30|].
  destruct Hc as [Hc|Hc]; [subst i; vm_compute in Ha, Hb; injection Ha as <-; injection Hb as <-; exact sigmoid_p15_seg31|].
  subst i; vm_compute in Ha, Hb; injection Ha as <-; injection Hb as <-; exact sigmoid_p15_seg32.
Qed.

(* C09 preservation: Reshape (flatten_value / unflatten_value against flatten_type). *)
From CC Require Import Base.Prelude Base.Scalar Base.Ty Base.Shape Graph.Value Graph.IR Graph.Eval
  Graph.Typing Proofs.EvalProofs Proofs.TypingBase Proofs.TypingTuple.

(* ------------------------------------------------------------------ flatten_value is typed by flatten_type *)
Lemma flatten_value_typed t : forall v, ty_u64 t = true -> ht v t ->
  Forall2 ht (flatten_value v) (flatten_type t).
Proof.
  induction t as [s|sh s|n t IH|ts IH|fs IH] using ty_ind'; intros v Hu Hv.
  - destruct v; [|discriminate]. cbn. constructor; [exact Hv| constructor].
  - destruct v; [|discriminate]. cbn. constructor; [exact Hv| constructor].
  - destruct (has_type_tup_inv v (TVector n t) eq_refl Hv) as (vs & ->).
    apply has_type_vector in Hv as [L F]. cbn [ty_u64] in Hu. btrue.
    cbn [flatten_value flatten_type]. replace (Z.to_nat n) with (length vs) by lia. clear L.
    induction F as [|x vs Hx _ IHF]; cbn [flat_map length repeat concat]; [constructor|].
    apply Forall2_app; auto.
  - destruct (has_type_tup_inv v (TTuple ts) eq_refl Hv) as (vs & ->).
    apply has_type_tuple in Hv. cbn [ty_u64] in Hu. cbn [flatten_value flatten_type].
    revert Hu IH. induction Hv as [|x t vs ts Hx _ IHF]; intros Hu IH; cbn [flat_map]; [constructor|].
    cbn [forallb] in Hu. btrue. inversion IH; subst. apply Forall2_app; auto.
  - destruct (has_type_tup_inv v (TNamed fs) eq_refl Hv) as (vs & ->).
    apply has_type_named in Hv. cbn [ty_u64] in Hu. cbn [flatten_value flatten_type].
    revert vs Hv Hu. induction IH as [|f fs Hf _ IHF]; intros vs Hv Hu; cbn [map] in Hv; inversion Hv; subst;
      cbn [flat_map]; [constructor|].
    cbn [forallb] in Hu. btrue. apply Forall2_app; auto.
Qed.

(* ------------------------------------------------------------------ flatten_type_size counts the leaves *)
Lemma chk64_ok x y : chk64 x = Ok y -> y = x.
Proof. unfold chk64. destruct (x <=? u64_max); intros H; inversion H; auto. Qed.

Lemma fold_size_err {X} (g : X -> result Z) l :
  fold_left (fun acc x => let* a := acc in let* e := g x in chk64 (a + e)) l Err = Err.
Proof. induction l; cbn; auto. Qed.
Lemma fold_size_other {X} (g : X -> result Z) l r :
  (r = Panic \/ r = OutOfFuel) ->
  fold_left (fun acc x => let* a := acc in let* e := g x in chk64 (a + e)) l r = r.
Proof. intros [-> | ->]; induction l; cbn; auto. Qed.

Lemma fold_size_sum {X} (g : X -> result Z) (len : X -> nat) l :
  Forall (fun x => forall n, g x = Ok n -> n = Z.of_nat (len x)) l ->
  forall a0 n, fold_left (fun acc x => let* a := acc in let* e := g x in chk64 (a + e)) l (Ok a0) = Ok n ->
  n = a0 + Z.of_nat (length (flat_map (fun x => repeat tt (len x)) l)).
Proof.
  induction 1 as [|x l Hx _ IH]; intros a0 n H; cbn [fold_left flat_map] in *.
  - inversion H. cbn. lia.
  - cbn [bind] in H. destruct (g x) as [e| | |] eqn:E; cbn [bind] in H.
    + destruct (chk64 (a0 + e)) as [a1| | |] eqn:C.
      * apply chk64_ok in C. subst a1. rewrite (IH _ _ H), app_length, repeat_length, (Hx e eq_refl). lia.
      * now rewrite fold_size_err in H.
      * rewrite fold_size_other in H by auto. discriminate.
      * rewrite fold_size_other in H by auto. discriminate.
    + now rewrite fold_size_err in H.
    + rewrite fold_size_other in H by auto. discriminate.
    + rewrite fold_size_other in H by auto. discriminate.
Qed.

Lemma length_flat_map_units {X Y} (f : X -> list Y) l :
  length (flat_map (fun x => repeat tt (length (f x))) l) = length (flat_map f l).
Proof. induction l as [|x l IH]; cbn; [reflexivity|]. now rewrite !app_length, repeat_length, IH. Qed.

Lemma length_concat_repeat {Y} (l : list Y) k : length (concat (repeat l k)) = (k * length l)%nat.
Proof. induction k; cbn; [reflexivity|]. rewrite app_length. lia. Qed.

Lemma flatten_type_size_length t : ty_u64 t = true -> forall n,
  flatten_type_size t = Ok n -> n = Z.of_nat (length (flatten_type t)).
Proof.
  induction t as [s|sh s|m t IH|ts IH|fs IH] using ty_ind'; intros Hu n H; cbn [flatten_type_size flatten_type] in *.
  - inversion H. reflexivity.
  - inversion H. reflexivity.
  - cbn [ty_u64] in Hu. btrue. destruct (m =? 0) eqn:M.
    + inversion H. replace (Z.to_nat m) with O by lia. reflexivity.
    + apply bind_ok in H as (e & Ee & H). apply chk64_ok in H. subst n.
      rewrite length_concat_repeat, (IH H1 _ Ee). nia.
  - cbn [ty_u64] in Hu.
    rewrite (fold_size_sum flatten_type_size (fun t => length (flatten_type t)) ts) with (a0 := 0) (n := n); auto.
    + now rewrite length_flat_map_units.
    + rewrite forallb_forall in Hu. rewrite Forall_forall in IH. apply Forall_forall. intros t Ht. apply IH; auto.
  - cbn [ty_u64] in Hu.
    rewrite (fold_size_sum (fun p : string * ty => flatten_type_size (snd p))
               (fun p => length (flatten_type (snd p))) fs) with (a0 := 0) (n := n); auto.
    + now rewrite (length_flat_map_units (fun p : string * ty => flatten_type (snd p))).
    + rewrite forallb_forall in Hu. rewrite Forall_forall in IH. apply Forall_forall. intros p Hp. apply IH; auto.
Qed.

(* ------------------------------------------------------------------ atomic reshapes *)
Definition reshapes (a b : ty) : Prop := can_atomic_reshape a b = Ok true.

Lemma all_atomic_reshape_forall2 v1 : forall v2, length v1 = length v2 ->
  all_atomic_reshape v1 v2 = Ok true -> Forall2 reshapes v1 v2.
Proof.
  induction v1 as [|a v1 IH]; intros [|b v2] L H; cbn in L; try lia; [constructor|].
  cbn [all_atomic_reshape] in H. apply bind_ok in H as (c & Ec & H). destruct c; [|discriminate].
  constructor; [exact Ec| apply IH; auto].
Qed.

Lemma reshapes_has_type a b v : reshapes a b -> ht v a -> ht v b.
Proof.
  unfold reshapes, can_atomic_reshape. intros H Hv.
  destruct (is_leaf a) eqn:La; [|discriminate]. destruct (is_leaf b) eqn:Lb; [|discriminate].
  cbn [negb orb] in H.
  destruct (scalar_eqb (st_of a) (st_of b)) eqn:S; cbn [negb] in H; [|discriminate]. apply scalar_eqb_eq in S.
  destruct (negb (is_scalar a) && negb (is_valid_shape (shape_of a))); [discriminate|].
  destruct (negb (is_scalar b) && negb (is_valid_shape (shape_of b))); [discriminate|].
  inversion H as [P]. clear H.
  destruct (has_type_leaf v a La Hv) as (es & -> & Le & Fe).
  assert (Pa : prod_list (dims a) = prod_list (shape_of a)) by (destruct a; try discriminate; reflexivity).
  assert (Pb : prod_list (dims b) = prod_list (shape_of b)) by (destruct b; try discriminate; reflexivity).
  apply leaf_has_type; auto; [lia| now rewrite <- S].
Qed.

(* ------------------------------------------------------------------ unflatten_value consumes exactly its leaves *)
Lemma flatten_type_leaves t : Forall (fun l => is_leaf l = true) (flatten_type t).
Proof.
  induction t as [s|sh s|n t IH|ts IH|fs IH] using ty_ind'; cbn [flatten_type].
  - repeat constructor.
  - repeat constructor.
  - induction (Z.to_nat n); cbn; [constructor| apply Forall_app; auto].
  - induction IH; cbn; [constructor| apply Forall_app; auto].
  - induction IH; cbn; [constructor| apply Forall_app; auto].
Qed.

Lemma unflatten_value_typed t : forall lv rest, ty_u64 t = true ->
  Forall2 ht lv (flatten_type t) ->
  exists v, unflatten_value t (lv ++ rest) = Ok (v, rest) /\ ht v t.
Proof.
  induction t as [s|sh s|n t IH|ts IH|fs IH] using ty_ind'; intros lv rest Hu F.
  - cbn [flatten_type] in F. inversion F as [|x ? ? ? Hx F']; subst. inversion F'; subst.
    cbn. eauto.
  - cbn [flatten_type] in F. inversion F as [|x ? ? ? Hx F']; subst. inversion F'; subst.
    cbn. eauto.
  - cbn [ty_u64] in Hu. btrue. cbn [flatten_type] in F. cbn [unflatten_value].
    assert (G : forall k lv rest, Forall2 ht lv (concat (repeat (flatten_type t) k)) ->
      exists vs, (fix go (k : nat) (flat : list value) {struct k} : result (list value * list value) :=
                    match k with
                    | O => Ok ([], flat)
                    | S k' => let* (v, r) := unflatten_value t flat in
                              let* (vs, r') := go k' r in Ok (v :: vs, r')
                    end) k (lv ++ rest) = Ok (vs, rest) /\ length vs = k /\ Forall (fun v => ht v t) vs).
    { induction k as [|k IHk]; intros lv0 rest0 F0; cbn [repeat concat] in F0.
      - inversion F0; subst. exists []. cbn. auto.
      - apply Forall2_app_inv_r in F0 as (l1 & l2 & F1 & F2 & ->).
        destruct (IH l1 (l2 ++ rest0) H0 F1) as (v & Ev & Hv). rewrite <- app_assoc, Ev. cbn [bind].
        destruct (IHk l2 rest0 F2) as (vs & Evs & Lvs & Fvs). rewrite Evs. cbn [bind].
        exists (v :: vs). cbn [length]. repeat split; auto. }
    destruct (G (Z.to_nat n) lv rest F) as (vs & -> & Lvs & Fvs). cbn [bind].
    eexists. split; [reflexivity|]. apply has_type_vector. split; [lia| exact Fvs].
  - cbn [ty_u64] in Hu. cbn [flatten_type] in F. cbn [unflatten_value].
    assert (G : forall lv rest, Forall2 ht lv (flat_map flatten_type ts) ->
      exists vs, (fix go (ts : list ty) (flat : list value) {struct ts} : result (list value * list value) :=
                    match ts with
                    | [] => Ok ([], flat)
                    | t1 :: ts' => let* (v, r) := unflatten_value t1 flat in
                                   let* (vs, r') := go ts' r in Ok (v :: vs, r')
                    end) ts (lv ++ rest) = Ok (vs, rest) /\ Forall2 ht vs ts).
    { clear F lv rest. revert Hu. induction IH as [|t1 ts H1 _ IHts]; intros Hu lv0 rest0 F0; cbn [flat_map] in F0.
      - inversion F0; subst. exists []. cbn. auto.
      - cbn [forallb] in Hu. btrue.
        apply Forall2_app_inv_r in F0 as (l1 & l2 & F1 & F2 & ->).
        destruct (H1 l1 (l2 ++ rest0) H F1) as (v & Ev & Hv). rewrite <- app_assoc, Ev. cbn [bind].
        destruct (IHts H0 l2 rest0 F2) as (vs & Evs & Fvs). rewrite Evs. cbn [bind].
        exists (v :: vs). split; [reflexivity| constructor; auto]. }
    destruct (G lv rest F) as (vs & -> & Fvs). cbn [bind].
    eexists. split; [reflexivity|]. now apply has_type_tuple.
  - cbn [ty_u64] in Hu. cbn [flatten_type] in F. cbn [unflatten_value].
    assert (G : forall lv rest, Forall2 ht lv (flat_map (fun p : string * ty => flatten_type (snd p)) fs) ->
      exists vs, (fix go (fs : list (string * ty)) (flat : list value) {struct fs} : result (list value * list value) :=
                    match fs with
                    | [] => Ok ([], flat)
                    | f :: fs' => let* (v, r) := unflatten_value (snd f) flat in
                                  let* (vs, r') := go fs' r in Ok (v :: vs, r')
                    end) fs (lv ++ rest) = Ok (vs, rest) /\ Forall2 ht vs (map snd fs)).
    { clear F lv rest. revert Hu. induction IH as [|f fs H1 _ IHfs]; intros Hu lv0 rest0 F0; cbn [flat_map] in F0.
      - inversion F0; subst. exists []. cbn. auto.
      - cbn [forallb] in Hu. btrue.
        apply Forall2_app_inv_r in F0 as (l1 & l2 & F1 & F2 & ->).
        destruct (H1 l1 (l2 ++ rest0) H F1) as (v & Ev & Hv). rewrite <- app_assoc, Ev. cbn [bind].
        destruct (IHfs H0 l2 rest0 F2) as (vs & Evs & Fvs). rewrite Evs. cbn [bind].
        exists (v :: vs). split; [reflexivity| cbn [map]; constructor; auto]. }
    destruct (G lv rest F) as (vs & -> & Fvs). cbn [bind].
    eexists. split; [reflexivity|]. now apply has_type_named.
Qed.

Lemma Forall2_reshape lv l1 l2 : Forall2 ht lv l1 -> Forall2 reshapes l1 l2 -> Forall2 ht lv l2.
Proof.
  intros H. revert l2. induction H as [|v a lv l1 Hv _ IH]; intros l2 R; inversion R; subst; constructor.
  - eapply reshapes_has_type; eauto.
  - auto.
Qed.

Lemma preserves_reshape new_t : preserves (OReshape new_t).
Proof.
  intros ts t vs Hu H HF. inv_infer H. apply zlen_eq in Harity. cbn [op_u64] in Hu.
  destruct (one_dep _ _ Harity HF) as (v & t0 & -> & -> & Hv & Hok).
  cbn [nth] in H. cbn [eval_node nth nth_res bind].
  apply bind_ok in H as (n1 & E1 & H). apply bind_ok in H as (n2 & E2 & H).
  destruct (n1 =? n2) eqn:N; cbn [negb] in H; [|discriminate].
  apply bind_ok in H as (okb & Eb & H). destruct okb; cbn [negb] in H; [|discriminate].
  apply register_ok in H as [-> _].
  assert (Hu0 : ty_u64 t0 = true) by (unfold ty_ok in Hok; btrue; auto).
  apply (flatten_type_size_length _ Hu0) in E1. apply (flatten_type_size_length _ Hu) in E2.
  assert (L : length (flatten_type t0) = length (flatten_type new_t)) by lia.
  pose proof (all_atomic_reshape_forall2 _ _ L Eb) as R.
  pose proof (flatten_value_typed t0 v Hu0 Hv) as F.
  pose proof (Forall2_reshape _ _ _ F R) as F'.
  destruct (unflatten_value_typed new_t (flatten_value v) [] Hu F') as (v' & Ev & Hv').
  rewrite app_nil_r in Ev. rewrite Ev. cbn [bind safe_typed]. exact Hv'.
Qed.

(* Proofs about Model/Sort.v (C18), part 6: the ARITHMETIC of Algorithm 11 as the graph of
   mpc_radix_sort.rs:310 gen_multi_bit_sort_graph builds it (xor mask, one-hot columns by a
   product over the bit axis, cumulative sum over rows, exclusive cumulative sum over buckets of
   the last row, s * f summed over buckets, minus one) equals the counting formula
   [gen_multi_bit_sort] of the model, for every chunk width l and every table height n.

   [alg11_circuit] is a mathematical reading of that graph, node by node, on plaintext values
   (index functions instead of arrays).  It is defined here and not in Model/ because it is not
   run by the correspondence cases: the compiled graph is compared with the plaintext sort by
   differential execution only.  UINT32 arithmetic enters as the wrap function [w] applied after
   every UINT32 operation; the theorem needs w z = z on 0..n only, so it covers both unbounded
   integers (w = id) and UINT32 (w = . mod 2^32) for tables of fewer than 2^32 rows.  Sums are
   taken left to right; modulo 2^32 the order of a reduction does not matter. *)
From Coq Require Import Permutation Sorted.
From CC Require Import Base.Prelude Base.Scalar Model.Sort Proofs.SortProofs Proofs.PermProofs
  Proofs.RadixProofs Proofs.SortMultiBit.

(* ------------------------------------------------------------------ the circuit *)
(* cum_sum / custom_reduce(add) in UINT32: g 0 + ... + g (m-1), wrapped after every addition *)
Fixpoint sumW (w : Z -> Z) (g : nat -> Z) (m : nat) : Z :=
  match m with O => 0 | S m' => w (sumW w g m' + g m') end.
(* custom_reduce(multiply) in BIT *)
Fixpoint prodB (g : nat -> Z) (m : nat) : Z :=
  match m with O => 1 | S m' => (prodB g m' * g m') mod 2 end.

(* mpc_radix_sort.rs:316 const_bits: row t of xor_mask is written for k = l-1-t, entry v is
   1 iff v & (1 << k) == 0 *)
Definition xor_mask (l t v : nat) : Z := if Nat.testbit v (l - 1 - t) then 0 else 1.
(* d = input + xor_mask (BIT), f[v][i] = product over the bit axis; r is row i of the chunk *)
Definition onehot (l : nat) (r : list Z) (v : nat) : Z :=
  prodB (fun t => (nth t r 0 + xor_mask l t v) mod 2) l.
(* f = one.mixed_multiply(f^T) : UINT32 [n, num_values] *)
Definition c_f (w : Z -> Z) (l : nat) (k : list (list Z)) (i v : nat) : Z :=
  w (1 * onehot l (nth i k []) v).
(* f_prefix_sum = f.cum_sum(0) *)
Definition c_fps w l k (i v : nat) : Z := sumW w (fun j => c_f w l k j v) (S i).
(* last_row_prefix_sum = pad_left(f_prefix_sum[n-1].cum_sum(0)[..-1], 1) *)
Definition c_lrps w l (k : list (list Z)) (v : nat) : Z :=
  sumW w (fun u => c_fps w l k (length k - 1) u) v.
(* s = unsqueeze(last_row_prefix_sum, 0) + f_prefix_sum *)
Definition c_s w l k (i v : nat) : Z := w (c_lrps w l k v + c_fps w l k i v).
(* p = custom_reduce((s * f)^T, add) - one *)
Definition alg11_circuit (w : Z -> Z) (l : nat) (k : list (list Z)) : list Z :=
  map (fun i => w (sumW w (fun v => w (c_s w l k i v * c_f w l k i v)) (2 ^ l) - 1))
      (seq 0 (length k)).

(* the doc comment's example: input [[1,0],[0,0],[1,1]] (values 2, 0, 3) gives [1, 0, 2] *)
Example alg11_circuit_doc_example :
  alg11_circuit (fun z => z mod 2 ^ 32) 2 [[1; 0]; [0; 0]; [1; 1]] = [1; 0; 2] /\
  c_f (fun z => z) 2 [[1; 0]; [0; 0]; [1; 1]] 0 2 = 1 /\
  map (c_lrps (fun z => z) 2 [[1; 0]; [0; 0]; [1; 1]]) [0; 1; 2; 3]%nat = [0; 1; 1; 2] /\
  map (c_s (fun z => z) 2 [[1; 0]; [0; 0]; [1; 1]] 2) [0; 1; 2; 3]%nat = [1; 1; 2; 3].
Proof. vm_compute. repeat split; reflexivity. Qed.

(* ------------------------------------------------------------------ generic facts *)
Lemma prodB_ext g g' m : (forall t, (t < m)%nat -> g t = g' t) -> prodB g m = prodB g' m.
Proof.
  induction m as [|m IH]; intros H; cbn [prodB]; auto.
  rewrite IH by (intros t Ht; apply H; lia). rewrite (H m) by lia. reflexivity.
Qed.

Lemma count_if_le {A} (f : A -> bool) l : (count_if f l <= length l)%nat.
Proof.
  induction l as [|a l IH]; [apply Nat.le_refl|]. rewrite count_if_cons. cbn [length].
  destruct (f a); lia.
Qed.

Lemma count_if_single {A} (f : A -> bool) a : count_if f [a] = if f a then 1%nat else 0%nat.
Proof. unfold count_if. cbn [filter]. destruct (f a); reflexivity. Qed.

Lemma count_if_firstn_le {A} (f : A -> bool) m l : (count_if f (firstn m l) <= count_if f l)%nat.
Proof. rewrite <- (firstn_skipn m l) at 2. rewrite count_if_app. lia. Qed.

Lemma count_lt_succ xs v :
  count_if (fun y => y <? Z.of_nat (S v)) xs
  = Nat.add (count_if (fun y => y <? Z.of_nat v) xs) (count_if (fun y => y =? Z.of_nat v) xs).
Proof.
  rewrite <- count_if_or_disjoint.
  - apply count_if_ext_in. intros y _.
    destruct (Z.ltb_spec y (Z.of_nat (S v))), (Z.ltb_spec y (Z.of_nat v)),
      (Z.eqb_spec y (Z.of_nat v)); cbn; auto; lia.
  - intros y _. destruct (Z.ltb_spec y (Z.of_nat v)), (Z.eqb_spec y (Z.of_nat v)); cbn; auto; lia.
Qed.

Lemma count_lt_eq_le xs v m :
  Nat.le (Nat.add (count_if (fun y => y <? Z.of_nat v) xs)
                  (count_if (fun y => y =? Z.of_nat v) (firstn m xs))) (length xs).
Proof.
  pose proof (count_if_firstn_le (fun y => y =? Z.of_nat v) m xs).
  pose proof (count_lt_succ xs v). pose proof (count_if_le (fun y => y <? Z.of_nat (S v)) xs). lia.
Qed.

(* ------------------------------------------------------------------ one-hot *)
Lemma chunk_val_snoc r b : chunk_val (r ++ [b]) = 2 * chunk_val r + b.
Proof. unfold chunk_val. rewrite fold_left_app. reflexivity. Qed.

Lemma chunk_val_bound r : is_bits r -> 0 <= chunk_val r < Z.of_nat (2 ^ length r).
Proof.
  induction r as [|b r IH] using rev_ind; intros Hb.
  - change (chunk_val []) with 0. cbn [length Nat.pow]. lia.
  - apply Forall_app in Hb as [Hr Hb1]. inversion Hb1 as [|? ? Hb0 _]; subst.
    specialize (IH Hr). rewrite chunk_val_snoc, app_length. cbn [length].
    rewrite Nat.add_1_r, Nat.pow_succ_r', Nat2Z.inj_mul. lia.
Qed.

(* f[v][i] = 1 iff the value of row i (first bit most significant) is v *)
Lemma onehot_spec r : is_bits r -> forall v, (v < 2 ^ length r)%nat ->
  onehot (length r) r v = if chunk_val r =? Z.of_nat v then 1 else 0.
Proof.
  induction r as [|b r IH] using rev_ind; intros Hb v Hv.
  - cbn [length Nat.pow] in Hv. assert (v = 0%nat) by lia. subst v. reflexivity.
  - apply Forall_app in Hb as [Hr Hb1]. inversion Hb1 as [|? ? Hb0 _]; subst.
    rewrite app_length in *. cbn [length] in *. rewrite Nat.add_1_r in *.
    rewrite Nat.pow_succ_r' in Hv. pose proof (Nat.div2_odd v) as D.
    unfold onehot. cbn [prodB].
    rewrite (prodB_ext _ (fun t => (nth t r 0 + xor_mask (length r) t (Nat.div2 v)) mod 2)).
    2:{ intros t Ht. rewrite app_nth1 by lia. f_equal. f_equal. unfold xor_mask.
        replace (S (length r) - 1 - t)%nat with (S (length r - 1 - t)) by lia. reflexivity. }
    fold (onehot (length r) r (Nat.div2 v)). rewrite IH; auto.
    2:{ destruct (Nat.odd v); cbn [Nat.b2n] in D; lia. }
    rewrite app_nth2 by lia. rewrite Nat.sub_diag. cbn [nth].
    unfold xor_mask. replace (S (length r) - 1 - length r)%nat with 0%nat by lia.
    cbn [Nat.testbit]. rewrite chunk_val_snoc.
    destruct (Nat.odd v); cbn [Nat.b2n] in D;
      destruct (Z.eqb_spec (chunk_val r) (Z.of_nat (Nat.div2 v)));
      destruct (Z.eqb_spec (2 * chunk_val r + b) (Z.of_nat v));
      destruct Hb0; subst b; try (exfalso; lia); reflexivity.
Qed.

(* ------------------------------------------------------------------ sums under a wrap that is the identity on 0..n *)
Section Circuit.
  Variable w : Z -> Z.
  Variable n : nat.
  Hypothesis Hw : forall z, 0 <= z <= Z.of_nat n -> w z = z.

  Lemma sumW_ext g g' m : (forall j, (j < m)%nat -> g j = g' j) -> sumW w g m = sumW w g' m.
  Proof.
    induction m as [|m IH]; intros H; cbn [sumW]; auto.
    rewrite IH by (intros j Hj; apply H; lia). rewrite (H m) by lia. reflexivity.
  Qed.

  (* cumulative sum of an indicator column = count over the prefix *)
  Lemma sumW_count xs v m : (m <= length xs)%nat -> (length xs <= n)%nat ->
    sumW w (fun j => if nth j xs 0 =? v then 1 else 0) m
    = Z.of_nat (count_if (fun y => y =? v) (firstn m xs)).
  Proof.
    intros Hm Hn. induction m as [|m IH]; [reflexivity|].
    cbn [sumW]. rewrite IH by lia. rewrite (firstn_succ_nth 0 xs m) by lia.
    rewrite count_if_app, count_if_single.
    pose proof (count_if_le (fun y => y =? v) (firstn m xs)) as B. rewrite firstn_length in B.
    destruct (nth m xs 0 =? v); rewrite Hw; lia.
  Qed.

  (* exclusive cumulative sum over buckets of the per-bucket totals = count of smaller values *)
  Lemma sumW_lt_count xs v : (length xs <= n)%nat -> Forall (fun y => 0 <= y) xs ->
    sumW w (fun u => Z.of_nat (count_if (fun y => y =? Z.of_nat u) xs)) v
    = Z.of_nat (count_if (fun y => y <? Z.of_nat v) xs).
  Proof.
    intros Hn Hpos. induction v as [|v IH].
    - cbn [sumW]. rewrite (count_if_ext_in _ (fun _ => false)), count_if_false; [reflexivity|].
      intros y Hy. rewrite Forall_forall in Hpos. specialize (Hpos y Hy). apply Z.ltb_ge. lia.
    - cbn [sumW]. rewrite IH. rewrite (count_lt_succ xs v).
      pose proof (count_lt_succ xs v) as E.
      pose proof (count_if_le (fun y => y <? Z.of_nat (S v)) xs). rewrite Hw; lia.
  Qed.

  (* a sum with one non-zero term *)
  Lemma sumW_delta c a m : 0 <= a <= Z.of_nat n ->
    sumW w (fun v => if (v =? c)%nat then a else 0) m = if (c <? m)%nat then a else 0.
  Proof.
    intros Ha. induction m as [|m IH]; [reflexivity|]. cbn [sumW]. rewrite IH.
    destruct (Nat.ltb_spec c m), (Nat.eqb_spec m c), (Nat.ltb_spec c (S m)); try lia;
      rewrite Hw; lia.
  Qed.

  (* the graph's arithmetic = the model's counting formula *)
  Theorem alg11_circuit_counts l k :
    length k = n -> bit_table l k ->
    alg11_circuit w l k = map Z.of_nat (gen_multi_bit_sort k).
  Proof.
    intros Ln Hk. unfold bit_table in Hk. rewrite Forall_forall in Hk.
    unfold alg11_circuit, gen_multi_bit_sort. rewrite map_map, map_length, Ln.
    apply map_ext_in. intros i Hi. apply in_seq in Hi.
    set (xs := map chunk_val k).
    assert (Lxs : length xs = n) by (unfold xs; now rewrite map_length).
    assert (Hx : forall j, (j < n)%nat ->
              nth j xs 0 = chunk_val (nth j k []) /\ 0 <= nth j xs 0 < Z.of_nat (2 ^ l) /\
              length (nth j k []) = l /\ is_bits (nth j k [])).
    { intros j Hj. unfold xs. rewrite (nth_map_lt chunk_val k j [] 0) by lia.
      destruct (Hk (nth j k [])) as [L B]; [apply nth_In; lia|].
      pose proof (chunk_val_bound _ B) as Bd. rewrite L in Bd. auto. }
    assert (Hpos : Forall (fun y => 0 <= y) xs).
    { rewrite Forall_forall. intros y Hy. destruct (In_nth _ _ 0 Hy) as (j & Hj & <-).
      rewrite Lxs in Hj. apply (Hx j Hj). }
    (* f *)
    assert (F : forall j v, (j < n)%nat -> (v < 2 ^ l)%nat ->
              c_f w l k j v = if nth j xs 0 =? Z.of_nat v then 1 else 0).
    { intros j v Hj Hv. destruct (Hx j Hj) as (E & _ & L & B). unfold c_f.
      rewrite <- L at 1. rewrite onehot_spec by (auto; now rewrite L). rewrite <- E, Z.mul_1_l.
      apply Hw. destruct (nth j xs 0 =? Z.of_nat v); lia. }
    (* f_prefix_sum *)
    assert (FPS : forall i' v, (i' < n)%nat -> (v < 2 ^ l)%nat ->
              c_fps w l k i' v
              = Z.of_nat (count_if (fun y => y =? Z.of_nat v) (firstn (S i') xs))).
    { intros i' v Hi' Hv. unfold c_fps.
      rewrite (sumW_ext _ (fun j => if nth j xs 0 =? Z.of_nat v then 1 else 0))
        by (intros j Hj; apply F; lia).
      apply sumW_count; lia. }
    (* last_row_prefix_sum *)
    assert (LR : forall v, (v <= 2 ^ l)%nat ->
              c_lrps w l k v = Z.of_nat (count_if (fun y => y <? Z.of_nat v) xs)).
    { intros v Hv. unfold c_lrps.
      rewrite (sumW_ext _ (fun u => Z.of_nat (count_if (fun y => y =? Z.of_nat u) xs))).
      - apply sumW_lt_count; auto; lia.
      - intros u Hu. rewrite FPS by lia. rewrite Ln.
        replace (S (n - 1)) with n by lia. rewrite firstn_all2 by lia. reflexivity. }
    (* s *)
    assert (SS : forall v, (v < 2 ^ l)%nat ->
              c_s w l k i v
              = Z.of_nat (Nat.add (count_if (fun y => y <? Z.of_nat v) xs)
                                  (count_if (fun y => y =? Z.of_nat v) (firstn (S i) xs)))).
    { intros v Hv. unfold c_s. rewrite LR, FPS by lia.
      pose proof (count_lt_eq_le xs v (S i)). rewrite Hw; lia. }
    destruct (Hx i ltac:(lia)) as (_ & Bx & _).
    set (x := nth i xs 0) in *.
    set (A := Nat.add (count_if (fun y => y <? x) xs)
                      (count_if (fun y => y =? x) (firstn (S i) xs))).
    assert (HA : (1 <= A <= n)%nat).
    { unfold A. split.
      - rewrite (firstn_succ_nth 0 xs i) by lia. rewrite count_if_app, count_if_single.
        fold x. rewrite Z.eqb_refl. lia.
      - pose proof (count_lt_eq_le xs (Z.to_nat x) (S i)) as B.
        rewrite Z2Nat.id in B by lia. lia. }
    rewrite (sumW_ext _ (fun v => if (v =? Z.to_nat x)%nat then Z.of_nat A else 0)).
    2:{ intros v Hv. rewrite SS, F by lia. fold x.
        destruct (Nat.eqb_spec v (Z.to_nat x)) as [->|Hne].
        - rewrite Z2Nat.id by lia. rewrite Z.eqb_refl, Z.mul_1_r. fold A. apply Hw. lia.
        - destruct (Z.eqb_spec x (Z.of_nat v)); [lia|]. rewrite Z.mul_0_r. apply Hw. lia. }
    rewrite sumW_delta by lia.
    replace (Z.to_nat x <? 2 ^ l)%nat with true by (symmetry; apply Nat.ltb_lt; lia).
    rewrite Hw; lia.
  Qed.
End Circuit.

Theorem alg11_circuit_counts_gen (w : Z -> Z) l k :
  (forall z, 0 <= z <= Z.of_nat (length k) -> w z = z) ->
  Forall (fun r => length r = l /\ Forall (fun x => x = 0 \/ x = 1) r) k ->
  alg11_circuit w l k = map Z.of_nat (gen_multi_bit_sort k).
Proof. intros Hw Hk. now apply (alg11_circuit_counts w (length k)). Qed.

(* on unbounded integers *)
Corollary alg11_circuit_counts_Z l k :
  bit_table l k -> alg11_circuit (fun z => z) l k = map Z.of_nat (gen_multi_bit_sort k).
Proof. intros Hk. now apply (alg11_circuit_counts (fun z => z) (length k)). Qed.

(* in UINT32, tables of fewer than 2^32 rows *)
Corollary alg11_circuit_counts_u32 l k :
  bit_table l k -> Z.of_nat (length k) < 2 ^ 32 ->
  alg11_circuit (fun z => z mod 2 ^ 32) l k = map Z.of_nat (gen_multi_bit_sort k).
Proof.
  intros Hk Hn. apply (alg11_circuit_counts (fun z => z mod 2 ^ 32) (length k)); auto.
  intros z Hz. apply Z.mod_small. lia.
Qed.

(* the circuit returns the ranks of the stable sort: every chunk width, every height < 2^32 *)
Theorem alg11_circuit_ranks l k :
  bit_table l k -> Z.of_nat (length k) < 2 ^ 32 ->
  alg11_circuit (fun z => z mod 2 ^ 32) l k
  = map Z.of_nat (inv_perm (sorting_permutation k)).
Proof.
  intros Hk Hn. rewrite (alg11_circuit_counts_u32 l k Hk Hn).
  now rewrite (gen_multi_bit_sort_ranks l k Hk).
Qed.

(* C20 (b): real-number side.  The exact functions, what it means for a table segment to be
   within a tolerance of a function at EVERY real x of the segment, and the combination with
   the integer theorem (a): Rust-visible output words are within rel*f + abs + 2^-p of f. *)
From Coq Require Import Reals Lra.
From CC Require Import Base.Prelude Model.Fixed Proofs.FixedBits Proofs.FixedPwl.
Open Scope R_scope.

Definition exp_fn (x : R) : R := exp x.
Definition sigmoid_fn (x : R) : R := 1 / (1 + exp (- x)).
(* approx_gelu.rs:113 approximate_gelu: the tanh form (the code has no erf) *)
Definition gelu_arg (x : R) : R := sqrt (2 / PI) * (x + 44715 / 1000000 * (x * x * x)).
Definition gelu_fn (x : R) : R := 5 / 10 * x * (1 + tanh (gelu_arg x)).

Lemma tanh_exp2 : forall t, tanh t = (exp (2 * t) - 1) / (exp (2 * t) + 1).
Proof.
  intros t. unfold tanh, sinh, cosh.
  replace (2 * t) with (t + t) by ring. rewrite exp_plus, exp_Ropp.
  pose proof (exp_pos t) as Ht. field. split; nra.
Qed.

Definition seg_bound (f : R -> R) (rel abs : R) (one one2 lo hi alpha beta : Z) : Prop :=
  forall x : R, IZR lo / IZR one <= x <= IZR hi / IZR one ->
    Rabs (IZR alpha / IZR one * x + IZR beta / IZR one2 - f x) <= rel * f x + abs.

(* every main segment i = 1..2^lb of a table, over the inputs that select it
   (segment 1 is also selected on the stretch (left - divisor, left)) *)
Definition table_bound (f : R -> R) (rel abs : R) (p lb L D : Z) (alphas betas : list Z) : Prop :=
  forall i a b, (1 <= i <= 2 ^ lb)%Z ->
    nth_error alphas (Z.to_nat i) = Some a -> nth_error betas (Z.to_nat i) = Some b ->
    seg_bound f rel abs (2 ^ p) (2 ^ (2 * p))
              (L + (i - 1) * D - (if (i =? 1)%Z then D else 0))%Z (L + i * D)%Z a b.

Definition table_small (alphas betas : list Z) (Amax Bmax : Z) : bool :=
  forallb (fun a => (Z.abs a <=? Amax)%Z) alphas && forallb (fun b => (Z.abs b <=? Bmax)%Z) betas.

Lemma pwl_total : forall f rel abs p lb alphas betas L D Amax Bmax Xmax,
  (0 <= p)%Z -> (0 < lb < 62)%Z ->
  table_bound f rel abs p lb L D alphas betas ->
  table_small alphas betas Amax Bmax = true ->
  (0 <= Xmax)%Z -> (Amax * Xmax + Bmax < 2 ^ 63)%Z ->
  forall x out, word x ->
    (L - D < sv 64 x < L + 2 ^ lb * D)%Z -> (Z.abs (sv 64 x) <= Xmax)%Z ->
    (- 2 ^ 63 <= sv 64 x - L < 2 ^ 63)%Z ->
    pwl_eval p lb alphas betas L D x = Ok out ->
    Rabs (IZR (sv 64 out) / IZR (2 ^ p) - f (IZR (sv 64 x) / IZR (2 ^ p)))
    <= rel * f (IZR (sv 64 x) / IZR (2 ^ p)) + abs + 1 / IZR (2 ^ p).
Proof.
  intros f rel abs p lb alphas betas L D Amax Bmax Xmax Hp Hlb Htab Hsm HX0 Hov x out Hx Hdom HXm Hs He.
  destruct (pwl_int_close p lb alphas betas L D x out Hp Hlb Hx Hs He) as [HD [a [b [Ha [Hb Hcl]]]]].
  pose proof (pwl_segment_spec lb L D x Hlb Hx HD Hs) as Hspec. cbv zeta in Hspec.
  destruct Hspec as [_ [Hs1 [Hs2 _]]].
  set (X := sv 64 x) in *. set (i := pwl_segment lb L D x) in *.
  assert (HP : (0 < 2 ^ lb)%Z) by (apply Z.pow_pos_nonneg; lia).
  (* the selected segment and its stretch *)
  assert (Hi : (1 <= i <= 2 ^ lb)%Z /\
               (L + (i - 1) * D - (if (i =? 1)%Z then D else 0) <= X <= L + i * D)%Z).
  { destruct (Z.lt_ge_cases X L) as [Hlt|Hge].
    - assert (i = 1)%Z as -> by (apply Hs1; lia). change (1 =? 1)%Z with true. cbv iota. lia.
    - destruct (Hs2 ltac:(lia)) as [Hi1 Hi2]. split; [exact Hi1|].
      destruct (i =? 1)%Z; lia. }
  destruct Hi as [Hi1 Hi2].
  (* table entries are small: no overflow *)
  unfold table_small in Hsm. apply andb_true_iff in Hsm. destruct Hsm as [HsA HsB].
  rewrite forallb_forall in HsA, HsB.
  assert (HaA : (Z.abs a <= Amax)%Z) by (apply Z.leb_le, HsA; eapply nth_error_In; exact Ha).
  assert (HbB : (Z.abs b <= Bmax)%Z) by (apply Z.leb_le, HsB; eapply nth_error_In; exact Hb).
  assert (Hv : (- 2 ^ 63 <= a * X + b < 2 ^ 63)%Z).
  { assert (Z.abs (a * X) <= Amax * Xmax)%Z.
    { rewrite Z.abs_mul. apply Z.mul_le_mono_nonneg; lia. }
    lia. }
  destruct (Hcl Hv) as [_ Hclose]. clear Hcl.
  (* to the reals *)
  specialize (Htab i a b Hi1 Ha Hb). unfold seg_bound in Htab.
  assert (H2p : (0 < 2 ^ p)%Z) by (apply Z.pow_pos_nonneg; lia).
  assert (H22 : (2 ^ (2 * p) = 2 ^ p * 2 ^ p)%Z).
  { replace (2 * p)%Z with (p + p)%Z by lia. apply Z.pow_add_r; lia. }
  rewrite H22, mult_IZR in Htab.
  set (o := IZR (2 ^ p)) in *.
  assert (Ho : 0 < o) by (apply (IZR_lt 0); exact H2p).
  set (xr := IZR X / o).
  assert (Hxr : IZR (L + (i - 1) * D - (if (i =? 1)%Z then D else 0)) / o <= xr <= IZR (L + i * D) / o).
  { unfold xr, Rdiv. split; apply Rmult_le_compat_r;
      try (left; apply Rinv_0_lt_compat; exact Ho); apply IZR_le; lia. }
  specialize (Htab xr Hxr).
  assert (HcR : Rabs (o * IZR (sv 64 out) - (IZR a * IZR X + IZR b)) < o).
  { unfold o. rewrite <- !mult_IZR, <- plus_IZR, <- minus_IZR, <- abs_IZR. apply IZR_lt. exact Hclose. }
  set (O := IZR (sv 64 out)) in *.
  replace (O / o - f xr)
    with ((o * O - (IZR a * IZR X + IZR b)) * / (o * o) + (IZR a / o * xr + IZR b / (o * o) - f xr))
    by (unfold xr; field; lra).
  eapply Rle_trans; [apply Rabs_triang|].
  assert (H1 : Rabs ((o * O - (IZR a * IZR X + IZR b)) * / (o * o)) <= 1 / o).
  { rewrite Rabs_mult. rewrite (Rabs_pos_eq (/ (o * o))).
    - replace (1 / o) with (o * / (o * o)) by (field; lra).
      apply Rmult_le_compat_r; [|lra].
      left. apply Rinv_0_lt_compat. nra.
    - left. apply Rinv_0_lt_compat. nra. }
  lra.
Qed.

(* Proofs about Model/Mux.v (C17). *)
From CC Require Import Base.Prelude Base.Scalar Model.Mux.

Definition is_flag (f : Z) : Prop := f = 0 \/ f = 1.

Lemma mux_bit_spec f c1 c0 : is_flag f ->
  mux_bit f c1 c0 = (if f =? 1 then c1 else c0) mod 2.
Proof.
  intros [-> | ->]; unfold mux_bit, bit_add, bit_mul.
  - change (0 =? 1) with false. cbv iota.
    replace (0 * ((c0 + c1) mod 2)) with 0 by lia.
    change (0 mod 2) with 0. rewrite Z.add_0_r. reflexivity.
  - change (1 =? 1) with true. cbv iota.
    rewrite Z.mul_1_l, Z.mod_mod by lia.
    rewrite Zplus_mod_idemp_r. replace (c0 + (c0 + c1)) with (c1 + c0 * 2) by lia.
    apply Z.mod_add; lia.
Qed.

Lemma mux_int_spec st f c1 c0 : is_flag f ->
  mux_int st f c1 c0 = norm st (if f =? 1 then c1 else c0).
Proof.
  pose proof (modulus_pos st) as Hm.
  intros [-> | ->]; unfold mux_int, mixed_multiply, st_add, bit_add, norm.
  - change ((0 + 1) mod 2) with 1. change (0 =? 1) with false. cbv iota.
    rewrite Z.mul_0_r, Z.mul_1_r. rewrite (Z.mod_0_l (modulus st)) by lia.
    rewrite Z.add_0_r. apply Z.mod_mod; lia.
  - change ((1 + 1) mod 2) with 0. change (1 =? 1) with true. cbv iota.
    rewrite Z.mul_0_r, Z.mul_1_r. rewrite (Z.mod_0_l (modulus st)) by lia.
    rewrite Z.add_0_l. apply Z.mod_mod; lia.
Qed.

Lemma norm_bit x : norm Bit x = x mod 2.
Proof. reflexivity. Qed.

(* bits and every integer scalar type: flag 1 selects the second operand, 0 the third *)
Lemma mux_spec st f c1 c0 : is_flag f ->
  mux st f c1 c0 = norm st (if f =? 1 then c1 else c0).
Proof.
  intros Hf. destruct st; try (apply mux_int_spec; exact Hf).
  rewrite norm_bit. apply mux_bit_spec; exact Hf.
Qed.

(* for operands that are already elements of the type nothing is reduced *)
Lemma mux_spec_in_range st f c1 c0 : is_flag f ->
  0 <= c1 < modulus st -> 0 <= c0 < modulus st ->
  mux st f c1 c0 = if f =? 1 then c1 else c0.
Proof.
  intros Hf H1 H0. rewrite mux_spec by exact Hf. unfold norm.
  destruct (f =? 1); apply Z.mod_small; assumption.
Qed.

Lemma mux_arr_spec st fs c1s c0s : Forall is_flag fs ->
  mux_arr st fs c1s c0s =
  map (fun t => norm st (if fst t =? 1 then fst (snd t) else snd (snd t)))
      (combine fs (combine c1s c0s)).
Proof.
  intros Hf. unfold mux_arr. apply map_ext_in. intros [f [x y]] Hin.
  cbn [fst snd]. apply mux_spec.
  apply in_combine_l in Hin. rewrite Forall_forall in Hf. auto.
Qed.

Lemma mux_op_ok st fs c1s c0s : mux_op Bit st st fs c1s c0s = Ok (mux_arr st fs c1s c0s).
Proof.
  unfold mux_op. cbn [scalar_eqb negb].
  replace (scalar_eqb st st) with true by (symmetry; apply scalar_eqb_eq; reflexivity).
  reflexivity.
Qed.

Lemma mux_op_spec st fs c1s c0s : Forall is_flag fs ->
  mux_op Bit st st fs c1s c0s =
  Ok (map (fun t => norm st (if fst t =? 1 then fst (snd t) else snd (snd t)))
          (combine fs (combine c1s c0s))).
Proof. intros. rewrite mux_op_ok, mux_arr_spec by assumption. reflexivity. Qed.

Lemma mux_b_spec f c1 c0 : mux_b f c1 c0 = if f then c1 else c0.
Proof. destruct f, c1, c0; reflexivity. Qed.

(* the boolean form is the bit branch *)
Lemma mux_b_bit f c1 c0 : Z.b2z (mux_b f c1 c0) = mux_bit (Z.b2z f) (Z.b2z c1) (Z.b2z c0).
Proof. destruct f, c1, c0; reflexivity. Qed.

(* C19, full join.  join.rs:444 evaluate_full_join computes  union_join(a, left_join(b, a)).
   Part A: generalities.  Part B: the intermediate table b' = join_spec JLeft b a (swapped keys):
   it is a well-formed table, its live rows carry the entries of b, it has the same keys as b.
   Part C: the documented identity on the specification,
             join_spec JFull a b = join_spec JUnion a (join_spec JLeft b a).
   Part D: the mirrored algorithm returns join_spec JFull.

   Hypotheses used: [wf_join], [full_ok] (see C19_full_join_header_collision_refuted for what
   happens without it) and unique live keys of the FIRST table only (it is the table searched by
   left_join(b, a); the union step needs no uniqueness, Proofs/JoinUnionProofs.v).  The identity of
   Part C needs no uniqueness at all. *)
From CC Require Import Base.Prelude Model.JoinTable Model.JoinImpl Model.JoinSpec Proofs.JoinProofs
  Proofs.JoinUnionProofs.

(* ------------------------------------------------------------------------ Part A: generalities *)
Lemma nth_map_seq {A} (f : nat -> A) n j d : (j < n)%nat -> nth j (map f (seq 0 n)) d = f j.
Proof.
  intros H. rewrite (nth_indep _ d (f 0%nat)) by (rewrite map_length, seq_length; exact H).
  rewrite map_nth. rewrite seq_nth by exact H. reflexivity.
Qed.
Lemma j_find_ext_in {A} (f g : A -> bool) l : (forall x, In x l -> f x = g x) -> find f l = find g l.
Proof.
  induction l as [|x l IH]; intros H; cbn; [reflexivity|]. rewrite (H x) by now left.
  destruct (g x); [reflexivity|]. apply IH. intros; apply H; now right.
Qed.
Lemma j_forallb_ext_in {A} (f g : A -> bool) l :
  (forall x, In x l -> f x = g x) -> forallb f l = forallb g l.
Proof.
  induction l as [|x l IH]; intros H; cbn; [reflexivity|]. rewrite (H x) by now left.
  f_equal. apply IH. intros; apply H; now right.
Qed.
Lemma j_flat_map_ext_in {A B} (f g : A -> list B) l :
  (forall x, In x l -> f x = g x) -> flat_map f l = flat_map g l.
Proof.
  induction l as [|x l IH]; intros H; cbn; [reflexivity|]. rewrite (H x) by now left.
  f_equal. apply IH. intros; apply H; now right.
Qed.
Lemma j_filter_map_id {A} (P : A -> bool) (G : A -> A) l :
  (forall x, In x l -> P (G x) = P x /\ (P x = true -> G x = x)) -> filter P (map G l) = filter P l.
Proof.
  induction l as [|x l IH]; intros H; cbn; [reflexivity|].
  destruct (H x (or_introl eq_refl)) as (H1 & H2). rewrite H1.
  destruct (P x) eqn:E.
  - rewrite (H2 eq_refl). f_equal. apply IH. intros; apply H; now right.
  - apply IH. intros; apply H; now right.
Qed.
Lemma j_filter_none {A} (P : A -> bool) l : (forall x, In x l -> P x = false) -> filter P l = [].
Proof.
  induction l as [|x l IH]; intros H; cbn; [reflexivity|]. rewrite (H x) by now left.
  apply IH. intros; apply H; now right.
Qed.

Lemma j_if_ext {A} (m : bool) (x y : list A) :
  (m = true -> x = y) -> (if m then x else []) = (if m then y else []).
Proof. destruct m; intros H; [now apply H|reflexivity]. Qed.

Lemma entry_mask m t h i rs : (fst (entry m t h i rs) =? 1) = (mask_at m t h i =? 1).
Proof. unfold entry. destruct (mask_at m t h i =? 1) eqn:E; reflexivity. Qed.
Lemma entry_data m t h i rs : (mask_at m t h i =? 1) = true -> snd (entry m t h i rs) = data_at t h i.
Proof. unfold entry. intros ->. reflexivity. Qed.
Lemma entry_bit m t h i rs : bit (fst (entry m t h i rs)).
Proof. unfold entry. destruct (_ =? 1); [right|left]; reflexivity. Qed.
Lemma cell_bit m a b keys h rs p : bit (fst (cell m a b keys h rs p)).
Proof.
  assert (HZ : forall rs, bit (fst (zero_entry rs))) by (intros; left; reflexivity).
  destruct p as [|i oj|j oi]; cbn [cell].
  - apply HZ.
  - destruct (mem h (names a)); [apply entry_bit|]. destruct oj; [apply entry_bit|apply HZ].
  - destruct (lookup h keys); [apply entry_bit|]. destruct (_ && _); [apply entry_bit|].
    destruct oi; [apply entry_bit|apply HZ].
Qed.

Lemma join_spec_names m jt a b keys :
  names (join_spec m jt a b keys) = names (result_headers a b keys).
Proof.
  unfold names, join_spec. rewrite map_map. apply map_ext. intros hr.
  destruct (is_null (fst hr)); reflexivity.
Qed.

(* one column of the specified table *)
Definition spec_col m jt a b keys (h : string) (rs : nat) : column :=
  if is_null h then mkcol 1 [] (map null_cell (provs m jt a b keys))
  else mkcol rs (if m then map (fun p => fst (cell m a b keys h rs p)) (provs m jt a b keys) else [])
             (map (fun p => snd (cell m a b keys h rs p)) (provs m jt a b keys)).
Lemma join_spec_lookup m jt a b keys h :
  lookup h (join_spec m jt a b keys)
  = option_map (spec_col m jt a b keys h) (lookup h (result_headers a b keys)).
Proof.
  rewrite <- (lookup_map (spec_col m jt a b keys)). f_equal. unfold join_spec. apply map_ext.
  intros [k rs]. unfold spec_col. cbn [fst snd]. destruct (is_null k); [reflexivity|].
  rewrite !map_map. reflexivity.
Qed.

Lemma get_number_of_rows_ok m t : wf_table m t -> exists n, get_number_of_rows t m = Ok n.
Proof.
  intros WF. destruct (wf_null _ _ WF) as (c & Hc & _).
  destruct t as [|[h c0] t0]; [discriminate|]. cbn. eauto.
Qed.

Lemma map_fst_swap keys : map fst (swap_keys keys) = map snd keys.
Proof. unfold swap_keys. rewrite map_map. reflexivity. Qed.
Lemma map_snd_swap keys : map snd (swap_keys keys) = map fst keys.
Proof. unfold swap_keys. rewrite map_map. reflexivity. Qed.

(* --------------------------------------------------------------------------------------------- *)
Section Full.
Variables (masked : bool) (a b : table) (keys : keymap).
Hypothesis WJ : wf_join masked a b keys.
Hypothesis FO : full_ok a keys.
Let sk := swap_keys keys.
Let b' := join_spec masked JLeft b a sk.

Let WA := wj_a _ _ _ _ WJ.
Let WB := wj_b _ _ _ _ WJ.

Lemma null_in_b : In null_header (names b).
Proof. destruct (wf_null _ _ WB) as (c & Hc & _). eapply lookup_names; eauto. Qed.

(* ---- Part B.1: the left join of (b, a) is a join that type inference accepts *)
Lemma wf_swap : wf_join masked b a sk.
Proof.
  constructor.
  - exact WB.
  - exact WA.
  - apply Forall_forall. intros k Hk. unfold sk, swap_keys in Hk. apply in_map_iff in Hk.
    destruct Hk as (k0 & <- & Hk0). cbn [fst snd].
    pose proof (wj_keys _ _ _ _ WJ) as F. rewrite Forall_forall in F. destruct (F k0 Hk0). tauto.
  - intros h Ha Hn Hk Hb. unfold sk in Hk. rewrite map_snd_swap in Hk.
    destruct (mem h (map snd keys)) eqn:E.
    + apply mem_In in E. apply Hk. now apply FO.
    + apply mem_false in E. exact (wj_distinct _ _ _ _ WJ h Hb Hn E Ha).
Qed.

Lemma left_t_eq :
  types_of b ++
  filter (fun p => negb (is_null (fst p)) && negb (mem (fst p) (map fst keys))) (types_of a)
  = result_headers b a sk.
Proof.
  unfold result_headers. f_equal. apply filter_ext_in. intros p Hin.
  unfold sk. rewrite map_snd_swap.
  destruct (mem (fst p) (map fst keys)) eqn:Ek; [now rewrite !andb_false_r|]. rewrite !andb_true_r.
  f_equal. assert (Ha : In (fst p) (names a)).
  { rewrite <- names_types_of. unfold names. now apply in_map. }
  destruct (is_null (fst p)) eqn:En.
  - apply is_null_true in En. rewrite En. symmetry. apply mem_In. exact null_in_b.
  - symmetry. apply mem_false. apply (wj_distinct _ _ _ _ wf_swap); auto.
    unfold sk. rewrite map_snd_swap. now apply mem_false.
Qed.

Lemma left_join_ok : unique_live_keys masked a (map fst keys) ->
  evaluate_join3 JLeft b a masked sk
    (types_of b ++
     filter (fun p => negb (is_null (fst p)) && negb (mem (fst p) (map fst keys))) (types_of a))
  = Ok b'.
Proof.
  intros UA. rewrite left_t_eq.
  assert (UA' : unique_live_keys masked a (map snd sk)) by (unfold sk; now rewrite map_snd_swap).
  exact (left_impl_spec masked b a sk wf_swap UA').
Qed.

(* ---- Part B.2: the rows of b' *)
Definition lprov (j : nat) : prov :=
  if live b j then PA j (match_of masked b a (map fst sk) (map snd sk) j) else PZero.
Lemma lprovs : provs masked JLeft b a sk = map lprov (seq 0 (nrows b)).
Proof. reflexivity. Qed.

Lemma null_res' : exists rs, lookup null_header (result_headers b a sk) = Some rs.
Proof.
  destruct (wf_null _ _ WB) as (c & Hc & _). exists (c_rs c). now apply lookup_res_a.
Qed.
Lemma null_b' :
  lookup null_header b' = Some (mkcol 1 [] (map null_cell (map lprov (seq 0 (nrows b))))).
Proof.
  unfold b'. rewrite join_spec_lookup. destruct null_res' as (rs & ->). cbn [option_map].
  unfold spec_col. replace (is_null null_header) with true by (symmetry; apply String.eqb_refl).
  now rewrite lprovs.
Qed.
Lemma nrows_b' : nrows b' = nrows b.
Proof. unfold nrows at 1. rewrite null_b'. cbn [c_rows]. now rewrite !map_length, seq_length. Qed.
Lemma null_bit_b' j : (j < nrows b)%nat -> null_bit b' j = if live b j then 1 else 0.
Proof.
  intros Hj. unfold null_bit. rewrite null_b'. cbn [c_rows]. rewrite map_map.
  rewrite (nth_error_nth' _ [0]) by (now rewrite map_length, seq_length).
  rewrite nth_map_seq by exact Hj. unfold lprov. destruct (live b j); reflexivity.
Qed.
Lemma live_b' j : (j < nrows b)%nat -> live b' j = live b j.
Proof. intros Hj. unfold live at 1. rewrite (null_bit_b' j Hj). destruct (live b j); reflexivity. Qed.

Lemma col_b' h rs : lookup h (result_headers b a sk) = Some rs -> is_null h = false ->
  lookup h b'
  = Some (mkcol rs (if masked then map (fun j => fst (cell masked b a sk h rs (lprov j)))
                                       (seq 0 (nrows b)) else [])
                (map (fun j => snd (cell masked b a sk h rs (lprov j))) (seq 0 (nrows b)))).
Proof.
  intros Hres Hn. unfold b'. rewrite join_spec_lookup, Hres. cbn [option_map].
  unfold spec_col. rewrite Hn, lprovs, !map_map. reflexivity.
Qed.
Lemma mask_b' h rs j : lookup h (result_headers b a sk) = Some rs -> is_null h = false ->
  (j < nrows b)%nat ->
  mask_at masked b' h j = if masked then fst (cell masked b a sk h rs (lprov j)) else 1.
Proof.
  intros Hres Hn Hj. unfold mask_at. rewrite (col_b' h rs Hres Hn). cbn [c_mask].
  destruct masked; [|reflexivity]. now rewrite nth_map_seq.
Qed.
Lemma data_b' h rs j : lookup h (result_headers b a sk) = Some rs -> is_null h = false ->
  (j < nrows b)%nat ->
  data_at b' h j = snd (cell masked b a sk h rs (lprov j)).
Proof.
  intros Hres Hn Hj. unfold data_at. rewrite (col_b' h rs Hres Hn). cbn [c_rows].
  now rewrite nth_map_seq.
Qed.

(* a live row of b' carries the entries of b in the columns of b ... *)
Lemma entry_b' h j rs : In h (names b) -> is_null h = false -> (j < nrows b)%nat -> live b j = true ->
  entry masked b' h j rs = entry masked b h j rs.
Proof.
  intros Hb Hn Hj Hl. destruct (names_lookup _ _ Hb) as (c & Hc).
  pose proof (lookup_res_a b a sk h c Hc) as Hres.
  assert (Hcell : cell masked b a sk h (c_rs c) (lprov j) = entry masked b h j (c_rs c)).
  { unfold lprov. rewrite Hl. cbn [cell]. now replace (mem h (names b)) with true by (symmetry; now apply mem_In). }
  unfold entry at 1. rewrite (mask_b' h _ j Hres Hn Hj), (data_b' h _ j Hres Hn Hj), Hcell.
  unfold entry. destruct masked.
  - destruct (mask_at true b h j =? 1) eqn:E; reflexivity.
  - reflexivity.
Qed.
(* ... and in the non-key columns of a the entries of the matching row of a, if any *)
Lemma nonkey_a_res' h ca : lookup h a = Some ca -> is_null h = false -> ~ In h (map fst keys) ->
  lookup h (result_headers b a sk) = Some (c_rs ca).
Proof.
  intros Ha Hn Hk.
  destruct (lookup_res_b masked b a sk wf_swap h) as (c & Hc & Hr).
  - apply filter_In. split; [eapply lookup_names; eauto|].
    rewrite Hn. unfold sk. rewrite map_snd_swap. cbn [negb andb]. now apply negb_true_iff, mem_false.
  - congruence.
Qed.
Lemma entry_b'_a h ca j rs : lookup h a = Some ca -> is_null h = false -> ~ In h (map fst keys) ->
  (j < nrows b)%nat -> live b j = true ->
  let c1 := match match_of masked b a (map snd keys) (map fst keys) j with
            | Some i => entry masked a h i rs | None => zero_entry rs end in
  let c2 := entry masked b' h j rs in
  (rs = c_rs ca -> snd c1 = snd c2) /\ (masked = true -> c1 = c2).
Proof.
  intros Ha Hn Hk Hj Hl.
  pose proof (nonkey_a_res' h ca Ha Hn Hk) as Hres.
  assert (Hnb : mem h (names b) = false).
  { apply mem_false. apply (wj_distinct _ _ _ _ wf_swap); auto; [eapply lookup_names; eauto|].
    unfold sk. now rewrite map_snd_swap. }
  assert (Hcell : cell masked b a sk h (c_rs ca) (lprov j)
                  = match match_of masked b a (map snd keys) (map fst keys) j with
                    | Some i => entry masked a h i (c_rs ca) | None => zero_entry (c_rs ca) end).
  { unfold lprov. rewrite Hl. cbn [cell]. rewrite Hnb. unfold sk. now rewrite map_fst_swap, map_snd_swap. }
  cbv zeta. unfold entry at 2 4. rewrite (mask_b' h _ j Hres Hn Hj), (data_b' h _ j Hres Hn Hj), Hcell.
  destruct (match_of masked b a (map snd keys) (map fst keys) j) as [i|].
  - unfold entry. destruct masked.
    + destruct (mask_at true a h i =? 1) eqn:E; split; reflexivity.
    + split; [reflexivity|discriminate].
  - destruct masked.
    + split; reflexivity.
    + split; [|discriminate]. intros ->. reflexivity.
Qed.

(* ---- Part B.3: b' has the keys of b *)
Lemma K1' h : In h (map snd keys) -> In h (names b) /\ is_null h = false.
Proof. exact (K1 masked a b keys WJ h). Qed.

Lemma key_live_b' j : (j < nrows b)%nat ->
  key_live masked b' (map snd keys) j = key_live masked b (map snd keys) j.
Proof.
  intros Hj. unfold key_live. rewrite (live_b' j Hj). destruct (live b j) eqn:Hl; [|reflexivity].
  cbn [andb]. apply j_forallb_ext_in. intros h Hh. destruct (K1' h Hh) as (Hb & Hn).
  rewrite <- (entry_mask masked b' h j 0), <- (entry_mask masked b h j 0).
  now rewrite entry_b'.
Qed.
Lemma row_key_b' j : (j < nrows b)%nat -> key_live masked b (map snd keys) j = true ->
  row_key b' (map snd keys) j = row_key b (map snd keys) j.
Proof.
  intros Hj Hkl. unfold key_live in Hkl. apply andb_true_iff in Hkl. destruct Hkl as (Hl & Hm).
  rewrite forallb_forall in Hm. unfold row_key. apply j_flat_map_ext_in. intros h Hh.
  destruct (K1' h Hh) as (Hb & Hn). pose proof (Hm h Hh) as Hmh.
  rewrite <- (entry_data masked b h j 0 Hmh).
  rewrite <- (entry_b' h j 0 Hb Hn Hj Hl). symmetry. apply entry_data.
  rewrite <- (entry_mask masked b' h j 0), (entry_b' h j 0 Hb Hn Hj Hl), entry_mask. exact Hmh.
Qed.
Lemma find_row_b' k : find_row masked b' (map snd keys) k = find_row masked b (map snd keys) k.
Proof.
  unfold find_row. rewrite nrows_b'. apply j_find_ext_in. intros j Hj. apply in_seq in Hj.
  rewrite key_live_b' by lia. destruct (key_live masked b (map snd keys) j) eqn:E; [|reflexivity].
  cbn [andb]. rewrite row_key_b' by (auto; lia). reflexivity.
Qed.
Lemma unmatched_b' :
  unmatched_of_first masked a b' (map fst keys) (map snd keys)
  = unmatched_of_first masked a b (map fst keys) (map snd keys).
Proof.
  unfold unmatched_of_first. apply map_ext. intros i. unfold match_of. now rewrite find_row_b'.
Qed.

(* ---- Part B.4: b' is a well-formed table, and (a, b') is accepted by the union join *)
Lemma names_b' : names b' = names (result_headers b a sk).
Proof. apply join_spec_names. Qed.
Lemma names_b_b' h : In h (names b) -> In h (names b').
Proof.
  intros H. rewrite names_b'. unfold result_headers. rewrite names_app, names_types_of.
  apply in_app_iff. now left.
Qed.

Lemma wf_b' : wf_table masked b'.
Proof.
  constructor.
  - rewrite names_b'. exact (nodup_res masked b a sk wf_swap).
  - eexists; split; [exact null_b'|]. cbn [c_rows]. apply Forall_forall. intros r Hr.
    apply in_map_iff in Hr. destruct Hr as (p & <- & _).
    destruct p; cbn; eexists; split; try reflexivity; [left|right|right]; reflexivity.
  - intros h c Hl. rewrite nrows_b'. apply lookup_In in Hl.
    pose proof (spec_row_count masked JLeft b a sk) as F. rewrite Forall_forall in F.
    exact (F _ Hl).
  - intros Hm h c Hl Hn. rewrite nrows_b'.
    destruct (lookup h (result_headers b a sk)) as [rs|] eqn:Hres.
    + rewrite (col_b' h rs Hres Hn) in Hl. inversion Hl; subst c. cbn [c_mask]. rewrite Hm. split.
      * now rewrite map_length, seq_length.
      * apply Forall_forall. intros x Hx. apply in_map_iff in Hx. destruct Hx as (j & <- & _).
        apply cell_bit.
    + exfalso. apply lookup_None in Hres. apply Hres. rewrite <- names_b'. eapply lookup_names; eauto.
Qed.

Lemma wk_b' : Forall (fun k => In (fst k) (names a) /\ In (snd k) (names b') /\
                               is_null (fst k) = false /\ is_null (snd k) = false) keys.
Proof.
  pose proof (wj_keys _ _ _ _ WJ) as F. rewrite Forall_forall in *. intros k Hk.
  destruct (F k Hk) as (H1 & H2 & H3 & H4). repeat split; auto. now apply names_b_b'.
Qed.

Lemma res_b' : result_headers a b' keys = result_headers a b keys.
Proof.
  unfold result_headers. f_equal.
  assert (E : types_of b' = map (fun hr => (fst hr, if is_null (fst hr) then 1%nat else snd hr))
                                (result_headers b a sk)) by apply spec_columns.
  rewrite E. unfold result_headers. rewrite map_app, filter_app.
  rewrite (j_filter_none _ (map _ (filter _ (types_of a)))).
  - rewrite app_nil_r. apply j_filter_map_id. intros p Hp. cbn [fst]. split; [reflexivity|].
    intros HP. apply andb_true_iff in HP. destruct HP as (HP & _).
    apply negb_true_iff, mem_false in HP. destruct (is_null (fst p)) eqn:En.
    + apply is_null_true in En. exfalso. apply HP. rewrite En. exact (null_in_a masked a b keys WJ).
    + now destruct p.
  - intros p Hp. apply in_map_iff in Hp. destruct Hp as (q & <- & Hq). cbn [fst].
    apply filter_In in Hq. destruct Hq as (Hq & _).
    assert (Ha : In (fst q) (names a)).
    { rewrite <- names_types_of. unfold names. now apply in_map. }
    apply mem_In in Ha. now rewrite Ha.
Qed.

(* -------------------------------------------- Part C: full join = union_join(a, left_join(b, a)) *)
Lemma res_in h rs : In (h, rs) (result_headers a b keys) ->
  In h (names a) \/ (In h (names b) /\ is_null h = false /\ ~ In h (map snd keys)).
Proof.
  intros Hin. assert (Hn : In h (names (result_headers a b keys))).
  { unfold names. change h with (fst (h, rs)). now apply in_map. }
  rewrite (names_res masked a b keys WJ) in Hn. apply in_app_iff in Hn.
  destruct Hn as [Hn|Hn]; [now left|right]. apply filter_In in Hn. destruct Hn as (Hb & Hf).
  apply andb_true_iff in Hf. destruct Hf as (H1 & H2). apply negb_true_iff in H1, H2.
  apply mem_false in H2. tauto.
Qed.

Definition fprov (j : nat) : prov :=
  if live b j then PB j (match_of masked b a (map snd keys) (map fst keys) j) else PZero.
Definition uprov (j : nat) : prov := if live b' j then PB j None else PZero.

Lemma full_cell h rs j : In (h, rs) (result_headers a b keys) -> is_null h = false ->
  (j < nrows b)%nat ->
  snd (cell masked a b keys h rs (fprov j)) = snd (cell masked a b' keys h rs (uprov j)) /\
  (masked = true ->
   fst (cell masked a b keys h rs (fprov j)) = fst (cell masked a b' keys h rs (uprov j))).
Proof.
  intros Hin Hn Hj. unfold fprov, uprov. rewrite (live_b' j Hj).
  destruct (live b j) eqn:Hl; [|split; reflexivity]. cbn [cell].
  destruct (lookup h keys) as [h1|] eqn:Hk.
  - (* key column: the data of b under the header of a *)
    apply lookup_In in Hk. pose proof (wj_keys _ _ _ _ WJ) as F. rewrite Forall_forall in F.
    destruct (F _ Hk) as (_ & Hb1 & _ & Hn1). cbn [fst snd] in Hb1, Hn1.
    rewrite (entry_b' h1 j rs Hb1 Hn1 Hj Hl). split; reflexivity.
  - apply lookup_None in Hk. change (names keys) with (map fst keys) in Hk.
    destruct (mem h (names b)) eqn:Eb.
    + apply mem_In in Eb. destruct (mem h (map snd keys)) eqn:Ek1; cbn [negb andb].
      * (* excluded by full_ok *)
        exfalso. apply mem_In in Ek1. destruct (res_in h rs Hin) as [Ha|(_ & _ & Hnk)]; [|tauto].
        apply Hk. now apply FO.
      * replace (mem h (names b')) with true by (symmetry; now apply mem_In, names_b_b').
        cbn [andb]. rewrite (entry_b' h j rs Eb Hn Hj Hl). split; reflexivity.
    + (* non-key column of a *)
      apply mem_false in Eb. cbn [andb].
      destruct (res_in h rs Hin) as [Ha|(Hb & _)]; [|tauto].
      destruct (names_lookup _ _ Ha) as (ca & Hca).
      assert (Hrs : rs = c_rs ca).
      { pose proof (lookup_NoDup _ (h, rs) (nodup_res masked a b keys WJ) Hin) as H1. cbn [fst snd] in H1.
        rewrite (lookup_res_a a b keys h ca Hca) in H1. congruence. }
      assert (Hb' : mem h (names b') = true).
      { apply mem_In. rewrite names_b'. eapply lookup_names. exact (nonkey_a_res' h ca Hca Hn Hk). }
      assert (Hk1 : mem h (map snd keys) = false).
      { apply mem_false. intros H. apply Eb. now apply K1'. }
      rewrite Hb', Hk1. cbn [negb andb].
      destruct (entry_b'_a h ca j rs Hca Hn Hk Hj Hl) as (H1 & H2). cbv zeta in H1, H2.
      split; [now apply H1|]. intros Hm. now rewrite (H2 Hm).
Qed.

Lemma full_provs :
  provs masked JFull a b keys
  = unmatched_of_first masked a b (map fst keys) (map snd keys) ++ map fprov (seq 0 (nrows b)).
Proof. reflexivity. Qed.
Lemma union_provs' :
  provs masked JUnion a b' keys
  = unmatched_of_first masked a b (map fst keys) (map snd keys) ++ map uprov (seq 0 (nrows b)).
Proof. rewrite <- unmatched_b', <- nrows_b'. reflexivity. Qed.

Lemma unmatched_cell h rs p :
  In p (unmatched_of_first masked a b (map fst keys) (map snd keys)) ->
  cell masked a b keys h rs p = cell masked a b' keys h rs p /\ null_cell p = null_cell p.
Proof.
  intros Hp. split; [|reflexivity]. unfold unmatched_of_first in Hp. apply in_map_iff in Hp.
  destruct Hp as (i & <- & _). destruct (live a i); [|reflexivity].
  destruct (match_of masked a b (map fst keys) (map snd keys) i); reflexivity.
Qed.

Theorem full_is_union_of_left :
  join_spec masked JFull a b keys = join_spec masked JUnion a b' keys.
Proof.
  unfold join_spec. rewrite res_b', full_provs, union_provs'. apply map_ext_in.
  intros (h, rs) Hin. cbn [fst snd]. destruct (is_null h) eqn:Hn.
  - f_equal. f_equal. rewrite !map_app. f_equal. rewrite !map_map. apply map_ext_in.
    intros j Hj. apply in_seq in Hj. unfold fprov, uprov. rewrite live_b' by lia.
    destruct (live b j); reflexivity.
  - f_equal. rewrite !map_app, !map_map. f_equal.
    + apply j_if_ext. intros Em. f_equal.
      * apply map_ext_in. intros p Hp. now rewrite (proj1 (unmatched_cell h rs p Hp)).
      * apply map_ext_in. intros j Hj. apply in_seq in Hj.
        apply (proj2 (full_cell h rs j Hin Hn ltac:(lia))). exact Em.
    + f_equal.
      * apply map_ext_in. intros p Hp. now rewrite (proj1 (unmatched_cell h rs p Hp)).
      * apply map_ext_in. intros j Hj. apply in_seq in Hj.
        apply (proj1 (full_cell h rs j Hin Hn ltac:(lia))).
Qed.

(* ----------------------------------------------------------- Part D: the mirrored algorithm *)
Lemma full_unfold :
  join_impl JFull masked a b keys
  = let* _ := get_number_of_rows b masked in
    let* lj := evaluate_join3 JLeft b a masked sk
                 (types_of b ++
                  filter (fun p => negb (is_null (fst p)) && negb (mem (fst p) (map fst keys)))
                         (types_of a)) in
    evaluate_join3 JUnion a lj masked keys (result_headers a b keys).
Proof. reflexivity. Qed.

Theorem full_impl_spec : unique_live_keys masked a (map fst keys) ->
  join_impl JFull masked a b keys = Ok (join_spec masked JFull a b keys).
Proof.
  intros UA. rewrite full_unfold.
  destruct (get_number_of_rows_ok masked b WB) as (n & ->). cbn [bind].
  rewrite (left_join_ok UA). cbn [bind].
  rewrite <- res_b'. change (evaluate_join3 JUnion a b' masked keys (result_headers a b' keys))
    with (join_impl JUnion masked a b' keys).
  rewrite (union_impl_spec_gen masked a b' keys WA wf_b' wk_b'). f_equal. symmetry.
  exact full_is_union_of_left.
Qed.
End Full.

(* All four join types: the statement C19_full *)
Theorem join_impl_spec_all : forall masked jt a b keys,
  wf_join masked a b keys -> full_ok a keys ->
  unique_live_keys masked a (map fst keys) -> unique_live_keys masked b (map snd keys) ->
  join_impl jt masked a b keys = Ok (join_spec masked jt a b keys).
Proof.
  intros masked jt a b keys WJ FO UA UB. destruct jt.
  - exact (inner_impl_spec masked a b keys WJ UB).
  - exact (left_impl_spec masked a b keys WJ UB).
  - exact (union_impl_spec masked a b keys WJ).
  - exact (full_impl_spec masked a b keys WJ FO UA).
Qed.

Theorem full_is_union_of_left_all : forall masked a b keys,
  wf_join masked a b keys -> full_ok a keys ->
  join_spec masked JFull a b keys
  = join_spec masked JUnion a (join_spec masked JLeft b a (swap_keys keys)) keys.
Proof. exact full_is_union_of_left. Qed.

(* C01 deep model, context level, proofs, part 3: the Private annotations of the computation graph.
   Every emitting helper of compile_to_mpc_graph only APPENDS nodes, and none of the appended nodes
   carries the Private annotation; the only place that annotation is added is the end of
   compile_node, on the compiled node of a private source node.  Hence the output node of the
   computation graph is annotated Private exactly when the privacy analysis says the source output
   is private: is_output_private of compile_to_mpc_context agrees with propagate_private_annotations. *)
From CC Require Import Base.Prelude Base.Scalar Base.Ty Base.Shape Graph.Value Graph.IR Graph.Eval Graph.Typing
  Model.RingEval Model.MpcCompile Model.MpcCompileSem Model.MpcCompileCtx Model.MpcCompileCtxSem
  Proofs.MpcCompileBase Proofs.MpcCompileStatic.

Definition clean (nd : node) : Prop := ~ In APrivate (n_annots nd).
Definition apps (out out' : list node) : Prop := exists new, out' = out ++ new /\ Forall clean new.

Lemma apps_refl out : apps out out.
Proof. exists []. split; [now rewrite app_nil_r | constructor]. Qed.
Lemma apps_trans a b c : apps a b -> apps b c -> apps a c.
Proof.
  intros (n1 & -> & F1) (n2 & -> & F2). exists (n1 ++ n2). split; [now rewrite app_assoc|].
  apply Forall_app. auto.
Qed.

Lemma emit_apps o deps an out out' id : emit o deps an out = Ok (out', id) -> ~ In APrivate an -> apps out out'.
Proof.
  intros H Ha. destruct (emit_spec _ _ _ _ _ _ H) as (ts & t & _ & _ & -> & _).
  eexists. split; [reflexivity|]. constructor; [exact Ha | constructor].
Qed.
Lemma emit_gadget_apps g deps out out' id : emit_gadget g deps out = Ok (out', id) -> apps out out'.
Proof.
  intros H. destruct (emit_gadget_spec _ _ _ _ _ H) as (ts & t & _ & _ & _ & -> & _).
  eexists. split; [reflexivity|]. constructor; [intros [] | constructor].
Qed.

Lemma mapS_apps {A B} (f : A -> list node -> result (list node * B)) l :
  (forall a o o' y, In a l -> f a o = Ok (o', y) -> apps o o') ->
  forall out out' ys, mapS f l out = Ok (out', ys) -> apps out out'.
Proof.
  induction l as [|a l IH]; intros Hf out out' ys H; cbn [mapS] in H.
  - inversion H; subst. apply apps_refl.
  - inv_bind H. destruct x as [s1 y]. inv_bind H. destruct x as [s2 ys']. inversion H; subst.
    eapply apps_trans; [eapply Hf; [now left | eauto] | eapply IH; eauto]. intros; eapply Hf; eauto. now right.
Qed.

Ltac no_private := cbn; intuition discriminate.
Ltac apps_emit :=
  match goal with
  | H : _ = Ok (?o', _) |- apps ?o ?o' =>
      cbv beta in H;
      first [ eapply emit_apps; [exact H | no_private]
            | apply unwrap_ok in H; eapply emit_apps; [exact H | no_private] ]
  end.

Lemma share_vec_apps priv i olds : forall news out out' sv,
  share_vec priv i olds news out = Ok (out', sv) -> apps out out'.
Proof.
  induction olds as [|o olds IH]; intros news out out' sv H; cbn [share_vec] in H.
  - inversion H; subst. apply apps_refl.
  - destruct news as [|nw news]; [discriminate|]. inv_bind H. destruct x as [out1 s]. inv_bind H. destruct x as [out2 rest].
    inversion H; subst. eapply apps_trans; [|eapply IH; eauto].
    destruct (mem o priv); cbv iota in E.
    + apps_emit.
    + destruct (i =? 0); cbv iota in E.
      * inversion E; subst. apply apps_refl.
      * inv_bind E. apps_emit.
Qed.

Lemma op_shares_apps priv o i olds news out out' sv :
  op_shares priv o i olds news out = Ok (out', sv) -> apps out out'.
Proof.
  unfold op_shares. intros H. destruct o; try (eapply share_vec_apps; exact H).
  inv_bind H. inv_bind H. destruct x0 as [o1 s]. inv_bind H. inversion H; subst.
  eapply emit_apps; [exact E0 | no_private].
Qed.

Lemma apply_op_apps priv n o news olds out out' id :
  apply_op priv n o news olds out = Ok (out', id) -> apps out out'.
Proof.
  unfold apply_op. intros H.
  assert (G : forall out out' id,
             (let* (out1, result_shares) :=
                mapS (fun i out => let* (out', share) := op_shares priv o i olds news out in emit o share [] out')
                     parties out in
              emit OCreateTuple result_shares [] out1) = Ok (out', id) ->
             apps out out').
  { clear. intros out out' id H. inv_bind H. destruct x as [out1 rs].
    eapply apps_trans; [|apps_emit].
    eapply mapS_apps; [|exact E]. intros a o1 o1' y _ Hf. inv_bind Hf. destruct x as [o2 sh].
    eapply apps_trans; [eapply op_shares_apps; eauto | apps_emit]. }
  destruct (negb (mem n priv)).
  - apps_emit.
  - destruct o; try (eapply G; exact H). apps_emit.
Qed.

Lemma generate_zero_shares_apps t : forall keys out out' zs,
  generate_zero_shares t keys out = Ok (out', zs) -> apps out out'.
Proof.
  induction t as [s|sh s|n t IH|ts IH|fs IH] using ty_ind'; intros keys out out' zs H; cbn [generate_zero_shares] in H.
  - inv_bind H. destruct x as [out1 rs]. eapply apps_trans.
    + eapply mapS_apps; [|exact E]. intros; apps_emit.
    + eapply mapS_apps; [|exact H]. intros a o o' y _ Hf. inv_bind Hf. inv_bind Hf. apps_emit.
  - inv_bind H. destruct x as [out1 rs]. eapply apps_trans.
    + eapply mapS_apps; [|exact E]. intros; apps_emit.
    + eapply mapS_apps; [|exact H]. intros a o o' y _ Hf. inv_bind Hf. inv_bind Hf. apps_emit.
  - inv_bind H. destruct x as [out1 subs]. eapply apps_trans.
    + clear H. revert out out1 subs E. induction (Z.to_nat n) as [|k IHk]; intros out out1 subs E.
      * inversion E; subst. apply apps_refl.
      * inv_bind E. destruct x as [o' s]. inv_bind E. destruct x as [o'' ss]. inversion E; subst.
        eapply apps_trans; [eapply IH; eauto | eapply IHk; eauto].
    + eapply mapS_apps; [|exact H]. intros a o o' y _ Hf. inv_bind Hf. apps_emit.
  - inv_bind H. destruct x as [out1 subs]. eapply apps_trans.
    + clear H. revert out out1 subs E. induction IH as [|t ts Ht _ IHts]; intros out out1 subs E.
      * inversion E; subst. apply apps_refl.
      * inv_bind E. destruct x as [o' s]. inv_bind E. destruct x as [o'' ss]. inversion E; subst.
        eapply apps_trans; [eapply Ht; eauto | eapply IHts; eauto].
    + eapply mapS_apps; [|exact H]. intros a o o' y _ Hf. inv_bind Hf. apps_emit.
  - inv_bind H. destruct x as [out1 subs]. eapply apps_trans.
    + clear H. revert out out1 subs E. induction IH as [|f fs Hf _ IHfs]; intros out out1 subs E.
      * inversion E; subst. apply apps_refl.
      * inv_bind E. destruct x as [o' s]. inv_bind E. destruct x as [o'' ss]. inversion E; subst.
        eapply apps_trans; [eapply Hf; eauto | eapply IHfs; eauto].
    + eapply mapS_apps; [|exact H]. intros a o o' y _ Hf. inv_bind Hf. apps_emit.
Qed.

Lemma get_zero_shares_apps k t out out' zs : get_zero_shares k t out = Ok (out', zs) -> apps out out'.
Proof.
  unfold get_zero_shares. intros H. inv_bind H. destruct x as [out1 keys]. eapply apps_trans.
  - eapply mapS_apps; [|exact E]. intros; apps_emit.
  - eapply generate_zero_shares_apps; eauto.
Qed.

Lemma fold_add_apps rest : forall out s0 out' r,
  fold_left (fun acc share => let* (out, res) := acc in emit OAdd [res; share] [] out) rest (Ok (out, s0)) = Ok (out', r) ->
  apps out out'.
Proof.
  induction rest as [|s rest IH]; intros out s0 out' r H; cbn [fold_left bind] in H.
  - inversion H; subst. apply apps_refl.
  - destruct (emit OAdd [s0; s] [] out) as [[o1 r1]| | |] eqn:E.
    + eapply apps_trans; [eapply emit_apps; [exact E | no_private] | eapply IH; eauto].
    + exfalso. clear -H. induction rest; cbn [fold_left bind] in H; [discriminate | auto].
    + exfalso. clear -H. induction rest; cbn [fold_left bind] in H; [discriminate | auto].
    + exfalso. clear -H. induction rest; cbn [fold_left bind] in H; [discriminate | auto].
Qed.

Lemma sum_shares_apps t : forall shares out out' r,
  sum_shares t shares out = Ok (out', r) -> apps out out'.
Proof.
  induction t as [s|sh s|n t IH|ts IH|fs IH] using ty_ind'; intros shares out out' r H; cbn [sum_shares] in H.
  - destruct shares as [|s0 rest]; [discriminate|]. eapply fold_add_apps; eauto.
  - destruct shares as [|s0 rest]; [discriminate|]. eapply fold_add_apps; eauto.
  - inv_bind H. destruct x as [out1 rv]. eapply apps_trans; [|apps_emit].
    clear H. revert out out1 rv E. generalize 0 as i.
    induction (Z.to_nat n) as [|k IHk]; intros i out out1 rv E.
    + inversion E; subst. apply apps_refl.
    + inv_bind E. destruct x as [o0 inode]. inv_bind E. destruct x as [o1 subs]. inv_bind E. destruct x as [o2 r2].
      inv_bind E. destruct x as [o3 rest]. inversion E; subst.
      eapply apps_trans; [eapply emit_apps; [exact E0 | no_private]|].
      eapply apps_trans; [eapply mapS_apps; [|exact E1]; intros; apps_emit|].
      eapply apps_trans; [eapply IH; eauto | eapply IHk; eauto].
  - inv_bind H. destruct x as [out1 rv]. eapply apps_trans; [|apps_emit].
    clear H. revert out out1 rv E. generalize 0 as i.
    induction IH as [|t ts Ht _ IHts]; intros i out out1 rv E.
    + inversion E; subst. apply apps_refl.
    + inv_bind E. destruct x as [o1 subs]. inv_bind E. destruct x as [o2 r2]. inv_bind E. destruct x as [o3 rest].
      inversion E; subst.
      eapply apps_trans; [eapply mapS_apps; [|exact E0]; intros; apps_emit|].
      eapply apps_trans; [eapply Ht; eauto | eapply IHts; eauto].
  - inv_bind H. destruct x as [out1 rv]. eapply apps_trans; [|apps_emit].
    clear H. revert out out1 rv E.
    induction IH as [|f fs Hf _ IHfs]; intros out out1 rv E.
    + inversion E; subst. apply apps_refl.
    + inv_bind E. destruct x as [o1 subs]. inv_bind E. destruct x as [o2 r2]. inv_bind E. destruct x as [o3 rest].
      inversion E; subst.
      eapply apps_trans; [eapply mapS_apps; [|exact E0]; intros; apps_emit|].
      eapply apps_trans; [eapply Hf; eauto | eapply IHfs; eauto].
Qed.

Lemma reshare_apps s k out out' id : reshare s k out = Ok (out', id) -> apps out out'.
Proof.
  unfold reshare. intros H. inv_bind H. destruct x as [out1 isv]. inv_bind H. inv_bind H. inv_bind H.
  destruct x1 as [out2 zs]. inv_bind H. destruct x1 as [out3 osv].
  assert (G1 : apps out out1) by (eapply mapS_apps; [|exact E]; intros; apps_emit).
  assert (G2 : apps out1 out2) by (eapply get_zero_shares_apps; eauto).
  assert (G3 : apps out2 out3).
  { eapply mapS_apps; [|exact E3]. intros a o o' y _ Hf. inv_bind Hf. inv_bind Hf. inv_bind Hf. destruct x3 as [o1 m].
    eapply apps_trans; [eapply sum_shares_apps; eauto | apps_emit]. }
  assert (G4 : apps out3 out') by apps_emit.
  eauto using apps_trans.
Qed.

(* ---------- one source node: appended clean nodes, then at most one Private annotation ---------- *)
Lemma compile_node_apps priv resh keys i nd omap out out' nn :
  compile_node priv resh keys i nd omap out = Ok (out', nn) ->
  exists out2, apps out out2 /\
    (if mem i priv then add_annotation nn APrivate out2 = Ok out' else out' = out2).
Proof.
  unfold compile_node. intros H. inv_bind H. destruct x as [out1 n1].
  assert (G1 : apps out out1).
  { clear H. destruct (n_op nd); try discriminate.
    all: try (eapply apply_op_apps; exact E).
    all: try (eapply emit_apps; [exact E | no_private]).
    all: repeat match type of E with bind _ _ = Ok _ => apply bind_ok in E; destruct E as (? & ? & E) end.
    all: try (eapply apply_op_apps; exact E).
    all: try match type of E with (if ?c then _ else _) = _ => destruct c; [destruct keys; [|discriminate]|] end.
    all: match goal with H : emit_gadget _ _ _ = Ok _ |- _ => exact (emit_gadget_apps _ _ _ _ _ H) end. }
  destruct (mem i priv) eqn:Hp.
  - inv_bind H. destruct x as [out2 n2]. inv_bind H. inversion H; subst.
    exists out2. split; [|exact E1].
    destruct (mem i resh).
    + destruct keys as [k|]; [|discriminate]. eapply apps_trans; [exact G1 | eapply reshare_apps; eauto].
    + inversion E0; subst. exact G1.
  - inversion H; subst. exists out'. split; [exact G1 | reflexivity].
Qed.

(* every node annotated Private is the compiled node of a private source node *)
Definition PInv (priv omap : list Z) (out : list node) : Prop :=
  forall k nd, znth out k = Ok nd -> In APrivate (n_annots nd) -> exists j, znth omap j = Ok k /\ mem j priv = true.

Lemma PInv_apps priv omap out out2 x : PInv priv omap out -> apps out out2 -> PInv priv (omap ++ [x]) out2.
Proof.
  intros HI (new & -> & Hc) k nd Hk Ha. pose proof (znth_range _ _ _ Hk) as Hr.
  destruct (Z_lt_dec k (zlen out)) as [Hlt|Hge].
  - apply znth_inj_app in Hk; [|exact Hlt]. destruct (HI _ _ Hk Ha) as (j & Hj & Hm). exists j. split; [now apply znth_app_l | exact Hm].
  - exfalso. replace k with (zlen out + (k - zlen out)) in Hk by lia. rewrite znth_app_r in Hk by lia.
    rewrite Forall_forall in Hc. apply (Hc nd); [|exact Ha]. clear -Hk.
    unfold znth in Hk. destruct (k - zlen out <? 0); [discriminate|]. revert Hk. generalize (Z.to_nat (k - zlen out)).
    induction new as [|a l IH]; intros [|n] H; cbn in H; try discriminate.
    + inversion H; now left.
    + right. eauto.
Qed.

Lemma compile_node_PInv priv resh keys i nd omap out out' nn :
  compile_node priv resh keys i nd omap out = Ok (out', nn) ->
  i = zlen omap -> PInv priv omap out -> PInv priv (omap ++ [nn]) out'.
Proof.
  intros H Hi HI. destruct (compile_node_apps _ _ _ _ _ _ _ _ _ H) as (out2 & G & Hfin).
  pose proof (PInv_apps _ _ _ _ nn HI G) as HI2.
  destruct (mem i priv) eqn:Hp.
  - destruct (add_annotation_spec _ _ _ _ Hfin) as (l1 & x & l2 & -> & Ll & ->).
    intros k z Hk Ha.
    destruct (znth_update _ _ _ x _ _ Hk) as [(-> & -> & G') | (Hne & G')].
    + exists i. split; [subst i; rewrite Ll; apply znth_last | exact Hp].
    + exact (HI2 _ _ G' Ha).
  - subst out'. exact HI2.
Qed.

Lemma compile_loop_PInv priv resh keys nodes : forall i omap out out' omap',
  compile_loop priv resh keys nodes i omap out = Ok (out', omap') ->
  i = zlen omap -> PInv priv omap out -> PInv priv omap' out'.
Proof.
  induction nodes as [|nd nodes IH]; intros i omap out out' omap' H Hi HI; cbn [compile_loop] in H.
  - inversion H; subst. exact HI.
  - inv_bind H. destruct x as [out1 nn].
    eapply (IH (i + 1) (omap ++ [nn]) out1); [exact H | rewrite zlen_app, zlen_one; lia |].
    eapply compile_node_PInv; eauto.
Qed.

(* is_output_private of compile_to_mpc_context is the privacy analysis of the source output *)
Theorem output_annotation_is_privacy nodes output flags cg coo priv um :
  compile_graph nodes output flags = Ok (cg, coo) ->
  propagate_private_annotations nodes flags = Ok (priv, um) ->
  output_annotated_private cg coo = mem output priv.
Proof.
  intros H Hppa. unfold compile_graph in H.
  destruct (compile_graph_map nodes output flags) as [[[o1 oo1] omap]| | |] eqn:Hm; try discriminate.
  cbn in H. inversion H; subst o1 oo1; clear H.
  destruct (compile_graph_structure _ _ _ _ _ _ Hm) as (p' & u' & Hp' & _ & _ & _ & Hinc & Hpa & Hoo).
  rewrite Hppa in Hp'. inversion Hp'; subst p' u'; clear Hp'.
  assert (HI : PInv priv omap cg).
  { unfold compile_graph_map in Hm. rewrite Hppa in Hm. cbn [bind] in Hm.
    apply bind_ok in Hm as ([out0 keys] & H0 & Hm). apply bind_ok in Hm as (resh & _ & Hm).
    apply bind_ok in Hm as ([out1 omap1] & HL & Hm). apply bind_ok in Hm as (oo' & _ & Hm). inversion Hm; subst; clear Hm.
    eapply compile_loop_PInv; [exact HL | reflexivity |].
    destruct um; cbv iota in H0.
    - apply bind_ok in H0 as ([o k] & He & H0). inversion H0; subst; clear H0.
      destruct (emit_spec _ _ _ _ _ _ He) as (ts & t & _ & _ & -> & _).
      intros k' nd Hk Ha. pose proof (znth_range _ _ _ Hk) as Hr. unfold zlen in Hr. cbn in Hr.
      assert (k' = 0) by lia. subst k'. cbn in Hk. inversion Hk; subst nd. cbn in Ha. intuition discriminate.
    - inversion H0; subst. intros k nd Hk. destruct (znth_nil_false _ _ Hk). }
  unfold output_annotated_private.
  destruct (mem output priv) eqn:Hpriv.
  - destruct (Hpa _ _ Hoo Hpriv) as (cn & Hcn & Ha). rewrite Hcn. apply existsb_exists. exists APrivate. split; [exact Ha | reflexivity].
  - destruct (znth cg coo) as [nd| | |] eqn:Hn; try reflexivity.
    destruct (existsb (annot_eqb APrivate) (n_annots nd)) eqn:Hex; [|reflexivity].
    apply existsb_exists in Hex as (a & Ha & He).
    assert (a = APrivate) by (destruct a; cbn in He; try discriminate; reflexivity). subst a.
    destruct (HI _ _ Hn Ha) as (j & Hj & Hmj).
    assert (j = output).
    { destruct (Z.lt_trichotomy j output) as [Hlt | [Heq | Hgt]]; [|exact Heq|].
      - pose proof (Hinc _ _ _ _ Hj Hoo Hlt). lia.
      - pose proof (Hinc _ _ _ _ Hoo Hj Hgt). lia. }
    subst j. congruence.
Qed.

(* Proofs about Model/Cmp.v (C16). *)
From CC Require Import Base.Prelude Model.Cmp.

(* ================================================================== readings *)
Lemma b2z_range x : 0 <= Z.b2z x <= 1.
Proof. destruct x; cbn [Z.b2z]; lia. Qed.

Lemma pow2_succ n : 2 ^ Z.of_nat (S n) = 2 * 2 ^ Z.of_nat n.
Proof. rewrite Nat2Z.inj_succ, Z.pow_succ_r by lia. reflexivity. Qed.

Lemma pow2_pos n : 0 < 2 ^ Z.of_nat n.
Proof. apply Z.pow_pos_nonneg; lia. Qed.

Lemma unsigned_cons x a : unsigned (x :: a) = Z.b2z x + 2 * unsigned a.
Proof. reflexivity. Qed.

Lemma unsigned_range a : 0 <= unsigned a < 2 ^ Z.of_nat (length a).
Proof.
  induction a as [|x a IH]; cbn [unsigned length].
  - change (Z.of_nat 0) with 0. rewrite Z.pow_0_r. lia.
  - rewrite pow2_succ. pose proof (b2z_range x). lia.
Qed.

Lemma unsigned_app l r :
  unsigned (l ++ r) = unsigned l + 2 ^ Z.of_nat (length l) * unsigned r.
Proof.
  induction l as [|x l IH]; cbn [app unsigned length].
  - change (Z.of_nat 0) with 0. rewrite Z.pow_0_r. lia.
  - rewrite IH, pow2_succ. lia.
Qed.

Lemma unsigned_inj a : forall b, length a = length b -> unsigned a = unsigned b -> a = b.
Proof.
  induction a as [|x a IH]; intros [|y b] HL HU; try discriminate; [reflexivity|].
  cbn [length] in HL. rewrite !unsigned_cons in HU.
  pose proof (b2z_range x). pose proof (b2z_range y).
  assert (Z.b2z x = Z.b2z y) as Hxy by lia.
  assert (unsigned a = unsigned b) as Hab by lia.
  f_equal.
  - destruct x, y; cbn [Z.b2z] in Hxy; congruence.
  - apply IH; [lia | exact Hab].
Qed.

Lemma snoc_cases {A} (l : list A) : l <> [] -> exists l' m, l = l' ++ [m].
Proof. intros H. destruct (exists_last H) as [l' [m E]]. eauto. Qed.

Lemma signed_snoc a m :
  signed (a ++ [m]) = unsigned a - 2 ^ Z.of_nat (length a) * Z.b2z m.
Proof.
  unfold signed, msb. rewrite last_last, unsigned_app, app_length.
  cbn [length unsigned]. rewrite Nat.add_1_r, pow2_succ.
  destruct m; cbn [Z.b2z]; lia.
Qed.

Lemma signed_range a :
  a <> [] -> - 2 ^ (Z.of_nat (length a) - 1) <= signed a < 2 ^ (Z.of_nat (length a) - 1).
Proof.
  intros H. destruct (snoc_cases a H) as [a' [m ->]].
  rewrite signed_snoc, app_length. cbn [length].
  replace (Z.of_nat (length a' + 1) - 1) with (Z.of_nat (length a')) by lia.
  pose proof (unsigned_range a'). destruct m; cbn [Z.b2z]; lia.
Qed.

(* the two readings agree modulo 2^n *)
Lemma signed_unsigned_mod a :
  signed a mod 2 ^ Z.of_nat (length a) = unsigned a.
Proof.
  pose proof (unsigned_range a) as R. unfold signed. destruct (msb a).
  - symmetry. apply Z.mod_unique_pos with (q := -1); lia.
  - rewrite Z.sub_0_r. apply Z.mod_small; lia.
Qed.

Lemma signed_inj a b : length a = length b -> signed a = signed b -> a = b.
Proof.
  intros HL HS. apply unsigned_inj; [exact HL|].
  rewrite <- (signed_unsigned_mod a), <- (signed_unsigned_mod b), HL, HS. reflexivity.
Qed.

(* the harness writes operands as [bits_of n x] *)
Lemma bits_of_length n : forall x, length (bits_of n x) = n.
Proof. induction n as [|n IH]; intros x; cbn [bits_of length]; auto. Qed.

Lemma unsigned_bits_of n : forall x, unsigned (bits_of n x) = x mod 2 ^ Z.of_nat n.
Proof.
  induction n as [|n IH]; intros x; cbn [bits_of unsigned].
  - change (Z.of_nat 0) with 0. rewrite Z.pow_0_r, Z.mod_1_r. reflexivity.
  - rewrite IH, pow2_succ, <- Z.bit0_odd, Z.bit0_mod.
    pose proof (pow2_pos n).
    rewrite (Z.rem_mul_r x 2 (2 ^ Z.of_nat n)) by lia. reflexivity.
Qed.

Lemma bits_of_spec n x :
  length (bits_of n x) = n /\ unsigned (bits_of n x) = x mod 2 ^ Z.of_nat n.
Proof. split; [apply bits_of_length | apply unsigned_bits_of]. Qed.

(* ================================================================== flip_msb *)
Lemma add_bits_mask a m : forall k, length a = k ->
  add_bits (a ++ [m]) (repeat false k ++ [true]) = Ok (a ++ [negb m]).
Proof.
  induction a as [|x a IH]; intros k Hk; cbn [length] in Hk; subst k.
  - cbn. now rewrite Bool.xorb_true_r.
  - cbn [app repeat add_bits]. rewrite (IH (length a) eq_refl). cbn [bind].
    now rewrite Bool.xorb_false_r.
Qed.

Lemma flip_msb_snoc a m : flip_msb (a ++ [m]) = Ok (a ++ [negb m]).
Proof.
  unfold flip_msb. rewrite app_length. cbn [length]. rewrite Nat.add_1_r.
  cbn [msb_flip_constant bind]. now apply add_bits_mask.
Qed.

Lemma flip_msb_shift a :
  a <> [] ->
  exists a', flip_msb a = Ok a' /\ length a' = length a /\
             unsigned a' = signed a + 2 ^ (Z.of_nat (length a) - 1).
Proof.
  intros H. destruct (snoc_cases a H) as [a0 [m ->]].
  exists (a0 ++ [negb m]). split; [apply flip_msb_snoc|]. split.
  - now rewrite !app_length.
  - rewrite signed_snoc, unsigned_app, app_length. cbn [length unsigned].
    replace (Z.of_nat (length a0 + 1) - 1) with (Z.of_nat (length a0)) by lia.
    destruct m; cbn [negb Z.b2z]; lia.
Qed.

(* ================================================================== join is a priority semigroup *)
(* the three-way outcome encoded by a ComparisonResult *)
Definition ord (c : cres) : comparison :=
  if a_equal_b c then Eq else if c_a c then Gt else Lt.

Lemma join1_assoc x y z : join1 (join1 x y) z = join1 x (join1 y z).
Proof. destruct x as [[] []], y as [[] []], z as [[] []]; reflexivity. Qed.

(* priority law: the right operand decides unless it says "equal" *)
Lemma ord_join1 x y : ord (join1 x y) = match ord y with Eq => ord x | o => o end.
Proof. destruct x as [[] []], y as [[] []]; reflexivity. Qed.

Lemma fold_join_cons r : forall x y,
  fold_left join1 (y :: r) x = join1 x (fold_left join1 r y).
Proof.
  induction r as [|z r IH]; intros x y; [reflexivity|].
  cbn [fold_left] in *. rewrite join1_assoc. apply IH.
Qed.

Lemma list_ind2 {A} (P : list A -> Prop) :
  P [] -> (forall x, P [x]) -> (forall x y l, P l -> P (x :: y :: l)) -> forall l, P l.
Proof.
  intros H0 H1 H2 l.
  assert (P l /\ forall x, P (x :: l)) as [H _]; [|exact H].
  induction l as [|y l [IHa IHb]]; split; auto.
Qed.

(* adjacent pairs joined: what one shrink step computes on an even-length array *)
Fixpoint pairjoin (l : list cres) : list cres :=
  match l with x :: y :: r => join1 x y :: pairjoin r | _ => [] end.

Lemma pairjoin_length l : (2 * length (pairjoin l) <= length l)%nat.
Proof. induction l using list_ind2; cbn [pairjoin length] in *; lia. Qed.

Lemma even_SS {A} (x y : A) l : Nat.even (length (x :: y :: l)) = Nat.even (length l).
Proof. reflexivity. Qed.

Lemma fold_pairjoin l : Nat.even (length l) = true ->
  forall s, fold_left join1 (pairjoin l) s = fold_left join1 l s.
Proof.
  induction l as [|x|x y l IH] using list_ind2; intros He s.
  - reflexivity.
  - discriminate.
  - rewrite even_SS in He. cbn [pairjoin fold_left]. rewrite IH by exact He.
    now rewrite join1_assoc.
Qed.

(* the join of a non-empty list, lowest position first (higher positions have priority) *)
Definition jf (l : list cres) : option cres :=
  match l with [] => None | x :: r => Some (fold_left join1 r x) end.

Lemma jf_app_pairjoin p l : Nat.even (length l) = true ->
  jf (p ++ pairjoin l) = jf (p ++ l).
Proof.
  intros He. destruct p as [|x p].
  - cbn [app]. destruct l as [|x [|y l]]; [reflexivity|discriminate|].
    rewrite even_SS in He. cbn [pairjoin jf fold_left]. f_equal. now apply fold_pairjoin.
  - cbn [app jf]. f_equal. rewrite !fold_left_app. now apply fold_pairjoin.
Qed.

(* ================================================================== shrink *)
Lemma every_second_cons {A} (x : A) l : every_second (x :: l) = x :: every_second (tl l).
Proof. destruct l; reflexivity. Qed.

Lemma join_every_second l : Nat.even (length l) = true ->
  join (every_second l) (every_second (tl l)) = Ok (pairjoin l).
Proof.
  induction l as [|x|x y l IH] using list_ind2; intros He.
  - reflexivity.
  - discriminate.
  - rewrite even_SS in He. rewrite every_second_cons. cbn [tl].
    rewrite every_second_cons. cbn [join pairjoin]. now rewrite (IH He).
Qed.

Lemma skipn_1_tl {A} (l : list A) : skipn 1 l = tl l.
Proof. destruct l; reflexivity. Qed.

Lemma shrink_even l : Nat.even (length l) = true -> (2 <= length l)%nat ->
  shrink l = Ok {| shrinked := Some (pairjoin l); remainder := None |}.
Proof.
  intros He Hl. unfold shrink. rewrite He. cbn [bind].
  replace (length l <=? 1)%nat with false by (symmetry; apply Nat.leb_gt; lia).
  change (sub_slice 0 l) with (every_second l).
  change (sub_slice (0 + 1) l) with (every_second (tl l)).
  rewrite (join_every_second l He). reflexivity.
Qed.

Lemma shrink_odd x l : Nat.even (length l) = true ->
  shrink (x :: l) =
  Ok {| shrinked := match l with [] => None | _ => Some (pairjoin l) end; remainder := Some x |}.
Proof.
  intros He. unfold shrink. cbn [length]. rewrite Nat.even_succ. unfold Nat.odd. rewrite He.
  cbn [negb bind]. destruct l as [|y l]; [reflexivity|].
  cbn [length Nat.leb].
  change (sub_slice 1 (x :: y :: l)) with (every_second (y :: l)).
  change (sub_slice (1 + 1) (x :: y :: l)) with (every_second (tl (y :: l))).
  rewrite (join_every_second (y :: l) He). reflexivity.
Qed.

Lemma shrink_nil : shrink [] = Ok {| shrinked := None; remainder := None |}.
Proof. reflexivity. Qed.

(* ================================================================== the loop *)
(* Key lemma: the shrink loop preserves the priority join of everything still to be combined
   (remainders so far, then the array being shrunk), and terminates within the fuel. *)
Lemma build_loop_spec fuel : forall l rs, (length l < fuel)%nat ->
  exists rs', build_loop fuel l rs = Ok rs' /\ jf rs' = jf (rs ++ l).
Proof.
  induction fuel as [|f IH]; intros l rs Hf; [lia|].
  cbn [build_loop]. destruct (Nat.even (length l)) eqn:He.
  - destruct l as [|x [|y l]].
    + rewrite shrink_nil. cbn [bind remainder shrinked]. exists rs. now rewrite app_nil_r.
    + discriminate.
    + rewrite (shrink_even _ He) by (cbn [length]; lia). cbn [bind remainder shrinked].
      pose proof (pairjoin_length (x :: y :: l)) as HL.
      destruct (IH (pairjoin (x :: y :: l)) rs) as [rs' [E J]]; [cbn [length] in *; lia|].
      exists rs'. split; [exact E|]. rewrite J. now apply jf_app_pairjoin.
  - destruct l as [|x l]; [discriminate|].
    cbn [length] in He. rewrite Nat.even_succ in He. unfold Nat.odd in He.
    apply Bool.negb_false_iff in He.
    rewrite (shrink_odd x l He). cbn [bind remainder shrinked].
    destruct l as [|y l].
    + exists (rs ++ [x]). split; reflexivity.
    + pose proof (pairjoin_length (y :: l)) as HL.
      destruct (IH (pairjoin (y :: l)) (rs ++ [x])) as [rs' [E J]]; [cbn [length] in *; lia|].
      exists rs'. split; [exact E|]. rewrite J, (jf_app_pairjoin _ _ He), <- app_assoc.
      reflexivity.
Qed.

(* ================================================================== from_a_b and the summary *)
Fixpoint zip_ab (a b : bits) : list cres :=
  match a, b with x :: xs, y :: ys => from_a_b1 x y :: zip_ab xs ys | _, _ => [] end.

Lemma from_a_b_ok a : forall b, length a = length b -> from_a_b a b = Ok (zip_ab a b).
Proof.
  induction a as [|x a IH]; intros [|y b] H; try discriminate; [reflexivity|].
  cbn [from_a_b zip_ab]. rewrite IH by (cbn [length] in H; lia). reflexivity.
Qed.

Lemma cmp_cons x y A B :
  (Z.b2z x + 2 * A ?= Z.b2z y + 2 * B) =
  match A ?= B with Eq => ord (from_a_b1 x y) | o => o end.
Proof.
  destruct (Z.compare_spec A B) as [E|L|G].
  - subst B. destruct x, y; cbn [Z.b2z from_a_b1 ord xorb a_equal_b c_a];
      first [apply Z.compare_eq_iff | apply Z.compare_lt_iff | apply Z.compare_gt_iff]; lia.
  - apply Z.compare_lt_iff. pose proof (b2z_range x). pose proof (b2z_range y). lia.
  - apply Z.compare_gt_iff. pose proof (b2z_range x). pose proof (b2z_range y). lia.
Qed.

(* the priority join of the per-bit results is the comparison of the unsigned readings *)
Lemma ord_zip ar : forall a0 b0 br, length ar = length br ->
  ord (fold_left join1 (zip_ab ar br) (from_a_b1 a0 b0)) =
  (unsigned (a0 :: ar) ?= unsigned (b0 :: br)).
Proof.
  induction ar as [|a1 ar IH]; intros a0 b0 [|b1 br] H; try discriminate.
  - cbn [zip_ab fold_left]. rewrite !unsigned_cons. cbn [unsigned].
    rewrite cmp_cons. reflexivity.
  - cbn [zip_ab]. rewrite fold_join_cons, ord_join1, IH by (cbn [length] in H; lia).
    rewrite (unsigned_cons a0), (unsigned_cons b0), cmp_cons. reflexivity.
Qed.

Lemma build_comparison_graph_spec a b :
  length a = length b -> a <> [] ->
  exists r, build_comparison_graph a b = Ok r /\ ord r = (unsigned a ?= unsigned b).
Proof.
  intros HL Ha. unfold build_comparison_graph. rewrite (from_a_b_ok a b HL). cbn [bind].
  destruct (build_loop_spec (S (length (zip_ab a b))) (zip_ab a b) []) as [rs [E J]]; [lia|].
  rewrite E. cbn [bind app] in *.
  destruct a as [|a0 ar]; [congruence|]. destruct b as [|b0 br]; [discriminate|].
  cbn [zip_ab jf] in J. destruct rs as [|r0 rest]; [discriminate|].
  cbn [jf] in J. injection J as J. eexists. split; [reflexivity|].
  rewrite J. apply ord_zip. cbn [length] in HL. lia.
Qed.

(* ================================================================== post-processors *)
Definition zcmp (op : cmp_op) (A B : Z) : bool :=
  match op with
  | OpEqual => A =? B
  | OpNotEqual => negb (A =? B)
  | OpLessThan => A <? B
  | OpGreaterThan => A >? B
  | OpLessThanEqualTo => A <=? B
  | OpGreaterThanEqualTo => A >=? B
  end.

Lemma post_process_ord op r A B : ord r = (A ?= B) -> post_process op r = zcmp op A B.
Proof.
  intros H. destruct (Z.compare_spec A B) as [E|L|G];
    destruct r as [[] []]; cbn in H; try discriminate; destruct op; cbn; lia.
Qed.

(* ================================================================== the custom operations *)
Lemma length_pos_ne {A} (l : list A) : (1 <= length l)%nat -> l <> [].
Proof. destruct l; cbn [length]; [lia|discriminate]. Qed.

Lemma cmp_custom_op_unsigned op a b :
  length a = length b -> (1 <= length a)%nat ->
  cmp_custom_op op false a b = Ok (zcmp op (unsigned a) (unsigned b)).
Proof.
  intros HL Hn. unfold cmp_custom_op.
  replace (length a =? 0)%nat with false by (symmetry; apply Nat.eqb_neq; lia).
  replace (length b =? 0)%nat with false by (symmetry; apply Nat.eqb_neq; lia).
  replace (length a =? length b)%nat with true by (symmetry; apply Nat.eqb_eq; lia).
  cbn [orb negb andb preprocess_input bind].
  destruct (build_comparison_graph_spec a b HL (length_pos_ne a Hn)) as [r [E O]].
  rewrite E. cbn [bind]. f_equal. now apply post_process_ord.
Qed.

Lemma cmp_custom_op_signed op a b :
  length a = length b -> (2 <= length a)%nat ->
  cmp_custom_op op true a b = Ok (zcmp op (signed a) (signed b)).
Proof.
  intros HL Hn. unfold cmp_custom_op.
  replace (length a =? 0)%nat with false by (symmetry; apply Nat.eqb_neq; lia).
  replace (length b =? 0)%nat with false by (symmetry; apply Nat.eqb_neq; lia).
  replace (length a =? length b)%nat with true by (symmetry; apply Nat.eqb_eq; lia).
  replace (length a <? 2)%nat with false by (symmetry; apply Nat.ltb_ge; lia).
  replace (length b <? 2)%nat with false by (symmetry; apply Nat.ltb_ge; lia).
  cbn [orb negb andb preprocess_input].
  assert (a <> []) as Ha by (apply length_pos_ne; lia).
  assert (b <> []) as Hb by (apply length_pos_ne; lia).
  destruct (flip_msb_shift a Ha) as [fa [Ea [La Ua]]].
  destruct (flip_msb_shift b Hb) as [fb [Eb [Lb Ub]]].
  rewrite Ea, Eb. cbn [bind].
  assert (fa <> []) as Hfa by (apply length_pos_ne; lia).
  destruct (build_comparison_graph_spec fa fb) as [r [E O]]; [lia|exact Hfa|].
  rewrite E. cbn [bind]. f_equal. apply post_process_ord.
  rewrite O, Ua, Ub, HL, !(Z.add_comm (signed _)). apply Z.add_compare_mono_l.
Qed.

Lemma cmp_custom_op_spec op (sg : bool) a b :
  length a = length b -> ((if sg then 2 else 1) <= length a)%nat ->
  cmp_custom_op op sg a b = Ok (zcmp op (reading sg a) (reading sg b)).
Proof.
  destruct sg; cbn [reading]; intros; [now apply cmp_custom_op_signed|now apply cmp_custom_op_unsigned].
Qed.

(* what the code does outside the specified domain: a one-bit signed comparison is rejected *)
Lemma cmp_custom_op_signed_width1 op a b :
  length a = 1%nat -> length b = 1%nat -> cmp_custom_op op true a b = Err.
Proof. intros Ha Hb. unfold cmp_custom_op. rewrite Ha, Hb. reflexivity. Qed.

(* ---------------------------------------------------------------- the six operations *)
Lemma eq_spec a b : length a = length b -> (1 <= length a)%nat ->
  equal a b = Ok (unsigned a =? unsigned b).
Proof. intros. now apply (cmp_custom_op_unsigned OpEqual). Qed.

Lemma ne_spec a b : length a = length b -> (1 <= length a)%nat ->
  not_equal a b = Ok (negb (unsigned a =? unsigned b)).
Proof. intros. now apply (cmp_custom_op_unsigned OpNotEqual). Qed.

(* equality of the unsigned readings is equality of the bit strings, hence of the signed readings *)
Lemma eqb_readings a b : length a = length b ->
  (unsigned a =? unsigned b) = (signed a =? signed b).
Proof.
  intros HL. destruct (Z.eqb_spec (unsigned a) (unsigned b)) as [E|N].
  - apply (unsigned_inj a b HL) in E. subst b. symmetry. apply Z.eqb_refl.
  - symmetry. apply Z.eqb_neq. intros E. apply N. now rewrite (signed_inj a b HL E).
Qed.

Lemma lt_spec (sg : bool) a b : length a = length b -> ((if sg then 2 else 1) <= length a)%nat ->
  less_than sg a b = Ok (reading sg a <? reading sg b).
Proof. intros. now apply (cmp_custom_op_spec OpLessThan). Qed.

Lemma gt_spec (sg : bool) a b : length a = length b -> ((if sg then 2 else 1) <= length a)%nat ->
  greater_than sg a b = Ok (reading sg a >? reading sg b).
Proof. intros. now apply (cmp_custom_op_spec OpGreaterThan). Qed.

Lemma le_spec (sg : bool) a b : length a = length b -> ((if sg then 2 else 1) <= length a)%nat ->
  less_than_equal_to sg a b = Ok (reading sg a <=? reading sg b).
Proof. intros. now apply (cmp_custom_op_spec OpLessThanEqualTo). Qed.

Lemma ge_spec (sg : bool) a b : length a = length b -> ((if sg then 2 else 1) <= length a)%nat ->
  greater_than_equal_to sg a b = Ok (reading sg a >=? reading sg b).
Proof. intros. now apply (cmp_custom_op_spec OpGreaterThanEqualTo). Qed.

(* ================================================================== Mux, Min, Max *)
Lemma mux_ok flag c1 : forall c0, length c1 = length c0 ->
  mux flag c1 c0 = Ok (if flag then c1 else c0).
Proof.
  induction c1 as [|x c1 IH]; intros [|y c0] H; try discriminate.
  - destruct flag; reflexivity.
  - cbn [mux]. rewrite IH by (cbn [length] in H; lia). cbn [bind].
    destruct flag, x, y; reflexivity.
Qed.

Lemma min_spec (sg : bool) a b : length a = length b -> ((if sg then 2 else 1) <= length a)%nat ->
  exists r, min_op sg a b = Ok r /\ length r = length a /\ (r = a \/ r = b) /\
            reading sg r = Z.min (reading sg a) (reading sg b).
Proof.
  intros HL Hn. unfold min_op. rewrite (gt_spec sg a b HL Hn). cbn [bind].
  rewrite mux_ok by lia. eexists. split; [reflexivity|].
  destruct (reading sg a >? reading sg b) eqn:E; (split; [lia|]); (split; [tauto|]); lia.
Qed.

Lemma max_spec (sg : bool) a b : length a = length b -> ((if sg then 2 else 1) <= length a)%nat ->
  exists r, max_op sg a b = Ok r /\ length r = length a /\ (r = a \/ r = b) /\
            reading sg r = Z.max (reading sg a) (reading sg b).
Proof.
  intros HL Hn. unfold max_op. rewrite (gt_spec sg a b HL Hn). cbn [bind].
  rewrite mux_ok by lia. eexists. split; [reflexivity|].
  destruct (reading sg a >? reading sg b) eqn:E; (split; [lia|]); (split; [tauto|]); lia.
Qed.

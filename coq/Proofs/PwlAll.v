(* C20: the per-table lemmas collected (statements restated in Props/C20.v). *)
From Coq Require Import Reals.
From CC Require Import Base.Prelude Model.Fixed Model.PwlData.
From CC Require Import Proofs.FixedBits Proofs.FixedPwl Proofs.PwlReal Proofs.PwlTotal.
From CC Require Import Proofs.PwlTables_exp_p10 Proofs.PwlTables_exp_p15 Proofs.PwlTables_sigmoid_p10
  Proofs.PwlTables_sigmoid_p15 Proofs.PwlTables_gelu_p10 Proofs.PwlTables_gelu_p15.
Open Scope Z_scope.

Lemma pwl_tables_all :
  (table_bound exp_fn (4/100) (1/1024) 10 6 exp_p10_left exp_p10_divisor exp_p10_alphas exp_p10_betas) /\
  (table_bound exp_fn (4/100) (1/32768) 15 6 exp_p15_left exp_p15_divisor exp_p15_alphas exp_p15_betas) /\
  (table_bound sigmoid_fn 0 (45/10000) 10 5 sigmoid_p10_left sigmoid_p10_divisor sigmoid_p10_alphas sigmoid_p10_betas) /\
  (table_bound sigmoid_fn 0 (45/10000) 15 5 sigmoid_p15_left sigmoid_p15_divisor sigmoid_p15_alphas sigmoid_p15_betas) /\
  (table_bound gelu_fn 0 (7/1000) 10 5 gelu_p10_left gelu_p10_divisor gelu_p10_alphas gelu_p10_betas) /\
  (table_bound gelu_fn 0 (7/1000) 15 5 gelu_p15_left gelu_p15_divisor gelu_p15_alphas gelu_p15_betas).
Proof.
  repeat split.
  - exact exp_p10_table.
  - exact exp_p15_table.
  - exact sigmoid_p10_table.
  - exact sigmoid_p15_table.
  - exact gelu_p10_table.
  - exact gelu_p15_table.
Qed.

Open Scope R_scope.
Definition exp_p10_close_stmt : Prop := forall x out, word x -> (-16896 < sv 64 x < 16384)%Z ->
  pwl_eval 10 6 exp_p10_alphas exp_p10_betas exp_p10_left exp_p10_divisor x = Ok out ->
  Rabs (IZR (sv 64 out) / 1024 - exp (IZR (sv 64 x) / 1024))
  <= 4/100 * exp (IZR (sv 64 x) / 1024) + 1/1024 + 1/1024.
Definition exp_p15_close_stmt : Prop := forall x out, word x -> (-540672 < sv 64 x < 524288)%Z ->
  pwl_eval 15 6 exp_p15_alphas exp_p15_betas exp_p15_left exp_p15_divisor x = Ok out ->
  Rabs (IZR (sv 64 out) / 32768 - exp (IZR (sv 64 x) / 32768))
  <= 4/100 * exp (IZR (sv 64 x) / 32768) + 1/32768 + 1/32768.
Definition sigmoid_p10_close_stmt : Prop := forall x out, word x -> (-8704 < sv 64 x < 8192)%Z ->
  pwl_eval 10 5 sigmoid_p10_alphas sigmoid_p10_betas sigmoid_p10_left sigmoid_p10_divisor x = Ok out ->
  Rabs (IZR (sv 64 out) / 1024 - 1 / (1 + exp (- (IZR (sv 64 x) / 1024))))
  <= 0 * (1 / (1 + exp (- (IZR (sv 64 x) / 1024)))) + 45/10000 + 1/1024.
Definition sigmoid_p15_close_stmt : Prop := forall x out, word x -> (-278528 < sv 64 x < 262144)%Z ->
  pwl_eval 15 5 sigmoid_p15_alphas sigmoid_p15_betas sigmoid_p15_left sigmoid_p15_divisor x = Ok out ->
  Rabs (IZR (sv 64 out) / 32768 - 1 / (1 + exp (- (IZR (sv 64 x) / 32768))))
  <= 0 * (1 / (1 + exp (- (IZR (sv 64 x) / 32768)))) + 45/10000 + 1/32768.
Definition gelu_p10_close_stmt : Prop := forall x out, word x -> (-4352 < sv 64 x < 4096)%Z ->
  pwl_eval 10 5 gelu_p10_alphas gelu_p10_betas gelu_p10_left gelu_p10_divisor x = Ok out ->
  Rabs (IZR (sv 64 out) / 1024 - gelu_fn (IZR (sv 64 x) / 1024))
  <= 0 * gelu_fn (IZR (sv 64 x) / 1024) + 7/1000 + 1/1024.
Definition gelu_p15_close_stmt : Prop := forall x out, word x -> (-139264 < sv 64 x < 131072)%Z ->
  pwl_eval 15 5 gelu_p15_alphas gelu_p15_betas gelu_p15_left gelu_p15_divisor x = Ok out ->
  Rabs (IZR (sv 64 out) / 32768 - gelu_fn (IZR (sv 64 x) / 32768))
  <= 0 * gelu_fn (IZR (sv 64 x) / 32768) + 7/1000 + 1/32768.
Lemma pwl_close_all :
  exp_p10_close_stmt /\ exp_p15_close_stmt /\ sigmoid_p10_close_stmt /\ sigmoid_p15_close_stmt /\ gelu_p10_close_stmt /\ gelu_p15_close_stmt.
Proof.
  repeat split.
  - exact exp_p10_total.
  - exact exp_p15_total.
  - exact sigmoid_p10_total.
  - exact sigmoid_p15_total.
  - exact gelu_p10_total.
  - exact gelu_p15_total.
Qed.

Lemma gelu_fn_def : forall x,
  gelu_fn x = 5/10 * x * (1 + tanh (sqrt (2 / PI) * (x + 44715/1000000 * (x * x * x)))).
Proof. intros x. reflexivity. Qed.

(* C09 preservation: Stack. *)
From CC Require Import Base.Prelude Base.Scalar Base.Ty Base.Shape Graph.Value Graph.IR Graph.Eval
  Graph.Typing Proofs.EvalProofs Proofs.TypingBase Proofs.TypingTuple Proofs.TypingArith
  Proofs.TypingBits Proofs.TypingStruct.

Definition shape_ok (t : ty) : Prop := is_leaf t = true /\ valid_shape (dims t) /\ dims t <> [].
(* t broadcasts into r *)
Definition fits (r t : ty) : Prop :=
  shape_ok t /\ (length (dims t) <= length (dims r))%nat /\ st_of t = st_of r.

Lemma broadcast_pair_inv2 r t r' : shape_ok r -> shape_ok t -> broadcast_pair r t = Ok r' ->
  shape_ok r' /\ (length (dims r) <= length (dims r'))%nat /\ st_of r' = st_of r /\ fits r' t.
Proof.
  intros (Lr & Vr & Nr) (Lt & Vt & Nt) H. unfold broadcast_pair in H.
  destruct (scalar_eqb (st_of r) (st_of t)) eqn:S; cbn [negb] in H; [|discriminate].
  apply scalar_eqb_eq in S. unfold fits, shape_ok.
  destruct r as [s0|sh0 s0| | |]; try discriminate; destruct t as [s1|sh1 s1| | |]; try discriminate;
    cbn [is_scalar st_of shape_of dims] in *.
  - inversion H; subst. cbn. repeat split; auto.
  - inversion H; subst. cbn [is_leaf dims st_of]. repeat split; auto; try congruence.
    destruct sh1; [congruence| cbn; lia].
  - inversion H; subst. cbn [is_leaf dims st_of]. repeat split; auto; try congruence.
    destruct sh0; [congruence| cbn; lia].
  - apply bind_ok in H as (s & Es & H). inversion H; subst. cbn [is_leaf dims st_of].
    destruct (broadcast_shapes_ok _ _ _ Es Vr Vt) as [Ls Vs].
    pose proof (Nat.le_max_l (length sh0) (length sh1)). pose proof (Nat.le_max_r (length sh0) (length sh1)).
    assert (s <> []).
    { intros ->. cbn [length] in Ls. rewrite <- Ls in *. destruct sh0; [congruence| cbn [length] in *; lia]. }
    repeat split; auto; try lia; congruence.
Qed.

Lemma fits_mono r r' t : fits r t -> (length (dims r) <= length (dims r'))%nat -> st_of r' = st_of r -> fits r' t.
Proof. intros (S & L & E) L' E'. repeat split; try apply S; try lia; congruence. Qed.

Lemma fold_broadcast_inv rest : forall r done inner,
  shape_ok r -> Forall (fits r) done -> Forall shape_ok rest ->
  fold_left (fun acc t => let* r := acc in broadcast_pair r t) rest (Ok r) = Ok inner ->
  shape_ok inner /\ Forall (fits inner) (done ++ rest).
Proof.
  induction rest as [|t rest IH]; intros r done inner Sr Fd Fr H; cbn [fold_left] in H.
  - inversion H; subst. rewrite app_nil_r. auto.
  - cbn [bind] in H. destruct (broadcast_pair r t) as [r'| | |] eqn:E.
    + inversion Fr as [|? ? St Fr']; subst.
      destruct (broadcast_pair_inv2 _ _ _ Sr St E) as (Sr' & Lr' & Er' & Ft).
      destruct (IH r' (done ++ [t]) inner Sr') as [Si Fi]; auto.
      * apply Forall_app. split; [|constructor; auto].
        eapply Forall_impl; [|exact Fd]. intros a Ha. eapply fits_mono; eauto.
      * rewrite <- app_assoc in Fi. auto.
    + exfalso. clear - H. induction rest; cbn in H; [discriminate| auto].
    + exfalso. clear - H. induction rest; cbn in H; [discriminate| auto].
    + exfalso. clear - H. induction rest; cbn in H; [discriminate| auto].
Qed.

Lemma broadcastable_shape_ok t : broadcastable t = true -> forallb (fun d => 0 <=? d) (dims t) = true -> shape_ok t.
Proof.
  destruct t; cbn [broadcastable]; try discriminate; intros B N; unfold shape_ok; cbn [is_leaf dims].
  - repeat split; [repeat constructor; lia| discriminate].
  - destruct (is_valid_shape_pos _ B N). auto.
Qed.

Lemma ty_ok_dims_nonneg t : is_leaf t = true -> ty_ok t = true -> forallb (fun d => 0 <=? d) (dims t) = true.
Proof.
  destruct t; cbn [is_leaf]; try discriminate; intros _ H; cbn [dims]; [reflexivity|].
  unfold ty_ok in H. cbn [ty_u64] in H. btrue. auto.
Qed.

Lemma broadcast_arrays_inv ts inner : Forall (fun t => ty_ok t = true) ts ->
  broadcast_arrays ts = Ok inner -> shape_ok inner /\ Forall (fits inner) ts.
Proof.
  intros Hok H. unfold broadcast_arrays in H. destruct ts as [|t0 rest]; [discriminate|].
  destruct (forallb broadcastable (t0 :: rest)) eqn:B; cbn [negb] in H; [|discriminate].
  assert (Fs : Forall shape_ok (t0 :: rest)).
  { rewrite forallb_forall in B. rewrite Forall_forall in Hok. apply Forall_forall. intros t Ht.
    apply broadcastable_shape_ok; auto. apply ty_ok_dims_nonneg; auto. apply broadcastable_leaf; auto. }
  inversion Fs as [|? ? S0 Fr]; subst.
  destruct (fold_broadcast_inv rest t0 [t0] inner S0) as [Si Fi]; auto.
  constructor; [|constructor]. repeat split; auto; apply S0.
Qed.

Lemma Forall2_combine_in {A B} (R : A -> B -> Prop) l1 l2 p :
  Forall2 R l1 l2 -> In p (combine l1 l2) -> R (fst p) (snd p) /\ In (snd p) l2.
Proof.
  induction 1 as [|a b l1 l2 Hab _ IH]; cbn; [tauto|].
  intros [<-|Hp]; cbn; [auto|]. destruct (IH Hp). auto.
Qed.

Lemma list_eqb_app_false (a b : list Z) : b <> [] -> list_eqb Z.eqb (a ++ b) a = false.
Proof.
  intros N. destruct (list_eqb Z.eqb (a ++ b) a) eqn:E; [|reflexivity].
  apply list_eqb_eq in E; [|intros; lia].
  rewrite <- (app_nil_r a) in E at 2. apply app_inv_head in E. congruence.
Qed.
Lemma list_eqb_Z_refl (a : list Z) : list_eqb Z.eqb a a = true.
Proof. apply list_eqb_refl. intros; lia. Qed.

Lemma skipn_app_exact {A} (a b : list A) : skipn (length a) (a ++ b) = b.
Proof. induction a; cbn; auto. Qed.

Lemma preserves_stack outer : preserves (OStack outer).
Proof.
  intros ts t vs Hu H HF. inv_infer H. cbn [op_u64] in Hu.
  destruct (is_valid_shape outer) eqn:Vo; cbn [negb] in H; [|discriminate].
  destruct (zlen ts =? prod_list outer) eqn:Lts; cbn [negb] in H; [|discriminate].
  apply bind_ok in H as (inner & Ei & H).
  assert (Hoks : Forall (fun t => ty_ok t = true) ts).
  { clear - HF. induction HF as [|v t vs ts [_ K] _ IH]; constructor; auto. }
  destruct (broadcast_arrays_inv _ _ Hoks Ei) as [(Li & Vi & Ni) Fi].
  destruct (is_valid_shape_pos _ Vo Hu) as [Vouter Nouter].
  pose proof (prod_list_pos _ Vi) as Pi.
  cbn [eval_node].
  set (full := shape_of t).
  assert (Einner : (if list_eqb Z.eqb full outer then [1] else skipn (length outer) full) = dims inner
                   /\ t = TArray full (st_of inner) /\ prod_list full = prod_list outer * prod_list (dims inner)).
  { unfold full. destruct inner as [s|sh s| | |]; try discriminate; cbn [is_scalar st_of shape_of dims] in *;
      apply register_ok in H as [-> _]; cbn [shape_of].
    - rewrite list_eqb_Z_refl. cbn [prod_list fold_right]. repeat split; lia.
    - rewrite list_eqb_app_false by auto. rewrite skipn_app_exact. rewrite prod_list_app. auto. }
  destruct Einner as (-> & Et & Pfull).
  match goal with |- context [mapM ?g (combine vs ts)] =>
    destruct (mapM_ok g (fun es => Z.of_nat (length es) = prod_list (dims inner) /\
                                   Forall (fun e => 0 <= e < modulus (st_of inner)) es) (combine vs ts))
      as (parts & -> & Lp & Fp) end.
  { intros [v dty] Hp. destruct (Forall2_combine_in _ _ _ _ HF Hp) as [[Hv Hk] Hin]. cbn [fst snd] in *.
    rewrite Forall_forall in Fi. destruct (Fi dty Hin) as ((Ld & Vd & Nd) & Lend & Std).
    rewrite Ld. cbn [negb].
    destruct (has_type_leaf v dty Ld Hv) as (es & -> & Les & Fes). cbn [arr_of bind].
    rewrite Std in Fes.
    destruct (broadcast_to_shape_ok (fun e => 0 <= e < modulus (st_of inner)) es (dims dty) (dims inner))
      as (r & -> & Lr & Fr); auto.
    eauto. }
  cbn [bind safe_typed]. rewrite Et. apply has_type_array. split.
  - rewrite (concat_length_const parts (Z.to_nat (prod_list (dims inner)))).
    + rewrite Lp, combine_length, (Forall2_wt_length _ _ HF), Nat.min_id.
      unfold zlen in Lts. nia.
    + eapply Forall_impl; [|exact Fp]. cbn. intros a [La _]. lia.
  - apply Forall_forall. intros e He. apply in_concat in He as (p & Hp & He).
    rewrite Forall_forall in Fp. destruct (Fp p Hp) as [_ F]. rewrite Forall_forall in F. auto.
Qed.

(* C20 (c): the Newton-type operations, decided at EVERY input of the stated domain by
   evaluating the integer model inside Coq (forallb ... = true by vm_compute, lifted with
   forallb_forall).  Bounds and caps are in the statements. *)
From CC Require Import Base.Prelude Model.Fixed Proofs.FixedBits.

(* rule of thumb of the docs: 1 + log(denominator_cap_2k) iterations *)
Definition rule_iters (cap : Z) : Z := 1 + Z.log2_up cap.

Lemma forallb_zrange : forall (f : Z -> bool) lo n,
  forallb f (zrange lo n) = true -> forall x, lo <= x < lo + Z.of_nat n -> f x = true.
Proof.
  intros f lo n H x Hx. rewrite forallb_forall in H. apply H. apply zrange_In. exact Hx.
Qed.

Lemma is_ok_and_true : forall {A} (r : result A) f,
  is_ok_and r f = true -> exists a, r = Ok a /\ f a = true.
Proof. intros A [a| | |] f H; try discriminate. exists a. auto. Qed.

(* ---------------------------------------------------------------- reciprocal *)
Definition newton_sweep (sg : bool) (cap tol : Z) : bool :=
  forallb (fun d => is_ok_and (newton_inversion sg (rule_iters cap) cap None d) (recip_close cap tol d))
          (zrange 1 (Z.to_nat (2 ^ cap - 1))).

Lemma newton_sweep_sound : forall sg cap tol, 0 <= cap -> newton_sweep sg cap tol = true ->
  forall d, 0 < d < 2 ^ cap ->
  exists a, newton_inversion sg (rule_iters cap) cap None d = Ok a /\ Z.abs (a * d - 2 ^ cap) <= tol * d.
Proof.
  intros sg cap tol Hc H d Hd. unfold newton_sweep in H.
  assert (Hp : 0 < 2 ^ cap) by (apply Z.pow_pos_nonneg; lia).
  pose proof (forallb_zrange _ _ _ H d) as Hd'. cbv beta in Hd'.
  destruct (is_ok_and_true _ _ (Hd' ltac:(lia))) as [a [Ha Hc']].
  exists a. split; [exact Ha|]. unfold recip_close in Hc'. lia.
Qed.

Definition caps_1_12 : list Z := [1; 2; 3; 4; 5; 6; 7; 8; 9; 10; 11; 12].
Lemma newton_sweep_1_12 :
  forallb (fun cap => newton_sweep true cap 2 && newton_sweep false cap 2) caps_1_12 = true.
Proof. vm_cast_no_check (eq_refl true). Qed.

Lemma newton_recip_1_12 : forall sg cap d, 1 <= cap <= 12 -> 0 < d < 2 ^ cap ->
  exists a, newton_inversion sg (rule_iters cap) cap None d = Ok a /\ Z.abs (a * d - 2 ^ cap) <= 2 * d.
Proof.
  intros sg cap d Hc Hd. pose proof newton_sweep_1_12 as H. rewrite forallb_forall in H.
  assert (Hin : In cap caps_1_12).
  { unfold caps_1_12. assert (cap = 1 \/ cap = 2 \/ cap = 3 \/ cap = 4 \/ cap = 5 \/ cap = 6 \/ cap = 7 \/
      cap = 8 \/ cap = 9 \/ cap = 10 \/ cap = 11 \/ cap = 12) as Hor by lia. cbn [In]. intuition. }
  specialize (H cap Hin). apply andb_true_iff in H. destruct H as [Ht Hf].
  destruct sg; apply newton_sweep_sound; try assumption; lia.
Qed.

(* the unit tests' parameterisation *)
Lemma newton_recip_test : forall sg d, 0 < d < 2 ^ 10 ->
  exists a, newton_inversion sg 5 10 None d = Ok a /\ Z.abs (a * d - 2 ^ 10) <= 2 * d.
Proof. intros sg d Hd. apply (newton_recip_1_12 sg 10 d); lia. Qed.

(* with a caller-supplied initial approximation x0, 2^(cap-1) <= d x0 <= 2^cap *)
Definition guesses (d lo hi : Z) : list Z :=
  zrange ((lo + d - 1) / d) (Z.to_nat (hi / d - (lo + d - 1) / d + 1)).
Definition newton_guess_sweep (sg : bool) (iters cap tol : Z) : bool :=
  forallb (fun d => forallb (fun x0 =>
      is_ok_and (newton_inversion sg iters cap (Some x0) d) (recip_close cap tol d))
      (guesses d (2 ^ (cap - 1)) (2 ^ cap)))
    (zrange 1 (Z.to_nat (2 ^ cap - 1))).
Lemma newton_guess_sweep_sound : forall sg iters cap tol, 1 <= cap ->
  newton_guess_sweep sg iters cap tol = true ->
  forall d x0, 0 < d < 2 ^ cap -> 2 ^ (cap - 1) <= d * x0 <= 2 ^ cap ->
  exists a, newton_inversion sg iters cap (Some x0) d = Ok a /\ Z.abs (a * d - 2 ^ cap) <= tol * d.
Proof.
  intros sg iters cap tol Hc Hs d x0 Hd Hx. unfold newton_guess_sweep in Hs.
  assert (Hp : 0 < 2 ^ cap) by (apply Z.pow_pos_nonneg; lia).
  set (lo := 2 ^ (cap - 1)) in *. set (hi := 2 ^ cap) in *.
  pose proof (forallb_zrange _ _ _ Hs d ltac:(lia)) as H1. cbv beta in H1.
  unfold guesses in H1.
  assert (Hlo : (lo + d - 1) / d < x0 + 1) by (apply Z.div_lt_upper_bound; lia).
  assert (Hhi : x0 <= hi / d) by (apply Z.div_le_lower_bound; lia).
  pose proof (forallb_zrange _ _ _ H1 x0 ltac:(lia)) as H2. cbv beta in H2.
  destruct (is_ok_and_true _ _ H2) as [a [Ha Hcl]].
  exists a. split; [exact Ha|]. unfold recip_close in Hcl. fold hi in Hcl. lia.
Qed.

Lemma newton_guess_10s : newton_guess_sweep true 5 10 2 = true.
Proof. vm_cast_no_check (eq_refl true). Qed.
Lemma newton_guess_10u : newton_guess_sweep false 5 10 2 = true.
Proof. vm_cast_no_check (eq_refl true). Qed.

Lemma newton_recip_guess : forall sg d x0, 0 < d < 2 ^ 10 -> 2 ^ 9 <= d * x0 <= 2 ^ 10 ->
  exists a, newton_inversion sg 5 10 (Some x0) d = Ok a /\ Z.abs (a * d - 2 ^ 10) <= 2 * d.
Proof.
  intros sg d x0 Hd Hx.
  destruct sg; [apply (newton_guess_sweep_sound true 5 10 2 ltac:(lia) newton_guess_10s d x0 Hd Hx)
               |apply (newton_guess_sweep_sound false 5 10 2 ltac:(lia) newton_guess_10u d x0 Hd Hx)].
Qed.

(* the documented admissible range for the guess, 2^(cap-1) <= d x0 < 2^(cap+1), is too wide *)
Lemma newton_guess_doc_refuted :
  exists d x0, 0 < d < 2 ^ 10 /\ 2 ^ 9 <= d * x0 < 2 ^ 11 /\
    newton_inversion true 5 10 (Some x0) d = Ok 1 /\ 2 ^ 10 / d = 1024.
Proof. exists 1, 2047. vm_compute. repeat split; congruence. Qed.

(* the cap + 1 >= 31 instantiations: `1 << (cap + 1)` is an i32 literal *)
Lemma newton_cap30_refuted :
  newton_inversion true 6 30 None 1 = Ok 312820697 /\ 2 ^ 30 / 1 = 1073741824 /\
  newton_inversion true 6 31 None 1 = Panic.
Proof. vm_compute. repeat split; reflexivity. Qed.


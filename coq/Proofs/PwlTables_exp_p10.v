(* Generated (harness/src/c20.rs, tier gen): interval proofs for the committed table exp_p10. *)
From Coq Require Import Reals.
From Interval Require Import Tactic.
From CC Require Import Base.Prelude Model.PwlData Proofs.PwlReal.
Open Scope R_scope.

Lemma exp_p10_seg1 : seg_bound exp_fn (4/100) (1/1024) 1024 1048576 (-16896) (-15872) 0 0.
Proof. unfold seg_bound, exp_fn. intros x Hx; apply Rabs_le; split; apply Rminus_le; interval with (i_bisect x, i_taylor x, i_prec 53). Qed.
Lemma exp_p10_seg2 : seg_bound exp_fn (4/100) (1/1024) 1024 1048576 (-15872) (-15360) 0 0.
Proof. unfold seg_bound, exp_fn. intros x Hx; apply Rabs_le; split; apply Rminus_le; interval with (i_bisect x, i_taylor x, i_prec 53). Qed.
Lemma exp_p10_seg3 : seg_bound exp_fn (4/100) (1/1024) 1024 1048576 (-15360) (-14848) 0 0.
Proof. unfold seg_bound, exp_fn. intros x Hx; apply Rabs_le; split; apply Rminus_le; interval with (i_bisect x, i_taylor x, i_prec 53). Qed.
Lemma exp_p10_seg4 : seg_bound exp_fn (4/100) (1/1024) 1024 1048576 (-14848) (-14336) 0 0.
Proof. unfold seg_bound, exp_fn. intros x Hx; apply Rabs_le; split; apply Rminus_le; interval with (i_bisect x, i_taylor x, i_prec 53). Qed.
Lemma exp_p10_seg5 : seg_bound exp_fn (4/100) (1/1024) 1024 1048576 (-14336) (-13824) 0 0.
Proof. unfold seg_bound, exp_fn. intros x Hx; apply Rabs_le; split; apply Rminus_le; interval with (i_bisect x, i_taylor x, i_prec 53). Qed.
Lemma exp_p10_seg6 : seg_bound exp_fn (4/100) (1/1024) 1024 1048576 (-13824) (-13312) 0 0.
Proof. unfold seg_bound, exp_fn. intros x Hx; apply Rabs_le; split; apply Rminus_le; interval with (i_bisect x, i_taylor x, i_prec 53). Qed.
Lemma exp_p10_seg7 : seg_bound exp_fn (4/100) (1/1024) 1024 1048576 (-13312) (-12800) 0 0.
Proof. unfold seg_bound, exp_fn. intros x Hx; apply Rabs_le; split; apply Rminus_le; interval with (i_bisect x, i_taylor x, i_prec 53). Qed.
Lemma exp_p10_seg8 : seg_bound exp_fn (4/100) (1/1024) 1024 1048576 (-12800) (-12288) 0 0.
Proof. unfold seg_bound, exp_fn. intros x Hx; apply Rabs_le; split; apply Rminus_le; interval with (i_bisect x, i_taylor x, i_prec 53). Qed.
Lemma exp_p10_seg9 : seg_bound exp_fn (4/100) (1/1024) 1024 1048576 (-12288) (-11776) 0 0.
Proof. unfold seg_bound, exp_fn. intros x Hx; apply Rabs_le; split; apply Rminus_le; interval with (i_bisect x, i_taylor x, i_prec 53). Qed.
Lemma exp_p10_seg10 : seg_bound exp_fn (4/100) (1/1024) 1024 1048576 (-11776) (-11264) 0 0.
Proof. unfold seg_bound, exp_fn. intros x Hx; apply Rabs_le; split; apply Rminus_le; interval with (i_bisect x, i_taylor x, i_prec 53). Qed.
Lemma exp_p10_seg11 : seg_bound exp_fn (4/100) (1/1024) 1024 1048576 (-11264) (-10752) 0 0.
Proof. unfold seg_bound, exp_fn. intros x Hx; apply Rabs_le; split; apply Rminus_le; interval with (i_bisect x, i_taylor x, i_prec 53). Qed.
Lemma exp_p10_seg12 : seg_bound exp_fn (4/100) (1/1024) 1024 1048576 (-10752) (-10240) 0 0.
Proof. unfold seg_bound, exp_fn. intros x Hx; apply Rabs_le; split; apply Rminus_le; interval with (i_bisect x, i_taylor x, i_prec 53). Qed.
Lemma exp_p10_seg13 : seg_bound exp_fn (4/100) (1/1024) 1024 1048576 (-10240) (-9728) 0 0.
Proof. unfold seg_bound, exp_fn. intros x Hx; apply Rabs_le; split; apply Rminus_le; interval with (i_bisect x, i_taylor x, i_prec 53). Qed.
Lemma exp_p10_seg14 : seg_bound exp_fn (4/100) (1/1024) 1024 1048576 (-9728) (-9216) 0 0.
Proof. unfold seg_bound, exp_fn. intros x Hx; apply Rabs_le; split; apply Rminus_le; interval with (i_bisect x, i_taylor x, i_prec 53). Qed.
Lemma exp_p10_seg15 : seg_bound exp_fn (4/100) (1/1024) 1024 1048576 (-9216) (-8704) 0 0.
Proof. unfold seg_bound, exp_fn. intros x Hx; apply Rabs_le; split; apply Rminus_le; interval with (i_bisect x, i_taylor x, i_prec 53). Qed.
Lemma exp_p10_seg16 : seg_bound exp_fn (4/100) (1/1024) 1024 1048576 (-8704) (-8192) 0 0.
Proof. unfold seg_bound, exp_fn. intros x Hx; apply Rabs_le; split; apply Rminus_le; interval with (i_bisect x, i_taylor x, i_prec 53). Qed.
Lemma exp_p10_seg17 : seg_bound exp_fn (4/100) (1/1024) 1024 1048576 (-8192) (-7680) 0 0.
Proof. unfold seg_bound, exp_fn. intros x Hx; apply Rabs_le; split; apply Rminus_le; interval with (i_bisect x, i_taylor x, i_prec 53). Qed.
Lemma exp_p10_seg18 : seg_bound exp_fn (4/100) (1/1024) 1024 1048576 (-7680) (-7168) 0 0.
Proof. unfold seg_bound, exp_fn. intros x Hx; apply Rabs_le; split; apply Rminus_le; interval with (i_bisect x, i_taylor x, i_prec 53). Qed.
Lemma exp_p10_seg19 : seg_bound exp_fn (4/100) (1/1024) 1024 1048576 (-7168) (-6656) 2 14336.
Proof. unfold seg_bound, exp_fn. intros x Hx; apply Rabs_le; split; apply Rminus_le; interval with (i_bisect x, i_taylor x, i_prec 53). Qed.
Lemma exp_p10_seg20 : seg_bound exp_fn (4/100) (1/1024) 1024 1048576 (-6656) (-6144) 2 14336.
Proof. unfold seg_bound, exp_fn. intros x Hx; apply Rabs_le; split; apply Rminus_le; interval with (i_bisect x, i_taylor x, i_prec 53). Qed.
Lemma exp_p10_seg21 : seg_bound exp_fn (4/100) (1/1024) 1024 1048576 (-6144) (-5632) 4 26624.
Proof. unfold seg_bound, exp_fn. intros x Hx; apply Rabs_le; split; apply Rminus_le; interval with (i_bisect x, i_taylor x, i_prec 53). Qed.
Lemma exp_p10_seg22 : seg_bound exp_fn (4/100) (1/1024) 1024 1048576 (-5632) (-5120) 4 26624.
Proof. unfold seg_bound, exp_fn. intros x Hx; apply Rabs_le; split; apply Rminus_le; interval with (i_bisect x, i_taylor x, i_prec 53). Qed.
Lemma exp_p10_seg23 : seg_bound exp_fn (4/100) (1/1024) 1024 1048576 (-5120) (-4608) 10 57344.
Proof. unfold seg_bound, exp_fn. intros x Hx; apply Rabs_le; split; apply Rminus_le; interval with (i_bisect x, i_taylor x, i_prec 53). Qed.
Lemma exp_p10_seg24 : seg_bound exp_fn (4/100) (1/1024) 1024 1048576 (-4608) (-4096) 14 75776.
Proof. unfold seg_bound, exp_fn. intros x Hx; apply Rabs_le; split; apply Rminus_le; interval with (i_bisect x, i_taylor x, i_prec 53). Qed.
Lemma exp_p10_seg25 : seg_bound exp_fn (4/100) (1/1024) 1024 1048576 (-4096) (-3584) 24 116736.
Proof. unfold seg_bound, exp_fn. intros x Hx; apply Rabs_le; split; apply Rminus_le; interval with (i_bisect x, i_taylor x, i_prec 53). Qed.
Lemma exp_p10_seg26 : seg_bound exp_fn (4/100) (1/1024) 1024 1048576 (-3584) (-3072) 40 174080.
Proof. unfold seg_bound, exp_fn. intros x Hx; apply Rabs_le; split; apply Rminus_le; interval with (i_bisect x, i_taylor x, i_prec 53). Qed.
Lemma exp_p10_seg27 : seg_bound exp_fn (4/100) (1/1024) 1024 1048576 (-3072) (-2560) 68 260096.
Proof. unfold seg_bound, exp_fn. intros x Hx; apply Rabs_le; split; apply Rminus_le; interval with (i_bisect x, i_taylor x, i_prec 53). Qed.
Lemma exp_p10_seg28 : seg_bound exp_fn (4/100) (1/1024) 1024 1048576 (-2560) (-2048) 108 362496.
Proof. unfold seg_bound, exp_fn. intros x Hx; apply Rabs_le; split; apply Rminus_le; interval with (i_bisect x, i_taylor x, i_prec 53). Qed.
Lemma exp_p10_seg29 : seg_bound exp_fn (4/100) (1/1024) 1024 1048576 (-2048) (-1536) 180 509952.
Proof. unfold seg_bound, exp_fn. intros x Hx; apply Rabs_le; split; apply Rminus_le; interval with (i_bisect x, i_taylor x, i_prec 53). Qed.
Lemma exp_p10_seg30 : seg_bound exp_fn (4/100) (1/1024) 1024 1048576 (-1536) (-1024) 296 688128.
Proof. unfold seg_bound, exp_fn. intros x Hx; apply Rabs_le; split; apply Rminus_le; interval with (i_bisect x, i_taylor x, i_prec 53). Qed.
Lemma exp_p10_seg31 : seg_bound exp_fn (4/100) (1/1024) 1024 1048576 (-1024) (-512) 490 886784.
Proof. unfold seg_bound, exp_fn. intros x Hx; apply Rabs_le; split; apply Rminus_le; interval with (i_bisect x, i_taylor x, i_prec 53). Qed.
Lemma exp_p10_seg32 : seg_bound exp_fn (4/100) (1/1024) 1024 1048576 (-512) 0 806 1048576.
Proof. unfold seg_bound, exp_fn. intros x Hx; apply Rabs_le; split; apply Rminus_le; interval with (i_bisect x, i_taylor x, i_prec 53). Qed.
Lemma exp_p10_seg33 : seg_bound exp_fn (4/100) (1/1024) 1024 1048576 0 512 1328 1048576.
Proof. unfold seg_bound, exp_fn. intros x Hx; apply Rabs_le; split; apply Rminus_le; interval with (i_bisect x, i_taylor x, i_prec 53). Qed.
Lemma exp_p10_seg34 : seg_bound exp_fn (4/100) (1/1024) 1024 1048576 512 1024 2190 607232.
Proof. unfold seg_bound, exp_fn. intros x Hx; apply Rabs_le; split; apply Rminus_le; interval with (i_bisect x, i_taylor x, i_prec 53). Qed.
Lemma exp_p10_seg35 : seg_bound exp_fn (4/100) (1/1024) 1024 1048576 1024 1536 3612 (-848896).
Proof. unfold seg_bound, exp_fn. intros x Hx; apply Rabs_le; split; apply Rminus_le; interval with (i_bisect x, i_taylor x, i_prec 53). Qed.
Lemma exp_p10_seg36 : seg_bound exp_fn (4/100) (1/1024) 1024 1048576 1536 2048 5954 (-4446208).
Proof. unfold seg_bound, exp_fn. intros x Hx; apply Rabs_le; split; apply Rminus_le; interval with (i_bisect x, i_taylor x, i_prec 53). Qed.
Lemma exp_p10_seg37 : seg_bound exp_fn (4/100) (1/1024) 1024 1048576 2048 2560 9816 (-12355584).
Proof. unfold seg_bound, exp_fn. intros x Hx; apply Rabs_le; split; apply Rminus_le; interval with (i_bisect x, i_taylor x, i_prec 53). Qed.
Lemma exp_p10_seg38 : seg_bound exp_fn (4/100) (1/1024) 1024 1048576 2560 3072 16186 (-28662784).
Proof. unfold seg_bound, exp_fn. intros x Hx; apply Rabs_le; split; apply Rminus_le; interval with (i_bisect x, i_taylor x, i_prec 53). Qed.
Lemma exp_p10_seg39 : seg_bound exp_fn (4/100) (1/1024) 1024 1048576 3072 3584 26686 (-60918784).
Proof. unfold seg_bound, exp_fn. intros x Hx; apply Rabs_le; split; apply Rminus_le; interval with (i_bisect x, i_taylor x, i_prec 53). Qed.
Lemma exp_p10_seg40 : seg_bound exp_fn (4/100) (1/1024) 1024 1048576 3584 4096 43996 (-122957824).
Proof. unfold seg_bound, exp_fn. intros x Hx; apply Rabs_le; split; apply Rminus_le; interval with (i_bisect x, i_taylor x, i_prec 53). Qed.
Lemma exp_p10_seg41 : seg_bound exp_fn (4/100) (1/1024) 1024 1048576 4096 4608 72538 (-239865856).
Proof. unfold seg_bound, exp_fn. intros x Hx; apply Rabs_le; split; apply Rminus_le; interval with (i_bisect x, i_taylor x, i_prec 53). Qed.
Lemma exp_p10_seg42 : seg_bound exp_fn (4/100) (1/1024) 1024 1048576 4608 5120 119596 (-456709120).
Proof. unfold seg_bound, exp_fn. intros x Hx; apply Rabs_le; split; apply Rminus_le; interval with (i_bisect x, i_taylor x, i_prec 53). Qed.
Lemma exp_p10_seg43 : seg_bound exp_fn (4/100) (1/1024) 1024 1048576 5120 5632 197178 (-853928960).
Proof. unfold seg_bound, exp_fn. intros x Hx; apply Rabs_le; split; apply Rminus_le; interval with (i_bisect x, i_taylor x, i_prec 53). Qed.
Lemma exp_p10_seg44 : seg_bound exp_fn (4/100) (1/1024) 1024 1048576 5632 6144 325094 (-1574351872).
Proof. unfold seg_bound, exp_fn. intros x Hx; apply Rabs_le; split; apply Rminus_le; interval with (i_bisect x, i_taylor x, i_prec 53). Qed.
Lemma exp_p10_seg45 : seg_bound exp_fn (4/100) (1/1024) 1024 1048576 6144 6656 535988 (-2870084608).
Proof. unfold seg_bound, exp_fn. intros x Hx; apply Rabs_le; split; apply Rminus_le; interval with (i_bisect x, i_taylor x, i_prec 53). Qed.
Lemma exp_p10_seg46 : seg_bound exp_fn (4/100) (1/1024) 1024 1048576 6656 7168 883694 (-5184415744).
Proof. unfold seg_bound, exp_fn. intros x Hx; apply Rabs_le; split; apply Rminus_le; interval with (i_bisect x, i_taylor x, i_prec 53). Qed.
Lemma exp_p10_seg47 : seg_bound exp_fn (4/100) (1/1024) 1024 1048576 7168 7680 1456966 (-9293629440).
Proof. unfold seg_bound, exp_fn. intros x Hx; apply Rabs_le; split; apply Rminus_le; interval with (i_bisect x, i_taylor x, i_prec 53). Qed.
Lemma exp_p10_seg48 : seg_bound exp_fn (4/100) (1/1024) 1024 1048576 7680 8192 2402132 (-16552504320).
Proof. unfold seg_bound, exp_fn. intros x Hx; apply Rabs_le; split; apply Rminus_le; interval with (i_bisect x, i_taylor x, i_prec 53). Qed.
Lemma exp_p10_seg49 : seg_bound exp_fn (4/100) (1/1024) 1024 1048576 8192 8704 3960444 (-29318196224).
Proof. unfold seg_bound, exp_fn. intros x Hx; apply Rabs_le; split; apply Rminus_le; interval with (i_bisect x, i_taylor x, i_prec 53). Qed.
Lemma exp_p10_seg50 : seg_bound exp_fn (4/100) (1/1024) 1024 1048576 8704 9216 6529670 (-51680739328).
Proof. unfold seg_bound, exp_fn. intros x Hx; apply Rabs_le; split; apply Rminus_le; interval with (i_bisect x, i_taylor x, i_prec 53). Qed.
Lemma exp_p10_seg51 : seg_bound exp_fn (4/100) (1/1024) 1024 1048576 9216 9728 10765604 (-90719107072).
Proof. unfold seg_bound, exp_fn. intros x Hx; apply Rabs_le; split; apply Rminus_le; interval with (i_bisect x, i_taylor x, i_prec 53). Qed.
Lemma exp_p10_seg52 : seg_bound exp_fn (4/100) (1/1024) 1024 1048576 9728 10240 17749480 (-158658252800).
Proof. unfold seg_bound, exp_fn. intros x Hx; apply Rabs_le; split; apply Rminus_le; interval with (i_bisect x, i_taylor x, i_prec 53). Qed.
Lemma exp_p10_seg53 : seg_bound exp_fn (4/100) (1/1024) 1024 1048576 10240 10752 29263952 (-276566446080).
Proof. unfold seg_bound, exp_fn. intros x Hx; apply Rabs_le; split; apply Rminus_le; interval with (i_bisect x, i_taylor x, i_prec 53). Qed.
Lemma exp_p10_seg54 : seg_bound exp_fn (4/100) (1/1024) 1024 1048576 10752 11264 48248088 (-480683876352).
Proof. unfold seg_bound, exp_fn. intros x Hx; apply Rabs_le; split; apply Rminus_le; interval with (i_bisect x, i_taylor x, i_prec 53). Qed.
Lemma exp_p10_seg55 : seg_bound exp_fn (4/100) (1/1024) 1024 1048576 11264 11776 79547664 (-833242300416).
Proof. unfold seg_bound, exp_fn. intros x Hx; apply Rabs_le; split; apply Rminus_le; interval with (i_bisect x, i_taylor x, i_prec 53). Qed.
Lemma exp_p10_seg56 : seg_bound exp_fn (4/100) (1/1024) 1024 1048576 11776 12288 131151920 (-1440934019072).
Proof. unfold seg_bound, exp_fn. intros x Hx; apply Rabs_le; split; apply Rminus_le; interval with (i_bisect x, i_taylor x, i_prec 53). Qed.
Lemma exp_p10_seg57 : seg_bound exp_fn (4/100) (1/1024) 1024 1048576 12288 12800 216232928 (-2486409445376).
Proof. unfold seg_bound, exp_fn. intros x Hx; apply Rabs_le; split; apply Rminus_le; interval with (i_bisect x, i_taylor x, i_prec 53). Qed.
Lemma exp_p10_seg58 : seg_bound exp_fn (4/100) (1/1024) 1024 1048576 12800 13312 356507904 (-4281929138176).
Proof. unfold seg_bound, exp_fn. intros x Hx; apply Rabs_le; split; apply Rminus_le; interval with (i_bisect x, i_taylor x, i_prec 53). Qed.
Lemma exp_p10_seg59 : seg_bound exp_fn (4/100) (1/1024) 1024 1048576 13312 13824 587782080 (-7360650969088).
Proof. unfold seg_bound, exp_fn. intros x Hx; apply Rabs_le; split; apply Rminus_le; interval with (i_bisect x, i_taylor x, i_prec 53). Qed.
Lemma exp_p10_seg60 : seg_bound exp_fn (4/100) (1/1024) 1024 1048576 13824 14336 969088768 (-12631834624000).
Proof. unfold seg_bound, exp_fn. intros x Hx; apply Rabs_le; split; apply Rminus_le; interval with (i_bisect x, i_taylor x, i_prec 53). Qed.
Lemma exp_p10_seg61 : seg_bound exp_fn (4/100) (1/1024) 1024 1048576 14336 14848 1597757440 (-21644428705792).
Proof. unfold seg_bound, exp_fn. intros x Hx; apply Rabs_le; split; apply Rminus_le; interval with (i_bisect x, i_taylor x, i_prec 53). Qed.
Lemma exp_p10_seg62 : seg_bound exp_fn (4/100) (1/1024) 1024 1048576 14848 15360 2634256384 (-37034365026304).
Proof. unfold seg_bound, exp_fn. intros x Hx; apply Rabs_le; split; apply Rminus_le; interval with (i_bisect x, i_taylor x, i_prec 53). Qed.
Lemma exp_p10_seg63 : seg_bound exp_fn (4/100) (1/1024) 1024 1048576 15360 15872 4343155200 (-63283050840064).
Proof. unfold seg_bound, exp_fn. intros x Hx; apply Rabs_le; split; apply Rminus_le; interval with (i_bisect x, i_taylor x, i_prec 53). Qed.
Lemma exp_p10_seg64 : seg_bound exp_fn (4/100) (1/1024) 1024 1048576 15872 16384 7160652800 (-108002372747264).
Proof. unfold seg_bound, exp_fn. intros x Hx; apply Rabs_le; split; apply Rminus_le; interval with (i_bisect x, i_taylor x, i_prec 53). Qed.

Lemma exp_p10_table : table_bound exp_fn (4/100) (1/1024) 10 exp_p10_lb exp_p10_left exp_p10_divisor exp_p10_alphas exp_p10_betas.
Proof.
  unfold table_bound. intros i a b Hi Ha Hb.
  change (2 ^ exp_p10_lb)%Z with 64%Z in Hi.
  assert (Hc : (i = 1 \/ i = 2 \/ i = 3 \/ i = 4 \/ i = 5 \/ i = 6 \/ i = 7 \/ i = 8 \/ i = 9 \/ i = 10 \/ i = 11 \/ i = 12 \/ i = 13 \/ i = 14 \/ i = 15 \/ i = 16 \/ i = 17 \/ i = 18 \/ i = 19 \/ i = 20 \/ i = 21 \/ i = 22 \/ i = 23 \/ i = 24 \/ i = 25 \/ i = 26 \/ i = 27 \/ i = 28 \/ i = 29 \/ i = 30 \/ i = 31 \/ i = 32 \/ i = 33 \/ i = 34 \/ i = 35 \/ i = 36 \/ i = 37 \/ i = 38 \/ i = 39 \/ i = 40 \/ i = 41 \/ i = 42 \/ i = 43 \/ i = 44 \/ i = 45 \/ i = 46 \/ i = 47 \/ i = 48 \/ i = 49 \/ i = 50 \/ i = 51 \/ i = 52 \/ i = 53 \/ i = 54 \/ i = 55 \/ i = 56 \/ i = 57 \/ i = 58 \/ i = 59 \/ i = 60 \/ i = 61 \/ i = 62 \/ i = 63 \/ i = 64)%Z) by lia.
  destruct Hc as [Hc|Hc]; [subst i; vm_compute in Ha, Hb; injection Ha as <-; injection Hb as <-; exact exp_p10_seg1|].
  destruct Hc as [Hc|Hc]; [subst i; vm_compute in Ha, Hb; injection Ha as <-; injection Hb as <-; exact exp_p10_seg2|].
  destruct Hc as [Hc|Hc]; [subst i; vm_compute in Ha, Hb; injection Ha as <-; injection Hb as <-; exact exp_p10_seg3|].
  destruct Hc as [Hc|Hc]; [subst i; vm_compute in Ha, Hb; injection Ha as <-; injection Hb as <-; exact exp_p10_seg4|].
  destruct Hc as [Hc|Hc]; [subst i; vm_compute in Ha, Hb; injection Ha as <-; injection Hb as <-; exact exp_p10_seg5|].
  destruct Hc as [Hc|Hc]; [subst i; vm_compute in Ha, Hb; injection Ha as <-; injection Hb as <-; exact exp_p10_seg6|].
  destruct Hc as [Hc|Hc]; [subst i; vm_compute in Ha, Hb; injection Ha as <-; injection Hb as <-; exact exp_p10_seg7|].
  destruct Hc as [Hc|Hc]; [subst i; vm_compute in Ha, Hb; injection Ha as <-; injection Hb as <-; exact exp_p10_seg8|].
  destruct Hc as [Hc|Hc]; [subst i; vm_compute in Ha, Hb; injection Ha as <-; injection Hb as <-; exact exp_p10_seg9|].
  destruct Hc as [Hc|Hc]; [subst i; vm_compute in Ha, Hb; injection Ha as <-; injection Hb as <-; exact exp_p10_seg10|].
  destruct Hc as [Hc|Hc]; [subst i; vm_compute in Ha, Hb; injection Ha as <-; injection Hb as <-; exact exp_p10_seg11|].
  destruct Hc as [Hc|Hc]; [subst i; vm_compute in Ha, Hb; injection Ha as <-; injection Hb as <-; exact exp_p10_seg12|].
  destruct Hc as [Hc|Hc]; [subst i; vm_compute in Ha, Hb; injection Ha as <-; injection Hb as <-; exact exp_p10_seg13|].
  destruct Hc as [Hc|Hc]; [subst i; vm_compute in Ha, Hb; injection Ha as <-; injection Hb as <-; exact exp_p10_seg14|].
  destruct Hc as [Hc|Hc]; [subst i; vm_compute in Ha, Hb; injection Ha as <-; injection Hb as <-; exact exp_p10_seg15|].
  destruct Hc as [Hc|Hc]; [subst i; vm_compute in Ha, Hb; injection Ha as <-; injection Hb as <-; exact exp_p10_seg16|].
  destruct Hc as [Hc|Hc]; [subst i; vm_compute in Ha, Hb; injection Ha as <-; injection Hb as <-; exact exp_p10_seg17|].
  destruct Hc as [Hc|Hc]; [subst i; vm_compute in Ha, Hb; injection Ha as <-; injection Hb as <-; exact exp_p10_seg18|].
  destruct Hc as [Hc|Hc]; [subst i; vm_compute in Ha, Hb; injection Ha as <-; injection Hb as <-; exact exp_p10_seg19|].
  destruct Hc as [Hc|Hc]; [subst i; vm_compute in Ha, Hb; injection Ha as <-; injection Hb as <-; exact exp_p10_seg20|].
  destruct Hc as [Hc|Hc]; [subst i; vm_compute in Ha, Hb; injection Ha as <-; injection Hb as <-; exact exp_p10_seg21|].
  destruct Hc as [Hc|Hc]; [subst i; vm_compute in Ha, Hb; injection Ha as <-; injection Hb as <-; exact exp_p10_seg22|].
  destruct Hc as [Hc|Hc]; [subst i; vm_compute in Ha, Hb; injection Ha as <-; injection Hb as <-; exact exp_p10_seg23|].
  destruct Hc as [Hc|Hc]; [subst i; vm_compute in Ha, Hb; injection Ha as <-; injection Hb as <-; exact exp_p10_seg24|].
  destruct Hc as [Hc|Hc]; [subst i; vm_compute in Ha, Hb; injection Ha as <-; injection Hb as <-; exact exp_p10_seg25|].
  destruct Hc as [Hc|Hc]; [subst i; vm_compute in Ha, Hb; injection Ha as <-; injection Hb as <-; exact exp_p10_seg26|].
  destruct Hc as [Hc|Hc]; [subst i; vm_compute in Ha, Hb; injection Ha as <-; injection Hb as <-; exact exp_p10_seg27|].
  destruct Hc as [Hc|Hc]; [subst i; vm_compute in Ha, Hb; injection Ha as <-; injection Hb as <-; exact exp_p10_seg28|].
  destruct Hc as [Hc|Hc]; [subst i; vm_compute in Ha, Hb; injection Ha as <-; injection Hb as <-; exact exp_p10_seg29|].
  destruct Hc as [Hc|Hc]; [subst i; vm_compute in Ha, Hb; injection Ha as <-; injection Hb as <-; exact exp_p10_seg30|].
  destruct Hc as [Hc|Hc]; [subst i; vm_compute in Ha, Hb; injection Ha as <-; injection Hb as <-; exact exp_p10_seg31|].
  destruct Hc as [Hc|Hc]; [subst i; vm_compute in Ha, Hb; injection Ha as <-; injection Hb as <-; exact exp_p10_seg32|].
  destruct Hc as [Hc|Hc]; [subst i; vm_compute in Ha, Hb; injection Ha as <-; injection Hb as <-; exact exp_p10_seg33|].
  destruct Hc as [Hc|Hc]; [subst i; vm_compute in Ha, Hb; injection Ha as <-; injection Hb as <-; exact exp_p10_seg34|].
  destruct Hc as [Hc|Hc]; [subst i; vm_compute in Ha, Hb; injection Ha as <-; injection Hb as <-; exact exp_p10_seg35|].
  destruct Hc as [Hc|Hc]; [subst i; vm_compute in Ha, Hb; injection Ha as <-; injection Hb as <-; exact exp_p10_seg36|].
  destruct Hc as [Hc|Hc]; [subst i; vm_compute in Ha, Hb; injection Ha as <-; injection Hb as <-; exact exp_p10_seg37|].
  destruct Hc as [Hc|Hc]; [subst i; vm_compute in Ha, Hb; injection Ha as <-; injection Hb as <-; exact exp_p10_seg38|].
  destruct Hc as [Hc|Hc]; [subst i; vm_compute in Ha, Hb; injection Ha as <-; injection Hb as <-; exact exp_p10_seg39|].
  destruct Hc as [Hc|Hc]; [subst i; vm_compute in Ha, Hb; injection Ha as <-; injection Hb as <-; exact exp_p10_seg40|].
  destruct Hc as [Hc|Hc]; [subst i; vm_compute in Ha, Hb; injection Ha as <-; injection Hb as <-; exact exp_p10_seg41|].
  destruct Hc as [Hc|Hc]; [subst i; vm_compute in Ha, Hb; injection Ha as <-; injection Hb as <-; exact exp_p10_seg42|].
  destruct Hc as [Hc|Hc]; [subst i; vm_compute in Ha, Hb; injection Ha as <-; injection Hb as <-; exact exp_p10_seg43|].
  destruct Hc as [Hc|Hc]; [subst i; vm_compute in Ha, Hb; injection Ha as <-; injection Hb as <-; exact exp_p10_seg44|].
  destruct Hc as [Hc|Hc]; [subst i; vm_compute in Ha, Hb; injection Ha as <-; injection Hb as <-; exact exp_p10_seg45|].
  destruct Hc as [Hc|Hc]; [subst i; vm_compute in Ha, Hb; injection Ha as <-; injection Hb as <-; exact exp_p10_seg46|].
  destruct Hc as [Hc|Hc]; [subst i; vm_compute in Ha, Hb; injection Ha as <-; injection Hb as <-; exact exp_p10_seg47|].
  destruct Hc as [Hc|Hc]; [subst i; vm_compute in Ha, Hb; injection Ha as <-; injection Hb as <-; exact exp_p10_seg48|].
  destruct Hc as [Hc|Hc]; [subst i; vm_compute in Ha, Hb; injection Ha as <-; injection Hb as <-; exact exp_p10_seg49|].
  destruct Hc as [Hc|Hc]; [subst i; vm_compute in Ha, Hb; injection Ha as <-; injection Hb as <-; exact exp_p10_seg50|].
  destruct Hc as [Hc|Hc]; [subst i; vm_compute in Ha, Hb; injection Ha as <-; injection Hb as <-; exact exp_p10_seg51|].
  destruct Hc as [Hc|Hc]; [subst i; vm_compute in Ha, Hb; injection Ha as <-; injection Hb as <-; exact exp_p10_seg52|].
  destruct Hc as [Hc|Hc]; [subst i; vm_compute in Ha, Hb; injection Ha as <-; injection Hb as <-; exact exp_p10_seg53|].
  destruct Hc as [Hc|Hc]; [subst i; vm_compute in Ha, Hb; injection Ha as <-; injection Hb as <-; exact exp_p10_seg54|].
  destruct Hc as [Hc|Hc]; [subst i; vm_compute in Ha, Hb; injection Ha as <-; injection Hb as <-; exact exp_p10_seg55|].
  destruct Hc as [Hc|Hc]; [subst i; vm_compute in Ha, Hb; injection Ha as <-; injection Hb as <-; exact exp_p10_seg56|].
  destruct Hc as [Hc|Hc]; [subst i; vm_compute in Ha, Hb; injection Ha as <-; injection Hb as <-; exact exp_p10_seg57|].
  destruct Hc as [Hc|Hc]; [subst i; vm_compute in Ha, Hb; injection Ha as <-; injection Hb as <-; exact exp_p10_seg58|].
  destruct Hc as [Hc|Hc]; [subst i; vm_compute in Ha, Hb; injection Ha as <-; injection Hb as <-; exact exp_p10_seg59|].
  destruct Hc as [Hc|Hc]; [subst i; vm_compute in Ha, Hb; injection Ha as <-; injection Hb as <-; exact exp_p10_seg60|].
  destruct Hc as [Hc|Hc]; [subst i; vm_compute in Ha, Hb; injection Ha as <-; injection Hb as <-; exact exp_p10_seg61|].
  destruct Hc as [Hc|Hc]; [subst i; vm_compute in Ha, Hb; injection Ha as <-; injection Hb as <-; exact exp_p10_seg62|].
  destruct Hc as [Hc|Hc]; [subst i; vm_compute in Ha, Hb; injection Ha as <-; injection Hb as <-; exact exp_p10_seg63|].
  subst i; vm_compute in Ha, Hb; injection Ha as <-; injection Hb as <-; exact exp_p10_seg64.
Qed.

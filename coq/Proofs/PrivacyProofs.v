(* C03: the one-time-pad theorem for lists of deliveries, and its use on the protocol gadgets. *)
From CC Require Import Base.Prelude Model.Privacy.

Section OTP.
  Variable G : Type.
  Variables (gadd : G -> G -> G) (gneg : G -> G) (gzero : G).
  Hypothesis gadd_comm : forall a b, gadd a b = gadd b a.
  Hypothesis gadd_assoc : forall a b c, gadd a (gadd b c) = gadd (gadd a b) c.
  Hypothesis gadd_0_l : forall a, gadd gzero a = a.
  Hypothesis gadd_neg : forall a, gadd a (gneg a) = gzero.
  Variable cell : Type.
  Variable cell_eqb : cell -> cell -> bool.
  Hypothesis cell_eqb_spec : forall a b, cell_eqb a b = true <-> a = b.
  Variable X : Type.

  Notation tape := (tape G cell).
  Notation upd := (upd G cell cell_eqb).
  Notation msg := (msg G gadd gneg cell X).
  Notation delivery := (delivery G cell X).
  Notation indep := (indep G cell cell_eqb).
  Notation otp_ok := (otp_ok G cell cell_eqb X).
  Notation rerand := (rerand G gadd gneg cell cell_eqb X).
  Notation pi := (pi G gadd gneg cell cell_eqb X).
  Notation sgn := (sgn G gneg).
  Notation gsub := (gsub G gadd gneg).

  Lemma gadd_0_r a : gadd a gzero = a.
  Proof. rewrite gadd_comm. apply gadd_0_l. Qed.
  Lemma gneg_neg a : gneg (gneg a) = a.
  Proof.
    rewrite <- (gadd_0_r (gneg (gneg a))). rewrite <- (gadd_neg a).
    rewrite (gadd_comm a), gadd_assoc, (gadd_comm (gneg (gneg a))), gadd_neg. apply gadd_0_l.
  Qed.
  Lemma sgn_sgn b a : sgn b (sgn b a) = a.
  Proof. destruct b; cbn; auto using gneg_neg. Qed.
  Lemma sub_add a b : gadd (gsub a b) b = a.
  Proof. unfold gsub. rewrite <- gadd_assoc, (gadd_comm (gneg b)), gadd_neg. apply gadd_0_r. Qed.

  Lemma cell_eqb_refl c : cell_eqb c c = true.
  Proof. now apply cell_eqb_spec. Qed.
  Lemma upd_same t c v : upd t c v c = v.
  Proof. unfold Privacy.upd. now rewrite cell_eqb_refl. Qed.
  Lemma upd_other t c v c' : cell_eqb c' c = false -> upd t c v c' = t c'.
  Proof. unfold Privacy.upd. now intros ->. Qed.

  (* rerand only touches the mask cells *)
  Lemma rerand_other ds : forall x x' t t' c,
    existsb (cell_eqb c) (map (d_mask G cell X) ds) = false -> rerand ds x x' t t' c = t' c.
  Proof.
    induction ds as [|d r IH]; intros x x' t t' c H; cbn [Privacy.rerand]; auto.
    cbn [map existsb] in H. apply orb_false_iff in H as [H1 H2].
    rewrite IH by auto. apply upd_other; auto.
  Qed.

  (* the messages received with (x', rerandomised tape) are those received with (x, tape) *)
  Lemma rerand_msgs ds : forall x x' t t',
    otp_ok ds ->
    Forall (fun d => msg d x' (rerand ds x x' t t') = msg d x t) ds.
  Proof.
    induction ds as [|d r IH]; intros x x' t t' OK; cbn [Privacy.rerand]; constructor.
    - destruct OK as (Hi & Hd & Hr).
      set (t'' := upd t' (d_mask G cell X d) (sgn (d_neg G cell X d) (gsub (msg d x t) (d_rest G cell X d x' t')))).
      unfold Privacy.msg at 1.
      rewrite (rerand_other r x x' t t'' (d_mask G cell X d) Hd).
      unfold t'' at 1. rewrite upd_same, sgn_sgn.
      (* the rest does not look at the mask cells of d :: r *)
      assert (E : d_rest G cell X d x' (rerand r x x' t t'') = d_rest G cell X d x' t').
      { apply (Hi x'). intros c Hc. cbn [map existsb] in Hc. apply orb_false_iff in Hc as [H1 H2].
        rewrite rerand_other by auto. unfold t''. apply upd_other; auto. }
      rewrite E. apply sub_add.
    - destruct OK as (_ & _ & Hr). apply IH. exact Hr.
  Qed.

  (* undoing: from any tape T on which the observer receives, with x', the messages of (x, t),
     the backward pass restores t *)
  Lemma back_restores ds : forall x x' t T b,
    otp_ok ds ->
    Forall (fun d => msg d x' T = msg d x t) ds ->
    (forall c, existsb (cell_eqb c) (map (d_mask G cell X) ds) = false -> b c = t c) ->
    forall c, rerand ds x' x T b c = t c.
  Proof.
    induction ds as [|d r IH]; intros x x' t T b OK M Hb c; cbn [Privacy.rerand].
    - apply Hb. reflexivity.
    - destruct OK as (Hi & Hd & Hr). apply Forall_cons_iff in M as [Md Mr].
      set (w := upd b (d_mask G cell X d) (sgn (d_neg G cell X d) (gsub (msg d x' T) (d_rest G cell X d x b)))).
      assert (E : d_rest G cell X d x b = d_rest G cell X d x t) by (apply (Hi x); exact Hb).
      assert (Ew : w (d_mask G cell X d) = t (d_mask G cell X d)).
      { unfold w. rewrite upd_same, Md, E. unfold Privacy.msg, gsub.
        rewrite <- gadd_assoc, gadd_neg, gadd_0_r. apply sgn_sgn. }
      apply (IH x x' t T w Hr Mr).
      intros c' Hc'. destruct (cell_eqb c' (d_mask G cell X d)) eqn:Ed.
      + apply cell_eqb_spec in Ed. subst c'. exact Ew.
      + unfold w. rewrite upd_other by exact Ed. apply Hb. cbn [map existsb]. now rewrite Ed, Hc'.
  Qed.

  (* The one-time-pad theorem.  For any two input vectors x, x' of the other parties, pi is a
     bijection of the tape space (with inverse pi in the other direction) that only changes the
     mask cells and makes every delivered message with (x', pi t) equal to the one with (x, t):
     the joint distribution of the deliveries is the same for x and x'. *)
  Theorem otp_bijection ds x x' :
    otp_ok ds ->
    (forall t, Forall (fun d => msg d x' (pi ds x x' t) = msg d x t) ds) /\
    (forall t c, pi ds x' x (pi ds x x' t) c = t c) /\
    (forall t c, pi ds x x' (pi ds x' x t) c = t c) /\
    (forall t c, existsb (cell_eqb c) (map (d_mask G cell X) ds) = false -> pi ds x x' t c = t c).
  Proof.
    intros OK. unfold Privacy.pi. repeat split.
    - intros t. apply rerand_msgs. exact OK.
    - intros t c. apply (back_restores ds x x' t); auto.
      + apply rerand_msgs. exact OK.
      + intros c' Hc'. apply rerand_other. exact Hc'.
    - intros t c. apply (back_restores ds x' x t); auto.
      + apply rerand_msgs. exact OK.
      + intros c' Hc'. apply rerand_other. exact Hc'.
    - intros t c Hc. apply rerand_other. exact Hc.
  Qed.
End OTP.

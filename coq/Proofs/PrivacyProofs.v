(* C03: the one-time-pad theorem for lists of deliveries, and its use on the protocol gadgets. *)
From Coq Require Import Ring.
From CC Require Import Base.Prelude Model.Privacy.

Section OTP.
  Variable G : Type.
  Variables (gadd : G -> G -> G) (gneg : G -> G) (gzero : G).
  (* the values form a commutative ring (arrays of one shape over Z_2^w, pointwise); only the
     additive group is used, the ring structure gives access to the [ring] tactic *)
  Variables (gone : G) (gmul gsubr : G -> G -> G).
  Hypothesis Gring : ring_theory gzero gone gadd gmul gsubr gneg eq.
  Add Ring GrOTP : Gring.
  Variable cell : Type.
  Variable cell_eqb : cell -> cell -> bool.
  Hypothesis cell_eqb_spec : forall a b, cell_eqb a b = true <-> a = b.
  Variable X : Type.

  Notation tape := (tape G cell).
  Notation upd := (upd G cell cell_eqb).
  Notation msg := (msg G gadd gneg cell X).
  Notation delivery := (delivery G cell X).
  Notation indep := (indep G cell cell_eqb).
  Notation otp_ok := (otp_ok G cell cell_eqb X).
  Notation rerand := (rerand G gadd gneg cell cell_eqb X).
  Notation pi := (pi G gadd gneg cell cell_eqb X).
  Notation sgn := (sgn G gneg).
  Notation gsub := (gsub G gadd gneg).

  Lemma gneg_neg a : gneg (gneg a) = a.
  Proof. ring. Qed.
  Lemma sgn_sgn b a : sgn b (sgn b a) = a.
  Proof. destruct b; cbn; auto using gneg_neg. Qed.
  Lemma sub_add a b : gadd (gsub a b) b = a.
  Proof. unfold Privacy.gsub. ring. Qed.

  Lemma cell_eqb_refl c : cell_eqb c c = true.
  Proof. now apply cell_eqb_spec. Qed.
  Lemma upd_same t c v : upd t c v c = v.
  Proof. unfold Privacy.upd. now rewrite cell_eqb_refl. Qed.
  Lemma upd_other t c v c' : cell_eqb c' c = false -> upd t c v c' = t c'.
  Proof. unfold Privacy.upd. now intros ->. Qed.

  (* rerand only touches the mask cells *)
  Lemma rerand_other ds : forall x x' t t' c,
    existsb (cell_eqb c) (map (d_mask G cell X) ds) = false -> rerand ds x x' t t' c = t' c.
  Proof.
    induction ds as [|d r IH]; intros x x' t t' c H; cbn [Privacy.rerand]; auto.
    cbn [map existsb] in H. apply orb_false_iff in H as [H1 H2].
    rewrite IH by auto. apply upd_other; auto.
  Qed.

  (* the messages received with (x', rerandomised tape) are those received with (x, tape) *)
  Lemma rerand_msgs ds : forall x x' t t',
    otp_ok ds ->
    Forall (fun d => msg d x' (rerand ds x x' t t') = msg d x t) ds.
  Proof.
    induction ds as [|d r IH]; intros x x' t t' OK; cbn [Privacy.rerand]; constructor.
    - destruct OK as (Hi & Hd & Hr).
      set (t'' := upd t' (d_mask G cell X d) (sgn (d_neg G cell X d) (gsub (msg d x t) (d_rest G cell X d x' t')))).
      unfold Privacy.msg at 1.
      rewrite (rerand_other r x x' t t'' (d_mask G cell X d) Hd).
      unfold t'' at 1. rewrite upd_same, sgn_sgn.
      (* the rest does not look at the mask cells of d :: r *)
      assert (E : d_rest G cell X d x' (rerand r x x' t t'') = d_rest G cell X d x' t').
      { apply (Hi x'). intros c Hc. cbn [map existsb] in Hc. apply orb_false_iff in Hc as [H1 H2].
        rewrite rerand_other by auto. unfold t''. apply upd_other; auto. }
      rewrite E. apply sub_add.
    - destruct OK as (_ & _ & Hr). apply IH. exact Hr.
  Qed.

  (* undoing: from any tape T on which the observer receives, with x', the messages of (x, t),
     the backward pass restores t *)
  Lemma back_restores ds : forall x x' t T b,
    otp_ok ds ->
    Forall (fun d => msg d x' T = msg d x t) ds ->
    (forall c, existsb (cell_eqb c) (map (d_mask G cell X) ds) = false -> b c = t c) ->
    forall c, rerand ds x' x T b c = t c.
  Proof.
    induction ds as [|d r IH]; intros x x' t T b OK M Hb c; cbn [Privacy.rerand].
    - apply Hb. reflexivity.
    - destruct OK as (Hi & Hd & Hr). apply Forall_cons_iff in M as [Md Mr].
      set (w := upd b (d_mask G cell X d) (sgn (d_neg G cell X d) (gsub (msg d x' T) (d_rest G cell X d x b)))).
      assert (E : d_rest G cell X d x b = d_rest G cell X d x t) by (apply (Hi x); exact Hb).
      assert (Ew : w (d_mask G cell X d) = t (d_mask G cell X d)).
      { unfold w. rewrite upd_same, Md, E. unfold Privacy.msg, Privacy.gsub.
        set (a := sgn (d_neg G cell X d) (t (d_mask G cell X d))). set (e := d_rest G cell X d x t).
        replace (gadd (gadd a e) (gneg e)) with a by ring. apply sgn_sgn. }
      apply (IH x x' t T w Hr Mr).
      intros c' Hc'. destruct (cell_eqb c' (d_mask G cell X d)) eqn:Ed.
      + apply cell_eqb_spec in Ed. subst c'. exact Ew.
      + unfold w. rewrite upd_other by exact Ed. apply Hb. cbn [map existsb]. now rewrite Ed, Hc'.
  Qed.

  (* The one-time-pad theorem.  For any two input vectors x, x' of the other parties, pi is a
     bijection of the tape space (with inverse pi in the other direction) that only changes the
     mask cells and makes every delivered message with (x', pi t) equal to the one with (x, t):
     the joint distribution of the deliveries is the same for x and x'. *)
  Theorem otp_bijection ds x x' :
    otp_ok ds ->
    (forall t, Forall (fun d => msg d x' (pi ds x x' t) = msg d x t) ds) /\
    (forall t c, pi ds x' x (pi ds x x' t) c = t c) /\
    (forall t c, pi ds x x' (pi ds x' x t) c = t c) /\
    (forall t c, existsb (cell_eqb c) (map (d_mask G cell X) ds) = false -> pi ds x x' t c = t c).
  Proof.
    intros OK. unfold Privacy.pi. repeat split.
    - intros t. apply rerand_msgs. exact OK.
    - intros t c. apply (back_restores ds x x' t); auto.
      + apply rerand_msgs. exact OK.
      + intros c' Hc'. apply rerand_other. exact Hc'.
    - intros t c. apply (back_restores ds x' x t); auto.
      + apply rerand_msgs. exact OK.
      + intros c' Hc'. apply rerand_other. exact Hc'.
    - intros t c Hc. apply rerand_other. exact Hc.
  Qed.
End OTP.

(* ------------------------------------------------------------------ gadgets *)
Section Gadgets.
  Variable G : Type.
  Variables (gadd : G -> G -> G) (gneg : G -> G) (gzero : G).
  (* the values form a commutative ring (arrays of one shape over Z_2^w, pointwise); only the
     additive group is used, the ring structure gives access to the [ring] tactic *)
  Variables (gone : G) (gmul gsubr : G -> G -> G).
  Hypothesis Gring : ring_theory gzero gone gadd gmul gsubr gneg eq.
  Add Ring GrGadgets : Gring.
  Variable X : Type.

  Notation tape := (tape G nat).
  Notation gsub := (gsub G gadd gneg).
  Definition nxt (p : nat) : nat := match p with 0 => 1 | 1 => 2 | _ => 0 end%nat.
  Definition prv (p : nat) : nat := match p with 0 => 2 | 1 => 0 | _ => 1 end%nat.

  Lemma nat_eqb_spec a b : Nat.eqb a b = true <-> a = b.
  Proof. apply Nat.eqb_eq. Qed.

  (* --- input sharing (share_node): share_i = r_i - r_{i+1} (+ x for the owner), share_i is sent
         by party i to party i-1.  Party p holds r_p, r_{p+1} and receives share_{p+1}. *)
  Definition in_share (o i : nat) (x : G) (t : tape) : G :=
    gadd (gsub (t i) (t (nxt i))) (if Nat.eqb o i then x else gzero).
  Definition share_delivery (o p : nat) : delivery G nat G :=
    mkD G nat G (nxt (nxt p)) true
        (fun x t => gadd (t (nxt p)) (if Nat.eqb o (nxt p) then x else gzero)).

  Lemma share_delivery_is_message o p x t :
    msg G gadd gneg nat G (share_delivery o p) x t = in_share o (nxt p) x t.
  Proof.
    unfold Privacy.msg, share_delivery, in_share, Privacy.gsub, Privacy.sgn. cbn. ring.
  Qed.

  Lemma share_delivery_otp o p : otp_ok G nat Nat.eqb G [share_delivery o p].
  Proof.
    cbn. split; [|split; auto]. intros x t t' H. cbn.
    rewrite (H (nxt p)); auto. cbn. destruct p as [|[|p]]; reflexivity.
  Qed.

  (* what the non-owner receives has the same distribution for any two secrets: a bijection of
     the tape space that leaves the observer's own PRF values r_p, r_{p+1} alone *)
  Theorem share_hides o p x x' : (p < 3)%nat ->
    let d := share_delivery o p in
    (forall t, in_share o (nxt p) x' (pi G gadd gneg nat Nat.eqb G [d] x x' t) = in_share o (nxt p) x t) /\
    (forall t c, pi G gadd gneg nat Nat.eqb G [d] x' x (pi G gadd gneg nat Nat.eqb G [d] x x' t) c = t c) /\
    (forall t c, pi G gadd gneg nat Nat.eqb G [d] x x' (pi G gadd gneg nat Nat.eqb G [d] x' x t) c = t c) /\
    (forall t, pi G gadd gneg nat Nat.eqb G [d] x x' t p = t p /\
               pi G gadd gneg nat Nat.eqb G [d] x x' t (nxt p) = t (nxt p)).
  Proof.
    intros Hp d.
    destruct (otp_bijection G gadd gneg gzero gone gmul gsubr Gring nat Nat.eqb nat_eqb_spec G
                [d] x x' (share_delivery_otp o p)) as (M & I1 & I2 & O).
    repeat split; auto.
    - intros t. specialize (M t). apply Forall_cons_iff in M as [M _].
      rewrite <- !share_delivery_is_message. exact M.
    - apply O. cbn. destruct p as [|[|[|p]]]; try reflexivity; lia.
    - apply O. cbn. destruct p as [|[|[|p]]]; try reflexivity; lia.
  Qed.

  (* --- resharing (reshare): party i sends z_i + (q_i - q_{i+1}) to party i-1, where the q's are
         three fresh PRF values (cells 0,1,2) the shares z do not depend on.  Party p holds q_p,
         q_{p+1} and receives the message of party p+1. *)
  Variable z : nat -> X -> tape -> G.
  Hypothesis z_fresh : forall i x, indep G nat Nat.eqb (z i x) [0; 1; 2]%nat.
  Definition reshare_msg (i : nat) (x : X) (t : tape) : G :=
    gadd (z i x t) (gsub (t i) (t (nxt i))).
  Definition reshare_delivery (p : nat) : delivery G nat X :=
    mkD G nat X (nxt (nxt p)) true (fun x t => gadd (z (nxt p) x t) (t (nxt p))).

  Lemma reshare_delivery_is_message p x t :
    msg G gadd gneg nat X (reshare_delivery p) x t = reshare_msg (nxt p) x t.
  Proof.
    unfold Privacy.msg, reshare_delivery, reshare_msg, Privacy.gsub, Privacy.sgn. cbn. ring.
  Qed.

  Lemma reshare_delivery_otp p : (p < 3)%nat -> otp_ok G nat Nat.eqb X [reshare_delivery p].
  Proof.
    intros Hp. cbn. split; [|split; auto]. intros x t t' H. cbn.
    rewrite (H (nxt p)) by (destruct p as [|[|[|p]]]; try reflexivity; lia).
    f_equal. apply z_fresh. intros c Hc. apply H. cbn in *.
    destruct p as [|[|[|p]]]; try lia; cbn; destruct c as [|[|[|c]]]; cbn in *; try discriminate; reflexivity.
  Qed.

  (* the masked share a party receives in a resharing is identically distributed whatever the
     inputs (hence whatever the 3-out-of-3 shares z) are *)
  Theorem reshare_hides p x x' : (p < 3)%nat ->
    let d := reshare_delivery p in
    (forall t, reshare_msg (nxt p) x' (pi G gadd gneg nat Nat.eqb X [d] x x' t) = reshare_msg (nxt p) x t) /\
    (forall t c, pi G gadd gneg nat Nat.eqb X [d] x' x (pi G gadd gneg nat Nat.eqb X [d] x x' t) c = t c) /\
    (forall t c, pi G gadd gneg nat Nat.eqb X [d] x x' (pi G gadd gneg nat Nat.eqb X [d] x' x t) c = t c) /\
    (forall t c, c <> nxt (nxt p) -> pi G gadd gneg nat Nat.eqb X [d] x x' t c = t c).
  Proof.
    intros Hp d.
    destruct (otp_bijection G gadd gneg gzero gone gmul gsubr Gring nat Nat.eqb nat_eqb_spec X
                [d] x x' (reshare_delivery_otp p Hp)) as (M & I1 & I2 & O).
    repeat split; auto.
    - intros t. specialize (M t). apply Forall_cons_iff in M as [M _].
      rewrite <- !reshare_delivery_is_message. exact M.
    - intros t c Hc. apply O. cbn. rewrite orb_false_r. apply Nat.eqb_neq. exact Hc.
  Qed.

  (* --- reveal: the share sent to an output party is determined by the output and the two
         shares that party already holds *)
  Theorem reveal_simulatable (s0 s1 s2 out : G) :
    gadd (gadd s0 s1) s2 = out ->
    s2 = gsub (gsub out s0) s1 /\ s0 = gsub (gsub out s1) s2 /\ s1 = gsub (gsub out s2) s0.
  Proof.
    intros <-. unfold Privacy.gsub. repeat split; ring.
  Qed.

  (* --- oblivious transfer (mpc/utils.rs:84-120): the receiver (who knows the bit b) gets
         i0 + r0, i1 + r1 and r_b.  For two sender inputs with the same selected message the
         receiver's three messages are identically distributed: shift the unselected mask. *)
  Definition ot_view (b : bool) (i0 i1 : G) (t : tape) : G * G * G :=
    (gadd i0 (t 0%nat), gadd i1 (t 1%nat), if b then t 1%nat else t 0%nat).
  Definition ot_pi (b : bool) (i0 i1 i0' i1' : G) (t : tape) : tape :=
    fun c => if Nat.eqb c (if b then 0 else 1)%nat
             then gadd (t c) (if b then gsub i0 i0' else gsub i1 i1') else t c.
  Theorem ot_receiver_hides b i0 i1 i0' i1' :
    (b = true -> i1 = i1') -> (b = false -> i0 = i0') ->
    (forall t, ot_view b i0' i1' (ot_pi b i0 i1 i0' i1' t) = ot_view b i0 i1 t) /\
    (forall t c, ot_pi b i0' i1' i0 i1 (ot_pi b i0 i1 i0' i1' t) c = t c).
  Proof.
    assert (S : forall a a' m, gadd a' (gadd m (gsub a a')) = gadd a m)
      by (intros; unfold Privacy.gsub; ring).
    assert (C : forall m a a', gadd (gadd m (gsub a a')) (gsub a' a) = m)
      by (intros; unfold Privacy.gsub; ring).
    intros H1 H0. destruct b; [specialize (H1 eq_refl) | specialize (H0 eq_refl)]; subst; split; intros t; unfold ot_view, ot_pi; cbn.
    - rewrite S. reflexivity.
    - intros c. destruct (Nat.eqb c 0); auto.
    - rewrite S. reflexivity.
    - intros c. destruct (Nat.eqb c 1); auto.
  Qed.
End Gadgets.

(* Proofs about Model/Sort.v (C18), part 5: Algorithm 11's counting formula
   [gen_multi_bit_sort] returns the ranks of the stable sort of the chunk (the inverse stable
   sorting permutation) for EVERY chunk width l and EVERY table height n, on chunk rows made of
   bits; hence the radix schedule with the concrete formula plugged in is the stable sort. *)
From Coq Require Import Permutation Sorted.
From CC Require Import Base.Prelude Base.Scalar Model.Sort Proofs.SortProofs Proofs.PermProofs
  Proofs.RadixProofs.

(* ------------------------------------------------------------------ count_if *)
Lemma count_if_cons {A} (f : A -> bool) a l :
  count_if f (a :: l) = ((if f a then 1 else 0) + count_if f l)%nat.
Proof. unfold count_if. cbn [filter]. destruct (f a); reflexivity. Qed.

Lemma count_if_app {A} (f : A -> bool) l1 l2 :
  count_if f (l1 ++ l2) = (count_if f l1 + count_if f l2)%nat.
Proof. unfold count_if. now rewrite filter_app, app_length. Qed.

Lemma count_if_ext_in {A} (f g : A -> bool) l :
  (forall x, In x l -> f x = g x) -> count_if f l = count_if g l.
Proof.
  induction l as [|a l IH]; intros H; auto. rewrite !count_if_cons.
  rewrite (H a) by (left; auto). rewrite IH; auto. intros x Hx. apply H. right; auto.
Qed.

Lemma count_if_false {A} (l : list A) : count_if (fun _ => false) l = 0%nat.
Proof. induction l as [|a l IH]; auto. Qed.

Lemma count_if_map {A B} (h : A -> B) (f : B -> bool) l :
  count_if f (map h l) = count_if (fun x => f (h x)) l.
Proof. induction l as [|a l IH]; auto. cbn [map]. rewrite !count_if_cons, IH. reflexivity. Qed.

Lemma count_if_perm {A} (f : A -> bool) l1 l2 :
  Permutation l1 l2 -> count_if f l1 = count_if f l2.
Proof. induction 1; auto; rewrite ?count_if_cons; lia. Qed.

Lemma count_if_or_disjoint {A} (f g : A -> bool) l :
  (forall x, In x l -> f x && g x = false) ->
  count_if (fun x => f x || g x) l = (count_if f l + count_if g l)%nat.
Proof.
  induction l as [|a l IH]; intros H; auto. rewrite !count_if_cons.
  rewrite IH by (intros x Hx; apply H; right; auto).
  specialize (H a (or_introl eq_refl)). destruct (f a), (g a); cbn in *; try discriminate; lia.
Qed.

Lemma firstn_succ_nth {A} (d : A) l q :
  (q < length l)%nat -> firstn (S q) l = firstn q l ++ [nth q l d].
Proof.
  revert q; induction l as [|a l IH]; intros q H; cbn [length] in H; [lia|].
  destruct q as [|q]; auto. cbn [firstn nth app]. change (firstn (S q) l) with (firstn (S q) l).
  f_equal. apply IH. lia.
Qed.

Lemma combine_map_fst {A B C} (f : A -> B) (l : list A) (l' : list C) :
  combine (map f l) l' = map (fun p => (f (fst p), snd p)) (combine l l').
Proof. revert l'; induction l as [|a l IH]; intros [|c l']; cbn; f_equal; auto. Qed.

(* ------------------------------------------------------------------ position = number of smaller entries *)
Definition e_ltb (a b : list Z * nat) : bool :=
  match cmp_key a b with Lt => true | Eq => (snd a <? snd b)%nat | Gt => false end.

Lemma e_ltb_iff a b : e_ltb a b = true <-> key_idx_lt a b.
Proof.
  unfold e_ltb, key_idx_lt, lexR, idx_lt. destruct (cmp_key a b) eqn:E.
  - rewrite Nat.ltb_lt. split; [intros H; right; auto|intros [H|[_ H]]; [discriminate|auto]].
  - split; auto.
  - split; [discriminate|intros [H|[H _]]; discriminate].
Qed.

Lemma e_ltb_asym a b : key_idx_lt a b -> e_ltb b a = false.
Proof.
  intros H. apply Bool.not_true_iff_false. rewrite e_ltb_iff. intros H'.
  eapply key_idx_lt_asym; eauto.
Qed.

Lemma e_ltb_irrefl a : e_ltb a a = false.
Proof.
  apply Bool.not_true_iff_false. rewrite e_ltb_iff. intros H. eapply key_idx_lt_asym; eauto.
Qed.

(* in a list strictly sorted by (key, index) the entry at position i has exactly i smaller entries *)
Lemma sorted_count_before l i d :
  StronglySorted key_idx_lt l -> (i < length l)%nat ->
  count_if (fun e => e_ltb e (nth i l d)) l = i.
Proof.
  intros Hs. revert i. induction Hs as [|a l Hs IH Ha]; intros i Hi; cbn [length] in Hi; [lia|].
  rewrite count_if_cons. rewrite Forall_forall in Ha. destruct i as [|i]; cbn [nth].
  - rewrite e_ltb_irrefl. rewrite (count_if_ext_in _ (fun _ => false) l).
    + now rewrite count_if_false.
    + intros z Hz. apply e_ltb_asym. auto.
  - replace (e_ltb a (nth i l d)) with true by (symmetry; apply e_ltb_iff, Ha, nth_In; lia).
    rewrite IH by lia. reflexivity.
Qed.

(* ------------------------------------------------------------------ chunk_val is monotone on bit rows *)
Definition is_bits (r : list Z) : Prop := Forall (fun x => x = 0 \/ x = 1) r.
Definition cv (acc : Z) (bits : list Z) : Z := fold_left (fun a b => 2 * a + b) bits acc.

Lemma chunk_val_cv r : chunk_val r = cv 0 r.
Proof. reflexivity. Qed.

Lemma cv_lt a : forall b acc1 acc2,
  length a = length b -> is_bits a -> is_bits b -> acc1 < acc2 -> cv acc1 a < cv acc2 b.
Proof.
  induction a as [|x a IH]; intros [|y b] acc1 acc2 L Ha Hb Hlt; cbn [length] in L;
    try discriminate; [exact Hlt|].
  inversion Ha as [|? ? Hx Ha']; subst. inversion Hb as [|? ? Hy Hb']; subst.
  unfold cv. cbn [fold_left]. apply IH; auto. lia.
Qed.

(* first bit most significant: numeric order of the values = lexicographic order of the rows *)
Lemma cv_cmp a : forall b acc,
  length a = length b -> is_bits a -> is_bits b -> lex_cmp a b = (cv acc a ?= cv acc b).
Proof.
  induction a as [|x a IH]; intros [|y b] acc L Ha Hb; cbn [length] in L; try discriminate.
  - unfold cv. cbn [fold_left lex_cmp]. now rewrite Z.compare_refl.
  - inversion Ha as [|? ? Hx Ha']; subst. inversion Hb as [|? ? Hy Hb']; subst.
    cbn [lex_cmp]. unfold cv. cbn [fold_left].
    fold (cv (2 * acc + x) a). fold (cv (2 * acc + y) b).
    destruct (x ?= y) eqn:E.
    + apply Z.compare_eq in E. subst y. apply IH; auto.
    + symmetry. apply Z.compare_lt_iff. rewrite Z.compare_lt_iff in E. apply cv_lt; auto; lia.
    + symmetry. apply Z.compare_gt_iff. rewrite Z.compare_gt_iff in E. apply cv_lt; auto; lia.
Qed.

Lemma chunk_val_cmp a b :
  length a = length b -> is_bits a -> is_bits b -> lex_cmp a b = (chunk_val a ?= chunk_val b).
Proof. intros. rewrite !chunk_val_cv. now apply cv_cmp. Qed.

(* ------------------------------------------------------------------ Algorithm 11 = ranks *)
(* a chunk: n rows of l bits each *)
Definition bit_table (l : nat) (k : list (list Z)) : Prop :=
  Forall (fun r => length r = l /\ is_bits r) k.

Lemma count_combine_eq_before (xs : list Z) x q : forall s,
  count_if (fun p : Z * nat => (fst p =? x) && (snd p <? q)%nat) (combine xs (seq s (length xs)))
  = count_if (fun y => y =? x) (firstn (q - s) xs).
Proof.
  induction xs as [|a xs IH]; intros s.
  - now rewrite firstn_nil.
  - cbn [length seq combine]. rewrite count_if_cons, IH. cbn [fst snd].
    destruct (Nat.ltb_spec s q) as [H|H].
    + replace (q - s)%nat with (S (q - S s)) by lia. cbn [firstn]. rewrite count_if_cons.
      rewrite Bool.andb_true_r. reflexivity.
    + replace (q - s)%nat with 0%nat by lia. replace (q - S s)%nat with 0%nat by lia.
      rewrite Bool.andb_false_r. reflexivity.
Qed.

(* the counting characterisation of the rank, on the values *)
Lemma rank_count (xs : list Z) q :
  (q < length xs)%nat ->
  let x := nth q xs 0 in
  S (count_if (fun p : Z * nat => (fst p <? x) || ((fst p =? x) && (snd p <? q)%nat))
              (combine xs (seq 0 (length xs))))
  = Nat.add (count_if (fun y => y <? x) xs) (count_if (fun y => y =? x) (firstn (S q) xs)).
Proof.
  intros Hq x.
  rewrite (count_if_or_disjoint (fun p : Z * nat => fst p <? x)
             (fun p : Z * nat => (fst p =? x) && (snd p <? q)%nat)).
  2:{ intros p _. destruct (Z.ltb_spec (fst p) x), (Z.eqb_spec (fst p) x); cbn; auto; lia. }
  rewrite (count_combine_eq_before xs x q 0), Nat.sub_0_r.
  rewrite <- (count_if_map fst (fun y => y <? x)), map_fst_combine by (now rewrite seq_length).
  rewrite (firstn_succ_nth 0 xs q Hq), count_if_app. fold x.
  unfold count_if at 5. cbn [filter]. rewrite Z.eqb_refl. cbn [length]. lia.
Qed.

(* Algorithm 11's formula gives the rank of every row: every width l, every height *)
Theorem gen_multi_bit_sort_ranks l k :
  bit_table l k -> gen_multi_bit_sort k = inv_perm (sorting_permutation k).
Proof.
  intros Hk. unfold bit_table in Hk. rewrite Forall_forall in Hk.
  apply (inv_perm_unique (length k)).
  - apply sorting_permutation_is_perm.
  - unfold gen_multi_bit_sort. now rewrite map_length, seq_length, map_length.
  - intros i Hi.
    destruct (sorted_enum_nth k i Hi) as (E1 & E2 & E3).
    pose proof (sorted_count_before (sorted_enum k) i ([], 0%nat) (sorted_enum_sorted k)) as C.
    rewrite sorted_enum_length in C. specialize (C Hi).
    rewrite (count_if_perm _ _ _ (sorted_enum_perm k)) in C.
    set (e := nth i (sorted_enum k) ([], 0%nat)) in *. rewrite <- E1.
    set (q := snd e) in *.
    unfold gen_multi_bit_sort. set (xs := map chunk_val k).
    assert (Lxs : length xs = length k) by (unfold xs; apply map_length).
    rewrite (nth_map_lt _ (seq 0 (length xs)) q 0%nat 0%nat) by (rewrite seq_length; lia).
    rewrite seq_nth by lia. cbn [plus].
    pose proof (rank_count xs q ltac:(lia)) as R. cbv zeta in R.
    set (x := nth q xs 0) in *.
    assert (Hx : x = chunk_val (fst e)).
    { unfold x, xs. rewrite (nth_map_lt chunk_val k q [] 0) by lia. now rewrite E2. }
    assert (Hin_e : In (fst e) k) by (rewrite E2; apply nth_In; lia).
    destruct (Hk _ Hin_e) as [Le Be].
    (* the count over the enumeration of the rows is the count over the values *)
    assert (C' : count_if (fun p : Z * nat => (fst p <? x) || ((fst p =? x) && (snd p <? q)%nat))
                          (combine xs (seq 0 (length xs))) = i).
    { etransitivity; [|exact C]. unfold xs at 1. rewrite combine_map_fst, count_if_map, Lxs.
      apply count_if_ext_in. intros [r j] Hp. cbn [fst snd].
      pose proof (in_combine_l _ _ _ _ Hp) as Hr. destruct (Hk _ Hr) as [Lp Bp].
      unfold e_ltb, cmp_key. cbn [fst snd].
      rewrite (chunk_val_cmp r (fst e)) by (auto; congruence).
      rewrite <- Hx. fold q.
      destruct (Z.compare_spec (chunk_val r) x) as [H|H|H];
        destruct (Z.ltb_spec (chunk_val r) x), (Z.eqb_spec (chunk_val r) x);
        cbn; auto; lia. }
    lia.
Qed.

(* ------------------------------------------------------------------ the schedule with the formula plugged in *)
(* the specification restricted to what the schedule feeds it: chunks of bits *)
Definition ms_spec_bits (ms : list (list Z) -> list nat) : Prop :=
  forall l k, bit_table l k -> ms k = inv_perm (sorting_permutation k).

Lemma ms_spec_ms_spec_bits ms : ms_spec ms -> ms_spec_bits ms.
Proof. intros H l k _. apply H. Qed.

Theorem gen_multi_bit_sort_spec : ms_spec_bits gen_multi_bit_sort.
Proof. exact gen_multi_bit_sort_ranks. Qed.

Lemma is_bits_firstn m r : is_bits r -> is_bits (firstn m r).
Proof.
  intros H. unfold is_bits in *. rewrite <- (firstn_skipn m r) in H. now apply Forall_app in H.
Qed.
Lemma is_bits_skipn m r : is_bits r -> is_bits (skipn m r).
Proof.
  intros H. unfold is_bits in *. rewrite <- (firstn_skipn m r) in H. now apply Forall_app in H.
Qed.

Lemma bit_table_apply_perm c t p :
  bit_table c t -> Forall (fun i => (i < length t)%nat) p -> bit_table c (apply_perm [] p t).
Proof.
  unfold bit_table, apply_perm. rewrite !Forall_forall. intros Ht Hp r Hr.
  apply in_map_iff in Hr as (i & <- & Hi). apply Ht, nth_In, Hp, Hi.
Qed.

Section ScheduleBits.
  Variable ms : list (list Z) -> list nat.
  Hypothesis Hms : ms_spec_bits ms.
  Variable pi_of : nat -> list nat.

  Lemma radix_step_sorted_bits n pi keys (fh fl : list Z -> list Z) c :
    is_perm n pi -> length keys = n -> bit_table c (map fh keys) ->
    radix_step ms pi (inv_perm (sorting_permutation (map fl keys))) (map fh keys)
    = inv_perm (sorting_permutation (map (fun r => fh r ++ fl r) keys)).
  Proof.
    intros Hpi Ln Hb.
    assert (Hc : forall r, In r keys -> length (fh r) = c).
    { intros r Hr. unfold bit_table in Hb. rewrite Forall_forall in Hb.
      apply (Hb (fh r)). now apply in_map. }
    assert (HP : is_perm n (sorting_permutation (map fl keys))).
    { rewrite <- Ln, <- (map_length fl keys). apply sorting_permutation_is_perm. }
    rewrite (radix_step_conjugation ms n) by (auto using inv_perm_is_perm; now rewrite map_length).
    rewrite (inv_perm_involutive n) by auto.
    set (P := sorting_permutation (map fl keys)) in *.
    rewrite (Hms c).
    2:{ apply bit_table_apply_perm; auto. rewrite map_length, Ln. now apply is_perm_Forall. }
    set (Q := sorting_permutation (apply_perm [] P (map fh keys))).
    assert (HQ : is_perm n Q).
    { unfold Q. rewrite <- (is_perm_length n P HP), <- (apply_perm_length [] P (map fh keys)).
      apply sorting_permutation_is_perm. }
    rewrite <- (inv_perm_compose n Q P HQ HP). f_equal.
    unfold Q, P. apply (radix_compose keys fh fl c Hc).
  Qed.

  Theorem lsd_radix_is_stable_sort_bits b keys :
    (1 <= b)%nat -> bit_table b keys ->
    (forall i, is_perm (length keys) (pi_of i)) ->
    radix_sigma ms pi_of b keys = Ok (inv_perm (sorting_permutation keys)).
  Proof.
    intros Hb Hk Hpi. unfold radix_sigma.
    set (s0 := step0_size b).
    assert (Hs0 : (s0 <= b /\ b - s0 = 2 * ((b - s0) / 2))%nat).
    { unfold s0, step0_size. destruct (b mod 2 =? 0)%nat eqn:E.
      - apply Nat.eqb_eq in E. lia.
      - apply Nat.eqb_neq in E. lia. }
    destruct Hs0 as [Hs0 Hcount]. set (count := ((b - s0) / 2)%nat) in *.
    replace (b <? s0)%nat with false by (symmetry; apply Nat.ltb_ge; lia). f_equal.
    unfold bit_table in Hk. rewrite Forall_forall in Hk.
    rewrite (Hms s0).
    2:{ unfold bit_table. rewrite Forall_forall. intros r' Hr'.
        apply in_map_iff in Hr' as (r & <- & Hr). destruct (Hk r Hr) as [L B]. split.
        - unfold lastn. rewrite skipn_length. lia.
        - apply is_bits_skipn, B. }
    assert (G : forall c, (2 * c <= b - s0)%nat ->
      fold_left (fun sigma bit_ind =>
                   radix_step ms (pi_of bit_ind) sigma
                              (map (chunk_of bit_ind) (map (firstn (b - s0)) keys)))
                (rev (seq 0 c))
                (inv_perm (sorting_permutation (map (lastn (b - 2 * c)) keys)))
      = inv_perm (sorting_permutation keys)).
    { induction c as [|c IH]; intros Hc.
      - cbn [seq rev fold_left]. rewrite Nat.mul_0_r, Nat.sub_0_r. do 2 f_equal.
        rewrite <- (map_id keys) at 2. apply map_ext_in. intros r Hr.
        rewrite <- (proj1 (Hk r Hr)). apply lastn_all.
      - rewrite seq_S, rev_app_distr. cbn [rev app plus fold_left].
        rewrite map_map.
        rewrite (radix_step_sorted_bits (length keys) (pi_of c) keys
                   (fun r => chunk_of c (firstn (b - s0) r)) (lastn (b - 2 * S c)) 2%nat); auto.
        + replace (map (fun r => chunk_of c (firstn (b - s0) r) ++ lastn (b - 2 * S c) r) keys)
            with (map (lastn (b - 2 * c)) keys); [apply IH; lia|].
          apply map_ext_in. intros r Hr. symmetry.
          apply (chunk_row b c (b - s0) r (proj1 (Hk r Hr))); lia.
        + unfold bit_table. rewrite Forall_forall. intros r' Hr'.
          apply in_map_iff in Hr' as (r & <- & Hr). destruct (Hk r Hr) as [L B]. split.
          * apply (chunk_row b c (b - s0) r L); lia.
          * unfold chunk_of. apply is_bits_firstn, is_bits_skipn, is_bits_firstn, B. }
    replace s0 with (b - 2 * count)%nat at 1 by lia.
    apply G. lia.
  Qed.

  Theorem radix_sort_column_is_sort_bits {A} (d : A) pi_fin b keys (col : list A) :
    (1 <= b)%nat -> bit_table b keys ->
    (forall i, is_perm (length keys) (pi_of i)) -> is_perm (length keys) pi_fin ->
    length col = length keys ->
    radix_sort_column ms pi_of pi_fin d b keys col
    = Ok (apply_perm d (sorting_permutation keys) col).
  Proof.
    intros Hb Hk Hpi Hfin Lc. unfold radix_sort_column.
    rewrite (lsd_radix_is_stable_sort_bits b keys Hb Hk Hpi). cbn [bind]. f_equal.
    pose proof (sorting_permutation_is_perm keys) as HP.
    rewrite (apply_sorting_permutation_conjugation d (length keys))
      by (auto using inv_perm_is_perm).
    now rewrite (inv_perm_involutive (length keys)).
  Qed.
End ScheduleBits.

(* C18: the schedule of mpc_radix_sort.rs with Algorithm 11's formula, every key width, every
   table height, every family of protocol permutations *)
Theorem lsd_radix_gen_multi_bit_sort pi_of b keys :
  (1 <= b)%nat -> Forall (fun r => length r = b /\ Forall (fun x => x = 0 \/ x = 1) r) keys ->
  (forall i, is_perm (length keys) (pi_of i)) ->
  radix_sigma gen_multi_bit_sort pi_of b keys = Ok (inv_perm (sorting_permutation keys)).
Proof. exact (lsd_radix_is_stable_sort_bits _ gen_multi_bit_sort_spec pi_of b keys). Qed.

Theorem radix_sort_column_gen_multi_bit_sort pi_of {A} (d : A) pi_fin b keys (col : list A) :
  (1 <= b)%nat -> Forall (fun r => length r = b /\ Forall (fun x => x = 0 \/ x = 1) r) keys ->
  (forall i, is_perm (length keys) (pi_of i)) -> is_perm (length keys) pi_fin ->
  length col = length keys ->
  radix_sort_column gen_multi_bit_sort pi_of pi_fin d b keys col
  = Ok (apply_perm d (sorting_permutation keys) col).
Proof. exact (radix_sort_column_is_sort_bits _ gen_multi_bit_sort_spec pi_of d pi_fin b keys col). Qed.

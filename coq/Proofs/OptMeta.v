(* C06 / meta-operation pass (Model.Opt.opt_meta): structure (inputs, freshness, output). *)
From CC Require Import Base.Prelude Base.Scalar Base.Ty Base.Shape Graph.Value Graph.IR Graph.Eval
  Model.Opt Model.Uniquify Proofs.OptBase Proofs.OptSem Proofs.OptSim Proofs.OptFresh Proofs.OptDangling
  Proofs.OptDup.

(* operations of the nodes the pass creates besides the plain copy *)
Definition is_meta_extra (o : op) : bool :=
  match o with OGet _ | OGetSlice _ | OVectorGet | OCreateTuple => true | _ => false end.
Definition ext (out out' : list node) : Prop :=
  exists extra, out' = out ++ extra /\ Forall (fun nd => is_meta_extra (n_op nd) = true) extra.

Lemma ext_refl out : ext out out.
Proof. exists []. now rewrite app_nil_r. Qed.
Lemma ext_trans a b c : ext a b -> ext b c -> ext a c.
Proof.
  intros (x & -> & Fx) (y & -> & Fy). exists (x ++ y). rewrite app_assoc. split; auto.
  apply Forall_app; auto.
Qed.
Lemma ext_snoc out nd : is_meta_extra (n_op nd) = true -> ext out (out ++ [nd]).
Proof. intros H. exists [nd]. split; auto. Qed.

Lemma mvg_fold_ext (step : list node -> pw -> result (list node * option pw)) :
  (forall out obj out' r, step out obj = Ok (out', r) -> ext out out') ->
  forall vecs o sl ok o' sl' ok',
    fold_left (fun acc v =>
                 let* (o, sl, ok) := acc in
                 if negb ok then Ok (o, sl, ok) else
                 let* (o', r) := step o v in
                 match r with
                 | Some e => Ok (o', sl ++ [e], true)
                 | None => Ok (o', sl, false)
                 end) vecs (Ok (o, sl, ok)) = Ok (o', sl', ok') -> ext o o'.
Proof.
  intros Hstep. induction vecs as [|v vecs IH]; intros o sl ok o' sl' ok' H; cbn [fold_left] in H.
  - injection H as <- <- <-. apply ext_refl.
  - match type of H with fold_left ?F _ ?acc = _ =>
      destruct (fold_res_fail F vecs acc (o', sl', ok')) as ([[o1 sl1] ok1] & E); auto end.
    { intros r a s'. destruct r as [[[? ?] ?]| | |]; cbn; intros; try discriminate; eauto. }
    rewrite E in H. apply IH in H. eapply ext_trans; [|exact H].
    cbn [bind] in E. destruct (negb ok).
    + injection E as <- <- <-. apply ext_refl.
    + apply bind_ok in E as ([o2 r] & Es & E). apply Hstep in Es.
      destruct r; injection E as <- <- <-; auto.
Qed.

Lemma maybe_vector_get_ext fuel : forall out obj index inode out' r,
  maybe_vector_get fuel out obj index inode = Ok (out', r) -> ext out out'.
Proof.
  induction fuel as [|f IH]; intros out obj index inode out' r H; cbn [maybe_vector_get] in H; [discriminate|].
  destruct (fst obj) as [n| |arr|l|l|vecs|l|n|n].
  - injection H as <- <-. apply ext_refl.
  - apply bind_ok in H as (vt & _ & H). apply bind_ok in H as (et & _ & H). unfold emit in H.
    injection H as <- <-. now apply ext_snoc.
  - apply bind_ok in H as (at_ & _ & H). apply bind_ok in H as (rt & _ & H). unfold emit in H.
    injection H as <- <-. apply ext_snoc. cbn. destruct (length (dims at_) =? 1)%nat; reflexivity.
  - injection H as <- <-. apply ext_refl.
  - injection H as <- <-. apply ext_refl.
  - apply bind_ok in H as ([[o1 sliced] ok] & E & H).
    apply (mvg_fold_ext (fun o v => maybe_vector_get f o v index inode)) in E; [|intros; eapply IH; eauto].
    destruct ok.
    + apply bind_ok in H as (tys & _ & H). unfold emit in H. injection H as <- <-.
      eapply ext_trans; eauto. now apply ext_snoc.
    + injection H as <- <-. auto.
  - destruct (znth l index); injection H as <- <-; apply ext_refl.
  - injection H as <- <-. apply ext_refl.
  - injection H as <- <-. apply ext_refl.
Qed.

(* ------------------------------------------------------------------ the step, refolded *)
Definition meta_node_of (out1 : list node) (simple : Z) (o : op) (deps : list Z) (meta_deps : list (option pw))
  : result (list node * option pw) :=
  let all_meta := forallb (fun x : option pw => match x with Some _ => true | None => false end) meta_deps in
  let element k := match nth k meta_deps None with Some m => m | None => (PUnknown, nth k deps 0) end in
  let elements := map element (seq 0 (length deps)) in
    match o with
    | OConstant t v =>
        match t, v with
        | TScalar U64, VArr [x] => Ok (out1, Some (PNumber x, simple))
        | _, _ => Ok (out1, None)
        end
    | OArrayToVector => Ok (out1, Some (PA2V (nth 0 deps 0), simple))
    | OA2B =>
        let node := match nth 0 meta_deps None with Some (PB2A b, _) => b | _ => simple end in
        Ok (out1, Some (PA2B (nth 0 deps 0), node))
    | OB2A st =>
        let* node :=
          match nth 0 meta_deps None with
          | Some (PA2B a, _) =>
              let* at_ := node_ty_at out1 a in
              Ok (if scalar_eqb st (st_of at_) then a else simple)
          | _ => Ok simple
          end in
        Ok (out1, Some (PB2A (nth 0 deps 0), node))
    | OCreateNamedTuple names => Ok (out1, Some (PNamed (combine names elements), simple))
    | OCreateTuple => Ok (out1, Some (PTuple elements, simple))
    | OCreateVector _ => Ok (out1, Some (PVector elements, simple))
    | OZip => Ok (out1, Some (PZip elements, simple))
    | o =>
        if all_meta then
          match o with
          | ONamedTupleGet name =>
              match elements with
              | [(PNamed l, _)] =>
                  match find (fun p => String.eqb (fst p) name) (rev l) with
                  | Some p => Ok (out1, Some (snd p))
                  | None => Panic
                  end
              | [_] => Ok (out1, None)
              | _ => Err
              end
          | OTupleGet index =>
              match elements with
              | [(PTuple l, _)] => let* e := znth l index in Ok (out1, Some e)
              | [_] => Ok (out1, None)
              | _ => Err
              end
          | OVectorGet =>
              match elements with
              | [obj; (PNumber index, inode)] => maybe_vector_get (S (length out1)) out1 obj index inode
              | [_; _] => Ok (out1, None)
              | _ => Err
              end
          | _ => Ok (out1, None)
          end
        else Ok (out1, None)
    end.

Definition meta_step' (old_output : option Z) (acc : result (meta_state * Z)) (nd : node)
  : result (meta_state * Z) :=
  let* (s, i) := acc in
  if negb (match n_gdeps nd with [] => true | _ => false end) then Err else
  let* deps := mapM (map_get (ms_map s)) (n_deps nd) in
  let meta_deps := map (meta_find (ms_meta s)) (n_deps nd) in
  let out1 := ms_out s ++ [mkNode (n_op nd) deps [] [] (n_ty nd)] in
  let simple := Z.of_nat (length (ms_out s)) in
  let* (out2, meta_node) := meta_node_of out1 simple (n_op nd) deps meta_deps in
  let new_node := match meta_node with Some m => snd m | None => simple end in
  let meta' := match meta_node with Some m => ms_meta s ++ [(i, m)] | None => ms_meta s end in
  let* out3 := add_annots out2 new_node (n_annots nd) in
  let out := if eqb old_output (Some i) then Some new_node else ms_output s in
  Ok (mkMS out3 (ms_map s ++ [Some new_node]) meta' out, i + 1).

Lemma opt_meta_step_eq o acc nd : opt_meta_step o acc nd = meta_step' o acc nd.
Proof.
  destruct acc as [[s i]| | |]; try reflexivity.
  unfold opt_meta_step, meta_step'. cbn [bind].
  destruct (negb _); [reflexivity|].
  destruct (mapM (map_get (ms_map s)) (n_deps nd)) as [deps| | |]; try reflexivity. cbn [bind].
  unfold emit. cbv zeta.
  match goal with |- bind ?a _ = bind ?b _ => assert (H : a = b) end.
  { unfold meta_node_of. cbv zeta. destruct (n_op nd); reflexivity. }
  rewrite H. reflexivity.
Qed.

Lemma opt_meta_step_strict o r a s' : opt_meta_step o r a = Ok s' -> exists s, r = Ok s.
Proof. destruct r; cbn; intros; try discriminate; eauto. Qed.

(* operations the pass treats specially *)
Definition is_meta_op (o : op) : bool :=
  match o with
  | OConstant _ _ | OArrayToVector | OA2B | OB2A _ | OCreateNamedTuple _ | OCreateTuple
  | OCreateVector _ | OZip | ONamedTupleGet _ | OTupleGet _ | OVectorGet => true
  | _ => false
  end.

Lemma meta_node_of_ext out1 simple o deps md out2 mn :
  meta_node_of out1 simple o deps md = Ok (out2, mn) ->
  ext out1 out2 /\ (is_meta_op o = false -> out2 = out1 /\ mn = None).
Proof.
  unfold meta_node_of.
  destruct o; cbn [is_meta_op];
    try (match goal with |- context [if ?c then _ else _] => destruct c end; intros H; injection H as <- <-; (split; [apply ext_refl|intros _; split; reflexivity]));
    try (intros H; injection H as <- <-; split; [apply ext_refl|discriminate]).
  - (* Constant *)
    intros H. split; [|discriminate].
    destruct t as [[]| | | |]; try (injection H as <- <-; apply ext_refl).
    destruct v as [[|x [|y l]]|]; injection H as <- <-; apply ext_refl.
  - (* B2A *)
    intros H. split; [|discriminate]. apply bind_ok in H as (node & _ & H). injection H as <- <-. apply ext_refl.
  - (* TupleGet *)
    intros H. split; [|discriminate]. match type of H with context [if ?c then _ else _] => destruct c end; [|injection H as <- <-; apply ext_refl].
    destruct (map _ (seq 0 (length deps))) as [|[p j] [|e2 l2]]; try discriminate; try (destruct p; discriminate).
    destruct p; try (injection H as <- <-; apply ext_refl).
    apply bind_ok in H as (e & _ & H). injection H as <- <-. apply ext_refl.
  - (* NamedTupleGet *)
    intros H. split; [|discriminate]. match type of H with context [if ?c then _ else _] => destruct c end; [|injection H as <- <-; apply ext_refl].
    destruct (map _ (seq 0 (length deps))) as [|[p j] [|e2 l2]]; try discriminate; try (destruct p; discriminate).
    destruct p; try (injection H as <- <-; apply ext_refl).
    destruct (find _ (rev l)); [|discriminate]. injection H as <- <-. apply ext_refl.
  - (* VectorGet *)
    intros H. split; [|discriminate]. match type of H with context [if ?c then _ else _] => destruct c end; [|injection H as <- <-; apply ext_refl].
    destruct (map _ (seq 0 (length deps))) as [|obj [|[p j] [|e3 l3]]]; try discriminate.
    + destruct p; try (injection H as <- <-; apply ext_refl).
      eapply maybe_vector_get_ext; eauto.
    + destruct p; discriminate.
Qed.

(* ------------------------------------------------------------------ annotations are added in place *)
Definition shape (nd : node) : op * ty := (n_op nd, n_ty nd).
Definition input_tys (nodes : list node) : list (op * ty) :=
  map shape (filter (fun nd => is_input (n_op nd)) nodes).

Lemma input_tys_shapes nodes :
  input_tys nodes = filter (fun sh => is_input (fst sh)) (map shape nodes).
Proof.
  unfold input_tys. induction nodes as [|x l IH]; cbn [filter map]; auto.
  cbn [shape fst]. destruct (is_input (n_op x)); cbn [map]; now rewrite IH.
Qed.

Lemma input_sigs_tys a b : input_sigs a = input_sigs b -> input_tys a = input_tys b.
Proof.
  intros H. apply (f_equal (map (fun s : op * list annot * ty => (fst (fst s), snd s)))) in H.
  unfold input_sigs in H. rewrite !map_map in H. exact H.
Qed.

Lemma upd_nat_map {A B} (f : A -> B) (l : list A) : forall i v l' x,
  upd_nat l i v = Ok l' -> nth_error l i = Some x -> f v = f x -> map f l' = map f l.
Proof.
  induction l as [|y l IH]; intros [|i] v l' x H E F; cbn in H, E; try discriminate.
  - injection H as <-. injection E as ->. cbn. now rewrite F.
  - apply bind_ok in H as (r & Er & H). injection H as <-. cbn. f_equal. eapply IH; eauto.
Qed.

Lemma add_annots_shape out j anns out3 : add_annots out j anns = Ok out3 -> map shape out3 = map shape out.
Proof.
  unfold add_annots. destruct anns as [|a anns]; [intros H; now injection H as <-|].
  intros H. apply bind_ok in H as (nd & E & H). apply znth_ok in E as (J & E).
  unfold upd in H. replace (j <? 0) with false in H by lia.
  eapply upd_nat_map; eauto.
Qed.

Lemma meta_extra_props o : is_meta_extra o = true -> is_fresh_op o = false /\ is_input o = false.
Proof. destruct o; cbn; intros; try discriminate; auto. Qed.
Lemma fresh_not_meta o : is_fresh_op o = true -> is_meta_op o = false.
Proof. destruct o; cbn; intros; try discriminate; auto. Qed.
Lemma input_not_meta o : is_input o = true -> is_meta_op o = false.
Proof. destruct o; cbn; intros; try discriminate; auto. Qed.
Lemma tape_not_meta o : from_tape o = true -> is_meta_op o = false.
Proof. destruct o; cbn; intros; try discriminate; auto. Qed.

Lemma opt_meta_step_inv o s i nd s' i' :
  opt_meta_step o (Ok (s, i)) nd = Ok (s', i') ->
  i' = i + 1 /\
  exists deps extra new_node,
    mapM (map_get (ms_map s)) (n_deps nd) = Ok deps /\
    Forall (fun e => is_meta_extra (n_op e) = true) extra /\
    map shape (ms_out s') = map shape (ms_out s ++ mkNode (n_op nd) deps [] [] (n_ty nd) :: extra) /\
    ms_map s' = ms_map s ++ [Some new_node] /\
    ms_output s' = (if eqb o (Some i) then Some new_node else ms_output s) /\
    (is_meta_op (n_op nd) = false -> extra = [] /\ new_node = Z.of_nat (length (ms_out s))).
Proof.
  rewrite opt_meta_step_eq. unfold meta_step'. cbn [bind].
  destruct (negb _); [discriminate|]. intros H.
  apply bind_ok in H as (deps & Ed & H). cbv zeta in H.
  apply bind_ok in H as ([out2 mn] & Em & H). apply bind_ok in H as (out3 & Ea & H).
  injection H as <- <-. split; auto.
  apply meta_node_of_ext in Em as ((extra & -> & Fe) & Hplain).
  apply add_annots_shape in Ea.
  exists deps, extra, (match mn with Some m => snd m | None => Z.of_nat (length (ms_out s)) end).
  cbn [ms_out ms_map ms_output]. rewrite Ea, <- app_assoc. cbn [app]. splits; auto.
  intros P. destruct (Hplain P) as (E & ->). split; [|reflexivity].
  rewrite <- (app_nil_r (ms_out s ++ [_])) in E at 2. now apply app_inv_head in E.
Qed.

Section Meta.
  Variables (nodes : list node) (o : option Z).

  Definition meta_struct (pre : list node) (st : meta_state * Z) : Prop :=
    let '(s, i) := st in
    i = Z.of_nat (length pre) /\ length (ms_map s) = length pre /\
    input_tys (ms_out s) = input_tys pre /\
    fresh_spec pre (ms_out s) (ms_map s) /\
    ms_output s = out_spec o pre (ms_map s).

  Lemma meta_struct_inv sN :
    fold_left (opt_meta_step o) nodes (Ok (mkMS [] [] [] None, 0)) = Ok sN -> meta_struct nodes sN.
  Proof.
    apply (fold_res_inv (opt_meta_step o) meta_struct).
    - apply opt_meta_step_strict.
    - cbn. splits; auto using fresh_spec_nil.
      unfold out_spec. destruct o as [x|]; auto. cbn. destruct ((0 <=? x) && (x <? 0)) eqn:E; auto; lia.
    - intros pre a post [s i] [s' i'] El (I1 & I2 & I3 & I4 & I5) St.
      apply opt_meta_step_inv in St as (-> & deps & extra & nn & Ed & Fe & Esh & Em & Eo & Hplain).
      cbn [meta_struct]. rewrite Em, Eo, !app_length; cbn [length].
      rewrite (out_spec_step o pre a (ms_map s) i nn _ I1 I2 I5).
      assert (Fe' : Forall (fun e => is_fresh_op (n_op e) = false) extra).
      { eapply Forall_impl; [|exact Fe]. intros e He. now apply meta_extra_props in He. }
      assert (Fi : Forall (fun e => is_input (n_op e) = false) extra).
      { eapply Forall_impl; [|exact Fe]. intros e He. now apply meta_extra_props in He. }
      splits; auto; try lia.
      + rewrite input_tys_shapes, Esh, <- input_tys_shapes.
        unfold input_tys. rewrite !filter_app, !map_app. fold (input_tys (ms_out s)) (input_tys pre). rewrite I3.
        f_equal. cbn [filter n_op]. destruct (is_input (n_op a)); cbn [map app shape n_op n_ty];
          (replace (filter (fun nd => is_input (n_op nd)) extra) with (@nil node); [reflexivity|]);
          clear -Fi; induction Fi as [|e l He _ IH]; cbn [filter]; auto; now rewrite He.
      + apply (fresh_spec_ops _ (ms_out s ++ mkNode (n_op a) deps [] [] (n_ty a) :: extra)).
        { apply (f_equal (map fst)) in Esh. rewrite !map_map in Esh. symmetry. exact Esh. }
        destruct (is_fresh_op (n_op a)) eqn:F.
        * destruct (Hplain (fresh_not_meta _ F)) as (-> & ->). apply fresh_spec_step_copy; auto.
        * apply fresh_spec_step_other; auto.
  Qed.
End Meta.

Lemma opt_meta_unfold nodes o :
  opt_meta nodes o = let* (s, _) := fold_left (opt_meta_step o) nodes (Ok (mkMS [] [] [] None, 0)) in
                     Ok (mkPassOut (ms_out s) (ms_map s) (ms_output s)).
Proof. reflexivity. Qed.

Theorem meta_struct_thm nodes o p :
  opt_meta nodes o = Ok p ->
  length (po_map p) = length nodes /\
  input_tys (po_nodes p) = input_tys nodes /\
  fresh_spec nodes (po_nodes p) (po_map p) /\
  (forall x, o = Some x -> 0 <= x < Z.of_nat (length nodes) ->
             nth_error (po_map p) (Z.to_nat x) = Some (po_output p)).
Proof.
  rewrite opt_meta_unfold. intros H. apply bind_ok in H as ([s i] & E & H). injection H as <-.
  cbn [po_nodes po_map po_output].
  apply (meta_struct_inv nodes o) in E as (I1 & I2 & I3 & I4 & I5).
  splits; auto.
  intros x -> R. rewrite I5. unfold out_spec.
  replace ((0 <=? x) && (x <? Z.of_nat (length nodes))) with true by lia.
  destruct (nth_error (ms_map s) (Z.to_nat x)) eqn:X; auto. apply nth_error_None in X. lia.
Qed.

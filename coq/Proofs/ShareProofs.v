(* Proofs about Model/Share.v (C14). *)
From CC Require Import Base.Prelude Base.Scalar Base.Ty Model.Bytes Proofs.BytesProofs Model.Share.

(* ---------------------------------------------------------------- elements *)

(* The element re-coding of the model is C13's ext128: what vec_to_bytes followed by
   vec_u128_from_bytes does to one element (C13_enc_dec_u128). *)
Lemma recode_is_ext128 st x : recode st x = ext128 st x.
Proof. reflexivity. Qed.

Lemma recode_cong st x y : x mod modulus st = y mod modulus st -> recode st x = recode st y.
Proof. intros H. unfold recode, sval, norm. now rewrite H. Qed.

Lemma recode_mod st x : recode st x mod modulus st = x mod modulus st.
Proof.
  unfold recode. destruct (modulus_divides_128 st) as (q & Hq & Hq0).
  pose proof (modulus_pos st) as HM.
  rewrite Hq, mod_mod_divides by lia.
  unfold sval, norm. destruct (signed st && _).
  - replace (x mod modulus st - modulus st) with (x mod modulus st + (-1) * modulus st) by ring.
    rewrite Z_mod_plus_full. apply Z.mod_mod. lia.
  - apply Z.mod_mod. lia.
Qed.

Lemma recode_idem st x : recode st (recode st x) = recode st x.
Proof. apply recode_cong, recode_mod. Qed.

Lemma canon_recode st x : canon st (recode st x) = true.
Proof. unfold canon. rewrite recode_idem. apply Z.eqb_refl. Qed.

Lemma canon_eq st x : canon st x = true -> recode st x = x.
Proof. unfold canon. intros H. now apply Z.eqb_eq. Qed.

(* wrapping to 128 bits and reducing by the scalar modulus is reduction by the scalar modulus *)
Lemma reduce_wrap_mod st x :
  reduce (get_modulus st) (wrap128 x) mod modulus st = x mod modulus st.
Proof.
  destruct (modulus_divides_128 st) as (q & Hq & Hq0).
  pose proof (modulus_pos st) as HM.
  assert (Hw : wrap128 x mod modulus st = x mod modulus st).
  { unfold wrap128. rewrite Hq. apply mod_mod_divides; lia. }
  destruct st; cbn [get_modulus reduce]; fold (modulus Bit); fold (modulus U8); fold (modulus I8);
    fold (modulus U16); fold (modulus I16); fold (modulus U32); fold (modulus I32);
    fold (modulus U64); fold (modulus I64); try exact Hw; rewrite Z.mod_mod by lia; exact Hw.
Qed.

Definition fadd (st : scalar) (x y : Z) : Z := recode st (x + y).
Definition fsub (st : scalar) (x y : Z) : Z := recode st (x - y).

Lemma recode_add_u128 st a b : recode st (add_u128 (get_modulus st) a b) = fadd st a b.
Proof. apply recode_cong, reduce_wrap_mod. Qed.
Lemma recode_sub_u128 st a b : recode st (sub_u128 (get_modulus st) a b) = fsub st a b.
Proof. apply recode_cong, reduce_wrap_mod. Qed.

(* congruence helpers: recode sees its argument only modulo the scalar modulus *)
Lemma recode_arg_l st x y : recode st (recode st x + y) = recode st (x + y).
Proof.
  apply recode_cong. pose proof (modulus_pos st).
  rewrite Z.add_mod, recode_mod, <- Z.add_mod by lia. reflexivity.
Qed.
Lemma recode_arg_r st x y : recode st (x + recode st y) = recode st (x + y).
Proof. rewrite Z.add_comm, recode_arg_l. f_equal; lia. Qed.
Lemma recode_arg_sub_l st x y : recode st (recode st x - y) = recode st (x - y).
Proof. unfold Z.sub. apply recode_arg_l. Qed.
Lemma recode_arg_sub_r st x y : recode st (x - recode st y) = recode st (x - y).
Proof.
  apply recode_cong. pose proof (modulus_pos st).
  rewrite Zminus_mod, recode_mod, <- Zminus_mod. reflexivity.
Qed.

(* the four element identities behind the theorems *)
Lemma el_reveal st v r0 r1 :
  fadd st (fadd st r0 r1) (fsub st (fsub st v r0) r1) = recode st v.
Proof.
  unfold fadd, fsub.
  rewrite recode_arg_sub_l, recode_arg_l, recode_arg_r. f_equal. ring.
Qed.
Lemma el_sub_comm st v x y : fsub st (fsub st v x) y = fsub st (fsub st v y) x.
Proof. unfold fsub. rewrite !recode_arg_sub_l. f_equal. ring. Qed.
Lemma el_sub_sub st u x : fsub st u (fsub st u x) = recode st x.
Proof. unfold fsub. rewrite recode_arg_sub_r. f_equal. ring. Qed.

(* ---------------------------------------------------------------- lists *)

Lemma map2_cons {A B C} (f : A -> B -> C) x a y b : map2 f (x :: a) (y :: b) = f x y :: map2 f a b.
Proof. reflexivity. Qed.
Lemma map2_length {A B C} (f : A -> B -> C) a b :
  length a = length b -> length (map2 f a b) = length a.
Proof. intros H. unfold map2. rewrite map_length, combine_length. lia. Qed.
Lemma map_map2 {A B C D} (g : C -> D) (f : A -> B -> C) a b :
  map g (map2 f a b) = map2 (fun x y => g (f x y)) a b.
Proof. unfold map2. now rewrite map_map. Qed.
Lemma map2_ext {A B C} (f g : A -> B -> C) a b :
  (forall x y, f x y = g x y) -> map2 f a b = map2 g a b.
Proof. intros H. unfold map2. apply map_ext. intros p. apply H. Qed.
Lemma forallb_map2 {A B} (p : Z -> bool) (f : A -> B -> Z) a b :
  (forall x y, p (f x y) = true) -> forallb p (map2 f a b) = true.
Proof.
  intros H. apply forallb_forall. intros z Hz. unfold map2 in Hz.
  apply in_map_iff in Hz as (q & <- & _). apply H.
Qed.

Lemma bit_pad_nil st n : (st = Bit -> Z.of_nat n mod 8 = 0) -> bit_pad st n = [].
Proof.
  destruct st; try reflexivity. intros H. specialize (H eq_refl). cbn [bit_pad].
  replace ((- Z.of_nat n) mod 8) with 0 by lia. reflexivity.
Qed.

(* leaf arms as pure pointwise maps, when the lengths agree and no Bit padding is added *)
Definition leaf_rep (leaf : scalar -> list Z -> list Z -> result (list Z))
           (f : scalar -> Z -> Z -> Z) : Prop :=
  forall st a b n, length a = n -> length b = n -> bit_pad st n = [] ->
                   leaf st a b = Ok (map2 (f st) a b).

Lemma leaf_sub_rep : leaf_rep leaf_sub fsub.
Proof.
  intros st a b n Ha Hb Hp. unfold leaf_sub, subtract_vectors_u128.
  replace (length a =? length b)%nat with true by (symmetry; apply Nat.eqb_eq; lia).
  cbn [bind]. unfold recode_list. rewrite map2_length by lia. rewrite Ha, Hp, app_nil_r, map_map2.
  f_equal. apply map2_ext. intros x y. apply recode_sub_u128.
Qed.
Lemma leaf_add_rep : leaf_rep leaf_add fadd.
Proof.
  intros st a b n Ha Hb Hp. unfold leaf_add, add_vectors_u128.
  replace (length a =? length b)%nat with true by (symmetry; apply Nat.eqb_eq; lia).
  cbn [bind]. unfold recode_list. rewrite map2_length by lia. rewrite Ha, Hp, app_nil_r, map_map2.
  f_equal. apply map2_ext. intros x y. apply recode_add_u128.
Qed.

Lemma l_reveal st : forall v r0 r1,
  length r0 = length v -> length r1 = length v -> forallb (canon st) v = true ->
  map2 (fadd st) (map2 (fadd st) r0 r1) (map2 (fsub st) (map2 (fsub st) v r0) r1) = v.
Proof.
  induction v as [|x v IH]; intros [|a r0] [|b r1] H0 H1 Hc; try discriminate; [reflexivity|].
  cbn [forallb] in Hc. apply andb_true_iff in Hc as [Hx Hc].
  rewrite !map2_cons. f_equal.
  - rewrite el_reveal. now apply canon_eq.
  - apply IH; auto.
Qed.
Lemma map2_nil_r {A B C} (f : A -> B -> C) a : map2 f a [] = [].
Proof. unfold map2. now rewrite combine_nil. Qed.
Lemma l_sub_comm st : forall v x y,
  map2 (fsub st) (map2 (fsub st) v x) y = map2 (fsub st) (map2 (fsub st) v y) x.
Proof.
  induction v as [|c v IH]; intros x y; [reflexivity|].
  destruct x as [|a x], y as [|b y]; rewrite ?map2_cons, ?map2_nil_r; try reflexivity.
  f_equal; [apply el_sub_comm | apply IH].
Qed.
Lemma l_sub_sub st : forall u x,
  length u = length x -> forallb (canon st) x = true ->
  map2 (fsub st) u (map2 (fsub st) u x) = x.
Proof.
  induction u as [|c u IH]; intros [|a x] Hl Hc; try discriminate; [reflexivity|].
  cbn [forallb] in Hc. apply andb_true_iff in Hc as [Hx Hc].
  rewrite !map2_cons. f_equal.
  - rewrite el_sub_sub. now apply canon_eq.
  - apply IH; auto.
Qed.

(* ---------------------------------------------------------------- type trees *)

Definition is_leaf_ty (t : ty) : bool :=
  match t with TScalar _ | TArray _ _ => true | _ => false end.
(* the element types of a container type (data_types.rs:1346 get_types_vector) *)
Definition elems (t : ty) : list ty :=
  match t with
  | TVector n t1 => repeat t1 (Z.to_nat n)
  | TTuple ts => ts
  | TNamed fs => map snd fs
  | _ => []
  end.

Lemma ty_elems_ind (P : ty -> Prop) :
  (forall t, is_leaf_ty t = true -> P t) ->
  (forall t, is_leaf_ty t = false -> Forall P (elems t) -> P t) ->
  forall t, P t.
Proof.
  intros Hl Hn. induction t as [s|sh s|n t IH|ts IH|fs IH] using ty_ind'.
  - now apply Hl.
  - now apply Hl.
  - apply Hn; [reflexivity|]. cbn [elems]. apply Forall_forall. intros x Hx.
    apply repeat_spec in Hx. now subst.
  - apply Hn; [reflexivity|]. exact IH.
  - apply Hn; [reflexivity|]. cbn [elems]. now apply Forall_map.
Qed.

Lemma zip3M_map {T U} (h : T -> U) g : forall l a b,
  zip3M (fun x => g (h x)) l a b = zip3M g (map h l) a b.
Proof.
  induction l as [|t l IH]; intros a b; [reflexivity|].
  destruct a as [|x a], b as [|y b]; cbn [zip3M map]; try reflexivity.
  destruct (g (h t) x y); cbn [bind]; try reflexivity. now rewrite IH.
Qed.
Lemma all2_map {T U} (h : T -> U) p : forall l vs,
  all2 (fun x => p (h x)) l vs = all2 p (map h l) vs.
Proof.
  induction l as [|t l IH]; intros [|v vs]; cbn [all2 map]; try reflexivity. now rewrite IH.
Qed.
Lemma map_const_repeat {A} (x : A) n : map (fun _ : unit => x) (repeat tt n) = repeat x n.
Proof. induction n; cbn [repeat map]; congruence. Qed.

Lemma gen_op_leaf leaf t a b : is_leaf_ty t = true ->
  gen_op leaf t (VLeaf a) (VLeaf b) = rmap VLeaf (leaf (scalar_of t) a b).
Proof. destruct t; try discriminate; reflexivity. Qed.
Lemma gen_op_node leaf t a b : is_leaf_ty t = false ->
  gen_op leaf t (VNode a) (VNode b) = rmap VNode (zip3M (gen_op leaf) (elems t) a b).
Proof.
  destruct t as [s|sh s|n t|ts|fs]; try discriminate; intros _; cbn [gen_op elems].
  - rewrite (zip3M_map (fun _ : unit => t) (gen_op leaf)), map_const_repeat. reflexivity.
  - reflexivity.
  - now rewrite (zip3M_map snd (gen_op leaf)).
Qed.
Lemma gen_op_mixed leaf t a b :
  (forall x y, a = VLeaf x -> b = VLeaf y -> is_leaf_ty t = false) ->
  (forall x y, a = VNode x -> b = VNode y -> is_leaf_ty t = true) ->
  gen_op leaf t a b = Panic.
Proof.
  intros H1 H2. destruct t, a, b; try reflexivity;
    try (specialize (H1 _ _ eq_refl eq_refl); discriminate);
    try (specialize (H2 _ _ eq_refl eq_refl); discriminate).
Qed.

Lemma tree_ok_leaf lp t v : is_leaf_ty t = true ->
  tree_ok lp t v = match v with VLeaf xs => lp (scalar_of t) (leaf_len t) xs | VNode _ => false end.
Proof. destruct t; try discriminate; reflexivity. Qed.
Lemma tree_ok_node lp t v : is_leaf_ty t = false ->
  tree_ok lp t v = match v with VNode vs => all2 (tree_ok lp) (elems t) vs | VLeaf _ => false end.
Proof.
  destruct t as [s|sh s|n t|ts|fs]; try discriminate; intros _; destruct v as [xs|vs];
    try reflexivity; cbn [tree_ok elems].
  - rewrite (all2_map (fun _ : unit => t) (tree_ok lp)), map_const_repeat. reflexivity.
  - now rewrite (all2_map snd (tree_ok lp)).
Qed.

Definition lpS : scalar -> nat -> list Z -> bool := fun _ n xs => (length xs =? n)%nat.
Definition lpW : scalar -> nat -> list Z -> bool :=
  fun st n xs => (length xs =? n)%nat && forallb (canon st) xs.
Lemma shape_ok_eq : shape_ok = tree_ok lpS. Proof. reflexivity. Qed.
Lemma wt_eq : wt = tree_ok lpW. Proof. reflexivity. Qed.

Lemma tree_ok_mono (lp1 lp2 : scalar -> nat -> list Z -> bool) :
  (forall st n xs, lp1 st n xs = true -> lp2 st n xs = true) ->
  forall t v, tree_ok lp1 t v = true -> tree_ok lp2 t v = true.
Proof.
  intros Hlp. induction t as [t Ht|t Ht IH] using ty_elems_ind; intros v.
  - rewrite !tree_ok_leaf by assumption. destruct v; auto.
  - rewrite !tree_ok_node by assumption. destruct v as [|vs]; auto.
    revert vs. induction IH as [|t1 ts H1 _ IHl]; intros [|v vs]; cbn [all2]; auto.
    rewrite !andb_true_iff. intros [A B]. split; auto.
Qed.
Lemma wt_shape_ok t v : wt t v = true -> shape_ok t v = true.
Proof.
  apply tree_ok_mono. intros st n xs H. apply andb_true_iff in H as [H _]. exact H.
Qed.

(* no Bit padding is ever added to a leaf of the right length *)
Lemma leaf_len_pad t : is_leaf_ty t = true -> bit_pad (scalar_of t) (leaf_len t) = [].
Proof.
  intros Hl. apply bit_pad_nil. intros Hb.
  destruct t as [s|sh s| | |]; try discriminate; cbn [scalar_of] in Hb; subst s; cbn [leaf_len].
  - reflexivity.
  - generalize ((prod_list sh + 7) / 8). intros k. lia.
Qed.

(* ---- the pure pointwise operation on trees ---- *)
Section PZip.
  Context {T : Type} (g : T -> value -> value -> value).
  Fixpoint pzip (ts : list T) (a b : list value) : list value :=
    match ts, a, b with
    | t :: ts', x :: a', y :: b' => g t x y :: pzip ts' a' b'
    | _, _, _ => []
    end.
End PZip.
Fixpoint pop (f : scalar -> Z -> Z -> Z) (t : ty) (a b : value) {struct t} : value :=
  match t with
  | TScalar st | TArray _ st =>
      match a, b with VLeaf x, VLeaf y => VLeaf (map2 (f st) x y) | _, _ => VLeaf [] end
  | TTuple ts =>
      match a, b with VNode x, VNode y => VNode (pzip (pop f) ts x y) | _, _ => VLeaf [] end
  | TNamed fs =>
      match a, b with
      | VNode x, VNode y => VNode (pzip (fun p => pop f (snd p)) fs x y) | _, _ => VLeaf [] end
  | TVector n t1 =>
      match a, b with
      | VNode x, VNode y => VNode (pzip (fun _ : unit => pop f t1) (repeat tt (Z.to_nat n)) x y)
      | _, _ => VLeaf [] end
  end.
Lemma pzip_map {T U} (h : T -> U) g : forall l a b,
  pzip (fun x => g (h x)) l a b = pzip g (map h l) a b.
Proof.
  induction l as [|t l IH]; intros a b; [reflexivity|].
  destruct a as [|x a], b as [|y b]; cbn [pzip map]; try reflexivity. now rewrite IH.
Qed.
Lemma pop_leaf f t a b : is_leaf_ty t = true ->
  pop f t (VLeaf a) (VLeaf b) = VLeaf (map2 (f (scalar_of t)) a b).
Proof. destruct t; try discriminate; reflexivity. Qed.
Lemma pop_node f t a b : is_leaf_ty t = false ->
  pop f t (VNode a) (VNode b) = VNode (pzip (pop f) (elems t) a b).
Proof.
  destruct t as [s|sh s|n t|ts|fs]; try discriminate; intros _; cbn [pop elems].
  - rewrite (pzip_map (fun _ : unit => t) (pop f)), map_const_repeat. reflexivity.
  - reflexivity.
  - now rewrite (pzip_map snd (pop f)).
Qed.

Definition f_canon (f : scalar -> Z -> Z -> Z) : Prop := forall st x y, canon st (f st x y) = true.
Lemma fadd_canon : f_canon fadd. Proof. intros st x y. apply canon_recode. Qed.
Lemma fsub_canon : f_canon fsub. Proof. intros st x y. apply canon_recode. Qed.

(* On values of the right layout the Rust-shaped operation succeeds, equals the pure
   pointwise operation, and its result is again in the domain. *)
Lemma gen_op_rep leaf f : leaf_rep leaf f -> f_canon f ->
  forall t a b, shape_ok t a = true -> shape_ok t b = true ->
                gen_op leaf t a b = Ok (pop f t a b) /\ wt t (pop f t a b) = true.
Proof.
  intros Hrep Hcan. rewrite shape_ok_eq, wt_eq.
  induction t as [t Ht|t Ht IH] using ty_elems_ind; intros a b.
  - rewrite !tree_ok_leaf by assumption.
    destruct a as [xs|], b as [ys|]; try discriminate. unfold lpS at 1 2. intros Ha Hb.
    apply Nat.eqb_eq in Ha, Hb.
    rewrite gen_op_leaf, pop_leaf by assumption.
    rewrite (Hrep _ xs ys (leaf_len t)) by (auto using leaf_len_pad). split; [reflexivity|].
    unfold lpW. rewrite map2_length by lia. rewrite Ha, Nat.eqb_refl. cbn [andb].
    apply forallb_map2. intros x y. apply Hcan.
  - rewrite !tree_ok_node by assumption.
    destruct a as [|xs], b as [|ys]; try discriminate.
    rewrite gen_op_node, pop_node by assumption.
    intros Ha Hb.
    enough (zip3M (gen_op leaf) (elems t) xs ys = Ok (pzip (pop f) (elems t) xs ys) /\
            all2 (tree_ok lpW) (elems t) (pzip (pop f) (elems t) xs ys) = true) as [E W].
    { rewrite E. split; [reflexivity|]. exact W. }
    revert xs ys Ha Hb.
    induction IH as [|t1 ts H1 _ IHl]; intros [|x xs] [|y ys]; cbn [all2 zip3M pzip];
      try discriminate; auto.
    rewrite !andb_true_iff. intros [A1 A2] [B1 B2].
    destruct (H1 x y A1 B1) as [E1 W1]. destruct (IHl xs ys A2 B2) as [E2 W2].
    rewrite E1. cbn [bind]. rewrite E2. cbn [bind]. auto.
Qed.

Lemma gen_sub_rep t a b : shape_ok t a = true -> shape_ok t b = true ->
  generalized_subtract a b t = Ok (pop fsub t a b) /\ wt t (pop fsub t a b) = true.
Proof. apply (gen_op_rep leaf_sub fsub leaf_sub_rep fsub_canon). Qed.
Lemma gen_add_rep t a b : shape_ok t a = true -> shape_ok t b = true ->
  generalized_add a b t = Ok (pop fadd t a b) /\ wt t (pop fadd t a b) = true.
Proof. apply (gen_op_rep leaf_add fadd leaf_add_rep fadd_canon). Qed.

(* ---- the three identities on trees ---- *)
Lemma pop_reveal : forall t v r0 r1,
  wt t v = true -> shape_ok t r0 = true -> shape_ok t r1 = true ->
  pop fadd t (pop fadd t r0 r1) (pop fsub t (pop fsub t v r0) r1) = v.
Proof.
  rewrite shape_ok_eq, wt_eq.
  induction t as [t Ht|t Ht IH] using ty_elems_ind; intros v r0 r1.
  - rewrite !tree_ok_leaf by assumption.
    destruct v as [xs|], r0 as [a|], r1 as [b|]; try discriminate.
    unfold lpS, lpW. rewrite andb_true_iff, !Nat.eqb_eq. intros [Hv Hc] Ha Hb.
    rewrite !pop_leaf by assumption. f_equal. apply l_reveal; auto; lia.
  - rewrite !tree_ok_node by assumption.
    destruct v as [|vs], r0 as [|a], r1 as [|b]; try discriminate.
    rewrite !pop_node by assumption. intros Hv Ha Hb. f_equal.
    revert vs a b Hv Ha Hb.
    induction IH as [|t1 ts H1 _ IHl]; intros [|v vs] [|x a] [|y b]; cbn [all2 pzip];
      try discriminate; auto.
    rewrite !andb_true_iff. intros [V1 V2] [A1 A2] [B1 B2]. f_equal; auto.
Qed.
Lemma pop_sub_comm : forall t v x y,
  shape_ok t v = true -> shape_ok t x = true -> shape_ok t y = true ->
  pop fsub t (pop fsub t v x) y = pop fsub t (pop fsub t v y) x.
Proof.
  rewrite shape_ok_eq.
  induction t as [t Ht|t Ht IH] using ty_elems_ind; intros v x y.
  - rewrite !tree_ok_leaf by assumption.
    destruct v as [c|], x as [a|], y as [b|]; try discriminate. intros _ _ _.
    rewrite !pop_leaf by assumption. f_equal. apply l_sub_comm.
  - rewrite !tree_ok_node by assumption.
    destruct v as [l1|vs], x as [l2|xs], y as [l3|ys]; try discriminate.
    rewrite !pop_node by assumption. intros Hv Hx Hy. f_equal.
    revert vs xs ys Hv Hx Hy.
    induction IH as [|t1 ts H1 _ IHl]; intros [|v0 vs0] [|x0 xs0] [|y0 ys0]; cbn [all2 pzip];
      try discriminate; auto.
    rewrite !andb_true_iff. intros [V1 V2] [A1 A2] [B1 B2]. f_equal; auto.
Qed.
Lemma pop_sub_sub : forall t u x,
  shape_ok t u = true -> wt t x = true -> pop fsub t u (pop fsub t u x) = x.
Proof.
  rewrite shape_ok_eq, wt_eq.
  induction t as [t Ht|t Ht IH] using ty_elems_ind; intros u x.
  - rewrite !tree_ok_leaf by assumption.
    destruct u as [c|], x as [a|]; try discriminate.
    unfold lpS, lpW. rewrite andb_true_iff, !Nat.eqb_eq. intros Hu [Hx Hc].
    rewrite !pop_leaf by assumption. f_equal. apply l_sub_sub; auto; lia.
  - rewrite !tree_ok_node by assumption.
    destruct u as [l1|us], x as [l2|xs]; try discriminate.
    rewrite !pop_node by assumption. intros Hu Hx. f_equal.
    revert us xs Hu Hx.
    induction IH as [|t1 ts H1 _ IHl]; intros [|u us] [|x xs]; cbn [all2 pzip];
      try discriminate; auto.
    rewrite !andb_true_iff. intros [U1 U2] [X1 X2]. f_equal; auto.
Qed.

(* ---------------------------------------------------------------- the property *)

Lemma scalar_eqb_refl s : scalar_eqb s s = true.
Proof. now destruct s. Qed.
Lemma ty_eqb_refl : forall t, ty_eqb t t = true.
Proof.
  induction t as [s|sh s|n t IH|ts IH|fs IH] using ty_ind'; cbn [ty_eqb].
  - apply scalar_eqb_refl.
  - rewrite (list_eqb_refl Z.eqb Z.eqb_refl), scalar_eqb_refl. reflexivity.
  - now rewrite Z.eqb_refl, IH.
  - induction IH as [|t ts Ht _ IHl]; [reflexivity|]. now rewrite Ht, IHl.
  - induction IH as [|f fs Hf _ IHl]; [reflexivity|]. now rewrite String.eqb_refl, Hf, IHl.
Qed.

Definition share2 (t : ty) (v r0 r1 : value) : value := pop fsub t (pop fsub t v r0) r1.

Lemma shard_ok t v r0 r1 :
  shape_ok t v = true -> shape_ok t r0 = true -> shape_ok t r1 = true ->
  shard_to_shares t v r0 r1 = Ok [r0; r1; share2 t v r0 r1] /\ wt t (share2 t v r0 r1) = true.
Proof.
  intros Hv H0 H1. unfold shard_to_shares, share2.
  destruct (gen_sub_rep t v r0 Hv H0) as [E1 W1]. rewrite E1. cbn [bind].
  destruct (gen_sub_rep t _ r1 (wt_shape_ok _ _ W1) H1) as [E2 W2]. rewrite E2. cbn [bind]. auto.
Qed.

Lemma shape_ok_triple t a b c :
  shape_ok (triple t) (VNode [a; b; c]) = shape_ok t a && (shape_ok t b && (shape_ok t c && true)).
Proof. reflexivity. Qed.

Lemma reveal_triple t v r0 r1 :
  ty_ok t -> wt t v = true -> shape_ok t r0 = true -> shape_ok t r1 = true ->
  secret_share_reveal (triple t, VNode [r0; r1; share2 t v r0 r1]) = Ok (t, v).
Proof.
  intros [sz Hsz] Hv H0 H1.
  destruct (shard_ok t v r0 r1 (wt_shape_ok _ _ Hv) H0 H1) as [_ W2].
  unfold secret_share_reveal. cbn [fst snd triple]. rewrite ty_eqb_refl. cbn [andb].
  destruct (gen_add_rep t r0 r1 H0 H1) as [E1 W1]. rewrite E1. cbn [bind].
  destruct (gen_add_rep t _ _ (wt_shape_ok _ _ W1) (wt_shape_ok _ _ W2)) as [E2 _].
  rewrite E2. cbn [bind]. unfold share2. rewrite pop_reveal by assumption.
  unfold typed_new. rewrite Hsz, (wt_shape_ok _ _ Hv). reflexivity.
Qed.

Theorem reveal_share : forall t v r0 r1,
  ty_ok t -> wt t v = true -> shape_ok t r0 = true -> shape_ok t r1 = true ->
  exists sh, secret_share (t, v) r0 r1 = Ok sh /\ fst sh = triple t /\
             secret_share_reveal sh = Ok (t, v).
Proof.
  intros t v r0 r1 Ht Hv H0 H1.
  destruct (shard_ok t v r0 r1 (wt_shape_ok _ _ Hv) H0 H1) as [E _].
  unfold secret_share. cbn [fst snd]. rewrite E. cbn [bind].
  eexists. split; [reflexivity|]. split; [reflexivity|]. now apply reveal_triple.
Qed.

(* ReplicatedShares: local-evaluation form reveals to the secret; its tuple form is the
   TypedValue form, and from_tuple inverts to_tuple *)
Theorem rs_reveal_share : forall t v r0 r1,
  ty_ok t -> wt t v = true -> shape_ok t r0 = true -> shape_ok t r1 = true ->
  exists rs, rs_secret_share_for_local_evaluation (t, v) r0 r1 = Ok rs /\
             rs_reveal rs = Ok (t, v) /\
             (ty_ok (triple t) ->
              exists tup, rs_to_tuple rs = Ok tup /\ secret_share (t, v) r0 r1 = Ok tup /\
                          rs_from_tuple tup = Ok rs).
Proof.
  intros t v r0 r1 Ht Hv H0 H1.
  destruct (shard_ok t v r0 r1 (wt_shape_ok _ _ Hv) H0 H1) as [E W2].
  unfold rs_secret_share_for_local_evaluation, secret_share. cbn [fst snd]. rewrite E. cbn [bind].
  eexists. split; [reflexivity|]. split.
  - unfold rs_reveal. cbn [fst snd].
    destruct (gen_add_rep t r0 r1 H0 H1) as [E1 W1]. rewrite E1. cbn [bind].
    destruct (gen_add_rep t _ _ (wt_shape_ok _ _ W1) (wt_shape_ok _ _ W2)) as [E2 _].
    rewrite E2. cbn [bind]. unfold share2. now rewrite pop_reveal by assumption.
  - intros [sz Hsz]. unfold rs_to_tuple, typed_new. cbn [fst snd]. rewrite Hsz.
    rewrite shape_ok_triple, H0, H1, (wt_shape_ok _ _ W2). cbn [andb].
    eexists. split; [reflexivity|]. split; [reflexivity|].
    unfold rs_from_tuple. cbn [fst snd triple forallb]. rewrite ty_eqb_refl. reflexivity.
Qed.

Lemma shard_shape t v r0 r1 s :
  shard_to_shares t v r0 r1 = Ok s -> exists s2, s = [r0; r1; s2].
Proof.
  unfold shard_to_shares. destruct (generalized_subtract v r0 t); try discriminate. cbn [bind].
  destruct (generalized_subtract _ r1 t); try discriminate. cbn [bind].
  intros H. injection H as <-. eauto.
Qed.

Theorem layout : forall tv r0 r1 g0 g1 g2 s,
  shard_to_shares (fst tv) (snd tv) r0 r1 = Ok s ->
  length s = 3%nat /\
  exists ps, get_local_shares_for_each_party tv r0 r1 g0 g1 g2 = Ok ps /\ length ps = 3%nat /\
    forall i p, nth_error ps i = Some p ->
                fst p = triple (fst tv) /\ party_holds i p s [g0; g1; g2].
Proof.
  intros tv r0 r1 g0 g1 g2 s Hs. destruct (shard_shape _ _ _ _ _ Hs) as [s2 ->].
  split; [reflexivity|].
  unfold get_local_shares_for_each_party. rewrite Hs. cbn [bind party_slots map].
  eexists. split; [reflexivity|]. split; [reflexivity|].
  intros i p Hp. destruct i as [|[|[|i]]]; cbn in Hp; try (destruct i; discriminate);
    injection Hp as <-; (split; [reflexivity|]); repeat split.
Qed.

(* same layout for the ReplicatedShares form and the same shares as the TypedValue form *)
Theorem rs_layout : forall tv r0 r1 g0 g1 g2 ps,
  get_local_shares_for_each_party tv r0 r1 g0 g1 g2 = Ok ps ->
  rs_secret_share_for_parties tv r0 r1 g0 g1 g2
  = Ok (map (fun p => (fst tv, match snd p with VNode l => l | VLeaf _ => [] end)) ps).
Proof.
  intros tv r0 r1 g0 g1 g2 ps. unfold get_local_shares_for_each_party, rs_secret_share_for_parties.
  destruct (shard_to_shares _ _ r0 r1) as [s| | |]; try discriminate. cbn [bind].
  destruct (party_slots s _) as [q| | |]; try discriminate. cbn [bind].
  intros H. injection H as <-. rewrite map_map. reflexivity.
Qed.

Theorem any_two_reconstruct : forall t v r0 r1 g0 g1 g2,
  ty_ok t -> wt t v = true -> shape_ok t r0 = true -> shape_ok t r1 = true ->
  exists ps, get_local_shares_for_each_party (t, v) r0 r1 g0 g1 g2 = Ok ps /\
    length ps = 3%nat /\
    forall i j pi pj, i <> j -> nth_error ps i = Some pi -> nth_error ps j = Some pj ->
      exists c, combine_two i pi pj = Ok c /\ secret_share_reveal c = Ok (t, v).
Proof.
  intros t v r0 r1 g0 g1 g2 Ht Hv H0 H1.
  destruct (shard_ok t v r0 r1 (wt_shape_ok _ _ Hv) H0 H1) as [E _].
  pose proof (reveal_triple t v r0 r1 Ht Hv H0 H1) as R.
  unfold get_local_shares_for_each_party. cbn [fst snd]. rewrite E. cbn [bind party_slots map].
  eexists. split; [reflexivity|]. split; [reflexivity|].
  intros i j pi pj Hij Hi Hj.
  destruct i as [|[|[|i]]]; cbn in Hi; try (destruct i; discriminate); injection Hi as <-;
    (destruct j as [|[|[|j]]]; cbn in Hj; try (destruct j; discriminate); try congruence;
     injection Hj as <-; eexists; (split; [reflexivity|]); exact R).
Qed.

Theorem two_shares_uniform : forall i t v,
  (i < 3)%nat -> shape_ok t v = true ->
  (forall r0 r1, wt t r0 = true -> wt t r1 = true ->
     exists a b, view i t v r0 r1 = Ok (a, b) /\ wt t a = true /\ wt t b = true /\
                 unview i t v a b = Ok (r0, r1)) /\
  (forall a b, wt t a = true -> wt t b = true ->
     exists r0 r1, unview i t v a b = Ok (r0, r1) /\ wt t r0 = true /\ wt t r1 = true /\
                   view i t v r0 r1 = Ok (a, b)).
Proof.
  intros i t v Hi Hv. split.
  - intros r0 r1 W0 W1.
    pose proof (wt_shape_ok _ _ W0) as S0. pose proof (wt_shape_ok _ _ W1) as S1.
    destruct (shard_ok t v r0 r1 Hv S0 S1) as [E W2]. pose proof (wt_shape_ok _ _ W2) as S2.
    unfold view. rewrite E. cbn [bind].
    destruct i as [|[|[|i]]]; [| | |lia]; cbn [nth_error Nat.add Nat.modulo Nat.divmod fst snd Nat.sub];
      do 2 eexists; (split; [reflexivity|]); (split; [assumption|]); (split; [assumption|]).
    + reflexivity.
    + cbn [unview]. destruct (gen_sub_rep t v r1 Hv S1) as [F1 X1]. rewrite F1. cbn [bind].
      destruct (gen_sub_rep t _ _ (wt_shape_ok _ _ X1) S2) as [F2 _]. rewrite F2. cbn [bind].
      unfold share2. rewrite (pop_sub_comm t v r0 r1) by assumption.
      rewrite pop_sub_sub by (auto using wt_shape_ok). reflexivity.
    + cbn [unview]. destruct (gen_sub_rep t v r0 Hv S0) as [F1 X1]. rewrite F1. cbn [bind].
      destruct (gen_sub_rep t _ _ (wt_shape_ok _ _ X1) S2) as [F2 _]. rewrite F2. cbn [bind].
      unfold share2. rewrite pop_sub_sub by (auto using wt_shape_ok). reflexivity.
  - intros a b Wa Wb.
    pose proof (wt_shape_ok _ _ Wa) as Sa. pose proof (wt_shape_ok _ _ Wb) as Sb.
    destruct i as [|[|[|i]]]; [| | |lia]; cbn [unview].
    + do 2 eexists. split; [reflexivity|]. split; [assumption|]. split; [assumption|].
      unfold view. destruct (shard_ok t v a b Hv Sa Sb) as [E _]. rewrite E. reflexivity.
    + destruct (gen_sub_rep t v a Hv Sa) as [F1 X1]. rewrite F1. cbn [bind].
      destruct (gen_sub_rep t _ b (wt_shape_ok _ _ X1) Sb) as [F2 X2]. rewrite F2. cbn [bind].
      do 2 eexists. split; [reflexivity|]. split; [assumption|]. split; [assumption|].
      unfold view. destruct (shard_ok t v _ a Hv (wt_shape_ok _ _ X2) Sa) as [E _]. rewrite E.
      cbn [bind nth_error Nat.add Nat.modulo Nat.divmod fst snd Nat.sub].
      unfold share2. rewrite (pop_sub_comm t v _ a) by (auto using wt_shape_ok).
      rewrite pop_sub_sub by (auto using wt_shape_ok). reflexivity.
    + destruct (gen_sub_rep t v b Hv Sb) as [F1 X1]. rewrite F1. cbn [bind].
      destruct (gen_sub_rep t _ a (wt_shape_ok _ _ X1) Sa) as [F2 X2]. rewrite F2. cbn [bind].
      do 2 eexists. split; [reflexivity|]. split; [assumption|]. split; [assumption|].
      unfold view. destruct (shard_ok t v b _ Hv Sb (wt_shape_ok _ _ X2)) as [E _]. rewrite E.
      cbn [bind nth_error Nat.add Nat.modulo Nat.divmod fst snd Nat.sub].
      unfold share2. rewrite pop_sub_sub by (auto using wt_shape_ok). reflexivity.
Qed.

(* ---------------------------------------------------------------- share_vector, CLI split *)

Lemma same_mod_ex M x y : 0 < M -> x mod M = y mod M -> exists k, x = y + k * M.
Proof.
  intros HM H. exists (x / M - y / M).
  pose proof (Z.div_mod x M ltac:(lia)) as Hx. pose proof (Z.div_mod y M ltac:(lia)) as Hy.
  rewrite H in Hx. set (qx := x / M) in *. set (qy := y / M) in *. set (r := y mod M) in *.
  clearbody qx qy r. clear H. lia.
Qed.
Lemma recode_ex st x : exists k, recode st x = x + k * modulus st.
Proof. apply same_mod_ex; [apply modulus_pos | apply recode_mod]. Qed.
Lemma add_u128_ex st a b : exists k, add_u128 (get_modulus st) a b = a + b + k * modulus st.
Proof. apply same_mod_ex; [apply modulus_pos | apply reduce_wrap_mod]. Qed.

Lemma el_sv st d a b :
  fadd st (fadd st (recode st a) (recode st b))
       (recode st (sub_u128 (get_modulus st) (recode st d) (add_u128 (get_modulus st) a b)))
  = recode st d.
Proof.
  rewrite recode_sub_u128. unfold fadd, fsub. rewrite recode_arg_l, recode_arg_r.
  transitivity (recode st (recode st d)); [|apply recode_idem]. apply recode_cong.
  destruct (recode_ex st a) as [k1 ->]. destruct (recode_ex st b) as [k2 ->].
  destruct (add_u128_ex st a b) as [k3 ->].
  replace (a + k1 * modulus st + (b + k2 * modulus st) + (recode st d - (a + b + k3 * modulus st)))
    with (recode st d + (k1 + k2 - k3) * modulus st) by ring.
  apply Z_mod_plus_full.
Qed.

Lemma l_sv st : forall data r0 r1,
  length r0 = length data -> length r1 = length data ->
  map2 (fadd st) (map2 (fadd st) (map (recode st) r0) (map (recode st) r1))
       (map (recode st) (map2 (sub_u128 (get_modulus st)) (map (recode st) data)
                              (map2 (add_u128 (get_modulus st)) r0 r1)))
  = map (recode st) data.
Proof.
  induction data as [|d data IH]; intros [|a r0] [|b r1] H0 H1; try discriminate; [reflexivity|].
  cbn [map]. rewrite !map2_cons. cbn [map]. rewrite map2_cons. f_equal.
  - apply el_sv.
  - apply IH; auto.
Qed.

Lemma bit_pad_nonbit st n : st <> Bit -> bit_pad st n = [].
Proof. destruct st; try reflexivity. congruence. Qed.

Theorem share_vector_reveal : forall st data r0 r1 g0 g1 g2,
  data <> [] -> (st = Bit -> length data = 1%nat) ->
  length r0 = length data -> length r1 = length data ->
  exists s0 s1 s2,
    share_vector st data r0 r1 g0 g1 g2
    = Ok [VNode [VLeaf s0; VLeaf s1; VLeaf g2]; VNode [VLeaf g0; VLeaf s1; VLeaf s2];
          VNode [VLeaf s0; VLeaf g1; VLeaf s2]] /\
    (let* a := leaf_add st s0 s1 in leaf_add st a s2) = Ok (recode_list st data).
Proof.
  intros st data r0 r1 g0 g1 g2 Hne Hbit H0 H1.
  assert (Hn : (length data =? 0)%nat = false).
  { destruct data; [congruence|reflexivity]. }
  unfold share_vector. rewrite Hn.
  assert (Hb : scalar_eqb st Bit && negb (length data =? 1)%nat = false).
  { destruct (scalar_eqb st Bit) eqn:E; [|reflexivity].
    apply scalar_eqb_eq in E. rewrite (Hbit E). reflexivity. }
  rewrite Hb. unfold add_vectors_u128, subtract_vectors_u128.
  replace (length r0 =? length r1)%nat with true by (symmetry; apply Nat.eqb_eq; lia).
  cbn [bind]. rewrite map_length, map2_length by lia.
  replace (length data =? length r0)%nat with true by (symmetry; apply Nat.eqb_eq; lia).
  cbn [bind map party_slots]. do 3 eexists. split; [reflexivity|].
  destruct (scalar_eqb st Bit) eqn:E.
  - apply scalar_eqb_eq in E. subst st. specialize (Hbit eq_refl).
    destruct data as [|d [|]]; try discriminate. destruct r0 as [|a [|]]; try discriminate.
    destruct r1 as [|b [|]]; try discriminate.
    assert (Hp : forall x, recode_list Bit [x] = [recode Bit x; 0; 0; 0; 0; 0; 0; 0]) by reflexivity.
    assert (Hq : forall x0 x1 x2 x3 x4 x5 x6 x7 : Z,
               recode_list Bit [x0; x1; x2; x3; x4; x5; x6; x7]
               = map (recode Bit) [x0; x1; x2; x3; x4; x5; x6; x7]).
    { intros. unfold recode_list. cbn [length]. change (bit_pad Bit 8) with (@nil Z).
      apply app_nil_r. }
    cbn [map2 map combine fst snd]. rewrite !Hp.
    unfold leaf_add, add_vectors_u128. cbn [length Nat.eqb bind map2 map combine fst snd].
    rewrite !Hq. cbn [length Nat.eqb bind map2 map combine fst snd]. rewrite !Hq.
    cbn [map]. rewrite !recode_add_u128.
    pose proof (el_sv Bit d a b) as EL. rewrite EL.
    do 2 f_equal.
  - assert (Hst : st <> Bit). { intros ->. discriminate. }
    unfold recode_list at 1 2 3. rewrite !bit_pad_nonbit, !app_nil_r by assumption.
    rewrite (leaf_add_rep st _ _ (length data)); rewrite ?map_length; auto using bit_pad_nonbit.
    cbn [bind].
    rewrite (leaf_add_rep st _ _ (length data));
      rewrite ?map_length, ?map2_length; rewrite ?map_length, ?map2_length;
      auto using bit_pad_nonbit; try lia.
    unfold recode_list. rewrite bit_pad_nonbit, app_nil_r by assumption. f_equal.
    apply l_sv; assumption.
Qed.

Theorem split_input_spec : forall tv zero r0 r1 g0 g1 g2,
  split_input IOShared tv zero r0 r1 g0 g1 g2
  = get_local_shares_for_each_party tv r0 r1 g0 g1 g2 /\
  split_input IOPublic tv zero r0 r1 g0 g1 g2 = Ok [tv; tv; tv] /\
  forall p z, typed_new (fst tv) zero = Ok z ->
    exists l, split_input (IOParty p) tv zero r0 r1 g0 g1 g2 = Ok l /\ length l = 3%nat /\
      forall j, 0 <= j < 3 ->
        nth_error l (Z.to_nat j) = Some (if j =? p then tv else z).
Proof.
  intros. split; [reflexivity|]. split; [reflexivity|]. intros p z Hz.
  cbn [split_input]. rewrite Hz. cbn [bind map].
  eexists. split; [reflexivity|]. split; [reflexivity|].
  intros j Hj. assert (j = 0 \/ j = 1 \/ j = 2) as [-> | [-> | ->]] by lia; reflexivity.
Qed.

(* C09 preservation: SegmentCumSum. *)
From CC Require Import Base.Prelude Base.Scalar Base.Ty Base.Shape Graph.Value Graph.IR Graph.Eval
  Graph.Typing Proofs.EvalProofs Proofs.TypingBase Proofs.TypingTuple Proofs.TypingArith
  Proofs.TypingBits Proofs.TypingReduce Proofs.TypingStruct.

(* fold with an invariant indexed by the number of elements consumed *)
Lemma fold_res_inv_idx {A X} (f : result A -> X -> result A) (Inv : nat -> A -> Prop) l :
  forall k0 a,
  (forall k x acc, nth_error l k = Some x -> Inv (k0 + k)%nat acc ->
     exists acc', f (Ok acc) x = Ok acc' /\ Inv (S (k0 + k)) acc') ->
  Inv k0 a -> exists r, fold_left f l (Ok a) = Ok r /\ Inv (k0 + length l)%nat r.
Proof.
  induction l as [|x l IH]; intros k0 a H Ha; cbn [fold_left length].
  - exists a. rewrite Nat.add_0_r. auto.
  - destruct (H O x a eq_refl) as (a' & -> & Ha'); [now rewrite Nat.add_0_r|].
    rewrite Nat.add_0_r in Ha'.
    destruct (IH (S k0) a') as (r & E & Hr); auto.
    + intros k y acc Hk Hacc. replace (S k0 + k)%nat with (k0 + S k)%nat in * by lia.
      apply (H (S k) y acc); auto.
    + exists r. split; [exact E|]. now replace (k0 + S (length l))%nat with (S k0 + length l)%nat by lia.
Qed.

Lemma nth_error_combine_seq {B} (l : list B) : forall s m k i b,
  nth_error (combine (map Z.of_nat (seq s m)) l) k = Some (i, b) ->
  i = Z.of_nat (s + k) /\ (k < m)%nat /\ (k < length l)%nat.
Proof.
  induction l as [|y l IH]; intros s m k i b H.
  - destruct (map Z.of_nat (seq s m)); destruct k; discriminate.
  - destruct m as [|m]; [destruct k; discriminate|]. cbn [seq map combine] in H.
    destruct k as [|k]; cbn [nth_error] in H.
    + inversion H; subst. cbn [length]. repeat split; lia.
    + destruct (IH (S s) m k i b H) as (-> & Hk & Hl). cbn [length]. repeat split; lia.
Qed.

Lemma preserves_segment_cum_sum : preserves OSegmentCumSum.
Proof.
  intros ts t vs Hu H HF. inv_infer H. apply zlen_eq in Harity.
  destruct HF as [|v0 t0 vs ts [Hv0 Hok0] HF]; [cbn in Harity; lia|].
  destruct HF as [|v1 t1 vs ts [Hv1 Hok1] HF]; [cbn in Harity; lia|].
  destruct HF as [|v2 t2 vs ts [Hv2 Hok2] HF]; [cbn in Harity; lia|].
  destruct HF; [|cbn in Harity; lia]. clear Harity.
  cbn [nth] in H. cbn [eval_node nth nth_res bind].
  destruct t0 as [|sh st0| | |]; try discriminate. cbn [is_arr negb shape_of st_of] in *.
  apply bind_ok in H as (d0 & Ed & H).
  destruct (ty_eqb (TArray [d0] Bit) t1) eqn:E1; cbn [negb] in H; [|discriminate].
  apply ty_eqb_eq in E1. subst t1.
  destruct (ty_ok_array _ _ Hok0) as [Vsh Nsh].
  destruct sh as [|d sh']; [congruence|]. cbn in Ed. inversion Ed; subst d0. clear Ed. cbn [tl] in H.
  inversion Vsh as [|? ? Hd Vtl]; subst.
  assert (E2 : is_leaf t2 = true /\ prod_list (dims t2) = prod_list sh' /\ st_of t2 = st0).
  { destruct (zlen (d :: sh') =? 1) eqn:L1; cbn [andb negb] in H.
    - destruct (ty_eqb (TScalar st0) t2) eqn:E; cbn [negb] in H; [|discriminate].
      apply ty_eqb_eq in E. subst t2. destruct sh'; [cbn; auto| unfold zlen in L1; cbn in L1; lia].
    - destruct (ty_eqb (TArray sh' st0) t2) eqn:E; cbn [negb] in H; [|discriminate].
      apply ty_eqb_eq in E. subst t2. cbn. auto. }
  destruct E2 as (L2 & P2 & S2).
  assert (H' : register (TArray (d + 1 :: sh') st0) = Ok t).
  { destruct ((zlen (d :: sh') =? 1) && negb (ty_eqb (TScalar st0) t2)); [discriminate|].
    destruct (negb (zlen (d :: sh') =? 1) && negb (ty_eqb (TArray sh' st0) t2)); [discriminate|].
    destruct (u64_max <? d + 1); [discriminate| exact H]. }
  clear H. apply register_ok in H' as [-> _].
  destruct v0 as [inp|]; [|discriminate]. apply has_type_array in Hv0 as [Li Fi].
  destruct v1 as [bits|]; [|discriminate]. apply has_type_array in Hv1 as [Lb _].
  destruct (has_type_leaf v2 t2 L2 Hv2) as (first & -> & Lf & Ff). rewrite S2 in Ff.
  cbn [arr_of bind st_of]. rewrite P2 in *.
  pose proof (prod_list_pos _ Vtl) as Pt. set (row := prod_list sh') in *.
  cbn [prod_list fold_right] in Li, Lb. change (fold_right Z.mul 1 sh') with row in Li.
  unfold zrange.
  match goal with |- context [fold_left ?ff ?ll (Ok ?aa)] =>
    destruct (fold_res_inv_idx ff (fun k r => Z.of_nat (length r) = (Z.of_nat k + 1) * row /\
                                            Forall (fun e => 0 <= e < modulus st0) r) ll O aa)
      as (r & -> & Lr & Fr)
  end.
  - intros k [i bit] acc Hk [La Fa]. cbn [Nat.add] in *.
    apply nth_error_combine_seq in Hk as (-> & Hk1 & Hk2). cbn [Nat.add bind].
    rewrite Nat2Z.id in Hk1.
    destruct (slice_z_ok (fun e => 0 <= e < modulus st0) inp (Z.of_nat k * row) row) as (ir & -> & Lir & Fir);
      auto; try nia.
    cbn [bind]. destruct (bit =? 0).
    + eexists; split; [reflexivity|]. split; [rewrite app_length; nia| apply Forall_app; auto].
    + destruct (slice_z_ok (fun e => 0 <= e < modulus st0) acc (Z.of_nat k * row) row) as (pr & -> & Lpr & Fpr);
        auto; try nia.
      cbn [bind]. eexists; split; [reflexivity|]. split.
      * rewrite app_length, zip_with_length by lia. nia.
      * apply Forall_app. split; auto. apply zip_with_forall. intros; apply k_add_range.
  - split; [cbn; lia| exact Ff].
  - cbn [bind safe_typed]. apply has_type_array. split; [|exact Fr].
    rewrite Lr. cbn [Nat.add]. rewrite combine_length, map_length, seq_length.
    cbn [prod_list fold_right]. change (fold_right Z.mul 1 sh') with row. nia.
Qed.

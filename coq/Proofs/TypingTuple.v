(* C09 preservation: tuple / named tuple / vector constructors and getters, Repeat. *)
From CC Require Import Base.Prelude Base.Scalar Base.Ty Base.Shape Graph.Value Graph.IR Graph.Eval
  Graph.Typing Proofs.EvalProofs Proofs.TypingBase.

Lemma ty_eqb_eq a : forall b, ty_eqb a b = true -> a = b.
Proof.
  induction a as [s|sh s|n t IH|ts IH|fs IH] using ty_ind'; intros b E; destruct b; cbn [ty_eqb] in E;
    try discriminate.
  - apply scalar_eqb_eq in E. congruence.
  - btrue. f_equal.
    + eapply list_eqb_eq; [|eassumption]. intros; lia.
    + now apply scalar_eqb_eq.
  - btrue. f_equal; [lia| now apply IH].
  - f_equal. revert ts0 E. induction IH as [|a l Ha _ IHl]; intros [|b bs] E; try discriminate; auto.
    btrue. f_equal; auto.
  - f_equal. revert fs0 E. induction IH as [|a l Ha _ IHl]; intros [|b bs] E; try discriminate; auto.
    btrue. f_equal; auto. destruct a, b; cbn in *. f_equal; [now apply String.eqb_eq| auto].
Qed.

Lemma Forall2_wt_ht vs ts : Forall2 wt vs ts -> Forall2 ht vs ts.
Proof. induction 1 as [|v t vs ts [H _] _ IH]; constructor; auto. Qed.

Lemma map_snd_combine {A B} (l1 : list A) (l2 : list B) :
  length l1 = length l2 -> map snd (combine l1 l2) = l2.
Proof.
  revert l2; induction l1 as [|a l1 IH]; intros [|b l2] L; cbn in *; try lia; auto. f_equal. apply IH. lia.
Qed.

Lemma Forall2_nth_res {A B} (R : A -> B -> Prop) l1 l2 :
  Forall2 R l1 l2 -> forall i b, nth_res l2 i = Ok b -> exists a, nth_res l1 i = Ok a /\ R a b.
Proof.
  induction 1 as [|x y l1 l2 Hxy _ IH]; intros i b E; cbn in *.
  - destruct i; discriminate.
  - destruct i; [inversion E; subst; eauto| eauto].
Qed.
Lemma Forall2_znth {A B} (R : A -> B -> Prop) l1 l2 i b :
  Forall2 R l1 l2 -> znth l2 i = Ok b -> exists a, znth l1 i = Ok a /\ R a b.
Proof. unfold znth. intros H. destruct (i <? 0); [discriminate|]. now apply Forall2_nth_res. Qed.

Lemma nth_res_map {A B} (f : A -> B) l i a : nth_res l i = Ok a -> nth_res (map f l) i = Ok (f a).
Proof.
  revert i; induction l as [|x l IH]; intros i E; cbn in *; destruct i; try discriminate.
  - inversion E; auto.
  - auto.
Qed.
Lemma znth_map {A B} (f : A -> B) l i a : znth l i = Ok a -> znth (map f l) i = Ok (f a).
Proof. unfold znth. destruct (i <? 0); [discriminate|]. apply nth_res_map. Qed.

Lemma znth_in_range {A} (l : list A) i : 0 <= i < Z.of_nat (length l) -> exists a, znth l i = Ok a.
Proof.
  intros H. unfold znth. replace (i <? 0) with false by lia.
  assert (Hn : (Z.to_nat i < length l)%nat) by lia. clear H. revert Hn. generalize (Z.to_nat i) as k.
  induction l as [|x l IH]; intros k Hk; cbn in *; [lia|]. destruct k; eauto. apply IH. lia.
Qed.

Lemma has_type_tup_inv v t : is_leaf t = false -> has_type v t = true -> exists l, v = VTup l.
Proof. destruct t; cbn [is_leaf]; try discriminate; intros _ H; destruct v; try discriminate; eauto. Qed.

Lemma preserves_create_tuple : preserves OCreateTuple.
Proof.
  intros ts t vs Hu H HF. inv_infer H. apply register_ok in H as [-> _].
  cbn [eval_node safe_typed]. apply has_type_tuple. now apply Forall2_wt_ht.
Qed.

Lemma preserves_create_named_tuple names : preserves (OCreateNamedTuple names).
Proof.
  intros ts t vs Hu H HF. inv_infer H.
  destruct (zlen ts =? zlen names) eqn:L; cbn [negb] in H; [|discriminate].
  destruct (nodup_strings names); cbn [negb] in H; [|discriminate].
  apply register_ok in H as [-> _]. cbn [eval_node safe_typed]. apply has_type_named.
  rewrite map_snd_combine by (unfold zlen in L; lia). now apply Forall2_wt_ht.
Qed.

Lemma preserves_create_vector et : preserves (OCreateVector et).
Proof.
  intros ts t vs Hu H HF. inv_infer H.
  destruct (forallb (fun t => ty_eqb t et) ts) eqn:A; cbn [negb] in H; [|discriminate].
  apply register_ok in H as [-> _]. cbn [eval_node safe_typed]. apply has_type_vector.
  split; [unfold zlen; now rewrite (Forall2_wt_length _ _ HF)|].
  rewrite forallb_forall in A. clear Hu.
  induction HF as [|v t vs ts [Hv _] _ IH]; constructor.
  - rewrite <- (ty_eqb_eq t et); [exact Hv|]. apply A. now left.
  - apply IH. intros x Hx. apply A. now right.
Qed.

Lemma preserves_tuple_get i : preserves (OTupleGet i).
Proof.
  intros ts t vs Hu H HF. inv_infer H. apply zlen_eq in Harity. cbn [op_u64] in Hu.
  destruct (one_dep _ _ Harity HF) as (v & t0 & -> & -> & Hv & Hok).
  cbn [nth] in H. cbn [eval_node nth nth_res bind].
  destruct t0 as [| | |fs|fs]; try discriminate.
  - destruct (zlen fs <=? i) eqn:R; [discriminate|].
    apply bind_ok in H as (r & Er & H). apply register_ok in H as [-> _].
    destruct (has_type_tup_inv v (TTuple fs) eq_refl Hv) as (l & ->). cbn [tup_of bind].
    apply has_type_tuple in Hv. destruct (Forall2_znth _ _ _ _ _ Hv Er) as (a & -> & Ha). exact Ha.
  - destruct (zlen fs <=? i) eqn:R; [discriminate|].
    apply bind_ok in H as (r & Er & H). apply register_ok in H as [-> _].
    destruct (has_type_tup_inv v (TNamed fs) eq_refl Hv) as (l & ->). cbn [tup_of bind].
    apply has_type_named in Hv. apply (znth_map snd) in Er.
    destruct (Forall2_znth _ _ _ _ _ Hv Er) as (a & -> & Ha). exact Ha.
Qed.

Lemma named_index_find fs name f :
  find (fun g : string * ty => String.eqb (fst g) name) fs = Some f ->
  exists i, named_index fs name = Some i /\ znth fs i = Ok f.
Proof.
  unfold named_index. intros H.
  enough (G : forall k, exists j,
    (fix go (fs : list (string * ty)) (i : Z) {struct fs} : option Z :=
       match fs with
       | [] => None
       | f :: r => if String.eqb (fst f) name then Some i else go r (i + 1)
       end) fs k = Some (k + Z.of_nat j) /\ nth_res fs j = Ok f).
  { destruct (G 0) as (j & E & N). exists (Z.of_nat j). split.
    - rewrite E. f_equal.
    - unfold znth. replace (Z.of_nat j <? 0) with false by lia. now rewrite Nat2Z.id. }
  revert H. induction fs as [|g fs IH]; cbn [find]; intros H k; [discriminate|].
  destruct (String.eqb (fst g) name) eqn:E.
  - inversion H; subst. exists 0%nat. split; [f_equal; lia| reflexivity].
  - destruct (IH H (k + 1)) as (j & Ej & Nj). exists (S j). split; [rewrite Ej; f_equal; lia| exact Nj].
Qed.

Lemma preserves_named_tuple_get name : preserves (ONamedTupleGet name).
Proof.
  intros ts t vs Hu H HF. inv_infer H. apply zlen_eq in Harity.
  destruct (one_dep _ _ Harity HF) as (v & t0 & -> & -> & Hv & Hok).
  cbn [nth] in H. cbn [eval_node nth].
  destruct t0 as [| | | |fs]; try discriminate.
  destruct (find (fun f => String.eqb (fst f) name) fs) as [f|] eqn:F; [|discriminate].
  apply register_ok in H as [-> _].
  destruct (named_index_find _ _ _ F) as (i & -> & Ei).
  cbn [nth_res bind].
  destruct (has_type_tup_inv v (TNamed fs) eq_refl Hv) as (l & ->). cbn [tup_of bind].
  apply has_type_named in Hv. apply (znth_map snd) in Ei.
  destruct (Forall2_znth _ _ _ _ _ Hv Ei) as (a & -> & Ha). exact Ha.
Qed.

Lemma as_u64_nonneg st x : 0 <= as_u64 st x.
Proof. unfold as_u64. apply Z.mod_pos_bound. lia. Qed.

Lemma preserves_vector_get : preserves OVectorGet.
Proof.
  intros ts t vs Hu H HF. inv_infer H. apply zlen_eq in Harity.
  destruct (two_deps _ _ Harity HF) as (v0 & t0 & v1 & t1 & -> & -> & [Hv0 Hok0] & [Hv1 Hok1]).
  cbn [nth] in H. cbn [eval_node nth nth_res bind].
  assert (Hs : is_scalar t1 = true).
  { destruct t1; cbn in H; try discriminate; reflexivity. }
  destruct (negb (ty_eqb t1 (TScalar U64)) && negb (ty_eqb t1 (TScalar U32))); [discriminate|].
  destruct t0 as [| |size inner| |]; try discriminate.
  apply register_ok in H as [-> _].
  destruct t1 as [s1| | | |]; try discriminate.
  destruct v1 as [ies|]; [|discriminate]. apply has_type_scalar in Hv1 as [L1 _].
  cbn [arr_of bind].
  destruct ies as [|x [|y r]]; cbn in L1; try lia. cbn [bind st_of].
  destruct (size <=? as_u64 s1 x) eqn:R; [exact I|].
  destruct (has_type_tup_inv v0 (TVector size inner) eq_refl Hv0) as (l & ->). cbn [tup_of bind].
  apply has_type_vector in Hv0 as [Ll Fl]. pose proof (as_u64_nonneg s1 x).
  destruct (znth_in_range l (as_u64 s1 x)) as (a & Ea); [lia|]. rewrite Ea. cbn [safe_typed].
  rewrite Forall_forall in Fl. apply Fl.
  unfold znth in Ea. destruct (as_u64 s1 x <? 0); [discriminate|].
  clear - Ea. revert Ea. generalize (Z.to_nat (as_u64 s1 x)) as k.
  induction l as [|y l IH]; intros k E; cbn in *; destruct k; try discriminate.
  - inversion E; auto.
  - right. eauto.
Qed.

Lemma preserves_repeat n : preserves (ORepeat n).
Proof.
  intros ts t vs Hu H HF. inv_infer H. apply zlen_eq in Harity. cbn [op_u64] in Hu.
  destruct (one_dep _ _ Harity HF) as (v & t0 & -> & -> & Hv & Hok).
  cbn [nth] in H. apply register_ok in H as [-> _]. cbn [eval_node nth_res bind safe_typed].
  apply has_type_vector. rewrite repeat_length. split; [lia|].
  apply Forall_forall. intros x Hx. apply repeat_spec in Hx. now subst.
Qed.

(* C06 / meta-operation pass: the evaluator facts behind the two rewrites that create nodes,
     VectorGet (ArrayToVector a) i  =  Get a [i]            (rank 1)
                                    =  GetSlice a [i, ...]  (rank > 1)
     VectorGet (Zip [v1..vk]) i     =  CreateTuple [VectorGet v1 i; ...; VectorGet vk i]
   stated on eval_node. *)
From CC Require Import Base.Prelude Base.Scalar Base.Ty Base.Shape Graph.Value Graph.IR Graph.Eval
  Model.Opt Proofs.OptBase Proofs.EvalProofs Graph.Spec Proofs.EvalSpecBase Proofs.EvalSpecIndex Proofs.OptBits.

(* ------------------------------------------------------------------ chunks *)
Lemma skipn_add {A} a : forall b (l : list A), skipn a (skipn b l) = skipn (b + a) l.
Proof.
  intros b. induction b as [|b IH]; intros l; cbn [skipn Nat.add]; auto.
  destruct l as [|x l]; [now rewrite !skipn_nil|]. apply IH.
Qed.

Lemma chunks_nth k : (0 < k)%nat -> forall fuel l i c,
  nth_error (chunks k fuel l) i = Some c ->
  c = firstn k (skipn (i * k) l) /\ (i * k + k <= length l)%nat.
Proof.
  intros K. induction fuel as [|f IH]; intros l i c H; cbn [chunks] in H; [destruct i; discriminate|].
  destruct (length l <? k)%nat eqn:E; [destruct i; discriminate|].
  apply Nat.ltb_ge in E. destruct i as [|i]; cbn [nth_error] in H.
  - injection H as <-. cbn [Nat.mul Nat.add skipn]. split; [reflexivity|lia].
  - apply IH in H as (-> & L). rewrite skipn_length in L. split; [|lia].
    rewrite skipn_add; repeat f_equal; lia.
Qed.

Lemma a2v_rows_eq k es :
  (fix go (fuel : nat) (l : list Z) : list (list Z) :=
     match fuel with
     | O => []
     | S f => if (length l <? k)%nat then [] else firstn k l :: go f (skipn k l)
     end) (length es) es = chunks k (length es) es.
Proof. reflexivity. Qed.

(* list extensionality through nth *)
Lemma list_nth_ext (a b : list Z) : length a = length b ->
  (forall i, (i < length a)%nat -> nth i a 0 = nth i b 0) -> a = b.
Proof.
  revert b. induction a as [|x a IH]; intros [|y b] L H; cbn in L; try discriminate; auto.
  f_equal; [exact (H O ltac:(cbn; lia))|]. apply IH; [lia|]. intros i Hi. apply (H (S i)). cbn. lia.
Qed.

(* ------------------------------------------------------------------ the slice [i, ...] *)
Definition sub_all : slice_elem := SSub None None None.

Lemma clean_single_ellipsis d rest idx :
  get_clean_slice (d :: rest) [SSingle idx; SEllipsis] = Ok (SSingle idx :: repeat sub_all (length rest)).
Proof.
  unfold get_clean_slice. cbn [filter is_ellipsis length fold_left bind app].
  replace (Z.of_nat (S (length rest)) - Z.of_nat 2 + 1) with (Z.of_nat (length rest)) by lia.
  replace (Z.of_nat (length rest) <? 0) with false by lia. cbn [bind]. rewrite Nat2Z.id.
  cbn [length app]. rewrite repeat_length.
  replace (S (length rest) <? S (length rest))%nat with false by (symmetry; apply Nat.ltb_irrefl). reflexivity.
Qed.

Lemma slice_1d_all d ix : 0 <= ix -> slice_1d_index d None None None ix = Ok ix.
Proof.
  intros H. unfold slice_1d_index, normalize_subarray. cbn.
  change (1 =? 0) with false. change (0 <? 1) with true. cbv iota. change (0 <? 0) with false. cbv iota.
  cbn [bind]. replace (0 + 1 * ix) with ix by lia. replace (ix <? 0) with false by lia. reflexivity.
Qed.

Lemma index_go_all : forall rest u pre, in_shape u rest ->
  index_go (pre ++ u) rest (repeat sub_all (length rest)) (length pre)
  = Ok (u, (length pre + length u)%nat).
Proof.
  induction rest as [|d rest IH]; intros u pre H; inversion H as [|x ? u' ? Hx Hu]; subst.
  - cbn. now rewrite Nat.add_0_r.
  - cbn [length repeat index_go]. fold (index_go (pre ++ x :: u')). unfold sub_all at 1.
    rewrite nth_error_middle. rewrite slice_1d_all by lia. cbn [bind].
    specialize (IH u' (pre ++ [x]) Hu). rewrite <- app_assoc in IH. cbn [app] in IH.
    rewrite app_length in IH. cbn [length] in IH. replace (length pre + 1)%nat with (S (length pre)) in IH by lia.
    rewrite IH. cbn [bind]. do 2 f_equal. cbn [length]. lia.
Qed.

Lemma slice_index_single_ellipsis d rest idx u :
  rest <> [] -> 0 <= idx -> in_shape u rest ->
  slice_index (d :: rest) [SSingle idx; SEllipsis] u = Ok (idx :: u).
Proof.
  intros Nr Hi Hu. rewrite slice_index_unfold, clean_single_ellipsis. cbn [bind index_go].
  fold (index_go u). replace (0 <=? idx) with true by lia. replace (idx <? 0) with false by lia.
  pose proof (index_go_all rest u [] Hu) as E. cbn [app length Nat.add] in E. rewrite E. cbn [bind].
  pose proof (in_shape_length _ _ Hu) as L.
  assert (length u <> 0)%nat by (destruct rest; [congruence|cbn in L; lia]).
  replace (length u =? 0)%nat with false by (symmetry; apply Nat.eqb_neq; auto). cbn [andb].
  rewrite Nat.eqb_refl. reflexivity.
Qed.

(* ------------------------------------------------------------------ Get / GetSlice of a row *)
Definition elem_ty (rest : list Z) (st : scalar) : ty :=
  match rest with [] => TScalar st | _ => TArray rest st end.
Definition row_op (rest : list Z) (idx : Z) : op :=
  match rest with [] => OGet [idx] | _ => OGetSlice [SSingle idx; SEllipsis] end.

Lemma eval_get_row d st t es idx :
  0 <= idx < d -> (Z.to_nat idx + 1 <= length es)%nat ->
  eval_node (OGet [idx]) [TArray [d] st] t [VArr es] = Ok (VArr (firstn 1 (skipn (Z.to_nat idx) es))).
Proof.
  intros R L. unfold eval_node. cbn [nth nth_res bind arr_of is_arr negb shape_of length].
  change (skipn 1 [d]) with (@nil Z). change (firstn 1 [d]) with [d].
  unfold index_to_number. cbn [index_to_number_aux]. replace (d =? 0) with false by lia.
  rewrite Z.mod_small by lia. cbn [bind Nat.ltb Nat.leb].
  change (prod_list []) with 1. change (1 <=? 0) with false. cbv iota. replace (0 * d + idx) with idx by lia.
  replace (Z.of_nat (length es) / 1 <=? idx) with false by (rewrite Z.div_1_r; lia).
  assert (X : idx * 1 + 1 <= Z.of_nat (length es)) by lia.
  assert (Y : 0 <= idx * 1) by lia.
  rewrite slice_z_ok by lia. cbn [bind]. replace (Z.to_nat (idx * 1)) with (Z.to_nat idx) by lia. reflexivity.
Qed.

Lemma eval_get_slice_row d rest st es idx :
  rest <> [] -> valid_shape rest -> 0 <= idx < d ->
  let k := Z.to_nat (prod_list rest) in
  (Z.to_nat idx * k + k <= length es)%nat ->
  eval_node (OGetSlice [SSingle idx; SEllipsis]) [TArray (d :: rest) st] (TArray rest st) [VArr es]
  = Ok (VArr (firstn k (skipn (Z.to_nat idx * k) es))).
Proof.
  intros Nr Hv R k L. pose proof (prod_list_pos _ Hv) as Pp.
  unfold eval_node. cbn [nth nth_res bind arr_of is_arr negb shape_of dims].
  rewrite (mapM_zrange_ok _ (fun i => nth (Z.to_nat (idx * prod_list rest + i)) es 0)).
  - cbn [bind]. do 2 f_equal. apply list_nth_ext.
    + rewrite map_length, zrange_length, firstn_length, skipn_length. fold k. lia.
    + intros i Hi. rewrite map_length, zrange_length in Hi. fold k in Hi.
      rewrite nth_indep with (d' := nth (Z.to_nat (idx * prod_list rest + 0)) es 0)
        by (rewrite map_length, zrange_length; exact Hi).
      rewrite (map_nth (fun i0 => nth (Z.to_nat (idx * prod_list rest + i0)) es 0) (zrange (prod_list rest)) 0 i).
      rewrite nth_zrange by exact Hi. rewrite nth_firstn_skipn by exact Hi. f_equal. unfold k. lia.
  - intros i Hi. destruct (number_to_index_unravel rest i Hv Hi) as (E & Hin & Hf). rewrite E. cbn [bind].
    rewrite slice_index_single_ellipsis by (auto; lia). cbn [bind].
    assert (Hin' : in_shape (idx :: unravel i rest) (d :: rest)) by (constructor; auto).
    rewrite (index_to_number_flat_pos _ _ Hin'). cbn [bind flat_pos]. rewrite Hf.
    apply EvalSpecBase.znth_ok. unfold k in L. nia.
Qed.

(* VectorGet (ArrayToVector a) i: the i-th row, which Get (rank 1) resp. GetSlice [i, ...] reads *)
Theorem a2v_row_sem d rest st t va ws idx w :
  valid_shape (d :: rest) ->
  eval_node OArrayToVector [TArray (d :: rest) st] t [va] = Ok (VTup ws) ->
  0 <= idx < d -> znth ws idx = Ok w ->
  eval_node (row_op rest idx) [TArray (d :: rest) st] (elem_ty rest st) [va] = Ok w.
Proof.
  intros Hv Ea R Ew. inversion Hv as [|? ? Hd Hr]; subst. pose proof (prod_list_pos _ Hr) as Pp.
  unfold eval_node in Ea. cbn [nth nth_res bind] in Ea. destruct va as [es|]; [|discriminate].
  cbn [arr_of bind is_arr negb shape_of tl] in Ea.
  replace (prod_list rest <=? 0) with false in Ea by lia.
  rewrite a2v_rows_eq in Ea. injection Ea as <-.
  unfold znth in Ew. replace (idx <? 0) with false in Ew by lia.
  rewrite nth_res_total in Ew. rewrite nth_error_map in Ew.
  destruct (nth_error (chunks _ _ es) (Z.to_nat idx)) as [c|] eqn:Ec; [|discriminate]. cbn in Ew. injection Ew as <-.
  apply chunks_nth in Ec as (-> & L); [|lia].
  destruct rest as [|r0 rest'].
  - cbn [row_op elem_ty]. change (Z.to_nat (prod_list [])) with 1%nat in *.
    assert (X : (Z.to_nat idx + 1 <= length es)%nat) by lia.
    rewrite (eval_get_row d st (TScalar st) es idx R X).
    replace (Z.to_nat idx * 1)%nat with (Z.to_nat idx) by lia. reflexivity.
  - cbn [row_op elem_ty].
    assert (Nr : r0 :: rest' <> []) by discriminate.
    rewrite (eval_get_slice_row d (r0 :: rest') st es idx Nr Hr R L). reflexivity.
Qed.

(* ------------------------------------------------------------------ Zip *)
Lemma zip_rows_nth : forall fuel ls i r,
  nth_error (zip_rows fuel ls) i = Some r ->
  r = VTup (map (fun l => nth i l (VArr [])) ls) /\ Forall (fun l => (i < length l)%nat) ls.
Proof.
  induction fuel as [|f IH]; intros ls i r H; cbn [zip_rows] in H; [destruct i; discriminate|].
  destruct (forallb _ ls) eqn:F; [|destruct i; discriminate].
  destruct ls as [|l0 ls']; [destruct i; discriminate|].
  rewrite forallb_forall in F.
  assert (F0 : l0 <> []) by (specialize (F l0 (or_introl eq_refl)); destruct l0; [discriminate|discriminate]).
  assert (F' : forall l, In l ls' -> l <> []).
  { intros l Il. specialize (F l (or_intror Il)). destruct l; [discriminate|discriminate]. }
  destruct i as [|i]; cbn [nth_error] in H.
  - injection H as <-. split.
    + cbn [map]. f_equal. f_equal; [destruct l0; reflexivity|]. apply map_ext. intros [|x l]; reflexivity.
    + constructor; [destruct l0; [congruence|cbn; lia]|].
      apply Forall_forall. intros l Il. specialize (F' l Il). destruct l; [congruence|cbn; lia].
  - apply IH in H as (-> & Fa). cbn [map] in *. inversion Fa as [|? ? Fa0 Fa']; subst. split.
    + f_equal. f_equal; [destruct l0; [congruence|reflexivity]|].
      rewrite map_map. apply map_ext_in. intros l Il. specialize (F' l Il). destruct l; [congruence|reflexivity].
    + constructor; [destruct l0; [congruence|cbn in *; lia]|].
      apply Forall_forall. intros l Il. rewrite Forall_forall in Fa'.
      specialize (Fa' (tl l) (in_map _ _ _ Il)). specialize (F' l Il). destruct l; [congruence|cbn in *; lia].
Qed.

(* VectorGet (Zip vs) i: the tuple of the i-th entries, each of which exists *)
Theorem zip_row_sem dts t vs ws idx w :
  eval_node OZip dts t vs = Ok (VTup ws) -> znth ws idx = Ok w ->
  exists ls, mapM tup_of vs = Ok ls /\
             w = VTup (map (fun l => nth (Z.to_nat idx) l (VArr [])) ls) /\
             Forall (fun l => (Z.to_nat idx < length l)%nat) ls.
Proof.
  intros Ez Ew. unfold eval_node in Ez. destruct (mapM tup_of vs) as [ls| | |] eqn:El; try discriminate.
  cbn [bind] in Ez. injection Ez as <-. exists ls. split; auto.
  unfold znth in Ew. destruct (idx <? 0); [discriminate|]. rewrite nth_res_total in Ew.
  destruct (nth_error _ (Z.to_nat idx)) as [r|] eqn:Er; [|discriminate]. injection Ew as <-.
  now apply (zip_rows_nth (S (fold_right (fun l m => Nat.max (length l) m) O ls)) ls) in Er.
Qed.

(* C09 preservation: A2B and B2A. *)
From CC Require Import Base.Prelude Base.Scalar Base.Ty Base.Shape Graph.Value Graph.IR Graph.Eval
  Graph.Typing Proofs.EvalProofs Proofs.TypingBase.

Lemma prod_list_app a b : prod_list (a ++ b) = prod_list a * prod_list b.
Proof.
  induction a as [|x a IH]; cbn [app prod_list fold_right].
  - change (fold_right Z.mul 1 b) with (prod_list b). lia.
  - change (fold_right Z.mul 1 (a ++ b)) with (prod_list (a ++ b)).
    change (fold_right Z.mul 1 a) with (prod_list a). rewrite IH. ring.
Qed.

Lemma flat_map_length_const {A B} (f : A -> list B) k l :
  (forall x, length (f x) = k) -> length (flat_map f l) = (k * length l)%nat.
Proof. intros H. induction l as [|x l IH]; cbn; [lia|]. rewrite app_length, H, IH. lia. Qed.

Lemma modulus_bit : modulus Bit = 2.
Proof. reflexivity. Qed.

Lemma preserves_a2b : preserves OA2B.
Proof.
  intros ts t vs Hu H HF. inv_infer H. apply zlen_eq in Harity.
  destruct (one_dep _ _ Harity HF) as (v & t0 & -> & -> & Hv & Hok).
  cbn [nth] in H. cbn [eval_node nth nth_res bind].
  apply bind_ok in H as (r & Er & H). apply register_ok in H as [-> _].
  unfold a2b_type_inference in Er.
  destruct (is_leaf t0) eqn:L0; cbn [negb] in Er; [|discriminate].
  destruct (scalar_eqb (st_of t0) Bit); [discriminate|].
  destruct (has_type_leaf v t0 L0 Hv) as (es & -> & Le & _). cbn [arr_of bind safe_typed].
  pose proof (width_pos (st_of t0)) as Hw.
  assert (Lf : Z.of_nat (length (flat_map (bits_lsb (Z.to_nat (width (st_of t0)))) es))
               = prod_list (dims t0) * width (st_of t0)).
  { rewrite (flat_map_length_const _ (Z.to_nat (width (st_of t0)))) by (intros; apply bits_lsb_length). nia. }
  assert (Ff : Forall (fun e => 0 <= e < modulus Bit)
                      (flat_map (bits_lsb (Z.to_nat (width (st_of t0)))) es)).
  { apply Forall_forall. intros b Hb. apply in_flat_map in Hb as (x & _ & Hb).
    pose proof (bits_lsb_are_bits (Z.to_nat (width (st_of t0))) x) as F. rewrite Forall_forall in F.
    specialize (F b Hb). rewrite modulus_bit. lia. }
  destruct t0 as [s0|sh0 s0| | |]; try discriminate; cbn [is_scalar] in Er; inversion Er; subst;
    cbn [st_of dims shape_of] in *; apply has_type_array; (split; [|exact Ff]).
  - rewrite Lf. cbn [prod_list fold_right]. lia.
  - rewrite Lf, prod_list_app. cbn [prod_list fold_right]. lia.
Qed.

(* ------------------------------------------------------------------ B2A *)
Definition chunks (w : nat) : nat -> list Z -> list (list Z) :=
  fix go (fuel : nat) (l : list Z) {struct fuel} : list (list Z) :=
    match fuel with
    | O => []
    | S f => if (length l <? w)%nat then [] else firstn w l :: go f (skipn w l)
    end.
Lemma chunks_S w f l :
  chunks w (S f) l = if (length l <? w)%nat then [] else firstn w l :: chunks w f (skipn w l).
Proof. reflexivity. Qed.

Lemma chunks_spec w : (0 < w)%nat -> forall k fuel l,
  length l = (k * w)%nat -> (k <= fuel)%nat ->
  length (chunks w fuel l) = k /\
  Forall (fun c => length c = w /\ forall x, In x c -> In x l) (chunks w fuel l).
Proof.
  intros Hw. induction k as [|k IH]; intros fuel l L F.
  - destruct fuel; [cbn; auto|]. rewrite chunks_S.
    replace (length l <? w)%nat with true by (symmetry; apply Nat.ltb_lt; lia). auto.
  - destruct fuel as [|fuel]; [lia|]. rewrite chunks_S.
    replace (length l <? w)%nat with false by (symmetry; apply Nat.ltb_ge; nia).
    destruct (IH fuel (skipn w l)) as [L' F']; [rewrite skipn_length; nia| lia|].
    cbn [length]. split; [lia|]. constructor.
    + split; [rewrite firstn_length; nia|]. intros x Hx.
      rewrite <- (firstn_skipn w l). apply in_or_app. now left.
    + eapply Forall_impl; [|exact F']. cbn. intros c [Lc Ic]. split; auto.
      intros x Hx. rewrite <- (firstn_skipn w l). apply in_or_app. right. auto.
Qed.

Lemma from_bits_lsb_range bs : Forall (fun b => 0 <= b < 2) bs ->
  0 <= from_bits_lsb bs < 2 ^ Z.of_nat (length bs).
Proof.
  induction 1 as [|b bs Hb _ IH]; cbn [from_bits_lsb length].
  - cbn. lia.
  - rewrite Nat2Z.inj_succ, Z.pow_succ_r by lia. lia.
Qed.

Lemma last_znth (l : list Z) x : znth l (zlen l - 1) = Ok x -> l <> [] /\ x = last l 0.
Proof.
  unfold znth, zlen. destruct (Z.of_nat (length l) - 1 <? 0) eqn:N; [discriminate|].
  replace (Z.to_nat (Z.of_nat (length l) - 1)) with (length l - 1)%nat by lia.
  destruct l as [|a l]; [cbn in N; lia|]. intros E. split; [discriminate|]. clear N.
  revert a E. induction l as [|b l IH]; intros a E.
  - cbn in E. inversion E. reflexivity.
  - cbn [length] in E. replace (S (S (length l)) - 1)%nat with (S (length (b :: l) - 1)) in E by (cbn; lia).
    cbn [nth_res] in E. change (last (a :: b :: l) 0) with (last (b :: l) 0). now apply IH.
Qed.

Lemma prod_removelast (l : list Z) : l <> [] -> prod_list l = prod_list (removelast l) * last l 0.
Proof.
  intros N. rewrite (app_removelast_last 0 N) at 1. rewrite prod_list_app.
  cbn [prod_list fold_right]. lia.
Qed.

Lemma preserves_b2a st : preserves (OB2A st).
Proof.
  intros ts t vs Hu H HF. inv_infer H. apply zlen_eq in Harity.
  destruct (one_dep _ _ Harity HF) as (v & t0 & -> & -> & Hv & Hok).
  cbn [nth] in H. cbn [eval_node nth nth_res bind].
  apply bind_ok in H as (r & Er & H). apply register_ok in H as [-> Vr].
  unfold b2a_type_inference in Er.
  destruct (ty_valid t0); cbn [negb] in Er; [|discriminate].
  destruct t0 as [|sh0 s0| | |]; try discriminate. cbn [is_arr negb st_of shape_of] in Er.
  destruct (scalar_eqb s0 Bit) eqn:S0; cbn [negb] in Er; [|discriminate].
  apply scalar_eqb_eq in S0. subst s0.
  destruct (scalar_eqb st Bit); [discriminate|].
  apply bind_ok in Er as (l & El & Er).
  destruct (l =? width st) eqn:W; cbn [negb] in Er; [|discriminate].
  apply last_znth in El as [N El]. assert (Hl : last sh0 0 = width st) by lia. clear W El l.
  destruct v as [es|]; [|discriminate]. apply has_type_array in Hv as [Le Fe].
  cbn [arr_of bind safe_typed].
  pose proof (width_pos st) as Hw.
  destruct (ty_ok_array _ _ Hok) as [V0 _].
  rewrite (prod_removelast sh0 N), Hl in Le.
  assert (Vrl : 0 < prod_list (removelast sh0)).
  { pose proof (prod_list_pos sh0 V0) as P. rewrite (prod_removelast sh0 N), Hl in P. nia. }
  set (w := Z.to_nat (width st)).
  set (k := Z.to_nat (prod_list (removelast sh0))).
  change ((fix go (fuel : nat) (l : list Z) {struct fuel} : list (list Z) :=
             match fuel with
             | O => []
             | S f => if (length l <? w)%nat then [] else firstn w l :: go f (skipn w l)
             end) (length es) es) with (chunks w (length es) es).
  destruct (chunks_spec w ltac:(lia) k (length es) es) as [Lc Fc]; [nia| nia|].
  assert (Fr : Forall (fun e => 0 <= e < modulus st) (map from_bits_lsb (chunks w (length es) es))).
  { apply Forall_forall. intros y Hy. apply in_map_iff in Hy as (c & <- & Hc).
    rewrite Forall_forall in Fc. destruct (Fc c Hc) as [Lcw Ic].
    pose proof (from_bits_lsb_range c) as R. rewrite Lcw in R. unfold modulus.
    replace (Z.of_nat w) with (width st) in R by lia. apply R.
    apply Forall_forall. intros b Hb. rewrite Forall_forall in Fe. specialize (Fe b (Ic b Hb)).
    rewrite modulus_bit in Fe. exact Fe. }
  destruct (zlen sh0 =? 1) eqn:L1; inversion Er; subst.
  - apply has_type_scalar. split; [|exact Fr]. rewrite map_length, Lc.
    destruct sh0 as [|a [|b sh0]]; cbn in L1; try (unfold zlen in L1; cbn in L1; lia).
    cbn in k. lia.
  - apply has_type_array. split; [|exact Fr]. rewrite map_length, Lc. lia.
Qed.

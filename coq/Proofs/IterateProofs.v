(* Proofs about Model/Iterate.v (C07): every iterate strategy returns exactly what the reference
   evaluation of Operation::Iterate (evaluators.rs:36-54) returns, for every input length. *)
From CC Require Import Base.Prelude Model.Prefix Model.Iterate Proofs.PrefixProofs.
Local Open Scope nat_scope.

(* for i in 0..len { x = xs[i]; acc = g(acc, x) }  is  fold_left g xs acc *)
Lemma foldM_index_gen {A B} (g : A -> B -> A) (xs : list B) :
  forall suf pre a, xs = pre ++ suf ->
    foldM (fun acc i => let* x := arr_get xs i in Ok (g acc x)) (seq (length pre) (length suf)) a
    = Ok (fold_left g suf a).
Proof.
  induction suf as [|x suf IH]; intros pre a E; [reflexivity|].
  cbn [length seq foldM fold_left].
  assert (G : arr_get xs (length pre) = Ok x).
  { unfold arr_get. subst xs. rewrite nth_error_app2, Nat.sub_diag by lia. reflexivity. }
  rewrite G. cbn [bind].
  specialize (IH (pre ++ [x]) (g a x)). rewrite app_length in IH. cbn [length] in IH.
  replace (length pre + 1) with (S (length pre)) in IH by lia. apply IH.
  subst xs. now rewrite <- app_assoc.
Qed.

Lemma foldM_index {A B} (g : A -> B -> A) (xs : list B) a :
  foldM (fun acc i => let* x := arr_get xs i in Ok (g acc x)) (seq 0 (length xs)) a
  = Ok (fold_left g xs a).
Proof. apply (foldM_index_gen g xs xs [] a). reflexivity. Qed.

Lemma fold_left_snoc_map {A B} (h : A -> B) xs acc :
  fold_left (fun acc x => acc ++ [h x]) xs acc = acc ++ map h xs.
Proof.
  revert acc; induction xs as [|x xs IH]; intros acc; cbn [fold_left map]; [now rewrite app_nil_r|].
  rewrite IH, <- app_assoc. reflexivity.
Qed.

Section Ref.
  Context {Sx I O : Type} (f : Sx -> I -> Sx * O).

  Definition stepS (s : Sx) (x : I) : Sx := fst (f s x).
  (* the reference outputs: output i is computed from the state after i steps *)
  Fixpoint outs_ref (s : Sx) (xs : list I) : list O :=
    match xs with [] => [] | x :: r => snd (f s x) :: outs_ref (stepS s x) r end.

  Lemma iterate_ref_gen xs : forall s acc,
    fold_left (ref_step f) xs (s, acc) = (fold_left stepS xs s, acc ++ outs_ref s xs).
  Proof.
    induction xs as [|x xs IH]; intros s acc; cbn [fold_left outs_ref]; [now rewrite app_nil_r|].
    unfold ref_step at 2. cbn [fst snd]. rewrite IH, <- app_assoc. reflexivity.
  Qed.

  Lemma iterate_ref_char s0 xs : iterate_ref f s0 xs = (fold_left stepS xs s0, outs_ref s0 xs).
  Proof. unfold iterate_ref. now rewrite iterate_ref_gen. Qed.

  Lemma outs_ref_snoc l : forall s x,
    outs_ref s (l ++ [x]) = outs_ref s l ++ [snd (f (fold_left stepS l s) x)].
  Proof. induction l as [|y l IH]; intros s x; cbn [app outs_ref fold_left]; [reflexivity|]. now rewrite IH. Qed.

  (* ---------------------------------------------------------------- simple *)
  Theorem iterate_simple_spec s0 xs : iterate_simple f s0 xs = Ok (iterate_ref f s0 xs).
  Proof. unfold iterate_simple, iterate_ref. apply (foldM_index (ref_step f) xs (s0, [])). Qed.

  (* ---------------------------------------------------------------- empty state *)
  Theorem iterate_empty_state_spec s0 xs :
    (forall a b : Sx, a = b) -> iterate_empty_state f s0 xs = Ok (iterate_ref f s0 xs).
  Proof.
    intros One. unfold iterate_empty_state.
    change (foldM (empty_step f s0 xs)) with
      (foldM (fun acc i => let* x := arr_get xs i in Ok ((fun outs x => outs ++ [snd (f s0 x)]) acc x))).
    rewrite foldM_index. cbn [bind]. rewrite fold_left_snoc_map. cbn [app].
    rewrite iterate_ref_char. f_equal. f_equal; [apply One|].
    generalize s0 at 2. induction xs as [|x xs IH]; intros s; cbn [map outs_ref]; [reflexivity|].
    rewrite (One s s0) at 1. f_equal. apply IH.
  Qed.

  (* ---------------------------------------------------------------- output loops *)
  Lemma out_loop (d : I) s0 xs (step : list O -> nat -> result (list O)) :
    (forall acc i, i < length xs ->
       step acc i = Ok (acc ++ [snd (f (fold_left stepS (firstn i xs) s0) (nth i xs d))])) ->
    foldM step (seq 0 (length xs)) [] = Ok (outs_ref s0 xs).
  Proof.
    intros Hstep.
    destruct (foldM_inv step (fun k acc => acc = outs_ref s0 (firstn k xs)) (seq 0 (length xs)) [])
      as (acc & E & I0).
    - reflexivity.
    - intros k a i Hi ->. apply nth_error_seq in Hi as [-> Hk]. cbn [Nat.add].
      eexists. split; [apply Hstep; auto|].
      rewrite (firstn_snoc xs k d) by auto. now rewrite outs_ref_snoc.
    - rewrite E, I0, seq_length, firstn_all. reflexivity.
  Qed.

  Lemma outs_ref_unit (u : O) : (forall s x, snd (f s x) = u) ->
    forall xs s, outs_ref s xs = repeat u (length xs).
  Proof. intros H xs; induction xs as [|x xs IH]; intros s; cbn [outs_ref length repeat]; [reflexivity|]. now rewrite H, IH. Qed.

  (* ---------------------------------------------------------------- small state *)
  Definition trans (x : I) : Sx -> Sx := fun s => fst (f s x).

  Lemma compose_assoc (a b c : Sx -> Sx) : compose (compose a b) c = compose a (compose b c).
  Proof. reflexivity. Qed.

  Lemma fold_compose_apply ms : forall (m : Sx -> Sx) s,
    fold_left compose ms m s = fold_left (fun st (m' : Sx -> Sx) => m' st) ms (m s).
  Proof. induction ms as [|m' ms IH]; intros m s; cbn [fold_left]; [reflexivity|]. now rewrite IH. Qed.

  Lemma fold_apply_trans l : forall s,
    fold_left (fun st (m' : Sx -> Sx) => m' st) (map trans l) s = fold_left stepS l s.
  Proof. induction l as [|x l IH]; intros s; cbn [map fold_left]; [reflexivity|]. apply IH. Qed.

  (* the combination of the first mappings, applied to the initial state, is the state reached *)
  Lemma fold1_trans_apply l m s0 :
    fold1 compose (map trans l) = Some m -> m s0 = fold_left stepS l s0.
  Proof.
    destruct l as [|x l]; cbn [map fold1]; [discriminate|]. intros E. injection E as <-.
    rewrite fold_compose_apply, fold_apply_trans. reflexivity.
  Qed.

  Theorem iterate_small_state_spec empty_output (unit_out : O) lvl s0 xs :
    (empty_output = true -> forall s x, snd (f s x) = unit_out) ->
    iterate_small_state f empty_output unit_out lvl s0 xs = Ok (iterate_ref f s0 xs).
  Proof.
    intros Hvoid. unfold iterate_small_state. rewrite iterate_ref_char.
    destruct xs as [|x0 xr] eqn:Exs; [reflexivity|]. rewrite <- Exs.
    assert (Hn : length xs <> 0) by (subst xs; cbn [length]; lia).
    replace (length xs =? 0) with false by (symmetry; now apply Nat.eqb_neq).
    change (foldM (mapping_step f xs)) with
      (foldM (fun acc i => let* x := arr_get xs i in Ok ((fun a x => a ++ [trans x]) acc x))).
    rewrite foldM_index. cbn [bind]. rewrite fold_left_snoc_map. cbn [app].
    set (maps := map trans xs).
    assert (Lm : length maps = length xs) by (unfold maps; apply map_length).
    destruct empty_output.
    - rewrite (log_depth_sum_total compose compose_assoc).
      assert (F : fold1 compose maps = Some (match maps with [] => trans x0 | m :: r => fold_left compose r m end)).
      { unfold maps. subst xs. reflexivity. }
      destruct maps as [|m r] eqn:Em; [cbn [length] in Lm; lia|]. cbn [bind].
      rewrite <- Em in F. unfold maps in F. rewrite (fold1_trans_apply xs _ s0 F).
      now rewrite (outs_ref_unit unit_out (Hvoid eq_refl)).
    - destruct (pick_spec compose compose_assoc (length xs) lvl maps) as (ps & -> & Lp & Ip).
      cbn [bind]. rewrite Lm in Lp, Ip.
      assert (St : forall i, i < length xs -> exists m, nth_error ps i = Some m /\
                                                        m s0 = fold_left stepS (firstn (S i) xs) s0).
      { intros i Hi. specialize (Ip i Hi). unfold maps in Ip. rewrite firstn_map in Ip.
        destruct (nth_error ps i) as [m|] eqn:En.
        - exists m. split; auto. apply fold1_trans_apply. now rewrite <- Ip.
        - exfalso. apply nth_error_None in En. lia. }
      rewrite (out_loop x0 s0 xs).
      + cbn [bind]. destruct (St (length ps - 1)) as (m & Em & Hm); [lia|].
        unfold arr_get. rewrite Em. cbn [bind]. rewrite Hm.
        replace (S (length ps - 1)) with (length xs) by lia. now rewrite firstn_all.
      + intros acc i Hi. unfold small_out_step. rewrite (arr_get_ok xs i x0) by auto.
        destruct i as [|i]; cbn [Nat.eqb].
        * reflexivity.
        * destruct (St i) as (m & Em & Hm); [lia|]. unfold arr_get.
          replace (S i - 1) with i by lia. rewrite Em. cbn [bind]. now rewrite Hm.
  Qed.
End Ref.

(* ------------------------------------------------------------------ associative *)
Section Assoc.
  Context {Sx O : Type} (f : Sx -> Sx -> Sx * O).
  (* the contract of GraphAnnotation::AssociativeOperation, on states *)
  Hypothesis comb_assoc : forall a b c,
    state_comb f (state_comb f a b) c = state_comb f a (state_comb f b c).

  Theorem iterate_associative_spec empty_output (unit_out : O) lvl s0 xs :
    (empty_output = true -> forall s x, snd (f s x) = unit_out) ->
    iterate_associative f empty_output unit_out lvl s0 xs = Ok (iterate_ref f s0 xs).
  Proof.
    intros Hvoid. unfold iterate_associative. rewrite iterate_ref_char.
    destruct xs as [|x0 xr] eqn:Exs; [reflexivity|]. rewrite <- Exs.
    assert (Hn : length xs <> 0) by (subst xs; cbn [length]; lia).
    replace (length xs =? 0) with false by (symmetry; now apply Nat.eqb_neq).
    change (foldM (inputs_step xs)) with
      (foldM (fun acc i => let* x := arr_get xs i in Ok ((fun a x => a ++ [(fun y : Sx => y) x]) acc x))).
    rewrite foldM_index. cbn [bind]. rewrite fold_left_snoc_map, map_id. cbn [app].
    change (state_comb f) with (stepS f) in *.
    destruct empty_output.
    - rewrite (log_depth_sum_total (stepS f) comb_assoc). cbn [bind].
      now rewrite (outs_ref_unit f unit_out (Hvoid eq_refl)).
    - destruct (pick_spec (stepS f) comb_assoc (length xs) lvl (s0 :: xs)) as (ps & -> & Lp & Ip).
      cbn [bind]. cbn [length] in Lp, Ip.
      assert (St : forall i, i <= length xs ->
                   nth_error ps i = Some (fold_left (stepS f) (firstn i xs) s0)).
      { intros i Hi. rewrite Ip by lia. reflexivity. }
      rewrite (out_loop f x0 s0 xs).
      + cbn [bind]. unfold arr_get. rewrite St by lia. cbn [bind].
        replace (length ps - 1) with (length xs) by lia. now rewrite firstn_all.
      + intros acc i Hi. unfold assoc_out_step, arr_get. rewrite St by lia. cbn [bind].
        replace (i + 1) with (S i) by lia. cbn [nth_error].
        rewrite (nth_error_nth' xs x0) by auto. reflexivity.
  Qed.
End Assoc.

(* ------------------------------------------------------------------ encodings of mappings *)
(* any representation of mappings that respects composition and application can replace the
   transition functions in the prefix computations *)
Theorem encoding_sufficient {Sx M : Type} (encode : (Sx -> Sx) -> M) (mul : M -> M -> M)
        (extract : M -> Sx -> Sx) :
  (forall g h, mul (encode g) (encode h) = encode (compose g h)) ->
  (forall g s, extract (encode g) s = g s) ->
  forall (ms : list (Sx -> Sx)) m s, fold1 compose ms = Some m ->
    exists e, fold1 mul (map encode ms) = Some e /\ extract e s = m s.
Proof.
  intros Hmul Hext ms m s. destruct ms as [|m0 r]; cbn [fold1 map]; [discriminate|].
  intros E. injection E as <-. eexists. split; [reflexivity|].
  enough (G : forall r m0, fold_left mul (map encode r) (encode m0) = encode (fold_left compose r m0))
    by (rewrite G; apply Hext).
  clear - Hmul. induction r as [|x r IH]; intros m0; cbn [map fold_left]; [reflexivity|].
  rewrite Hmul. apply IH.
Qed.

(* the single-bit encoding of exponential_inliner.rs:227-262 satisfies both laws *)
Lemma combine1_encode1 g h : combine1 (encode1 g) (encode1 h) = encode1 (compose g h).
Proof.
  unfold combine1, encode1, compose. cbn [fst snd].
  destruct (g false), (g true), (h false), (h true); reflexivity.
Qed.
Lemma extract1_encode1 g s : extract1 (encode1 g) s = g s.
Proof. unfold extract1, encode1. cbn [fst snd]. destruct s, (g false), (g true); reflexivity. Qed.

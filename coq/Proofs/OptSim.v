(* Simulation of an old node list by a new one along an old->new node map; tapes transported
   along the map; input signatures. Generic in the node semantics. *)
From CC Require Import Base.Prelude Base.Scalar Base.Ty Base.Shape Graph.Value Graph.IR Graph.Eval
  Model.Opt Model.Uniquify Proofs.OptBase Proofs.OptSem.

(* old node i and new node j carry the same value and the same type *)
Definition rel (nodes out : list node) (vals vals' : list value) (i : nat) (j : Z) : Prop :=
  0 <= j /\
  (exists v, nth_error vals i = Some v /\ nth_error vals' (Z.to_nat j) = Some v) /\
  (exists nd nd', nth_error nodes i = Some nd /\ nth_error out (Z.to_nat j) = Some nd' /\ n_ty nd' = n_ty nd).

Definition sim (nodes out : list node) (vals vals' : list value) (m : list (option Z)) : Prop :=
  forall i j, nth_error m i = Some (Some j) -> rel nodes out vals vals' i j.

Lemma rel_app nodes out o2 vals vals' v2 i j :
  rel nodes out vals vals' i j -> rel nodes (out ++ o2) vals (vals' ++ v2) i j.
Proof.
  intros (J & (v & V1 & V2) & (nd & nd' & N1 & N2 & N3)). split; auto. split.
  - exists v; split; auto. now apply nth_error_app1'.
  - exists nd, nd'; repeat split; auto. now apply nth_error_app1'.
Qed.

Lemma sim_nil nodes out vals vals' : sim nodes out vals vals' [].
Proof. intros [|i] j H; discriminate. Qed.

Lemma sim_app nodes out o2 vals vals' v2 m :
  sim nodes out vals vals' m -> sim nodes (out ++ o2) vals (vals' ++ v2) m.
Proof. intros H i j E. apply rel_app; auto. Qed.

Lemma sim_snoc nodes out vals vals' m x :
  sim nodes out vals vals' m -> (forall j, x = Some j -> rel nodes out vals vals' (length m) j) ->
  sim nodes out vals vals' (m ++ [x]).
Proof.
  intros H Hx i j E. apply nth_error_snoc_inv in E as [(L & E)|(-> & E)]; auto.
Qed.

(* mapped dependencies read the same values and types in the new graph *)
Lemma deps_vals nodes out vals vals' m i deps deps' vs :
  sim nodes out vals vals' m ->
  mapM (map_get m) deps = Ok deps' ->
  mapM (dep_get vals i) deps = Ok vs ->
  mapM (dep_get vals' (length vals')) deps' = Ok vs.
Proof.
  intros S M V. apply mapM_Forall2 in M, V. apply mapM_Forall2.
  eapply Forall2_compose; eauto. cbn. intros d d' v _ Hd Hv.
  apply map_get_ok in Hd as (D0 & Hd). apply dep_get_ok in Hv as (_ & Hv).
  apply S in Hd as (J & (v0 & V1 & V2) & _). apply dep_get_ok.
  assert (v0 = v) by congruence. subst v0. split; auto.
  apply nth_error_Some_lt in V2. lia.
Qed.

Lemma deps_tys nodes out vals vals' m i deps deps' dts :
  sim nodes out vals vals' m ->
  mapM (map_get m) deps = Ok deps' ->
  mapM (dep_get (map n_ty nodes) i) deps = Ok dts ->
  mapM (dep_get (map n_ty out) (length out)) deps' = Ok dts.
Proof.
  intros S M V. apply mapM_Forall2 in M, V. apply mapM_Forall2.
  eapply Forall2_compose; eauto. cbn. intros d d' t _ Hd Ht.
  apply map_get_ok in Hd as (D0 & Hd). apply dep_get_ok in Ht as (_ & Ht).
  apply S in Hd as (J & _ & (nd & nd' & N1 & N2 & N3)). apply dep_get_ok.
  rewrite (map_nth_error n_ty _ _ N1) in Ht. injection Ht as <-.
  split; [apply nth_error_Some_lt in N2; lia|].
  rewrite (map_nth_error n_ty _ _ N2). congruence.
Qed.

Section Sim.
  Variable sem : op -> list ty -> ty -> list value -> result value.
  Variable ft : op -> bool.

  (* the new tape gives every image of a tape node the entry of that node *)
  Definition tape_compat (nodes : list node) (m : list (option Z)) (tape tape' : Z -> option value) : Prop :=
    forall i nd j, nth_error nodes i = Some nd -> ft (n_op nd) = true ->
                   nth_error m i = Some (Some j) -> tape' j = tape (Z.of_nat i).

  Lemma tape_compat_prefix nodes m m' tape tape' :
    tape_compat nodes (m ++ m') tape tape' -> tape_compat nodes m tape tape'.
  Proof. intros H i nd j E F G. eapply H; eauto. now apply nth_error_app1'. Qed.

  (* a node copied with mapped dependencies has the value of the original *)
  Lemma copy_node_sem nodes out vals vals' m tape tape' i nd v deps' g a :
    node_sem sem ft (map n_ty nodes) vals tape i nd v ->
    sim nodes out vals vals' m ->
    length vals' = length out ->
    mapM (map_get m) (n_deps nd) = Ok deps' ->
    (ft (n_op nd) = true -> tape' (Z.of_nat (length out)) = tape (Z.of_nat i)) ->
    node_sem sem ft (map n_ty out) vals' tape' (length out) (mkNode (n_op nd) deps' g a (n_ty nd)) v.
  Proof.
    unfold node_sem. cbn [n_op n_deps n_ty]. intros N S L M T.
    destruct (ft (n_op nd)); [rewrite T; auto|].
    destruct N as (vs & dts & A1 & A2 & A3). exists vs, dts. repeat split; auto.
    - rewrite <- L. eapply deps_vals; eauto.
    - eapply deps_tys; eauto.
  Qed.

  (* tape nodes are the first node mapped to their image *)
  Definition ft_first (nodes : list node) (m : list (option Z)) : Prop :=
    forall i nd j, nth_error nodes i = Some nd -> ft (n_op nd) = true ->
                   nth_error m i = Some (Some j) ->
                   forall i', (i' < i)%nat -> nth_error m i' <> Some (Some j).
End Sim.

(* tape' j = tape i for the first old node i mapped to j *)
Fixpoint first_pre (m : list (option Z)) (j : Z) (i : Z) : option Z :=
  match m with
  | [] => None
  | x :: r => if eqb x (Some j) then Some i else first_pre r j (i + 1)
  end.
Definition transport (m : list (option Z)) (tape : Z -> option value) : Z -> option value :=
  fun j => match first_pre m j 0 with Some i => tape i | None => None end.

Lemma first_pre_spec m : forall j i k,
  nth_error m i = Some (Some j) -> (forall i', (i' < i)%nat -> nth_error m i' <> Some (Some j)) ->
  first_pre m j k = Some (k + Z.of_nat i).
Proof.
  induction m as [|x m IH]; intros j i k E F; [destruct i; discriminate|].
  cbn [first_pre]. destruct i as [|i].
  - cbn in E. injection E as ->. cbn. unfold eqb, Eqb_Z. replace (j =? j) with true by lia. f_equal; lia.
  - cbn in E. destruct (eqb x (Some j)) eqn:X.
    + apply option_Z_eqb_eq in X. subst x. exfalso. apply (F O); [lia|reflexivity].
    + rewrite (IH j i (k + 1)); auto; [f_equal; lia|].
      intros i' L. apply (F (S i')). lia.
Qed.

Lemma transport_compat ft nodes m tape : ft_first ft nodes m -> tape_compat ft nodes m tape (transport m tape).
Proof.
  intros H i nd j E F G. unfold transport.
  rewrite (first_pre_spec m j i 0 G); [f_equal|]. eapply H; eauto.
Qed.

(* ------------------------------------------------------------------ interface: input nodes *)
Definition input_sigs (nodes : list node) : list (op * list annot * ty) :=
  map (fun nd => (n_op nd, n_annots nd, n_ty nd)) (filter (fun nd => is_input (n_op nd)) nodes).

Lemma input_sigs_app a b : input_sigs (a ++ b) = input_sigs a ++ input_sigs b.
Proof. unfold input_sigs. now rewrite filter_app, map_app. Qed.

Lemma input_sigs_non a : Forall (fun nd => is_input (n_op nd) = false) a -> input_sigs a = [].
Proof.
  induction 1 as [|x a Hx _ IH]; auto. unfold input_sigs in *. cbn [filter]. now rewrite Hx.
Qed.

(* Proofs about Model/Sort.v (C18), part 3: integer keys map to order-preserving bit strings. *)
From CC Require Import Base.Prelude Base.Scalar Model.Sort Proofs.SortProofs.

Lemma bits_lsb_length w x : length (bits_lsb w x) = w.
Proof. revert x; induction w; intros; simpl; auto. Qed.

Lemma bits_lsb_range w x : Forall (fun b => 0 <= b < 2) (bits_lsb w x).
Proof. revert x; induction w; intros; simpl; constructor; auto. lia. Qed.

Lemma lex_cmp_single a b : lex_cmp [a] [b] = (a ?= b).
Proof. simpl. destruct (a ?= b); reflexivity. Qed.

Lemma cmp_div2 a b :
  match a / 2 ?= b / 2 with Eq => a mod 2 ?= b mod 2 | c => c end = (a ?= b).
Proof.
  destruct (Z.compare_spec (a / 2) (b / 2)) as [E|L|G].
  - destruct (Z.compare_spec (a mod 2) (b mod 2)); symmetry;
      [apply Z.compare_eq_iff | apply Z.compare_lt_iff | apply Z.compare_gt_iff]; lia.
  - symmetry. apply Z.compare_lt_iff. lia.
  - symmetry. apply Z.compare_gt_iff. lia.
Qed.

(* unsigned: MSB-first bit strings compare like the numbers *)
Lemma rev_bits_cmp w a b :
  lex_cmp (rev (bits_lsb w a)) (rev (bits_lsb w b))
  = (a mod 2 ^ Z.of_nat w ?= b mod 2 ^ Z.of_nat w).
Proof.
  revert a b; induction w as [|w IH]; intros a b.
  - simpl. now rewrite !Z.mod_1_r.
  - cbn [bits_lsb rev]. rewrite lex_cmp_app by (now rewrite !rev_length, !bits_lsb_length).
    rewrite IH, lex_cmp_single.
    rewrite Nat2Z.inj_succ, Z.pow_succ_r by lia.
    assert (P : 0 < 2 ^ Z.of_nat w) by (apply Z.pow_pos_nonneg; lia).
    rewrite (Z.rem_mul_r a 2 (2 ^ Z.of_nat w)), (Z.rem_mul_r b 2 (2 ^ Z.of_nat w)) by lia.
    set (qa := (a / 2) mod 2 ^ Z.of_nat w). set (qb := (b / 2) mod 2 ^ Z.of_nat w).
    rewrite <- (cmp_div2 (a mod 2 + 2 * qa) (b mod 2 + 2 * qb)).
    replace ((a mod 2 + 2 * qa) / 2) with qa by lia.
    replace ((b mod 2 + 2 * qb) / 2) with qb by lia.
    replace ((a mod 2 + 2 * qa) mod 2) with (a mod 2) by lia.
    replace ((b mod 2 + 2 * qb) mod 2) with (b mod 2) by lia.
    reflexivity.
Qed.

Lemma bits_lsb_snoc w v : bits_lsb (S w) v = bits_lsb w v ++ [(v / 2 ^ Z.of_nat w) mod 2].
Proof.
  revert v; induction w as [|w IH]; intros v.
  - simpl. now rewrite Z.div_1_r.
  - change (bits_lsb (S (S w)) v) with (v mod 2 :: bits_lsb (S w) (v / 2)).
    rewrite IH. cbn [bits_lsb app]. f_equal. f_equal. f_equal. f_equal.
    rewrite Nat2Z.inj_succ, Z.pow_succ_r by lia.
    assert (0 < 2 ^ Z.of_nat w) by (apply Z.pow_pos_nonneg; lia).
    rewrite Z.div_div by lia. reflexivity.
Qed.

Lemma flip_msb_snoc l m :
  Forall (fun b => 0 <= b < 2) l -> flip_msb (l ++ [m]) = l ++ [(m + 1) mod 2].
Proof.
  intros H. unfold flip_msb. rewrite app_length. cbn [length].
  replace (length l + 1 - 1)%nat with (length l) by lia.
  induction H as [|b l Hb Hl IH]; simpl; auto.
  rewrite IH. f_equal. rewrite Z.add_0_r. apply Z.mod_small. lia.
Qed.

(* signed: after flipping the MSB the strings compare like the two's-complement values *)
Lemma signed_key_cmp w' va vb :
  let h := 2 ^ Z.of_nat w' in
  0 <= va < 2 * h -> 0 <= vb < 2 * h ->
  lex_cmp (rev (flip_msb (bits_lsb (S w') va))) (rev (flip_msb (bits_lsb (S w') vb)))
  = ((if h <=? va then va - 2 * h else va) ?= (if h <=? vb then vb - 2 * h else vb)).
Proof.
  intros h Ha Hb. assert (P : 0 < h) by (apply Z.pow_pos_nonneg; lia).
  rewrite !bits_lsb_snoc, !flip_msb_snoc by apply bits_lsb_range.
  rewrite !rev_app_distr. cbn [rev app]. cbn [lex_cmp]. rewrite rev_bits_cmp. fold h.
  assert (Da : va = h * (va / h) + va mod h) by (apply Z.div_mod; lia).
  assert (Db : vb = h * (vb / h) + vb mod h) by (apply Z.div_mod; lia).
  pose proof (Z.mod_pos_bound va h P) as Ra. pose proof (Z.mod_pos_bound vb h P) as Rb.
  set (la := va mod h) in *. set (lb := vb mod h) in *.
  set (ma := va / h) in *. set (mb := vb / h) in *.
  assert (Ma : ma = 0 \/ ma = 1) by nia. assert (Mb : mb = 0 \/ mb = 1) by nia.
  destruct Ma as [Ma|Ma], Mb as [Mb|Mb]; rewrite Ma, Mb in *;
    change ((0 + 1) mod 2) with 1; change ((1 + 1) mod 2) with 0;
    change (1 ?= 1) with Eq; change (0 ?= 0) with Eq; change (1 ?= 0) with Gt; change (0 ?= 1) with Lt;
    destruct (h <=? va) eqn:Ea; destruct (h <=? vb) eqn:Eb; try lia;
    destruct (Z.compare_spec la lb); symmetry;
    first [apply Z.compare_eq_iff; lia | apply Z.compare_lt_iff; lia | apply Z.compare_gt_iff; lia].
Qed.

Lemma intkey_generic st w' x y :
  st <> Bit -> wnat st = S w' ->
  lex_cmp (integer_to_bits st x) (integer_to_bits st y) = (sval st x ?= sval st y).
Proof.
  intros Hst Hw.
  assert (Ew : width st = Z.of_nat (S w')).
  { rewrite <- Hw. unfold wnat. rewrite Z2Nat.id; auto. pose proof (width_pos st); lia. }
  assert (E1 : width st - 1 = Z.of_nat w') by lia.
  pose proof (norm_range st x) as Rx. pose proof (norm_range st y) as Ry.
  unfold sval. unfold modulus in *. rewrite E1, Ew in *.
  rewrite Nat2Z.inj_succ, Z.pow_succ_r in * by lia.
  set (vx := norm st x) in *. set (vy := norm st y) in *.
  assert (Hk : integer_to_bits st x =
               rev (if signed st then flip_msb (bits_lsb (S w') vx) else bits_lsb (S w') vx)).
  { unfold integer_to_bits. rewrite Hw. destruct st; try congruence; reflexivity. }
  assert (Hk' : integer_to_bits st y =
               rev (if signed st then flip_msb (bits_lsb (S w') vy) else bits_lsb (S w') vy)).
  { unfold integer_to_bits. rewrite Hw. destruct st; try congruence; reflexivity. }
  rewrite Hk, Hk'. destruct (signed st); cbn [andb].
  - apply (signed_key_cmp w' vx vy); auto.
  - rewrite rev_bits_cmp. rewrite Nat2Z.inj_succ, Z.pow_succ_r by lia.
    rewrite !Z.mod_small by lia. reflexivity.
Qed.

(* C18: numeric order of integer keys (two's complement for signed types) = lexicographic
   order of the bit strings the sort runs on; as an equation between comparisons it covers
   <, = and > at once *)
Theorem intkey_monotone st x y :
  lex_cmp (integer_to_bits st x) (integer_to_bits st y) = (sval st x ?= sval st y).
Proof.
  destruct st;
    [ | apply (intkey_generic _ 7%nat) | apply (intkey_generic _ 7%nat)
      | apply (intkey_generic _ 15%nat) | apply (intkey_generic _ 15%nat)
      | apply (intkey_generic _ 31%nat) | apply (intkey_generic _ 31%nat)
      | apply (intkey_generic _ 63%nat) | apply (intkey_generic _ 63%nat)
      | apply (intkey_generic _ 127%nat) | apply (intkey_generic _ 127%nat) ];
    try congruence; try reflexivity.
  unfold integer_to_bits, sval, norm, modulus. cbn [signed width andb].
  rewrite lex_cmp_single. change (2 ^ 1) with 2. reflexivity.
Qed.

Lemma integer_to_bits_length st x : length (integer_to_bits st x) = key_width st.
Proof.
  destruct st; try reflexivity;
    unfold integer_to_bits; rewrite rev_length;
    cbn [signed]; unfold flip_msb; try rewrite map_length, combine_length, app_length, repeat_length;
    rewrite ?bits_lsb_length; cbn [length key_width]; lia.
Qed.

(* C08 proofs about Model/Instantiate.v *)
From CC Require Import Base.Prelude Base.Scalar Base.Ty Model.Instantiate.

(* ---------------------------------------------------------------- generic facts *)
Lemma bind_ok {A B} (r : result A) (f : A -> result B) b :
  bind r f = Ok b -> exists a, r = Ok a /\ f a = Ok b.
Proof. destruct r; simpl; intros H; try discriminate. eauto. Qed.

Lemma mapM_Forall2 {A B} (f : A -> result B) l l' :
  mapM f l = Ok l' -> Forall2 (fun x y => f x = Ok y) l l'.
Proof.
  revert l'; induction l as [|x xs IH]; simpl; intros l' H.
  - inversion H; constructor.
  - apply bind_ok in H as (y & Hy & H). apply bind_ok in H as (ys & Hys & H).
    inversion H; subst. constructor; auto.
Qed.

Lemma Forall2_mapM {A B} (f : A -> result B) l l' :
  Forall2 (fun x y => f x = Ok y) l l' -> mapM f l = Ok l'.
Proof. induction 1; simpl; [reflexivity|]. rewrite H, IHForall2. reflexivity. Qed.

Lemma mapM_ext_in {A B} (f g : A -> result B) l :
  (forall x, In x l -> f x = g x) -> mapM f l = mapM g l.
Proof.
  induction l as [|x xs IH]; simpl; intros H; [reflexivity|].
  rewrite H by auto. rewrite IH by auto. reflexivity.
Qed.

Definition foldM {S X} (F : S -> X -> result S) (l : list X) (r : result S) : result S :=
  fold_left (fun acc x => let* s := acc in F s x) l r.

Lemma foldM_notok {S X} (F : S -> X -> result S) l r :
  (forall s, r <> Ok s) -> foldM F l r = r.
Proof.
  unfold foldM. induction l as [|x xs IH]; simpl; intros H; [reflexivity|].
  destruct r; simpl; try (apply IH; intros; discriminate). exfalso; eapply H; eauto.
Qed.

Lemma foldM_ok_inv {S X} (F : S -> X -> result S) (P : S -> Prop) l :
  forall s0 s', foldM F l (Ok s0) = Ok s' ->
  P s0 -> (forall x s s1, In x l -> P s -> F s x = Ok s1 -> P s1) -> P s'.
Proof.
  unfold foldM. induction l as [|x xs IH]; simpl; intros s0 s' H HP Hstep.
  - inversion H; subst; auto.
  - destruct (F s0 x) eqn:E.
    + eapply IH; eauto.
    + change (foldM F xs Err = Ok s') in H. rewrite foldM_notok in H by (intros; discriminate). discriminate.
    + change (foldM F xs Panic = Ok s') in H. rewrite foldM_notok in H by (intros; discriminate). discriminate.
    + change (foldM F xs OutOfFuel = Ok s') in H. rewrite foldM_notok in H by (intros; discriminate). discriminate.
Qed.

Lemma foldM_app {S X} (F : S -> X -> result S) l1 l2 r :
  foldM F (l1 ++ l2) r = foldM F l2 (foldM F l1 r).
Proof. unfold foldM. apply fold_left_app. Qed.

(* ---------------------------------------------------------------- equality tests *)
Lemma string_eqb_eq a b : String.eqb a b = true <-> a = b.
Proof. apply String.eqb_eq. Qed.

Lemma ty_eqb_eq : forall a b, ty_eqb a b = true <-> a = b.
Proof.
  induction a as [s|sh s|n t IH|ts IH|fs IH] using ty_ind'; intros b; destruct b; simpl;
    try (split; intros H; discriminate).
  - rewrite scalar_eqb_eq. split; intros H; [subst|inversion H]; reflexivity.
  - rewrite andb_true_iff, scalar_eqb_eq. split.
    + intros [H1 H2]. apply list_eqb_eq in H1; [subst; reflexivity|]. intros x y; apply Z.eqb_eq.
    + intros H; inversion H; subst. split; [|reflexivity]. apply list_eqb_refl. intros; apply Z.eqb_refl.
  - rewrite andb_true_iff, Z.eqb_eq, IH. split; [intros [-> ->]; reflexivity|intros H; inversion H; auto].
  - revert ts0. induction IH as [|x xs Hx Hxs IHl]; intros [|y ys]; try (split; intros H; discriminate || reflexivity).
    rewrite andb_true_iff, Hx, IHl. split.
    + intros [-> H]. inversion H; reflexivity.
    + intros H; inversion H; subst. split; reflexivity.
  - revert fs0. induction IH as [|x xs Hx Hxs IHl]; intros [|y ys]; try (split; intros H; discriminate || reflexivity).
    rewrite !andb_true_iff, string_eqb_eq, Hx, IHl. destruct x as [x1 x2], y as [y1 y2]; simpl. split.
    + intros [[-> ->] H]. inversion H; reflexivity.
    + intros H; inversion H; subst. repeat split; reflexivity.
Qed.

Lemma list_ty_eqb_eq a b : list_eqb ty_eqb a b = true <-> a = b.
Proof.
  split.
  - apply list_eqb_eq. intros x y; apply ty_eqb_eq.
  - intros ->. apply list_eqb_refl. intros x; apply ty_eqb_eq; reflexivity.
Qed.

(* C08 proofs about Model/Instantiate.v *)
From CC Require Import Base.Prelude Base.Scalar Base.Ty Model.Instantiate.

(* ---------------------------------------------------------------- generic facts *)
Lemma bind_ok {A B} (r : result A) (f : A -> result B) b :
  bind r f = Ok b -> exists a, r = Ok a /\ f a = Ok b.
Proof. destruct r; simpl; intros H; try discriminate. eauto. Qed.

Lemma mapM_Forall2 {A B} (f : A -> result B) l l' :
  mapM f l = Ok l' -> Forall2 (fun x y => f x = Ok y) l l'.
Proof.
  revert l'; induction l as [|x xs IH]; simpl; intros l' H.
  - inversion H; constructor.
  - apply bind_ok in H as (y & Hy & H). apply bind_ok in H as (ys & Hys & H).
    inversion H; subst. constructor; auto.
Qed.

Lemma Forall2_mapM {A B} (f : A -> result B) l l' :
  Forall2 (fun x y => f x = Ok y) l l' -> mapM f l = Ok l'.
Proof. induction 1; simpl; [reflexivity|]. rewrite H, IHForall2. reflexivity. Qed.

Lemma mapM_ext_in {A B} (f g : A -> result B) l :
  (forall x, In x l -> f x = g x) -> mapM f l = mapM g l.
Proof.
  induction l as [|x xs IH]; simpl; intros H; [reflexivity|].
  rewrite H by auto. rewrite IH by auto. reflexivity.
Qed.

Definition foldM {S X} (F : S -> X -> result S) (l : list X) (r : result S) : result S :=
  fold_left (fun acc x => let* s := acc in F s x) l r.

Lemma foldM_notok {S X} (F : S -> X -> result S) l r :
  (forall s, r <> Ok s) -> foldM F l r = r.
Proof.
  unfold foldM. induction l as [|x xs IH]; simpl; intros H; [reflexivity|].
  destruct r; simpl; try (apply IH; intros; discriminate). exfalso; eapply H; eauto.
Qed.

Lemma foldM_ok_inv {S X} (F : S -> X -> result S) (P : S -> Prop) l :
  forall s0 s', foldM F l (Ok s0) = Ok s' ->
  P s0 -> (forall x s s1, In x l -> P s -> F s x = Ok s1 -> P s1) -> P s'.
Proof.
  unfold foldM. induction l as [|x xs IH]; simpl; intros s0 s' H HP Hstep.
  - inversion H; subst; auto.
  - destruct (F s0 x) eqn:E.
    + eapply IH; eauto.
    + change (foldM F xs Err = Ok s') in H. rewrite foldM_notok in H by (intros; discriminate). discriminate.
    + change (foldM F xs Panic = Ok s') in H. rewrite foldM_notok in H by (intros; discriminate). discriminate.
    + change (foldM F xs OutOfFuel = Ok s') in H. rewrite foldM_notok in H by (intros; discriminate). discriminate.
Qed.

Lemma foldM_app {S X} (F : S -> X -> result S) l1 l2 r :
  foldM F (l1 ++ l2) r = foldM F l2 (foldM F l1 r).
Proof. unfold foldM. apply fold_left_app. Qed.

(* ---------------------------------------------------------------- equality tests *)
Lemma string_eqb_eq a b : String.eqb a b = true <-> a = b.
Proof. apply String.eqb_eq. Qed.

Lemma ty_eqb_eq : forall a b, ty_eqb a b = true <-> a = b.
Proof.
  induction a as [s|sh s|n t IH|ts IH|fs IH] using ty_ind'; intros b; destruct b; simpl;
    try (split; intros H; discriminate).
  - rewrite scalar_eqb_eq. split; intros H; [subst|inversion H]; reflexivity.
  - rewrite andb_true_iff, scalar_eqb_eq. split.
    + intros [H1 H2]. apply list_eqb_eq in H1; [subst; reflexivity|]. intros x y; apply Z.eqb_eq.
    + intros H; inversion H; subst. split; [|reflexivity]. apply list_eqb_refl. intros; apply Z.eqb_refl.
  - rewrite andb_true_iff, Z.eqb_eq, IH. split; [intros [-> ->]; reflexivity|intros H; inversion H; auto].
  - revert ts0. induction IH as [|x xs Hx Hxs IHl]; intros [|y ys]; try (split; intros H; discriminate || reflexivity).
    rewrite andb_true_iff, Hx, IHl. split.
    + intros [-> H]. inversion H; reflexivity.
    + intros H; inversion H; subst. split; reflexivity.
  - revert fs0. induction IH as [|x xs Hx Hxs IHl]; intros [|y ys]; try (split; intros H; discriminate || reflexivity).
    rewrite !andb_true_iff, string_eqb_eq, Hx, IHl. destruct x as [x1 x2], y as [y1 y2]; simpl. split.
    + intros [[-> ->] H]. inversion H; reflexivity.
    + intros H; inversion H; subst. repeat split; reflexivity.
Qed.

Lemma list_ty_eqb_eq a b : list_eqb ty_eqb a b = true <-> a = b.
Proof.
  split.
  - apply list_eqb_eq. intros x y; apply ty_eqb_eq.
  - intros ->. apply list_eqb_refl. intros x; apply ty_eqb_eq; reflexivity.
Qed.

Lemma NoDup_snoc {A} (l : list A) x : NoDup l -> ~ In x l -> NoDup (l ++ [x]).
Proof.
  induction 1 as [|y l Hy Hl IH]; simpl; intros Hx.
  - constructor; [intros []|constructor].
  - constructor.
    + rewrite in_app_iff. intros [H|[H|[]]]; [auto|subst; apply Hx; left; reflexivity].
    + apply IH. intros H; apply Hx; right; exact H.
Qed.

Lemma NoDup_map_inj_in {A B} (f : A -> B) l a b :
  NoDup (map f l) -> In a l -> In b l -> f a = f b -> a = b.
Proof.
  induction l as [|x xs IH]; simpl; intros Hnd Ha Hb E; [contradiction|].
  inversion Hnd as [|? ? Hx Hxs]; subst.
  destruct Ha as [->|Ha], Hb as [->|Hb]; auto.
  - exfalso. apply Hx. rewrite E. apply in_map; exact Hb.
  - exfalso. apply Hx. rewrite <- E. apply in_map; exact Ha.
Qed.

Lemma existsb_streqb_false x l : existsb (String.eqb x) l = false -> ~ In x l.
Proof.
  intros H Hin. assert (existsb (String.eqb x) l = true) as E.
  { apply existsb_exists. exists x; split; [exact Hin|apply String.eqb_refl]. }
  congruence.
Qed.

Lemma nth_error_Forall2 {A B} (R : A -> B -> Prop) l l' i :
  Forall2 R l l' ->
  match nth_error l i, nth_error l' i with
  | Some a, Some b => R a b
  | None, None => True
  | _, _ => False
  end.
Proof.
  intros H; revert i; induction H; intros [|i]; simpl; auto. apply IHForall2.
Qed.

Lemma Forall2_len {A B} (R : A -> B -> Prop) l l' : Forall2 R l l' -> length l = length l'.
Proof. induction 1; simpl; congruence. Qed.

(* ================================================================ the pass *)
Section PassProofs.
  Context {opid prim : Type}.
  Variable opid_eqb : opid -> opid -> bool.
  Hypothesis opid_eqb_spec : forall a b, opid_eqb a b = true <-> a = b.
  Variable inst : opid -> list ty -> result (ctx opid prim).
  Variable name : opid -> string.

  Notation node := (node opid prim).
  Notation graph := (graph opid prim).
  Notation ctx := (ctx opid prim).
  Notation rgraph := (rgraph opid prim).
  Notation key := (@key opid).
  Notation key_eqb := (key_eqb opid_eqb).
  Notation key_name := (key_name name).
  Notation lookup := (lookup opid_eqb).
  Notation glue_node := (@glue_node opid prim opid_eqb).
  Notation glue_graph := (@glue_graph opid prim opid_eqb).
  Notation glue_ctx := (@glue_ctx opid prim opid_eqb).
  Notation glue_key := (glue_key opid_eqb inst name).
  Notation discover := (discover opid_eqb inst).
  Notation pass := (pass opid_eqb inst name).

  Lemma key_eqb_eq (a b : key) : key_eqb a b = true <-> a = b.
  Proof.
    unfold Instantiate.key_eqb. destruct a as [o1 t1], b as [o2 t2]; simpl.
    rewrite andb_true_iff, opid_eqb_spec, list_ty_eqb_eq.
    split; [intros [-> ->]; reflexivity|intros H; inversion H; auto].
  Qed.
  Lemma key_eqb_refl (a : key) : key_eqb a a = true.
  Proof. apply key_eqb_eq; reflexivity. Qed.

  (* ---------------------------------------------------------------- names *)
  Lemma names_app (a b : list rgraph) : names (a ++ b) = names a ++ names b.
  Proof. unfold names. apply flat_map_app. Qed.
  Lemma names_anon (gs : list graph) : names (anon gs) = [].
  Proof. induction gs; simpl; auto. Qed.
  Lemma names_name_at i nm (gs : list graph) :
    (i < length gs)%nat -> names (name_at i nm gs) = [nm].
  Proof.
    revert i; induction gs as [|g r IH]; intros i Hi; simpl in *; [lia|].
    destruct i; simpl.
    - fold (names (anon r)). rewrite names_anon. reflexivity.
    - apply IH. lia.
  Qed.
  Lemma graphs_anon (gs : list graph) : map r_graph (anon gs) = gs.
  Proof. induction gs; simpl; congruence. Qed.
  Lemma graphs_name_at i nm (gs : list graph) : map r_graph (name_at i nm gs) = gs.
  Proof.
    revert i; induction gs as [|g r IH]; intros [|i]; simpl; try reflexivity.
    - rewrite graphs_anon. reflexivity.
    - rewrite IH. reflexivity.
  Qed.
  Lemma length_name_at i nm (gs : list graph) : length (name_at i nm gs) = length gs.
  Proof. rewrite <- (map_length r_graph), graphs_name_at. reflexivity. Qed.

  (* what one successful step of the gluing loop did *)
  Lemma glue_key_ok res ch k res' ch' :
    glue_key (Ok (res, ch)) k = Ok (res', ch') ->
    exists body gs,
      inst (fst k) (snd k) = Ok body /\
      glue_ctx ch res (c_graphs body) = Ok gs /\
      (N.to_nat (c_main body) < length gs)%nat /\
      ~ In (key_name k) (names res) /\
      res' = res ++ name_at (N.to_nat (c_main body)) (key_name k) gs /\
      ch' = (k, (N.of_nat (length res) + c_main body)%N) :: ch.
  Proof.
    unfold Instantiate.glue_key. cbn [bind].
    intros H. apply bind_ok in H as (body & Hb & H). apply bind_ok in H as (gs & Hg & H).
    destruct (N.to_nat (c_main body) <? length gs)%nat eqn:Hm; cbn [negb] in H; [|discriminate].
    destruct (existsb _ (names res)) eqn:Hn; [discriminate|].
    inversion H; subst. exists body, gs. repeat split; auto.
    - apply Nat.ltb_lt; exact Hm.
    - apply existsb_streqb_false; exact Hn.
  Qed.

  Lemma fold_glue_foldM l r :
    fold_left glue_key l r = foldM (fun s k => glue_key (Ok s) k) l r.
  Proof.
    unfold foldM. revert r; induction l as [|k l IH]; intros r; simpl; [reflexivity|].
    rewrite IH. f_equal; try (destruct r; reflexivity).
  Qed.

  Lemma fold_glue_names l : forall res ch res' ch',
    fold_left glue_key l (Ok (res, ch)) = Ok (res', ch') ->
    names res' = names res ++ map key_name l /\ (NoDup (names res) -> NoDup (names res')).
  Proof.
    induction l as [|k l IH]; intros res ch res' ch' H.
    - cbn [fold_left] in H. inversion H; subst. rewrite app_nil_r. auto.
    - cbn [fold_left] in H. destruct (glue_key (Ok (res, ch)) k) as [[res1 ch1]| | |] eqn:E.
      + apply glue_key_ok in E as (body & gs & _ & _ & Hm & Hn & -> & ->).
        apply IH in H as [H1 H2]. rewrite names_app, names_name_at in * by exact Hm.
        split.
        * rewrite H1, <- app_assoc. reflexivity.
        * intros Hnd. apply H2. apply NoDup_snoc; assumption.
      + rewrite fold_glue_foldM, foldM_notok in H by (intros; discriminate). discriminate.
      + rewrite fold_glue_foldM, foldM_notok in H by (intros; discriminate). discriminate.
      + rewrite fold_glue_foldM, foldM_notok in H by (intros; discriminate). discriminate.
  Qed.

  Lemma pass_ok fuel c r order :
    pass fuel c = Ok (r, order) ->
    exists res ch gs,
      discover fuel c = Ok order /\
      fold_left glue_key order (Ok ([], [])) = Ok (res, ch) /\
      glue_ctx ch res (c_graphs c) = Ok gs /\
      (N.to_nat (c_main c) < length gs)%nat /\
      r = mkRctx (res ++ anon gs) (N.of_nat (length res) + c_main c)%N.
  Proof.
    unfold Instantiate.pass. intros H.
    apply bind_ok in H as (order' & Hd & H). apply bind_ok in H as ([res ch] & Hf & H).
    apply bind_ok in H as (gs & Hg & H).
    destruct (N.to_nat (c_main c) <? length gs)%nat eqn:Hm; cbn [negb] in H; [|discriminate].
    inversion H; subst. exists res, ch, gs. repeat split; auto. apply Nat.ltb_lt; exact Hm.
  Qed.

  (* the names of the result are the names of the instantiations, in gluing order, and no
     name occurs twice *)
  Lemma pass_names_nodup fuel c r order :
    pass fuel c = Ok (r, order) ->
    names (rc_graphs r) = map key_name order /\ NoDup (names (rc_graphs r)).
  Proof.
    intros H. apply pass_ok in H as (res & ch & gs & _ & Hf & _ & _ & ->).
    apply fold_glue_names in Hf as [H1 H2]. simpl in *.
    rewrite names_app, names_anon, app_nil_r. split; [exact H1|apply H2; constructor].
  Qed.

  (* two different instantiations with one name: the pass cannot succeed *)
  Lemma names_collide_refutes fuel c order k1 k2 :
    discover fuel c = Ok order ->
    In k1 order -> In k2 order -> k1 <> k2 -> key_name k1 = key_name k2 ->
    forall r, pass fuel c <> Ok r.
  Proof.
    intros Hd H1 H2 Hne E [r order'] Hp.
    pose proof (pass_ok _ _ _ _ Hp) as (res & ch & gs & Hd' & _).
    rewrite Hd in Hd'. inversion Hd'; subst order'.
    apply pass_names_nodup in Hp as [Hn Hnd]. rewrite Hn in Hnd.
    apply Hne. eapply NoDup_map_inj_in; eauto.
  Qed.
End PassProofs.

(* ================================================================ semantics *)
Section SemProofs.
  Context {opid prim : Type}.
  Variable opid_eqb : opid -> opid -> bool.
  Hypothesis opid_eqb_spec : forall a b, opid_eqb a b = true <-> a = b.
  Variable inst : opid -> list ty -> result (ctx opid prim).
  Variable name : opid -> string.
  Variable value : Type.
  Variable eval_prim : prim -> list (gsem value) -> list value -> result value.

  Notation node := (node opid prim).
  Notation graph := (graph opid prim).
  Notation ctx := (ctx opid prim).
  Notation rgraph := (rgraph opid prim).
  Notation key := (@key opid).
  Notation key_eqb := (key_eqb opid_eqb).
  Notation lookup := (lookup opid_eqb).
  Notation glue_node := (@glue_node opid prim opid_eqb).
  Notation glue_graph := (@glue_graph opid prim opid_eqb).
  Notation glue_ctx := (@glue_ctx opid prim opid_eqb).
  Notation glue_key := (glue_key opid_eqb inst name).
  Notation pass := (pass opid_eqb inst name).
  Notation gsem := (gsem value).
  Notation eval_node := (eval_node value eval_prim).
  Notation eval_graph := (eval_graph value eval_prim).
  Notation eval_graphs := (eval_graphs value eval_prim).
  Notation eval_ctx := (eval_ctx value eval_prim).
  Notation eval_rctx := (eval_rctx value eval_prim).

  Definition exteq (f g : gsem) : Prop := forall vs, f vs = g vs.
  (* a primitive uses the graphs it depends on only through what they compute *)
  Definition prim_extensional : Prop :=
    forall p fs gs vs, Forall2 exteq fs gs -> eval_prim p fs vs = eval_prim p gs vs.
  Hypothesis eval_prim_ext : prim_extensional.

  Variable csem : key -> gsem.   (* meaning of custom nodes in the source *)
  Variable any : key -> gsem.    (* the result has no custom node: irrelevant *)

  Definition cache_ok (env : list gsem) (ch : @cache opid) : Prop :=
    forall k gi, lookup k ch = Some gi ->
                 exists f, nth_error env (N.to_nat gi) = Some f /\ exteq f (csem k).

  Lemma nth_shift {A} (env s1 : list A) d :
    nth_error (env ++ s1) (N.to_nat (N.of_nat (length env) + d)) = nth_error s1 (N.to_nat d).
  Proof.
    rewrite N2Nat.inj_add, Nat2N.id, nth_error_app2 by lia. f_equal. lia.
  Qed.

  Lemma sim_sems env s1 s2 gd :
    Forall2 exteq s1 s2 ->
    match get_sems value (env ++ s1) (map (N.add (N.of_nat (length env))) gd),
          get_sems value s2 gd with
    | Ok a, Ok b => Forall2 exteq a b
    | Err, Err => True
    | _, _ => False
    end.
  Proof.
    intros Hs. unfold get_sems. induction gd as [|d gd IH]; cbn [map mapM]; [constructor|].
    rewrite nth_shift. pose proof (nth_error_Forall2 _ _ _ (N.to_nat d) Hs) as Hn.
    destruct (nth_error s1 (N.to_nat d)) as [f|], (nth_error s2 (N.to_nat d)) as [f2|];
      try contradiction; cbn [bind]; [|exact I].
    destruct (mapM _ (map _ gd)) as [a| | |], (mapM _ gd) as [b| | |]; try contradiction; cbn [bind]; auto.
  Qed.

  Lemma sim_node env s1 s2 ch res g g' n n' st :
    length env = length res -> cache_ok env ch -> Forall2 exteq s1 s2 ->
    glue_node ch res (N.of_nat (length res)) g n = Ok n' ->
    eval_node any (env ++ s1) g' st n' = eval_node csem s2 g st n.
  Proof.
    intros Hlen Hc Hs Hg. destruct st as [vals ins]. rewrite <- Hlen in Hg.
    destruct n as [t|p deps gdeps t|gc deps t|o deps t]; cbn [Instantiate.glue_node] in Hg.
    - inversion Hg; subst. reflexivity.
    - inversion Hg; subst. cbn [Instantiate.eval_node].
      destruct (get_vals value vals deps) as [vs| | |]; cbn [bind]; try reflexivity.
      pose proof (sim_sems env s1 s2 gdeps Hs) as H.
      destruct (get_sems value (env ++ s1) _) as [a| | |], (get_sems value s2 gdeps) as [b| | |];
        try contradiction; cbn [bind]; try reflexivity.
      rewrite (eval_prim_ext p a b vs H). reflexivity.
    - inversion Hg; subst. cbn [Instantiate.eval_node].
      destruct (get_vals value vals deps) as [vs| | |]; cbn [bind]; try reflexivity.
      rewrite nth_shift. pose proof (nth_error_Forall2 _ _ _ (N.to_nat gc) Hs) as Hn.
      destruct (nth_error s1 (N.to_nat gc)) as [f|], (nth_error s2 (N.to_nat gc)) as [f2|];
        try contradiction; [|reflexivity].
      rewrite (Hn vs). reflexivity.
    - apply bind_ok in Hg as (tys & Ht & Hg).
      destruct (lookup (o, tys) ch) as [gi|] eqn:Hl; [|discriminate].
      destruct (nth_error res (N.to_nat gi)) as [callee|]; [|discriminate].
      destruct (list_eqb ty_eqb _ tys); [|discriminate].
      inversion Hg; subst. cbn [Instantiate.eval_node].
      destruct (get_vals value vals deps) as [vs| | |]; cbn [bind]; try reflexivity.
      rewrite Ht; cbn [bind].
      destruct (Hc _ _ Hl) as (f & Hf & Hfe).
      assert (nth_error (env ++ s1) (N.to_nat gi) = Some f) as ->.
      { rewrite nth_error_app1; [exact Hf|]. apply nth_error_Some. congruence. }
      rewrite (Hfe vs). reflexivity.
  Qed.

  Lemma sim_fold env s1 s2 ch res g g' :
    length env = length res -> cache_ok env ch -> Forall2 exteq s1 s2 ->
    forall l l', Forall2 (fun n n' => glue_node ch res (N.of_nat (length res)) g n = Ok n') l l' ->
    forall acc,
      fold_left (fun acc n => let* st := acc in eval_node any (env ++ s1) g' st n) l' acc =
      fold_left (fun acc n => let* st := acc in eval_node csem s2 g st n) l acc.
  Proof.
    intros Hlen Hc Hs l l' H. induction H as [|n n' l l' Hn Hl IH]; intros acc; cbn [fold_left]; [reflexivity|].
    rewrite IH. f_equal. destruct acc as [st| | |]; cbn [bind]; try reflexivity.
    eapply sim_node; eauto.
  Qed.

  Lemma sim_graph env s1 s2 ch res g g' :
    length env = length res -> cache_ok env ch -> Forall2 exteq s1 s2 ->
    glue_graph ch res (N.of_nat (length res)) g = Ok g' ->
    exteq (eval_graph any (env ++ s1) g') (eval_graph csem s2 g).
  Proof.
    intros Hlen Hc Hs Hg ins. unfold Instantiate.glue_graph in Hg.
    apply bind_ok in Hg as (ns & Hns & Hg). inversion Hg; subst; clear Hg.
    apply mapM_Forall2 in Hns. unfold Instantiate.eval_graph. cbn [g_nodes g_out].
    rewrite (sim_fold env s1 s2 ch res (g_nodes g) ns Hlen Hc Hs _ _ Hns). reflexivity.
  Qed.

  Lemma sim_graphs env ch res :
    length env = length res -> cache_ok env ch ->
    forall gs gs', Forall2 (fun g g' => glue_graph ch res (N.of_nat (length res)) g = Ok g') gs gs' ->
    forall s1 s2, Forall2 exteq s1 s2 ->
    exists s1', eval_graphs any gs' (env ++ s1) = env ++ s1' /\
                Forall2 exteq s1' (eval_graphs csem gs s2).
  Proof.
    intros Hlen Hc gs gs' H. induction H as [|g g' gs gs' Hg Hgs IH]; intros s1 s2 Hs; cbn [Instantiate.eval_graphs].
    - exists s1. split; [reflexivity|exact Hs].
    - rewrite <- app_assoc. apply IH. apply Forall2_app; [exact Hs|].
      constructor; [|constructor]. eapply sim_graph; eauto.
  Qed.

  Lemma eval_graphs_app (a b : list graph) sem env :
    Instantiate.eval_graphs value eval_prim sem (a ++ b) env =
    Instantiate.eval_graphs value eval_prim sem b (Instantiate.eval_graphs value eval_prim sem a env).
  Proof. revert env; induction a as [|g a IH]; intros env; simpl; [reflexivity|apply IH]. Qed.

  Lemma eval_graphs_length (a : list graph) sem env :
    length (Instantiate.eval_graphs value eval_prim sem a env) = (length env + length a)%nat.
  Proof.
    revert env; induction a as [|g a IH]; intros env; simpl; [lia|].
    rewrite IH, app_length. simpl. lia.
  Qed.

  Definition env_of (res : list rgraph) : list gsem := eval_graphs any (map r_graph res) [].

  (* gluing a whole context after [res] *)
  Lemma sim_ctx res ch gs gs' :
    cache_ok (env_of res) ch -> glue_ctx ch res gs = Ok gs' ->
    exists s1', eval_graphs any gs' (env_of res) = env_of res ++ s1' /\
                Forall2 exteq s1' (eval_graphs csem gs []) /\ length s1' = length gs.
  Proof.
    intros Hc Hg. unfold Instantiate.glue_ctx in Hg. apply mapM_Forall2 in Hg.
    assert (length (env_of res) = length res) as Hlen.
    { unfold env_of. rewrite eval_graphs_length, map_length. reflexivity. }
    destruct (sim_graphs (env_of res) ch res Hlen Hc gs gs' Hg [] [] (Forall2_nil _)) as (s1' & H1 & H2).
    rewrite app_nil_r in H1. exists s1'. repeat split; auto.
    apply Forall2_len in H2. rewrite H2, eval_graphs_length. reflexivity.
  Qed.

  Lemma cache_ok_extend env s ch : cache_ok env ch -> cache_ok (env ++ s) ch.
  Proof.
    intros Hc k gi Hl. destruct (Hc k gi Hl) as (f & Hf & He). exists f. split; [|exact He].
    rewrite nth_error_app1; [exact Hf|]. apply nth_error_Some. congruence.
  Qed.

  Lemma fold_glue_sem l : forall res ch res' ch',
    (forall k, In k l -> consistent inst value eval_prim csem k) ->
    cache_ok (env_of res) ch ->
    fold_left glue_key l (Ok (res, ch)) = Ok (res', ch') ->
    cache_ok (env_of res') ch'.
  Proof.
    induction l as [|k l IH]; intros res ch res' ch' Hcons Hc H; cbn [fold_left] in H.
    - inversion H; subst; exact Hc.
    - destruct (glue_key (Ok (res, ch)) k) as [[res1 ch1]| | |] eqn:E;
        try (rewrite fold_glue_foldM, foldM_notok in H by (intros; discriminate); discriminate).
      apply (IH res1 ch1 res' ch'); [intros; apply Hcons; right; assumption| |exact H].
      apply glue_key_ok in E as (body & gs & Hb & Hg & Hm & _ & -> & ->).
      destruct (sim_ctx res ch _ _ Hc Hg) as (s1' & H1 & H2 & H3).
      assert (env_of (res ++ name_at (N.to_nat (c_main body)) (Instantiate.key_name name k) gs)
              = env_of res ++ s1') as Henv.
      { unfold env_of. rewrite map_app, graphs_name_at, eval_graphs_app. exact H1. }
      rewrite Henv. intros k' gi Hl. cbn [Instantiate.lookup] in Hl.
      destruct (key_eqb k' k) eqn:Ek.
      + apply (key_eqb_eq opid_eqb opid_eqb_spec) in Ek. subst k'. inversion Hl; subst gi; clear Hl.
        assert (length (env_of res) = length res) as Hlen.
        { unfold env_of. rewrite eval_graphs_length, map_length. reflexivity. }
        rewrite <- Hlen, nth_shift.
        pose proof (nth_error_Forall2 _ _ _ (N.to_nat (c_main body)) H2) as Hn.
        assert (Hcs := Hcons k (or_introl eq_refl) body Hb). unfold Instantiate.eval_ctx in Hcs.
        destruct (nth_error s1' (N.to_nat (c_main body))) as [f|] eqn:Ef.
        * destruct (nth_error (eval_graphs csem (c_graphs body) []) (N.to_nat (c_main body))) as [f2|];
            [|contradiction].
          exists f. split; [reflexivity|]. intros vs. rewrite Hcs. apply Hn.
        * apply nth_error_None in Ef.
          apply mapM_Forall2, Forall2_len in Hg. lia.
      + exact (cache_ok_extend _ s1' _ Hc k' gi Hl).
  Qed.

  (* Evaluating the instantiated context = evaluating the source context with every custom
     node read as the meaning of its own instantiation. *)
  Theorem inst_pass_sem fuel c r order :
    pass fuel c = Ok (r, order) ->
    (forall k, In k order -> consistent inst value eval_prim csem k) ->
    forall ins, eval_rctx any r ins = eval_ctx csem c ins.
  Proof.
    intros Hp Hcons ins.
    apply pass_ok in Hp as (res & ch & gs & _ & Hf & Hg & Hm & ->).
    assert (cache_ok (env_of res) ch) as Hc.
    { eapply fold_glue_sem; [exact Hcons| |exact Hf]. intros k gi Hl; discriminate. }
    destruct (sim_ctx res ch _ _ Hc Hg) as (s1' & H1 & H2 & H3).
    unfold Instantiate.eval_rctx, Instantiate.eval_ctx. cbn [c_graphs c_main rc_graphs rc_main].
    rewrite map_app, graphs_anon, eval_graphs_app. fold (env_of res). rewrite H1.
    assert (length (env_of res) = length res) as Hlen.
    { unfold env_of. rewrite eval_graphs_length, map_length. reflexivity. }
    rewrite <- Hlen, nth_shift.
    pose proof (nth_error_Forall2 _ _ _ (N.to_nat (c_main c)) H2) as Hn.
    destruct (nth_error s1' _) as [f|], (nth_error (eval_graphs csem (c_graphs c) []) _) as [f2|];
      try contradiction; [apply Hn|reflexivity].
  Qed.
End SemProofs.

(* ================================================================ totality *)
Lemma mapM_total {A B} (f : A -> result B) l :
  (forall x, In x l -> exists y, f x = Ok y) -> exists l', mapM f l = Ok l'.
Proof.
  induction l as [|x xs IH]; intros H; simpl; [eexists; reflexivity|].
  destruct (H x (or_introl eq_refl)) as (y & ->).
  destruct IH as (ys & ->); [intros; apply H; right; assumption|]. eexists; reflexivity.
Qed.

Section TotalProofs.
  Context {opid prim : Type}.
  Variable opid_eqb : opid -> opid -> bool.
  Hypothesis opid_eqb_spec : forall a b, opid_eqb a b = true <-> a = b.
  Variable inst : opid -> list ty -> result (ctx opid prim).
  Variable name : opid -> string.

  Notation node := (node opid prim).
  Notation graph := (graph opid prim).
  Notation ctx := (ctx opid prim).
  Notation rgraph := (rgraph opid prim).
  Notation key := (@key opid).
  Notation key_eqb := (key_eqb opid_eqb).
  Notation key_name := (key_name name).
  Notation mem := (mem opid_eqb).
  Notation lookup := (lookup opid_eqb).
  Notation glue_node := (@glue_node opid prim opid_eqb).
  Notation glue_graph := (@glue_graph opid prim opid_eqb).
  Notation glue_ctx := (@glue_ctx opid prim opid_eqb).
  Notation glue_key := (glue_key opid_eqb inst name).
  Notation process := (process opid_eqb inst).
  Notation visit := (visit opid_eqb).
  Notation discover := (discover opid_eqb inst).
  Notation pass := (pass opid_eqb inst name).
  Notation ctx_keys := (@ctx_keys opid prim).

  Lemma mem_In (k : key) l : mem k l = true <-> In k l.
  Proof.
    unfold Instantiate.mem. rewrite existsb_exists. split.
    - intros (x & Hx & E). apply (key_eqb_eq opid_eqb opid_eqb_spec) in E. subst; exact Hx.
    - intros H. exists k. split; [exact H|apply (key_eqb_refl opid_eqb opid_eqb_spec)].
  Qed.
  Lemma mem_not_In (k : key) l : mem k l = false -> ~ In k l.
  Proof. intros H Hin. apply mem_In in Hin. congruence. Qed.

  (* the keys a body needs are all in [p] *)
  Definition body_keys_in (k : key) (p : list key) : Prop :=
    exists body ks, inst (fst k) (snd k) = Ok body /\ ctx_keys body = Ok ks /\
                    forall k', In k' ks -> In k' p.
  (* a gluing order: every key comes after the keys its body needs, and only once *)
  Inductive topo : list key -> Prop :=
  | topo_nil : topo []
  | topo_snoc p k : topo p -> body_keys_in k p -> ~ In k p -> topo (p ++ [k]).

  (* ---------------------------------------------------------------- discovery *)
  Definition WF (s : @dstate opid) : Prop := topo (done s) /\ incl (done s) (seen s).
  Definition ext (s s' : @dstate opid) : Prop :=
    incl (seen s) (seen s') /\
    exists d, done s' = done s ++ d /\ forall x, In x d -> ~ In x (seen s).
  Definition rec_spec (rec : key -> dstate -> result dstate) : Prop :=
    forall k s s', rec k s = Ok s' -> WF s -> In k (seen s) -> ~ In k (done s) ->
      WF s' /\ incl (seen s) (seen s') /\
      exists d, done s' = done s ++ d ++ [k] /\ forall x, In x d -> ~ In x (seen s).

  Lemma ext_refl s : ext s s.
  Proof. split; [apply incl_refl|]. exists []. rewrite app_nil_r. split; [reflexivity|intros x []]. Qed.
  Lemma ext_trans s1 s2 s3 : ext s1 s2 -> ext s2 s3 -> ext s1 s3.
  Proof.
    intros [H1 (d1 & E1 & F1)] [H2 (d2 & E2 & F2)]. split; [eapply incl_tran; eauto|].
    exists (d1 ++ d2). rewrite E2, E1, app_assoc. split; [reflexivity|].
    intros x Hx. apply in_app_iff in Hx as [Hx|Hx]; [auto|]. intros Hin. apply (F2 x Hx). auto.
  Qed.
  Lemma ext_done s s' x : ext s s' -> In x (done s) -> In x (done s').
  Proof. intros [_ (d & E & _)] H. rewrite E. apply in_app_iff; left; exact H. Qed.

  Lemma visit_spec rec : rec_spec rec ->
    forall k s s', visit rec k s = Ok s' -> WF s -> WF s' /\ ext s s' /\ In k (done s').
  Proof.
    intros Hrec k s s' H Hwf. unfold Instantiate.visit in H.
    destruct (mem k (seen s)) eqn:Es.
    - destruct (mem k (done s)) eqn:Ed; [|discriminate]. inversion H; subst.
      split; [exact Hwf|split; [apply ext_refl|apply mem_In; exact Ed]].
    - apply mem_not_In in Es. destruct Hwf as [Ht Hi].
      assert (WF (mkD (seen s ++ [k]) (done s))) as Hwf0.
      { split; [exact Ht|]. intros x Hx. apply in_app_iff; left; apply Hi; exact Hx. }
      assert (In k (seen (mkD (seen s ++ [k]) (done s)))) as Hin0.
      { apply in_app_iff; right; left; reflexivity. }
      assert (~ In k (done (mkD (seen s ++ [k]) (done s)))) as Hnd0.
      { intros Hin. apply Es. apply Hi; exact Hin. }
      destruct (Hrec _ _ _ H Hwf0 Hin0 Hnd0) as (Hwf' & Hs & d & E & F); cbn [seen done] in *.
      split; [exact Hwf'|split; [split|]].
      * intros x Hx. apply Hs. apply in_app_iff; left; exact Hx.
      * exists (d ++ [k]). split; [exact E|]. intros x Hx. apply in_app_iff in Hx as [Hx|[<-|[]]]; [|exact Es].
        intros Hin. apply (F x Hx). apply in_app_iff; left; exact Hin.
      * rewrite E, !in_app_iff. right; right; left; reflexivity.
  Qed.

  Lemma fold_visit_spec rec : rec_spec rec ->
    forall ks s s', foldM (fun s k => visit rec k s) ks (Ok s) = Ok s' -> WF s ->
      WF s' /\ ext s s' /\ forall k, In k ks -> In k (done s').
  Proof.
    intros Hrec ks. induction ks as [|k ks IH]; intros s s' H Hwf.
    - inversion H; subst. split; [exact Hwf|split; [apply ext_refl|intros k []]].
    - unfold foldM in H. cbn [fold_left bind] in H. fold (foldM (fun s k => visit rec k s) ks (visit rec k s)) in H.
      destruct (visit rec k s) as [s1| | |] eqn:E;
        try (rewrite foldM_notok in H by (intros; discriminate); discriminate).
      destruct (visit_spec rec Hrec _ _ _ E Hwf) as (Hwf1 & He1 & Hk).
      destruct (IH _ _ H Hwf1) as (Hwf' & He & Hks).
      split; [exact Hwf'|split; [eapply ext_trans; eauto|]].
      intros k' [<-|Hk']; [eapply ext_done; eauto|auto].
  Qed.

  Lemma process_spec fuel : rec_spec (process fuel).
  Proof.
    induction fuel as [|f IH]; intros k s s' H Hwf Hk Hnd; cbn [Instantiate.process] in H; [discriminate|].
    apply bind_ok in H as (body & Hb & H). apply bind_ok in H as (ks & Hks & H).
    apply bind_ok in H as (s1 & Hf & H). inversion H; subst; clear H. cbn [seen done].
    destruct (fold_visit_spec _ IH ks s s1 Hf Hwf) as ([Ht1 Hi1] & [Hs1 (d & E & F)] & Hin).
    split; [split|split].
    - constructor; [exact Ht1| |].
      + exists body, ks. auto.
      + rewrite E. intros Hx. apply in_app_iff in Hx as [Hx|Hx]; [auto|]. apply (F k Hx Hk).
    - intros x Hx. apply in_app_iff in Hx as [Hx|[<-|[]]]; auto.
    - exact Hs1.
    - exists d. rewrite E, app_assoc. auto.
  Qed.

  Lemma discover_topo fuel c order :
    discover fuel c = Ok order ->
    topo order /\ exists ks, ctx_keys c = Ok ks /\ forall k, In k ks -> In k order.
  Proof.
    unfold Instantiate.discover. intros H.
    apply bind_ok in H as (ks & Hks & H). apply bind_ok in H as (s & Hf & H). inversion H; subst.
    destruct (fold_visit_spec _ (process_spec fuel) ks _ s Hf) as ([Ht _] & _ & Hin).
    { split; [constructor|intros x []]. }
    split; [exact Ht|]. exists ks. auto.
  Qed.

  (* ---------------------------------------------------------------- gluing succeeds *)
  Definition good (res : list rgraph) (ch : @cache opid) (k : key) : Prop :=
    exists gi callee, lookup k ch = Some gi /\ nth_error res (N.to_nat gi) = Some callee /\
                      input_types (r_graph callee) = snd k.

  Lemma nodes_keys_spec (G : list node) ns ks :
    nodes_keys G ns = Ok ks ->
    forall o deps t, In (NCustom o deps t) ns ->
                     exists tys, dep_types G deps = Ok tys /\ In (o, tys) ks.
  Proof.
    revert ks; induction ns as [|n ns IH]; intros ks H o deps t Hin; [destruct Hin|].
    destruct n as [t0|p d g t0|gc d t0|o0 d t0]; cbn [nodes_keys] in H;
      try (destruct Hin as [Hin|Hin]; [discriminate|eapply IH; eauto]).
    apply bind_ok in H as (tys & Ht & H). apply bind_ok in H as (ks' & Hk & H). inversion H; subst.
    destruct Hin as [Hin|Hin].
    - inversion Hin; subst. exists tys. split; [exact Ht|left; reflexivity].
    - destruct (IH _ Hk _ _ _ Hin) as (tys' & H1 & H2). exists tys'. split; [exact H1|right; exact H2].
  Qed.

  Lemma ctx_keys_spec (c : ctx) ks g :
    ctx_keys c = Ok ks -> In g (c_graphs c) ->
    exists ks', graph_keys g = Ok ks' /\ incl ks' ks.
  Proof.
    unfold Instantiate.ctx_keys. intros H Hg. apply bind_ok in H as (kss & Hm & H). inversion H; subst. clear H.
    apply mapM_Forall2 in Hm. revert Hg. induction Hm as [|g0 ks0 gs kss Hg0 Hgs IH]; intros Hg; [destruct Hg|].
    destruct Hg as [<-|Hg].
    - exists ks0. split; [exact Hg0|]. intros x Hx. simpl. apply in_app_iff; left; exact Hx.
    - destruct (IH Hg) as (ks' & H1 & H2). exists ks'. split; [exact H1|].
      intros x Hx. simpl. apply in_app_iff; right; apply H2; exact Hx.
  Qed.

  Lemma glue_ctx_total res ch (c : ctx) ks :
    ctx_keys c = Ok ks -> (forall k, In k ks -> good res ch k) ->
    exists gs, glue_ctx ch res (c_graphs c) = Ok gs.
  Proof.
    intros Hks Hgood. unfold Instantiate.glue_ctx. apply mapM_total. intros g Hg.
    destruct (ctx_keys_spec c ks g Hks Hg) as (ks' & Hk' & Hincl).
    unfold Instantiate.glue_graph.
    destruct (mapM_total (glue_node ch res (N.of_nat (length res)) (g_nodes g)) (g_nodes g)) as (ns & ->).
    - intros n Hn. destruct n as [t|p d gd t|gc d t|o d t]; cbn [Instantiate.glue_node]; try (eexists; reflexivity).
      destruct (nodes_keys_spec _ _ _ Hk' _ _ _ Hn) as (tys & -> & Hin). cbn [bind].
      destruct (Hgood _ (Hincl _ Hin)) as (gi & callee & -> & -> & Hty). cbn [snd] in Hty.
      rewrite Hty. rewrite (proj2 (list_ty_eqb_eq tys tys) eq_refl). eexists; reflexivity.
    - eexists; reflexivity.
  Qed.

  Lemma glue_node_input ch res off G n n' :
    glue_node ch res off G n = Ok n' ->
    match n' with NInput t => [t] | _ => [] end = match n with NInput t => [t] | _ => [] end.
  Proof.
    destruct n as [t|p d gd t|gc d t|o d t]; cbn [Instantiate.glue_node]; intros H;
      try (inversion H; subst; reflexivity).
    apply bind_ok in H as (tys & _ & H).
    destruct (lookup _ ch); [|discriminate]. destruct (nth_error res _); [|discriminate].
    destruct (list_eqb _ _ _); [|discriminate]. inversion H; reflexivity.
  Qed.

  Lemma glue_nodes_inputs ch res off G (l l' : list node) :
    Forall2 (fun n n' => glue_node ch res off G n = Ok n') l l' ->
    flat_map (fun n => match n with NInput t => [t] | _ => [] end) l' =
    flat_map (fun n => match n with NInput t => [t] | _ => [] end) l.
  Proof.
    induction 1 as [|n n' l l' Hn Hl IH]; simpl; [reflexivity|].
    rewrite IH. f_equal. eapply glue_node_input; eauto.
  Qed.

  Lemma glue_graph_inputs ch res off g g' :
    glue_graph ch res off g = Ok g' -> input_types g' = input_types g.
  Proof.
    unfold Instantiate.glue_graph. intros H. apply bind_ok in H as (ns & Hns & H). inversion H; subst.
    apply mapM_Forall2 in Hns. unfold input_types; cbn [g_nodes].
    eapply glue_nodes_inputs; eauto.
  Qed.

  Lemma nth_name_at i nm (gs : list graph) g :
    nth_error gs i = Some g -> nth_error (name_at i nm gs) i = Some (mkR (Some nm) g).
  Proof.
    revert i; induction gs as [|g0 r IH]; intros [|i] H; simpl in *; try discriminate.
    - inversion H; reflexivity.
    - apply IH; exact H.
  Qed.

  Lemma good_extend res ch k extra k0 gi0 :
    good res ch k -> k <> k0 -> good (res ++ extra) ((k0, gi0) :: ch) k.
  Proof.
    intros (gi & callee & Hl & Hn & Ht) Hne. exists gi, callee. repeat split; auto.
    - cbn [Instantiate.lookup]. destruct (key_eqb k k0) eqn:E; [|exact Hl].
      apply (key_eqb_eq opid_eqb opid_eqb_spec) in E. contradiction.
    - rewrite nth_error_app1; [exact Hn|]. apply nth_error_Some. congruence.
  Qed.

  Lemma fold_glue_total order :
    topo order -> (forall k, In k order -> sig_ok inst k) ->
    (forall k1 k2, In k1 order -> In k2 order -> key_name k1 = key_name k2 -> k1 = k2) ->
    exists res ch, fold_left glue_key order (Ok ([], [])) = Ok (res, ch) /\
                   names res = map key_name order /\
                   forall k, In k order -> good res ch k.
  Proof.
    induction 1 as [|p k Hp IH Hbody Hnin]; intros Hsig Hinj.
    - exists [], []. repeat split; auto. intros k [].
    - destruct IH as (res & ch & Hf & Hn & Hgood).
      { intros; apply Hsig; apply in_app_iff; left; assumption. }
      { intros k1 k2 H1 H2. apply Hinj; apply in_app_iff; left; assumption. }
      rewrite fold_left_app, Hf. cbn [fold_left].
      destruct Hbody as (body & ks & Hb & Hks & Hin).
      destruct (glue_ctx_total res ch body ks Hks) as (gs & Hg); [intros; apply Hgood; auto|].
      destruct (Hsig k) as (body' & gm & Hb' & Hgm & Hty); [apply in_app_iff; right; left; reflexivity|].
      rewrite Hb in Hb'. inversion Hb'; subst body'; clear Hb'.
      assert (Hlen : length gs = length (c_graphs body)).
      { unfold Instantiate.glue_ctx in Hg. apply mapM_Forall2, Forall2_len in Hg. congruence. }
      assert (Hm : (N.to_nat (c_main body) < length gs)%nat).
      { rewrite Hlen. apply nth_error_Some. congruence. }
      unfold Instantiate.glue_key at 1. cbn [bind]. rewrite Hb; cbn [bind]. rewrite Hg; cbn [bind].
      rewrite (proj2 (Nat.ltb_lt _ _) Hm). cbn [negb].
      assert (existsb (String.eqb (key_name k)) (names res) = false) as ->.
      { destruct (existsb _ (names res)) eqn:E; [|reflexivity]. exfalso.
        apply existsb_exists in E as (x & Hx & E). apply String.eqb_eq in E. subst x.
        rewrite Hn in Hx. apply in_map_iff in Hx as (k' & Hk' & Hin').
        assert (k' = k) as ->; [|contradiction].
        apply Hinj; [apply in_app_iff; left; exact Hin'|apply in_app_iff; right; left; reflexivity|exact Hk']. }
      eexists _, _. split; [reflexivity|]. split.
      + rewrite names_app, names_name_at, Hn, map_app by exact Hm. reflexivity.
      + intros k' Hk'. apply in_app_iff in Hk' as [Hk'|[<-|[]]].
        * apply good_extend; [apply Hgood; exact Hk'|]. intros ->; contradiction.
        * (* the new entry *)
          unfold Instantiate.glue_ctx in Hg. apply mapM_Forall2 in Hg.
          pose proof (nth_error_Forall2 _ _ _ (N.to_nat (c_main body)) Hg) as Hnth.
          rewrite Hgm in Hnth. destruct (nth_error gs (N.to_nat (c_main body))) as [g'|] eqn:Eg; [|contradiction].
          exists (N.of_nat (length res) + c_main body)%N, (mkR (Some (key_name k)) g').
          repeat split.
          -- cbn [Instantiate.lookup]. rewrite (key_eqb_refl opid_eqb opid_eqb_spec). reflexivity.
          -- rewrite N2Nat.inj_add, Nat2N.id, nth_error_app2 by lia.
             replace (length res + N.to_nat (c_main body) - length res)%nat with (N.to_nat (c_main body)) by lia.
             apply nth_name_at; exact Eg.
          -- cbn [r_graph]. rewrite (glue_graph_inputs _ _ _ _ _ Hnth). exact Hty.
  Qed.

  Theorem inst_pass_total fuel (c : ctx) order :
    (N.to_nat (c_main c) < length (c_graphs c))%nat ->
    discover fuel c = Ok order ->
    (forall k, In k order -> sig_ok inst k) ->
    (forall k1 k2, In k1 order -> In k2 order -> key_name k1 = key_name k2 -> k1 = k2) ->
    exists r, pass fuel c = Ok (r, order) /\
              names (rc_graphs r) = map key_name order /\ NoDup (names (rc_graphs r)).
  Proof.
    intros Hmain Hd Hsig Hinj.
    destruct (discover_topo _ _ _ Hd) as (Ht & ks & Hks & Hin).
    destruct (fold_glue_total order Ht Hsig Hinj) as (res & ch & Hf & Hn & Hgood).
    destruct (glue_ctx_total res ch c ks Hks) as (gs & Hg); [intros; apply Hgood; auto|].
    assert (Hlen : length gs = length (c_graphs c)).
    { unfold Instantiate.glue_ctx in Hg. apply mapM_Forall2, Forall2_len in Hg. congruence. }
    assert (Hp : pass fuel c = Ok (mkRctx (res ++ anon gs) (N.of_nat (length res) + c_main c)%N, order)).
    { unfold Instantiate.pass. rewrite Hd; cbn [bind]. rewrite Hf; cbn [bind]. rewrite Hg; cbn [bind].
      rewrite Hlen, (proj2 (Nat.ltb_lt _ _) Hmain). reflexivity. }
    eexists. split; [exact Hp|]. exact (pass_names_nodup opid_eqb inst name _ _ _ _ Hp).
  Qed.
End TotalProofs.
